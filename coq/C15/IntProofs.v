(* C15 — proofs about the integer directives ~D ~B ~O ~X ~nR: digits in a base, the comma loop of
   dirInt against grouping from the right, reading the text back, width, where the commas are. *)
From C15 Require Import Model Spec.
From Coq Require Import ZifyBool.
Ltac Zify.zify_post_hook ::= Z.to_euclidean_division_equations.
Open Scope list_scope.

(* ---- digits -------------------------------------------------------------------------------- *)
Fixpoint value_rev (b : N) (l : list N) : N :=
  match l with [] => 0%N | d :: l' => (d + b * value_rev b l')%N end.

Lemma digits_rev_fuel_value : forall f b n, (2 <= b)%N -> (n < 2 ^ N.of_nat f)%N ->
  value_rev b (digits_rev_fuel f b n) = n.
Proof.
  induction f as [|f IH]; intros b n Hb Hn.
  - cbn in Hn. cbn. lia.
  - cbn [digits_rev_fuel]. destruct (n <? b)%N eqn:E.
    + cbn. lia.
    + cbn [value_rev]. rewrite IH; auto.
      * apply N.ltb_ge in E. pose proof (N.div_mod n b). lia.
      * rewrite Nat2N.inj_succ, N.pow_succ_r' in Hn.
        apply N.ltb_ge in E.
        assert (n / b <= n / 2)%N by (apply N.div_le_compat_l; lia).
        assert (n / 2 < 2 ^ N.of_nat f)%N by (apply N.div_lt_upper_bound; lia).
        lia.
Qed.
Lemma fuel_enough : forall n, (n < 2 ^ N.of_nat (S (N.to_nat (N.log2 n))))%N.
Proof.
  intros n. rewrite Nat2N.inj_succ, N2Nat.id.
  destruct n as [|p]. { cbn. lia. }
  apply N.log2_spec. lia.
Qed.
Lemma digits_rev_value : forall b n, (2 <= b)%N -> value_rev b (digits_rev b n) = n.
Proof. intros. unfold digits_rev. apply digits_rev_fuel_value; auto. apply fuel_enough. Qed.

Lemma of_digits_acc : forall b l acc,
  fold_left (fun a d => (a * b + d)%N) l acc = (acc * b ^ N.of_nat (List.length l) + fold_left (fun a d => (a * b + d)%N) l 0)%N.
Proof.
  induction l as [|d l IH]; intros acc.
  - cbn. lia.
  - cbn [fold_left List.length]. rewrite IH. rewrite (IH (0 * b + d)%N).
    rewrite Nat2N.inj_succ, N.pow_succ_r'. lia.
Qed.
Lemma of_digits_rev : forall b l, of_digits b (rev l) = value_rev b l.
Proof.
  unfold of_digits. induction l as [|d l IH].
  - reflexivity.
  - cbn [rev value_rev]. rewrite fold_left_app. cbn [fold_left]. rewrite IH. lia.
Qed.
Theorem of_digits_digits : forall b n, (2 <= b)%N -> of_digits b (digits b n) = n.
Proof. intros. unfold digits. rewrite of_digits_rev. apply digits_rev_value; auto. Qed.

Lemma digits_rev_fuel_bound : forall f b n, (2 <= b)%N -> Forall (fun d => (d < b)%N) (digits_rev_fuel f b n).
Proof.
  induction f as [|f IH]; intros b n Hb; cbn [digits_rev_fuel]. { constructor. }
  destruct (n <? b)%N eqn:E.
  - constructor; [apply N.ltb_lt in E; auto | constructor].
  - constructor; [apply N.mod_lt; lia | apply IH; auto].
Qed.
Theorem digits_bound : forall b n, (2 <= b)%N -> Forall (fun d => (d < b)%N) (digits b n).
Proof. intros. unfold digits, digits_rev. apply Forall_rev. apply digits_rev_fuel_bound; auto. Qed.
Lemma digits_rev_fuel_nonempty : forall f b n, digits_rev_fuel (S f) b n <> [].
Proof. intros. cbn. destruct (n <? b)%N; discriminate. Qed.
Lemma digits_nonempty : forall b n, digits b n <> [].
Proof.
  intros b n H. unfold digits, digits_rev in H.
  apply (f_equal (@rev N)) in H. rewrite rev_involutive in H. cbn [rev] in H.
  eapply digits_rev_fuel_nonempty; eauto.
Qed.
(* no leading zero: the last digit of the least-significant-first list is not 0 unless the number is 0 *)
Lemma digits_rev_fuel_last : forall f b n, (2 <= b)%N -> (0 < n)%N -> (n < 2 ^ N.of_nat f)%N ->
  last (digits_rev_fuel f b n) 0%N <> 0%N.
Proof.
  induction f as [|f IH]; intros b n Hb Hn Hf.
  - cbn in Hf. lia.
  - cbn [digits_rev_fuel]. destruct (n <? b)%N eqn:E.
    + cbn. lia.
    + apply N.ltb_ge in E.
      assert (0 < n / b)%N by (apply N.div_str_pos; lia).
      assert (n / b < 2 ^ N.of_nat f)%N.
      { rewrite Nat2N.inj_succ, N.pow_succ_r' in Hf.
        assert (n / b <= n / 2)%N by (apply N.div_le_compat_l; lia).
        assert (n / 2 < 2 ^ N.of_nat f)%N by (apply N.div_lt_upper_bound; lia). lia. }
      specialize (IH b (n / b)%N Hb H H0).
      destruct f as [|f']. { cbn in H0. lia. }
      remember (digits_rev_fuel (S f') b (n / b)) as l.
      destruct l as [|x l]. { exfalso. eapply digits_rev_fuel_nonempty; eauto. }
      cbn [last]. exact IH.
Qed.
Lemma hd_rev_last : forall (l : list N) d, hd d (rev l) = last l d.
Proof.
  intros l d. induction l as [|x l IH] using rev_ind. { reflexivity. }
  rewrite rev_app_distr, last_last. reflexivity.
Qed.
Theorem digits_no_leading_zero : forall b n, (2 <= b)%N -> (0 < n)%N -> hd 0%N (digits b n) <> 0%N.
Proof.
  intros. unfold digits. rewrite hd_rev_last. unfold digits_rev.
  apply digits_rev_fuel_last; auto. apply fuel_enough.
Qed.
Lemma digits_zero : forall b, (2 <= b)%N -> digits b 0 = [0%N].
Proof. intros. unfold digits, digits_rev. cbn. destruct (0 <? b)%N eqn:E; [reflexivity | apply N.ltb_ge in E; lia]. Qed.

(* ---- digit characters -------------------------------------------------------------------------- *)
Lemma char_digit_digit_char : forall d, (d < 36)%N -> char_digit (digit_char d) = d.
Proof.
  intros d H.
  assert (In d (map N.of_nat (seq 0 36))).
  { apply in_map_iff. exists (N.to_nat d). split; [lia | apply in_seq; lia]. }
  revert d H H0. cbn [seq map]. intros d _ H.
  repeat (destruct H as [<- | H]; [vm_compute; reflexivity |]). destruct H.
Qed.
Definition is_sign (a : ascii) : bool := ascii_eqb a "-" || ascii_eqb a "+".
Lemma digit_char_not_sign : forall d, (d < 36)%N -> is_sign (digit_char d) = false.
Proof.
  intros d H.
  assert (In d (map N.of_nat (seq 0 36))).
  { apply in_map_iff. exists (N.to_nat d). split; [lia | apply in_seq; lia]. }
  revert d H H0. cbn [seq map]. intros d _ H.
  repeat (destruct H as [<- | H]; [vm_compute; reflexivity |]). destruct H.
Qed.
Lemma map_char_digit : forall l, Forall (fun d => (d < 36)%N) l -> map char_digit (map digit_char l) = l.
Proof.
  induction 1 as [|d l Hd Hl IH]. { reflexivity. }
  cbn [map]. rewrite IH, char_digit_digit_char; auto.
Qed.
Lemma Forall_lt_weaken : forall (b : N) l, (b <= 36)%N -> Forall (fun d => (d < b)%N) l -> Forall (fun d => (d < 36)%N) l.
Proof. intros b l Hb H. eapply Forall_impl; [|exact H]. cbn. intros. lia. Qed.
Theorem parse_digit_text : forall b n, (2 <= b <= 36)%N -> parse_digits b (digit_text b n) = n.
Proof.
  intros b n [H1 H2]. unfold parse_digits, digit_text.
  rewrite map_char_digit. { apply of_digits_digits; auto. }
  eapply Forall_lt_weaken; eauto. apply digits_bound; auto.
Qed.

(* ---- grouping from the right ----------------------------------------------------------------------- *)
Lemma group_rev_short : forall k c l cnt, cnt + List.length l <= k -> group_rev k c cnt l = l.
Proof.
  induction l as [|d l IH]; intros cnt H. { reflexivity. }
  cbn [group_rev]. cbn [List.length] in H.
  destruct (Nat.eqb cnt k) eqn:E. { apply Nat.eqb_eq in E. lia. }
  rewrite IH; [reflexivity | lia].
Qed.
Lemma group_rev_full : forall k c l1 l2 cnt, 1 <= k -> cnt + List.length l1 = k -> l2 <> [] ->
  group_rev k c cnt (l1 ++ l2) = l1 ++ c :: group_rev k c 0 l2.
Proof.
  induction l1 as [|d l1 IH]; intros l2 cnt Hk H Hne.
  - cbn [List.length] in H. cbn [app]. destruct l2 as [|e l2]. { contradiction. }
    assert (cnt = k) by lia. subst cnt.
    cbn [group_rev]. rewrite Nat.eqb_refl.
    destruct (Nat.eqb 0 k) eqn:E. { apply Nat.eqb_eq in E. lia. }
    reflexivity.
  - cbn [app group_rev]. cbn [List.length] in H.
    destruct (Nat.eqb cnt k) eqn:E. { apply Nat.eqb_eq in E. lia. }
    rewrite IH; [reflexivity | lia | lia | auto].
Qed.
(* the groups written least significant first: every full group is followed by a comma *)
Lemma group_rev_chunks : forall k c cs h, Forall (fun x => List.length x = k) cs -> 1 <= List.length h <= k ->
  group_rev k c 0 (List.concat cs ++ h) = List.concat (map (fun x => x ++ [c]) cs) ++ h.
Proof.
  induction cs as [|x cs IH]; intros h Hc Hh.
  - cbn. apply group_rev_short. lia.
  - inversion Hc; subst. cbn [List.concat map]. rewrite <- !app_assoc.
    rewrite group_rev_full; [| lia | lia |].
    + rewrite IH by auto. cbn [app]. try rewrite <- !app_assoc. reflexivity.
    + destruct h; [cbn in Hh; lia|]. destruct (List.concat cs); discriminate.
Qed.
Lemma rev_concat : forall (A : Type) (L : list (list A)), rev (List.concat L) = List.concat (map (@rev A) (rev L)).
Proof.
  induction L as [|x L IH]. { reflexivity. }
  cbn [List.concat rev map]. rewrite rev_app_distr, IH, map_app, concat_app. cbn. rewrite app_nil_r. reflexivity.
Qed.
(* most significant first: a leading part of 1..k digits, then groups of k digits each preceded by a comma *)
Theorem group_chunks : forall k c h cs, Forall (fun x => List.length x = k) cs -> 1 <= List.length h <= k ->
  group k c (h ++ List.concat cs) = h ++ List.concat (map (cons c) cs).
Proof.
  intros k c h cs Hc Hh. unfold group.
  rewrite rev_app_distr, rev_concat.
  rewrite group_rev_chunks.
  - rewrite rev_app_distr, rev_involutive, rev_concat. f_equal.
    rewrite (map_rev (@rev ascii) cs), (map_rev (fun x : list ascii => x ++ [c])), rev_involutive, !map_map. f_equal.
    apply map_ext. intros x. rewrite rev_app_distr, rev_involutive. reflexivity.
  - apply Forall_forall. intros x Hx. apply in_map_iff in Hx. destruct Hx as [y [<- Hy]].
    rewrite rev_length. apply in_rev in Hy. rewrite Forall_forall in Hc. auto.
  - rewrite rev_length. auto.
Qed.

(* every non-empty text splits into such a leading part and full groups *)
Fixpoint chunks (fuel k : nat) (l : text) : list text :=
  match fuel with
  | O => []
  | S f => match l with [] => [] | _ => firstn k l :: chunks f k (skipn k l) end
  end.
Lemma chunks_spec : forall q k l, 1 <= k -> List.length l = q * k ->
  List.concat (chunks q k l) = l /\ Forall (fun x => List.length x = k) (chunks q k l) /\ List.length (chunks q k l) = q.
Proof.
  induction q as [|q IH]; intros k l Hk Hl.
  - cbn in Hl. destruct l; [|discriminate]. cbn. auto.
  - cbn [chunks]. destruct l as [|a l'] eqn:El. { cbn in Hl. lia. }
    rewrite <- El in *. clear El a l'.
    destruct (IH k (skipn k l) Hk) as [H1 [H2 H3]].
    { rewrite skipn_length. cbn in Hl. lia. }
    cbn [List.concat List.length]. rewrite H1, firstn_skipn. split; [reflexivity|]. split; [|lia].
    constructor; auto. rewrite firstn_length. cbn in Hl. lia.
Qed.
Lemma split_groups : forall k (ds : text), 1 <= k -> ds <> [] ->
  let q := (List.length ds - 1) / k in
  let r := List.length ds - q * k in
  exists h cs, ds = h ++ List.concat cs /\ Forall (fun x => List.length x = k) cs /\ List.length cs = q /\
               List.length h = r /\ 1 <= r <= k.
Proof.
  intros k ds Hk Hne q r.
  assert (Hlen : 1 <= List.length ds) by (destruct ds; [contradiction | cbn; lia]).
  assert (Hq : q * k <= List.length ds - 1) by (subst q; rewrite Nat.mul_comm; apply Nat.mul_div_le; lia).
  assert (Hr : List.length ds - 1 < q * k + k).
  { subst q. pose proof (Nat.div_mod (List.length ds - 1) k ltac:(lia)).
    pose proof (Nat.mod_upper_bound (List.length ds - 1) k ltac:(lia)). lia. }
  exists (firstn r ds), (chunks q k (skipn r ds)).
  destruct (chunks_spec q k (skipn r ds) Hk) as [H1 [H2 H3]].
  { rewrite skipn_length. subst r. lia. }
  rewrite H1, firstn_skipn. repeat split; auto.
  - rewrite firstn_length. subst r. lia.
  - subst r. lia.
  - subst r. lia.
Qed.

Lemma group_starts_with_digit_aux : forall k c (ds : text), 1 <= k -> ds <> [] -> hd zero (group k c ds) = hd zero ds.
Proof.
  intros k c ds Hk Hne.
  destruct (split_groups k ds Hk Hne) as [h [cs [Hds [Hc [_ [Hh Hr]]]]]].
  rewrite Hds at 1. rewrite group_chunks; auto; [| rewrite Hh; exact Hr]. rewrite Hds.
  destruct h; [rewrite <- Hh in Hr; cbn in Hr; lia | reflexivity].
Qed.

(* ---- the comma loop of dirInt is grouping from the right ------------------------------------------- *)
Lemma sub_app_mid : forall (A B C : text), sub (A ++ B ++ C) (List.length A) (List.length (A ++ B)) = B.
Proof.
  intros. unfold sub. rewrite skipn_app, skipn_all, Nat.sub_diag. cbn [skipn app].
  rewrite app_length, Nat.add_comm, Nat.add_sub, firstn_app, Nat.sub_diag. cbn [firstn].
  rewrite firstn_all, app_nil_r. reflexivity.
Qed.
Lemma go_group_loop_spec : forall k c cs A B acc fuel,
  1 <= k -> Forall (fun x => List.length x = k) cs -> List.length cs < fuel ->
  let '(acc', prev') := go_group_loop fuel (A ++ B ++ List.concat cs) [c] k (List.length (A ++ B)) (List.length A) acc in
  acc' ++ skipn prev' (A ++ B ++ List.concat cs) = acc ++ B ++ List.concat (map (cons c) cs).
Proof.
  intros k c cs. induction cs as [|x cs IH]; intros A B acc fuel Hk Hc Hf.
  - destruct fuel as [|f]. { cbn in Hf. lia. }
    cbn [go_group_loop List.concat map]. rewrite !app_nil_r.
    rewrite Nat.ltb_irrefl. rewrite skipn_app, skipn_all, Nat.sub_diag. reflexivity.
  - destruct fuel as [|f]. { cbn in Hf. lia. }
    inversion Hc; subst. cbn [go_group_loop].
    assert (Hlt : Nat.ltb (List.length (A ++ B)) (List.length (A ++ B ++ List.concat (x :: cs))) = true).
    { apply Nat.ltb_lt. rewrite !app_length. cbn [List.concat]. rewrite app_length. lia. }
    rewrite Hlt. rewrite sub_app_mid.
    cbn [List.concat map].
    specialize (IH (A ++ B) x (acc ++ B ++ [c]) f Hk H2 ltac:(cbn in Hf; lia)).
    replace (List.length (A ++ B) + List.length x) with (List.length ((A ++ B) ++ x)) by (rewrite !app_length; reflexivity).
    replace (A ++ B ++ x ++ List.concat cs) with ((A ++ B) ++ x ++ List.concat cs) by (rewrite <- !app_assoc; reflexivity).
    destruct (go_group_loop f ((A ++ B) ++ x ++ List.concat cs) [c] (List.length x) (List.length ((A ++ B) ++ x)) (List.length (A ++ B)) (acc ++ B ++ [c])) as [acc' prev'].
    rewrite IH. rewrite <- !app_assoc. reflexivity.
Qed.

Lemma concat_length_chunks : forall k (cs : list text), Forall (fun x => List.length x = k) cs ->
  List.length (List.concat cs) = List.length cs * k.
Proof. induction 1 as [|x l Hx Hl IH]; cbn [List.concat List.length]; [reflexivity | rewrite app_length, IH, Hx; lia]. Qed.
Definition sign_ok (sg : text) : Prop := sg = [] \/ sg = ["-"] \/ sg = ["+"].
Lemma sign_len_spec : forall sg ds, sign_ok sg -> ds <> [] -> is_sign (hd zero ds) = false ->
  sign_len (sg ++ ds) = List.length sg.
Proof.
  intros sg ds [-> | [-> | ->]] Hne Hd; try reflexivity.
  destruct ds as [|a ds]; [contradiction|]. cbn [hd] in Hd. unfold is_sign in Hd.
  unfold sign_len. cbn [app List.length]. rewrite Hd. reflexivity.
Qed.
(* out = sign ++ digits, as strconv.AppendInt writes it (with the + dirInt may put in front) *)
Theorem go_group_is_group : forall k c sg ds, 1 <= k -> sign_ok sg -> ds <> [] -> is_sign (hd zero ds) = false ->
  go_group (sg ++ ds) [c] k = sg ++ group k c ds.
Proof.
  intros k c sg ds Hk Hsg Hne Hd.
  destruct (split_groups k ds Hk Hne) as [h [cs [Hds [Hc [Hq [Hh Hr]]]]]].
  set (q := (List.length ds - 1) / k) in *. set (r := List.length ds - q * k) in *.
  unfold go_group. rewrite sign_len_spec; auto.
  assert (Hlen : List.length ds = r + q * k).
  { unfold r in *. lia. }
  assert (Hdiv : (List.length (sg ++ ds) - 1 - List.length sg) / k = q).
  { rewrite app_length. replace (List.length sg + List.length ds - 1 - List.length sg) with (List.length ds - 1) by lia.
    reflexivity. }
  rewrite Hdiv.
  assert (Hi : List.length (sg ++ ds) - q * k = List.length (sg ++ h)).
  { rewrite !app_length, Hh, Hlen. lia. }
  rewrite Hi.
  pose proof (go_group_loop_spec k c cs [] (sg ++ h) [] (List.length (sg ++ ds)) Hk Hc) as L.
  cbn [app List.length] in L.
  assert (Hfuel : List.length cs < List.length (sg ++ ds)).
  { rewrite app_length, Hlen, Hq. destruct Hr. nia. }
  specialize (L Hfuel).
  replace ((sg ++ h) ++ List.concat cs) with (sg ++ ds) in L by (rewrite Hds, app_assoc; reflexivity).
  destruct (go_group_loop (List.length (sg ++ ds)) (sg ++ ds) [c] k (List.length (sg ++ h)) 0 []) as [acc' prev'].
  rewrite L. rewrite Hds, group_chunks; auto; [| lia]. rewrite <- app_assoc. reflexivity.
Qed.

(* ---- dirInt = render_int on integers ------------------------------------------------------------------ *)
Lemma repeat_text_single : forall a n, repeat_text [a] n = repeat a n.
Proof. induction n; cbn; [reflexivity | rewrite IHn; reflexivity]. Qed.
Lemma digit_text_nonempty : forall b n, digit_text b n <> [].
Proof. intros b n H. unfold digit_text in H. apply map_eq_nil in H. eapply digits_nonempty; eauto. Qed.
Lemma digit_text_head : forall b n, (2 <= b <= 36)%N -> is_sign (hd zero (digit_text b n)) = false.
Proof.
  intros b n [H1 H2]. unfold digit_text.
  pose proof (digits_bound b n H1) as Hb. pose proof (digits_nonempty b n) as Hn.
  destruct (digits b n) as [|d l]; [contradiction|]. cbn [map hd].
  apply digit_char_not_sign. inversion Hb; subst. lia.
Qed.
Theorem go_int_text_is_render_int : forall base mincol pad comma k colon at_ z,
  (2 <= base <= 36)%N -> 1 <= k ->
  go_int_text base mincol [pad] [comma] k colon at_ (VInt z) = render_int base mincol pad comma k colon at_ z.
Proof.
  intros base mincol pad comma k colon at_ z Hb Hk.
  unfold go_int_text, render_int, pad_left, int_body, int_text, sign_text.
  set (ds := digit_text base (Z.abs_N z)).
  assert (Hne : ds <> []) by apply digit_text_nonempty.
  assert (Hhd : is_sign (hd zero ds) = false) by (apply digit_text_head; auto).
  assert (Hpad : forall out, (if Nat.ltb (List.length out) mincol then repeat_text [pad] (mincol - List.length out) else []) ++ out
                             = repeat pad (mincol - List.length out) ++ out).
  { intros out. destruct (Nat.ltb (List.length out) mincol) eqn:E.
    - rewrite repeat_text_single. reflexivity.
    - apply Nat.ltb_ge in E. replace (mincol - List.length out) with 0 by lia. reflexivity. }
  destruct (z <? 0)%Z eqn:Ez.
  - (* negative *)
    cbn [negb andb]. rewrite andb_false_r.
    destruct colon.
    + change ("-" :: ds) with (["-"] ++ ds)%list. rewrite go_group_is_group; [| assumption | unfold sign_ok; auto | assumption | assumption].
      apply Hpad.
    + apply Hpad.
  - cbn [negb]. rewrite andb_true_r. destruct at_.
    + destruct colon.
      * change ("+" :: ds) with (["+"] ++ ds)%list. rewrite go_group_is_group; [| assumption | unfold sign_ok; auto | assumption | assumption].
        apply Hpad.
      * apply Hpad.
    + destruct colon.
      * pose proof (go_group_is_group k comma [] ds Hk (or_introl eq_refl) Hne Hhd) as G. cbn [app] in G. rewrite G.
        apply Hpad.
      * apply Hpad.
Qed.

(* ---- reading the text back ---------------------------------------------------------------------------- *)
Lemma filter_group_rev : forall k c l cnt, Forall (fun a => ascii_eqb a c = false) l ->
  filter (fun a => negb (ascii_eqb a c)) (group_rev k c cnt l) = l.
Proof.
  induction l as [|d l IH]; intros cnt H. { reflexivity. }
  inversion H; subst. cbn [group_rev].
  assert (Hc : ascii_eqb c c = true) by (unfold ascii_eqb; apply N.eqb_refl).
  destruct (Nat.eqb cnt k); cbn [filter]; rewrite ?Hc, ?H2; cbn [negb]; rewrite IH; auto.
Qed.
Lemma filter_rev : forall (A : Type) (f : A -> bool) l, filter f (rev l) = rev (filter f l).
Proof.
  induction l as [|x l IH]. { reflexivity. }
  cbn [rev filter]. rewrite filter_app, IH. cbn [filter]. destruct (f x); cbn; [reflexivity | rewrite app_nil_r; reflexivity].
Qed.
Lemma strip_group : forall k c ds, Forall (fun a => ascii_eqb a c = false) ds -> strip_commas c (group k c ds) = ds.
Proof.
  intros. unfold strip_commas, group. rewrite filter_rev, filter_group_rev; [apply rev_involutive | apply Forall_rev; auto].
Qed.
Lemma strip_id : forall c ds, Forall (fun a => ascii_eqb a c = false) ds -> strip_commas c ds = ds.
Proof.
  intros c ds H. unfold strip_commas. induction H as [|a l Ha Hl IH]; [reflexivity|].
  cbn [filter]. rewrite Ha. cbn [negb]. rewrite IH. reflexivity.
Qed.
Lemma drop_while_repeat : forall pad n t, drop_while (ascii_eqb pad) (repeat pad n ++ t) = drop_while (ascii_eqb pad) t.
Proof.
  intros. induction n; [reflexivity|]. cbn [repeat app drop_while].
  assert (ascii_eqb pad pad = true) by (unfold ascii_eqb; apply N.eqb_refl). rewrite H. exact IHn.
Qed.
Lemma ascii_eqb_eq : forall a b, ascii_eqb a b = true -> a = b.
Proof.
  intros a b H. unfold ascii_eqb in H. apply N.eqb_eq in H.
  rewrite <- (ascii_N_embedding a), <- (ascii_N_embedding b). unfold code in H. rewrite H. reflexivity.
Qed.
Lemma ascii_eqb_sym : forall a b, ascii_eqb a b = ascii_eqb b a.
Proof. intros. unfold ascii_eqb. apply N.eqb_sym. Qed.

(* a comma character must not be a digit of the base nor a sign; a padding character must not be a sign nor
   a digit of the base other than 0 *)
Definition comma_ok (base : N) (c : ascii) : bool := negb (is_sign c) && (base <=? char_digit c)%N.
Definition pad_ok (base : N) (p : ascii) : bool := negb (is_sign p) && ((base <=? char_digit p)%N || ascii_eqb p "0").

Lemma digit_text_avoids : forall base n c, (2 <= base <= 36)%N -> (base <=? char_digit c)%N = true ->
  Forall (fun a => ascii_eqb a c = false) (digit_text base n).
Proof.
  intros base n c [H1 H2] Hc. unfold digit_text.
  pose proof (digits_bound base n H1) as Hb.
  induction Hb as [|d l Hd Hl IH]; cbn [map]; constructor; auto.
  destruct (ascii_eqb (digit_char d) c) eqn:E; [|reflexivity].
  apply ascii_eqb_eq in E. subst c. rewrite char_digit_digit_char in Hc by lia.
  apply N.leb_le in Hc. lia.
Qed.
Lemma parse_signed_digits : forall base n, (2 <= base <= 36)%N ->
  parse_signed base (digit_text base n) = Z.of_N n.
Proof.
  intros base n Hb. unfold parse_signed.
  pose proof (digit_text_head base n Hb) as Hh. pose proof (digit_text_nonempty base n) as Hn.
  pose proof (parse_digit_text base n Hb) as Hp.
  destruct (digit_text base n) as [|a t] eqn:E; [contradiction|].
  cbn [hd] in Hh. unfold is_sign in Hh. apply orb_false_iff in Hh. destruct Hh as [Hm Hpl].
  destruct a as [[] [] [] [] [] [] [] []]; try (rewrite Hp; reflexivity); vm_compute in Hm, Hpl; discriminate.
Qed.

Lemma strip_cons_keep : forall c a t, ascii_eqb a c = false -> strip_commas c (a :: t) = a :: strip_commas c t.
Proof. intros c a t H. unfold strip_commas. cbn [filter]. rewrite H. reflexivity. Qed.
Lemma drop_while_keep : forall pad a t, ascii_eqb pad a = false -> drop_while (ascii_eqb pad) (a :: t) = a :: t.
Proof. intros pad a t H. cbn [drop_while]. rewrite H. reflexivity. Qed.

(* no sign in front: the padding character may be 0, which is also the text of zero *)
Lemma read_back_unsigned : forall base pad comma (body : text) n,
  (2 <= base <= 36)%N -> is_sign pad = false -> (base <=? char_digit pad)%N || ascii_eqb pad "0" = true ->
  body <> [] -> hd zero body = hd zero (digit_text base n) -> strip_commas comma body = digit_text base n ->
  (n = 0%N -> body = ["0"]) ->
  parse_signed base (strip_commas comma (drop_while (ascii_eqb pad) body)) = Z.of_N n.
Proof.
  intros base pad comma body n Hb Hps Hpd Hne Hhd Hstrip Hzero.
  destruct (ascii_eqb pad (hd zero body)) eqn:Eh.
  - (* the body starts with the padding character: it is the digit 0, and the number is 0 *)
    apply ascii_eqb_eq in Eh. rewrite Hhd in Eh.
    assert (Hz : n = 0%N).
    { destruct (N.eq_dec n 0) as [|Hnz]; [auto|exfalso].
      pose proof (digits_no_leading_zero base n ltac:(lia) ltac:(lia)) as Hl.
      pose proof (digits_bound base n ltac:(lia)) as Hbd. pose proof (digits_nonempty base n) as Hdn.
      unfold digit_text in Eh. destruct (digits base n) as [|d l]; [contradiction|].
      cbn [map hd] in Eh, Hl. apply Forall_inv in Hbd.
      apply orb_true_iff in Hpd. destruct Hpd as [Hpd | Hpd].
      - rewrite Eh, char_digit_digit_char in Hpd by lia. apply N.leb_le in Hpd. lia.
      - apply ascii_eqb_eq in Hpd. rewrite Eh in Hpd.
        apply (f_equal char_digit) in Hpd. rewrite char_digit_digit_char in Hpd by lia. vm_compute in Hpd. lia. }
    rewrite (Hzero Hz), Hz. destruct (ascii_eqb pad "0") eqn:E0; cbn [drop_while]; rewrite E0.
    + reflexivity.
    + destruct (ascii_eqb "0" comma) eqn:Ec.
      * (* cannot happen: the stripped body is the digit text *)
        rewrite (Hzero Hz) in Hstrip. unfold strip_commas in Hstrip. cbn [filter] in Hstrip. rewrite Ec in Hstrip.
        cbn in Hstrip. symmetry in Hstrip. exfalso. eapply digit_text_nonempty; eauto.
      * rewrite strip_cons_keep by assumption. reflexivity.
  - assert (Hd : drop_while (ascii_eqb pad) body = body).
    { destruct body as [|a t]; [contradiction|]. cbn [hd] in Eh. apply drop_while_keep. exact Eh. }
    rewrite Hd, Hstrip. apply parse_signed_digits; auto.
Qed.

Theorem read_back_render_int : forall base mincol pad comma k colon at_ z,
  (2 <= base <= 36)%N -> 1 <= k -> pad_ok base pad = true -> comma_ok base comma = true ->
  read_back base pad comma (render_int base mincol pad comma k colon at_ z) = z.
Proof.
  intros base mincol pad comma k colon at_ z Hb Hk Hpad Hcomma.
  unfold read_back, render_int, pad_left. rewrite drop_while_repeat.
  unfold comma_ok in Hcomma. apply andb_true_iff in Hcomma. destruct Hcomma as [Hcs Hcd].
  unfold pad_ok in Hpad. apply andb_true_iff in Hpad. destruct Hpad as [Hps Hpd].
  apply negb_true_iff in Hps. apply negb_true_iff in Hcs.
  set (n := Z.abs_N z).
  pose proof (digit_text_avoids base n comma Hb Hcd) as Hav.
  pose proof (digit_text_nonempty base n) as Hdne.
  assert (Hsg : forall s, is_sign s = true -> ascii_eqb pad s = false /\ ascii_eqb s comma = false).
  { intros s Hs. split.
    - destruct (ascii_eqb pad s) eqn:E; [|reflexivity]. apply ascii_eqb_eq in E. subst. rewrite Hs in Hps. discriminate.
    - destruct (ascii_eqb s comma) eqn:E; [|reflexivity]. apply ascii_eqb_eq in E. subst. rewrite Hs in Hcs. discriminate. }
  (* the digits with or without commas *)
  assert (Hbody : forall body, body = (if colon then group k comma (digit_text base n) else digit_text base n) ->
                  strip_commas comma body = digit_text base n /\ body <> [] /\
                  hd zero body = hd zero (digit_text base n) /\ (n = 0%N -> body = ["0"])).
  { intros body ->. destruct colon.
    - split; [apply strip_group; auto|]. split; [|split].
      + intros E. pose proof (strip_group k comma _ Hav) as S1. rewrite E in S1. cbn in S1. auto.
      + apply group_starts_with_digit_aux; auto.
      + intros ->. unfold digit_text. rewrite digits_zero by lia.
        unfold group. cbn [map rev app]. rewrite group_rev_short by (cbn; lia). reflexivity.
    - split; [apply strip_id; auto|]. split; [auto|]. split; [reflexivity|].
      intros ->. unfold digit_text. rewrite digits_zero by lia. reflexivity. }
  unfold int_body, sign_text. fold n.
  match goal with |- context [drop_while _ (_ ++ ?bd)] => pose proof (Hbody bd eq_refl) as Hb';
    remember bd as body eqn:Eb in * end.
  clear Hbody. destruct Hb' as [Hstrip [Hne [Hhd Hzero]]].
  destruct (z <? 0)%Z eqn:Ez.
  - destruct (Hsg "-" eq_refl) as [Hp Hc].
    cbn [app]. rewrite drop_while_keep by assumption. rewrite strip_cons_keep by assumption. rewrite Hstrip.
    cbn [parse_signed]. rewrite parse_digit_text; auto. subst n. lia.
  - destruct at_.
    + destruct (Hsg "+" eq_refl) as [Hp Hc].
      cbn [app]. rewrite drop_while_keep by assumption. rewrite strip_cons_keep by assumption. rewrite Hstrip.
      cbn [parse_signed]. rewrite parse_digit_text; auto. subst n. lia.
    + cbn [app]. rewrite (read_back_unsigned base pad comma body n); auto. subst n. lia.
Qed.

(* ---- width and the places of the commas ----------------------------------------------------------------- *)
Theorem render_int_width : forall base mincol pad comma k colon at_ z,
  List.length (render_int base mincol pad comma k colon at_ z) =
  Nat.max mincol (List.length (int_body base comma k colon at_ z)).
Proof. intros. unfold render_int, pad_left. rewrite app_length, repeat_length. lia. Qed.

(* counting from the right, position i (0-based) of the grouped digits holds a comma exactly when i+1 is a
   multiple of k+1; so between two commas, and after the last one, there are exactly k digits *)
Lemma group_rev_nth : forall k c l cnt i, 1 <= k -> cnt <= k -> Forall (fun a => ascii_eqb a c = false) l ->
  i < List.length (group_rev k c cnt l) ->
  (ascii_eqb (nth i (group_rev k c cnt l) zero) c = true <-> (i + cnt + 1) mod (k + 1) = 0).
Proof.
  induction l as [|d l IH]; intros cnt i Hk Hcnt Hav Hi. { cbn in Hi. lia. }
  inversion Hav; subst.
  assert (Hcc : ascii_eqb c c = true) by (unfold ascii_eqb; apply N.eqb_refl).
  cbn [group_rev] in *. destruct (Nat.eqb cnt k) eqn:E.
  - apply Nat.eqb_eq in E. subst cnt.
    destruct i as [|[|i]].
    + cbn [nth]. rewrite Hcc. replace (0 + k + 1) with (1 * (k + 1)) by lia. rewrite Nat.mod_mul by lia. tauto.
    + cbn [nth]. rewrite H1. split; [discriminate|]. intros Hm. exfalso.
      replace (1 + k + 1) with (1 + 1 * (k + 1)) in Hm by lia. rewrite Nat.mod_add in Hm by lia.
      rewrite Nat.mod_small in Hm by lia. lia.
    + cbn [nth]. cbn [List.length] in Hi. rewrite IH by (try assumption; lia).
      replace (S (S i) + k + 1) with ((i + 1 + 1) + 1 * (k + 1)) by lia. rewrite Nat.mod_add by lia. tauto.
  - apply Nat.eqb_neq in E. destruct i as [|i].
    + cbn [nth]. rewrite H1. split; [discriminate|]. intros Hm. exfalso.
      rewrite Nat.mod_small in Hm by lia. lia.
    + cbn [nth]. cbn [List.length] in Hi. rewrite IH by (try assumption; lia).
      replace (S i + cnt + 1) with (i + S cnt + 1) by lia. tauto.
Qed.
Theorem commas_every_k : forall k c ds i, 1 <= k -> Forall (fun a => ascii_eqb a c = false) ds ->
  i < List.length (group k c ds) ->
  (ascii_eqb (nth i (rev (group k c ds)) zero) c = true <-> (i + 1) mod (k + 1) = 0).
Proof.
  intros k c ds i Hk Hav Hi. unfold group in *. rewrite rev_involutive. rewrite rev_length in Hi.
  rewrite group_rev_nth by (try assumption; try lia; apply Forall_rev; assumption).
  replace (i + 0 + 1) with (i + 1) by lia. tauto.
Qed.
(* the grouped text never starts with a comma *)
Theorem group_starts_with_digit : forall k c (ds : text), 1 <= k -> ds <> [] -> hd zero (group k c ds) = hd zero ds.
Proof. exact group_starts_with_digit_aux. Qed.
