(* C15 — proofs about ~R without parameters: Roman numerals (finite domain, by kernel computation over
   1..3999) and English cardinals / ordinals (for every integer below 10^66 in absolute value, by
   induction over the groups of three digits). *)
From C15 Require Import Model Spec.
Open Scope list_scope.

(* ---- Roman numerals ------------------------------------------------------------------------------ *)
Definition roman_ok (old : bool) (i : nat) : bool :=
  match std_roman old (Z.of_nat i) with
  | Some t => Z.eqb (roman_value t) (Z.of_nat i)
  | None => false
  end.
Lemma roman_all : forallb (roman_ok false) (seq 1 3999) = true /\ forallb (roman_ok true) (seq 1 3999) = true.
Proof. split; vm_compute; reflexivity. Qed.
Theorem roman_inverse : forall old z, (1 <= z <= 3999)%Z ->
  exists t, std_roman old z = Some t /\ roman_value t = z.
Proof.
  intros old z Hz.
  assert (Hin : In (Z.to_nat z) (seq 1 3999)) by (apply in_seq; lia).
  assert (H : roman_ok old (Z.to_nat z) = true).
  { destruct roman_all as [H0 H1]. destruct old; [exact (proj1 (forallb_forall _ _) H1 _ Hin) | exact (proj1 (forallb_forall _ _) H0 _ Hin)]. }
  unfold roman_ok in H. rewrite Z2Nat.id in H by lia.
  destruct (std_roman old z) as [t|]; [|discriminate]. exists t. split; [reflexivity | apply Z.eqb_eq; exact H].
Qed.
Theorem roman_domain : forall old z, (z < 1 \/ 3999 < z)%Z -> std_roman old z = None.
Proof.
  intros old z Hz. unfold std_roman.
  destruct ((1 <=? z) && (z <=? 3999))%Z eqn:E; [|reflexivity].
  apply andb_true_iff in E. destruct E as [E1 E2]. apply Z.leb_le in E1. apply Z.leb_le in E2. lia.
Qed.
(* the loop of dirR over the decimal digits writes the same numeral, with the tables as they stand *)
Definition go_roman_ok (old : bool) (i : nat) : bool :=
  match go_roman src_tables old (dec_text (Z.of_nat i)), std_roman old (Z.of_nat i) with
  | Some a, Some b => text_eqb a b
  | _, _ => false
  end.
Lemma go_roman_all : forallb (go_roman_ok false) (seq 1 3999) = true /\ forallb (go_roman_ok true) (seq 1 3999) = true.
Proof. split; vm_compute; reflexivity. Qed.
Lemma text_eqb_eq : forall a b, text_eqb a b = true -> a = b.
Proof.
  induction a as [|x a IH]; destruct b as [|y b]; cbn; intros H; try discriminate; [reflexivity|].
  apply andb_true_iff in H. destruct H as [H1 H2]. f_equal; [|apply IH; auto].
  unfold ascii_eqb in H1. apply N.eqb_eq in H1.
  rewrite <- (ascii_N_embedding x), <- (ascii_N_embedding y). unfold code in H1. rewrite H1. reflexivity.
Qed.
Lemma text_eqb_refl : forall a, text_eqb a a = true.
Proof. induction a as [|x a IH]; cbn; [reflexivity|]. rewrite IH. unfold ascii_eqb. rewrite N.eqb_refl. reflexivity. Qed.
Theorem go_roman_is_roman : forall old z, (1 <= z <= 3999)%Z ->
  go_roman src_tables old (dec_text z) = std_roman old z.
Proof.
  intros old z Hz.
  assert (Hin : In (Z.to_nat z) (seq 1 3999)) by (apply in_seq; lia).
  assert (H : go_roman_ok old (Z.to_nat z) = true).
  { destruct go_roman_all as [H0 H1]. destruct old; [exact (proj1 (forallb_forall _ _) H1 _ Hin) | exact (proj1 (forallb_forall _ _) H0 _ Hin)]. }
  unfold go_roman_ok in H. rewrite Z2Nat.id in H by lia.
  destruct (go_roman src_tables old (dec_text z)) as [a|]; [|discriminate].
  destruct (std_roman old z) as [b|]; [|discriminate]. f_equal. apply text_eqb_eq. exact H.
Qed.

(* ---- English: the words are read back one at a time ------------------------------------------------- *)
Inductive wc := WBad | WNeg | WZero | WHundred | WScale (k : nat) | WSmall (v : N).
Definition classify (w : text) : wc :=
  if text_eqb w [] then WBad
  else if text_eqb w (tx "negative") then WNeg
  else if text_eqb w (tx "zero") || text_eqb w (tx "zeroth") then WZero
  else if text_eqb w hundred || text_eqb w (tx "hundredth") then WHundred
  else match word_scale w with
       | Some k => WScale k
       | None => match word_small w with Some v => WSmall v | None => WBad end
       end.
Definition step_c (st : pstate) (c : wc) : pstate :=
  match c with
  | WBad => {| p_total := p_total st; p_cur := p_cur st; p_neg := p_neg st; p_bad := true |}
  | WNeg => {| p_total := p_total st; p_cur := p_cur st; p_neg := true; p_bad := p_bad st |}
  | WZero => st
  | WHundred => {| p_total := p_total st; p_cur := (p_cur st * 100)%N; p_neg := p_neg st; p_bad := p_bad st |}
  | WScale k => {| p_total := (p_total st + p_cur st * 1000 ^ N.of_nat k)%N; p_cur := 0; p_neg := p_neg st; p_bad := p_bad st |}
  | WSmall v => {| p_total := p_total st; p_cur := (p_cur st + v)%N; p_neg := p_neg st; p_bad := p_bad st |}
  end.
Lemma parse_step_classify : forall st w, parse_step st w = step_c st (classify w).
Proof.
  intros st w. unfold parse_step, classify.
  destruct (text_eqb w []); [reflexivity|].
  destruct (text_eqb w (tx "negative")); [reflexivity|].
  destruct (text_eqb w (tx "zero") || text_eqb w (tx "zeroth")); [reflexivity|].
  destruct (text_eqb w hundred || text_eqb w (tx "hundredth")); [reflexivity|].
  destruct (word_scale w); [reflexivity|].
  destruct (word_small w); reflexivity.
Qed.

(* the part of a group below the scale word only moves the current-group counter *)
Definition cur_c (cur : option N) (c : wc) : option N :=
  match cur, c with
  | Some x, WSmall v => Some (x + v)%N
  | Some x, WHundred => Some (x * 100)%N
  | _, _ => None
  end.
Lemma cur_c_none : forall cs, fold_left cur_c cs None = None.
Proof. induction cs as [|c cs IH]; [reflexivity|]. cbn. exact IH. Qed.
Lemma fold_smalls : forall ws st cur',
  fold_left cur_c (map classify ws) (Some (p_cur st)) = Some cur' ->
  fold_left parse_step ws st = {| p_total := p_total st; p_cur := cur'; p_neg := p_neg st; p_bad := p_bad st |}.
Proof.
  induction ws as [|w ws IH]; intros st cur' H.
  - cbn in H. inversion H; subst. destruct st; reflexivity.
  - cbn [map fold_left] in *. rewrite parse_step_classify.
    destruct (classify w); cbn [cur_c] in H; try (rewrite cur_c_none in H; discriminate).
    + rewrite (IH _ cur'); [reflexivity | exact H].
    + rewrite (IH _ cur'); [reflexivity | exact H].
Qed.

(* every group 1..999: its words are table words, none is a scale word, and they add up to the group *)
Definition all_words : list text :=
  skipn 1 (t_one std_tables) ++ t_teen std_tables ++ firstn 8 (t_ten std_tables) ++ [hundred] ++ skipn 1 (t_triples std_tables).
Definition is_word (w : text) : bool := existsb (text_eqb w) all_words.
Definition triple_ok (i : nat) : bool :=
  let ws := triple_words (N.of_nat i) in
  forallb is_word ws && match fold_left cur_c (map classify ws) (Some 0%N) with Some v => N.eqb v (N.of_nat i) | None => false end
  && negb (Nat.eqb (List.length ws) 0).
Lemma triples_all : forallb triple_ok (seq 1 999) = true.
Proof. vm_compute. reflexivity. Qed.
Lemma triple_fact : forall t, (1 <= t < 1000)%N ->
  forallb is_word (triple_words t) = true /\ fold_left cur_c (map classify (triple_words t)) (Some 0%N) = Some t /\ triple_words t <> [].
Proof.
  intros t Ht.
  assert (Hin : In (N.to_nat t) (seq 1 999)) by (apply in_seq; lia).
  pose proof (proj1 (forallb_forall _ _) triples_all _ Hin) as H.
  unfold triple_ok in H. rewrite N2Nat.id in H.
  apply andb_true_iff in H. destruct H as [H H3]. apply andb_true_iff in H. destruct H as [H1 H2].
  split; [exact H1|]. split.
  - destruct (fold_left cur_c (map classify (triple_words t)) (Some 0%N)); [|discriminate].
    apply N.eqb_eq in H2. subst. reflexivity.
  - intros E. rewrite E in H3. discriminate.
Qed.
Definition scale_ok (k : nat) : bool :=
  match classify (w_scale k) with WScale j => Nat.eqb j k | _ => false end && is_word (w_scale k).
Lemma scales_all : forallb scale_ok (seq 1 21) = true.
Proof. vm_compute. reflexivity. Qed.
Lemma scale_fact : forall k, 1 <= k <= 21 -> classify (w_scale k) = WScale k /\ is_word (w_scale k) = true.
Proof.
  intros k Hk. assert (Hin : In k (seq 1 21)) by (apply in_seq; lia).
  pose proof (proj1 (forallb_forall _ _) scales_all _ Hin) as H. unfold scale_ok in H.
  apply andb_true_iff in H. destruct H as [H1 H2]. split; [|exact H2].
  destruct (classify (w_scale k)); try discriminate. apply Nat.eqb_eq in H1. subst. reflexivity.
Qed.

(* the value of groups of three digits, least significant first, the first one at scale k *)
Fixpoint sum_from (k : nat) (ts : list N) : N :=
  match ts with [] => 0%N | t :: ts' => (t * 1000 ^ N.of_nat k + sum_from (S k) ts')%N end.

Lemma fold_groups : forall ts k st, 1 <= k -> k + List.length ts <= 22 -> Forall (fun t => (t < 1000)%N) ts -> p_cur st = 0%N ->
  fold_left parse_step (group_words k ts) st =
  {| p_total := (p_total st + sum_from k ts)%N; p_cur := 0; p_neg := p_neg st; p_bad := p_bad st |}.
Proof.
  induction ts as [|t ts IH]; intros k st Hk Hlen Hts Hcur.
  - cbn. destruct st; cbn in *; subst. f_equal. lia.
  - inversion Hts; subst. cbn [group_words sum_from List.length] in *.
    rewrite fold_left_app. rewrite IH by (try assumption; lia).
    destruct (t =? 0)%N eqn:Et.
    + apply N.eqb_eq in Et. subst. cbn [fold_left]. f_equal; lia.
    + apply N.eqb_neq in Et.
      destruct (triple_fact t ltac:(lia)) as [_ [Hsum _]].
      rewrite fold_left_app.
      rewrite (fold_smalls (triple_words t) _ t) by (cbn [p_cur]; exact Hsum).
      destruct (Nat.eqb k 0) eqn:Ek. { apply Nat.eqb_eq in Ek. lia. }
      cbn [fold_left]. rewrite parse_step_classify.
      destruct (scale_fact k ltac:(lia)) as [Hc _]. rewrite Hc. cbn [step_c p_total p_cur p_neg p_bad].
      f_equal; lia.
Qed.

(* the groups of a number have its value, are below 1000, and there are at most 22 of them below 10^66 *)
Lemma triples_fuel_value : forall f n, (n < 2 ^ N.of_nat f)%N -> sum_from 0 (triples_fuel f n) = n
  /\ Forall (fun t => (t < 1000)%N) (triples_fuel f n).
Proof.
  assert (G : forall f n k, (n < 2 ^ N.of_nat f)%N ->
              sum_from k (triples_fuel f n) = (n * 1000 ^ N.of_nat k)%N /\ Forall (fun t => (t < 1000)%N) (triples_fuel f n)).
  { induction f as [|f IH]; intros n k Hn.
    - cbn in Hn. assert (n = 0%N) by lia. subst. cbn. split; [reflexivity | constructor].
    - cbn [triples_fuel]. destruct (n =? 0)%N eqn:E.
      + apply N.eqb_eq in E. subst. cbn. split; [reflexivity | constructor].
      + apply N.eqb_neq in E. cbn [sum_from].
        assert (Hd : (n / 1000 < 2 ^ N.of_nat f)%N).
        { rewrite Nat2N.inj_succ, N.pow_succ_r' in Hn.
          assert (n / 1000 <= n / 2)%N by (apply N.div_le_compat_l; lia).
          assert (n / 2 < 2 ^ N.of_nat f)%N by (apply N.div_lt_upper_bound; lia). lia. }
        destruct (IH (n / 1000)%N (S k) Hd) as [H1 H2]. rewrite H1. split.
        * rewrite Nat2N.inj_succ, N.pow_succ_r'. pose proof (N.div_mod n 1000 ltac:(lia)). nia.
        * constructor; [apply N.mod_lt; lia | exact H2]. }
  intros f n Hn. destruct (G f n 0 Hn) as [H1 H2]. split; [|exact H2]. rewrite H1. cbn. lia.
Qed.
Lemma triples_fuel_length : forall f n m, (n < 1000 ^ N.of_nat m)%N -> List.length (triples_fuel f n) <= m.
Proof.
  induction f as [|f IH]; intros n m Hn; cbn [triples_fuel]. { cbn. lia. }
  destruct (n =? 0)%N eqn:E. { cbn. lia. }
  apply N.eqb_neq in E. destruct m as [|m]. { cbn in Hn. lia. }
  cbn [List.length]. apply le_n_S. apply IH.
  rewrite Nat2N.inj_succ, N.pow_succ_r' in Hn. apply N.div_lt_upper_bound; lia.
Qed.
Lemma fuel_enough' : forall n, (n < 2 ^ N.of_nat (S (N.to_nat (N.log2 n))))%N.
Proof.
  intros n. rewrite Nat2N.inj_succ, N2Nat.id.
  destruct n as [|p]. { cbn. lia. }
  apply N.log2_spec. lia.
Qed.
Lemma ten66_is : ten66 = (1000 ^ N.of_nat 22)%N.
Proof. vm_compute. reflexivity. Qed.

Lemma sum_from_cons0 : forall t ts, sum_from 0 (t :: ts) = (t + sum_from 1 ts)%N.
Proof. intros. cbn [sum_from]. change (N.of_nat 0) with 0%N. rewrite N.pow_0_r. lia. Qed.
Lemma sum_from_nil : forall k, sum_from k [] = 0%N.
Proof. reflexivity. Qed.
Definition start : pstate := {| p_total := 0; p_cur := 0; p_neg := false; p_bad := false |}.
Lemma fold_number : forall n st, (0 < n < ten66)%N -> p_cur st = 0%N -> p_total st = 0%N ->
  fold_left parse_step (group_words 0 (triples_of n)) st =
  {| p_total := (n - hd 0%N (triples_of n))%N; p_cur := hd 0%N (triples_of n); p_neg := p_neg st; p_bad := p_bad st |}.
Proof.
  intros n st Hn Hcur Htot. unfold triples_of.
  destruct (triples_fuel_value _ n (fuel_enough' n)) as [Hv Hb].
  pose proof (triples_fuel_length (S (N.to_nat (N.log2 n))) n 22) as Hl.
  rewrite <- ten66_is in Hl. specialize (Hl ltac:(lia)).
  remember (triples_fuel (S (N.to_nat (N.log2 n))) n) as ts.
  destruct ts as [|t ts]. { rewrite sum_from_nil in Hv. lia. }
  rewrite sum_from_cons0 in Hv.
  inversion Hb as [|? ? Ht Hts']. cbn [group_words hd sum_from List.length] in *.
  rewrite fold_left_app. rewrite fold_groups by (try assumption; lia).
  cbn [Nat.eqb]. rewrite app_nil_r.
  destruct (t =? 0)%N eqn:Et.
  - apply N.eqb_eq in Et. subst. cbn [fold_left]. f_equal; lia.
  - apply N.eqb_neq in Et. destruct (triple_fact t ltac:(lia)) as [_ [Hsum _]].
    rewrite (fold_smalls (triple_words t) _ t) by (cbn [p_cur]; exact Hsum).
    cbn [p_total p_neg p_bad]. f_equal; lia.
Qed.

Theorem cardinal_parse : forall z, (Z.abs z < Z.of_N ten66)%Z ->
  exists ws, cardinal_words z = Some ws /\ parse_words ws = Some z.
Proof.
  intros z Hz. unfold cardinal_words.
  destruct (ten66 <=? Z.abs_N z)%N eqn:E. { apply N.leb_le in E. lia. }
  destruct (Z.abs_N z =? 0)%N eqn:E0.
  - apply N.eqb_eq in E0. exists [tx "zero"]. split; [reflexivity|]. assert (z = 0%Z) by lia. subst. vm_compute. reflexivity.
  - apply N.eqb_neq in E0. apply N.leb_gt in E.
    eexists. split; [reflexivity|]. unfold parse_words.
    pose proof (triples_fuel_value _ (Z.abs_N z) (fuel_enough' (Z.abs_N z))) as [Hv Hb]. fold (triples_of (Z.abs_N z)) in Hv, Hb.
    assert (Hhd : (hd 0 (triples_of (Z.abs_N z)) <= Z.abs_N z)%N).
    { destruct (triples_of (Z.abs_N z)); [cbn [hd]; lia | rewrite sum_from_cons0 in Hv; cbn [hd]; lia]. }
    destruct (z <? 0)%Z eqn:Ez.
    + cbn [app fold_left]. rewrite parse_step_classify.
      replace (classify (tx "negative")) with WNeg by (vm_compute; reflexivity). cbn [step_c p_total p_cur p_neg p_bad].
      rewrite fold_number; [| lia | reflexivity | reflexivity]. cbn [p_bad p_neg p_total p_cur]. f_equal. lia.
    + cbn [app]. rewrite fold_number; [| lia | reflexivity | reflexivity]. cbn [p_bad p_neg p_total p_cur]. f_equal. lia.
Qed.

(* ---- the ordinal form of the last word counts the same ---------------------------------------------------- *)
Definition wc_eqb (a b : wc) : bool :=
  match a, b with
  | WBad, WBad | WNeg, WNeg | WZero, WZero | WHundred, WHundred => true
  | WScale j, WScale k => Nat.eqb j k
  | WSmall u, WSmall v => N.eqb u v
  | _, _ => false
  end.
Lemma wc_eqb_eq : forall a b, wc_eqb a b = true -> a = b.
Proof.
  destruct a, b; cbn; intros H; try discriminate; try reflexivity.
  - apply Nat.eqb_eq in H. subst. reflexivity.
  - apply N.eqb_eq in H. subst. reflexivity.
Qed.
Lemma ordinal_class_all : forallb (fun w => wc_eqb (classify (ordinal_word w)) (classify w)) (tx "zero" :: all_words) = true.
Proof. vm_compute. reflexivity. Qed.
Lemma ordinal_class : forall w, (w = tx "zero" \/ is_word w = true) -> classify (ordinal_word w) = classify w.
Proof.
  intros w Hw. pose proof ordinal_class_all as H. rewrite forallb_forall in H. apply wc_eqb_eq. apply H.
  destruct Hw as [-> | Hw]; [left; reflexivity | right].
  unfold is_word in Hw. apply existsb_exists in Hw. destruct Hw as [x [Hx E]].
  apply text_eqb_eq in E. subst. exact Hx.
Qed.
Lemma group_words_are_words : forall ts k, 1 <= k -> k + List.length ts <= 22 -> Forall (fun t => (t < 1000)%N) ts ->
  forallb is_word (group_words k ts) = true.
Proof.
  induction ts as [|t ts IH]; intros k Hk Hl Hts; [reflexivity|].
  inversion Hts; subst. cbn [group_words List.length] in *. rewrite forallb_app, IH; auto; [| lia].
  destruct (t =? 0)%N eqn:Et; [reflexivity|]. apply N.eqb_neq in Et.
  destruct (triple_fact t ltac:(lia)) as [Hw _]. rewrite forallb_app, Hw.
  destruct (Nat.eqb k 0); [reflexivity|]. cbn [forallb]. destruct (scale_fact k ltac:(lia)) as [_ Hs]. rewrite Hs. reflexivity.
Qed.
(* the words of a number: "zero", or table words after an optional "negative", and never none at all *)
Lemma last_app_ne : forall (pre g : list text) d, g <> [] -> last (pre ++ g) d = last g d.
Proof.
  intros pre g d Hne. destruct g as [|x g'] using rev_ind; [contradiction|].
  rewrite app_assoc, !last_last. reflexivity.
Qed.
Definition wordish (w : text) : bool := is_word w || text_eqb w (tx "zero") || text_eqb w (tx "negative").
Lemma cardinal_words_shape : forall z ws, cardinal_words z = Some ws ->
  ws <> [] /\ forallb wordish ws = true /\ (last ws [] = tx "zero" \/ is_word (last ws []) = true).
Proof.
  intros z ws H. unfold cardinal_words in H.
  destruct (ten66 <=? Z.abs_N z)%N eqn:E; [discriminate|]. apply N.leb_gt in E.
  destruct (Z.abs_N z =? 0)%N eqn:E0. { inversion H; subst. split; [discriminate | split; [vm_compute; reflexivity | left; reflexivity]]. }
  apply N.eqb_neq in E0. inversion H; subst. clear H.
  pose proof (triples_fuel_value _ (Z.abs_N z) (fuel_enough' (Z.abs_N z))) as [Hv Hb]. fold (triples_of (Z.abs_N z)) in Hv, Hb.
  pose proof (triples_fuel_length (S (N.to_nat (N.log2 (Z.abs_N z)))) (Z.abs_N z) 22) as Hl.
  rewrite <- ten66_is in Hl. specialize (Hl E). fold (triples_of (Z.abs_N z)) in Hl.
  set (g := group_words 0 (triples_of (Z.abs_N z))).
  assert (Hg : g <> [] /\ forallb is_word g = true).
  { subst g. destruct (triples_of (Z.abs_N z)) as [|t ts] eqn:Et. { rewrite sum_from_nil in Hv. lia. }
    rewrite sum_from_cons0 in Hv.
    inversion Hb; subst. cbn [group_words List.length] in *. cbn [Nat.eqb]. rewrite app_nil_r.
    pose proof (group_words_are_words ts 1 ltac:(lia) ltac:(lia) H2) as Hw.
    destruct (t =? 0)%N eqn:E1.
    - rewrite app_nil_r. split; [|exact Hw].
      (* the lowest group is 0: some higher group is not *)
      apply N.eqb_eq in E1. subst t. intros Hnil.
      assert (Hs : forall ts k, Forall (fun t => (t < 1000)%N) ts -> group_words k ts = [] -> sum_from k ts = 0%N).
      { clear. induction ts as [|t ts IH]; intros k Hts Hn; [reflexivity|]. inversion Hts; subst.
        cbn [group_words] in Hn. apply app_eq_nil in Hn. destruct Hn as [Hn1 Hn2].
        cbn [sum_from]. rewrite (IH _ H2 Hn1). destruct (t =? 0)%N eqn:Et; [apply N.eqb_eq in Et; subst; lia|].
        apply app_eq_nil in Hn2. destruct Hn2 as [Hn2 _]. apply N.eqb_neq in Et.
        destruct (triple_fact t ltac:(lia)) as [_ [_ Hne]]. contradiction. }
      rewrite (Hs ts 1 H2 Hnil) in Hv. lia.
    - apply N.eqb_neq in E1. destruct (triple_fact t ltac:(lia)) as [Ht [_ Hne]]. split.
      + intros Hn. apply app_eq_nil in Hn. destruct Hn. contradiction.
      + rewrite forallb_app, Hw, Ht. reflexivity. }
  destruct Hg as [Hgne Hgw]. split; [|split].
  - destruct (z <? 0)%Z; [discriminate|]. exact Hgne.
  - rewrite forallb_app. apply andb_true_iff. split.
    + destruct (z <? 0)%Z; [vm_compute; reflexivity | reflexivity].
    + rewrite forallb_forall in *. intros x Hx. unfold wordish. rewrite (Hgw x Hx). reflexivity.
  - right. rewrite last_app_ne by exact Hgne. rewrite forallb_forall in Hgw. apply Hgw.
    destruct g as [|x g'] using rev_ind; [contradiction|]. rewrite last_last. apply in_or_app. right. left. reflexivity.
Qed.
Theorem ordinal_parse : forall z, (Z.abs z < Z.of_N ten66)%Z ->
  exists ws, ordinal_words z = Some ws /\ parse_words ws = Some z.
Proof.
  intros z Hz. destruct (cardinal_parse z Hz) as [ws [Hc Hp]].
  unfold ordinal_words. rewrite Hc. eexists. split; [reflexivity|].
  destruct (cardinal_words_shape z ws Hc) as [Hne [_ Hlast]].
  unfold parse_words in *. fold start in *. rewrite fold_left_app. cbn [fold_left].
  rewrite parse_step_classify, (ordinal_class _ Hlast), <- parse_step_classify.
  assert (E : parse_step (fold_left parse_step (removelast ws) start) (last ws []) = fold_left parse_step ws start).
  { rewrite (app_removelast_last [] Hne) at 3. rewrite fold_left_app. reflexivity. }
  rewrite E. exact Hp.
Qed.
(* only the last word changes, and it takes an ordinal ending *)
Theorem ordinal_last_word : forall z ws, cardinal_words z = Some ws ->
  ordinal_words z = Some (removelast ws ++ [ordinal_word (last ws [])]).
Proof. intros z ws H. unfold ordinal_words. rewrite H. reflexivity. Qed.

(* ---- from words to the text and back ------------------------------------------------------------------ *)
Definition no_space (w : text) : bool := negb (existsb (fun a => ascii_eqb a sp) w).
Lemma sp_sp : ascii_eqb sp sp = true.
Proof. reflexivity. Qed.
Lemma split_word : forall w cur, no_space w = true -> split_sp w cur = [rev cur ++ w].
Proof.
  induction w as [|a w IH]; intros cur Hw. { cbn. rewrite app_nil_r. reflexivity. }
  unfold no_space in Hw. cbn [existsb] in Hw. apply negb_true_iff in Hw. apply orb_false_iff in Hw. destruct Hw as [Ha Hw].
  cbn [split_sp]. rewrite Ha. rewrite IH by (unfold no_space; rewrite Hw; reflexivity).
  cbn [rev]. rewrite <- app_assoc. reflexivity.
Qed.
Lemma split_app : forall w cur rest, no_space w = true ->
  split_sp (w ++ sp :: rest) cur = (rev cur ++ w) :: split_sp rest [].
Proof.
  induction w as [|a w IH]; intros cur rest Hw.
  - cbn [app split_sp]. rewrite sp_sp, app_nil_r. reflexivity.
  - unfold no_space in Hw. cbn [existsb] in Hw. apply negb_true_iff in Hw. apply orb_false_iff in Hw. destruct Hw as [Ha Hw].
    cbn [app split_sp]. rewrite Ha. rewrite IH by (unfold no_space; rewrite Hw; reflexivity).
    cbn [rev]. rewrite <- app_assoc. reflexivity.
Qed.
Lemma split_join : forall ws w cur, no_space w = true -> forallb no_space ws = true ->
  split_sp (join [sp] (w :: ws)) cur = (rev cur ++ w) :: ws.
Proof.
  induction ws as [|w2 ws IH]; intros w cur Hw Hws.
  - cbn [join]. apply split_word. exact Hw.
  - cbn [forallb] in Hws. apply andb_true_iff in Hws. destruct Hws as [H2 Hws].
    change (join [sp] (w :: w2 :: ws)) with (w ++ [sp] ++ join [sp] (w2 :: ws)). cbn [app].
    rewrite split_app by exact Hw. rewrite IH by assumption. reflexivity.
Qed.
Lemma words_no_space : forallb (fun w => no_space w && no_space (ordinal_word w)) (tx "zero" :: tx "negative" :: all_words) = true.
Proof. vm_compute. reflexivity. Qed.
Lemma wordish_no_space : forall w, wordish w = true -> no_space w = true /\ no_space (ordinal_word w) = true.
Proof.
  intros w Hw. pose proof words_no_space as H. rewrite forallb_forall in H.
  assert (Hin : In w (tx "zero" :: tx "negative" :: all_words)).
  { unfold wordish in Hw. apply orb_true_iff in Hw. destruct Hw as [Hw | Hw]; [apply orb_true_iff in Hw; destruct Hw as [Hw | Hw]|].
    - right. right. unfold is_word in Hw. apply existsb_exists in Hw. destruct Hw as [x [Hx E]]. apply text_eqb_eq in E. subst. exact Hx.
    - left. apply text_eqb_eq in Hw. auto.
    - right. left. apply text_eqb_eq in Hw. auto. }
  specialize (H _ Hin). apply andb_true_iff in H. exact H.
Qed.
Lemma forallb_removelast : forall (f : text -> bool) ws, forallb f ws = true -> forallb f (removelast ws) = true.
Proof.
  induction ws as [|w ws IH]; intros H; [reflexivity|]. cbn [forallb] in H. apply andb_true_iff in H. destruct H as [H1 H2].
  cbn [removelast]. destruct ws; [reflexivity|]. cbn [forallb]. rewrite H1. apply IH. exact H2.
Qed.

(* the property: the English text of every integer below 10^66 in absolute value, cardinal or ordinal, reads back to it *)
Theorem english_round_trip : forall ordinal z, (Z.abs z < Z.of_N ten66)%Z ->
  exists t, std_english ordinal z = Some t /\ parse_english t = Some z.
Proof.
  intros ordinal z Hz. unfold std_english, parse_english.
  destruct (cardinal_parse z Hz) as [ws [Hc Hp]].
  destruct (cardinal_words_shape z ws Hc) as [Hne [Hw Hlast]].
  assert (Hns : forallb no_space ws = true).
  { rewrite forallb_forall in *. intros x Hx. apply (wordish_no_space x (Hw x Hx)). }
  destruct ordinal.
  - destruct (ordinal_parse z Hz) as [ws' [Ho Hp']]. rewrite Ho. eexists. split; [reflexivity|].
    unfold ordinal_words in Ho. rewrite Hc in Ho. inversion Ho; subst ws'. clear Ho.
    assert (Hns' : forallb no_space (removelast ws ++ [ordinal_word (last ws [])]) = true).
    { rewrite forallb_app, forallb_removelast by exact Hns. cbn [forallb]. rewrite andb_true_r.
      apply wordish_no_space. rewrite forallb_forall in Hw. apply Hw.
      destruct ws as [|x l] using rev_ind; [contradiction|]. rewrite last_last. apply in_or_app. right. left. reflexivity. }
    remember (removelast ws ++ [ordinal_word (last ws [])]) as l eqn:El.
    destruct l as [|w l]. { destruct (removelast ws); discriminate. }
    cbn [forallb] in Hns'. apply andb_true_iff in Hns'. destruct Hns' as [H1 H2].
    rewrite split_join by assumption. cbn [rev app]. exact Hp'.
  - rewrite Hc. eexists. split; [reflexivity|].
    destruct ws as [|w l]; [contradiction|].
    cbn [forallb] in Hns. apply andb_true_iff in Hns. destruct Hns as [H1 H2].
    rewrite split_join by assumption. cbn [rev app]. exact Hp.
Qed.
(* beyond the named scales there is no English text *)
Theorem english_domain : forall ordinal z, (Z.of_N ten66 <= Z.abs z)%Z -> std_english ordinal z = None.
Proof.
  intros ordinal z Hz. unfold std_english, ordinal_words, cardinal_words.
  destruct (ten66 <=? Z.abs_N z)%N eqn:E; [destruct ordinal; reflexivity|]. apply N.leb_gt in E. lia.
Qed.
