(* C15 — checks over a `tables` value, evaluated by the kernel on the tables regenerated from
   pkg/cl/control.go on every run (TableProofs.v). *)
From C15 Require Import Model Spec.
Open Scope list_scope.

Fixpoint texts_eq (a b : list text) : bool :=
  match a, b with
  | [], [] => true
  | x :: a', y :: b' => text_eqb x y && texts_eq a' b'
  | _, _ => false
  end.
Fixpoint rows_eq (a b : list (list text)) : bool :=
  match a, b with
  | [], [] => true
  | x :: a', y :: b' => texts_eq x y && rows_eq a' b'
  | _, _ => false
  end.
(* the word tables of the source are the expected ones, every entry (cardinalTriples[6] was spelled "quantillion"
   until repo_fixes/C15-1) *)
Definition tables_agree (g : tables) : bool :=
  rows_eq (t_roman g) (t_roman std_tables) && rows_eq (t_oldroman g) (t_oldroman std_tables) &&
  texts_eq (t_triples g) (t_triples std_tables) &&
  texts_eq (t_one g) (t_one std_tables) && texts_eq (t_teen g) (t_teen std_tables) && texts_eq (t_ten g) (t_ten std_tables) &&
  texts_eq (t_ordone g) (t_ordone std_tables) && texts_eq (t_ordteen g) (t_ordteen std_tables).
(* dirScanMap: a number ends exactly where the definition says it ends — digits and signs are not marked,
   the comma, the modifiers and every directive character are *)
Definition scan_ok (g : tables) : bool :=
  Nat.eqb (List.length (t_scan g)) 256 &&
  forallb (fun a => negb (is_stop g a)) (tx "0123456789-+#v'") &&
  forallb (is_stop g) (nl :: tx ",:@$%&(*/<=?AaBbCcDdEeFfGgIiOoPpRrSsTtWwXx[{|^~)]}>").
(* the Roman loop of dirR over these tables writes the defined numeral *)
Definition go_roman_ok_T (T : tables) (old : bool) (i : nat) : bool :=
  match go_roman T old (dec_text (Z.of_nat i)), std_roman old (Z.of_nat i) with
  | Some a, Some b => text_eqb a b
  | _, _ => false
  end.
