(* C15 — data shared by the model M and the specification S: the word tables of pkg/cl/control.go
   (regenerated from the source on every run, see harness/c15/tables.go), the universe of format
   arguments, prefix parameters, and the printed representation (princ / prin1) of arguments.
   The printer itself is C03's subject: the harness checks on the implementation that ~A / ~S produce
   exactly what princ / prin1 produce; here the representation is written out for the small universe
   the generator uses (integers, strings and symbols without characters that need escaping,
   graphic characters and Space, nil, t, proper lists of these). As slip prints them: a string inside a
   list keeps its quotes even for princ, an empty list object prints nil at top level and () inside a list. *)
From C15 Require Export Text.

Record tables := {
  t_roman : list (list text);      (* romanNumerals  [4][10]string *)
  t_oldroman : list (list text);   (* oldRomanNumerals *)
  t_triples : list text;           (* cardinalTriples *)
  t_one : list text;               (* cardinalOne *)
  t_teen : list text;              (* cardinalTeen *)
  t_ten : list text;               (* cardinalTen (twenty .. ninety, then empty strings) *)
  t_ordone : list text;            (* ordinalOne *)
  t_ordteen : list text;           (* ordinalTeen *)
  t_scan : list bool               (* dirScanMap: true where the table has 'x' (a byte that ends a prefix parameter) *)
}.
Definition tnth (l : list text) (i : nat) : text := nth i l [].
Definition is_stop (T : tables) (a : ascii) : bool := nth (N.to_nat (code a)) (t_scan T) false.

Inductive value :=
| VInt (z : Z)            (* slip.Fixnum when it fits int64, *slip.Bignum otherwise *)
| VStr (s : text)
| VChr (a : ascii)
| VSym (s : text)
| VNil
| VTrue
| VList (l : list value). (* a proper list, a Go slip.List; VList [] is an empty slice, which is not the Go nil that VNil stands for *)

Definition is_fixnum (z : Z) : bool := ((- two63 <=? z) && (z <? two63))%Z.

(* prefix parameters as readDir collects them ([]any): nil, int, a character after ', an argument taken by v *)
Inductive param :=
| PNone
| PInt (z : Z)
| PChr (a : ascii)
| PVal (v : value).

(* slip.Character.Append for the characters of the universe *)
Definition char_name (a : ascii) : text := if ascii_eqb a sp then tx "Space" else [a].
Definition char_readable (a : ascii) : text := "#" :: "\" :: char_name a.

(* as an element of a list: strings are always quoted, an empty list is (), characters follow esc *)
Fixpoint print_in (esc : bool) (v : value) : text :=
  match v with
  | VInt z => dec_text z
  | VStr s => """" :: s ++ [""""]
  | VChr a => if esc then char_readable a else [a]
  | VSym s => s
  | VNil => tx "nil"
  | VTrue => tx "t"
  | VList [] => tx "()"
  | VList l => "(" :: join [sp] (map (print_in esc) l) ++ [")"]
  end.
Definition print (esc : bool) (v : value) : text :=
  match v with
  | VStr s => if esc then """" :: s ++ [""""] else s
  | VList [] => tx "nil"
  | v => print_in esc v
  end.
Definition princ := print false.
Definition prin1 := print true.

(* objAsList *)
Definition as_list (v : value) : option (list value) :=
  match v with VNil => Some [] | VList l => Some l | _ => None end.
