(* C15 — S, part 1: what the directive definitions (CLHS 22.3, which slip's documentation of format
   refers to) demand of the pure renderers: integers in a base with width, padding, sign and
   grouping; Roman numerals; English cardinals and ordinals; column arithmetic of ~T and ~&; case
   conversion of ~( ; the extent of the blocks ~( ~[ ~{ in a control string. None of this looks at
   the Go code. The interpreter that threads the arguments through a control string is in Interp.v;
   S is that interpreter using the functions of this file at every place where the Go code does
   something of its own (Model.v). *)
From C15 Require Export Types.

(* ---- integers: ~D ~B ~O ~X ~nR ----------------------------------------------------------- *)
(* ds least significant first; cnt = digits already written in the current group *)
Fixpoint group_rev (k : nat) (comma : ascii) (cnt : nat) (ds : text) : text :=
  match ds with
  | [] => []
  | d :: ds' => if Nat.eqb cnt k then comma :: d :: group_rev k comma 1 ds'
                else d :: group_rev k comma (S cnt) ds'
  end.
Definition group (k : nat) (comma : ascii) (ds : text) : text := rev (group_rev k comma 0 (rev ds)).
Definition sign_text (at_ : bool) (z : Z) : text :=
  if (z <? 0)%Z then ["-"] else if at_ then ["+"] else [].
Definition int_body (base : N) (comma : ascii) (k : nat) (colon at_ : bool) (z : Z) : text :=
  let ds := digit_text base (Z.abs_N z) in
  sign_text at_ z ++ (if colon then group k comma ds else ds).
Definition pad_left (mincol : nat) (pad : ascii) (body : text) : text :=
  repeat pad (mincol - List.length body) ++ body.
Definition render_int (base : N) (mincol : nat) (pad comma : ascii) (k : nat) (colon at_ : bool) (z : Z) : text :=
  pad_left mincol pad (int_body base comma k colon at_ z).

(* reading it back: drop the padding, the commas and the sign, read the digits in the base *)
Fixpoint drop_while (f : ascii -> bool) (t : text) : text :=
  match t with a :: t' => if f a then drop_while f t' else t | [] => [] end.
Definition parse_digits (base : N) (t : text) : N := of_digits base (map char_digit t).
Definition parse_signed (base : N) (t : text) : Z :=
  match t with
  | "-" :: r => (- Z.of_N (parse_digits base r))%Z
  | "+" :: r => Z.of_N (parse_digits base r)
  | _ => Z.of_N (parse_digits base t)
  end.
Definition strip_commas (comma : ascii) (t : text) : text := filter (fun a => negb (ascii_eqb a comma)) t.
Definition read_back (base : N) (pad comma : ascii) (t : text) : Z :=
  parse_signed base (strip_commas comma (drop_while (ascii_eqb pad) t)).

(* ---- the expected word tables -------------------------------------------------------------- *)
Definition std_tables : tables := {|
  t_roman := [ map tx [""; "I"; "II"; "III"; "IV"; "V"; "VI"; "VII"; "VIII"; "IX"]%string;
               map tx [""; "X"; "XX"; "XXX"; "XL"; "L"; "LX"; "LXX"; "LXXX"; "XC"]%string;
               map tx [""; "C"; "CC"; "CCC"; "CD"; "D"; "DC"; "DCC"; "DCCC"; "CM"]%string;
               map tx [""; "M"; "MM"; "MMM"; ""; ""; ""; ""; ""; ""]%string ];
  t_oldroman := [ map tx [""; "I"; "II"; "III"; "IIII"; "V"; "VI"; "VII"; "VIII"; "VIIII"]%string;
                  map tx [""; "X"; "XX"; "XXX"; "XXXX"; "L"; "LX"; "LXX"; "LXXX"; "LXXXX"]%string;
                  map tx [""; "C"; "CC"; "CCC"; "CCCC"; "D"; "DC"; "DCC"; "DCCC"; "DCCCC"]%string;
                  map tx [""; "M"; "MM"; "MMM"; ""; ""; ""; ""; ""; ""]%string ];
  t_triples := map tx [""; "thousand"; "million"; "billion"; "trillion"; "quadrillion"; "quintillion";
                       "sextillion"; "septillion"; "octillion"; "nonillion"; "decillion"; "undecillion";
                       "duodecillion"; "tredecillion"; "quattuordecillion"; "quindecillion"; "sexdecillion";
                       "septendecillion"; "octodecillion"; "novemdecillion"; "vigintillion"]%string;
  t_one := map tx [""; "one"; "two"; "three"; "four"; "five"; "six"; "seven"; "eight"; "nine"]%string;
  t_teen := map tx ["ten"; "eleven"; "twelve"; "thirteen"; "fourteen"; "fifteen"; "sixteen"; "seventeen";
                    "eighteen"; "nineteen"]%string;
  t_ten := map tx ["twenty"; "thirty"; "forty"; "fifty"; "sixty"; "seventy"; "eighty"; "ninety"; ""; ""]%string;
  t_ordone := map tx [""; "first"; "second"; "third"; "fourth"; "fifth"; "sixth"; "seventh"; "eighth"; "ninth"]%string;
  t_ordteen := map tx ["tenth"; "eleventh"; "twelfth"; "thirteenth"; "fourteenth"; "fifteenth"; "sixteenth";
                       "seventeenth"; "eighteenth"; "nineteenth"]%string;
  t_scan := []   (* the scan map is an implementation detail; S reads exactly one character after ' *)
|}.

(* ---- Roman numerals: ~@R (IV) and ~:@R (IIII), 1 .. 3999 ----------------------------------------- *)
Definition roman_of (tbl : list (list text)) (n : N) : text :=
  let d (i : nat) (k : N) := tnth (nth i tbl []) (N.to_nat ((n / k) mod 10)%N) in
  d 3%nat 1000%N ++ d 2%nat 100%N ++ d 1%nat 10%N ++ d 0%nat 1%N.
Definition std_roman (old : bool) (z : Z) : option text :=
  if ((1 <=? z) && (z <=? 3999))%Z
  then Some (roman_of (if old then t_oldroman std_tables else t_roman std_tables) (Z.to_N z))
  else None.
Definition roman_digit (a : ascii) : N :=
  if ascii_eqb a "I" then 1 else if ascii_eqb a "V" then 5 else if ascii_eqb a "X" then 10
  else if ascii_eqb a "L" then 50 else if ascii_eqb a "C" then 100 else if ascii_eqb a "D" then 500
  else if ascii_eqb a "M" then 1000 else 0.
(* a letter smaller than its successor is subtracted, every other one added *)
Fixpoint roman_value (t : text) : Z :=
  match t with
  | [] => 0
  | a :: t' =>
      let v := Z.of_N (roman_digit a) in
      match t' with
      | b :: _ => if (v <? Z.of_N (roman_digit b))%Z then (roman_value t' - v)%Z else (roman_value t' + v)%Z
      | [] => v
      end
  end.

(* ---- English cardinals and ordinals: ~R and ~:R, |n| < 10^66 ------------------------------------ *)
Definition hundred : text := tx "hundred".
Definition w_one (i : N) := tnth (t_one std_tables) (N.to_nat i).
Definition w_teen (i : N) := tnth (t_teen std_tables) (N.to_nat i).
Definition w_ten (i : N) := tnth (t_ten std_tables) (N.to_nat i).
Definition w_scale (k : nat) := tnth (t_triples std_tables) k.
(* 1 .. 99 *)
Definition small_words (r : N) : list text :=
  if (r =? 0)%N then []
  else if (r <? 10)%N then [w_one r]
  else if (r <? 20)%N then [w_teen (r - 10)]
  else w_ten (r / 10 - 2) :: (if (r mod 10 =? 0)%N then [] else [w_one (r mod 10)]).
(* 1 .. 999 *)
Definition triple_words (t : N) : list text :=
  (if (t / 100 =? 0)%N then [] else [w_one (t / 100); hundred]) ++ small_words (t mod 100).
(* the groups of three digits, least significant first *)
Fixpoint triples_fuel (fuel : nat) (n : N) : list N :=
  match fuel with
  | O => []
  | S f => if (n =? 0)%N then [] else (n mod 1000)%N :: triples_fuel f (n / 1000)%N
  end.
Definition triples_of (n : N) : list N := triples_fuel (S (N.to_nat (N.log2 n))) n.
(* words of the groups ts (least significant first) whose first element has scale index k, most significant first *)
Fixpoint group_words (k : nat) (ts : list N) : list text :=
  match ts with
  | [] => []
  | t :: ts' => group_words (S k) ts' ++
                (if (t =? 0)%N then [] else triple_words t ++ (if Nat.eqb k 0 then [] else [w_scale k]))
  end.
Definition ten66 : N := 10 ^ 66.
Definition cardinal_words (z : Z) : option (list text) :=
  let n := Z.abs_N z in
  if (ten66 <=? n)%N then None
  else if (n =? 0)%N then Some [tx "zero"]
  else Some ((if (z <? 0)%Z then [tx "negative"] else []) ++ group_words 0 (triples_of n)).

(* the ordinal form of the last word *)
Fixpoint index_of (w : text) (l : list text) (i : nat) : option nat :=
  match l with
  | [] => None
  | x :: l' => if text_eqb x w then Some i else index_of w l' (S i)
  end.
Definition ordinal_word (w : text) : text :=
  if text_eqb w (tx "zero") then tx "zeroth" else
  match index_of w (t_one std_tables) 0 with
  | Some i => tnth (t_ordone std_tables) i
  | None =>
    match index_of w (t_teen std_tables) 0 with
    | Some i => tnth (t_ordteen std_tables) i
    | None =>
      match index_of w (t_ten std_tables) 0 with
      | Some _ => removelast w ++ tx "ieth"          (* twenty -> twentieth *)
      | None => w ++ tx "th"                         (* hundred, thousand, million, ... *)
      end
    end
  end.
Definition ordinal_words (z : Z) : option (list text) :=
  match cardinal_words z with
  | Some ws => Some (removelast ws ++ [ordinal_word (last ws [])])
  | None => None
  end.
Definition std_english (ordinal : bool) (z : Z) : option text :=
  match (if ordinal then ordinal_words z else cardinal_words z) with
  | Some ws => Some (join [sp] ws)
  | None => None
  end.

(* reading English back: a left-to-right fold over the words with (total, current group, sign) *)
Definition ord_tens : list text := Eval vm_compute in map ordinal_word (t_ten std_tables).
Definition ord_scales : list text := Eval vm_compute in map ordinal_word (t_triples std_tables).
Definition word_small (w : text) : option N :=     (* one..nine, ten..nineteen, twenty..ninety and their ordinals *)
  match index_of w (t_one std_tables) 0 with Some i => Some (N.of_nat i) | None =>
  match index_of w (t_ordone std_tables) 0 with Some i => Some (N.of_nat i) | None =>
  match index_of w (t_teen std_tables) 0 with Some i => Some (10 + N.of_nat i)%N | None =>
  match index_of w (t_ordteen std_tables) 0 with Some i => Some (10 + N.of_nat i)%N | None =>
  match index_of w (t_ten std_tables) 0 with Some i => Some (10 * (2 + N.of_nat i))%N | None =>
  match index_of w ord_tens 0 with Some i => Some (10 * (2 + N.of_nat i))%N | None => None
  end end end end end end.
Definition word_scale (w : text) : option nat :=
  match index_of w (t_triples std_tables) 0 with
  | Some i => Some i
  | None => index_of w ord_scales 0
  end.
Record pstate := { p_total : N; p_cur : N; p_neg : bool; p_bad : bool }.
Definition parse_step (st : pstate) (w : text) : pstate :=
  if text_eqb w [] then {| p_total := p_total st; p_cur := p_cur st; p_neg := p_neg st; p_bad := true |}
  else if text_eqb w (tx "negative") then {| p_total := p_total st; p_cur := p_cur st; p_neg := true; p_bad := p_bad st |}
  else if text_eqb w (tx "zero") || text_eqb w (tx "zeroth") then st
  else if text_eqb w hundred || text_eqb w (tx "hundredth")
       then {| p_total := p_total st; p_cur := (p_cur st * 100)%N; p_neg := p_neg st; p_bad := p_bad st |}
  else match word_scale w with
       | Some k => {| p_total := (p_total st + p_cur st * 1000 ^ N.of_nat k)%N; p_cur := 0; p_neg := p_neg st; p_bad := p_bad st |}
       | None =>
         match word_small w with
         | Some v => {| p_total := p_total st; p_cur := (p_cur st + v)%N; p_neg := p_neg st; p_bad := p_bad st |}
         | None => {| p_total := p_total st; p_cur := p_cur st; p_neg := p_neg st; p_bad := true |}
         end
       end.
Definition parse_words (ws : list text) : option Z :=
  let st := fold_left parse_step ws {| p_total := 0; p_cur := 0; p_neg := false; p_bad := false |} in
  if p_bad st then None
  else Some (if p_neg st then (- Z.of_N (p_total st + p_cur st))%Z else Z.of_N (p_total st + p_cur st)).
(* split a text at single spaces (two spaces in a row give an empty word, which parse_words rejects) *)
Fixpoint split_sp (t cur : text) : list text :=
  match t with
  | [] => [rev cur]
  | a :: t' => if ascii_eqb a sp then rev cur :: split_sp t' [] else split_sp t' (a :: cur)
  end.
Definition parse_english (t : text) : option Z := parse_words (split_sp t []).

(* ---- columns: ~T and ~& --------------------------------------------------------------------- *)
(* column of the cursor after the text: characters since the last newline *)
Fixpoint column_acc (t : text) (col : nat) : nat :=
  match t with
  | [] => col
  | a :: t' => if ascii_eqb a nl then column_acc t' 0 else column_acc t' (S col)
  end.
Definition column (t : text) : nat := column_acc t 0.
(* ~colnum,colincT : spaces to write when the cursor is at column cur *)
Definition std_tab_abs (colnum colinc cur : nat) : nat :=
  if Nat.ltb cur colnum then colnum - cur
  else if Nat.eqb colinc 0 then 0 else colinc - ((cur - colnum) mod colinc).
(* ~colrel,colinc@T *)
Definition std_tab_rel (colrel colinc cur : nat) : nat :=
  if Nat.eqb colinc 0 then colrel else colrel + (colinc - ((cur + colrel) mod colinc)) mod colinc.
(* ~n& : newlines to write *)
Definition std_fresh (n : Z) (before : text) : nat :=
  if (n <=? 0)%Z then 0 else if Nat.eqb (column before) 0 then Z.to_nat (n - 1) else Z.to_nat n.

(* ---- case conversion: ~( ------------------------------------------------------------------- *)
(* string-capitalize: a word is a maximal run of letters and digits; its first character is made upper
   case (if it is a letter), the others lower case *)
Fixpoint capitalize (t : text) (inword : bool) : text :=
  match t with
  | [] => []
  | a :: t' => if is_alnum a then (if inword then to_lower a else to_upper a) :: capitalize t' true
               else a :: capitalize t' false
  end.
(* ~@( : the first word is capitalized, everything else lower case *)
Fixpoint capitalize_first (t : text) (inword done : bool) : text :=
  match t with
  | [] => []
  | a :: t' => if is_alnum a
               then (if done || inword then to_lower a else to_upper a) :: capitalize_first t' true done
               else a :: capitalize_first t' false (done || inword)
  end.
Definition std_case (colon at_ : bool) (t : text) : text :=
  match colon, at_ with
  | true, true => map to_upper t
  | true, false => capitalize t false
  | false, true => capitalize_first t false false
  | false, false => map to_lower t
  end.

(* ---- the extent of blocks --------------------------------------------------------------------- *)
(* one directive after its tilde: prefix parameters (numbers, ' and a character, v, #, commas), the
   modifiers, the directive character; returns (colon, at, character, index after it) *)
Fixpoint dir_head (fuel : nat) (s : text) (i : nat) (colon at_ : bool) : option (bool * bool * ascii * nat) :=
  match fuel with
  | O => None
  | S f =>
    if Nat.leb (List.length s) i then None else
    let a := ch_at s i in
    if ascii_eqb a "'" then dir_head f s (i + 2) colon at_
    else if is_digit a || ascii_eqb a "+" || ascii_eqb a "-" || ascii_eqb a "," || ascii_eqb a "#"
            || ascii_eqb a "v" || ascii_eqb a "V" then dir_head f s (S i) colon at_
    else if ascii_eqb a ":" then dir_head f s (S i) true at_
    else if ascii_eqb a "@" then dir_head f s (S i) colon true
    else Some (colon, at_, a, S i)
  end.
(* from index i (inside a block opened by `opn`) find the closing directive at depth 0:
   returns (index of its tilde, colon modifier of the close, index after it) *)
Fixpoint block_end (fuel : nat) (s : text) (i : nat) (opn cls : ascii) (depth : nat) : option (nat * bool * nat) :=
  match fuel with
  | O => None
  | S f =>
    if Nat.leb (List.length s) i then None else
    if ascii_eqb (ch_at s i) "~" then
      match dir_head (List.length s) s (S i) false false with
      | None => None
      | Some (colon, _, a, j) =>
          if ascii_eqb a cls then (match depth with O => Some (i, colon, j) | S d => block_end f s j opn cls d end)
          else if ascii_eqb a opn then block_end f s j opn cls (S depth)
          else block_end f s j opn cls depth
      end
    else block_end f s (S i) opn cls depth
  end.
(* the clauses of ~[ ... ~] starting at index i: (clauses, default clause after ~:; , index after ~]) *)
Fixpoint cond_clauses (fuel : nat) (s : text) (i start : nat) (depth : nat) (acc : list text) (defnext : bool)
  : option (list text * option text * nat) :=
  match fuel with
  | O => None
  | S f =>
    if Nat.leb (List.length s) i then None else
    if ascii_eqb (ch_at s i) "~" then
      match dir_head (List.length s) s (S i) false false with
      | None => None
      | Some (colon, _, a, j) =>
          if ascii_eqb a "]" then
            match depth with
            | O => if defnext then Some (acc, Some (sub s start i), j) else Some (acc ++ [sub s start i], None, j)
            | S d => cond_clauses f s j start d acc defnext
            end
          else if ascii_eqb a "[" then cond_clauses f s j start (S depth) acc defnext
          else if ascii_eqb a ";" then
            match depth with
            | O => cond_clauses f s j j depth (acc ++ [sub s start i]) colon
            | S _ => cond_clauses f s j start depth acc defnext
            end
          else cond_clauses f s j start depth acc defnext
      end
    else cond_clauses f s (S i) start depth acc defnext
  end.
