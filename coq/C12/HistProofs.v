(* C12 — histories: the class-table invariant holds after every guarded history; the table is a function
   of the forms; hence the precedence lists do not depend on the order of definition *)
From C12 Require Import Model Spec Lists LinProofs ClassProofs.
From Coq Require Import Permutation.

Lemma call_gf_frame : forall w k i w' r, call_gf w k i = (w', r) ->
  heap w' = heap w /\ reg w' = reg w /\ insts w' = insts w.
Proof.
  intros w k i w' r H. unfold call_gf in H.
  destruct (nth_error (insts w) i) as [ins|]; [|inversion H; auto].
  destruct (get w (i_cid ins)) as [c|]; [|inversion H; auto].
  destruct (hier c) as [|key p]; [inversion H; auto|].
  destruct (lookup (g_cache (get_gf w k)) key); [inversion H; auto|].
  cbv zeta in H. destruct (callable k (applicable (get_gf w k) (key :: p))); inversion H; auto.
Qed.
Lemma upd_inst_frame : forall w i vs, heap (upd_inst w i vs) = heap w /\ reg (upd_inst w i vs) = reg w /\ gfs (upd_inst w i vs) = gfs w.
Proof. intros. unfold upd_inst. destruct (nth_error (insts w) i); simpl; auto. Qed.

Definition is_defclass (o : op) : bool := match o with ODefclass _ _ _ => true | _ => false end.
Lemma step_heap_reg : forall w o ro co, is_defclass o = false ->
  heap (fst (step w o ro co)) = heap w /\ reg (fst (step w o ro co)) = reg w.
Proof.
  intros w o ro co H. destruct o; try discriminate; simpl.
  - destruct (lookup (reg w) n) as [id|]; [|auto]. destruct (get w id) as [c|]; [|auto].
    destruct (make_instance (heap w) c args); simpl; auto.
  - destruct (nth_error (insts w) i); simpl; auto.
  - destruct (nth_error (insts w) i); simpl; auto.
  - destruct (nth_error (insts w) i) as [ins|]; simpl; [|auto].
    destruct (lookup (i_vars ins) s); simpl; [|auto]. destruct (upd_inst_frame w i (set_assoc (i_vars ins) s (Some v))) as [A [B _]]. auto.
  - destruct (nth_error (insts w) i) as [ins|]; simpl; [|auto].
    destruct (lookup (i_vars ins) s); simpl; [|auto]. destruct (upd_inst_frame w i (set_assoc (i_vars ins) s None)) as [A [B _]]. auto.
  - destruct (call_gf w (gkey k s) i) as [w1 r] eqn:E. destruct (call_gf_frame _ _ _ _ _ E) as [A [B C]].
    destruct r; [|simpl; auto].
    destruct (nth_error (insts w1) i) as [ins|]; [|simpl; auto].
    destruct (Nat.eqb k KR || Nat.eqb k KAR); simpl; [auto|].
    destruct (lookup (i_vars ins) s); [|auto].
    destruct (upd_inst_frame w1 i (set_assoc (i_vars ins) s (Some v))) as [A' [B' _]]. split; congruence.
  - destruct (nth_error (insts w) i) as [ins|]; simpl; [|auto]. destruct (get w (i_cid ins)); simpl; auto.
  - destruct (nth_error (insts w) i) as [ins|]; simpl; [|auto]. destruct (get w (i_cid ins)); simpl; auto.
  - auto.
  - destruct (call_gf w (gkey KU 0) i) as [w1 r] eqn:E. destruct (call_gf_frame _ _ _ _ _ E) as [A [B C]].
    destruct r; simpl; auto.
Qed.

(* the invariant speaks of the heap and the registry only *)
Lemma Inv_heap_reg : forall w w', heap w' = heap w -> reg w' = reg w -> Inv w -> Inv w'.
Proof.
  intros [h r g i] [h' r' g' i'] Hh Hr H. simpl in Hh, Hr. subst h' r'. exact H.
Qed.

Lemma Inv_w0 : Inv w0.
Proof.
  split; [split; [split|]|].
  - simpl. constructor.
  - intros n id H. discriminate.
  - intros n id c [H _]. discriminate.
  - intros n id c [H _]. discriminate.
Qed.

Theorem step_inv : forall w o ro co, Inv w -> g_step w o ro co = true -> Inv (fst (step w o ro co)).
Proof.
  intros w o ro co HI G. destruct (is_defclass o) eqn:D.
  - destruct o; try discriminate. simpl in G |- *. apply (defclass_inv w n supers slots ro co HI G).
  - destruct (step_heap_reg w o ro co D) as [A B]. eapply Inv_heap_reg; eassumption.
Qed.
Theorem inv_history : forall h w, Inv w -> guard_ops w h = true -> Inv (run w h).
Proof.
  induction h as [|[[o ro] co] r IH]; intros w HI G; simpl in *; [assumption|].
  apply andb_true_iff in G. destruct G as [G1 G2]. apply IH; [apply step_inv; assumption | assumption].
Qed.

(* ---- the table is a function of the forms --------------------------------------------------------- *)
Definition tupd (T : nat -> option (list nat)) (n : nat) (supers : list nat) : nat -> option (list nat) :=
  fun m => if Nat.eqb m n then Some supers else T m.
Fixpoint tbl_of (h : list hstep) (T : nat -> option (list nat)) : nat -> option (list nat) :=
  match h with
  | [] => T
  | (ODefclass n supers _, _, _) :: r => tbl_of r (tupd T n supers)
  | _ :: r => tbl_of r T
  end.
Lemma tbl_of_ext : forall h T T', (forall m, T m = T' m) -> forall m, tbl_of h T m = tbl_of h T' m.
Proof.
  induction h as [|[[o ro] co] r IH]; intros T T' H m; simpl; [apply H|].
  destruct o; try (apply IH; assumption). apply IH. intros m'. unfold tupd. destruct (Nat.eqb m' n); [reflexivity | apply H].
Qed.

Lemma table_heap_reg : forall w w', heap w' = heap w -> reg w' = reg w -> forall m, table w' m = table w m.
Proof. intros w w' Hh Hr m. unfold table, get. rewrite Hh, Hr. reflexivity. Qed.

Lemma table_defclass : forall w n supers slots ro co, Inv w -> g_defclass w n supers slots ro co = true ->
  forall m, table (defclass w n supers slots ro co) m = tupd (table w) n supers m.
Proof.
  intros w n supers slots ro co HI G m. destruct (defclass_inv w n supers slots ro co HI G) as [_ E].
  change (table (defclass w n supers slots ro co) m) with (table (defclass_merged w n supers slots ro co) m).
  rewrite (ext_table _ _ E). unfold tupd. destruct (Nat.eqb m n) eqn:Emn.
  - apply Nat.eqb_eq in Emn. subst m. unfold table. rewrite (reg_wr_same w n supers slots).
    destruct (defclass_reg_shape w n supers slots) as [_ [_ [newc [Hh [_ [N2 _]]]]]].
    unfold get. rewrite Hh, nth_error_app_last. congruence.
  - apply Nat.eqb_neq in Emn. apply (table_wr_other w n supers slots HI). assumption.
Qed.

Theorem table_history : forall h w, Inv w -> guard_ops w h = true ->
  forall m, table (run w h) m = tbl_of h (table w) m.
Proof.
  induction h as [|[[o ro] co] r IH]; intros w HI G m; simpl in *; [reflexivity|].
  apply andb_true_iff in G. destruct G as [G1 G2].
  rewrite (IH _ (step_inv w o ro co HI G1) G2).
  destruct (is_defclass o) eqn:D.
  - destruct o; try discriminate. simpl. apply tbl_of_ext. intros m'. apply table_defclass; assumption.
  - destruct (step_heap_reg w o ro co D) as [A B].
    assert (forall m', table (fst (step w o ro co)) m' = table w m') as HT by (apply table_heap_reg; assumption).
    destruct o; try discriminate; apply tbl_of_ext; exact HT.
Qed.

(* ---- the precedence list of every class name is what S says of the table ---------------------------- *)
Definition prec_of (w : world) (n : nat) : list nat :=
  match lookup (reg w) n with
  | Some id => match get w id with Some c => co_prec c | None => [] end
  | None => []
  end.
Theorem prec_of_spec : forall w n, Inv w ->
  (forall f l, lin (table w) f n = Some l -> prec_of w n = n :: l ++ [SO; TT]) /\
  ((forall f, lin (table w) f n = None) -> prec_of w n = []).
Proof.
  intros w n HI. unfold prec_of. destruct (lookup (reg w) n) as [id|] eqn:L.
  - pose proof HI as [[[_ HW] _] _]. destruct (HW n id L) as [c [G _]]. rewrite G.
    destruct (prec_is_spec w n id c HI (conj L G)) as [A B]. split.
    + intros f l Hf. apply (A f l Hf).
    + intros Hn. apply (B Hn).
  - split; [|reflexivity]. intros f l Hf. destruct f; [discriminate|]. rewrite lin_S in Hf. unfold table in Hf. rewrite L in Hf. discriminate.
Qed.

Lemma lin_pointwise : forall T T' f n, (forall m, T m = T' m) -> lin T f n = lin T' f n.
Proof.
  intros T T' f n H. destruct (lin T f n) as [l|] eqn:E.
  - symmetry. apply (lin_ext T T' f n l E). intros. symmetry. apply H.
  - destruct (lin T' f n) as [l'|] eqn:E'; [|reflexivity].
    rewrite (lin_ext T' T f n l' E') in E; [discriminate|]. intros. apply H.
Qed.

(* two worlds with the same table have the same precedence lists *)
Theorem prec_function_of_table : forall w1 w2, Inv w1 -> Inv w2 -> (forall m, table w1 m = table w2 m) ->
  forall n, prec_of w1 n = prec_of w2 n.
Proof.
  intros w1 w2 H1 H2 HT n.
  destruct (prec_of_spec w1 n H1) as [A1 B1]. destruct (prec_of_spec w2 n H2) as [A2 B2].
  unfold prec_of at 1. destruct (lookup (reg w1) n) as [id|] eqn:L.
  - pose proof H1 as [[[_ HW] HJ] _]. destruct (HW n id L) as [c [G _]]. rewrite G.
    destruct (HJ n id c (conj L G)) as [_ H]. destruct (H (fun x => x)) as [Hg|Hb].
    + destruct Hg as [[f Hf] [_ [Hp _]]]. rewrite Hp. unfold mk_prec. symmetry. apply (A2 f).
      rewrite <- (lin_pointwise _ _ f n HT). assumption.
    + rewrite (proj1 Hb). symmetry. apply B2. intros f. rewrite <- (lin_pointwise _ _ f n HT).
      apply (blank_no_lin w1 H1 f n id c (conj L G) (proj1 Hb)).
  - symmetry. apply B2. intros f. rewrite <- (lin_pointwise _ _ f n HT).
    destruct f; [reflexivity|]. rewrite lin_S. unfold table. rewrite L. reflexivity.
Qed.

(* forms of a history, in order *)
Fixpoint forms (h : list hstep) : list (nat * list nat) :=
  match h with
  | [] => []
  | (ODefclass n supers _, _, _) :: r => (n, supers) :: forms r
  | _ :: r => forms r
  end.
Fixpoint tbl_fold (fs : list (nat * list nat)) (T : nat -> option (list nat)) : nat -> option (list nat) :=
  match fs with [] => T | (n, s) :: r => tbl_fold r (tupd T n s) end.
Lemma tbl_of_forms : forall h T m, tbl_of h T m = tbl_fold (forms h) T m.
Proof.
  induction h as [|[[o ro] co] r IH]; intros T m; simpl; [reflexivity|]. destruct o; simpl; apply IH.
Qed.
Lemma tbl_fold_notin : forall fs T m, ~ In m (map fst fs) -> tbl_fold fs T m = T m.
Proof.
  induction fs as [|[n s] r IH]; intros T m H; simpl in *; [reflexivity|].
  rewrite IH by tauto. unfold tupd. destruct (Nat.eqb m n) eqn:E; [|reflexivity]. apply Nat.eqb_eq in E. subst. tauto.
Qed.
Lemma tbl_fold_in : forall fs T m s, NoDup (map fst fs) -> In (m, s) fs -> tbl_fold fs T m = Some s.
Proof.
  induction fs as [|[n s0] r IH]; intros T m s Hn Hi; simpl in *; [contradiction|].
  inversion Hn; subst. destruct Hi as [Hi|Hi].
  - inversion Hi; subst. rewrite tbl_fold_notin by assumption. unfold tupd. rewrite Nat.eqb_refl. reflexivity.
  - apply IH; assumption.
Qed.
Lemma tbl_fold_perm : forall fs1 fs2 T, NoDup (map fst fs1) -> Permutation fs1 fs2 -> forall m, tbl_fold fs1 T m = tbl_fold fs2 T m.
Proof.
  intros fs1 fs2 T Hn Hp m.
  assert (NoDup (map fst fs2)) as Hn2 by (eapply Permutation_NoDup; [apply Permutation_map; exact Hp | assumption]).
  destruct (in_dec Nat.eq_dec m (map fst fs1)) as [Hi|Hni].
  - apply in_map_iff in Hi. destruct Hi as [[m' s] [Hm Hi]]. simpl in Hm. subst m'.
    rewrite (tbl_fold_in fs1 T m s Hn Hi). symmetry. apply tbl_fold_in; [assumption|]. eapply Permutation_in; eassumption.
  - rewrite (tbl_fold_notin fs1 T m Hni). symmetry. apply tbl_fold_notin.
    intro Hc. apply Hni. eapply Permutation_in; [apply Permutation_sym; apply Permutation_map; exact Hp | assumption].
Qed.

(* definition order is irrelevant: two guarded histories whose defclass forms are a permutation of one
   another (each class defined once) end with the same precedence list for every class name *)
Theorem definition_order_irrelevant : forall h1 h2,
  guard_ops w0 h1 = true -> guard_ops w0 h2 = true ->
  NoDup (map fst (forms h1)) -> Permutation (forms h1) (forms h2) ->
  forall n, prec_of (run w0 h1) n = prec_of (run w0 h2) n.
Proof.
  intros h1 h2 G1 G2 Hn Hp n.
  apply prec_function_of_table; try (apply inv_history; [apply Inv_w0 | assumption]).
  intros m. rewrite (table_history h1 w0 Inv_w0 G1), (table_history h2 w0 Inv_w0 G2).
  rewrite !tbl_of_forms. apply tbl_fold_perm; assumption.
Qed.

(* after any guarded history the precedence list of a class is the specification's, computed from the
   table of the latest forms *)
Theorem precedence_after_history : forall h n, guard_ops w0 h = true ->
  let T := tbl_fold (forms h) (fun _ => None) in
  (forall f l, lin T f n = Some l -> prec_of (run w0 h) n = n :: l ++ [SO; TT]) /\
  ((forall f, lin T f n = None) -> prec_of (run w0 h) n = []).
Proof.
  intros h n G T. pose proof (inv_history h w0 Inv_w0 G) as HI.
  assert (forall m, table (run w0 h) m = T m) as HT.
  { intros m. rewrite (table_history h w0 Inv_w0 G). rewrite tbl_of_forms. reflexivity. }
  destruct (prec_of_spec (run w0 h) n HI) as [A B]. split.
  - intros f l Hf. apply (A f). rewrite (lin_pointwise _ _ f n HT). assumption.
  - intros Hn. apply B. intros f. rewrite (lin_pointwise _ _ f n HT). apply Hn.
Qed.
