(* C12 — property theorems only.  M = coq/C12/Model.v (what the Go code does), S = coq/C12/Spec.v
   (lin / slot_S / applicable over the table of the latest defclass forms), guard = g_step. *)
From C12 Require Import Proofs.

(* (1) Every guarded history of defclass / make-instance / slot access / accessor / typep / class-of /
   defmethod / generic call operations, whatever orders Go's map iteration took (they are part of the
   history), ends in a state where every registered class is either not ready or has exactly the derived
   fields (inherit list, precedence, initarg map, initform map) recomputed from the table, and where every
   dispatch-cache entry of every generic equals the applicable methods recomputed from the precedence list. *)
Theorem C12_invariants_after_every_history : forall h, guard_ops w0 h = true -> Inv (run w0 h) /\ CacheInv (run w0 h).
Proof. exact invariants_history. Qed.
Print Assumptions C12_invariants_after_every_history.

(* (2) Precedence = specification: after every guarded history the precedence list of class n is
   n :: lin T n ++ [standard-object; t], T the table of the latest form of every class name; lin = the
   direct superclasses in the order written followed by theirs (first occurrence kept).  A class with an
   undefined (or cyclic) ancestor has no precedence list (it is not ready). *)
Theorem C12_precedence_is_spec : forall h n, guard_ops w0 h = true ->
  let T := tbl_fold (forms h) (fun _ => None) in
  (forall f l, lin T f n = Some l -> prec_of (run w0 h) n = n :: l ++ [SO; TT]) /\
  ((forall f, lin T f n = None) -> prec_of (run w0 h) n = []).
Proof. exact precedence_after_history. Qed.
Print Assumptions C12_precedence_is_spec.

(* (3) Definition order is irrelevant: two guarded histories whose defclass forms are permutations of one
   another (each class defined once; superclasses before or after their subclasses; any other operations in
   between) give every class name the same precedence list. *)
Theorem C12_definition_order_irrelevant : forall h1 h2,
  guard_ops w0 h1 = true -> guard_ops w0 h2 = true ->
  NoDup (map fst (forms h1)) -> Permutation.Permutation (forms h1) (forms h2) ->
  forall n, prec_of (run w0 h1) n = prec_of (run w0 h2) n.
Proof. exact definition_order_irrelevant. Qed.
Print Assumptions C12_definition_order_irrelevant.

(* (4) The arbitrary iteration orders of makeClassesReady and classChanged do not influence the result
   of a guarded defclass. *)
Theorem C12_iteration_order_irrelevant : forall w n supers slots ro co ro' co', Inv w ->
  g_defclass w n supers slots ro co = true -> g_defclass w n supers slots ro' co' = true ->
  forall m, prec_of (defclass w n supers slots ro co) m = prec_of (defclass w n supers slots ro' co') m.
Proof. exact iteration_order_irrelevant. Qed.
Print Assumptions C12_iteration_order_irrelevant.

(* (5) Redefinition is reflected in the subclasses: after a guarded (re)definition of n EVERY class m has
   the specification's precedence list for the updated table. *)
Theorem C12_redefinition_propagates : forall w n supers slots ro co, Inv w ->
  g_defclass w n supers slots ro co = true ->
  forall m, (forall f l, lin (tupd (table w) n supers) f m = Some l -> prec_of (defclass w n supers slots ro co) m = m :: l ++ [SO; TT]) /\
            ((forall f, lin (tupd (table w) n supers) f m = None) -> prec_of (defclass w n supers slots ro co) m = []).
Proof. exact redefinition_propagates. Qed.
Print Assumptions C12_redefinition_propagates.

(* (6) make-instance: for a ready class in an invariant state and guarded arguments (no initarg supplied twice,
   no two supplied initargs declared for the same slot), make-instance signals an error iff some supplied initarg
   is declared by no class of the precedence list; otherwise every slot s of the new instance is slot_S: missing
   if no class of the list names s, else the value of the supplied initarg declared for s by any class of the
   list (one initarg fills every slot that declares it), else the initform of the most specific class that gives
   one, else unbound. *)
Theorem C12_make_instance_spec : forall w n id c args, Inv w -> registered w n id c -> co_prec c <> [] ->
  g_make w n args = true ->
  let P := n :: map snd (co_inherit c) in
  match make_instance (heap w) c args with
  | None => valid_args (cs_of w) P args = false
  | Some vs => valid_args (cs_of w) P args = true /\ forall s, slot_state vs s = slot_S (cs_of w) P args s
  end.
Proof. exact make_instance_spec. Qed.
Print Assumptions C12_make_instance_spec.

(* (7) Frame, every state, no guard: slot-value, slot-boundp, (setf slot-value), slot-makunbound, readers,
   writers, accessors, typep, class-of, defmethod, generic calls never touch the class world, create or
   re-class no instance, and change no slot other than their target slot of their target instance. *)
Theorem C12_access_frame : forall w o ro co, is_access o = true ->
  let w' := fst (step w o ro co) in
  heap w' = heap w /\ reg w' = reg w /\ length (insts w') = length (insts w) /\
  (forall i, inst_class w' i = inst_class w i) /\
  (forall i s, target o <> Some (i, s) -> slot_at w' i s = slot_at w i s).
Proof. exact access_frame. Qed.
Print Assumptions C12_access_frame.

(* (8) a reader changes nothing and returns the content of its slot of its argument *)
Theorem C12_reader_reads : forall w k s i v ro co, (k = KR \/ k = KAR) ->
  insts (fst (step w (OCall k s i v) ro co)) = insts w /\
  match snd (step w (OCall k s i v) ro co) with
  | OV x => slot_at w i s = Some (Some (Some x)) \/ (slot_at w i s = Some None /\ x = (-1)%Z)
  | OUnb => slot_at w i s = Some (Some None)
  | OErr => True
  | _ => False
  end.
Proof. exact reader_reads. Qed.
Print Assumptions C12_reader_reads.

(* (9) a writer that returns, returns its argument and has stored it in its slot *)
Theorem C12_writer_writes : forall w k s i v ro co, (k = KW \/ k = KAW) ->
  match snd (step w (OCall k s i v) ro co) with
  | OV x => x = v /\ (forall y, slot_at w i s = Some (Some y) -> slot_at (fst (step w (OCall k s i v) ro co)) i s = Some (Some (Some v)))
  | OErr => True
  | _ => False
  end.
Proof. exact writer_writes. Qed.
Print Assumptions C12_writer_writes.

(* (10) typep, class-of and method applicability use one list, and it is the specification's: in an
   invariant state, for an instance whose class object is the registered one, class-of shows P, typep m is
   membership in P, and a call of ANY generic (accessor generics included) finds the methods of exactly the
   classes of P that have one, most specific first, cache or no cache.  (Since repo_fixes/C12-3 a class can lose
   readiness while it has instances: it inherits a class that was redefined with a superclass not defined yet.
   Then P = [] and typep / dispatch see the hierarchy hier_of [] = (t), until the missing class is defined.
   Since repo_fixes/C10-3 the methods found make an effective method only when one of them is a primary: [callable] -
   for the accessor generics any method, for the user generic the method on t, its other methods being :before daemons.) *)
Theorem C12_typep_classof_dispatch_agree : forall w i, Inv w -> CacheInv w -> current w i = true ->
  exists n P,
    (forall f l, lin (table w) f n = Some l -> P = n :: l ++ [SO; TT]) /\
    ((forall f, lin (table w) f n = None) -> P = []) /\
    snd (step w (OClassOf i) [] []) = ONames P /\
    (forall m, snd (step w (OTypep i m) [] []) = OB (memb m (hier_of P))) /\
    (forall k, snd (call_gf w k i) = let l := applicable (get_gf w k) (hier_of P) in if callable k l then Some l else None).
Proof. exact typep_classof_dispatch_agree. Qed.
Print Assumptions C12_typep_classof_dispatch_agree.

(* (11) outside the guard the faithful model violates S: the known findings.  The first one is what is left of
   the dispatch-cache defect after repo_fixes/C12-4: the cache is keyed by the class NAME, so a call with an instance
   made before a redefinition (its class object is no longer the registered one: outside the guard) caches the old
   methods under the name, and the next call with a new instance uses them. *)
Theorem C12_dispatch_cache_class_name_refuted :
  guard_ops w0 w_key_prefix = true /\ guard_ops w0 w_key = false /\
  guard_ops w0 (w_key_prefix ++ [other (ODispatch 1)]) = true /\
  last (run_obs w0 (w_key_prefix ++ [other (ODispatch 1)])) OErr = ONames [3] /\
  prec_of (run w0 w_key) 1 = [1; 3; SO; TT] /\ spec_prec (run w0 w_key) 1 = [1; 3; SO; TT] /\
  skipn 8 (run_obs w0 w_key) = [ONames [0]; ONames [0]; OB false].
Proof. exact dispatch_cache_class_name_refuted. Qed.
Print Assumptions C12_dispatch_cache_class_name_refuted.
Theorem C12_two_initargs_one_slot_refuted :
  guard_ops w0 w_two_prefix = true /\ guard_ops w0 w_two = false /\
  last (run_obs w0 w_two) ODone = OErr /\
  valid_args (cs_of (run w0 w_two_prefix)) [0] [(0, 1%Z); (1, 2%Z)] = true /\
  slot_S (cs_of (run w0 w_two_prefix)) [0] [(0, 1%Z); (1, 2%Z)] 0 = SVal 1.
Proof. exact two_initargs_one_slot_refuted. Qed.
Print Assumptions C12_two_initargs_one_slot_refuted.

(* (11a) repaired (repo_fixes/C12-2): the order in which Go's map delivers the classes that inherit a redefined
   class no longer matters.  Chain a <- b <- c, a redefined under z: with c delivered before b and with b before c
   the history is inside the guard and c gets (c b a z standard-object t), the specification's list.  The second
   theorem keeps the record of the unchanged code (merging in the delivered order leaves c stale when c comes first). *)
Theorem C12_classchanged_any_order_example :
  guard_ops w0 w_order_cb = true /\ guard_ops w0 w_order_bc = true /\
  prec_of (run w0 w_order_cb) 2 = [2; 1; 0; 3; SO; TT] /\ prec_of (run w0 w_order_bc) 2 = [2; 1; 0; 3; SO; TT] /\
  spec_prec (run w0 w_order_cb) 2 = [2; 1; 0; 3; SO; TT].
Proof. exact classchanged_any_order_example. Qed.
Print Assumptions C12_classchanged_any_order_example.
Theorem C12_original_classchanged_order_refuted :
  let pre := defclass_pre (run w0 h_chain) 0 [3] [] [4; 1; 2; 3] in
  prec_of (class_changed_orig pre 0 [2; 1]) 2 = [2; 1; 0; SO; TT] /\
  prec_of (class_changed_orig pre 0 [1; 2]) 2 = [2; 1; 0; 3; SO; TT] /\
  prec_of (class_changed pre 0 [2; 1]) 2 = [2; 1; 0; 3; SO; TT].
Proof. exact original_classchanged_order_refuted. Qed.
Print Assumptions C12_original_classchanged_order_refuted.

(* (11b) repaired (repo_fixes/C12-3): a redefinition whose new superclass is not defined yet.  a, b under a, an
   instance of b, a redefined under the undefined z, then z defined: the whole history is inside the guard; in
   between a and b are not ready (no precedence list, make-instance refuses, the old instance of b is a t only),
   afterwards b has (b a z standard-object t) and the old instance of b is a z.  The second theorem keeps the
   record of the unchanged code (the failed re-merge left b ready with the old list and an empty inherit list). *)
Theorem C12_redefinition_forward_reference_example :
  guard_ops w0 w_fwd = true /\
  prec_of (run w0 w_fwd_mid) 0 = [] /\ prec_of (run w0 w_fwd_mid) 1 = [] /\ spec_prec (run w0 w_fwd_mid) 1 = [] /\
  snd (step (run w0 w_fwd_mid) (OTypep 0 1) [] []) = OB false /\ snd (step (run w0 w_fwd_mid) (OMake 1 []) [] []) = OErr /\
  prec_of (run w0 w_fwd) 0 = [0; 3; SO; TT] /\
  prec_of (run w0 w_fwd) 1 = [1; 0; 3; SO; TT] /\ spec_prec (run w0 w_fwd) 1 = [1; 0; 3; SO; TT] /\
  snd (step (run w0 w_fwd) (OTypep 0 3) [] []) = OB true.
Proof. exact redefinition_forward_reference_example. Qed.
Print Assumptions C12_redefinition_forward_reference_example.
Theorem C12_original_redefinition_forward_reference_refuted :
  let pre := defclass_pre (run w0 w_fwd_prefix) 0 [3] [] [2; 1] in
  prec_of (merge_orig pre 1) 1 = [1; 0; SO; TT] /\ readyb (merge_orig pre 1) 1 = true /\ inherits (merge_orig pre 1) 1 0 = false /\
  spec_prec pre 1 = [] /\ prec_of (class_changed pre 0 [1]) 1 = [].
Proof. exact original_redefinition_forward_reference_refuted. Qed.
Print Assumptions C12_original_redefinition_forward_reference_refuted.

(* (11c) repaired (repo_fixes/C12-4): defclass drops the dispatch caches.  b under a, methods for a and z, a call
   caches "b -> a's method", b is redefined under z: the history is inside the guard and a new instance of b gets
   z's method.  The second theorem keeps the record of the unchanged code (same defclass without ClearCaches: a's
   method, although typep denies the instance is an a). *)
Theorem C12_dispatch_cache_cleared_example :
  guard_ops w0 w_cache = true /\
  prec_of (run w0 w_cache) 1 = [1; 3; SO; TT] /\ spec_prec (run w0 w_cache) 1 = [1; 3; SO; TT] /\
  skipn 6 (run_obs w0 w_cache_prefix) = [ONames [0]] /\
  skipn 9 (run_obs w0 w_cache) = [ONames [3]; OB false].
Proof. exact dispatch_cache_cleared_example. Qed.
Print Assumptions C12_dispatch_cache_cleared_example.
Theorem C12_original_dispatch_cache_stale_refuted :
  let w := run w0 w_cache_prefix in
  let w1 := fst (step (defclass_merged w 1 [3] [] [0; 1; 3] []) (OMake 1 []) [] []) in
  let w2 := fst (step (defclass w 1 [3] [] [0; 1; 3] []) (OMake 1 []) [] []) in
  snd (step w1 (ODispatch 1) [] []) = ONames [0] /\ snd (step w1 (OTypep 1 0) [] []) = OB false /\
  snd (step w2 (ODispatch 1) [] []) = ONames [3].
Proof. exact original_dispatch_cache_stale_refuted. Qed.
Print Assumptions C12_original_dispatch_cache_stale_refuted.

(* (11d) repaired (repo_fixes/C12-5): an initarg declared for two slots fills both, whether the two slots come
   from a class and its superclass or from one defclass form.  The second theorem keeps the record of the
   unchanged code (one slot per initarg: the superclass's slot stayed unbound). *)
Theorem C12_shared_initarg_example :
  guard_ops w0 w_shared = true /\
  skipn 3 (run_obs w0 w_shared) = [OInst [SVal 5; SVal 5; SMissing; SMissing]; OInst [SVal 6; SVal 6; SMissing; SMissing]] /\
  map (slot_S (cs_of (run w0 w_shared_prefix)) [1; 0] [(0, 5%Z)]) [0; 1; 2; 3] = [SVal 5; SVal 5; SMissing; SMissing].
Proof. exact shared_initarg_example. Qed.
Print Assumptions C12_shared_initarg_example.
Theorem C12_original_shared_initarg_refuted :
  let w := run w0 w_shared_prefix in
  match lookup (reg w) 1 with
  | Some id => match get w id with
               | Some c =>
                   let v0 := fold_left (fun vs p => init_inh (slots_of (heap w) p) vs) (co_inherit c) (init_own (co_slots c) []) in
                   match shared_args_orig (co_initargs c) [(0, 5%Z)] [] v0, shared_args (co_initargs c) [(0, 5%Z)] [] v0 with
                   | Some (_, v1), Some (_, v2) =>
                       map (slot_state v1) [0; 1] = [SUnbound; SVal 5] /\ map (slot_state v2) [0; 1] = [SVal 5; SVal 5]
                   | _, _ => False
                   end
               | None => False
               end
  | None => False
  end.
Proof. exact original_shared_initarg_refuted. Qed.
Print Assumptions C12_original_shared_initarg_refuted.

(* (12) the hypotheses are satisfiable: a guarded history with forward references, a diamond, shadowed
   slots, initforms at two levels, a nil initform, a redefinition below which a class inherits, accessors and
   dispatch; and two orders of the same forms that both pass the guard *)
Theorem C12_guard_nonvacuous :
  guard_ops w0 (auto_hist w0 ex_ops) = true /\
  map (prec_of (run w0 (auto_hist w0 ex_ops))) [0; 1; 2; 3; 4] =
    [[0; SO; TT]; [1; 0; SO; TT]; [2; 0; SO; TT]; [3; 1; 2; 0; SO; TT]; []] /\
  map (spec_prec (run w0 (auto_hist w0 ex_ops))) [0; 1; 2; 3; 4] =
    [[0; SO; TT]; [1; 0; SO; TT]; [2; 0; SO; TT]; [3; 1; 2; 0; SO; TT]; []] /\
  skipn 7 (run_obs w0 (auto_hist w0 ex_ops)) =
    [OInst [SVal 120; SVal 7; SVal (-1); SMissing]; OInst [SVal 5; SMissing; SVal (-1); SMissing];
     OV 120; OV 7; OV 5; OV 4; OV 4; OV (-1); ONames [3; 1; 0]; OB true; OB false; ONames [3; 1; 2; 0; SO; TT]; ODone;
     OTable [Some (2, [], [0; SO; TT]); Some (4, [2], [1; 0; SO; TT]); Some (1, [2], [2; 0; SO; TT]);
             Some (0, [4; 1; 2], [3; 1; 2; 0; SO; TT]); None];
     OInst [SVal 120; SVal 6; SVal (-1); SVal 8]; OInst [SVal 120; SUnbound; SVal (-1); SVal 777];
     ONames [3; 1; 2; 0]; OV 9; OV 9; OV 6; OV 777; OB true; ODone; OUnb; OV 120].
Proof. exact guarded_example. Qed.
Print Assumptions C12_guard_nonvacuous.
Theorem C12_order_example :
  guard_ops w0 (auto_hist w0 perm_a) = true /\ guard_ops w0 (auto_hist w0 perm_b) = true /\
  map (prec_of (run w0 (auto_hist w0 perm_a))) [0; 1; 2; 3] = map (prec_of (run w0 (auto_hist w0 perm_b))) [0; 1; 2; 3] /\
  map fst (reg (run w0 (auto_hist w0 perm_a))) <> map fst (reg (run w0 (auto_hist w0 perm_b))).
Proof. exact order_example. Qed.
Print Assumptions C12_order_example.
