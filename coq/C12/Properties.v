(* C12 — property theorems only. *)
From C12 Require Import Model Spec Proofs.
Theorem C12_placeholder : forall A k, @lookup A [] k = None.
Proof. exact placeholder_lookup_nil. Qed.
Print Assumptions C12_placeholder.
