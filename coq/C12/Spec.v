(* C12 — specification S and the guard.

   S knows nothing of class objects, merge passes, readiness loops or caches.  Its state is the TABLE
   (for each class name the latest defclass form), the instances as slot maps, and the set of class
   names the user generic has a method for.  Everything the property talks about is a function of it:

   * lin T n: the classes below n in its precedence list: the direct superclasses in the order
     written, followed by theirs, first occurrence kept; defined (Some) exactly when every class
     reachable from n is defined and no cycle is met.  cpl = n :: lin ++ [standard-object; t].
   * a new instance has the slots named anywhere in the precedence list; slot s holds the value of
     the first supplied initarg declared for s by any class of the list, else the initform of the most
     specific class that gives s one, else it is unbound.
   * slot-value / (setf slot-value) / slot-makunbound / readers / writers / accessors read or write that
     one slot of that one instance.
   * typep, class-of and the applicable methods of a generic are read off cpl.
   S has NO OPINION (None) where the property is silent: instances made before their class (or an
   ancestor) was redefined, accessors no class of the list declares. *)
From C12 Require Import Model.

Fixpoint all_some {A} (l : list (option A)) : option (list A) :=
  match l with
  | [] => Some []
  | None :: _ => None
  | Some x :: r => match all_some r with Some xs => Some (x :: xs) | None => None end
  end.

Fixpoint lin (T : nat -> option (list nat)) (fuel : nat) (n : nat) : option (list nat) :=
  match fuel with
  | O => None
  | S f =>
      match T n with
      | None => None
      | Some supers =>
          match all_some (map (lin T f) supers) with
          | None => None
          | Some ls => Some (dedup (supers ++ concat ls))
          end
      end
  end.
Definition cpl_of (n : nat) (o : option (list nat)) : list nat :=
  match o with Some l => n :: l ++ [SO; TT] | None => [] end.

(* ---- the abstract world ------------------------------------------------------------------ *)
Record sdef := mkSDef { d_supers : list nat; d_slots : list slotdef }.
(* si_unk: slots whose content S no longer knows: a writer about which S has no opinion (not declared by the
   current definitions, or applied to an instance of a superseded class) may or may not have stored its argument *)
Record sinst := mkSI { si_class : nat; si_stale : bool; si_vars : varmap; si_unk : list nat }.
Record sworld := mkSW { s_tbl : list (nat * sdef); s_insts : list sinst; s_meths : list nat }.
Definition sw0 : sworld := mkSW [] [] [].

Definition stable (tbl : list (nat * sdef)) (n : nat) : option (list nat) :=
  match lookup tbl n with Some d => Some (d_supers d) | None => None end.
Definition sfuel (tbl : list (nat * sdef)) : nat := S (length tbl).
Definition slin (tbl : list (nat * sdef)) (n : nat) : option (list nat) := lin (stable tbl) (sfuel tbl) n.
Definition class_slots (tbl : list (nat * sdef)) (c : nat) : list slotdef :=
  match lookup tbl c with Some d => d_slots d | None => [] end.

(* the definitions of slot s along the precedence list P, most specific first; cs gives the slot
   specifiers of the current definition of each class *)
Definition eff_defs (cs : nat -> list slotdef) (P : list nat) (s : nat) : list slotdef :=
  flat_map (fun c => filter (fun sd => Nat.eqb (sd_name sd) s) (cs c)) P.
Definition first_initform (defs : list slotdef) : option Z :=
  match flat_map (fun sd => match sd_initform sd with Some v => [v] | None => [] end) defs with
  | v :: _ => Some v
  | [] => None
  end.
Definition slot_S (cs : nat -> list slotdef) (P : list nat) (args : list (nat * Z)) (s : nat) : slotst :=
  match eff_defs cs P s with
  | [] => SMissing
  | defs =>
      match find (fun kv => memb (fst kv) (flat_map sd_initargs defs)) args with
      | Some kv => SVal (snd kv)
      | None => match first_initform defs with Some v => SVal v | None => SUnbound end
      end
  end.
Definition all_defs (cs : nat -> list slotdef) (P : list nat) : list slotdef := flat_map cs P.
Definition valid_args (cs : nat -> list slotdef) (P : list nat) (args : list (nat * Z)) : bool :=
  forallb (fun kv => memb (fst kv) (flat_map sd_initargs (all_defs cs P))) args.
Definition vars_S (cs : nat -> list slotdef) (P : list nat) (args : list (nat * Z)) : varmap :=
  flat_map (fun s => match slot_S cs P args s with
                     | SMissing => []
                     | SUnbound => [(s, None)]
                     | SVal v => [(s, Some v)]
                     end) (dedup (map sd_name (all_defs cs P))).

Definition acc_flag (k : nat) (sd : slotdef) : bool :=
  if Nat.eqb k KR then sd_reader sd
  else if Nat.eqb k KW then sd_writer sd
  else if Nat.eqb k KAR || Nat.eqb k KAW then sd_accessor sd
  else false.
(* some class of the precedence list declares an accessor of kind k for slot s *)
Definition declared (cs : nat -> list slotdef) (P : list nat) (k s : nat) : bool :=
  existsb (fun sd => Nat.eqb (sd_name sd) s && acc_flag k sd) (all_defs cs P).

Definition sset_inst (sw : sworld) (i : nat) (si : sinst) : sworld :=
  mkSW (s_tbl sw) (set_nth (s_insts sw) i si) (s_meths sw).
(* user part of the precedence list of an instance's class, None when S has no opinion about it *)
Definition s_user_cpl (sw : sworld) (si : sinst) : option (list nat) :=
  if si_stale si then None
  else match slin (s_tbl sw) (si_class si) with Some l => Some (si_class si :: l) | None => None end.

Definition sstep (sw : sworld) (o : op) : sworld * option obs :=
  match o with
  | ODefclass n supers slots =>
      let tbl := s_tbl sw in
      let redefinition := match lookup tbl n with Some _ => true | None => false end in
      let touched (c : nat) := Nat.eqb c n || match slin tbl c with Some l => memb n l | None => false end in
      let insts' := if redefinition
                    then map (fun si => mkSI (si_class si) (si_stale si || touched (si_class si)) (si_vars si) (si_unk si)) (s_insts sw)
                    else s_insts sw in
      let tbl' := set_assoc tbl n (mkSDef supers slots) in
      (mkSW tbl' insts' (s_meths sw),
       Some (OTable (map (fun c => match lookup tbl' c with
                                   | None => None
                                   | Some _ => Some (0, [], cpl_of c (slin tbl' c))
                                   end) (seq 0 NC))))
  | OMake n args =>
      match lookup (s_tbl sw) n with
      | None => (sw, Some OErr)
      | Some _ =>
          match slin (s_tbl sw) n with
          | None => (sw, Some OErr)
          | Some l =>
              let P := n :: l in
              if valid_args (class_slots (s_tbl sw)) P args then
                let vs := vars_S (class_slots (s_tbl sw)) P args in
                (mkSW (s_tbl sw) (s_insts sw ++ [mkSI n false vs []]) (s_meths sw),
                 Some (OInst (map (slot_S (class_slots (s_tbl sw)) P args) (seq 0 NS))))
              else (sw, Some OErr)
          end
      end
  | OSlotValue i s =>
      match nth_error (s_insts sw) i with
      | None => (sw, None)
      | Some si =>
          if memb s (si_unk si) then (sw, None)
          else (sw, Some (match lookup (si_vars si) s with None => OErr | Some None => OUnb | Some (Some v) => OV v end))
      end
  | OBoundp i s =>
      match nth_error (s_insts sw) i with
      | None => (sw, None)
      | Some si =>
          if memb s (si_unk si) then (sw, None)
          else (sw, Some (match lookup (si_vars si) s with None => OErr | Some None => OB false | Some (Some _) => OB true end))
      end
  | OSetSlot i s v =>
      match nth_error (s_insts sw) i with
      | None => (sw, None)
      | Some si => match lookup (si_vars si) s with
                   | None => (sw, Some OErr)
                   | Some _ => (sset_inst sw i (mkSI (si_class si) (si_stale si) (set_assoc (si_vars si) s (Some v))
                                                     (filter (fun x => negb (Nat.eqb x s)) (si_unk si))), Some (OV v))
                   end
      end
  | OMakunbound i s =>
      match nth_error (s_insts sw) i with
      | None => (sw, None)
      | Some si => match lookup (si_vars si) s with
                   | None => (sw, Some OErr)
                   | Some _ => (sset_inst sw i (mkSI (si_class si) (si_stale si) (set_assoc (si_vars si) s None)
                                                     (filter (fun x => negb (Nat.eqb x s)) (si_unk si))), Some ODone)
                   end
      end
  | OCall k s i v =>
      match nth_error (s_insts sw) i with
      | None => (sw, None)
      | Some si =>
          let is_read := Nat.eqb k KR || Nat.eqb k KAR in
          (* no opinion about a writer: from now on no opinion about the content of its slot either *)
          let forget := if is_read then sw
                        else sset_inst sw i (mkSI (si_class si) (si_stale si) (si_vars si) (s :: si_unk si)) in
          match s_user_cpl sw si with
          | None => (forget, None)
          | Some P =>
              if declared (class_slots (s_tbl sw)) P k s then
                match lookup (si_vars si) s with
                | None => (forget, None)
                | Some x =>
                    if is_read
                    then (sw, if memb s (si_unk si) then None else Some (match x with None => OUnb | Some z => OV z end))
                    else (sset_inst sw i (mkSI (si_class si) (si_stale si) (set_assoc (si_vars si) s (Some v))
                                               (filter (fun x => negb (Nat.eqb x s)) (si_unk si))), Some (OV v))
                end
              else (forget, None)
          end
      end
  | OTypep i n =>
      match nth_error (s_insts sw) i with
      | None => (sw, None)
      | Some si => (sw, match s_user_cpl sw si with Some P => Some (OB (memb n (P ++ [SO; TT]))) | None => None end)
      end
  | OClassOf i =>
      match nth_error (s_insts sw) i with
      | None => (sw, None)
      | Some si => (sw, match s_user_cpl sw si with Some P => Some (ONames (P ++ [SO; TT])) | None => None end)
      end
  | ODefMethod c => (mkSW (s_tbl sw) (s_insts sw) (if memb c (s_meths sw) then s_meths sw else c :: s_meths sw), Some ODone)
  | ODispatch i =>
      (* the :before methods of the classes of the precedence list, most specific first (the generic also has a
         primary on t that records nothing, so the call always returns) *)
      match nth_error (s_insts sw) i with
      | None => (sw, None)
      | Some si =>
          (sw, match s_user_cpl sw si with
               | Some P => Some (ONames (filter (fun h => memb h (s_meths sw)) (P ++ [SO; TT])))
               | None => None
               end)
      end
  end.

(* ---- the guard: where the unchanged code is claimed (and proved) to meet S -------------------- *)
Definition reg_ids (w : world) : list nat := map snd (reg w).
Definition sub_ids (w : world) (n : nat) : list nat := filter (fun id => inherits w id n) (reg_ids w).
Definition name_of (w : world) (id : nat) : option nat := match get w id with Some c => Some (co_name c) | None => None end.
Definition supers_ready (w : world) (supers : list nat) : bool :=
  forallb (fun s => match lookup (reg w) s with Some id => readyb w id | None => false end) supers.
Fixpoint nodupb (l : list nat) : bool :=
  match l with [] => true | x :: r => negb (memb x r) && nodupb r end.

Definition g_defclass (w : world) (n : nat) (supers : list nat) (slots : list slotdef) (rorder corder : list nat) : bool :=
  let wr := defclass_reg w n supers slots in
  let pre := defclass_pre w n supers slots rorder in
  (* the shape of the form: user class names, direct superclasses distinct, slot names distinct *)
  forallb (fun c => Nat.ltb c SO) (n :: supers) && nodupb supers && nodupb (map sd_name slots)
  (* the iteration orders are orders of the registered classes *)
  && forallb (fun id => memb id rorder) (reg_ids wr) && forallb (fun id => memb id (reg_ids wr)) rorder
  && forallb (fun id => memb id corder) (sub_ids pre n) && forallb (fun id => memb id (reg_ids pre)) corder
  && match lookup (reg w) n with
     | None => true
     | Some old =>
         if readyb w old then
           let subs := sub_ids w n in
           let bad := n :: flat_map (fun id => match name_of w id with Some m => [m] | None => [] end) subs in
           (* no superclass of the new definition inherits the class being redefined *)
           forallb (fun d => negb (memb d bad)) supers
         else true
     end.

Definition g_make (w : world) (n : nat) (args : list (nat * Z)) : bool :=
  nodupb (map fst args) &&
  match lookup (reg w) n with
  | None => true
  | Some id =>
      match get w id with
      | None => true
      | Some c =>
          let ia := mk_initargs (heap w) (co_slots c) (co_inherit c) in
          (* two supplied initargs never name the same slot *)
          nodupb (flat_map (fun kv => initarg_slots ia (fst kv)) args)
      end
  end.
(* the instance's class object is the one registered under its name *)
Definition current (w : world) (i : nat) : bool :=
  match nth_error (insts w) i with
  | None => false
  | Some ins => match get w (i_cid ins) with
                | None => false
                | Some c => match lookup (reg w) (co_name c) with Some id => Nat.eqb id (i_cid ins) | None => false end
                end
  end.
Definition g_step (w : world) (o : op) (rorder corder : list nat) : bool :=
  match o with
  | ODefclass n supers slots => g_defclass w n supers slots rorder corder
  | OMake n args => g_make w n args
  | OCall _ _ i _ => current w i
  | ODispatch i => current w i
  | ODefMethod c => Nat.ltb c SO
  | _ => true
  end.

(* ---- histories ------------------------------------------------------------------------------- *)
(* a step of a history: the operation and the two iteration orders Go happened to use *)
Definition hstep := (op * list nat * list nat)%type.
Fixpoint run (w : world) (h : list hstep) : world :=
  match h with
  | [] => w
  | (o, ro, co) :: r => run (fst (step w o ro co)) r
  end.
Fixpoint guard_ops (w : world) (h : list hstep) : bool :=
  match h with
  | [] => true
  | (o, ro, co) :: r => g_step w o ro co && guard_ops (fst (step w o ro co)) r
  end.
