(* C12 — correspondence: a case is a history of operations with what the Go implementation showed after
   each of them.  The model is run next to the specification.  For a defclass the order in which
   classChanged visits the inheriting classes is unknown (Go map order): every permutation of them is
   tried and the first that reproduces the observed class table is taken.

   verdict of a case = verdict of its first step that is not 0:
   0 ok.  1: model <> implementation, S not shown violated.  2: model <> implementation and the
   implementation's output contradicts S at a step inside the guarded prefix, or at a step where the model
   (= the unchanged code) agrees with S: a failing input.  3: self-check: model = implementation inside the
   guarded prefix but model <> S (guard or proof wrong). *)
From C12 Require Import Model Spec.

Definition case := (list op * list obs)%type.

Fixpoint list_eqb {A} (eqb : A -> A -> bool) (a b : list A) : bool :=
  match a, b with
  | [], [] => true
  | x :: a', y :: b' => eqb x y && list_eqb eqb a' b'
  | _, _ => false
  end.
Definition slotst_eqb (a b : slotst) : bool :=
  match a, b with
  | SMissing, SMissing => true | SUnbound, SUnbound => true | SVal x, SVal y => Z.eqb x y | _, _ => false
  end.
Definition entry_eqb (ids : bool) (a b : option (nat * list nat * list nat)) : bool :=
  match a, b with
  | None, None => true
  | Some (i, inh, p), Some (i', inh', p') =>
      (if ids then Nat.eqb i i' && list_eqb Nat.eqb inh inh' else true) && list_eqb Nat.eqb p p'
  | _, _ => false
  end.
(* ids = false: object identities are not compared (S does not have them) *)
Definition obs_eqb (ids : bool) (a b : obs) : bool :=
  match a, b with
  | OErr, OErr => true | ODone, ODone => true | OUnb, OUnb => true
  | OV x, OV y => Z.eqb x y
  | OB x, OB y => Bool.eqb x y
  | ONames x, ONames y => list_eqb Nat.eqb x y
  | OTable x, OTable y => list_eqb (entry_eqb ids) x y
  | OInst x, OInst y => list_eqb slotst_eqb x y
  | _, _ => false
  end.

(* all permutations *)
Fixpoint insert_all {A} (x : A) (l : list A) : list (list A) :=
  match l with
  | [] => [[x]]
  | y :: r => (x :: l) :: map (cons y) (insert_all x r)
  end.
Fixpoint perms {A} (l : list A) : list (list A) :=
  match l with
  | [] => [[]]
  | x :: r => flat_map (insert_all x) (perms r)
  end.

Definition rorder_for (w : world) (o : op) : list nat :=
  match o with
  | ODefclass n supers slots => reg_ids (defclass_reg w n supers slots)
  | _ => []
  end.
Definition corder_for (w : world) (o : op) (seen : obs) : list nat :=
  match o with
  | ODefclass n supers slots =>
      let pre := defclass_pre w n supers slots (rorder_for w o) in
      let cands := perms (sub_ids pre n) in
      match find (fun c => obs_eqb true (OTable (table_view (class_changed pre n c))) seen) cands with
      | Some c => c
      | None =>
          (* no order explains the observation: judge it against an order inside the guard if there is one *)
          match find (fun c => g_step w o (rorder_for w o) c) cands with
          | Some c => c
          | None => match cands with c :: _ => c | [] => [] end
          end
      end
  | _ => []
  end.

Definition s_agrees (so : option obs) (o : obs) : bool :=
  match so with Some x => obs_eqb false x o | None => true end.

Fixpoint crun (w : world) (sw : sworld) (guarded : bool) (ops : list op) (seen : list obs) : N :=
  match ops, seen with
  | o :: ops', ob :: seen' =>
      let ro := rorder_for w o in
      let co := corder_for w o ob in
      let g := guarded && g_step w o ro co in
      let '(w', m) := step w o ro co in
      let '(sw', so) := sstep sw o in
      if obs_eqb true m ob then
        if g && negb (s_agrees so m) then 3%N else crun w' sw' g ops' seen'
      else
        if negb (s_agrees so ob) && (g || s_agrees so m) then 2%N else 1%N
  | _, _ => 0%N
  end.
Definition check_case (c : case) : N :=
  if Nat.eqb (length (fst c)) (length (snd c)) then crun w0 sw0 true (fst c) (snd c) else 1%N.

Fixpoint check_all_from (i : N) (cs : list case) : list (N * N) :=
  match cs with
  | [] => []
  | c :: cs' => let r := check_case c in (if N.eqb r 0 then [] else [(i, r)]) ++ check_all_from (N.succ i) cs'
  end.
Definition check_all := check_all_from 0%N.

(* counters: steps inside the guarded prefix about which S has an opinion; steps outside the guard *)
Fixpoint count_run (w : world) (sw : sworld) (guarded : bool) (ops : list op) (seen : list obs) : nat * nat :=
  match ops, seen with
  | o :: ops', ob :: seen' =>
      let ro := rorder_for w o in
      let co := corder_for w o ob in
      let g := guarded && g_step w o ro co in
      let '(w', _) := step w o ro co in
      let '(sw', so) := sstep sw o in
      let '(a, b) := count_run w' sw' g ops' seen' in
      ((if g then match so with Some _ => S a | None => a end else a), (if g then b else S b))
  | _, _ => (0, 0)
  end.
Definition guard_count (cs : list case) : N :=
  N.of_nat (fold_left (fun a c => a + fst (count_run w0 sw0 true (fst c) (snd c))) cs 0).
Definition unguarded_count (cs : list case) : N :=
  N.of_nat (fold_left (fun a c => a + snd (count_run w0 sw0 true (fst c) (snd c))) cs 0).
