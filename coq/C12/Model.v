(* C12 — executable model M of slip's CLOS class world.

   Follows pkg/clos/defclass.go (DefStandardClass), standard-class.go (mergeSupers, makeClassesReady,
   classChanged, MakeInstance/initObjSlots), shared-initialize.go (defaultSharedInitializeCaller),
   standard-object.go (setSlot, SlotValue, SetSlotValue, Hierarchy), slotdef.go (reader / writer / accessor
   methods), slot-value.go, slot-boundp.go, slot-makunbound.go, class-precedence.go, class-of.go,
   pkg/cl/typep.go and, for the methods the accessors are, pkg/generic/uax.go (Aux.Call with its dispatch cache
   keyed by the class NAME of the argument, AddMethod clearing the cache of that generic only, ClearCaches
   clearing all of them at the end of classChanged).

   Class objects live in a heap (index = allocation order = "pointer"); the registry maps a class name to
   the object currently registered under it.  A redefinition allocates a new object; objects of earlier
   definitions stay reachable through the inherit lists of classes merged earlier and through instances.
   Names of classes, slots and initargs are natural numbers (the harness numbers them per case);
   standard-object and t are SO and TT.

   Go iterates maps in an arbitrary order in two places: the list of not-ready classes in makeClassesReady
   and the loop over all classes in classChanged (which sorts what it collects, stably, by the length of the
   inherit list: ties keep the map order).  Both orders are INPUTS of the step (rorder, corder):
   the theorems quantify over them, the correspondence run searches for one that explains the observation. *)
From Coq Require Export List Bool Arith ZArith Lia.
Export ListNotations.

Definition SO : nat := 8.      (* standard-object *)
Definition TT : nat := 9.      (* t *)

(* ---- association lists keyed by nat ---------------------------------------------------- *)
Fixpoint lookup {A} (l : list (nat * A)) (k : nat) : option A :=
  match l with
  | [] => None
  | (k', v) :: r => if Nat.eqb k k' then Some v else lookup r k
  end.
(* m[k] = v : replace in place, or add *)
Fixpoint set_assoc {A} (l : list (nat * A)) (k : nat) (v : A) : list (nat * A) :=
  match l with
  | [] => [(k, v)]
  | (k', v') :: r => if Nat.eqb k k' then (k, v) :: r else (k', v') :: set_assoc r k v
  end.
Definition memb (x : nat) (l : list nat) : bool := existsb (Nat.eqb x) l.
(* keep the first occurrence *)
Fixpoint kf (seen l : list nat) : list nat :=
  match l with
  | [] => []
  | x :: r => if memb x seen then kf seen r else x :: kf (x :: seen) r
  end.
Definition dedup (l : list nat) : list nat := kf [] l.
Fixpoint set_nth {A} (l : list A) (i : nat) (x : A) : list A :=
  match l, i with
  | [], _ => []
  | _ :: r, O => x :: r
  | y :: r, S j => y :: set_nth r j x
  end.
Definition is_nil {A} (l : list A) : bool := match l with [] => true | _ => false end.

(* ---- classes ------------------------------------------------------------------------------ *)
(* one slot specifier of a defclass form.  Accessor generics are named after the slot by the harness
   (reader s, writer s, accessor s), so a flag per kind is all a specifier carries.  Values are integers;
   the harness writes nil as -1. *)
Record slotdef := mkSD {
  sd_name : nat; sd_initargs : list nat; sd_initform : option Z;
  sd_reader : bool; sd_writer : bool; sd_accessor : bool }.

(* StandardClass: name / supers / slotDefs are fixed at creation; inherit, precedence, initArgs and
   initForms are (re)computed by mergeSupers.  inherit holds class OBJECTS: (heap index, its name). *)
Record cobj := mkCO {
  co_name : nat; co_supers : list nat; co_slots : list slotdef;
  co_inherit : list (nat * nat);
  co_prec : list nat;
  co_initargs : list (nat * nat);        (* (initarg, slot name) for every declaration, most specific first *)
  co_initforms : list (nat * Z) }.       (* slot name -> initform value, most specific first *)

(* generic function: which class names have a method, and the dispatch cache: class name of the
   argument -> class names whose methods were found applicable when the entry was made *)
Record gf := mkGF { g_methods : list nat; g_cache : list (nat * list nat) }.
Definition gf0 : gf := mkGF [] [].
(* kinds of generic: 0 reader of slot s, 1 writer, 2 accessor (read), 3 (setf accessor), 4 the user generic *)
Definition KR := 0. Definition KW := 1. Definition KAR := 2. Definition KAW := 3. Definition KU := 4.
Definition gkey (k s : nat) : nat := s * 5 + k.

Definition varmap := list (nat * option Z).      (* slot name -> Some v | None = unbound marker *)
Record inst := mkInst { i_cid : nat; i_vars : varmap }.

Record world := mkW {
  heap : list cobj;
  reg : list (nat * nat);               (* class name -> heap index *)
  gfs : list (nat * gf);                (* gkey -> generic *)
  insts : list inst }.
(* the state every case starts from: no class, no instance, and the user generic with the one method the harness
   gives it at set-up, a primary on t that records nothing (since repo_fixes/C10-3 a call whose only applicable
   methods are :before daemons is no-applicable-method, so a generic with :before methods only cannot be called) *)
Definition w0 : world := mkW [] [] [(gkey KU 0, mkGF [TT] [])] [].

Definition get (w : world) (id : nat) : option cobj := nth_error (heap w) id.
Definition with_heap (w : world) (h : list cobj) : world := mkW h (reg w) (gfs w) (insts w).
Definition with_reg (w : world) (r : list (nat * nat)) : world := mkW (heap w) r (gfs w) (insts w).
Definition with_gfs (w : world) (g : list (nat * gf)) : world := mkW (heap w) (reg w) g (insts w).
Definition with_insts (w : world) (i : list inst) : world := mkW (heap w) (reg w) (gfs w) i.

(* ---- mergeSupers -------------------------------------------------------------------------- *)
(* c.Inherits(x): some member of c.inherit has x's name *)
Definition inh_has (inh : list (nat * nat)) (n : nat) : bool := existsb (fun p => Nat.eqb (snd p) n) inh.

(* first loop: every direct super must be registered and ready (non-empty precedence); direct supers
   go on the list first, a repeated name is skipped.  None = "return false". *)
Fixpoint phase1 (rg : list (nat * nat)) (hp : list cobj) (supers : list nat) (acc : list (nat * nat))
  : option (list (nat * nat)) :=
  match supers with
  | [] => Some acc
  | s :: rest =>
      match lookup rg s with
      | None => None
      | Some id =>
          match nth_error hp id with
          | None => None
          | Some sc =>
              match co_prec sc with
              | [] => None
              | _ :: _ => if inh_has acc s then phase1 rg hp rest acc else phase1 rg hp rest (acc ++ [(id, s)])
              end
          end
      end
  end.
(* second loop: for each direct super in order, its inherit list, skipping names already present *)
Definition add_new (acc xs : list (nat * nat)) : list (nat * nat) :=
  fold_left (fun a x => if inh_has a (snd x) then a else a ++ [x]) xs acc.
Definition phase2 (hp : list cobj) (directs acc : list (nat * nat)) : list (nat * nat) :=
  fold_left (fun a d => match nth_error hp (fst d) with Some sc => add_new a (co_inherit sc) | None => a end) directs acc.

Definition slot_initargs (sl : list slotdef) : list (nat * nat) :=
  flat_map (fun sd => map (fun ia => (ia, sd_name sd)) (sd_initargs sd)) sl.
Definition slot_initforms (sl : list slotdef) : list (nat * Z) :=
  flat_map (fun sd => match sd_initform sd with Some v => [(sd_name sd, v)] | None => [] end) sl.
Definition slots_of (hp : list cobj) (p : nat * nat) : list slotdef :=
  match nth_error hp (fst p) with Some sc => co_slots sc | None => [] end.
(* slot definitions of the class and of everything on its inherit list, most specific first.  The Go
   code fills the maps from the least specific class to the class itself: for initForms later writes win
   (looking up the first match in this order gives the same answer); initArgs collects, per initarg, the
   slots that declare it (initarg_slots below). *)
Definition all_slots (hp : list cobj) (own : list slotdef) (inh : list (nat * nat)) : list (list slotdef) :=
  own :: map (slots_of hp) inh.
Definition mk_initargs hp own inh : list (nat * nat) := flat_map slot_initargs (all_slots hp own inh).
Definition mk_initforms hp own inh : list (nat * Z) := flat_map slot_initforms (all_slots hp own inh).
Definition mk_prec (n : nat) (inh : list (nat * nat)) : list nat := n :: map snd inh ++ [SO; TT].

(* mergeSupers on the object at heap index id.  On failure the inherit list and the precedence list are
   emptied (repo_fixes/C12-3: c.inherit = c.inherit[:0]; c.precedence = nil; return false): the class is not
   ready; initArgs, initForms keep their old contents (nothing reads them while the class is not ready). *)
Definition merge (w : world) (id : nat) : world * bool :=
  match get w id with
  | None => (w, false)
  | Some c =>
      match phase1 (reg w) (heap w) (co_supers c) [] with
      | None =>
          (with_heap w (set_nth (heap w) id
             (mkCO (co_name c) (co_supers c) (co_slots c) [] [] (co_initargs c) (co_initforms c))), false)
      | Some directs =>
          let inh := phase2 (heap w) directs directs in
          (with_heap w (set_nth (heap w) id
             (mkCO (co_name c) (co_supers c) (co_slots c) inh (mk_prec (co_name c) inh)
                   (mk_initargs (heap w) (co_slots c) inh) (mk_initforms (heap w) (co_slots c) inh))), true)
      end
  end.

Definition readyb (w : world) (id : nat) : bool :=
  match get w id with Some c => negb (is_nil (co_prec c)) | None => false end.
Definition inherits (w : world) (id n : nat) : bool :=
  match get w id with Some c => inh_has (co_inherit c) n | None => false end.

(* makeClassesReady: `not` are the registered classes that are not ready, in map order; passes are
   repeated until one changes nothing.  Each changing pass makes a class ready, so length not + 1
   passes always reach the unchanged pass (ready_loop_fixpoint in Proofs.v). *)
Fixpoint ready_pass (w : world) (l : list nat) : world * bool :=
  match l with
  | [] => (w, false)
  | id :: r =>
      if readyb w id then ready_pass w r
      else let '(w1, ok) := merge w id in
           let '(w2, ch) := ready_pass w1 r in (w2, ok || ch)
  end.
Fixpoint ready_loop (fuel : nat) (w : world) (l : list nat) : world :=
  match fuel with
  | O => w
  | S f => let '(w1, ch) := ready_pass w l in if ch then ready_loop f w1 l else w1
  end.
Definition make_ready (w : world) (rorder : list nat) : world :=
  let l := filter (fun id => negb (readyb w id)) rorder in
  ready_loop (S (length l)) w l.

(* classChanged(cc) (repo_fixes/C12-2): the classes that inherit a class named like cc are collected in map
   order, sorted (stable) by the length of their inherit list, then merged again, once each *)
Definition inh_len (w : world) (id : nat) : nat :=
  match get w id with Some c => length (co_inherit c) | None => 0 end.
Fixpoint insert_by (f : nat -> nat) (x : nat) (l : list nat) : list nat :=
  match l with
  | [] => [x]
  | y :: r => if Nat.leb (f x) (f y) then x :: l else y :: insert_by f x r
  end.
Definition sort_by (f : nat -> nat) (l : list nat) : list nat := fold_right (insert_by f) [] l.
Definition stale_order (w : world) (n : nat) (corder : list nat) : list nat :=
  sort_by (inh_len w) (filter (fun id => inherits w id n) corder).
Definition class_changed (w : world) (n : nat) (corder : list nat) : world :=
  fold_left (fun w id => fst (merge w id)) (stale_order w n corder) w.

(* ---- generics ---------------------------------------------------------------------------- *)
Definition get_gf (w : world) (k : nat) : gf := match lookup (gfs w) k with Some g => g | None => gf0 end.
(* addMethodCaller (defmethod, accessor methods) / Aux.AddMethod: the method is stored under the class name and
   the cache of THIS generic is dropped *)
Definition add_method (w : world) (k c : nat) : world :=
  let g := get_gf w k in
  with_gfs w (set_assoc (gfs w) k (mkGF (if memb c (g_methods g) then g_methods g else c :: g_methods g) [])).
Definition slot_methods (w : world) (n : nat) (sd : slotdef) : world :=
  let s := sd_name sd in
  let w1 := if sd_reader sd then add_method w (gkey KR s) n else w in
  let w2 := if sd_writer sd then add_method w1 (gkey KW s) n else w1 in
  if sd_accessor sd then add_method (add_method w2 (gkey KAR s) n) (gkey KAW s) n else w2.

(* Aux.Call up to the choice of the effective method: the cache is keyed by Hierarchy()[0], the class
   NAME; a miss walks the argument's hierarchy (its precedence list) and keeps the names that have a method
   (buildCacheMeth); since repo_fixes/C10-3 the result is an effective method only if one of them is a primary:
   the methods of the accessor generics are primaries, those of the user generic are :before daemons except the
   one on t.  A result that is not callable is not cached (no-applicable-method).  None: no applicable method /
   the instance does not exist.  (Aux.defaultCaller - a generic whose only method is an unqualified one on t is
   called directly - is not modelled: it answers what this dispatch answers and the only entries the model caches
   in that situation are "class name -> the method on t".) *)
Definition applicable (g : gf) (prec : list nat) : list nat := filter (fun h => memb h (g_methods g)) prec.
Definition callable (k : nat) (l : list nat) : bool :=
  if Nat.eqb k (gkey KU 0) then memb TT l else negb (is_nil l).
(* StandardObject.Hierarchy (repo_fixes/C12-3): the precedence list of the class of the instance; (t) while
   that class is not ready (it inherits a class that was redefined with a superclass not defined yet) *)
Definition hier_of (prec : list nat) : list nat := match prec with [] => [TT] | _ => prec end.
Definition hier (c : cobj) : list nat := hier_of (co_prec c).
Definition call_gf (w : world) (k i : nat) : world * option (list nat) :=
  match nth_error (insts w) i with
  | None => (w, None)
  | Some ins =>
      match get w (i_cid ins) with
      | None => (w, None)
      | Some c =>
          match hier c with
          | [] => (w, None)
          | key :: _ =>
              let g := get_gf w k in
              match lookup (g_cache g) key with
              | Some l => (w, Some l)
              | None =>
                  let l := applicable g (hier c) in
                  if callable k l
                  then (with_gfs w (set_assoc (gfs w) k (mkGF (g_methods g) (set_assoc (g_cache g) key l))), Some l)
                  else (w, None)
              end
          end
      end
  end.

(* ---- instances --------------------------------------------------------------------------- *)
(* initObjSlots: own slots get their (raw) initform or the unbound marker; inherited slots, in
   inherit order, only if the name is not there yet *)
Definition init_own (sl : list slotdef) (vs : varmap) : varmap :=
  fold_left (fun vs sd => set_assoc vs (sd_name sd) (sd_initform sd)) sl vs.
Definition init_inh (sl : list slotdef) (vs : varmap) : varmap :=
  fold_left (fun vs sd => match lookup vs (sd_name sd) with Some _ => vs | None => set_assoc vs (sd_name sd) (sd_initform sd) end) sl vs.
(* initArgs[k] (repo_fixes/C12-5): the slots that declare the initarg k anywhere along the inherit list, one
   entry per slot name *)
Definition initarg_slots (ia : list (nat * nat)) (k : nat) : list nat :=
  dedup (map snd (filter (fun p => Nat.eqb (fst p) k) ia)).
(* shared-initialize, supplied initargs: unknown initarg -> error; the initarg sets EVERY slot that declares it;
   a slot already set by an initarg -> error ("Duplicate initarg"); setSlot writes obj.vars[slot] (adding it
   if absent).  The slots of one initarg are distinct, so the order in which they are set does not matter. *)
Fixpoint set_slots (ss : list nat) (v : Z) (seen : list nat) (vs : varmap) : option (list nat * varmap) :=
  match ss with
  | [] => Some (seen, vs)
  | s :: r => if memb s seen then None else set_slots r v (s :: seen) (set_assoc vs s (Some v))
  end.
Fixpoint shared_args (ia : list (nat * nat)) (args : list (nat * Z)) (seen : list nat) (vs : varmap)
  : option (list nat * varmap) :=
  match args with
  | [] => Some (seen, vs)
  | (k, v) :: r =>
      match initarg_slots ia k with
      | [] => None
      | ss => match set_slots ss v seen vs with
              | None => None
              | Some (seen', vs') => shared_args ia r seen' vs'
              end
      end
  end.
(* shared-initialize, initforms: the initForms map has one entry per slot name (the most specific
   definition that has an initform); it is applied unless an initarg set the slot *)
Fixpoint apply_initforms (forms : list (nat * Z)) (seen : list nat) (vs : varmap) : varmap :=
  match forms with
  | [] => vs
  | (s, v) :: r => if memb s seen then apply_initforms r seen vs
                   else apply_initforms r (s :: seen) (set_assoc vs s (Some v))
  end.
Definition make_instance (hp : list cobj) (c : cobj) (args : list (nat * Z)) : option varmap :=
  match co_prec c with
  | [] => None                              (* "has undefined superclasses" *)
  | _ :: _ =>
      let v0 := fold_left (fun vs p => init_inh (slots_of hp p) vs) (co_inherit c) (init_own (co_slots c) []) in
      match shared_args (co_initargs c) args [] v0 with
      | None => None
      | Some (seen, v1) => Some (apply_initforms (co_initforms c) seen v1)
      end
  end.

(* ---- operations and what is observed of each ------------------------------------------- *)
Inductive op :=
| ODefclass (n : nat) (supers : list nat) (slots : list slotdef)
| OMake (n : nat) (args : list (nat * Z))          (* (setq i<k> (make-instance 'n :a v ...)) *)
| OSlotValue (i s : nat)
| OBoundp (i s : nat)
| OSetSlot (i s : nat) (v : Z)                     (* (setf (slot-value i 's) v) *)
| OMakunbound (i s : nat)
| OCall (k s i : nat) (v : Z)                      (* accessor generic of kind k for slot s; v for the writers *)
| OTypep (i n : nat)
| OClassOf (i : nat)                               (* (class-precedence (class-of i)) *)
| ODefMethod (c : nat)                             (* (defmethod g :before ((o c)) <record c>) *)
| ODispatch (i : nat).                             (* (g i): the recorded class names, in order *)

Inductive slotst := SMissing | SUnbound | SVal (z : Z).
Inductive obs :=
| OErr                      (* a condition was signalled *)
| ODone
| OV (z : Z)
| OUnb                      (* unbound: unbound-slot from slot-value; the marker object from a reader.
                               (a reader applied to an instance WITHOUT the slot returns nil = OV (-1)) *)
| OB (b : bool)
| ONames (l : list nat)
| OTable (l : list (option (nat * list nat * list nat)))   (* per class name 0..NC-1: object, inherit objects, precedence *)
| OInst (l : list slotst).  (* slots 0..NS-1 of the new instance *)

Definition NC := 5.   (* class names 0..4 *)
Definition NS := 4.   (* slot names 0..3 *)

Definition slot_state (vs : varmap) (s : nat) : slotst :=
  match lookup vs s with None => SMissing | Some None => SUnbound | Some (Some v) => SVal v end.
Definition table_view (w : world) : list (option (nat * list nat * list nat)) :=
  map (fun n => match lookup (reg w) n with
                | None => None
                | Some id => match get w id with
                             | None => None
                             | Some c => Some (id, map fst (co_inherit c), co_prec c)
                             end
                end) (seq 0 NC).

(* DefStandardClass: accessor methods, the new object, its first mergeSupers (the registry still holds
   the previous definition of n, if any), RegisterClass ... *)
Definition defclass_reg (w : world) (n : nat) (supers : list nat) (slots : list slotdef) : world :=
  let id := length (heap w) in
  let w1 := fold_left (fun w sd => slot_methods w n sd) slots w in
  let w2 := with_heap w1 (heap w1 ++ [mkCO n supers slots [] [] [] []]) in
  let w3 := fst (merge w2 id) in
  with_reg w3 (set_assoc (reg w3) n id).
(* ... makeClassesReady ... *)
Definition defclass_pre (w : world) n supers slots (rorder : list nat) : world :=
  make_ready (defclass_reg w n supers slots) rorder.
(* ... classChanged, which ends (repo_fixes/C12-4) with generic.ClearCaches: the dispatch cache of every generic
   function is dropped *)
Definition clear_caches (w : world) : world :=
  with_gfs w (map (fun kg => (fst kg, mkGF (g_methods (snd kg)) [])) (gfs w)).
Definition defclass_merged (w : world) n supers slots (rorder corder : list nat) : world :=
  class_changed (defclass_pre w n supers slots rorder) n corder.
Definition defclass (w : world) n supers slots (rorder corder : list nat) : world :=
  clear_caches (defclass_merged w n supers slots rorder corder).

Definition upd_inst (w : world) (i : nat) (vs : varmap) : world :=
  match nth_error (insts w) i with
  | Some ins => with_insts w (set_nth (insts w) i (mkInst (i_cid ins) vs))
  | None => w
  end.

Definition step (w : world) (o : op) (rorder corder : list nat) : world * obs :=
  match o with
  | ODefclass n supers slots =>
      let w' := defclass w n supers slots rorder corder in (w', OTable (table_view w'))
  | OMake n args =>
      match lookup (reg w) n with
      | None => (w, OErr)                                   (* class not found *)
      | Some id =>
          match get w id with
          | None => (w, OErr)
          | Some c =>
              match make_instance (heap w) c args with
              | None => (w, OErr)
              | Some vs => (with_insts w (insts w ++ [mkInst id vs]), OInst (map (slot_state vs) (seq 0 NS)))
              end
          end
      end
  | OSlotValue i s =>
      match nth_error (insts w) i with
      | None => (w, OErr)
      | Some ins => (w, match lookup (i_vars ins) s with None => OErr | Some None => OUnb | Some (Some v) => OV v end)
      end
  | OBoundp i s =>
      match nth_error (insts w) i with
      | None => (w, OErr)
      | Some ins => (w, match lookup (i_vars ins) s with None => OErr | Some None => OB false | Some (Some _) => OB true end)
      end
  | OSetSlot i s v =>
      match nth_error (insts w) i with
      | None => (w, OErr)
      | Some ins => match lookup (i_vars ins) s with
                    | None => (w, OErr)
                    | Some _ => (upd_inst w i (set_assoc (i_vars ins) s (Some v)), OV v)
                    end
      end
  | OMakunbound i s =>
      match nth_error (insts w) i with
      | None => (w, OErr)
      | Some ins => match lookup (i_vars ins) s with
                    | None => (w, OErr)
                    | Some _ => (upd_inst w i (set_assoc (i_vars ins) s None), ODone)
                    end
      end
  | OCall k s i v =>
      match call_gf w (gkey k s) i with
      | (w1, None) => (w1, OErr)
      | (w1, Some _) =>
          match nth_error (insts w1) i with
          | None => (w1, OErr)
          | Some ins =>
              if Nat.eqb k KR || Nat.eqb k KAR then
                (w1, match lookup (i_vars ins) s with None => OV (-1) | Some None => OUnb | Some (Some x) => OV x end)
              else
                (match lookup (i_vars ins) s with
                 | None => w1                            (* SetSlotValue: only if the slot is there *)
                 | Some _ => upd_inst w1 i (set_assoc (i_vars ins) s (Some v))
                 end, OV v)
          end
      end
  | OTypep i n =>
      match nth_error (insts w) i with
      | None => (w, OErr)
      | Some ins => match get w (i_cid ins) with None => (w, OErr) | Some c => (w, OB (memb n (hier c))) end
      end
  | OClassOf i =>
      match nth_error (insts w) i with
      | None => (w, OErr)
      | Some ins => match get w (i_cid ins) with None => (w, OErr) | Some c => (w, ONames (co_prec c)) end
      end
  | ODefMethod c => (add_method w (gkey KU 0) c, ODone)
  | ODispatch i =>
      match call_gf w (gkey KU 0) i with
      | (w1, None) => (w1, OErr)
      | (w1, Some l) => (w1, ONames (filter (fun h => negb (Nat.eqb h TT)) l))   (* the primary on t records nothing *)
      end
  end.
