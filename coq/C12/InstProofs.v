(* C12 — make-instance fills the slots as S says; slot access and accessors touch one slot only *)
From C12 Require Import Model Spec Lists LinProofs ClassProofs HistProofs.

(* ---- the pieces of make_instance over a flat list of slot definitions D (most specific first) ------ *)
Definition named (s : nat) (sd : slotdef) : bool := Nat.eqb (sd_name sd) s.

Lemma lookup_app : forall A (a b : list (nat * A)) k,
  lookup (a ++ b) k = match lookup a k with Some v => Some v | None => lookup b k end.
Proof.
  induction a as [|[k' v'] r IH]; intros b k; simpl; [reflexivity|].
  destruct (Nat.eqb k k'); [reflexivity | apply IH].
Qed.
Lemma slot_initargs_app : forall a b, slot_initargs (a ++ b) = slot_initargs a ++ slot_initargs b.
Proof. intros. unfold slot_initargs. apply flat_map_app. Qed.
Lemma slot_initforms_app : forall a b, slot_initforms (a ++ b) = slot_initforms a ++ slot_initforms b.
Proof. intros. unfold slot_initforms. apply flat_map_app. Qed.
Lemma flat_map_of_concat : forall A B (f : list A -> list B) (L : list (list A)),
  (forall a b, f (a ++ b) = f a ++ f b) -> f [] = [] -> flat_map f L = f (concat L).
Proof.
  intros A B f L Happ Hnil. induction L as [|x r IH]; simpl; [symmetry; assumption|]. rewrite Happ, IH. reflexivity.
Qed.

Lemma IA_In : forall D k s, In (k, s) (slot_initargs D) <-> exists sd, In sd D /\ sd_name sd = s /\ In k (sd_initargs sd).
Proof.
  intros D k s. unfold slot_initargs. rewrite in_flat_map. split.
  - intros [sd [H1 H2]]. apply in_map_iff in H2. destruct H2 as [ia [H2 H3]]. inversion H2; subst. eauto.
  - intros [sd [H1 [H2 H3]]]. exists sd. split; [assumption|]. apply in_map_iff. exists k. subst. auto.
Qed.
Lemma IF_lookup : forall D s, lookup (slot_initforms D) s = first_initform (filter (named s) D).
Proof.
  induction D as [|sd r IH]; intros s; [reflexivity|].
  change (slot_initforms (sd :: r)) with ((match sd_initform sd with Some v => [(sd_name sd, v)] | None => [] end) ++ slot_initforms r).
  simpl filter. unfold named at 1. destruct (Nat.eqb (sd_name sd) s) eqn:E.
  - unfold first_initform. simpl. destruct (sd_initform sd) as [v|]; simpl.
    + rewrite (Nat.eqb_sym s (sd_name sd)), E. reflexivity.
    + apply IH.
  - destruct (sd_initform sd) as [v|]; simpl; [|apply IH].
    rewrite (Nat.eqb_sym s (sd_name sd)), E. apply IH.
Qed.
Lemma first_initform_none : forall defs, first_initform defs = None -> forall sd, In sd defs -> sd_initform sd = None.
Proof.
  induction defs as [|d r IH]; intros H sd Hi; [contradiction|].
  unfold first_initform in H. simpl in H. destruct (sd_initform d) eqn:E; [discriminate|]. simpl in H.
  destruct Hi as [->|Hi]; [assumption|]. apply IH; assumption.
Qed.

(* initObjSlots: a slot is present iff some definition names it; its raw value is some such definition's *)
Definition V0 (D : list slotdef) (vs : varmap) : Prop :=
  forall s, (lookup vs s = None <-> forall sd, In sd D -> sd_name sd <> s) /\
            (forall x, lookup vs s = Some x -> exists sd, In sd D /\ sd_name sd = s /\ x = sd_initform sd).
Lemma V0_nil : V0 [] [].
Proof. intros s. split; [split; [intros _ sd [] | reflexivity] | intros x H; discriminate]. Qed.
Lemma V0_step : forall D vs sd vs', V0 D vs ->
  (forall s, s <> sd_name sd -> lookup vs' s = lookup vs s) ->
  (lookup vs' (sd_name sd) = Some (sd_initform sd) \/ exists x, lookup vs (sd_name sd) = Some x /\ lookup vs' (sd_name sd) = Some x) ->
  V0 (D ++ [sd]) vs'.
Proof.
  intros D vs sd vs' HV Hother Hsame s. destruct (HV s) as [A B].
  destruct (Nat.eq_dec s (sd_name sd)) as [->|Hne].
  - split.
    + split.
      * intros Hn. destruct Hsame as [H|[x [_ H]]]; congruence.
      * intros H. exfalso. apply (H sd); [apply in_or_app; right; left; reflexivity | reflexivity].
    + intros x Hx. destruct Hsame as [H|[y [H1 H2]]].
      * exists sd. split; [apply in_or_app; right; left; reflexivity|]. split; [reflexivity | congruence].
      * rewrite H2 in Hx. inversion Hx; subst y. destruct (B x H1) as [sd' [I1 [I2 I3]]]. exists sd'. split; [apply in_or_app; auto | auto].
  - rewrite (Hother s Hne). split.
    + rewrite A. split.
      * intros H sd' Hi. apply in_app_or in Hi. destruct Hi as [Hi|[<-|[]]]; [auto | auto].
      * intros H sd' Hi. apply H. apply in_or_app. auto.
    + intros x Hx. destruct (B x Hx) as [sd' [I1 [I2 I3]]]. exists sd'. split; [apply in_or_app; auto | auto].
Qed.
Lemma init_own_V0 : forall sl D vs, V0 D vs -> V0 (D ++ sl) (init_own sl vs).
Proof.
  unfold init_own. induction sl as [|sd r IH]; intros D vs H; simpl; [rewrite app_nil_r; assumption|].
  replace (D ++ sd :: r) with ((D ++ [sd]) ++ r) by (rewrite <- app_assoc; reflexivity).
  apply IH. apply (V0_step D vs sd); [assumption | |].
  - intros s Hne. apply lookup_set_other. assumption.
  - left. apply lookup_set_same.
Qed.
Lemma init_inh_V0 : forall sl D vs, V0 D vs -> V0 (D ++ sl) (init_inh sl vs).
Proof.
  unfold init_inh. induction sl as [|sd r IH]; intros D vs H; simpl; [rewrite app_nil_r; assumption|].
  replace (D ++ sd :: r) with ((D ++ [sd]) ++ r) by (rewrite <- app_assoc; reflexivity).
  apply IH. destruct (lookup vs (sd_name sd)) as [x|] eqn:E.
  - apply (V0_step D vs sd); [assumption | reflexivity | right; exists x; auto].
  - apply (V0_step D vs sd); [assumption | |].
    + intros s Hne. apply lookup_set_other. assumption.
    + left. apply lookup_set_same.
Qed.
Lemma init_all_V0 : forall (L : list (list slotdef)) D vs, V0 D vs ->
  V0 (D ++ concat L) (fold_left (fun vs sl => init_inh sl vs) L vs).
Proof.
  induction L as [|sl r IH]; intros D vs H; simpl; [rewrite app_nil_r; assumption|].
  rewrite app_assoc. apply IH. apply init_inh_V0. assumption.
Qed.

(* shared-initialize, initforms *)
Lemma apply_initforms_lookup : forall forms seen vs s,
  lookup (apply_initforms forms seen vs) s =
  if memb s seen then lookup vs s
  else match lookup forms s with Some v => Some (Some v) | None => lookup vs s end.
Proof.
  induction forms as [|[s0 v0] r IH]; intros seen vs s; simpl.
  - destruct (memb s seen); reflexivity.
  - destruct (memb s0 seen) eqn:E0.
    + rewrite IH. destruct (memb s seen) eqn:E; [reflexivity|].
      destruct (Nat.eqb s s0) eqn:E1; [|reflexivity]. apply Nat.eqb_eq in E1. subst. congruence.
    + rewrite IH. simpl. destruct (Nat.eqb s s0) eqn:E1; simpl.
      * apply Nat.eqb_eq in E1. subst. rewrite E0. apply lookup_set_same.
      * apply Nat.eqb_neq in E1. rewrite (lookup_set_other _ vs s0 s (Some v0) E1). reflexivity.
Qed.

(* shared-initialize, initargs: with the slots named by the supplied initargs pairwise distinct *)
Definition arg_slots (IA : list (nat * nat)) (args : list (nat * Z)) : list nat :=
  flat_map (fun kv => initarg_slots IA (fst kv)) args.
Lemma initarg_slots_In : forall IA k s, In s (initarg_slots IA k) <-> In (k, s) IA.
Proof.
  intros IA k s. unfold initarg_slots. rewrite dedup_In, in_map_iff. split.
  - intros [[k' s'] [Hs Hi]]. simpl in Hs. subst s'. apply filter_In in Hi. destruct Hi as [Hi Hk]. simpl in Hk.
    apply Nat.eqb_eq in Hk. subst k'. assumption.
  - intros Hi. exists (k, s). split; [reflexivity|]. apply filter_In. split; [assumption | simpl; apply Nat.eqb_refl].
Qed.
Lemma initarg_slots_NoDup : forall IA k, NoDup (initarg_slots IA k).
Proof. intros. unfold initarg_slots, dedup. apply kf_NoDup. Qed.
Lemma set_slots_ok : forall ss v seen vs, NoDup ss -> (forall s, In s ss -> ~ In s seen) ->
  exists seen' vs', set_slots ss v seen vs = Some (seen', vs') /\
    (forall s, memb s seen' = memb s seen || memb s ss) /\
    (forall s, lookup vs' s = if memb s ss then Some (Some v) else lookup vs s).
Proof.
  induction ss as [|s0 r IH]; intros v seen vs Hnd Hfresh; simpl.
  - exists seen, vs. split; [reflexivity|]. split; [intros; rewrite orb_false_r; reflexivity | reflexivity].
  - inversion Hnd as [|x l Hnotin Hnd']; subst.
    assert (memb s0 seen = false) as -> by (apply memb_false; apply Hfresh; left; reflexivity).
    destruct (IH v (s0 :: seen) (set_assoc vs s0 (Some v)) Hnd') as [seen' [vs' [H1 [H2 H3]]]].
    + intros s Hs [Hc|Hc]; [subst; contradiction | apply (Hfresh s); [right; assumption | assumption]].
    + exists seen', vs'. split; [assumption|]. split.
      * intros s. rewrite H2. simpl. destruct (Nat.eqb s s0); simpl; [rewrite orb_true_r|]; reflexivity.
      * intros s. rewrite H3. simpl. destruct (Nat.eqb s s0) eqn:E; simpl.
        -- apply Nat.eqb_eq in E. subst s0. assert (memb s r = false) as -> by (apply memb_false; assumption). apply lookup_set_same.
        -- destruct (memb s r); [reflexivity|]. apply lookup_set_other. apply Nat.eqb_neq. assumption.
Qed.
Lemma NoDup_app_tail : forall (a b : list nat), NoDup (a ++ b) -> NoDup b.
Proof. induction a as [|x r IH]; intros b H; [assumption|]. simpl in H. inversion H; subst. apply IH. assumption. Qed.
Lemma shared_args_ok : forall IA args seen vs,
  (forall kv, In kv args -> initarg_slots IA (fst kv) <> []) -> NoDup (arg_slots IA args) ->
  (forall s, In s (arg_slots IA args) -> ~ In s seen) ->
  exists seen' vs', shared_args IA args seen vs = Some (seen', vs') /\
    (forall s, memb s seen' = memb s seen || memb s (arg_slots IA args)) /\
    (forall s, (forall kv, In kv args -> In s (initarg_slots IA (fst kv)) -> lookup vs' s = Some (Some (snd kv))) /\
               (~ In s (arg_slots IA args) -> lookup vs' s = lookup vs s)).
Proof.
  induction args as [|[k v] r IH]; intros seen vs Hval Hnd Hseen.
  - exists seen, vs. split; [reflexivity|]. split; [intros; simpl; rewrite orb_false_r; reflexivity|].
    intros s. split; [intros kv [] | reflexivity].
  - unfold arg_slots in *. simpl in Hnd, Hseen. simpl shared_args.
    pose proof (Hval (k, v) (or_introl eq_refl)) as Hne. simpl in Hne.
    assert (NoDup (initarg_slots IA k)) as Hss by apply initarg_slots_NoDup.
    assert (Hin0 : forall s kv, In kv ((k, v) :: r) -> In s (initarg_slots IA (fst kv)) ->
                   kv = (k, v) \/ (In kv r /\ In s (flat_map (fun kv => initarg_slots IA (fst kv)) r))).
    { intros s kv [<-|Hi] Hs; [left; reflexivity|]. right. split; [assumption|]. apply in_flat_map. exists kv. auto. }
    remember (initarg_slots IA k) as ss eqn:Ess in *.
    pose proof (NoDup_app_tail _ _ Hnd) as Hnd'.
    assert (Hdisj : forall s, In s ss -> ~ In s (flat_map (fun kv => initarg_slots IA (fst kv)) r)).
    { intros s Hs Hc. clear -Hnd Hs Hc. induction ss as [|a l IHl]; [contradiction|]. simpl in Hnd. inversion Hnd; subst.
      destruct Hs as [->|Hs]; [apply H1; apply in_or_app; right; assumption | apply IHl; assumption]. }
    destruct (set_slots_ok ss v seen vs Hss) as [seen1 [vs1 [E1 [M1 L1]]]].
    { intros s Hs. apply Hseen. apply in_or_app. left. assumption. }
    destruct (IH seen1 vs1) as [seen' [vs' [H1 [H2 H3]]]].
    + intros kv Hi. apply Hval. right. assumption.
    + exact Hnd'.
    + intros s Hs Hc. apply memb_In in Hc. rewrite M1 in Hc. apply orb_true_iff in Hc. destruct Hc as [Hc|Hc].
      * apply memb_In in Hc. apply (Hseen s); [apply in_or_app; right; assumption | assumption].
      * apply memb_In in Hc. exact (Hdisj s Hc Hs).
    + assert (Hgoal : match ss with
                      | [] => None
                      | _ :: _ => match set_slots ss v seen vs with None => None | Some (seen'0, vs'0) => shared_args IA r seen'0 vs'0 end
                      end = Some (seen', vs')).
      { destruct ss as [|s0 ss0]; [contradiction|]. rewrite E1. assumption. }
      exists seen', vs'. split; [destruct ss; exact Hgoal|]. split.
      * intros s. rewrite H2, M1. simpl. rewrite <- Ess. rewrite memb_app. rewrite orb_assoc. reflexivity.
      * intros s. destruct (H3 s) as [A B]. split.
        -- intros kv Hi Hk. destruct Hi as [<-|Hi].
           ++ simpl in Hk. rewrite <- Ess in Hk. rewrite B by (apply Hdisj; assumption). rewrite L1.
              apply memb_In in Hk. rewrite Hk. reflexivity.
           ++ apply A; assumption.
        -- intros Hn. simpl in Hn. rewrite <- Ess in Hn.
           rewrite B by (intro Hc; apply Hn; apply in_or_app; right; exact Hc). rewrite L1.
           assert (memb s ss = false) as -> by (apply memb_false; intro Hc; apply Hn; apply in_or_app; left; exact Hc). reflexivity.
Qed.
Lemma shared_args_invalid : forall IA args seen vs kv, In kv args -> initarg_slots IA (fst kv) = [] -> shared_args IA args seen vs = None.
Proof.
  induction args as [|[k v] r IH]; intros seen vs kv Hi Hn; [contradiction|]. cbn [shared_args].
  destruct Hi as [<-|Hi].
  - simpl in Hn. rewrite Hn. reflexivity.
  - destruct (initarg_slots IA k) as [|s0 ss0]; [reflexivity|].
    destruct (set_slots (s0 :: ss0) v seen vs) as [[seen1 vs1]|]; [|reflexivity]. eapply IH; eassumption.
Qed.

Section Make.
  Variables (D : list slotdef) (args : list (nat * Z)).
  Let IA := slot_initargs D.
  Let IF := slot_initforms D.
  Variable v0 : varmap.
  Hypothesis HV0 : V0 D v0.
  Hypothesis Hdistinct : nodupb (arg_slots IA args) = true.

  Definition slot_D (s : nat) : slotst :=
    match filter (named s) D with
    | [] => SMissing
    | defs => match find (fun kv => memb (fst kv) (flat_map sd_initargs defs)) args with
              | Some kv => SVal (snd kv)
              | None => match first_initform defs with Some v => SVal v | None => SUnbound end
              end
    end.
  Definition valid_D : bool := forallb (fun kv => memb (fst kv) (flat_map sd_initargs D)) args.

  Lemma in_initargs_IA : forall k s, memb k (flat_map sd_initargs (filter (named s) D)) = true <-> In (k, s) IA.
  Proof.
    intros k s. rewrite memb_In. unfold IA. rewrite IA_In. rewrite in_flat_map. split.
    - intros [sd [H1 H2]]. apply filter_In in H1. destruct H1 as [H1 H3]. exists sd. unfold named in H3. apply Nat.eqb_eq in H3. auto.
    - intros [sd [H1 [H2 H3]]]. exists sd. split; [|assumption]. apply filter_In. split; [assumption|]. unfold named. apply Nat.eqb_eq. assumption.
  Qed.
  Lemma valid_iff : valid_D = true <-> forall kv, In kv args -> initarg_slots IA (fst kv) <> [].
  Proof.
    unfold valid_D. rewrite forallb_forall. split.
    - intros H kv Hi Hn. specialize (H kv Hi). apply memb_In in H. apply in_flat_map in H. destruct H as [sd [H1 H2]].
      assert (In (sd_name sd) (initarg_slots IA (fst kv))) as Hc by (apply initarg_slots_In; apply IA_In; eauto).
      rewrite Hn in Hc. contradiction.
    - intros H kv Hi. specialize (H kv Hi). destruct (initarg_slots IA (fst kv)) as [|s r] eqn:E; [congruence|].
      assert (In s (initarg_slots IA (fst kv))) as Hs by (rewrite E; left; reflexivity).
      apply initarg_slots_In in Hs. apply IA_In in Hs. destruct Hs as [sd [H1 [H2 H3]]]. apply memb_In. apply in_flat_map. eauto.
  Qed.

  Theorem make_core :
    match shared_args IA args [] v0 with
    | None => valid_D = false
    | Some (seen, v1) => valid_D = true /\ forall s, slot_state (apply_initforms IF seen v1) s = slot_D s
    end.
  Proof.
    destruct valid_D eqn:EV.
    - pose proof (proj1 valid_iff EV) as Hval.
      assert (Hnd : NoDup (arg_slots IA args)) by (apply nodupb_NoDup; assumption).
      destruct (shared_args_ok IA args [] v0 Hval Hnd (fun s _ H => H)) as [seen [v1 [H1 [H2 H3]]]].
      rewrite H1. split; [reflexivity|]. intros s. unfold slot_state, slot_D. rewrite apply_initforms_lookup. rewrite H2. change (memb s []) with false. cbn [orb].
      destruct (H3 s) as [A B]. destruct (HV0 s) as [C Dd]. unfold IF. rewrite IF_lookup.
      destruct (filter (named s) D) as [|d0 defs] eqn:EF.
      + (* no definition names s *)
        assert (Hno : forall sd, In sd D -> sd_name sd <> s).
        { intros sd Hi Hn. assert (In sd (filter (named s) D)) as Hf by (apply filter_In; split; [assumption | unfold named; apply Nat.eqb_eq; assumption]).
          rewrite EF in Hf. contradiction. }
        assert (Hnoarg : ~ In s (arg_slots IA args)).
        { intro Hi. unfold arg_slots in Hi. apply in_flat_map in Hi. destruct Hi as [kv [Hk Hs]].
          apply initarg_slots_In in Hs. apply IA_In in Hs. destruct Hs as [sd [I1 [I2 _]]]. exact (Hno sd I1 I2). }
        assert (memb s (arg_slots IA args) = false) as -> by (apply memb_false; assumption).
        unfold first_initform. simpl. rewrite (B Hnoarg). rewrite (proj2 C Hno). reflexivity.
      + rewrite <- EF.
        destruct (find (fun kv => memb (fst kv) (flat_map sd_initargs (filter (named s) D))) args) as [kv|] eqn:Efind.
        * apply find_some in Efind. destruct Efind as [Hk Hm]. apply in_initargs_IA in Hm. apply initarg_slots_In in Hm.
          assert (In s (arg_slots IA args)) as Hin by (unfold arg_slots; apply in_flat_map; exists kv; split; assumption).
          apply memb_In in Hin. rewrite Hin. rewrite (A kv Hk Hm). reflexivity.
        * assert (Hnoarg : ~ In s (arg_slots IA args)).
          { intro Hi. unfold arg_slots in Hi. apply in_flat_map in Hi. destruct Hi as [kv [Hk Hs]].
            pose proof (find_none _ _ Efind kv Hk) as Hf. simpl in Hf.
            assert (memb (fst kv) (flat_map sd_initargs (filter (named s) D)) = true) as Ht
              by (apply in_initargs_IA; apply initarg_slots_In; assumption).
            congruence. }
          assert (memb s (arg_slots IA args) = false) as -> by (apply memb_false; assumption).
          rewrite (B Hnoarg).
          destruct (first_initform (filter (named s) D)) as [v|] eqn:Eff; [reflexivity|].
          destruct (lookup v0 s) as [x|] eqn:Ev.
          -- destruct (Dd x eq_refl) as [sd [I1 [I2 I3]]].
             assert (sd_initform sd = None) as Hnone.
             { apply (first_initform_none _ Eff). apply filter_In. split; [assumption | unfold named; apply Nat.eqb_eq; assumption]. }
             rewrite I3, Hnone. reflexivity.
          -- exfalso. assert (In d0 (filter (named s) D)) as Hd by (rewrite EF; left; reflexivity).
             apply filter_In in Hd. destruct Hd as [Hd1 Hd2]. unfold named in Hd2. apply Nat.eqb_eq in Hd2.
             exact (proj1 C eq_refl d0 Hd1 Hd2).
    - (* some supplied initarg is unknown *)
      destruct (shared_args IA args [] v0) as [[seen v1]|] eqn:ES; [|reflexivity]. exfalso.
      unfold valid_D in EV. apply forallb_false_ex in EV. destruct EV as [kv [Hk Hf]].
      assert (initarg_slots IA (fst kv) = []) as Hn.
      { destruct (initarg_slots IA (fst kv)) as [|s r] eqn:E; [reflexivity|]. exfalso.
        assert (In s (initarg_slots IA (fst kv))) as Hs by (rewrite E; left; reflexivity).
        apply initarg_slots_In in Hs. apply IA_In in Hs. destruct Hs as [sd [I1 [I2 I3]]].
        apply memb_false in Hf. apply Hf. apply in_flat_map. eauto. }
      rewrite (shared_args_invalid IA args [] v0 kv Hk Hn) in ES. discriminate.
  Qed.
End Make.

(* ---- make_instance of a ready class in a world that satisfies the invariant ---------------------- *)
Definition cs_of (w : world) (m : nat) : list slotdef :=
  match lookup (reg w) m with
  | Some j => match get w j with Some cm => co_slots cm | None => [] end
  | None => []
  end.
Lemma fold_left_map_gen : forall A B C (f : A -> C -> A) (g : B -> C) l a,
  fold_left f (map g l) a = fold_left (fun a x => f a (g x)) l a.
Proof. induction l; intros; simpl; auto. Qed.
Lemma flat_map_filter : forall A B (cs : A -> list B) (f : B -> bool) P,
  flat_map (fun c => filter f (cs c)) P = filter f (flat_map cs P).
Proof.
  induction P as [|c r IH]; simpl; [reflexivity|]. rewrite IH.
  induction (cs c) as [|x l IHl]; simpl; [reflexivity|]. destruct (f x); simpl; rewrite IHl; reflexivity.
Qed.
Lemma all_slots_cs : forall w n id c, registered w n id c -> good w n c ->
  all_slots (heap w) (co_slots c) (co_inherit c) = map (cs_of w) (n :: map snd (co_inherit c)).
Proof.
  intros w n id c [L G] [_ [Hcur _]]. unfold all_slots. simpl. f_equal.
  - unfold cs_of. rewrite L, G. reflexivity.
  - rewrite map_map. apply map_ext_in. intros [i m] Hi. unfold slots_of, cs_of, get. simpl. rewrite (Hcur i m Hi). reflexivity.
Qed.

Theorem make_instance_spec : forall w n id c args, Inv w -> registered w n id c -> co_prec c <> [] ->
  g_make w n args = true ->
  let P := n :: map snd (co_inherit c) in
  match make_instance (heap w) c args with
  | None => valid_args (cs_of w) P args = false
  | Some vs => valid_args (cs_of w) P args = true /\ forall s, slot_state vs s = slot_S (cs_of w) P args s
  end.
Proof.
  intros w n id c args HI Hr Hp G P.
  assert (good w n c) as Hg.
  { destruct HI as [[_ HJ] _]. destruct (HJ n id c Hr) as [_ H]. destruct (H (fun x => x)) as [Hg|[Hb _]]; [assumption | contradiction]. }
  pose proof (all_slots_cs w n id c Hr Hg) as HL. fold P in HL.
  set (D := flat_map (cs_of w) P).
  assert (HD : concat (map (cs_of w) P) = D) by (unfold D; rewrite flat_map_concat_map; reflexivity).
  assert (HIA : mk_initargs (heap w) (co_slots c) (co_inherit c) = slot_initargs D).
  { unfold mk_initargs. rewrite HL. rewrite (flat_map_of_concat _ _ slot_initargs _ slot_initargs_app eq_refl). rewrite HD. reflexivity. }
  assert (HIF : mk_initforms (heap w) (co_slots c) (co_inherit c) = slot_initforms D).
  { unfold mk_initforms. rewrite HL. rewrite (flat_map_of_concat _ _ slot_initforms _ slot_initforms_app eq_refl). rewrite HD. reflexivity. }
  unfold g_make in G. destruct Hr as [L Gc]. rewrite L, Gc in G. rewrite HIA in G.
  apply andb_true_iff in G. destruct G as [_ G2].
  unfold make_instance. destruct (co_prec c) as [|p0 pr] eqn:Ep; [contradiction|].
  destruct Hg as [_ [_ [_ [Ha Hf]]]]. rewrite Ha, Hf, HIA, HIF.
  set (v0 := fold_left (fun vs p => init_inh (slots_of (heap w) p) vs) (co_inherit c) (init_own (co_slots c) [])).
  assert (V0 D v0) as HV0.
  { unfold v0. rewrite <- (fold_left_map_gen _ _ _ (fun vs sl => init_inh sl vs) (slots_of (heap w))).
    unfold all_slots in HL. unfold P in HL. simpl in HL. inversion HL as [[H1 H2]].
    assert (D = ([] ++ co_slots c) ++ concat (map (slots_of (heap w)) (co_inherit c))) as ->.
    { unfold D, P. simpl. rewrite flat_map_concat_map. rewrite <- H2. rewrite <- H1. reflexivity. }
    apply init_all_V0. apply init_own_V0. apply V0_nil. }
  pose proof (make_core D args v0 HV0 G2) as Hcore.
  assert (HS : forall s, slot_S (cs_of w) P args s = slot_D D args s).
  { intros s. unfold slot_S, slot_D, eff_defs. unfold D. rewrite (flat_map_filter _ _ (cs_of w) (fun sd => Nat.eqb (sd_name sd) s) P). reflexivity. }
  assert (HVal : valid_args (cs_of w) P args = valid_D D args) by reflexivity.
  destruct (shared_args (slot_initargs D) args [] v0) as [[seen v1]|].
  - destruct Hcore as [A B]. split; [rewrite HVal; assumption|]. intros s. rewrite HS. apply B.
  - rewrite HVal. assumption.
Qed.

(* ---- frame: slot access and accessors act on one slot of one instance ------------------------------ *)
Definition slot_at (w : world) (i s : nat) : option (option (option Z)) :=
  match nth_error (insts w) i with Some ins => Some (lookup (i_vars ins) s) | None => None end.
Definition inst_class (w : world) (i : nat) : option nat :=
  match nth_error (insts w) i with Some ins => Some (i_cid ins) | None => None end.
Definition target (o : op) : option (nat * nat) :=
  match o with
  | OSetSlot i s _ => Some (i, s)
  | OMakunbound i s => Some (i, s)
  | OCall _ s i _ => Some (i, s)
  | _ => None
  end.
Definition is_access (o : op) : bool :=
  match o with ODefclass _ _ _ => false | OMake _ _ => false | _ => true end.

Lemma upd_inst_slot : forall w i ins s x, nth_error (insts w) i = Some ins ->
  let w' := upd_inst w i (set_assoc (i_vars ins) s x) in
  length (insts w') = length (insts w) /\
  (forall i', inst_class w' i' = inst_class w i') /\
  slot_at w' i s = Some (Some x) /\
  (forall i' s', (i', s') <> (i, s) -> slot_at w' i' s' = slot_at w i' s').
Proof.
  intros w i ins s x H. unfold upd_inst. rewrite H. simpl.
  assert (Hlt : i < length (insts w)) by (eapply nth_error_Some_lt; eassumption).
  split; [apply set_nth_length|]. split; [|split].
  - intros i'. unfold inst_class. simpl. destruct (Nat.eq_dec i' i) as [->|Hne].
    + rewrite nth_set_same by assumption. rewrite H. reflexivity.
    + rewrite nth_set_other by auto. reflexivity.
  - unfold slot_at. simpl. rewrite nth_set_same by assumption. simpl. rewrite lookup_set_same. reflexivity.
  - intros i' s' Hne. unfold slot_at. simpl. destruct (Nat.eq_dec i' i) as [->|Hi].
    + rewrite nth_set_same by assumption. rewrite H. simpl. rewrite lookup_set_other; [reflexivity|]. intros ->. apply Hne. reflexivity.
    + rewrite nth_set_other by auto. reflexivity.
Qed.

Lemma with_gfs_slot : forall w g i s, slot_at (with_gfs w g) i s = slot_at w i s.
Proof. reflexivity. Qed.

(* every operation other than defclass and make-instance leaves the class world alone, creates and deletes
   no instance, changes the class of none, and changes no slot other than its target *)
Theorem access_frame : forall w o ro co, is_access o = true ->
  let w' := fst (step w o ro co) in
  heap w' = heap w /\ reg w' = reg w /\ length (insts w') = length (insts w) /\
  (forall i, inst_class w' i = inst_class w i) /\
  (forall i s, target o <> Some (i, s) -> slot_at w' i s = slot_at w i s).
Proof.
  intros w o ro co Ha w'.
  assert (is_defclass o = false) as Hd by (destruct o; try discriminate; reflexivity).
  destruct (step_heap_reg w o ro co Hd) as [Hh Hr]. fold w' in Hh, Hr.
  split; [assumption|]. split; [assumption|].
  assert (Hsame : insts w' = insts w -> length (insts w') = length (insts w) /\ (forall i, inst_class w' i = inst_class w i) /\
                  (forall i s, target o <> Some (i, s) -> slot_at w' i s = slot_at w i s)).
  { intros E. unfold inst_class, slot_at. rewrite E. auto. }
  unfold w' in *. clear w'. destruct o; try discriminate; simpl in *.
  - apply Hsame. destruct (nth_error (insts w) i); reflexivity.
  - apply Hsame. destruct (nth_error (insts w) i); reflexivity.
  - destruct (nth_error (insts w) i) as [ins|] eqn:E; [|apply Hsame; reflexivity].
    destruct (lookup (i_vars ins) s); [|apply Hsame; reflexivity]. simpl.
    destruct (upd_inst_slot w i ins s (Some v) E) as [A [B [_ C]]]. split; [assumption|]. split; [assumption|].
    intros i' s' Hne. apply C. intro Hc. apply Hne. inversion Hc. reflexivity.
  - destruct (nth_error (insts w) i) as [ins|] eqn:E; [|apply Hsame; reflexivity].
    destruct (lookup (i_vars ins) s); [|apply Hsame; reflexivity]. simpl.
    destruct (upd_inst_slot w i ins s None E) as [A [B [_ C]]]. split; [assumption|]. split; [assumption|].
    intros i' s' Hne. apply C. intro Hc. apply Hne. inversion Hc. reflexivity.
  - destruct (call_gf w (gkey k s) i) as [w1 r] eqn:Ec. destruct (call_gf_frame _ _ _ _ _ Ec) as [_ [_ Hi]].
    destruct r; [|apply Hsame; simpl; assumption].
    destruct (nth_error (insts w1) i) as [ins|] eqn:E; [|apply Hsame; simpl; assumption].
    destruct (Nat.eqb k KR || Nat.eqb k KAR); [apply Hsame; simpl; assumption|].
    destruct (lookup (i_vars ins) s); [|apply Hsame; simpl; assumption]. simpl.
    destruct (upd_inst_slot w1 i ins s (Some v) E) as [A [B [_ C]]].
    unfold inst_class, slot_at in *. rewrite <- Hi. split; [assumption|]. split; [assumption|].
    intros i' s' Hne. apply C. intro Hc. apply Hne. inversion Hc. reflexivity.
  - apply Hsame. destruct (nth_error (insts w) i) as [ins|]; [|reflexivity]. destruct (get w (i_cid ins)); reflexivity.
  - apply Hsame. destruct (nth_error (insts w) i) as [ins|]; [|reflexivity]. destruct (get w (i_cid ins)); reflexivity.
  - apply Hsame. reflexivity.
  - destruct (call_gf w (gkey KU 0) i) as [w1 r] eqn:Ec. destruct (call_gf_frame _ _ _ _ _ Ec) as [_ [_ Hi]].
    apply Hsame. destruct r; simpl; assumption.
Qed.

(* a reader or the read half of an accessor changes no slot at all, and what it returns is the content of
   its slot of its argument *)
Theorem reader_reads : forall w k s i v ro co, (k = KR \/ k = KAR) ->
  insts (fst (step w (OCall k s i v) ro co)) = insts w /\
  match snd (step w (OCall k s i v) ro co) with
  | OV x => slot_at w i s = Some (Some (Some x)) \/ (slot_at w i s = Some None /\ x = (-1)%Z)
  | OUnb => slot_at w i s = Some (Some None)
  | OErr => True
  | _ => False
  end.
Proof.
  intros w k s i v ro co Hk. simpl.
  destruct (call_gf w (gkey k s) i) as [w1 r] eqn:Ec. destruct (call_gf_frame _ _ _ _ _ Ec) as [_ [_ Hi]].
  destruct r; [|simpl; auto].
  destruct (nth_error (insts w1) i) as [ins|] eqn:E; [|simpl; auto].
  assert (Nat.eqb k KR || Nat.eqb k KAR = true) as -> by (destruct Hk; subst; reflexivity).
  simpl. split; [assumption|]. unfold slot_at. rewrite <- Hi, E.
  destruct (lookup (i_vars ins) s) as [[x|]|]; auto.
Qed.

(* a writer or (setf accessor) that returns normally returns its argument, and the slot, if the instance
   has it, then holds that value *)
Theorem writer_writes : forall w k s i v ro co, (k = KW \/ k = KAW) ->
  match snd (step w (OCall k s i v) ro co) with
  | OV x => x = v /\ (forall y, slot_at w i s = Some (Some y) -> slot_at (fst (step w (OCall k s i v) ro co)) i s = Some (Some (Some v)))
  | OErr => True
  | _ => False
  end.
Proof.
  intros w k s i v ro co Hk. simpl.
  destruct (call_gf w (gkey k s) i) as [w1 r] eqn:Ec. destruct (call_gf_frame _ _ _ _ _ Ec) as [_ [_ Hi]].
  destruct r; [|simpl; auto].
  destruct (nth_error (insts w1) i) as [ins|] eqn:E; [|simpl; auto].
  assert (Nat.eqb k KR || Nat.eqb k KAR = false) as -> by (destruct Hk; subst; reflexivity).
  simpl. split; [reflexivity|]. intros y Hy. unfold slot_at in Hy. rewrite <- Hi, E in Hy. inversion Hy as [Hy'].
  rewrite Hy'. destruct (upd_inst_slot w1 i ins s (Some v) E) as [_ [_ [C _]]]. exact C.
Qed.
