(* C12 — list lemmas: association lists, set_nth, first-occurrence filtering *)
From C12 Require Import Model Spec.

Lemma memb_In : forall x l, memb x l = true <-> In x l.
Proof.
  unfold memb. intros x l. rewrite existsb_exists. split.
  - intros [y [H1 H2]]. apply Nat.eqb_eq in H2. subst. exact H1.
  - intros H. exists x. split; [exact H | apply Nat.eqb_refl].
Qed.
Lemma memb_false : forall x l, memb x l = false <-> ~ In x l.
Proof. intros. rewrite <- memb_In. destruct (memb x l); split; congruence. Qed.
Lemma memb_app : forall x a b, memb x (a ++ b) = memb x a || memb x b.
Proof. intros. unfold memb. apply existsb_app. Qed.
Lemma memb_cons : forall x y l, memb x (y :: l) = Nat.eqb x y || memb x l.
Proof. reflexivity. Qed.

Definition same_set (a b : list nat) : Prop := forall x, memb x a = memb x b.

Lemma kf_ext : forall l s1 s2, same_set s1 s2 -> kf s1 l = kf s2 l.
Proof.
  induction l as [|x r IH]; intros s1 s2 H; simpl; [reflexivity|].
  rewrite (H x). destruct (memb x s2).
  - apply IH; exact H.
  - f_equal. apply IH. intro y. simpl. rewrite (H y). reflexivity.
Qed.
Lemma kf_app : forall xs ys seen, kf seen (xs ++ ys) = kf seen xs ++ kf (xs ++ seen) ys.
Proof.
  induction xs as [|x r IH]; intros ys seen; simpl; [reflexivity|].
  destruct (memb x seen) eqn:E.
  - rewrite IH. f_equal. apply kf_ext. intro y. simpl.
    destruct (Nat.eqb y x) eqn:E2; [|reflexivity].
    apply Nat.eqb_eq in E2. subst. rewrite memb_app, E. rewrite orb_true_r. reflexivity.
  - simpl. f_equal. rewrite IH. f_equal. apply kf_ext. intro y. simpl.
    rewrite !memb_app. simpl. destruct (Nat.eqb y x); simpl; [rewrite orb_true_r|]; reflexivity.
Qed.
Lemma kf_In : forall l seen x, In x (kf seen l) <-> In x l /\ ~ In x seen.
Proof.
  induction l as [|y r IH]; intros seen x; simpl.
  - tauto.
  - destruct (memb y seen) eqn:E.
    + rewrite IH. apply memb_In in E. split.
      * intros [H1 H2]. tauto.
      * intros [[H1|H1] H2]; [subst; tauto | tauto].
    + apply memb_false in E. simpl. rewrite IH. simpl. split.
      * intros [H|[H1 H2]]; [subst; tauto | tauto].
      * intros [[H1|H1] H2]; [tauto|]. destruct (Nat.eq_dec y x); [tauto|]. right. tauto.
Qed.
Lemma dedup_In : forall l x, In x (dedup l) <-> In x l.
Proof. intros. unfold dedup. rewrite kf_In. simpl. tauto. Qed.
Lemma kf_nodup_id : forall l seen, NoDup l -> (forall x, In x l -> ~ In x seen) -> kf seen l = l.
Proof.
  induction l as [|x r IH]; intros seen Hn Hs; simpl; [reflexivity|].
  inversion Hn; subst.
  destruct (memb x seen) eqn:E.
  - apply memb_In in E. exfalso. apply (Hs x); simpl; auto.
  - f_equal. apply IH; [assumption|]. intros y Hy [Hc|Hc].
    + subst. contradiction.
    + apply (Hs y); simpl; auto.
Qed.
Lemma nodupb_NoDup : forall l, nodupb l = true <-> NoDup l.
Proof.
  induction l as [|x r IH]; simpl.
  - split; [constructor | reflexivity].
  - rewrite andb_true_iff, negb_true_iff, memb_false, IH. split.
    + intros [H1 H2]. constructor; assumption.
    + intros H. inversion H; subst. tauto.
Qed.
Lemma kf_NoDup : forall l seen, NoDup (kf seen l).
Proof.
  induction l as [|x r IH]; intros seen; simpl; [constructor|].
  destruct (memb x seen); [apply IH|].
  constructor; [|apply IH]. rewrite kf_In. simpl. tauto.
Qed.

(* ---- lookup / set_assoc --------------------------------------------------------------- *)
Lemma lookup_set_same : forall A (l : list (nat * A)) k v, lookup (set_assoc l k v) k = Some v.
Proof.
  induction l as [|[k' v'] r IH]; intros k v; simpl.
  - rewrite Nat.eqb_refl. reflexivity.
  - destruct (Nat.eqb k k') eqn:E; simpl.
    + rewrite Nat.eqb_refl. reflexivity.
    + rewrite E. apply IH.
Qed.
Lemma lookup_set_other : forall A (l : list (nat * A)) k k' v, k' <> k -> lookup (set_assoc l k v) k' = lookup l k'.
Proof.
  induction l as [|[k0 v0] r IH]; intros k k' v Hne; simpl.
  - destruct (Nat.eqb k' k) eqn:E; [apply Nat.eqb_eq in E; congruence | reflexivity].
  - destruct (Nat.eqb k k0) eqn:E; simpl.
    + apply Nat.eqb_eq in E. subst. destruct (Nat.eqb k' k0) eqn:E2; [apply Nat.eqb_eq in E2; congruence | reflexivity].
    + destruct (Nat.eqb k' k0); [reflexivity | apply IH; assumption].
Qed.
Lemma lookup_In : forall A (l : list (nat * A)) k v, lookup l k = Some v -> In (k, v) l.
Proof.
  induction l as [|[k' v'] r IH]; intros k v H; simpl in *; [discriminate|].
  destruct (Nat.eqb k k') eqn:E.
  - apply Nat.eqb_eq in E. inversion H. subst. auto.
  - right. apply IH. exact H.
Qed.
Lemma lookup_None_keys : forall A (l : list (nat * A)) k, lookup l k = None <-> ~ In k (map fst l).
Proof.
  induction l as [|[k' v'] r IH]; intros k; simpl; [tauto|].
  destruct (Nat.eqb k k') eqn:E.
  - apply Nat.eqb_eq in E. subst. split; [discriminate | tauto].
  - apply Nat.eqb_neq in E. rewrite IH. split; [intros H [H1|H1]; [congruence | tauto] | tauto].
Qed.
Lemma In_lookup_nodup : forall A (l : list (nat * A)) k v, NoDup (map fst l) -> In (k, v) l -> lookup l k = Some v.
Proof.
  induction l as [|[k' v'] r IH]; intros k v Hn Hi; simpl in *; [contradiction|].
  inversion Hn; subst. destruct Hi as [Hi|Hi].
  - inversion Hi; subst. rewrite Nat.eqb_refl. reflexivity.
  - destruct (Nat.eqb k k') eqn:E.
    + apply Nat.eqb_eq in E. subst. exfalso. apply H1. apply in_map_iff. exists (k', v). auto.
    + apply IH; assumption.
Qed.
Lemma set_assoc_keys : forall A (l : list (nat * A)) k v x,
  In x (map fst (set_assoc l k v)) <-> x = k \/ In x (map fst l).
Proof.
  induction l as [|[k' v'] r IH]; intros k v x; simpl.
  - split; [intros [H|[]]; auto | intros [H|[]]; auto].
  - destruct (Nat.eqb k k') eqn:E; simpl.
    + apply Nat.eqb_eq in E. subst. split; [intros [H|H]; auto | intros [H|[H|H]]; auto].
    + rewrite IH. split; [intros [H|[H|H]]; auto | intros [H|[H|H]]; auto].
Qed.
Lemma set_assoc_nodup : forall A (l : list (nat * A)) k v, NoDup (map fst l) -> NoDup (map fst (set_assoc l k v)).
Proof.
  induction l as [|[k' v'] r IH]; intros k v H; simpl.
  - constructor; [simpl; tauto | constructor].
  - inversion H; subst. destruct (Nat.eqb k k') eqn:E; simpl.
    + apply Nat.eqb_eq in E. subst. constructor; assumption.
    + constructor; [|apply IH; assumption].
      rewrite set_assoc_keys. apply Nat.eqb_neq in E. intros [Hc|Hc]; [congruence | contradiction].
Qed.
Lemma set_assoc_In_nodup : forall A (l : list (nat * A)) k v k0 v0, NoDup (map fst l) ->
  In (k0, v0) (set_assoc l k v) -> (k0 = k /\ v0 = v) \/ (k0 <> k /\ In (k0, v0) l).
Proof.
  intros A l k v k0 v0 Hn Hi.
  pose proof (set_assoc_nodup A l k v Hn) as Hn'.
  apply In_lookup_nodup in Hi; [|assumption].
  destruct (Nat.eq_dec k0 k) as [->|Hne].
  - rewrite lookup_set_same in Hi. inversion Hi. auto.
  - rewrite lookup_set_other in Hi by assumption. right. split; [assumption|]. apply lookup_In. assumption.
Qed.

(* ---- set_nth ------------------------------------------------------------------------------ *)
Lemma set_nth_length : forall A (l : list A) i x, length (set_nth l i x) = length l.
Proof. induction l; intros [|i] x; simpl; auto. Qed.
Lemma nth_set_same : forall A (l : list A) i x, i < length l -> nth_error (set_nth l i x) i = Some x.
Proof. induction l; intros [|i] x H; simpl in *; try lia; auto. apply IHl. lia. Qed.
Lemma nth_set_other : forall A (l : list A) i j x, i <> j -> nth_error (set_nth l i x) j = nth_error l j.
Proof. induction l; intros [|i] [|j] x H; simpl; auto; try congruence. Qed.
Lemma set_nth_same : forall A (l : list A) i x, nth_error l i = Some x -> set_nth l i x = l.
Proof.
  induction l; intros [|i] x H; simpl in *; try discriminate.
  - inversion H. reflexivity.
  - f_equal. apply IHl. exact H.
Qed.
Lemma nth_error_Some_lt : forall A (l : list A) i x, nth_error l i = Some x -> i < length l.
Proof. intros. apply nth_error_Some. congruence. Qed.

Lemma all_some_map : forall A B (f : A -> option B) l ls,
  all_some (map f l) = Some ls -> length ls = length l /\ forall k a, nth_error l k = Some a -> exists b, f a = Some b /\ nth_error ls k = Some b.
Proof.
  induction l as [|a r IH]; intros ls H; simpl in *.
  - inversion H. split; [reflexivity|]. intros [|k] a' H'; discriminate.
  - destruct (f a) eqn:E; [|discriminate]. destruct (all_some (map f r)) eqn:E2; [|discriminate].
    inversion H; subst. destruct (IH l eq_refl) as [HL HK]. split; [simpl; congruence|].
    intros [|k] a' H'; simpl in *.
    + inversion H'; subst. eauto.
    + apply HK. exact H'.
Qed.
Lemma all_some_ext : forall A B (f g : A -> option B) l ls,
  all_some (map f l) = Some ls -> (forall a b, In a l -> f a = Some b -> g a = Some b) -> all_some (map g l) = Some ls.
Proof.
  induction l as [|a r IH]; intros ls H Hfg; simpl in *; [assumption|].
  destruct (f a) eqn:E; [|discriminate]. destruct (all_some (map f r)) eqn:E2; [|discriminate].
  rewrite (Hfg a b (or_introl eq_refl) E). rewrite (IH l eq_refl); [assumption|].
  intros a' b' Hi. apply Hfg. right. exact Hi.
Qed.
Lemma all_some_In : forall A B (f : A -> option B) l ls a,
  all_some (map f l) = Some ls -> In a l -> exists b, f a = Some b /\ In b ls.
Proof.
  induction l as [|a0 r IH]; intros ls a H Hi; simpl in *; [contradiction|].
  destruct (f a0) eqn:E; [|discriminate]. destruct (all_some (map f r)) eqn:E2; [|discriminate].
  inversion H; subst. destruct Hi as [->|Hi].
  - exists b. split; [assumption | left; reflexivity].
  - destruct (IH l a eq_refl Hi) as [b' [H1 H2]]. exists b'. split; [assumption | right; assumption].
Qed.
Lemma all_some_none : forall A B (f : A -> option B) l a, In a l -> f a = None -> all_some (map f l) = None.
Proof.
  induction l as [|a0 r IH]; intros a Hi Hf; simpl in *; [contradiction|].
  destruct Hi as [->|Hi].
  - rewrite Hf. reflexivity.
  - destruct (f a0); [|reflexivity]. rewrite (IH a Hi Hf). reflexivity.
Qed.
Lemma all_some_map_eq : forall A B (f : A -> option B) (g : A -> B) l,
  (forall a, In a l -> f a = Some (g a)) -> all_some (map f l) = Some (map g l).
Proof.
  induction l as [|a r IH]; intros H; simpl; [reflexivity|].
  rewrite (H a (or_introl eq_refl)). rewrite IH; [reflexivity|]. intros. apply H. right. assumption.
Qed.
Lemma filter_len_le : forall A (f : A -> bool) l, length (filter f l) <= length l.
Proof. induction l; simpl; [lia|]. destruct (f a); simpl; lia. Qed.

(* ---- the stable insertion sort of classChanged ------------------------------------------------- *)
Lemma insert_by_In : forall f x l y, In y (insert_by f x l) <-> y = x \/ In y l.
Proof.
  induction l as [|a r IH]; intros y; simpl.
  - split; [intros [H|[]]; auto | intros [H|[]]; auto].
  - destruct (Nat.leb (f x) (f a)); simpl; [split; intros [H|H]; auto|].
    rewrite IH. split; intros H; tauto.
Qed.
Lemma sort_by_In : forall f l y, In y (sort_by f l) <-> In y l.
Proof.
  induction l as [|a r IH]; intros y; simpl; [tauto|].
  rewrite insert_by_In, IH. split; intros [H|H]; auto.
Qed.
Fixpoint sortedf (f : nat -> nat) (l : list nat) : Prop :=
  match l with
  | [] => True
  | x :: r => (forall y, In y r -> f x <= f y) /\ sortedf f r
  end.
Lemma insert_by_sorted : forall f x l, sortedf f l -> sortedf f (insert_by f x l).
Proof.
  induction l as [|a r IH]; intros H; simpl; [split; [intros y []| exact I]|].
  destruct H as [Ha Hr]. destruct (Nat.leb (f x) (f a)) eqn:E.
  - apply Nat.leb_le in E. simpl. split; [|split; assumption].
    intros y [<-|Hy]; [assumption|]. specialize (Ha y Hy). lia.
  - apply Nat.leb_gt in E. simpl. split; [|apply IH; assumption].
    intros y Hy. apply insert_by_In in Hy. destruct Hy as [->|Hy]; [lia | apply Ha; assumption].
Qed.
Lemma sort_by_sorted : forall f l, sortedf f (sort_by f l).
Proof. induction l as [|a r IH]; simpl; [exact I | apply insert_by_sorted; assumption]. Qed.
Lemma filter_nil : forall A (f : A -> bool) l, (forall x, In x l -> f x = false) -> filter f l = [].
Proof.
  induction l as [|a r IH]; intros H; simpl; [reflexivity|].
  rewrite (H a (or_introl eq_refl)). apply IH. intros x Hx. apply H. right. assumption.
Qed.
