(* C12 — the class table: the incrementally maintained state equals recomputation from the table *)
From C12 Require Import Model Spec Lists LinProofs.

Definition table (w : world) (n : nat) : option (list nat) :=
  match lookup (reg w) n with
  | Some id => match get w id with Some c => Some (co_supers c) | None => None end
  | None => None
  end.

Definition WF (w : world) : Prop :=
  NoDup (map fst (reg w)) /\
  forall n id, lookup (reg w) n = Some id -> exists c, get w id = Some c /\ co_name c = n /\ NoDup (co_supers c).

(* the derived fields of a ready class are what the table says *)
Definition good (w : world) (n : nat) (c : cobj) : Prop :=
  (exists f, lin (table w) f n = Some (map snd (co_inherit c))) /\
  (forall i m, In (i, m) (co_inherit c) -> lookup (reg w) m = Some i) /\
  co_prec c = mk_prec n (co_inherit c) /\
  co_initargs c = mk_initargs (heap w) (co_slots c) (co_inherit c) /\
  co_initforms c = mk_initforms (heap w) (co_slots c) (co_inherit c).
Definition blank (c : cobj) : Prop := co_prec c = [] /\ co_inherit c = [].
Definition registered (w : world) (n id : nat) (c : cobj) : Prop := lookup (reg w) n = Some id /\ get w id = Some c.

(* X: the classes waiting to be merged again by classChanged *)
Definition JX (X : nat -> Prop) (w : world) : Prop :=
  WF w /\ forall n id c, registered w n id c -> (X id -> co_prec c <> []) /\ (~ X id -> good w n c \/ blank c).
Definition FF (w : world) : Prop :=
  forall n id c, registered w n id c -> co_prec c = [] -> supers_ready w (co_supers c) = false.
Definition NoX : nat -> Prop := fun _ => False.
Definition Inv (w : world) : Prop := JX NoX w /\ FF w.

(* ---- small facts ------------------------------------------------------------------------ *)
Lemma inh_has_memb : forall inh n, inh_has inh n = memb n (map snd inh).
Proof.
  induction inh as [|[i m] r IH]; intros n; simpl; [reflexivity|].
  rewrite IH. rewrite (Nat.eqb_sym m n). reflexivity.
Qed.
Lemma inh_has_app : forall a b n, inh_has (a ++ b) n = inh_has a n || inh_has b n.
Proof. intros. unfold inh_has. apply existsb_app. Qed.
Lemma mk_prec_nonnil : forall n inh, mk_prec n inh <> [].
Proof. intros. unfold mk_prec. discriminate. Qed.
Lemma good_ready : forall w n c, good w n c -> co_prec c <> [].
Proof. intros w n c [_ [_ [H _]]]. rewrite H. apply mk_prec_nonnil. Qed.
Lemma good_not_blank : forall w n c, good w n c -> blank c -> False.
Proof. intros w n c Hg [Hb _]. exact (good_ready _ _ _ Hg Hb). Qed.

Lemma readyb_true : forall w id, readyb w id = true <-> exists c, get w id = Some c /\ co_prec c <> [].
Proof.
  intros w id. unfold readyb. destruct (get w id) as [c|].
  - destruct (co_prec c) eqn:E; simpl; split.
    + discriminate.
    + intros [c' [H1 H2]]. inversion H1; subst. congruence.
    + intros _. exists c. split; [reflexivity | congruence].
    + reflexivity.
  - split; [discriminate | intros [c [H _]]; discriminate].
Qed.

(* ---- phase 1 ----------------------------------------------------------------------------- *)
Definition ready_in (rg : list (nat * nat)) (hp : list cobj) (s : nat) : bool :=
  match lookup rg s with
  | Some id => match nth_error hp id with Some sc => negb (is_nil (co_prec sc)) | None => false end
  | None => false
  end.
Lemma supers_ready_forallb : forall w supers, supers_ready w supers = forallb (ready_in (reg w) (heap w)) supers.
Proof.
  intros w supers. unfold supers_ready. induction supers as [|s r IH]; simpl; [reflexivity|].
  rewrite IH. unfold ready_in, readyb, get. destruct (lookup (reg w) s); reflexivity.
Qed.
Lemma phase1_none_iff : forall rg hp supers acc,
  phase1 rg hp supers acc = None <-> forallb (ready_in rg hp) supers = false.
Proof.
  induction supers as [|s r IH]; intros acc; simpl.
  - split; discriminate.
  - unfold ready_in at 1. destruct (lookup rg s) as [id|]; [|simpl; tauto].
    destruct (nth_error hp id) as [sc|]; [|simpl; tauto].
    destruct (co_prec sc); simpl; [tauto|].
    destruct (inh_has acc s); apply IH.
Qed.
Lemma phase1_ok : forall rg hp supers acc,
  (forall s, In s supers -> exists sid sc, lookup rg s = Some sid /\ nth_error hp sid = Some sc /\ co_prec sc <> []) ->
  NoDup supers -> (forall s, In s supers -> inh_has acc s = false) ->
  exists ds, phase1 rg hp supers acc = Some (acc ++ ds) /\ map snd ds = supers /\
             forall i m, In (i, m) ds -> lookup rg m = Some i.
Proof.
  induction supers as [|s r IH]; intros acc Hs Hn Ha; simpl.
  - exists []. rewrite app_nil_r. split; [reflexivity|]. split; [reflexivity|]. intros i m [].
  - destruct (Hs s (or_introl eq_refl)) as [sid [sc [H1 [H2 H3]]]].
    rewrite H1, H2. destruct (co_prec sc) eqn:E; [congruence|].
    rewrite (Ha s (or_introl eq_refl)).
    inversion Hn; subst.
    destruct (IH (acc ++ [(sid, s)])) as [ds [Hd1 [Hd2 Hd3]]].
    + intros s' Hs'. apply Hs. right. assumption.
    + assumption.
    + intros s' Hs'. rewrite inh_has_app. rewrite (Ha s' (or_intror Hs')). simpl.
      destruct (Nat.eqb s s') eqn:E2; [|reflexivity]. apply Nat.eqb_eq in E2. subst. contradiction.
    + exists ((sid, s) :: ds). rewrite Hd1. rewrite <- app_assoc. simpl. split; [reflexivity|].
      split; [congruence|]. intros i m [Hi|Hi]; [inversion Hi; subst; assumption | apply Hd3; assumption].
Qed.

(* ---- phase 2 ----------------------------------------------------------------------------- *)
Lemma add_new_names : forall xs acc, map snd (add_new acc xs) = map snd acc ++ kf (map snd acc) (map snd xs).
Proof.
  unfold add_new. induction xs as [|x r IH]; intros acc; simpl.
  - rewrite app_nil_r. reflexivity.
  - rewrite inh_has_memb. destruct (memb (snd x) (map snd acc)) eqn:E.
    + apply IH.
    + rewrite IH. rewrite map_app. simpl. rewrite <- app_assoc. simpl. f_equal. f_equal.
      apply kf_ext. intro y. rewrite memb_app. simpl. rewrite orb_false_r.
      destruct (Nat.eqb y (snd x)); simpl; [rewrite orb_true_r | rewrite orb_false_r]; reflexivity.
Qed.
Lemma add_new_In : forall xs acc p, In p (add_new acc xs) -> In p acc \/ In p xs.
Proof.
  unfold add_new. induction xs as [|x r IH]; intros acc p H; simpl in *; [auto|].
  destruct (inh_has acc (snd x)).
  - destruct (IH _ _ H); auto.
  - destruct (IH _ _ H) as [H1|H1]; [|auto]. apply in_app_or in H1. destruct H1 as [H1|[H1|[]]]; auto.
Qed.
Definition inh_of (hp : list cobj) (d : nat * nat) : list (nat * nat) :=
  match nth_error hp (fst d) with Some sc => co_inherit sc | None => [] end.
Lemma phase2_names : forall hp ds acc,
  map snd (phase2 hp ds acc) = map snd acc ++ kf (map snd acc) (concat (map (fun d => map snd (inh_of hp d)) ds)).
Proof.
  unfold phase2. induction ds as [|d r IH]; intros acc; simpl.
  - rewrite app_nil_r. reflexivity.
  - rewrite IH. unfold inh_of at 2. destruct (nth_error hp (fst d)) as [sc|]; simpl.
    + rewrite add_new_names. rewrite <- app_assoc. f_equal. rewrite kf_app. f_equal.
      apply kf_ext. intro y. rewrite !memb_app.
      destruct (memb y (map snd acc)) eqn:E1; simpl; [rewrite orb_true_r; reflexivity|].
      rewrite orb_false_r.
      destruct (memb y (kf (map snd acc) (map snd (co_inherit sc)))) eqn:E2.
      * apply memb_In in E2. apply kf_In in E2. symmetry. apply memb_In. tauto.
      * apply memb_false in E2. symmetry. apply memb_false. intro Hc. apply E2. apply kf_In.
        split; [assumption|]. apply memb_false. assumption.
    + reflexivity.
Qed.
Lemma phase2_In : forall hp ds acc p, In p (phase2 hp ds acc) -> In p acc \/ exists d, In d ds /\ In p (inh_of hp d).
Proof.
  unfold phase2. induction ds as [|d r IH]; intros acc p H; simpl in *; [auto|].
  destruct (IH _ _ H) as [H1|[d' [H1 H2]]].
  - destruct (nth_error hp (fst d)) as [sc|] eqn:E; [|auto].
    destruct (add_new_In _ _ _ H1); [auto|]. right. exists d. split; [auto|]. unfold inh_of. rewrite E. assumption.
  - right. exists d'. auto.
Qed.

(* ---- the merged object is good ------------------------------------------------------------ *)
Lemma mk_initargs_ext : forall hp hp' own inh, (forall p, In p inh -> slots_of hp p = slots_of hp' p) ->
  mk_initargs hp own inh = mk_initargs hp' own inh /\ mk_initforms hp own inh = mk_initforms hp' own inh.
Proof.
  intros. unfold mk_initargs, mk_initforms, all_slots. rewrite (map_ext_in _ _ _ H). split; reflexivity.
Qed.

Lemma lin_common_fuel : forall T (g : nat -> list nat) supers,
  (forall s, In s supers -> exists f, lin T f s = Some (g s)) -> exists F, forall s, In s supers -> lin T F s = Some (g s).
Proof.
  induction supers as [|s r IH]; intros H.
  - exists 0. intros s [].
  - destruct IH as [F1 HF1]; [intros; apply H; right; assumption|].
    destruct (H s (or_introl eq_refl)) as [f Hf].
    exists (Nat.max f F1). intros s' [->|Hs'].
    + apply (lin_le T f); [lia | assumption].
    + apply (lin_le T F1); [lia | auto].
Qed.

Definition names_in (rg : list (nat * nat)) (hp : list cobj) (s : nat) : list nat :=
  match lookup rg s with
  | Some sid => match nth_error hp sid with Some sc => map snd (co_inherit sc) | None => [] end
  | None => []
  end.

Lemma build_good : forall W n supers slots rg hp,
  NoDup supers ->
  table W n = Some supers ->
  (forall s, In s supers -> exists sid sc, lookup rg s = Some sid /\ nth_error hp sid = Some sc /\
                                           lookup (reg W) s = Some sid /\ good W s sc) ->
  (forall i m, lookup (reg W) m = Some i -> slots_of hp (i, m) = slots_of (heap W) (i, m)) ->
  exists ds, phase1 rg hp supers [] = Some ds /\
    good W n (mkCO n supers slots (phase2 hp ds ds) (mk_prec n (phase2 hp ds ds))
                   (mk_initargs hp slots (phase2 hp ds ds)) (mk_initforms hp slots (phase2 hp ds ds))).
Proof.
  intros W n supers slots rg hp Hnd HT Hsup Hslots.
  destruct (phase1_ok rg hp supers []) as [ds [Hp1 [Hds Hcur]]].
  - intros s Hs. destruct (Hsup s Hs) as [sid [sc [H1 [H2 [H3 H4]]]]]. exists sid, sc.
    split; [assumption|]. split; [assumption|]. eapply good_ready; eassumption.
  - assumption.
  - intros; reflexivity.
  - simpl in Hp1. exists ds. split; [assumption|].
    set (inh := phase2 hp ds ds).
    (* the per-super lists *)
    assert (Hmapg : map (fun d => map snd (inh_of hp d)) ds = map (names_in rg hp) supers).
    { rewrite <- Hds. rewrite map_map. apply map_ext_in. intros [i m] Hd. simpl.
      unfold names_in, inh_of. simpl. rewrite (Hcur i m Hd). destruct (nth_error hp i); reflexivity. }
    assert (Hnames : map snd inh = dedup (supers ++ concat (map (names_in rg hp) supers))).
    { unfold inh. rewrite phase2_names. rewrite Hds, Hmapg. unfold dedup. rewrite kf_app.
      rewrite (kf_nodup_id supers []); [|assumption | intros x _ []]. rewrite app_nil_r. reflexivity. }
    assert (Hcurrent : forall i m, In (i, m) inh -> lookup (reg W) m = Some i).
    { intros i m Hi. unfold inh in Hi. apply phase2_In in Hi. destruct Hi as [Hi|[d [Hd Hi]]].
      - pose proof (Hcur i m Hi) as Hl. assert (In m supers) as Hm by (rewrite <- Hds; apply in_map_iff; exists (i, m); auto).
        destruct (Hsup m Hm) as [sid [sc [H1 [H2 [H3 H4]]]]]. congruence.
      - destruct d as [di dm]. pose proof (Hcur di dm Hd) as Hl.
        assert (In dm supers) as Hm by (rewrite <- Hds; apply in_map_iff; exists (di, dm); auto).
        destruct (Hsup dm Hm) as [sid [sc [H1 [H2 [H3 H4]]]]].
        unfold inh_of in Hi. simpl in Hi. assert (di = sid) by congruence. subst di. rewrite H2 in Hi.
        destruct H4 as [_ [H4 _]]. apply H4. assumption. }
    split; [|split; [|split; [|split]]]; simpl.
    + (* lin *)
      destruct (lin_common_fuel (table W) (names_in rg hp) supers) as [F HF].
      { intros s Hs. destruct (Hsup s Hs) as [sid [sc [H1 [H2 [H3 [[f Hf] _]]]]]]. exists f.
        unfold names_in. rewrite H1, H2. assumption. }
      exists (S F). rewrite lin_S. rewrite HT.
      rewrite (all_some_map_eq _ _ (lin (table W) F) (names_in rg hp) supers HF). fold inh. rewrite Hnames. reflexivity.
    + exact Hcurrent.
    + reflexivity.
    + apply mk_initargs_ext. intros [i m] Hp. apply Hslots. apply Hcurrent. assumption.
    + apply mk_initargs_ext. intros [i m] Hp. apply Hslots. apply Hcurrent. assumption.
Qed.

(* good is stable under changes that keep the classes it mentions *)
Lemma good_transfer : forall w w' n c, good w n c ->
  (forall m, m = n \/ In m (map snd (co_inherit c)) -> table w' m = table w m) ->
  (forall i m, In (i, m) (co_inherit c) -> lookup (reg w') m = Some i) ->
  (forall p, In p (co_inherit c) -> slots_of (heap w') p = slots_of (heap w) p) ->
  good w' n c.
Proof.
  intros w w' n c [[f Hf] [Hc [Hp [Ha Hfm]]]] HT Hreg Hsl.
  split; [|split; [|split; [|split]]].
  - exists f. eapply lin_ext; eassumption.
  - assumption.
  - assumption.
  - rewrite Ha. symmetry. apply mk_initargs_ext. assumption.
  - rewrite Hfm. symmetry. apply mk_initargs_ext. assumption.
Qed.

(* ---- mergeSupers as a state change ---------------------------------------------------------- *)
Definition static_eq (c c' : cobj) : Prop :=
  co_name c' = co_name c /\ co_supers c' = co_supers c /\ co_slots c' = co_slots c.
(* w' differs from w only in derived fields of class objects *)
Definition ext (w w' : world) : Prop :=
  reg w' = reg w /\ gfs w' = gfs w /\ insts w' = insts w /\ length (heap w') = length (heap w) /\
  (forall j c, get w j = Some c -> exists c', get w' j = Some c' /\ static_eq c c').
(* ready classes stay ready *)
Definition rmono (w w' : world) : Prop := forall j, readyb w j = true -> readyb w' j = true.
Lemma ext_refl : forall w, ext w w.
Proof. intros w. repeat split; auto. intros j c H. exists c. repeat split; auto. Qed.
Lemma ext_trans : forall a b c, ext a b -> ext b c -> ext a c.
Proof.
  intros a b c [R1 [G1 [I1 [L1 H1]]]] [R2 [G2 [I2 [L2 H2]]]]. repeat split; try congruence.
  intros j x Hx. destruct (H1 j x Hx) as [y [Hy [S1 [S2 S3]]]].
  destruct (H2 j y Hy) as [z [Hz [T1 [T2 T3]]]].
  exists z. repeat split; try congruence.
Qed.
Lemma rmono_refl : forall w, rmono w w.
Proof. intros w j H. exact H. Qed.
Lemma rmono_trans : forall a b c, rmono a b -> rmono b c -> rmono a c.
Proof. intros a b c H1 H2 j H. apply H2. apply H1. exact H. Qed.
Lemma ext_get_none : forall w w' j, ext w w' -> get w j = None -> get w' j = None.
Proof.
  intros w w' j [_ [_ [_ [L _]]]] H. unfold get in *. apply nth_error_None in H. apply nth_error_None. lia.
Qed.
Lemma ext_table : forall w w', ext w w' -> forall m, table w' m = table w m.
Proof.
  intros w w' E m. pose proof E as [R [_ [_ [_ H]]]]. unfold table. rewrite R.
  destruct (lookup (reg w) m) as [id|]; [|reflexivity].
  destruct (get w id) as [c|] eqn:G.
  - destruct (H id c G) as [c' [G' [_ [S _]]]]. rewrite G'. congruence.
  - rewrite (ext_get_none _ _ _ E G). reflexivity.
Qed.
Lemma ext_slots : forall w w', ext w w' -> forall p, slots_of (heap w') p = slots_of (heap w) p.
Proof.
  intros w w' E p. pose proof E as [_ [_ [_ [_ H]]]]. unfold slots_of.
  destruct (nth_error (heap w) (fst p)) as [c|] eqn:G.
  - destruct (H (fst p) c G) as [c' [G' [_ [_ S]]]]. unfold get in G'. rewrite G'. assumption.
  - pose proof (ext_get_none _ _ _ E G) as G'. unfold get in G'. rewrite G'. reflexivity.
Qed.
Lemma ext_good : forall w w' n c, ext w w' -> good w n c -> good w' n c.
Proof.
  intros w w' n c E Hg. apply (good_transfer w w' n c Hg).
  - intros. apply ext_table. assumption.
  - intros i m Hi. destruct E as [R _]. rewrite R. destruct Hg as [_ [Hc _]]. auto.
  - intros. apply ext_slots. assumption.
Qed.
Lemma ext_WF : forall w w', ext w w' -> WF w -> WF w'.
Proof.
  intros w w' E [N H]. pose proof E as [R [_ [_ [_ HE]]]]. split; [rewrite R; assumption|].
  intros n id Hl. rewrite R in Hl. destruct (H n id Hl) as [c [G [Hn Hd]]].
  destruct (HE id c G) as [c' [G' [S1 [S2 _]]]]. exists c'. split; [assumption|]. split; congruence.
Qed.

Lemma with_heap_same : forall w, with_heap w (heap w) = w.
Proof. intros []. reflexivity. Qed.

Lemma merge_ext : forall w id w' b, merge w id = (w', b) ->
  ext w w' /\ (forall j, j <> id -> get w' j = get w j).
Proof.
  intros w id w' b H. unfold merge in H. destruct (get w id) as [c|] eqn:G.
  - assert (Hlt : id < length (heap w)) by (eapply nth_error_Some_lt; exact G).
    destruct (phase1 (reg w) (heap w) (co_supers c) []) as [ds|]; inversion H; subst; clear H.
    + split.
      * repeat split; simpl; auto using set_nth_length.
        intros j x Hx. unfold get; simpl. destruct (Nat.eq_dec j id) as [->|Hne].
        -- rewrite nth_set_same by assumption. rewrite G in Hx. inversion Hx; subst x.
           eexists. split; [reflexivity|]. repeat split.
        -- rewrite nth_set_other by auto. exists x. repeat split; auto.
      * intros j Hne. unfold get; simpl. apply nth_set_other. auto.
    + split.
      * repeat split; simpl; auto using set_nth_length.
        intros j x Hx. unfold get; simpl. destruct (Nat.eq_dec j id) as [->|Hne].
        -- rewrite nth_set_same by assumption. rewrite G in Hx. inversion Hx; subst x.
           eexists. split; [reflexivity|]. repeat split.
        -- rewrite nth_set_other by auto. exists x. repeat split; auto.
      * intros j Hne. unfold get; simpl. apply nth_set_other. auto.
  - inversion H; subst. split; [apply ext_refl | auto].
Qed.
(* a merge of a class that is not ready, or a merge that succeeds, leaves every ready class ready *)
Lemma merge_rmono : forall w id w' b, merge w id = (w', b) -> (b = true \/ readyb w id = false) -> rmono w w'.
Proof.
  intros w id w' b M Hc j Hj. destruct (merge_ext _ _ _ _ M) as [_ Hother].
  destruct (Nat.eq_dec j id) as [->|Hne]; [|unfold readyb; rewrite (Hother j Hne); exact Hj].
  destruct Hc as [->|Hc]; [|congruence].
  unfold merge in M. destruct (get w id) as [c|] eqn:G; [|inversion M].
  assert (Hlt : id < length (heap w)) by (eapply nth_error_Some_lt; exact G).
  destruct (phase1 (reg w) (heap w) (co_supers c) []) as [ds|]; inversion M; subst.
  apply readyb_true. eexists. split; [unfold get; simpl; apply nth_set_same; assumption|]. simpl. apply mk_prec_nonnil.
Qed.

(* merging a registered class all of whose direct supers are good makes it good *)
Lemma merge_good : forall w n id c, WF w -> registered w n id c ->
  (forall s, In s (co_supers c) -> exists sid sc, registered w s sid sc /\ good w s sc) ->
  exists w' c', merge w id = (w', true) /\ get w' id = Some c' /\ good w' n c'.
Proof.
  intros w n id c HWF [Hl Hg] Hsup.
  destruct HWF as [HN HW]. destruct (HW n id Hl) as [c0 [G0 [Hname Hnd]]]. rewrite Hg in G0. inversion G0; subst c0. subst n.
  destruct (merge w id) as [w' b] eqn:M. pose proof (merge_ext _ _ _ _ M) as [E Hother].
  assert (Hlt : id < length (heap w)) by (eapply nth_error_Some_lt; exact Hg).
  destruct (build_good w' (co_name c) (co_supers c) (co_slots c) (reg w) (heap w)) as [ds [Hp1 Hgood]].
  - assumption.
  - rewrite (ext_table _ _ E). unfold table. rewrite Hl, Hg. reflexivity.
  - intros s Hs. destruct (Hsup s Hs) as [sid [sc [[R1 R2] Hgs]]]. exists sid, sc.
    split; [assumption|]. split; [exact R2|]. split.
    + destruct E as [R _]. rewrite R. assumption.
    + apply (ext_good _ _ _ _ E). assumption.
  - intros i m _. symmetry. apply (ext_slots _ _ E).
  - unfold merge in M. rewrite Hg, Hp1 in M. inversion M; subst w' b. clear M.
    eexists. eexists. split; [reflexivity|]. split.
    + unfold get. simpl. apply nth_set_same. assumption.
    + exact Hgood.
Qed.

Definition blanked (c : cobj) : cobj := mkCO (co_name c) (co_supers c) (co_slots c) [] [] (co_initargs c) (co_initforms c).
Lemma blank_eta : forall c, blank c -> blanked c = c.
Proof. intros [] [H1 H2]. unfold blanked. simpl in *. subst. reflexivity. Qed.
Lemma blanked_blank : forall c, blank (blanked c).
Proof. intros c. split; reflexivity. Qed.
(* a failing merge of a class that is blank already changes nothing *)
Lemma merge_fail_noop : forall w id c, get w id = Some c -> blank c ->
  phase1 (reg w) (heap w) (co_supers c) [] = None -> merge w id = (w, false).
Proof.
  intros w id c G B P. unfold merge. rewrite G, P. fold (blanked c). rewrite (blank_eta c B).
  rewrite set_nth_same by exact G. rewrite with_heap_same. reflexivity.
Qed.
(* a failing merge blanks the class *)
Lemma merge_fail_blank : forall w id c, get w id = Some c ->
  phase1 (reg w) (heap w) (co_supers c) [] = None ->
  exists w', merge w id = (w', false) /\ get w' id = Some (blanked c).
Proof.
  intros w id c G P. unfold merge. rewrite G, P. eexists. split; [reflexivity|].
  unfold get. simpl. apply nth_set_same. eapply nth_error_Some_lt. exact G.
Qed.
Lemma merge_true_phase1 : forall w id w', merge w id = (w', true) ->
  exists c ds, get w id = Some c /\ phase1 (reg w) (heap w) (co_supers c) [] = Some ds.
Proof.
  intros w id w' H. unfold merge in H. destruct (get w id) as [c|]; [|inversion H].
  destruct (phase1 (reg w) (heap w) (co_supers c) []) as [ds|] eqn:P; inversion H. eauto.
Qed.
Lemma merge_false_phase1 : forall w id w' c, merge w id = (w', false) -> get w id = Some c ->
  phase1 (reg w) (heap w) (co_supers c) [] = None.
Proof.
  intros w id w' c H G. unfold merge in H. rewrite G in H.
  destruct (phase1 (reg w) (heap w) (co_supers c) []); [inversion H | reflexivity].
Qed.
Lemma merge_true_ready : forall w id w', merge w id = (w', true) -> readyb w' id = true.
Proof.
  intros w id w' H. pose proof H as H0. unfold merge in H. destruct (get w id) as [c|] eqn:G; [|inversion H].
  assert (Hlt : id < length (heap w)) by (eapply nth_error_Some_lt; exact G).
  destruct (phase1 (reg w) (heap w) (co_supers c) []) as [ds|]; inversion H; subst.
  apply readyb_true. eexists. split; [unfold get; simpl; apply nth_set_same; assumption|]. simpl. apply mk_prec_nonnil.
Qed.

(* ---- consequences of the invariant ----------------------------------------------------------- *)
Lemma registered_table : forall w n id c, registered w n id c -> table w n = Some (co_supers c).
Proof. intros w n id c [H1 H2]. unfold table. rewrite H1, H2. reflexivity. Qed.
Lemma table_registered : forall w n supers, WF w -> table w n = Some supers ->
  exists id c, registered w n id c /\ co_supers c = supers.
Proof.
  intros w n supers [_ HW] H. unfold table in H. destruct (lookup (reg w) n) as [id|] eqn:L; [|discriminate].
  destruct (get w id) as [c|] eqn:G; [|discriminate]. inversion H. exists id, c. split; [split; assumption | reflexivity].
Qed.
Lemma supers_ready_true : forall w supers, supers_ready w supers = true <->
  forall s, In s supers -> exists sid, lookup (reg w) s = Some sid /\ readyb w sid = true.
Proof.
  intros w supers. unfold supers_ready. rewrite forallb_forall. split.
  - intros H s Hs. specialize (H s Hs). destruct (lookup (reg w) s) as [sid|]; [eauto | discriminate].
  - intros H s Hs. destruct (H s Hs) as [sid [H1 H2]]. rewrite H1. assumption.
Qed.

(* a registered class that is not ready has no linearisation: something below it is missing *)
Lemma blank_no_lin : forall w, Inv w -> forall f n id c, registered w n id c -> co_prec c = [] -> lin (table w) f n = None.
Proof.
  intros w [[HWF HJ] HF]. induction f as [|f IH]; intros n id c Hr Hb; [reflexivity|].
  destruct (lin (table w) (S f) n) as [l|] eqn:E; [|reflexivity]. exfalso.
  pose proof (registered_table _ _ _ _ Hr) as HT.
  destruct (lin_supers _ _ _ _ _ E HT) as [_ Hsup].
  assert (supers_ready w (co_supers c) = true) as Hsr.
  { apply supers_ready_true. intros s Hs. destruct (Hsup s Hs) as [ls [Hls _]].
    destruct f as [|f0]; [discriminate|].
    destruct (lin_inv _ _ _ _ Hls) as [sup [_ [HTs _]]].
    destruct (table_registered _ _ _ HWF HTs) as [sid [sc [Hrs _]]].
    exists sid. split; [apply Hrs|]. apply readyb_true. exists sc. split; [apply Hrs|].
    intro Hbs. rewrite (IH s sid sc Hrs Hbs) in Hls. discriminate. }
  rewrite (HF n id c Hr Hb) in Hsr. discriminate.
Qed.
Lemma good_supers_good : forall w n id c, Inv w -> registered w n id c -> good w n c ->
  forall s, In s (co_supers c) -> exists sid sc, registered w s sid sc /\ good w s sc.
Proof.
  intros w n id c HI Hr [[f Hf] _] s Hs. pose proof HI as [[HWF HJ] HF].
  destruct f as [|f]; [discriminate|].
  destruct (lin_supers _ _ _ _ _ Hf (registered_table _ _ _ _ Hr)) as [_ Hsup].
  destruct (Hsup s Hs) as [ls [Hls _]].
  destruct f as [|f0]; [discriminate|].
  destruct (lin_inv _ _ _ _ Hls) as [sup [_ [HTs _]]].
  destruct (table_registered _ _ _ HWF HTs) as [sid [sc [Hrs _]]].
  exists sid, sc. split; [assumption|].
  destruct (HJ s sid sc Hrs) as [_ H]. destruct (H (fun x => x)) as [Hg|[Hb _]]; [assumption|].
  rewrite (blank_no_lin w HI _ s sid sc Hrs Hb) in Hls. discriminate.
Qed.

(* ---- makeClassesReady when nothing waits for classChanged ------------------------------------- *)
Definition all_registered (w : world) (l : list nat) : Prop :=
  forall id, In id l -> exists n c, registered w n id c.
Lemma ext_registered : forall w w' l, ext w w' -> all_registered w l -> all_registered w' l.
Proof.
  intros w w' l E H id Hi. destruct (H id Hi) as [n [c [H1 H2]]]. pose proof E as [R [_ [_ [_ HE]]]].
  destruct (HE id c H2) as [c' [G' _]]. exists n, c'. split; [rewrite R; assumption | assumption].
Qed.
Lemma registered_name_unique : forall w n m id c c', WF w -> registered w n id c -> registered w m id c' -> n = m /\ c = c'.
Proof.
  intros w n m id c c' [_ HW] [L1 G1] [L2 G2]. rewrite G1 in G2. inversion G2; subst c'.
  destruct (HW n id L1) as [x [Gx [Hx _]]]. destruct (HW m id L2) as [y [Gy [Hy _]]]. split; [congruence | reflexivity].
Qed.

(* one attempted merge of a registered class keeps "every class is good or blank" *)
Lemma JX_merge_blank : forall w id n c, JX NoX w -> registered w n id c -> co_prec c = [] ->
  forall w' b, merge w id = (w', b) -> JX NoX w' /\ ext w w' /\ rmono w w' /\ (b = false -> w' = w).
Proof.
  intros w id n c [HWF HJ] Hr Hb w' b M.
  pose proof (merge_ext _ _ _ _ M) as [E Hother].
  assert (rmono w w') as HM.
  { apply (merge_rmono _ _ _ _ M). right. unfold readyb. rewrite (proj2 Hr), Hb. reflexivity. }
  destruct (HJ n id c Hr) as [_ Hgb]. destruct (Hgb (fun x => x)) as [Hg|Hinh]; [exfalso; exact (good_ready _ _ _ Hg Hb)|].
  destruct b.
  - (* success: all supers were ready, hence good *)
    destruct (merge_true_phase1 _ _ _ M) as [c0 [ds [G0 P]]]. destruct Hr as [Hl Hg]. rewrite Hg in G0. inversion G0; subst c0.
    assert (Hsup : forall s, In s (co_supers c) -> exists sid sc, registered w s sid sc /\ good w s sc).
    { intros s Hs. assert (forallb (ready_in (reg w) (heap w)) (co_supers c) = true) as Hall.
      { destruct (forallb (ready_in (reg w) (heap w)) (co_supers c)) eqn:EE; [reflexivity|].
        apply phase1_none_iff with (acc := []) in EE. congruence. }
      rewrite forallb_forall in Hall. specialize (Hall s Hs). unfold ready_in in Hall.
      destruct (lookup (reg w) s) as [sid|] eqn:Ls; [|discriminate].
      destruct (nth_error (heap w) sid) as [sc|] eqn:Gs; [|discriminate].
      exists sid, sc. split; [split; assumption|].
      destruct (HJ s sid sc (conj Ls Gs)) as [_ H]. destruct (H (fun x => x)) as [Hgs|[Hbs _]]; [assumption|].
      rewrite Hbs in Hall. discriminate. }
    destruct (merge_good w n id c HWF (conj Hl Hg) Hsup) as [w2 [c2 [M2 [G2 Hg2]]]].
    rewrite M in M2. inversion M2; subst w2.
    split; [|split; [assumption | split; [assumption | discriminate]]].
    split; [eapply ext_WF; eassumption|].
    intros m j cm [Lm Gm]. split; [intros []|]. intros _.
    destruct (Nat.eq_dec j id) as [->|Hne].
    + rewrite G2 in Gm. inversion Gm; subst cm.
      assert (m = n). { destruct E as [R _]. rewrite R in Lm. destruct HWF as [_ HW].
        destruct (HW m id Lm) as [x [Gx [Hx _]]]. destruct (HW n id Hl) as [y [Gy [Hy _]]]. congruence. }
      subst m. left. assumption.
    + rewrite (Hother j Hne) in Gm. destruct E as [R E']. rewrite R in Lm.
      destruct (HJ m j cm (conj Lm Gm)) as [_ H]. destruct (H (fun x => x)) as [Hgm|Hbm].
      * left. apply (ext_good w); [exact (conj R E') | assumption].
      * right. assumption.
  - (* failure: nothing changes *)
    destruct Hr as [Hl Hg]. pose proof (merge_false_phase1 _ _ _ _ M Hg) as P.
    rewrite (merge_fail_noop w id c Hg Hinh P) in M. inversion M; subst w'.
    split; [split; assumption|]. split; [apply ext_refl|]. split; [apply rmono_refl | reflexivity].
Qed.

Lemma ready_pass_A : forall l w w' ch, JX NoX w -> all_registered w l -> ready_pass w l = (w', ch) ->
  JX NoX w' /\ ext w w' /\ rmono w w' /\ (ch = false -> w' = w) /\
  (ch = true -> exists id, In id l /\ readyb w id = false /\ readyb w' id = true).
Proof.
  induction l as [|id r IH]; intros w w' ch HJ Hreg H; simpl in H.
  - inversion H; subst. split; [assumption|]. split; [apply ext_refl|]. split; [apply rmono_refl|]. split; [reflexivity | discriminate].
  - destruct (readyb w id) eqn:R.
    + destruct (IH w w' ch HJ) as [A [B [B' [C D]]]]; [intros x Hx; apply Hreg; right; assumption | assumption|].
      split; [assumption|]. split; [assumption|]. split; [assumption|]. split; [assumption|].
      intros Hc. destruct (D Hc) as [x [X1 X2]]. exists x. split; [right; assumption | assumption].
    + destruct (merge w id) as [w1 ok] eqn:M. destruct (ready_pass w1 r) as [w2 ch2] eqn:P. inversion H; subst w' ch. clear H.
      destruct (Hreg id (or_introl eq_refl)) as [n [c Hr]].
      assert (co_prec c = []) as Hb.
      { destruct (co_prec c) eqn:Ec; [reflexivity|]. exfalso.
        assert (readyb w id = true) by (apply readyb_true; exists c; split; [apply Hr | congruence]). congruence. }
      destruct (JX_merge_blank w id n c HJ Hr Hb w1 ok M) as [HJ1 [E1 [M1 N1]]].
      destruct (IH w1 w2 ch2 HJ1) as [A [B [B' [C D]]]]; [eapply ext_registered; [exact E1|]; intros x Hx; apply Hreg; right; assumption | assumption|].
      split; [assumption|]. split; [eapply ext_trans; eassumption|]. split; [eapply rmono_trans; eassumption|]. split.
      * intros Hc. apply orb_false_iff in Hc. destruct Hc as [Hc1 Hc2]. rewrite (C Hc2). apply N1. assumption.
      * intros Hc. destruct ok.
        -- exists id. split; [left; reflexivity|]. split; [assumption|].
           apply B'. eapply merge_true_ready; eassumption.
        -- simpl in Hc. destruct (D Hc) as [x [X1 [X2 X3]]]. exists x. split; [right; assumption|]. split; [|assumption].
           rewrite (N1 eq_refl) in X2. assumption.
Qed.

(* number of not-ready members of l: the measure of makeClassesReady *)
Definition nr (w : world) (l : list nat) : nat := length (filter (fun id => negb (readyb w id)) l).
Lemma nr_le : forall l w w', (forall j, readyb w j = true -> readyb w' j = true) -> nr w' l <= nr w l.
Proof.
  unfold nr. induction l as [|x r IH]; intros w w' H; simpl; [lia|].
  specialize (IH w w' H). destruct (readyb w x) eqn:E.
  - rewrite (H x E). simpl. assumption.
  - simpl. destruct (readyb w' x); simpl; lia.
Qed.
Lemma nr_lt : forall l w w', (forall j, readyb w j = true -> readyb w' j = true) ->
  (exists id, In id l /\ readyb w id = false /\ readyb w' id = true) -> nr w' l < nr w l.
Proof.
  induction l as [|x r IH]; intros w w' H [id [Hi [H1 H2]]]; [contradiction|].
  pose proof (nr_le r w w' H) as Hle. unfold nr in *. simpl.
  destruct Hi as [->|Hi].
  - rewrite H1, H2. simpl. lia.
  - assert (length (filter (fun id0 => negb (readyb w' id0)) r) < length (filter (fun id0 => negb (readyb w id0)) r)) as Hlt
      by (apply IH; [assumption | exists id; auto]).
    destruct (readyb w x) eqn:E.
    + rewrite (H x E). simpl. assumption.
    + simpl. destruct (readyb w' x); simpl; lia.
Qed.

Lemma ready_loop_A : forall l fuel w, JX NoX w -> all_registered w l -> nr w l < fuel ->
  JX NoX (ready_loop fuel w l) /\ ext w (ready_loop fuel w l) /\ rmono w (ready_loop fuel w l) /\
  ready_pass (ready_loop fuel w l) l = (ready_loop fuel w l, false).
Proof.
  intros l. induction fuel as [|f IH]; intros w HJ Hreg Hn; [lia|]. simpl.
  destruct (ready_pass w l) as [w1 ch] eqn:P.
  destruct (ready_pass_A l w w1 ch HJ Hreg P) as [HJ1 [E1 [M1 [C D]]]].
  destruct ch.
  - destruct (D eq_refl) as [id Hid].
    assert (nr w1 l < nr w l) by (apply nr_lt; [exact M1 | exists id; assumption]).
    destruct (IH w1 HJ1) as [A [B [B' Cc]]]; [eapply ext_registered; eassumption | lia|].
    split; [assumption|]. split; [eapply ext_trans; eassumption|]. split; [eapply rmono_trans; eassumption | assumption].
  - rewrite (C eq_refl) in *. split; [assumption|]. split; [apply ext_refl|]. split; [apply rmono_refl | assumption].
Qed.

(* a pass that changes nothing shows that every not-ready member lacks a ready super *)
Lemma pass_false_F : forall l w, JX NoX w -> all_registered w l -> ready_pass w l = (w, false) ->
  forall id, In id l -> readyb w id = false -> forall n c, registered w n id c -> supers_ready w (co_supers c) = false.
Proof.
  induction l as [|x r IH]; intros w HJ Hreg P id Hi Hr n c Hc; [contradiction|].
  simpl in P. destruct (readyb w x) eqn:R.
  - destruct Hi as [->|Hi]; [congruence|]. exact (IH w HJ (fun y Hy => Hreg y (or_intror Hy)) P id Hi Hr n c Hc).
  - destruct (merge w x) as [w1 ok] eqn:M. destruct (ready_pass w1 r) as [w2 ch2] eqn:P2. inversion P; subst w2.
    match goal with H : _ || _ = false |- _ => apply orb_false_iff in H; destruct H as [-> ->] end.
    destruct (Hreg x (or_introl eq_refl)) as [nx [cx Hx]].
    assert (co_prec cx = []) as Hb.
    { destruct (co_prec cx) eqn:Ec; [reflexivity|]. exfalso.
      assert (readyb w x = true) by (apply readyb_true; exists cx; split; [apply Hx | congruence]). congruence. }
    destruct (JX_merge_blank w x nx cx HJ Hx Hb w1 false M) as [_ [_ [_ N1]]]. specialize (N1 eq_refl). subst w1.
    destruct Hi as [->|Hi].
    + destruct (registered_name_unique w n nx id c cx (proj1 HJ) Hc Hx) as [-> ->].
      pose proof (merge_false_phase1 _ _ _ _ M (proj2 Hx)) as Ph.
      rewrite supers_ready_forallb. apply (phase1_none_iff _ _ _ []). assumption.
    + exact (IH w HJ (fun y Hy => Hreg y (or_intror Hy)) P2 id Hi Hr n c Hc).
Qed.

Lemma reg_ids_registered : forall w id, WF w -> In id (reg_ids w) -> exists n c, registered w n id c.
Proof.
  intros w id [HN HW] Hi. unfold reg_ids in Hi. apply in_map_iff in Hi. destruct Hi as [[n j] [Hj Hin]]. simpl in Hj. subst j.
  pose proof (In_lookup_nodup _ _ _ _ HN Hin) as Hl. destruct (HW n id Hl) as [c [G _]]. exists n, c. split; assumption.
Qed.
Lemma registered_reg_ids : forall w n id c, registered w n id c -> In id (reg_ids w).
Proof.
  intros w n id c [Hl _]. unfold reg_ids. apply in_map_iff. exists (n, id). split; [reflexivity | apply lookup_In; assumption].
Qed.

Lemma make_ready_A : forall w rorder, JX NoX w ->
  (forall id, In id (reg_ids w) -> In id rorder) -> (forall id, In id rorder -> In id (reg_ids w)) ->
  Inv (make_ready w rorder) /\ ext w (make_ready w rorder).
Proof.
  intros w rorder HJ Hall Hsub. unfold make_ready.
  set (l := filter (fun id => negb (readyb w id)) rorder).
  assert (all_registered w l) as Hreg.
  { intros id Hi. apply filter_In in Hi. destruct Hi as [Hi _]. apply reg_ids_registered; [apply HJ | auto]. }
  destruct (ready_loop_A l (S (length l)) w HJ Hreg) as [HJ' [E [HM P]]].
  { unfold nr. pose proof (filter_len_le _ (fun id => negb (readyb w id)) l). lia. }
  set (w' := ready_loop (S (length l)) w l) in *.
  split; [|assumption]. split; [assumption|].
  intros n id c Hr Hb.
  assert (readyb w' id = false) as Hnr.
  { destruct (readyb w' id) eqn:R; [|reflexivity]. apply readyb_true in R. destruct R as [c' [G P']].
    destruct Hr as [_ G2]. rewrite G in G2. inversion G2; subst. congruence. }
  apply (pass_false_F l w' HJ' (ext_registered _ _ _ E Hreg) P id) with (n := n); [|assumption|assumption].
  unfold l. apply filter_In. split.
  - apply Hall. pose proof (registered_reg_ids _ _ _ _ Hr) as Hi. unfold reg_ids in *. destruct E as [R _]. rewrite R in Hi. assumption.
  - destruct (readyb w id) eqn:R; [|reflexivity]. rewrite (HM id R) in Hnr. discriminate.
Qed.

(* ---- classChanged when every class is already good --------------------------------------------- *)
Lemma merge_ready_same : forall w id w', merge w id = (w', true) -> readyb w id = true -> forall j, readyb w' j = readyb w j.
Proof.
  intros w id w' M R j. destruct (merge_ext _ _ _ _ M) as [E Hother].
  destruct (Nat.eq_dec j id) as [->|Hne].
  - rewrite R. eapply merge_true_ready; eassumption.
  - unfold readyb. rewrite (Hother j Hne). reflexivity.
Qed.
Lemma supers_ready_same : forall w w' supers, reg w' = reg w -> (forall j, readyb w' j = readyb w j) ->
  supers_ready w' supers = supers_ready w supers.
Proof.
  intros w w' supers R H. unfold supers_ready. rewrite R. induction supers as [|s r IH]; simpl; [reflexivity|].
  rewrite IH. destruct (lookup (reg w) s); [rewrite H|]; reflexivity.
Qed.

Lemma Inv_merge_good : forall w id n c, Inv w -> registered w n id c -> good w n c ->
  exists w', merge w id = (w', true) /\ Inv w' /\ ext w w'.
Proof.
  intros w id n c HI Hr Hg. pose proof HI as [[HWF HJ] HF].
  destruct (merge_good w n id c HWF Hr (good_supers_good w n id c HI Hr Hg)) as [w' [c' [M [G' Hg']]]].
  exists w'. split; [assumption|]. destruct (merge_ext _ _ _ _ M) as [E Hother]. split; [|assumption].
  assert (readyb w id = true) as Rid by (apply readyb_true; exists c; split; [apply Hr | eapply good_ready; eassumption]).
  pose proof (merge_ready_same _ _ _ M Rid) as Hsame.
  pose proof E as [R _].
  split; [split|].
  - eapply ext_WF; eassumption.
  - intros m j cm [Lm Gm]. split; [intros []|]. intros _. rewrite R in Lm.
    destruct (Nat.eq_dec j id) as [->|Hne].
    + rewrite G' in Gm. inversion Gm; subst cm.
      assert (m = n). { destruct HWF as [_ HW]. destruct (HW m id Lm) as [x [Gx [Hx _]]]. destruct (HW n id (proj1 Hr)) as [y [Gy [Hy _]]]. congruence. }
      subst m. left. assumption.
    + rewrite (Hother j Hne) in Gm. destruct (HJ m j cm (conj Lm Gm)) as [_ H].
      destruct (H (fun x => x)) as [Hgm|Hbm]; [left; eapply ext_good; eassumption | right; assumption].
  - intros m j cm [Lm Gm] Hb. rewrite R in Lm.
    assert (j <> id) as Hne. { intros ->. rewrite G' in Gm. inversion Gm; subst. exact (good_ready _ _ _ Hg' Hb). }
    rewrite (Hother j Hne) in Gm. rewrite (supers_ready_same w w' _ R Hsame). apply (HF m j cm); [split; assumption | assumption].
Qed.

Lemma fold_merge_good : forall l w, Inv w -> all_registered w l -> (forall id, In id l -> readyb w id = true) ->
  Inv (fold_left (fun w id => fst (merge w id)) l w) /\ ext w (fold_left (fun w id => fst (merge w id)) l w).
Proof.
  induction l as [|id r IH]; intros w HI Hreg Hrd; simpl.
  - split; [assumption | apply ext_refl].
  - destruct (Hreg id (or_introl eq_refl)) as [m [c Hr]].
    assert (good w m c) as Hg.
    { pose proof (Hrd id (or_introl eq_refl)) as R. apply readyb_true in R. destruct R as [c' [G' P']].
      destruct Hr as [L G]. rewrite G in G'. inversion G'; subst c'.
      destruct HI as [[_ HJ] _]. destruct (HJ m id c (conj L G)) as [_ H]. destruct (H (fun x => x)) as [Hg|[Hb _]]; [assumption | contradiction]. }
    assert (readyb w id = true) as Rid by (apply Hrd; left; reflexivity).
    destruct (Inv_merge_good w id m c HI Hr Hg) as [w' [M [HI' E]]]. rewrite M. simpl.
    pose proof (merge_ready_same _ _ _ M Rid) as Hsame.
    destruct (IH w' HI') as [A B].
    + eapply ext_registered; [exact E|]. intros x Hx. apply Hreg. right. assumption.
    + intros x Hx. rewrite Hsame. apply Hrd. right. assumption.
    + split; [assumption | eapply ext_trans; eassumption].
Qed.

Lemma stale_order_In : forall w n corder id, In id (stale_order w n corder) <-> In id corder /\ inherits w id n = true.
Proof. intros w n corder id. unfold stale_order. rewrite sort_by_In. apply (filter_In (fun id => inherits w id n)). Qed.

Lemma class_changed_A : forall n corder w, Inv w -> all_registered w corder ->
  Inv (class_changed w n corder) /\ ext w (class_changed w n corder).
Proof.
  intros n corder w HI Hreg. unfold class_changed. apply fold_merge_good; [assumption| |].
  - intros id Hi. apply stale_order_In in Hi. apply Hreg. apply Hi.
  - intros id Hi. apply stale_order_In in Hi. destruct Hi as [Hi Hinh].
    destruct (Hreg id Hi) as [m [c Hr]]. apply readyb_true. exists c. split; [apply Hr|].
    destruct HI as [[_ HJ] _]. destruct (HJ m id c Hr) as [_ H]. destruct (H (fun x => x)) as [Hg|[_ Hb]].
    + eapply good_ready; eassumption.
    + unfold inherits in Hinh. rewrite (proj2 Hr), Hb in Hinh. discriminate.
Qed.

(* ---- DefStandardClass up to RegisterClass ------------------------------------------------------- *)
Lemma add_method_frame : forall w k c, heap (add_method w k c) = heap w /\ reg (add_method w k c) = reg w /\ insts (add_method w k c) = insts w.
Proof. intros. unfold add_method. simpl. auto. Qed.
Lemma slot_methods_frame : forall w n sd, heap (slot_methods w n sd) = heap w /\ reg (slot_methods w n sd) = reg w /\ insts (slot_methods w n sd) = insts w.
Proof.
  intros. unfold slot_methods.
  destruct (sd_reader sd), (sd_writer sd), (sd_accessor sd); simpl; auto.
Qed.
Lemma fold_slot_methods_frame : forall slots w n,
  heap (fold_left (fun w sd => slot_methods w n sd) slots w) = heap w /\
  reg (fold_left (fun w sd => slot_methods w n sd) slots w) = reg w /\
  insts (fold_left (fun w sd => slot_methods w n sd) slots w) = insts w.
Proof.
  induction slots as [|sd r IH]; intros w n; simpl; [auto|].
  destruct (IH (slot_methods w n sd) n) as [A [B C]]. destruct (slot_methods_frame w n sd) as [A' [B' C']].
  repeat split; congruence.
Qed.
Lemma set_nth_app_last : forall A (l : list A) x y, set_nth (l ++ [x]) (length l) y = l ++ [y].
Proof. induction l; intros; simpl; [reflexivity | f_equal; auto]. Qed.
Lemma nth_error_app_last : forall A (l : list A) x, nth_error (l ++ [x]) (length l) = Some x.
Proof. induction l; intros; simpl; auto. Qed.

Definition new0 (n : nat) (supers : list nat) (slots : list slotdef) : cobj := mkCO n supers slots [] [] [] [].
Definition merged_obj (hp : list cobj) (n : nat) (supers : list nat) (slots : list slotdef) (ds : list (nat * nat)) : cobj :=
  mkCO n supers slots (phase2 hp ds ds) (mk_prec n (phase2 hp ds ds)) (mk_initargs hp slots (phase2 hp ds ds)) (mk_initforms hp slots (phase2 hp ds ds)).

Lemma defclass_reg_shape : forall w n supers slots,
  reg (defclass_reg w n supers slots) = set_assoc (reg w) n (length (heap w)) /\
  insts (defclass_reg w n supers slots) = insts w /\
  exists newc, heap (defclass_reg w n supers slots) = heap w ++ [newc] /\
    co_name newc = n /\ co_supers newc = supers /\ co_slots newc = slots /\
    match phase1 (reg w) (heap w ++ [new0 n supers slots]) supers [] with
    | None => newc = new0 n supers slots
    | Some ds => newc = merged_obj (heap w ++ [new0 n supers slots]) n supers slots ds
    end.
Proof.
  intros w n supers slots. unfold defclass_reg.
  destruct (fold_slot_methods_frame slots w n) as [Hh [Hr Hi]].
  set (w1 := fold_left (fun w sd => slot_methods w n sd) slots w) in *.
  fold (new0 n supers slots).
  unfold merge, get. simpl. rewrite Hh, Hr. rewrite nth_error_app_last. simpl.
  destruct (phase1 (reg w) (heap w ++ [new0 n supers slots]) supers []) as [ds|]; simpl; rewrite ?Hh, ?Hr, ?Hi.
  - rewrite set_nth_app_last. split; [reflexivity|]. split; [reflexivity|].
    eexists. split; [reflexivity|]. repeat split.
  - rewrite set_nth_app_last. split; [reflexivity|]. split; [reflexivity|].
    eexists. split; [reflexivity|]. repeat split.
Qed.

Section Reg.
  Variables (w : world) (n : nat) (supers : list nat) (slots : list slotdef).
  Let wr := defclass_reg w n supers slots.
  Let hp2 := heap w ++ [new0 n supers slots].
  Hypothesis HI : Inv w.
  Hypothesis Hnd : NoDup supers.

  Lemma old_id_lt : forall m j, lookup (reg w) m = Some j -> j < length (heap w).
  Proof.
    intros m j H. destruct HI as [[[_ HW] _] _]. destruct (HW m j H) as [c [G _]].
    eapply nth_error_Some_lt. exact G.
  Qed.
  Lemma reg_wr_other : forall m, m <> n -> lookup (reg wr) m = lookup (reg w) m.
  Proof.
    intros m Hne. destruct (defclass_reg_shape w n supers slots) as [R _]. fold wr in R. rewrite R.
    apply lookup_set_other. assumption.
  Qed.
  Lemma reg_wr_same : lookup (reg wr) n = Some (length (heap w)).
  Proof.
    destruct (defclass_reg_shape w n supers slots) as [R _]. fold wr in R. rewrite R. apply lookup_set_same.
  Qed.
  Lemma get_wr_old : forall j, j < length (heap w) -> get wr j = get w j.
  Proof.
    intros j Hj. destruct (defclass_reg_shape w n supers slots) as [_ [_ [newc [H _]]]]. fold wr in H.
    unfold get. rewrite H. apply nth_error_app1. assumption.
  Qed.
  Lemma registered_wr : forall m j c, registered wr m j c ->
    (m = n /\ j = length (heap w)) \/ (m <> n /\ registered w m j c).
  Proof.
    intros m j c [L G]. destruct (Nat.eq_dec m n) as [->|Hne].
    - left. rewrite reg_wr_same in L. inversion L. auto.
    - right. split; [assumption|]. rewrite (reg_wr_other m Hne) in L. split; [assumption|].
      rewrite <- (get_wr_old j (old_id_lt m j L)). assumption.
  Qed.
  Lemma table_wr_other : forall m, m <> n -> table wr m = table w m.
  Proof.
    intros m Hne. unfold table. rewrite (reg_wr_other m Hne).
    destruct (lookup (reg w) m) as [j|] eqn:L; [|reflexivity].
    rewrite (get_wr_old j (old_id_lt m j L)). reflexivity.
  Qed.
  Lemma slots_wr_old : forall i m, i < length (heap w) -> slots_of (heap wr) (i, m) = slots_of (heap w) (i, m).
  Proof.
    intros i m Hi. unfold slots_of. cbn [fst]. pose proof (get_wr_old i Hi) as H. unfold get in H. rewrite H. reflexivity.
  Qed.
  Lemma WF_wr : WF wr.
  Proof.
    destruct HI as [[[HN HW] _] _]. destruct (defclass_reg_shape w n supers slots) as [R [_ [newc [Hh [N1 [N2 N3]]]]]].
    fold wr in R, Hh. split.
    - rewrite R. apply set_assoc_nodup. assumption.
    - intros m j L. destruct (Nat.eq_dec m n) as [->|Hne].
      + rewrite reg_wr_same in L. inversion L; subst j. exists newc. unfold get. rewrite Hh.
        split; [apply nth_error_app_last|]. split; [assumption | rewrite N2; assumption].
      + rewrite (reg_wr_other m Hne) in L. destruct (HW m j L) as [c [G H]]. exists c.
        split; [|assumption]. rewrite (get_wr_old j (old_id_lt m j L)). assumption.
  Qed.
  (* an old good class that does not mention n is good in the new table *)
  Lemma good_old_wr : forall m j c, registered w m j c -> good w m c -> m <> n -> ~ In n (map snd (co_inherit c)) -> good wr m c.
  Proof.
    intros m j c Hr Hg Hne Hnot. apply (good_transfer w wr m c Hg).
    - intros m' [->|Hm']; apply table_wr_other; [assumption | intros ->; contradiction].
    - intros i m' Hi. destruct Hg as [_ [Hc _]]. rewrite reg_wr_other; [auto|].
      intros ->. apply Hnot. apply in_map_iff. exists (i, n). auto.
    - intros [i m'] Hp. apply slots_wr_old. destruct Hg as [_ [Hc _]]. eapply old_id_lt. apply Hc. exact Hp.
  Qed.
  Lemma slots_hp2_wr : forall p, slots_of hp2 p = slots_of (heap wr) p.
  Proof.
    intros p. destruct (defclass_reg_shape w n supers slots) as [_ [_ [newc [Hh [_ [_ [N3 _]]]]]]]. fold wr in Hh.
    unfold slots_of, hp2. rewrite Hh.
    destruct (Nat.lt_ge_cases (fst p) (length (heap w))) as [Hlt|Hge].
    - rewrite !nth_error_app1 by assumption. reflexivity.
    - destruct (Nat.eq_dec (fst p) (length (heap w))) as [->|Hne].
      + rewrite !nth_error_app_last. simpl. congruence.
      + assert (nth_error (heap w ++ [new0 n supers slots]) (fst p) = None) as ->
          by (apply nth_error_None; rewrite app_length; simpl; lia).
        assert (nth_error (heap w ++ [newc]) (fst p) = None) as ->
          by (apply nth_error_None; rewrite app_length; simpl; lia). reflexivity.
  Qed.

  (* what phase1 = Some says about the direct supers, in terms of the old world *)
  Lemma phase1_some_supers : forall ds, phase1 (reg w) hp2 supers [] = Some ds ->
    forall s, In s supers -> exists sid sc, registered w s sid sc /\ nth_error hp2 sid = Some sc /\ good w s sc.
  Proof.
    intros ds P s Hs.
    assert (forallb (ready_in (reg w) hp2) supers = true) as Hall.
    { destruct (forallb (ready_in (reg w) hp2) supers) eqn:EE; [reflexivity|].
      apply phase1_none_iff with (acc := []) in EE. congruence. }
    rewrite forallb_forall in Hall. specialize (Hall s Hs). unfold ready_in in Hall.
    destruct (lookup (reg w) s) as [sid|] eqn:Ls; [|discriminate].
    destruct (nth_error hp2 sid) as [sc|] eqn:Gs; [|discriminate].
    pose proof (old_id_lt s sid Ls) as Hlt. unfold hp2 in Gs. rewrite nth_error_app1 in Gs by assumption.
    exists sid, sc. split; [split; assumption|]. split; [unfold hp2; rewrite nth_error_app1 by assumption; assumption|].
    destruct HI as [[_ HJ] _]. destruct (HJ s sid sc (conj Ls Gs)) as [_ H].
    destruct (H (fun x => x)) as [Hg|[Hb _]]; [assumption|]. rewrite Hb in Hall. discriminate.
  Qed.

  (* the new object is good or blank provided its supers, read in the old world, stay good in the new *)
  Lemma new_obj_good_or_blank :
    (forall ds, phase1 (reg w) hp2 supers [] = Some ds -> forall s sid sc, In s supers -> registered w s sid sc -> good w s sc -> s <> n /\ good wr s sc) ->
    forall c, registered wr n (length (heap w)) c -> good wr n c \/ blank c.
  Proof.
    intros Hkeep c [L G].
    destruct (defclass_reg_shape w n supers slots) as [R [_ [newc [Hh [N1 [N2 [N3 Hcase]]]]]]]. fold wr in R, Hh. fold hp2 in Hcase.
    unfold get in G. rewrite Hh, nth_error_app_last in G. inversion G; subst c. clear G.
    destruct (phase1 (reg w) hp2 supers []) as [ds|] eqn:P.
    - left. subst newc.
      destruct (build_good wr n supers slots (reg w) hp2) as [ds' [P' Hg]].
      + assumption.
      + unfold table. rewrite reg_wr_same. unfold get. rewrite Hh, nth_error_app_last. reflexivity.
      + intros s Hs. destruct (phase1_some_supers ds P s Hs) as [sid [sc [Hr [Gs Hgs]]]].
        destruct (Hkeep ds eq_refl s sid sc Hs Hr Hgs) as [Hne Hgw].
        exists sid, sc. split; [apply Hr|]. split; [assumption|]. split; [rewrite reg_wr_other by assumption; apply Hr | assumption].
      + intros i m _. apply slots_hp2_wr.
      + rewrite P in P'. inversion P'; subst ds'. exact Hg.
    - right. subst newc. split; reflexivity.
  Qed.
End Reg.

(* case A: n is new, or its current definition is not ready: no ready class mentions n *)
Lemma caseA_not_mentioned : forall w n, Inv w -> (forall id c, registered w n id c -> co_prec c = []) ->
  forall m j c, registered w m j c -> good w m c -> m <> n /\ ~ In n (map snd (co_inherit c)).
Proof.
  intros w n HI HA m j c Hr Hg. split.
  - intros ->. exact (good_ready _ _ _ Hg (HA j c Hr)).
  - intros Hin. apply in_map_iff in Hin. destruct Hin as [[i x] [Hx Hin]]. simpl in Hx. subst x.
    pose proof Hg as [[f Hf] [Hc _]]. pose proof (Hc i n Hin) as Ln.
    pose proof HI as [[[HN HW] HJ] HF]. destruct (HW n i Ln) as [cn [Gn _]].
    assert (lin (table w) f n = None) as Hnone.
    { apply (blank_no_lin w) with (id := i) (c := cn); [exact HI | split; assumption | apply (HA i cn); split; assumption]. }
    destruct (lin_member_some _ _ _ _ n Hf) as [l' Hl'].
    + apply in_map_iff. exists (i, n). auto.
    + congruence.
Qed.

Lemma reg_A : forall w n supers slots, Inv w -> NoDup supers ->
  (forall id c, registered w n id c -> co_prec c = []) -> JX NoX (defclass_reg w n supers slots).
Proof.
  intros w n supers slots HI Hnd HA. split; [apply WF_wr; assumption|].
  intros m j c Hr. split; [intros []|]. intros _.
  destruct (registered_wr w n supers slots HI m j c Hr) as [[-> ->]|[Hne Hold]].
  - apply (new_obj_good_or_blank w n supers slots HI Hnd); [|assumption].
    intros ds P s sid sc Hs Hrs Hgs. destruct (caseA_not_mentioned w n HI HA s sid sc Hrs Hgs) as [Hne Hnot].
    split; [assumption|]. eapply good_old_wr; eassumption.
  - pose proof HI as [[HWF HJ] HF]. destruct (HJ m j c Hold) as [_ H]. destruct (H (fun x => x)) as [Hg|Hb]; [|right; assumption].
    left. destruct (caseA_not_mentioned w n HI HA m j c Hold Hg) as [_ Hnot].
    eapply good_old_wr; eassumption.
Qed.

Lemma JX_iff : forall (X X' : nat -> Prop) w, (forall j, X j <-> X' j) -> JX X w -> JX X' w.
Proof.
  intros X X' w H [HW HJ]. split; [assumption|]. intros n id c Hr. destruct (HJ n id c Hr) as [A B].
  split; [intros Hx; apply A; apply H; assumption | intros Hx; apply B; intro Hc; apply Hx; apply H; assumption].
Qed.
Lemma sub_ids_In : forall w n j, In j (sub_ids w n) <-> In j (reg_ids w) /\ inherits w j n = true.
Proof. intros w n j. unfold sub_ids. apply (filter_In (fun id => inherits w id n)). Qed.
Lemma forallb_false_ex : forall A (f : A -> bool) l, forallb f l = false -> exists x, In x l /\ f x = false.
Proof.
  induction l as [|a r IH]; simpl; intros H; [discriminate|].
  destruct (f a) eqn:E; [|exists a; auto]. destruct (IH H) as [x [H1 H2]]. exists x. auto.
Qed.
Lemma supers_ready_false : forall w supers s, In s supers ->
  (lookup (reg w) s = None \/ exists sid, lookup (reg w) s = Some sid /\ readyb w sid = false) -> supers_ready w supers = false.
Proof.
  intros w supers s Hs H. destruct (supers_ready w supers) eqn:E; [|reflexivity].
  rewrite supers_ready_true in E. destruct (E s Hs) as [sid [L R]]. destruct H as [H|[sid' [L' R']]]; congruence.
Qed.

(* case B: the current definition of n is ready; X = the classes that inherit n *)
Lemma reg_B : forall w n supers slots old oc, Inv w -> NoDup supers ->
  registered w n old oc -> co_prec oc <> [] ->
  (forall s sid, In s supers -> lookup (reg w) s = Some sid -> s <> n /\ ~ In sid (sub_ids w n)) ->
  JX (fun j => In j (sub_ids (defclass_reg w n supers slots) n)) (defclass_reg w n supers slots) /\ FF (defclass_reg w n supers slots).
Proof.
  intros w n supers slots old oc HI Hnd Hold Hready G1.
  set (wr := defclass_reg w n supers slots). pose proof HI as [[HWF HJ] HF].
  assert (Hinh_old : forall j, j < length (heap w) -> inherits wr j n = inherits w j n).
  { intros j Hj. unfold inherits. unfold wr. rewrite (get_wr_old w n supers slots j Hj). reflexivity. }
  split; [split; [apply WF_wr; assumption|]|].
  - intros m j c Hr. destruct (registered_wr w n supers slots HI m j c Hr) as [[-> ->]|[Hne Hrw]].
    + split.
      * intros Hx. apply sub_ids_In in Hx. destruct Hx as [_ Hx]. unfold inherits in Hx. rewrite (proj2 Hr) in Hx.
        intro Hb.
        destruct (defclass_reg_shape w n supers slots) as [_ [_ [newc [Hh [_ [_ [_ Hcase]]]]]]].
        destruct Hr as [_ G]. unfold get in G. fold wr in Hh. rewrite Hh, nth_error_app_last in G. inversion G; subst c.
        destruct (phase1 (reg w) (heap w ++ [new0 n supers slots]) supers []); subst newc; simpl in *; [exact (mk_prec_nonnil _ _ Hb) | discriminate].
      * intros _. apply (new_obj_good_or_blank w n supers slots HI Hnd); [|assumption].
        intros ds P s sid sc Hs Hrs Hgs. destruct (G1 s sid Hs (proj1 Hrs)) as [Hne Hnot]. split; [assumption|].
        apply (good_old_wr w n supers slots HI s sid sc Hrs Hgs Hne).
        intro Hin. apply Hnot. apply sub_ids_In. split; [eapply registered_reg_ids; eassumption|].
        unfold inherits. rewrite (proj2 Hrs). rewrite inh_has_memb. apply memb_In. assumption.
    + pose proof (old_id_lt w HI m j (proj1 Hrw)) as Hlt.
      destruct (HJ m j c Hrw) as [_ H]. specialize (H (fun x => x)). split.
      * intros Hx. apply sub_ids_In in Hx. destruct Hx as [_ Hx]. rewrite (Hinh_old j Hlt) in Hx.
        destruct H as [Hg|[_ Hb]]; [eapply good_ready; eassumption|].
        unfold inherits in Hx. rewrite (proj2 Hrw), Hb in Hx. discriminate.
      * intros Hnx. destruct H as [Hg|Hb]; [|right; assumption]. left.
        apply (good_old_wr w n supers slots HI m j c Hrw Hg Hne).
        intro Hin. apply Hnx. apply sub_ids_In. split; [eapply registered_reg_ids; eassumption|].
        rewrite (Hinh_old j Hlt). unfold inherits. rewrite (proj2 Hrw). rewrite inh_has_memb. apply memb_In. assumption.
  - (* FF *)
    intros m j c Hr Hb. destruct (registered_wr w n supers slots HI m j c Hr) as [[-> ->]|[Hne Hrw]].
    + destruct (defclass_reg_shape w n supers slots) as [_ [_ [newc [Hh [N1 [N2 [_ Hcase]]]]]]].
      destruct Hr as [_ G]. unfold get in G. fold wr in Hh. rewrite Hh, nth_error_app_last in G. inversion G; subst c. rewrite N2.
      destruct (phase1 (reg w) (heap w ++ [new0 n supers slots]) supers []) as [ds|] eqn:P.
      * subst newc. simpl in Hb. exfalso. exact (mk_prec_nonnil _ _ Hb).
      * apply (phase1_none_iff _ _ _ []) in P. destruct (forallb_false_ex _ _ _ P) as [s [Hs Hf]].
        apply (supers_ready_false wr supers s Hs). unfold ready_in in Hf.
        destruct (lookup (reg w) s) as [sid|] eqn:Ls.
        -- destruct (G1 s sid Hs Ls) as [Hsn _]. right. exists sid. unfold wr. rewrite (reg_wr_other w n supers slots s Hsn). split; [assumption|].
           pose proof (old_id_lt w HI s sid Ls) as Hlt. unfold readyb. rewrite (get_wr_old w n supers slots sid Hlt).
           rewrite nth_error_app1 in Hf by assumption. unfold get. destruct (nth_error (heap w) sid); [assumption | reflexivity].
        -- left. destruct (Nat.eq_dec s n) as [->|Hsn].
           ++ destruct Hold as [Lo _]. congruence.
           ++ unfold wr. rewrite (reg_wr_other w n supers slots s Hsn). assumption.
    + pose proof (HF m j c Hrw Hb) as Hsr.
      destruct (forallb_false_ex _ _ _ Hsr) as [s [Hs Hf]].
      apply (supers_ready_false wr (co_supers c) s Hs).
      assert (s <> n) as Hsn.
      { intros ->. destruct Hold as [Lo Go]. rewrite Lo in Hf.
        assert (readyb w old = true) by (apply readyb_true; exists oc; split; assumption). congruence. }
      unfold wr. rewrite (reg_wr_other w n supers slots s Hsn).
      destruct (lookup (reg w) s) as [sid|] eqn:Ls; [|left; reflexivity].
      right. exists sid. split; [reflexivity|]. unfold readyb. rewrite (get_wr_old w n supers slots sid (old_id_lt w HI s sid Ls)). exact Hf.
Qed.

(* the new object does not inherit n, and among the classes that do, a direct superclass has the shorter list *)
Lemma phase1_In : forall rg hp supers acc res, phase1 rg hp supers acc = Some res ->
  forall p, In p res -> In p acc \/ (In (snd p) supers /\ lookup rg (snd p) = Some (fst p)).
Proof.
  induction supers as [|s r IH]; intros acc res H p Hp; simpl in H.
  - inversion H; subst. auto.
  - destruct (lookup rg s) as [id|] eqn:L; [|discriminate].
    destruct (nth_error hp id) as [sc|]; [|discriminate].
    destruct (co_prec sc); [discriminate|].
    destruct (inh_has acc s).
    + destruct (IH _ _ H p Hp) as [A|[A B]]; [auto | right; split; [right; assumption | assumption]].
    + destruct (IH _ _ H p Hp) as [A|[A B]].
      * apply in_app_or in A. destruct A as [A|[A|[]]]; [auto|]. subst p. right. simpl. auto.
      * right. split; [right; assumption | assumption].
Qed.
Lemma new_obj_not_stale : forall w n supers slots, Inv w ->
  (forall s sid, In s supers -> lookup (reg w) s = Some sid -> s <> n /\ ~ In sid (sub_ids w n)) ->
  inherits (defclass_reg w n supers slots) (length (heap w)) n = false.
Proof.
  intros w n supers slots HI G1.
  destruct (defclass_reg_shape w n supers slots) as [_ [_ [newc [Hh [_ [_ [_ Hcase]]]]]]].
  unfold inherits, get. rewrite Hh, nth_error_app_last.
  set (hp2 := heap w ++ [new0 n supers slots]) in *.
  destruct (phase1 (reg w) hp2 supers []) as [ds|] eqn:P; subst newc; [|reflexivity].
  simpl. rewrite inh_has_memb. apply memb_false. intro Hin. apply in_map_iff in Hin. destruct Hin as [[i x] [Hx Hin]]. simpl in Hx. subst x.
  apply phase2_In in Hin. destruct Hin as [Hin|[[di dm] [Hd Hin]]].
  - destruct (phase1_In _ _ _ _ _ P _ Hin) as [[]|[A B]]. simpl in A, B. destruct (G1 n i A B) as [Hc _]. apply Hc. reflexivity.
  - destruct (phase1_In _ _ _ _ _ P _ Hd) as [[]|[A B]]. simpl in A, B. destruct (G1 dm di A B) as [_ Hns]. apply Hns.
    pose proof (old_id_lt w HI dm di B) as Hlt.
    unfold inh_of in Hin. simpl in Hin. unfold hp2 in Hin. rewrite nth_error_app1 in Hin by assumption.
    destruct (nth_error (heap w) di) as [sc|] eqn:G; [|contradiction].
    apply sub_ids_In. split.
    + unfold reg_ids. apply in_map_iff. exists (dm, di). split; [reflexivity | apply lookup_In; assumption].
    + unfold inherits, get. rewrite G. rewrite inh_has_memb. apply memb_In. apply in_map_iff. exists (i, n). auto.
Qed.
Lemma reg_B_len : forall w n supers slots, Inv w ->
  (forall s sid, In s supers -> lookup (reg w) s = Some sid -> s <> n /\ ~ In sid (sub_ids w n)) ->
  forall id m c, In id (sub_ids (defclass_reg w n supers slots) n) -> registered (defclass_reg w n supers slots) m id c ->
    forall s did, In s (co_supers c) -> lookup (reg (defclass_reg w n supers slots)) s = Some did ->
      In did (sub_ids (defclass_reg w n supers slots) n) ->
      inh_len (defclass_reg w n supers slots) did < inh_len (defclass_reg w n supers slots) id.
Proof.
  intros w n supers slots HI G1 id m c Hid Hr s did Hs Ld Hdid.
  pose proof (new_obj_not_stale w n supers slots HI G1) as Hnew.
  apply sub_ids_In in Hid. destruct Hid as [_ Hid]. apply sub_ids_In in Hdid. destruct Hdid as [_ Hdid].
  destruct (registered_wr w n supers slots HI m id c Hr) as [[-> ->]|[Hne Hrw]]; [congruence|].
  destruct (Nat.eq_dec s n) as [->|Hsn].
  - rewrite (reg_wr_same w n supers slots) in Ld. inversion Ld; subst did. congruence.
  - rewrite (reg_wr_other w n supers slots s Hsn) in Ld.
    pose proof (old_id_lt w HI m id (proj1 Hrw)) as Hlt1. pose proof (old_id_lt w HI s did Ld) as Hlt2.
    assert (good w m c) as Hg.
    { pose proof HI as [[_ HJ] _]. destruct (HJ m id c Hrw) as [_ H]. destruct (H (fun x => x)) as [Hg|[_ Hb]]; [assumption|].
      unfold inherits in Hid. rewrite (get_wr_old w n supers slots id Hlt1), (proj2 Hrw), Hb in Hid. discriminate. }
    destruct (good_supers_good w m id c HI Hrw Hg s Hs) as [sid [sc [Hrs Hgs]]].
    assert (sid = did) by (destruct Hrs as [L _]; congruence). subst sid.
    unfold inh_len. rewrite (get_wr_old w n supers slots id Hlt1), (get_wr_old w n supers slots did Hlt2).
    rewrite (proj2 Hrw), (proj2 Hrs).
    destruct Hg as [[f Hf] _]. destruct Hgs as [[fs Hfs] _].
    destruct f as [|f]; [discriminate|].
    destruct (lin_super_shorter _ _ _ _ _ s Hf (registered_table _ _ _ _ Hrw) Hs) as [ls [Hls Hlen]].
    assert (ls = map snd (co_inherit sc)) by (eapply lin_det; eassumption). subst ls.
    rewrite !map_length in Hlen. assumption.
Qed.

(* makeClassesReady does nothing when no class that is not ready has all its supers ready *)
Lemma ready_pass_noop : forall l w,
  (forall id, In id l -> readyb w id = false -> exists c, get w id = Some c /\ blank c /\ supers_ready w (co_supers c) = false) ->
  ready_pass w l = (w, false).
Proof.
  induction l as [|id r IH]; intros w H; simpl; [reflexivity|].
  destruct (readyb w id) eqn:R.
  - apply IH. intros x Hx. apply H. right. assumption.
  - destruct (H id (or_introl eq_refl) R) as [c [G [B S]]].
    rewrite supers_ready_forallb in S. apply (phase1_none_iff _ _ _ []) in S.
    rewrite (merge_fail_noop w id c G B S). rewrite IH; [reflexivity|]. intros x Hx. apply H. right. assumption.
Qed.
Lemma make_ready_noop : forall (X : nat -> Prop) w rorder, JX X w -> FF w -> (forall id, In id rorder -> In id (reg_ids w)) ->
  make_ready w rorder = w.
Proof.
  intros X w rorder [HWF HJ] HF Hsub. unfold make_ready. simpl.
  rewrite ready_pass_noop; [reflexivity|].
  intros id Hi R. apply filter_In in Hi. destruct Hi as [Hi _].
  destruct (reg_ids_registered w id HWF (Hsub id Hi)) as [m [c Hr]].
  assert (co_prec c = []) as Hb.
  { destruct (co_prec c) eqn:E; [reflexivity|]. exfalso.
    assert (readyb w id = true) by (apply readyb_true; exists c; split; [apply Hr | congruence]). congruence. }
  exists c. split; [apply Hr|]. destruct (HJ m id c Hr) as [A B].
  assert (~ X id) as Hnx by (intro Hx; exact (A Hx Hb)).
  destruct (B Hnx) as [Hg|Hinh]; [exfalso; exact (good_ready _ _ _ Hg Hb)|].
  split; [assumption|]. apply (HF m id c Hr Hb).
Qed.

(* ---- classChanged over stale classes, in an order that respects the hierarchy -------------------- *)
Lemma ext_registered1 : forall w w' n id c, ext w w' -> registered w n id c ->
  exists c', registered w' n id c' /\ static_eq c c'.
Proof.
  intros w w' n id c E [L G]. pose proof E as [R [_ [_ [_ H]]]]. destruct (H id c G) as [c' [G' S]].
  exists c'. split; [split; [rewrite R; assumption | assumption] | assumption].
Qed.
Lemma supers_ready_anti : forall w w' supers, reg w' = reg w -> (forall j, readyb w' j = true -> readyb w j = true) ->
  supers_ready w supers = false -> supers_ready w' supers = false.
Proof.
  intros w w' supers R H Hf. destruct (supers_ready w' supers) eqn:E; [|reflexivity].
  rewrite supers_ready_true in E. rewrite <- Hf. symmetry. apply supers_ready_true.
  intros s Hs. destruct (E s Hs) as [sid [L Rd]]. exists sid. split; [rewrite <- R; assumption | apply H; assumption].
Qed.

(* a list of classes to merge again in which every registered direct super of a class either does not inherit n
   or comes earlier *)
Fixpoint topo (w : world) (n : nat) (done l : list nat) : Prop :=
  match l with
  | [] => True
  | id :: r =>
      (exists c, get w id = Some c /\
         forall d did, In d (co_supers c) -> lookup (reg w) d = Some did -> inherits w did n = false \/ In did done) /\
      topo w n (id :: done) r
  end.

Section CCB.
  Variables (w0 : world) (n : nat).
  Let subs := sub_ids w0 n.
  (* the classes of subs not merged yet are as in w0 (ready, stale); all others are good or blank; classes only
     ever lose readiness *)
  Definition ccI (wk : world) (done : list nat) : Prop :=
    ext w0 wk /\ JX (fun j => In j subs /\ ~ In j done) wk /\ FF wk /\
    (forall j, ~ (In j subs /\ In j done) -> get wk j = get w0 j) /\
    (forall j, readyb wk j = true -> readyb w0 j = true).
  Hypothesis HJ0 : JX (fun j => In j subs) w0.

  Lemma ccB_fold : forall r wk done, ccI wk done -> topo w0 n done r ->
    (forall id, In id r -> In id subs) ->
    exists done', (forall x, In x done' <-> In x done \/ In x r) /\
                  ccI (fold_left (fun w id => fst (merge w id)) r wk) done'.
  Proof.
    induction r as [|id r IH]; intros wk done HIk Htopo Hreg; simpl.
    - exists done. split; [intros; tauto | assumption].
    - simpl in Htopo. destruct Htopo as [[c0' [Gc0 Hid]] Htopo].
      destruct HIk as [E [HJ [HF [Hun Hrd]]]].
      pose proof HJ0 as [HWF0 HJ0'].
      assert (In id subs) as Hidsubs by (apply Hreg; left; reflexivity).
      pose proof (proj1 (sub_ids_In _ _ _) Hidsubs) as [Hidreg Hinh0].
      destruct (reg_ids_registered w0 id HWF0 Hidreg) as [m [c0 Hr0]].
      assert (c0' = c0) by (destruct Hr0 as [_ G]; congruence). subst c0'.
      destruct (ext_registered1 _ _ _ _ _ E Hr0) as [ck [Hrk [S1 [S2 S3]]]].
      pose proof E as [R0 _].
      assert (Hnext : forall wk', ccI wk' (id :: done) ->
        exists done', (forall x, In x done' <-> In x done \/ In x (id :: r)) /\
          ccI (fold_left (fun w id => fst (merge w id)) r wk') done').
      { intros wk' HI'. destruct (IH wk' (id :: done) HI' Htopo) as [done' [Hd HI'']]; [intros x Hx; apply Hreg; right; assumption|].
        exists done'. split; [|assumption]. intros x. rewrite Hd. simpl. tauto. }
      destruct (phase1 (reg wk) (heap wk) (co_supers ck) []) as [ds|] eqn:P.
      + (* every direct super is ready: it is not waiting, hence good *)
        assert (Hsup : forall s, In s (co_supers ck) -> exists sid sc, registered wk s sid sc /\ good wk s sc).
        { intros s Hs. assert (forallb (ready_in (reg wk) (heap wk)) (co_supers ck) = true) as Hall.
          { destruct (forallb (ready_in (reg wk) (heap wk)) (co_supers ck)) eqn:EE; [reflexivity|].
            apply phase1_none_iff with (acc := []) in EE. congruence. }
          rewrite forallb_forall in Hall. specialize (Hall s Hs). unfold ready_in in Hall.
          destruct (lookup (reg wk) s) as [sid|] eqn:Ls; [|discriminate].
          destruct (nth_error (heap wk) sid) as [sc|] eqn:Gs; [|discriminate].
          exists sid, sc. split; [split; assumption|].
          rewrite S2 in Hs. rewrite R0 in Ls. destruct (Hid s sid Hs Ls) as [Hord|Hord].
          - destruct HJ as [_ HJk]. destruct (HJk s sid sc (conj (eq_trans (f_equal (fun r => lookup r s) R0) Ls) Gs)) as [_ B].
            assert (~ (In sid subs /\ ~ In sid done)) as Hnx.
            { intros [Hs1 _]. apply sub_ids_In in Hs1. destruct Hs1 as [_ Hs1]. rewrite Hs1 in Hord. discriminate. }
            destruct (B Hnx) as [Hg|[Hb _]]; [assumption|]. rewrite Hb in Hall. discriminate.
          - destruct HJ as [_ HJk]. destruct (HJk s sid sc (conj (eq_trans (f_equal (fun r => lookup r s) R0) Ls) Gs)) as [_ B].
            assert (~ (In sid subs /\ ~ In sid done)) as Hnx by (intros [_ Hs2]; contradiction).
            destruct (B Hnx) as [Hg|[Hb _]]; [assumption|]. rewrite Hb in Hall. discriminate. }
        destruct (merge_good wk m id ck (proj1 HJ) Hrk Hsup) as [w' [c' [M [G' Hg']]]].
        rewrite M. simpl. apply Hnext.
        destruct (merge_ext _ _ _ _ M) as [E' Hother].
        assert (readyb wk id = true) as Rid.
        { destruct (readyb wk id) eqn:Rk; [reflexivity|]. exfalso.
          assert (co_prec ck = []) as Hb.
          { destruct (co_prec ck) eqn:Ec; [reflexivity|]. assert (readyb wk id = true) by (apply readyb_true; exists ck; split; [apply Hrk | congruence]). congruence. }
          pose proof (HF m id ck Hrk Hb) as Hsr. rewrite supers_ready_forallb in Hsr. apply (phase1_none_iff _ _ _ []) in Hsr. congruence. }
        pose proof (merge_ready_same _ _ _ M Rid) as Hsame.
        pose proof E' as [R' _].
        split; [eapply ext_trans; eassumption|]. split; [|split; [|split]].
        * split; [eapply ext_WF; [exact E' | apply HJ]|].
          intros m' j cj [Lm Gm]. rewrite R' in Lm.
          destruct (Nat.eq_dec j id) as [->|Hne].
          -- rewrite G' in Gm. inversion Gm; subst cj.
             assert (m' = m).
             { destruct (proj1 HJ) as [_ HW]. destruct (HW m' id Lm) as [x [Gx [Hx _]]]. destruct (HW m id (proj1 Hrk)) as [y [Gy [Hy _]]]. congruence. }
             subst m'. split; [intros [_ Hc]; exfalso; apply Hc; left; reflexivity | intros _; left; assumption].
          -- rewrite (Hother j Hne) in Gm. destruct HJ as [_ HJk]. destruct (HJk m' j cj (conj Lm Gm)) as [A B]. split.
             ++ intros [Hx1 Hx2]. apply A. split; [assumption|]. intro Hc. apply Hx2. right. assumption.
             ++ intros Hnx. destruct B as [Hg|Hb].
                ** intros [Hx1 Hx2]. apply Hnx. split; [assumption|]. intros [Hc|Hc]; [congruence | contradiction].
                ** left. eapply ext_good; eassumption.
                ** right. assumption.
        * intros m' j cj [Lm Gm] Hb. rewrite R' in Lm.
          assert (j <> id) as Hne. { intros ->. rewrite G' in Gm. inversion Gm; subst. exact (good_ready _ _ _ Hg' Hb). }
          rewrite (Hother j Hne) in Gm. rewrite (supers_ready_same wk w' _ R' Hsame). apply (HF m' j cj); [split; assumption | assumption].
        * intros j Hj. assert (j <> id) as Hne. { intros ->. apply Hj. split; [assumption | left; reflexivity]. }
          rewrite (Hother j Hne). apply Hun. intros [H1 H2]. apply Hj. split; [assumption | right; assumption].
        * intros j Hj. rewrite Hsame in Hj. apply Hrd. assumption.
      + (* some direct super is missing or not ready: the class is blanked and waits *)
        destruct (merge_fail_blank wk id ck (proj2 Hrk) P) as [w' [M G']].
        rewrite M. simpl. apply Hnext.
        destruct (merge_ext _ _ _ _ M) as [E' Hother].
        pose proof E' as [R' _].
        assert (Hanti : forall j, readyb w' j = true -> readyb wk j = true).
        { intros j Hj. destruct (Nat.eq_dec j id) as [->|Hne].
          - unfold readyb in Hj. rewrite G' in Hj. discriminate.
          - unfold readyb in *. rewrite (Hother j Hne) in Hj. assumption. }
        assert (Hsrk : supers_ready wk (co_supers ck) = false).
        { rewrite supers_ready_forallb. apply (phase1_none_iff _ _ _ []). assumption. }
        split; [eapply ext_trans; eassumption|]. split; [|split; [|split]].
        * split; [eapply ext_WF; [exact E' | apply HJ]|].
          intros m' j cj [Lm Gm]. rewrite R' in Lm.
          destruct (Nat.eq_dec j id) as [->|Hne].
          -- rewrite G' in Gm. inversion Gm; subst cj.
             split; [intros [_ Hc]; exfalso; apply Hc; left; reflexivity | intros _; right; apply blanked_blank].
          -- rewrite (Hother j Hne) in Gm. destruct HJ as [_ HJk]. destruct (HJk m' j cj (conj Lm Gm)) as [A B]. split.
             ++ intros [Hx1 Hx2]. apply A. split; [assumption|]. intro Hc. apply Hx2. right. assumption.
             ++ intros Hnx. destruct B as [Hg|Hb].
                ** intros [Hx1 Hx2]. apply Hnx. split; [assumption|]. intros [Hc|Hc]; [congruence | contradiction].
                ** left. eapply ext_good; eassumption.
                ** right. assumption.
        * intros m' j cj [Lm Gm] Hb. rewrite R' in Lm.
          apply (supers_ready_anti wk w' _ R' Hanti).
          destruct (Nat.eq_dec j id) as [->|Hne].
          -- rewrite G' in Gm. inversion Gm; subst cj. simpl. assumption.
          -- rewrite (Hother j Hne) in Gm. apply (HF m' j cj); [split; assumption | assumption].
        * intros j Hj. assert (j <> id) as Hne. { intros ->. apply Hj. split; [assumption | left; reflexivity]. }
          rewrite (Hother j Hne). apply Hun. intros [H1 H2]. apply Hj. split; [assumption | right; assumption].
        * intros j Hj. apply Hrd. apply Hanti. assumption.
  Qed.

  (* the order classChanged sorts the stale classes into is such a list *)
  Hypothesis Hlen : forall id m c, In id subs -> registered w0 m id c ->
    forall s did, In s (co_supers c) -> lookup (reg w0) s = Some did -> In did subs -> inh_len w0 did < inh_len w0 id.

  Lemma topo_of_sorted : forall l done, sortedf (inh_len w0) l -> (forall id, In id l -> In id subs) ->
    (forall x, In x subs -> In x done \/ In x l) -> topo w0 n done l.
  Proof.
    induction l as [|id r IH]; intros done Hs Hsub Hcov; simpl; [exact I|].
    destruct Hs as [Hmin Hs]. pose proof HJ0 as [HWF0 _].
    assert (In id subs) as Hidsubs by (apply Hsub; left; reflexivity).
    pose proof (proj1 (sub_ids_In _ _ _) Hidsubs) as [Hidreg Hinh0].
    destruct (reg_ids_registered w0 id HWF0 Hidreg) as [m [c Hr]].
    split.
    - exists c. split; [apply Hr|]. intros d did Hd Ld.
      destruct (inherits w0 did n) eqn:Ei; [|left; reflexivity]. right.
      assert (In did subs) as Hdsubs.
      { apply sub_ids_In. split; [|assumption]. unfold reg_ids. apply in_map_iff. exists (d, did). split; [reflexivity | apply lookup_In; assumption]. }
      pose proof (Hlen id m c Hidsubs Hr d did Hd Ld Hdsubs) as Hlt.
      destruct (Hcov did Hdsubs) as [Hdone|[Heq|Hin]]; [assumption | subst; lia | specialize (Hmin did Hin); lia].
    - apply IH; [assumption | intros x Hx; apply Hsub; right; assumption|].
      intros x Hx. destruct (Hcov x Hx) as [H|[H|H]]; [left; right; assumption | left; left; assumption | right; assumption].
  Qed.
End CCB.

Lemma class_changed_B : forall w n corder, JX (fun j => In j (sub_ids w n)) w -> FF w ->
  (forall id m c, In id (sub_ids w n) -> registered w m id c ->
    forall s did, In s (co_supers c) -> lookup (reg w) s = Some did -> In did (sub_ids w n) -> inh_len w did < inh_len w id) ->
  (forall id, In id corder -> In id (reg_ids w)) ->
  (forall id, In id (sub_ids w n) -> In id corder) ->
  Inv (class_changed w n corder) /\ ext w (class_changed w n corder).
Proof.
  intros w n corder HJ HF Hlen Hreg Hall. unfold class_changed.
  assert (Hsub : forall id, In id (stale_order w n corder) -> In id (sub_ids w n)).
  { intros id Hi. apply stale_order_In in Hi. apply sub_ids_In. split; [apply Hreg; apply Hi | apply Hi]. }
  assert (Hcov : forall x, In x (sub_ids w n) -> In x [] \/ In x (stale_order w n corder)).
  { intros x Hx. right. apply stale_order_In. split; [apply Hall; assumption|]. apply sub_ids_In in Hx. apply Hx. }
  pose proof (topo_of_sorted w n HJ Hlen (stale_order w n corder) [] (sort_by_sorted _ _) Hsub Hcov) as Htopo.
  destruct (ccB_fold w n HJ (stale_order w n corder) w []) as [done' [Hd [E [HJ' [HF' _]]]]].
  - split; [apply ext_refl|]. split; [|split; [assumption|split; [reflexivity | intros j Hj; exact Hj]]].
    apply (JX_iff (fun j => In j (sub_ids w n))); [|assumption]. intros j. simpl. tauto.
  - assumption.
  - assumption.
  - split; [|assumption]. split; [|assumption]. apply (JX_iff (fun j => In j (sub_ids w n) /\ ~ In j done')); [|assumption].
    intros j. unfold NoX. split; [|tauto]. intros [H1 H2]. apply H2. apply Hd. right.
    destruct (Hcov j H1) as [[]|H]. assumption.
Qed.

(* ---- defclass preserves the invariant inside the guard ------------------------------------------ *)
Lemma forallb_In : forall A (f : A -> bool) l x, forallb f l = true -> In x l -> f x = true.
Proof. intros A f l x H Hi. rewrite forallb_forall in H. auto. Qed.

Lemma g_defclass_parts : forall w n supers slots rorder corder, g_defclass w n supers slots rorder corder = true ->
  nodupb supers = true /\
  forallb (fun id => memb id rorder) (reg_ids (defclass_reg w n supers slots)) = true /\
  forallb (fun id => memb id (reg_ids (defclass_reg w n supers slots))) rorder = true /\
  forallb (fun id => memb id corder) (sub_ids (defclass_pre w n supers slots rorder) n) = true /\
  forallb (fun id => memb id (reg_ids (defclass_pre w n supers slots rorder))) corder = true /\
  match lookup (reg w) n with
  | None => true
  | Some old =>
      if readyb w old then
        let subs := sub_ids w n in
        let bad := n :: flat_map (fun id => match name_of w id with Some m => [m] | None => [] end) subs in
        forallb (fun d => negb (memb d bad)) supers
      else true
  end = true.
Proof.
  intros w n supers slots rorder corder G. unfold g_defclass in G.
  repeat (apply andb_true_iff in G; destruct G as [G ?]).
  repeat split; assumption.
Qed.

(* the invariant speaks of the heap and the registry only *)
Lemma Inv_clear : forall w, Inv w -> Inv (clear_caches w).
Proof. intros [h r g i] H. exact H. Qed.

Theorem defclass_inv : forall w n supers slots rorder corder, Inv w ->
  g_defclass w n supers slots rorder corder = true ->
  Inv (defclass w n supers slots rorder corder) /\
  ext (defclass_reg w n supers slots) (defclass_merged w n supers slots rorder corder).
Proof.
  intros w n supers slots rorder corder HI G.
  cut (Inv (defclass_merged w n supers slots rorder corder) /\
       ext (defclass_reg w n supers slots) (defclass_merged w n supers slots rorder corder)).
  { intros [A B]. split; [apply Inv_clear; assumption | assumption]. }
  destruct (g_defclass_parts _ _ _ _ _ _ G) as [A2 [R1 [R2 [C1 [C2 Hcase]]]]]. clear G.
  apply nodupb_NoDup in A2. unfold defclass_merged. unfold defclass_pre in *.
  set (wr := defclass_reg w n supers slots) in *.
  assert (HR1 : forall id, In id (reg_ids wr) -> In id rorder) by (intros id Hi; apply memb_In; exact (forallb_In _ _ _ id R1 Hi)).
  assert (HR2 : forall id, In id rorder -> In id (reg_ids wr)) by (intros id Hi; apply memb_In; exact (forallb_In _ _ _ id R2 Hi)).
  assert (HcaseA : (forall id c, registered w n id c -> co_prec c = []) ->
     Inv (class_changed (make_ready wr rorder) n corder) /\ ext wr (class_changed (make_ready wr rorder) n corder)).
  { intros HA. pose proof (reg_A w n supers slots HI A2 HA) as HJ. fold wr in HJ.
    destruct (make_ready_A wr rorder HJ HR1 HR2) as [HIp Ep].
    destruct (class_changed_A n corder (make_ready wr rorder) HIp) as [HIc Ec].
    - intros id Hi. apply reg_ids_registered; [apply HIp|]. apply memb_In. exact (forallb_In _ _ _ id C2 Hi).
    - split; [assumption | eapply ext_trans; eassumption]. }
  destruct (lookup (reg w) n) as [old|] eqn:Lold.
  - destruct (readyb w old) eqn:Rold.
    + (* case B *)
      rename Hcase into G1.
      apply readyb_true in Rold. destruct Rold as [oc [Go Po]].
      assert (HG1 : forall s sid, In s supers -> lookup (reg w) s = Some sid -> s <> n /\ ~ In sid (sub_ids w n)).
      { intros s sid Hs Ls. pose proof (forallb_In _ _ _ s G1 Hs) as Hb. apply negb_true_iff in Hb. apply memb_false in Hb.
        split.
        - intros ->. apply Hb. left. reflexivity.
        - intros Hin. apply Hb. right. apply in_flat_map. exists sid. split; [assumption|].
          unfold name_of. destruct HI as [[[_ HW] _] _]. destruct (HW s sid Ls) as [c [Gc [Nc _]]]. rewrite Gc. left. assumption. }
      destruct (reg_B w n supers slots old oc HI A2 (conj Lold Go) Po HG1) as [HJ HF]. fold wr in HJ, HF.
      rewrite (make_ready_noop _ wr rorder HJ HF HR2) in *.
      assert (HC1 : forall id, In id (sub_ids wr n) -> In id corder) by (intros id Hi; apply memb_In; exact (forallb_In _ _ _ id C1 Hi)).
      apply class_changed_B; try assumption.
      * apply reg_B_len; assumption.
      * intros id Hi. apply memb_In. exact (forallb_In _ _ _ id C2 Hi).
    + apply HcaseA. intros id c [L Gc]. rewrite Lold in L. inversion L; subst id.
      destruct (co_prec c) eqn:E; [reflexivity|]. exfalso.
      assert (readyb w old = true) by (apply readyb_true; exists c; split; [assumption | congruence]). congruence.
  - apply HcaseA. intros id c [L _]. congruence.
Qed.

(* ---- what the invariant says in terms of S ------------------------------------------------------- *)
Theorem prec_is_spec : forall w n id c, Inv w -> registered w n id c ->
  (forall f l, lin (table w) f n = Some l -> co_prec c = n :: l ++ [SO; TT] /\ map snd (co_inherit c) = l) /\
  ((forall f, lin (table w) f n = None) -> co_prec c = [] /\ co_inherit c = []).
Proof.
  intros w n id c HI Hr. pose proof HI as [[_ HJ] _]. destruct (HJ n id c Hr) as [_ H].
  destruct (H (fun x => x)) as [Hg|Hb].
  - pose proof Hg as [[f0 Hf0] [_ [Hp _]]]. split.
    + intros f l Hf. assert (l = map snd (co_inherit c)) by (eapply lin_det; eassumption). subst l.
      split; [rewrite Hp; reflexivity | reflexivity].
    + intros Hnone. rewrite Hnone in Hf0. discriminate.
  - split.
    + intros f l Hf. rewrite (blank_no_lin w HI f n id c Hr (proj1 Hb)) in Hf. discriminate.
    + intros _. exact Hb.
Qed.
