(* C12 — facts about the specification's linearisation lin *)
From C12 Require Import Model Spec Lists.

Lemma lin_S : forall T f n, lin T (S f) n =
  match T n with
  | None => None
  | Some supers => match all_some (map (lin T f) supers) with None => None | Some ls => Some (dedup (supers ++ concat ls)) end
  end.
Proof. reflexivity. Qed.

Lemma lin_mono : forall T f n l, lin T f n = Some l -> lin T (S f) n = Some l.
Proof.
  induction f as [|f IH]; intros n l H; [discriminate|].
  rewrite lin_S in H. rewrite lin_S. destruct (T n) as [supers|]; [|discriminate].
  destruct (all_some (map (lin T f) supers)) as [ls|] eqn:E; [|discriminate].
  rewrite (all_some_ext _ _ (lin T f) (lin T (S f)) _ _ E); [assumption|].
  intros a b _ Hb. apply IH. exact Hb.
Qed.
Lemma lin_le : forall T f f' n l, f <= f' -> lin T f n = Some l -> lin T f' n = Some l.
Proof. induction 1; intros; [assumption|]. apply lin_mono. auto. Qed.
Lemma lin_det : forall T f f' n l l', lin T f n = Some l -> lin T f' n = Some l' -> l = l'.
Proof.
  intros T f f' n l l' H H'.
  apply (lin_le T f (Nat.max f f')) in H; [|lia].
  apply (lin_le T f' (Nat.max f f')) in H'; [|lia]. congruence.
Qed.

Lemma lin_inv : forall T f n l, lin T (S f) n = Some l ->
  exists supers ls, T n = Some supers /\ all_some (map (lin T f) supers) = Some ls /\ l = dedup (supers ++ concat ls).
Proof.
  intros T f n l H. rewrite lin_S in H. destruct (T n) as [supers|]; [|discriminate].
  destruct (all_some (map (lin T f) supers)) as [ls|] eqn:E; [|discriminate].
  inversion H. eauto.
Qed.
Lemma lin_supers : forall T f n l supers, lin T (S f) n = Some l -> T n = Some supers ->
  incl supers l /\ forall s, In s supers -> exists ls, lin T f s = Some ls /\ incl ls l.
Proof.
  intros T f n l supers H HT. destruct (lin_inv _ _ _ _ H) as [sup [ls [H1 [H2 H3]]]].
  rewrite HT in H1. inversion H1; subst sup. subst l. split.
  - intros x Hx. apply dedup_In. apply in_or_app. auto.
  - intros s Hs. destruct (all_some_In _ _ _ _ _ s H2 Hs) as [b [Hb1 Hb2]].
    exists b. split; [assumption|]. intros x Hx. apply dedup_In. apply in_or_app. right.
    apply in_concat. eauto.
Qed.

Lemma lin_ext : forall T T' f n l, lin T f n = Some l -> (forall m, m = n \/ In m l -> T' m = T m) -> lin T' f n = Some l.
Proof.
  intros T T'. induction f as [|f IH]; intros n l H HT; [discriminate|].
  destruct (lin_inv _ _ _ _ H) as [supers [ls [H1 [H2 H3]]]].
  destruct (lin_supers _ _ _ _ _ H H1) as [Hin Hsup].
  rewrite lin_S. rewrite (HT n (or_introl eq_refl)). rewrite H1.
  rewrite (all_some_ext _ _ (lin T f) (lin T' f) _ _ H2); [subst; reflexivity|].
  intros a b Ha Hb. apply IH; [assumption|]. intros m Hm. apply HT. right.
  destruct (Hsup a Ha) as [la [Hla Hincl]]. rewrite Hb in Hla. inversion Hla; subst la.
  destruct Hm as [->|Hm]; [apply Hin; assumption | apply Hincl; assumption].
Qed.

Lemma lin_member : forall T f n l m, lin T f n = Some l -> In m l -> exists l', lin T (pred f) m = Some l' /\ incl l' l.
Proof.
  intros T. induction f as [|f IH]; intros n l m H Hm; [discriminate|].
  destruct (lin_inv _ _ _ _ H) as [supers [ls [H1 [H2 H3]]]].
  destruct (lin_supers _ _ _ _ _ H H1) as [Hin Hsup]. simpl.
  subst l. apply (proj1 (dedup_In _ _)) in Hm. apply in_app_or in Hm. destruct Hm as [Hm|Hm].
  - destruct (Hsup m Hm) as [lm [Hlm Hincl]]. eauto.
  - apply in_concat in Hm. destruct Hm as [lk [Hlk Hmk]].
    (* lk is the list of some super *)
    assert (exists s, In s supers /\ lin T f s = Some lk) as [s [Hs Hls]].
    { clear -H2 Hlk. revert ls H2 Hlk. induction supers as [|a r IHr]; intros ls H2 Hlk; simpl in *.
      - inversion H2; subst. contradiction.
      - destruct (lin T f a) eqn:E; [|discriminate]. destruct (all_some (map (lin T f) r)) eqn:E2; [|discriminate].
        inversion H2; subst. destruct Hlk as [->|Hlk]; [eauto|].
        destruct (IHr _ eq_refl Hlk) as [s [Hs1 Hs2]]. eauto. }
    destruct (IH s lk m Hls Hmk) as [l' [Hl' Hincl]].
    exists l'. split.
    + apply (lin_le T (pred f) f); [lia | assumption].
    + destruct (Hsup s Hs) as [ls' [Hls' Hincl']]. rewrite Hls in Hls'. inversion Hls'; subst ls'.
      intros x Hx. apply Hincl'. apply Hincl. assumption.
Qed.

Lemma lin_acyclic : forall T f n l, lin T f n = Some l -> ~ In n l.
Proof.
  intros T. induction f as [|f IH]; intros n l H Hin; [discriminate|].
  destruct (lin_member _ _ _ _ _ H Hin) as [l' [Hl' _]]. simpl in Hl'.
  assert (l' = l) by (eapply lin_det; eassumption). subst l'.
  exact (IH n l Hl' Hin).
Qed.
(* a class whose list is defined has every class of the list defined *)
Lemma lin_member_some : forall T f n l m, lin T f n = Some l -> In m l -> exists l', lin T f m = Some l'.
Proof.
  intros T f n l m H Hm. destruct (lin_member _ _ _ _ _ H Hm) as [l' [Hl' _]].
  exists l'. apply (lin_le T (pred f) f); [lia | assumption].
Qed.

(* the list of a class is duplicate free and strictly longer than the list of each direct superclass *)
Lemma lin_nodup : forall T f n l, lin T f n = Some l -> NoDup l.
Proof.
  intros T f n l H. destruct f as [|f]; [discriminate|].
  destruct (lin_inv _ _ _ _ H) as [supers [ls [_ [_ ->]]]]. apply kf_NoDup.
Qed.
Lemma lin_super_shorter : forall T f n l supers s, lin T (S f) n = Some l -> T n = Some supers -> In s supers ->
  exists ls, lin T f s = Some ls /\ length ls < length l.
Proof.
  intros T f n l supers s H HT Hs. destruct (lin_supers _ _ _ _ _ H HT) as [Hin Hsup].
  destruct (Hsup s Hs) as [ls [Hls Hincl]]. exists ls. split; [assumption|].
  assert (NoDup (s :: ls)) as Hnd by (constructor; [eapply lin_acyclic; eassumption | eapply lin_nodup; eassumption]).
  assert (incl (s :: ls) l) as Hi by (intros x [<-|Hx]; [apply Hin; assumption | apply Hincl; assumption]).
  pose proof (NoDup_incl_length Hnd Hi) as Hlen. simpl in Hlen. lia.
Qed.
