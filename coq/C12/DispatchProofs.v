(* C12 — method applicability: the dispatch cache of every generic stays consistent with the precedence
   lists along every guarded history, so that a call finds exactly the methods of the classes on the
   precedence list of its argument's class *)
From C12 Require Import Model Spec Lists LinProofs ClassProofs HistProofs.

Definition CacheInv (w : world) : Prop :=
  lookup (reg w) TT = None /\
  forall k g key l, lookup (gfs w) k = Some g -> lookup (g_cache g) key = Some l ->
    callable k l = true /\ ((key = TT /\ l = applicable g [TT]) \/
                exists id c, registered w key id c /\ co_prec c <> [] /\ l = applicable g (co_prec c)).

Lemma CacheInv_w0 : CacheInv w0.
Proof.
  split; [reflexivity|]. intros k g key l H Hc. simpl in H.
  destruct (Nat.eqb k (gkey KU 0)); inversion H; subst g. discriminate.
Qed.

Lemma CacheInv_heap_reg_gfs : forall w w', heap w' = heap w -> reg w' = reg w -> gfs w' = gfs w -> CacheInv w -> CacheInv w'.
Proof.
  intros [h r g i] [h' r' g' i'] Hh Hr Hg H. simpl in *. subst. exact H.
Qed.

Lemma add_method_cache : forall w k c, CacheInv w -> CacheInv (add_method w k c).
Proof.
  intros w k c [HT H]. split; [exact HT|]. intros k' g key l Hl Hc. unfold add_method in Hl. simpl in Hl.
  destruct (Nat.eq_dec k' k) as [->|Hne].
  - rewrite lookup_set_same in Hl. inversion Hl; subst g. simpl in Hc. discriminate.
  - rewrite lookup_set_other in Hl by assumption. exact (H k' g key l Hl Hc).
Qed.
Lemma slot_methods_cache : forall w n sd, CacheInv w -> CacheInv (slot_methods w n sd).
Proof.
  intros w n sd H. unfold slot_methods.
  destruct (sd_reader sd), (sd_writer sd), (sd_accessor sd); repeat apply add_method_cache; assumption.
Qed.
Lemma fold_slot_methods_cache : forall slots w n, CacheInv w -> CacheInv (fold_left (fun w sd => slot_methods w n sd) slots w).
Proof. induction slots as [|sd r IH]; intros w n H; simpl; [assumption|]. apply IH. apply slot_methods_cache. assumption. Qed.

(* ---- a call ------------------------------------------------------------------------------------ *)
Lemma hier_nonnil : forall c, hier c <> [].
Proof. intros c. unfold hier, hier_of. destruct (co_prec c); discriminate. Qed.

Theorem call_gf_spec : forall w k i, Inv w -> CacheInv w -> current w i = true ->
  exists ins c, nth_error (insts w) i = Some ins /\ registered w (co_name c) (i_cid ins) c /\
    snd (call_gf w k i) = (let l := applicable (get_gf w k) (hier c) in if callable k l then Some l else None) /\
    CacheInv (fst (call_gf w k i)).
Proof.
  intros w k i HI HC Hcur. unfold current in Hcur.
  destruct (nth_error (insts w) i) as [ins|] eqn:Ei; [|discriminate].
  destruct (get w (i_cid ins)) as [c|] eqn:Gc; [|discriminate].
  destruct (lookup (reg w) (co_name c)) as [id|] eqn:L; [|discriminate].
  apply Nat.eqb_eq in Hcur. subst id.
  exists ins, c. split; [reflexivity|]. split; [split; assumption|].
  unfold call_gf. rewrite Ei, Gc. pose proof HC as [HT HCe]. cbv zeta.
  destruct (hier c) as [|key p] eqn:Eh; [exfalso; exact (hier_nonnil c Eh)|].
  (* the key is t for a class that is not ready, the class name otherwise *)
  assert (Hkey : (co_prec c = [] /\ key = TT /\ p = []) \/ (co_prec c = key :: p /\ key = co_name c)).
  { unfold hier, hier_of in Eh. destruct (co_prec c) as [|k0 p0] eqn:Ep.
    - left. inversion Eh. auto.
    - right. inversion Eh; subst k0 p0. split; [reflexivity|].
      destruct HI as [[_ HJ] _]. destruct (HJ (co_name c) (i_cid ins) c (conj L Gc)) as [_ H].
      destruct (H (fun x => x)) as [[_ [_ [Hp _]]]|[Hb _]]; [|congruence]. rewrite Hp in Ep. unfold mk_prec in Ep. inversion Ep. reflexivity. }
  destruct (lookup (g_cache (get_gf w k)) key) as [l|] eqn:El.
  + cbn [fst snd]. split; [|assumption].
    unfold get_gf in El. destruct (lookup (gfs w) k) as [g|] eqn:Eg; [|discriminate].
    destruct (HCe k g key l Eg El) as [Hcl Hd].
    unfold get_gf. rewrite Eg.
    assert (l = applicable g (key :: p)) as Hl; [|rewrite <- Hl, Hcl; reflexivity].
    destruct Hkey as [[Hb [-> ->]]|[Ep Hk]].
    * destruct Hd as [[_ Hl]|[id' [c' [[L' _] _]]]]; [assumption | congruence].
    * destruct Hd as [[Hk' _]|[id' [c' [[L' G'] [_ Hl]]]]].
      -- assert (co_name c = TT) as Hn by congruence. rewrite Hn in L. congruence.
      -- rewrite Hk in L'. rewrite L in L'. inversion L'; subst id'. rewrite Gc in G'. inversion G'; subst c'. rewrite Ep in Hl. assumption.
  + destruct (callable k (applicable (get_gf w k) (key :: p))) eqn:Ea.
    * cbn [fst snd]. split; [reflexivity|]. split; [exact HT|].
      intros k' g' key' l' Hl' Hc'. cbn [gfs with_gfs] in Hl'.
      destruct (Nat.eq_dec k' k) as [->|Hne].
      -- rewrite lookup_set_same in Hl'. inversion Hl'; subst g'. simpl in Hc'.
         destruct (Nat.eq_dec key' key) as [->|Hk].
         ++ rewrite lookup_set_same in Hc'. inversion Hc'; subst l'. split; [exact Ea|].
            destruct Hkey as [[Hb [-> ->]]|[Ep Hk]].
            ** left. split; reflexivity.
            ** right. exists (i_cid ins), c. split; [split; [rewrite Hk; assumption | assumption]|]. split; [congruence|].
               rewrite Ep. reflexivity.
         ++ rewrite lookup_set_other in Hc' by assumption.
            unfold get_gf in Hc'. destruct (lookup (gfs w) k) as [g|] eqn:Eg; [|discriminate].
            destruct (HCe k g key' l' Eg Hc') as [A Hd]. split; [assumption|].
            unfold get_gf. rewrite Eg. simpl g_methods. exact Hd.
      -- rewrite lookup_set_other in Hl' by assumption. exact (HCe k' g' key' l' Hl' Hc').
    * cbn [fst snd]. split; [reflexivity | assumption].
Qed.

(* ---- defclass ------------------------------------------------------------------------------------ *)
(* classChanged ends with ClearCaches: no entry survives a defclass, so none can be stale *)
Lemma lookup_map_snd : forall A B (f : A -> B) (l : list (nat * A)) k,
  lookup (map (fun kv => (fst kv, f (snd kv))) l) k = match lookup l k with Some v => Some (f v) | None => None end.
Proof.
  induction l as [|[k' v] r IH]; intros k; simpl; [reflexivity|].
  destruct (Nat.eqb k k'); [reflexivity | apply IH].
Qed.
Lemma clear_caches_empty : forall w k g, lookup (gfs (clear_caches w)) k = Some g -> g_cache g = [].
Proof.
  intros w k g H. unfold clear_caches in H. cbn [gfs with_gfs] in H.
  rewrite (lookup_map_snd _ _ (fun g => mkGF (g_methods g) [])) in H.
  destruct (lookup (gfs w) k); inversion H. reflexivity.
Qed.
Lemma defclass_reg_eq : forall w n supers slots ro co, Inv w -> g_defclass w n supers slots ro co = true ->
  reg (defclass w n supers slots ro co) = set_assoc (reg w) n (length (heap w)).
Proof.
  intros w n supers slots ro co HI G. destruct (defclass_inv w n supers slots ro co HI G) as [_ [R _]].
  change (reg (defclass w n supers slots ro co)) with (reg (defclass_merged w n supers slots ro co)). rewrite R.
  destruct (defclass_reg_shape w n supers slots) as [R' _]. assumption.
Qed.

Theorem defclass_cache : forall w n supers slots ro co, Inv w -> CacheInv w ->
  g_defclass w n supers slots ro co = true -> CacheInv (defclass w n supers slots ro co).
Proof.
  intros w n supers slots ro co HI [HT _] G.
  assert (n <> TT) as HnT.
  { unfold g_defclass in G. repeat (apply andb_true_iff in G; destruct G as [G ?]).
    apply Nat.ltb_lt in G. unfold SO, TT in *. lia. }
  split.
  - rewrite (defclass_reg_eq w n supers slots ro co HI G).
    rewrite lookup_set_other by (intro Hc; apply HnT; symmetry; exact Hc). exact HT.
  - intros k g key l Hl Hc. unfold defclass in Hl. rewrite (clear_caches_empty _ k g Hl) in Hc. discriminate.
Qed.

(* ---- every guarded step, every guarded history ---------------------------------------------------- *)
Theorem step_cache : forall w o ro co, Inv w -> CacheInv w -> g_step w o ro co = true -> CacheInv (fst (step w o ro co)).
Proof.
  intros w o ro co HI HC G. destruct o; simpl in *.
  - apply defclass_cache; assumption.
  - destruct (lookup (reg w) n) as [id|]; [|assumption]. destruct (get w id) as [c|]; [|assumption].
    destruct (make_instance (heap w) c args); simpl; [|assumption].
    eapply CacheInv_heap_reg_gfs; [| | |exact HC]; reflexivity.
  - destruct (nth_error (insts w) i); assumption.
  - destruct (nth_error (insts w) i); assumption.
  - destruct (nth_error (insts w) i) as [ins|]; [|assumption]. destruct (lookup (i_vars ins) s); simpl; [|assumption].
    destruct (upd_inst_frame w i (set_assoc (i_vars ins) s (Some v))) as [A [B C]]. eapply CacheInv_heap_reg_gfs; eassumption.
  - destruct (nth_error (insts w) i) as [ins|]; [|assumption]. destruct (lookup (i_vars ins) s); simpl; [|assumption].
    destruct (upd_inst_frame w i (set_assoc (i_vars ins) s None)) as [A [B C]]. eapply CacheInv_heap_reg_gfs; eassumption.
  - destruct (call_gf_spec w (gkey k s) i HI HC G) as [ins [c [_ [_ [_ HC1]]]]].
    destruct (call_gf w (gkey k s) i) as [w1 r]. simpl in HC1.
    destruct r; [|assumption].
    destruct (nth_error (insts w1) i) as [ins1|]; [|assumption].
    destruct (Nat.eqb k KR || Nat.eqb k KAR); [assumption|].
    destruct (lookup (i_vars ins1) s); simpl; [|assumption].
    destruct (upd_inst_frame w1 i (set_assoc (i_vars ins1) s (Some v))) as [A [B C]]. eapply CacheInv_heap_reg_gfs; eassumption.
  - destruct (nth_error (insts w) i) as [ins|]; [|assumption]. destruct (get w (i_cid ins)); assumption.
  - destruct (nth_error (insts w) i) as [ins|]; [|assumption]. destruct (get w (i_cid ins)); assumption.
  - apply add_method_cache. assumption.
  - destruct (call_gf_spec w (gkey KU 0) i HI HC G) as [ins [c [_ [_ [_ HC1]]]]].
    destruct (call_gf w (gkey KU 0) i) as [w1 r]. simpl in HC1. destruct r; assumption.
Qed.
Theorem cache_history : forall h w, Inv w -> CacheInv w -> guard_ops w h = true -> CacheInv (run w h).
Proof.
  induction h as [|[[o ro] co] r IH]; intros w HI HC G; simpl in *; [assumption|].
  apply andb_true_iff in G. destruct G as [G1 G2].
  apply IH; [apply step_inv; assumption | apply step_cache; assumption | assumption].
Qed.
