(* C12 — method applicability: the dispatch cache of every generic stays consistent with the precedence
   lists along every guarded history, so that a call finds exactly the methods of the classes on the
   precedence list of its argument's class *)
From C12 Require Import Model Spec Lists LinProofs ClassProofs HistProofs.

Definition CacheInv (w : world) : Prop :=
  lookup (reg w) TT = None /\
  forall k g key l, lookup (gfs w) k = Some g -> lookup (g_cache g) key = Some l ->
    l <> [] /\ ((key = TT /\ l = applicable g [TT]) \/
                exists id c, registered w key id c /\ co_prec c <> [] /\ l = applicable g (co_prec c)).

Lemma CacheInv_w0 : CacheInv w0.
Proof. split; [reflexivity|]. intros k g key l H. discriminate. Qed.

Lemma CacheInv_heap_reg_gfs : forall w w', heap w' = heap w -> reg w' = reg w -> gfs w' = gfs w -> CacheInv w -> CacheInv w'.
Proof.
  intros [h r g i] [h' r' g' i'] Hh Hr Hg H. simpl in *. subst. exact H.
Qed.

Lemma add_method_cache : forall w k c, CacheInv w -> CacheInv (add_method w k c).
Proof.
  intros w k c [HT H]. split; [exact HT|]. intros k' g key l Hl Hc. unfold add_method in Hl. simpl in Hl.
  destruct (Nat.eq_dec k' k) as [->|Hne].
  - rewrite lookup_set_same in Hl. inversion Hl; subst g. simpl in Hc. discriminate.
  - rewrite lookup_set_other in Hl by assumption. exact (H k' g key l Hl Hc).
Qed.
Lemma slot_methods_cache : forall w n sd, CacheInv w -> CacheInv (slot_methods w n sd).
Proof.
  intros w n sd H. unfold slot_methods.
  destruct (sd_reader sd), (sd_writer sd), (sd_accessor sd); repeat apply add_method_cache; assumption.
Qed.
Lemma fold_slot_methods_cache : forall slots w n, CacheInv w -> CacheInv (fold_left (fun w sd => slot_methods w n sd) slots w).
Proof. induction slots as [|sd r IH]; intros w n H; simpl; [assumption|]. apply IH. apply slot_methods_cache. assumption. Qed.

(* ---- a call ------------------------------------------------------------------------------------ *)
Lemma hier_nonnil : forall c, hier c <> [].
Proof. intros c. unfold hier, hier_of. destruct (co_prec c); discriminate. Qed.

Theorem call_gf_spec : forall w k i, Inv w -> CacheInv w -> current w i = true ->
  exists ins c, nth_error (insts w) i = Some ins /\ registered w (co_name c) (i_cid ins) c /\
    snd (call_gf w k i) = (match applicable (get_gf w k) (hier c) with [] => None | l => Some l end) /\
    CacheInv (fst (call_gf w k i)).
Proof.
  intros w k i HI HC Hcur. unfold current in Hcur.
  destruct (nth_error (insts w) i) as [ins|] eqn:Ei; [|discriminate].
  destruct (get w (i_cid ins)) as [c|] eqn:Gc; [|discriminate].
  destruct (lookup (reg w) (co_name c)) as [id|] eqn:L; [|discriminate].
  apply Nat.eqb_eq in Hcur. subst id.
  exists ins, c. split; [reflexivity|]. split; [split; assumption|].
  unfold call_gf. rewrite Ei, Gc. pose proof HC as [HT HCe].
  destruct (hier c) as [|key p] eqn:Eh; [exfalso; exact (hier_nonnil c Eh)|].
  (* the key is t for a class that is not ready, the class name otherwise *)
  assert (Hkey : (co_prec c = [] /\ key = TT /\ p = []) \/ (co_prec c = key :: p /\ key = co_name c)).
  { unfold hier, hier_of in Eh. destruct (co_prec c) as [|k0 p0] eqn:Ep.
    - left. inversion Eh. auto.
    - right. inversion Eh; subst k0 p0. split; [reflexivity|].
      destruct HI as [[_ HJ] _]. destruct (HJ (co_name c) (i_cid ins) c (conj L Gc)) as [_ H].
      destruct (H (fun x => x)) as [[_ [_ [Hp _]]]|[Hb _]]; [|congruence]. rewrite Hp in Ep. unfold mk_prec in Ep. inversion Ep. reflexivity. }
  destruct (lookup (g_cache (get_gf w k)) key) as [l|] eqn:El.
  + cbn [fst snd]. split; [|assumption].
    unfold get_gf in El. destruct (lookup (gfs w) k) as [g|] eqn:Eg; [|discriminate].
    destruct (HCe k g key l Eg El) as [Hne Hd].
    unfold get_gf. rewrite Eg.
    assert (l = applicable g (key :: p)) as ->; [|destruct (applicable g (key :: p)); [contradiction | reflexivity]].
    destruct Hkey as [[Hb [-> ->]]|[Ep Hk]].
    * destruct Hd as [[_ Hl]|[id' [c' [[L' _] _]]]]; [assumption | congruence].
    * destruct Hd as [[Hk' _]|[id' [c' [[L' G'] [_ Hl]]]]].
      -- assert (co_name c = TT) as Hn by congruence. rewrite Hn in L. congruence.
      -- rewrite Hk in L'. rewrite L in L'. inversion L'; subst id'. rewrite Gc in G'. inversion G'; subst c'. rewrite Ep in Hl. assumption.
  + destruct (applicable (get_gf w k) (key :: p)) as [|a l] eqn:Ea.
    * cbn [fst snd]. split; [reflexivity | assumption].
    * cbn [fst snd]. split; [reflexivity|]. split; [exact HT|].
      intros k' g' key' l' Hl' Hc'. cbn [gfs with_gfs] in Hl'.
      destruct (Nat.eq_dec k' k) as [->|Hne].
      -- rewrite lookup_set_same in Hl'. inversion Hl'; subst g'. simpl in Hc'.
         destruct (Nat.eq_dec key' key) as [->|Hk].
         ++ rewrite lookup_set_same in Hc'. inversion Hc'; subst l'. split; [discriminate|].
            destruct Hkey as [[Hb [-> ->]]|[Ep Hk]].
            ** left. split; [reflexivity|]. unfold applicable in *. simpl g_methods. symmetry. assumption.
            ** right. exists (i_cid ins), c. split; [split; [rewrite Hk; assumption | assumption]|]. split; [congruence|].
               rewrite Ep. unfold applicable in *. simpl g_methods. symmetry. assumption.
         ++ rewrite lookup_set_other in Hc' by assumption.
            unfold get_gf in Hc'. destruct (lookup (gfs w) k) as [g|] eqn:Eg; [|discriminate].
            destruct (HCe k g key' l' Eg Hc') as [A Hd]. split; [assumption|].
            unfold get_gf. rewrite Eg. simpl g_methods. exact Hd.
      -- rewrite lookup_set_other in Hl' by assumption. exact (HCe k' g' key' l' Hl' Hc').
Qed.

(* ---- defclass ------------------------------------------------------------------------------------ *)
Lemma ready_pass_keeps_ready : forall l w w' ch, ready_pass w l = (w', ch) -> forall j, readyb w j = true -> get w' j = get w j /\ readyb w' j = true.
Proof.
  induction l as [|id r IH]; intros w w' ch H j Hj; simpl in H.
  - inversion H; subst. auto.
  - destruct (readyb w id) eqn:R.
    + eapply IH; eassumption.
    + destruct (merge w id) as [w1 ok] eqn:M. destruct (ready_pass w1 r) as [w2 ch2] eqn:P. inversion H; subst w2.
      destruct (merge_ext _ _ _ _ M) as [E Hother].
      assert (j <> id) as Hne by (intros ->; congruence).
      assert (readyb w1 j = true) as Hj1 by (unfold readyb; rewrite (Hother j Hne); exact Hj).
      destruct (IH w1 w' ch2 P j Hj1) as [A B]. split; [rewrite A; apply Hother; assumption | assumption].
Qed.
Lemma ready_loop_keeps_ready : forall l fuel w j, readyb w j = true -> get (ready_loop fuel w l) j = get w j.
Proof.
  intros l. induction fuel as [|f IH]; intros w j Hj; simpl; [reflexivity|].
  destruct (ready_pass w l) as [w1 ch] eqn:P. destruct (ready_pass_keeps_ready l w w1 ch P j Hj) as [A B].
  destruct ch; [rewrite IH by assumption; assumption | assumption].
Qed.
Lemma fold_merge_keeps : forall l w j, ~ In j l -> get (fold_left (fun w id => fst (merge w id)) l w) j = get w j.
Proof.
  induction l as [|id r IH]; intros w j Hj; simpl; [reflexivity|].
  destruct (merge w id) as [w1 ok] eqn:M. simpl. destruct (merge_ext _ _ _ _ M) as [_ Hother].
  rewrite IH by (intro Hc; apply Hj; right; assumption). apply Hother. intros ->. apply Hj. left. reflexivity.
Qed.
Lemma class_changed_keeps : forall n corder w j, inherits w j n = false -> get (class_changed w n corder) j = get w j.
Proof.
  intros n corder w j Hj. unfold class_changed. apply fold_merge_keeps.
  intro Hc. apply stale_order_In in Hc. destruct Hc as [_ Hc]. congruence.
Qed.

Lemma defclass_gfs : forall w n supers slots ro co, Inv w -> g_defclass w n supers slots ro co = true ->
  gfs (defclass w n supers slots ro co) = gfs (fold_left (fun w sd => slot_methods w n sd) slots w) /\
  reg (defclass w n supers slots ro co) = set_assoc (reg w) n (length (heap w)).
Proof.
  intros w n supers slots ro co HI G. destruct (defclass_inv w n supers slots ro co HI G) as [_ [R [Gf _]]].
  rewrite Gf, R. destruct (defclass_reg_shape w n supers slots) as [R' _]. split; [|assumption].
  unfold defclass_reg. simpl.
  set (w1 := fold_left (fun w sd => slot_methods w n sd) slots w).
  destruct (merge_ext _ _ _ _ (surjective_pairing (merge (with_heap w1 (heap w1 ++ [mkCO n supers slots [] [] [] []])) (length (heap w))))) as [[_ [Gm _]] _].
  rewrite Gm. reflexivity.
Qed.

Lemma add_method_entry : forall w k' c' k g0 key l, lookup (gfs (add_method w k' c')) k = Some g0 ->
  lookup (g_cache g0) key = Some l -> lookup (gfs w) k = Some g0.
Proof.
  intros w k' c' k g0 key l H1 H2. unfold add_method in H1. simpl in H1. destruct (Nat.eq_dec k k') as [->|Hne'].
  - rewrite lookup_set_same in H1. inversion H1; subst g0. simpl in H2. discriminate.
  - rewrite lookup_set_other in H1 by assumption. assumption.
Qed.
(* an entry that survives the definition of the accessor methods was there before *)
Lemma fold_slot_methods_entry : forall slots w n k g0 key l,
  lookup (gfs (fold_left (fun w sd => slot_methods w n sd) slots w)) k = Some g0 ->
  lookup (g_cache g0) key = Some l -> lookup (gfs w) k = Some g0.
Proof.
  induction slots as [|sd r IHs]; intros w n k g0 key l Hl Hc; simpl in Hl; [assumption|].
  pose proof (IHs _ n k g0 key l Hl Hc) as A. unfold slot_methods in A.
  destruct (sd_reader sd), (sd_writer sd), (sd_accessor sd);
    repeat (match goal with H : lookup (gfs (add_method _ _ _)) k = Some g0 |- _ => apply (add_method_entry _ _ _ k g0 key l) in H; [|assumption] end); assumption.
Qed.

Theorem defclass_cache : forall w n supers slots ro co, Inv w -> CacheInv w ->
  g_defclass w n supers slots ro co = true -> CacheInv (defclass w n supers slots ro co).
Proof.
  intros w n supers slots ro co HI HC G.
  destruct (defclass_gfs w n supers slots ro co HI G) as [Hg Hr].
  destruct (defclass_inv w n supers slots ro co HI G) as [_ E].
  set (w1 := fold_left (fun w sd => slot_methods w n sd) slots w) in *.
  pose proof (fold_slot_methods_cache slots w n HC) as HC1. fold w1 in HC1.
  destruct (fold_slot_methods_frame slots w n) as [Hh1 [Hr1 _]]. fold w1 in Hh1, Hr1.
  destruct HC1 as [HT1 HC1]. rewrite Hr1 in HT1.
  assert (n <> TT) as HnT.
  { unfold g_defclass in G. repeat (apply andb_true_iff in G; destruct G as [G ?]).
    apply Nat.ltb_lt in G. unfold SO, TT in *. lia. }
  split; [rewrite Hr; rewrite lookup_set_other by (intro Hc; apply HnT; symmetry; exact Hc); exact HT1|].
  intros k g key l Hl Hc. rewrite Hg in Hl.
  destruct (HC1 k g key l Hl Hc) as [Hne [[HkT HlT]|[id [c [[L1 G1] [Hp Happ]]]]]]; (split; [assumption|]); [left; split; assumption|]. right.
  rewrite Hr1 in L1. unfold get in G1. rewrite Hh1 in G1. fold (get w id) in G1.
  assert (registered w key id c) as Hreg by (split; assumption).
  pose proof (old_id_lt w HI key id L1) as Hlt.
  (* the class under this key is ready, is not n and does not inherit n *)
  assert (key <> n /\ inherits w id n = false) as [Hkn Hni].
  { destruct (g_defclass_parts _ _ _ _ _ _ G) as [_ [_ [_ [_ [_ Hcase]]]]].
    assert (good w key c) as Hgood.
    { destruct HI as [[_ HJ] _]. destruct (HJ key id c Hreg) as [_ H]. destruct (H (fun x => x)) as [Hg'|[Hb _]]; [assumption | contradiction]. }
    assert (HA : (forall id' c', registered w n id' c' -> co_prec c' = []) -> key <> n /\ inherits w id n = false).
    { intros HA. destruct (caseA_not_mentioned w n HI HA key id c Hreg Hgood) as [A B]. split; [assumption|].
      unfold inherits. rewrite G1. rewrite inh_has_memb. apply memb_false. assumption. }
    destruct (lookup (reg w) n) as [old|] eqn:Lold.
    - destruct (readyb w old) eqn:Rold.
      + repeat (apply andb_true_iff in Hcase; destruct Hcase as [Hcase ?]).
        match goal with Hk : forallb _ (cache_keys w) = true |- _ => rename Hk into Gcache end.
        assert (In key (cache_keys w)) as Hin.
        { unfold cache_keys. apply in_flat_map.
          (* the entry was in w's gfs already: slot_methods only empties caches *)
          pose proof (fold_slot_methods_entry slots w n k g key l Hl Hc) as Hg0. pose proof Hc as Hc0.
          exists (k, g). split; [apply lookup_In; assumption|]. simpl. apply in_map_iff. exists (key, l). split; [reflexivity | apply lookup_In; assumption]. }
        pose proof (forallb_In _ _ _ key Gcache Hin) as Hb. apply negb_true_iff in Hb. apply memb_false in Hb.
        split.
        * intros ->. apply Hb. left. reflexivity.
        * destruct (inherits w id n) eqn:Ei; [|reflexivity]. exfalso. apply Hb. right. apply in_flat_map. exists id.
          split; [apply sub_ids_In; split; [eapply registered_reg_ids; eassumption | assumption]|].
          unfold name_of. rewrite G1. left. destruct HI as [[[_ HW] _] _]. destruct (HW key id L1) as [c' [Gc' [Nc' _]]]. congruence.
      + apply HA. intros id' c' [L' G']. rewrite Lold in L'. inversion L'; subst id'.
        destruct (co_prec c') eqn:E'; [reflexivity|]. exfalso.
        assert (readyb w old = true) by (apply readyb_true; exists c'; split; [assumption | congruence]). congruence.
    - apply HA. intros id' c' [L' _]. congruence. }
  (* so its object is untouched *)
  exists id, c. split; [|split; assumption]. split.
  - rewrite Hr. rewrite lookup_set_other by assumption. assumption.
  - unfold defclass, defclass_pre.
    set (wr := defclass_reg w n supers slots).
    assert (get wr id = Some c) as Gwr by (unfold wr; rewrite (get_wr_old w n supers slots id Hlt); assumption).
    assert (readyb wr id = true) as Rwr by (apply readyb_true; exists c; split; assumption).
    assert (get (make_ready wr ro) id = Some c) as Gpre by (unfold make_ready; rewrite ready_loop_keeps_ready; assumption).
    rewrite class_changed_keeps; [assumption|].
    unfold inherits. rewrite Gpre. unfold inherits in Hni. rewrite G1 in Hni. assumption.
Qed.

(* ---- every guarded step, every guarded history ---------------------------------------------------- *)
Theorem step_cache : forall w o ro co, Inv w -> CacheInv w -> g_step w o ro co = true -> CacheInv (fst (step w o ro co)).
Proof.
  intros w o ro co HI HC G. destruct o; simpl in *.
  - apply defclass_cache; assumption.
  - destruct (lookup (reg w) n) as [id|]; [|assumption]. destruct (get w id) as [c|]; [|assumption].
    destruct (make_instance (heap w) c args); simpl; [|assumption].
    eapply CacheInv_heap_reg_gfs; [| | |exact HC]; reflexivity.
  - destruct (nth_error (insts w) i); assumption.
  - destruct (nth_error (insts w) i); assumption.
  - destruct (nth_error (insts w) i) as [ins|]; [|assumption]. destruct (lookup (i_vars ins) s); simpl; [|assumption].
    destruct (upd_inst_frame w i (set_assoc (i_vars ins) s (Some v))) as [A [B C]]. eapply CacheInv_heap_reg_gfs; eassumption.
  - destruct (nth_error (insts w) i) as [ins|]; [|assumption]. destruct (lookup (i_vars ins) s); simpl; [|assumption].
    destruct (upd_inst_frame w i (set_assoc (i_vars ins) s None)) as [A [B C]]. eapply CacheInv_heap_reg_gfs; eassumption.
  - destruct (call_gf_spec w (gkey k s) i HI HC G) as [ins [c [_ [_ [_ HC1]]]]].
    destruct (call_gf w (gkey k s) i) as [w1 r]. simpl in HC1.
    destruct r; [|assumption].
    destruct (nth_error (insts w1) i) as [ins1|]; [|assumption].
    destruct (Nat.eqb k KR || Nat.eqb k KAR); [assumption|].
    destruct (lookup (i_vars ins1) s); simpl; [|assumption].
    destruct (upd_inst_frame w1 i (set_assoc (i_vars ins1) s (Some v))) as [A [B C]]. eapply CacheInv_heap_reg_gfs; eassumption.
  - destruct (nth_error (insts w) i) as [ins|]; [|assumption]. destruct (get w (i_cid ins)); assumption.
  - destruct (nth_error (insts w) i) as [ins|]; [|assumption]. destruct (get w (i_cid ins)); assumption.
  - apply add_method_cache. assumption.
  - destruct (call_gf_spec w (gkey KU 0) i HI HC G) as [ins [c [_ [_ [_ HC1]]]]].
    destruct (call_gf w (gkey KU 0) i) as [w1 r]. simpl in HC1. destruct r; assumption.
Qed.
Theorem cache_history : forall h w, Inv w -> CacheInv w -> guard_ops w h = true -> CacheInv (run w h).
Proof.
  induction h as [|[[o ro] co] r IH]; intros w HI HC G; simpl in *; [assumption|].
  apply andb_true_iff in G. destruct G as [G1 G2].
  apply IH; [apply step_inv; assumption | apply step_cache; assumption | assumption].
Qed.
