(* C12 — the statements Properties.v exports, the refutations outside the guard, and examples showing that
   the hypotheses are satisfiable by non-trivial histories *)
From C12 Require Export Model Spec Corr Lists LinProofs ClassProofs HistProofs InstProofs DispatchProofs.

(* ---- all invariants along every guarded history ---------------------------------------------------- *)
Theorem invariants_history : forall h, guard_ops w0 h = true -> Inv (run w0 h) /\ CacheInv (run w0 h).
Proof.
  intros h G. split; [apply inv_history; [apply Inv_w0 | assumption] | apply cache_history; [apply Inv_w0 | apply CacheInv_w0 | assumption]].
Qed.

(* the arbitrary orders of makeClassesReady and classChanged do not matter inside the guard *)
Theorem iteration_order_irrelevant : forall w n supers slots ro co ro' co', Inv w ->
  g_defclass w n supers slots ro co = true -> g_defclass w n supers slots ro' co' = true ->
  forall m, prec_of (defclass w n supers slots ro co) m = prec_of (defclass w n supers slots ro' co') m.
Proof.
  intros w n supers slots ro co ro' co' HI G G' m.
  apply prec_function_of_table; try (apply defclass_inv; assumption).
  intros m'. rewrite (table_defclass w n supers slots ro co HI G), (table_defclass w n supers slots ro' co' HI G'). reflexivity.
Qed.

(* a (re)definition is reflected in every class: after the guarded step every precedence list is the
   specification's for the updated table *)
Theorem redefinition_propagates : forall w n supers slots ro co, Inv w ->
  g_defclass w n supers slots ro co = true ->
  forall m, (forall f l, lin (tupd (table w) n supers) f m = Some l -> prec_of (defclass w n supers slots ro co) m = m :: l ++ [SO; TT]) /\
            ((forall f, lin (tupd (table w) n supers) f m = None) -> prec_of (defclass w n supers slots ro co) m = []).
Proof.
  intros w n supers slots ro co HI G m.
  destruct (defclass_inv w n supers slots ro co HI G) as [HI' _].
  pose proof (table_defclass w n supers slots ro co HI G) as HT.
  destruct (prec_of_spec (defclass w n supers slots ro co) m HI') as [A B]. split.
  - intros f l Hf. apply (A f). rewrite (lin_pointwise _ _ f m HT). assumption.
  - intros Hn. apply B. intros f. rewrite (lin_pointwise _ _ f m HT). apply Hn.
Qed.

(* typep, class-of and the methods a call finds all read the precedence list of the class object, which is
   the specification's; while the class is not ready (P = []) typep and dispatch see the hierarchy (t) *)
Theorem typep_classof_dispatch_agree : forall w i, Inv w -> CacheInv w -> current w i = true ->
  exists n P, 
    (forall f l, lin (table w) f n = Some l -> P = n :: l ++ [SO; TT]) /\
    ((forall f, lin (table w) f n = None) -> P = []) /\
    snd (step w (OClassOf i) [] []) = ONames P /\
    (forall m, snd (step w (OTypep i m) [] []) = OB (memb m (hier_of P))) /\
    (forall k, snd (call_gf w k i) = let l := applicable (get_gf w k) (hier_of P) in if callable k l then Some l else None).
Proof.
  intros w i HI HC Hcur.
  destruct (call_gf_spec w 0 i HI HC Hcur) as [ins [c [Ei [Hr _]]]].
  exists (co_name c), (co_prec c).
  destruct (prec_is_spec w (co_name c) (i_cid ins) c HI Hr) as [A B].
  split; [intros f l Hf; apply (A f l Hf)|]. split; [intros Hn; apply (B Hn)|].
  simpl. rewrite Ei. rewrite (proj2 Hr). split; [reflexivity|]. split; [reflexivity|].
  intros k. destruct (call_gf_spec w k i HI HC Hcur) as [ins' [c' [Ei' [Hr' [Hs _]]]]].
  rewrite Ei in Ei'. inversion Ei'; subst ins'. destruct Hr as [_ G1]. destruct Hr' as [_ G2]. rewrite G1 in G2. inversion G2; subst c'. assumption.
Qed.

(* ---- executable helpers for witnesses ------------------------------------------------------------- *)
Definition spec_prec (w : world) (n : nat) : list nat := cpl_of n (lin (table w) 7 n).
Definition dc n sup sl ro co : hstep := (ODefclass n sup sl, ro, co).
Definition other (o : op) : hstep := (o, [], []).
Fixpoint run_obs (w : world) (h : list hstep) : list obs :=
  match h with [] => [] | (o, ro, co) :: r => snd (step w o ro co) :: run_obs (fst (step w o ro co)) r end.
Definition corder_id (w : world) (o : op) : list nat :=
  match o with ODefclass n supers slots => sub_ids (defclass_pre w n supers slots (rorder_for w o)) n | _ => [] end.
Fixpoint auto_hist (w : world) (ops : list op) : list hstep :=
  match ops with
  | [] => []
  | o :: r => let ro := rorder_for w o in let co := corder_id w o in (o, ro, co) :: auto_hist (fst (step w o ro co)) r
  end.

(* ---- refutations: outside the guard the faithful model violates S --------------------------------- *)
(* (1) REPAIRED (repo_fixes/C12-2, finding C12-redefinition-order-of-subclasses).  a (=0), b (=1) under a,
   c (=2) under b, z (=3); a is redefined with the superclass z.  The unchanged classChanged merged the
   inheriting classes in map order: when c was merged before b it copied b's stale list.  Now both map orders
   are inside the guard and give c the specification's list. *)
Definition h_chain : list hstep := [dc 0 [] [] [0] []; dc 1 [0] [] [0; 1] []; dc 2 [1] [] [0; 1; 2] []; dc 3 [] [] [0; 1; 2; 3] []].
Definition w_order_cb : list hstep := h_chain ++ [dc 0 [3] [] [4; 1; 2; 3] [2; 1]].
Definition w_order_bc : list hstep := h_chain ++ [dc 0 [3] [] [4; 1; 2; 3] [1; 2]].
Theorem classchanged_any_order_example :
  guard_ops w0 w_order_cb = true /\ guard_ops w0 w_order_bc = true /\
  prec_of (run w0 w_order_cb) 2 = [2; 1; 0; 3; SO; TT] /\ prec_of (run w0 w_order_bc) 2 = [2; 1; 0; 3; SO; TT] /\
  spec_prec (run w0 w_order_cb) 2 = [2; 1; 0; 3; SO; TT].
Proof. vm_compute. repeat split. Qed.
(* the unchanged code, for the record: merging in the order given *)
Definition class_changed_orig (w : world) (n : nat) (corder : list nat) : world :=
  fold_left (fun w id => if inherits w id n then fst (merge w id) else w) corder w.
Theorem original_classchanged_order_refuted :
  let pre := defclass_pre (run w0 h_chain) 0 [3] [] [4; 1; 2; 3] in
  prec_of (class_changed_orig pre 0 [2; 1]) 2 = [2; 1; 0; SO; TT] /\
  prec_of (class_changed_orig pre 0 [1; 2]) 2 = [2; 1; 0; 3; SO; TT] /\
  prec_of (class_changed pre 0 [2; 1]) 2 = [2; 1; 0; 3; SO; TT].
Proof. vm_compute. repeat split. Qed.

(* (2) REPAIRED (repo_fixes/C12-3, finding C12-redefinition-with-undefined-superclass).  a (=0), b (=1)
   under a; a is redefined with the superclass z (=3), which is defined afterwards.  The unchanged mergeSupers
   left b ready with its old list when its re-merge failed, and nothing merged b again.  Now the history is
   inside the guard: b is not ready while z is missing and has the specification's list once z is defined. *)
Definition w_fwd_prefix : list hstep := [dc 0 [] [] [0] []; dc 1 [0] [] [0; 1] []; other (OMake 1 [])].
Definition w_fwd_mid : list hstep := w_fwd_prefix ++ [dc 0 [3] [] [2; 1] [1]].
Definition w_fwd : list hstep := w_fwd_mid ++ [dc 3 [] [] [2; 1; 3] [2; 1]].
Theorem redefinition_forward_reference_example :
  guard_ops w0 w_fwd = true /\
  prec_of (run w0 w_fwd_mid) 0 = [] /\ prec_of (run w0 w_fwd_mid) 1 = [] /\ spec_prec (run w0 w_fwd_mid) 1 = [] /\
  snd (step (run w0 w_fwd_mid) (OTypep 0 1) [] []) = OB false /\ snd (step (run w0 w_fwd_mid) (OMake 1 []) [] []) = OErr /\
  prec_of (run w0 w_fwd) 0 = [0; 3; SO; TT] /\
  prec_of (run w0 w_fwd) 1 = [1; 0; 3; SO; TT] /\ spec_prec (run w0 w_fwd) 1 = [1; 0; 3; SO; TT] /\
  snd (step (run w0 w_fwd) (OTypep 0 3) [] []) = OB true.
Proof. vm_compute. repeat split. Qed.
(* the unchanged code, for the record: a failing merge emptied the inherit list only *)
Definition merge_orig (w : world) (id : nat) : world :=
  match get w id with
  | None => w
  | Some c =>
      match phase1 (reg w) (heap w) (co_supers c) [] with
      | None => with_heap w (set_nth (heap w) id (mkCO (co_name c) (co_supers c) (co_slots c) [] (co_prec c) (co_initargs c) (co_initforms c)))
      | Some _ => fst (merge w id)
      end
  end.
Theorem original_redefinition_forward_reference_refuted :
  let pre := defclass_pre (run w0 w_fwd_prefix) 0 [3] [] [2; 1] in
  prec_of (merge_orig pre 1) 1 = [1; 0; SO; TT] /\ readyb (merge_orig pre 1) 1 = true /\ inherits (merge_orig pre 1) 1 0 = false /\
  spec_prec pre 1 = [] /\ prec_of (class_changed pre 0 [1]) 1 = [].
Proof. vm_compute. repeat split. Qed.

(* (3) REPAIRED (repo_fixes/C12-4, finding C12-dispatch-cache-survives-redefinition).  b (=1) under a (=0) is
   redefined under z (=3) after a call cached "b -> a's method".  The unchanged code kept the entry: a new
   instance of b still got a's method although typep denies it is an a.  Now defclass drops the caches: the
   history is inside the guard and the new instance gets z's method. *)
Definition w_cache_prefix : list hstep :=
  [dc 0 [] [] [0] []; dc 3 [] [] [0; 1] []; dc 1 [0] [] [0; 1; 2] []; other (ODefMethod 0); other (ODefMethod 3);
   other (OMake 1 []); other (ODispatch 0)].
Definition w_cache : list hstep := w_cache_prefix ++ [dc 1 [3] [] [0; 1; 3] []; other (OMake 1 []); other (ODispatch 1); other (OTypep 1 0)].
Theorem dispatch_cache_cleared_example :
  guard_ops w0 w_cache = true /\
  prec_of (run w0 w_cache) 1 = [1; 3; SO; TT] /\ spec_prec (run w0 w_cache) 1 = [1; 3; SO; TT] /\
  skipn 6 (run_obs w0 w_cache_prefix) = [ONames [0]] /\
  skipn 9 (run_obs w0 w_cache) = [ONames [3]; OB false].
Proof. vm_compute. repeat split. Qed.
(* the unchanged code, for the record: the same defclass without ClearCaches *)
Theorem original_dispatch_cache_stale_refuted :
  let w := run w0 w_cache_prefix in
  let w1 := fst (step (defclass_merged w 1 [3] [] [0; 1; 3] []) (OMake 1 []) [] []) in
  let w2 := fst (step (defclass w 1 [3] [] [0; 1; 3] []) (OMake 1 []) [] []) in
  snd (step w1 (ODispatch 1) [] []) = ONames [0] /\ snd (step w1 (OTypep 1 0) [] []) = OB false /\
  snd (step w2 (ODispatch 1) [] []) = ONames [3].
Proof. vm_compute. repeat split. Qed.
(* (3') STILL OUTSIDE THE GUARD: the cache is keyed by the class NAME.  An instance made before the redefinition
   keeps the old class object; a call with it (not guarded: its class object is not the registered one) caches
   "b -> a's method" again, and the next call with a new instance of b uses that entry. *)
Definition w_key_prefix : list hstep :=
  [dc 0 [] [] [0] []; dc 3 [] [] [0; 1] []; dc 1 [0] [] [0; 1; 2] []; other (ODefMethod 0); other (ODefMethod 3);
   other (OMake 1 []); dc 1 [3] [] [0; 1; 3] []; other (OMake 1 [])].
Definition w_key : list hstep := w_key_prefix ++ [other (ODispatch 0); other (ODispatch 1); other (OTypep 1 0)].
Theorem dispatch_cache_class_name_refuted :
  guard_ops w0 w_key_prefix = true /\ guard_ops w0 w_key = false /\
  guard_ops w0 (w_key_prefix ++ [other (ODispatch 1)]) = true /\
  last (run_obs w0 (w_key_prefix ++ [other (ODispatch 1)])) OErr = ONames [3] /\
  prec_of (run w0 w_key) 1 = [1; 3; SO; TT] /\ spec_prec (run w0 w_key) 1 = [1; 3; SO; TT] /\
  skipn 8 (run_obs w0 w_key) = [ONames [0]; ONames [0]; OB false].
Proof. vm_compute. repeat split. Qed.

(* (4) REPAIRED (repo_fixes/C12-5, finding C12-initarg-shared-by-two-slots).  x of class a and y of its subclass
   b both take :k; x and y of class c both take :k within one form.  The unchanged initArgs map held one slot
   per initarg: only the most specific one was filled.  Now both histories are inside the guard and :k fills
   both slots, as slot_S says. *)
Definition sdx := mkSD 0 [0] None false false false.
Definition sdy := mkSD 1 [0] None false false false.
Definition w_shared_prefix : list hstep := [dc 0 [] [sdx] [0] []; dc 1 [0] [sdy] [0; 1] []; dc 2 [] [sdx; sdy] [0; 1; 2] []].
Definition w_shared : list hstep := w_shared_prefix ++ [other (OMake 1 [(0, 5%Z)]); other (OMake 2 [(0, 6%Z)])].
Theorem shared_initarg_example :
  guard_ops w0 w_shared = true /\
  skipn 3 (run_obs w0 w_shared) = [OInst [SVal 5; SVal 5; SMissing; SMissing]; OInst [SVal 6; SVal 6; SMissing; SMissing]] /\
  map (slot_S (cs_of (run w0 w_shared_prefix)) [1; 0] [(0, 5%Z)]) [0; 1; 2; 3] = [SVal 5; SVal 5; SMissing; SMissing].
Proof. vm_compute. repeat split. Qed.
(* the unchanged code, for the record: the first slot found for the initarg only *)
Fixpoint shared_args_orig (ia : list (nat * nat)) (args : list (nat * Z)) (seen : list nat) (vs : varmap)
  : option (list nat * varmap) :=
  match args with
  | [] => Some (seen, vs)
  | (k, v) :: r =>
      match lookup ia k with
      | None => None
      | Some s => if memb s seen then None else shared_args_orig ia r (s :: seen) (set_assoc vs s (Some v))
      end
  end.
Theorem original_shared_initarg_refuted :
  let w := run w0 w_shared_prefix in
  match lookup (reg w) 1 with
  | Some id => match get w id with
               | Some c =>
                   let v0 := fold_left (fun vs p => init_inh (slots_of (heap w) p) vs) (co_inherit c) (init_own (co_slots c) []) in
                   match shared_args_orig (co_initargs c) [(0, 5%Z)] [] v0, shared_args (co_initargs c) [(0, 5%Z)] [] v0 with
                   | Some (_, v1), Some (_, v2) =>
                       map (slot_state v1) [0; 1] = [SUnbound; SVal 5] /\ map (slot_state v2) [0; 1] = [SVal 5; SVal 5]
                   | _, _ => False
                   end
               | None => False
               end
  | None => False
  end.
Proof. vm_compute. repeat split. Qed.

(* (5) two initargs of one slot, both supplied: an error instead of the first one's value *)
Definition sd2 := mkSD 0 [0; 1] None false false false.
Definition w_two_prefix : list hstep := [dc 0 [] [sd2] [0] []].
Definition w_two : list hstep := w_two_prefix ++ [other (OMake 0 [(0, 1%Z); (1, 2%Z)])].
Theorem two_initargs_one_slot_refuted :
  guard_ops w0 w_two_prefix = true /\ guard_ops w0 w_two = false /\
  last (run_obs w0 w_two) ODone = OErr /\
  valid_args (cs_of (run w0 w_two_prefix)) [0] [(0, 1%Z); (1, 2%Z)] = true /\
  slot_S (cs_of (run w0 w_two_prefix)) [0] [(0, 1%Z); (1, 2%Z)] 0 = SVal 1.
Proof. vm_compute. repeat split. Qed.

(* ---- the guard is satisfiable by a history with forward references, a diamond, shadowed slots,
   initforms at two levels, a nil initform, a redefinition with an inheriting class, accessors, dispatch --- *)
Definition sx0 := mkSD 0 [0] (Some 100%Z) true false false.
Definition sx1 := mkSD 0 [] (Some 120%Z) false false false.
Definition sy1 := mkSD 1 [1] None false true false.
Definition sz2 := mkSD 2 [] (Some (-1)%Z) false false true.
Definition sw1 := mkSD 3 [3] (Some 777%Z) false false false.
Definition ex_ops : list op :=
  [ODefclass 3 [1; 2] []; ODefclass 2 [0] [sz2]; ODefMethod 0; ODefMethod 1; ODefMethod 3; ODefclass 0 [] [sx0]; ODefclass 1 [0] [sx1; sy1];
   OMake 3 [(1, 7%Z)]; OMake 2 [(0, 5%Z)]; OSlotValue 0 0; OSlotValue 0 1; OCall KR 0 1 0%Z; OCall KAW 2 1 4%Z; OCall KAR 2 1 0%Z; OSlotValue 0 2;
   ODispatch 0; OTypep 0 2; OTypep 0 4; OClassOf 0; ODefMethod 2;
   ODefclass 1 [0] [sx1; sy1; sw1]; OMake 3 [(3, 8%Z); (1, 6%Z)]; OMake 3 []; ODispatch 2; OCall KW 1 3 9%Z; OSlotValue 3 1; OSlotValue 2 1;
   OSlotValue 3 3; OBoundp 3 1; OMakunbound 3 3; OSlotValue 3 3; OCall KR 0 3 0%Z].
Theorem guarded_example :
  guard_ops w0 (auto_hist w0 ex_ops) = true /\
  map (prec_of (run w0 (auto_hist w0 ex_ops))) [0; 1; 2; 3; 4] =
    [[0; SO; TT]; [1; 0; SO; TT]; [2; 0; SO; TT]; [3; 1; 2; 0; SO; TT]; []] /\
  map (spec_prec (run w0 (auto_hist w0 ex_ops))) [0; 1; 2; 3; 4] =
    [[0; SO; TT]; [1; 0; SO; TT]; [2; 0; SO; TT]; [3; 1; 2; 0; SO; TT]; []] /\
  skipn 7 (run_obs w0 (auto_hist w0 ex_ops)) =
    [OInst [SVal 120; SVal 7; SVal (-1); SMissing]; OInst [SVal 5; SMissing; SVal (-1); SMissing];
     OV 120; OV 7; OV 5; OV 4; OV 4; OV (-1); ONames [3; 1; 0]; OB true; OB false; ONames [3; 1; 2; 0; SO; TT]; ODone;
     OTable [Some (2, [], [0; SO; TT]); Some (4, [2], [1; 0; SO; TT]); Some (1, [2], [2; 0; SO; TT]);
             Some (0, [4; 1; 2], [3; 1; 2; 0; SO; TT]); None];
     OInst [SVal 120; SVal 6; SVal (-1); SVal 8]; OInst [SVal 120; SUnbound; SVal (-1); SVal 777];
     ONames [3; 1; 2; 0]; OV 9; OV 9; OV 6; OV 777; OB true; ODone; OUnb; OV 120].
Proof. vm_compute. repeat split. Qed.

(* two orders of the same four forms (leaf first / base first), both guarded: same lists, by the theorem *)
Definition perm_a : list op := [ODefclass 3 [1; 2] []; ODefclass 2 [0] [sz2]; ODefclass 0 [] [sx0]; ODefclass 1 [0] [sx1; sy1]].
Definition perm_b : list op := [ODefclass 0 [] [sx0]; ODefclass 1 [0] [sx1; sy1]; ODefclass 2 [0] [sz2]; ODefclass 3 [1; 2] []].
Theorem order_example :
  guard_ops w0 (auto_hist w0 perm_a) = true /\ guard_ops w0 (auto_hist w0 perm_b) = true /\
  map (prec_of (run w0 (auto_hist w0 perm_a))) [0; 1; 2; 3] = map (prec_of (run w0 (auto_hist w0 perm_b))) [0; 1; 2; 3] /\
  map fst (reg (run w0 (auto_hist w0 perm_a))) <> map fst (reg (run w0 (auto_hist w0 perm_b))).
Proof. vm_compute. repeat split. discriminate. Qed.
