(* C12 — proofs (under construction) *)
From C12 Require Import Model Spec.
Lemma placeholder_lookup_nil : forall A k, @lookup A [] k = None.
Proof. reflexivity. Qed.
