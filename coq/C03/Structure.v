(* C03 — lists, dotted lists, vectors and arrays: the round trip by structural induction, for the flat
   printer and for the pretty printer (createTree / appendTree) with any right margin. *)
From C03 Require Import Model Spec Digits Utf8 ReaderLemmas Reading Classes Atoms Atoms2.
From Coq Require Import ZifyBool.
Local Open Scope N_scope.

(* ---- induction over objects (lists of objects inside) ---- *)
Section ObjInd.
  Variable P : obj -> Prop.
  Hypothesis Hatom : forall x, is_atom x = true -> P x.
  Hypothesis Hlist : forall xs, Forall P xs -> P (OList xs).
  Hypothesis Hdot : forall xs tl, Forall P xs -> P tl -> P (ODot xs tl).
  Hypothesis Hvec : forall xs, Forall P xs -> P (OVec xs).
  Hypothesis Harr : forall rank rows, Forall P rows -> P (OArr rank rows).
  Fixpoint obj_ind' (x : obj) : P x :=
    let fix all (l : list obj) : Forall P l :=
      match l with [] => Forall_nil P | e :: l' => Forall_cons e (obj_ind' e) (all l') end in
    match x with
    | OList xs => Hlist xs (all xs)
    | ODot xs tl => Hdot xs tl (all xs) (obj_ind' tl)
    | OVec xs => Hvec xs (all xs)
    | OArr rank rows => Harr rank rows (all rows)
    | ONil => Hatom ONil eq_refl | OTrue => Hatom OTrue eq_refl
    | OInt b z => Hatom (OInt b z) eq_refl | ORat n d => Hatom (ORat n d) eq_refl
    | OFlt k t => Hatom (OFlt k t) eq_refl | OStr s => Hatom (OStr s) eq_refl
    | OChr r => Hatom (OChr r) eq_refl | OSym s => Hatom (OSym s) eq_refl
    | OOther t => Hatom (OOther t) eq_refl
    end.
End ObjInd.

(* ---- the local fixpoints of the definitions, unfolded once and for all ---- *)
Lemma obj_of_tree_node k l :
  obj_of_tree (TNode k l) =
  match k with
  | KList => match all_some (map obj_of_tree l) with Some xs => Some (mk_list xs) | None => None end
  | KVector => match all_some (map obj_of_tree l) with Some xs => Some (OVec xs) | None => None end
  | KArray n => match all_some (map obj_of_tree l) with
                | Some xs => let rank := N.to_nat n in
                             if (rank =? 0)%nat then Some (OOther [48])
                             else if arr_dims_ok rank xs && arr_check (arr_dims rank xs) xs then Some (OArr rank xs) else None
                | None => None end
  | KComplex => Some (OOther [99])
  end.
Proof.
  assert (E : forall k, (fix objs (l : list tree) : list (option obj) := match l with [] => [] | x :: l' => obj_of_tree x :: objs l' end) k = map obj_of_tree k).
  { induction k0 as [|? ? IH]; [reflexivity|]. cbn [map]. rewrite <- IH. reflexivity. }
  destruct k; cbn [obj_of_tree]; rewrite ?E; reflexivity.
Qed.
Lemma obj_of_tree_dot l tl :
  obj_of_tree (TDot l tl) = match all_some (map obj_of_tree l), obj_of_tree tl with Some xs, Some y => Some (ODot xs y) | _, _ => None end.
Proof.
  assert (E : forall k, (fix objs (l : list tree) : list (option obj) := match l with [] => [] | x :: l' => obj_of_tree x :: objs l' end) k = map obj_of_tree k).
  { induction k as [|? ? IH]; [reflexivity|]. cbn [map]. rewrite <- IH. reflexivity. }
  cbn [obj_of_tree]. rewrite ?E. reflexivity.
Qed.
Lemma obj_equal_lists xs ys :
  (fix go (x y : list obj) : bool := match x, y with [] , [] => true | p :: x', q :: y' => obj_equal p q && go x' y' | _, _ => false end) xs ys
  = list_eqb obj_equal xs ys.
Proof. revert ys. induction xs as [|x xs IH]; intros [|y ys]; try reflexivity. cbn [list_eqb]. rewrite <- IH. reflexivity. Qed.
Lemma flat_list c x xs : flat c (OList (x :: xs)) = [40] ++ join_sp (map (flat c) (x :: xs)) ++ [41].
Proof.
  assert (E : forall k, (fix flats (l : list obj) : list (list byte) := match l with [] => [] | e :: l' => flat c e :: flats l' end) k = map (flat c) k).
  { induction k as [|? ? IH]; [reflexivity|]. cbn [map]. rewrite <- IH. reflexivity. }
  cbn [flat]. rewrite ?E. reflexivity.
Qed.
Lemma flat_dot c xs tl : flat c (ODot xs tl) = [40] ++ join_sp (map (flat c) xs ++ [[46; 32] ++ flat c tl]) ++ [41].
Proof.
  assert (E : forall k, (fix flats (l : list obj) : list (list byte) := match l with [] => [] | e :: l' => flat c e :: flats l' end) k = map (flat c) k).
  { induction k as [|? ? IH]; [reflexivity|]. cbn [map]. rewrite <- IH. reflexivity. }
  cbn [flat]. rewrite ?E. reflexivity.
Qed.
Lemma flat_vec c xs : flat c (OVec xs) = if p_array c then [35; 40] ++ join_sp (map (flat c) xs) ++ [41] else novec_text c (length xs).
Proof.
  assert (E : forall k, (fix flats (l : list obj) : list (list byte) := match l with [] => [] | e :: l' => flat c e :: flats l' end) k = map (flat c) k).
  { induction k as [|? ? IH]; [reflexivity|]. cbn [map]. rewrite <- IH. reflexivity. }
  cbn [flat]. rewrite ?E. reflexivity.
Qed.
Lemma flat_arr c rank rows : flat c (OArr rank rows) =
  if p_array c then array_prefix c rank ++ [40] ++ join_sp (map (flat c) rows) ++ [41] else noarr_text c (arr_dims rank rows).
Proof.
  assert (E : forall k, (fix flats (l : list obj) : list (list byte) := match l with [] => [] | e :: l' => flat c e :: flats l' end) k = map (flat c) k).
  { induction k as [|? ? IH]; [reflexivity|]. cbn [map]. rewrite <- IH. reflexivity. }
  cbn [flat]. rewrite ?E. reflexivity.
Qed.
Lemma dom_all c l :
  (fix all (l : list obj) : bool := match l with [] => true | e :: l' => dom c e && all l' end) l = forallb (dom c) l.
Proof. induction l as [|? ? IH]; [reflexivity|]. cbn [forallb]. rewrite <- IH. reflexivity. Qed.
Lemma ptrees_map c l :
  (fix ptrees (l : list obj) : list node := match l with [] => [] | e :: l' => ptree c e :: ptrees l' end) l = map (ptree c) l.
Proof. induction l as [|? ? IH]; [reflexivity|]. cbn [map]. rewrite <- IH. reflexivity. Qed.

Lemma ptree_list c x xs :
  ptree c (OList (x :: xs)) = Node [] (map (ptree c) (x :: xs)) (1 + length (x :: xs) + sum_sizes (map (ptree c) (x :: xs))).
Proof. cbn [ptree]. rewrite ptrees_map. reflexivity. Qed.
Lemma ptree_dot c xs tl :
  ptree c (ODot xs tl) = Node [] (map (ptree c) xs ++ [dot_node; ptree c tl]) (1 + (length xs + 1) + sum_sizes (map (ptree c) xs) + nsize (ptree c tl)).
Proof. cbn [ptree]. rewrite ptrees_map. reflexivity. Qed.
Lemma ptree_vec c x xs :
  ptree c (OVec (x :: xs)) =
  leaf_node (if p_array c then [35] ++ node_text c (Node [] (map (ptree c) (x :: xs)) (1 + length (x :: xs) + sum_sizes (map (ptree c) (x :: xs))))
             else novec_text c (length (x :: xs))).
Proof. cbn [ptree]. rewrite ptrees_map. reflexivity. Qed.
Lemma ptree_arr c rank x rows :
  ptree c (OArr rank (x :: rows)) =
  leaf_node (if p_array c then array_prefix c rank ++ node_text c (Node [] (map (ptree c) (x :: rows)) (1 + length (x :: rows) + sum_sizes (map (ptree c) (x :: rows))))
             else noarr_text c (arr_dims rank (x :: rows))).
Proof. cbn [ptree]. rewrite ptrees_map. reflexivity. Qed.

(* ---- pieces ---- *)
Lemma Reads_nonempty t tr : Reads t tr -> t <> [].
Proof.
  intros H ->. specialize (H s0 p0 s0_ready eq_refl). rewrite run_nil in H.
  change (push_val p0 tr) with {| stack := []; code := [tr] |} in H.
  inversion H as [s (n & ba & sh & rn & rc & E)| | |]; subst.
  unfold s0, mkS, core0 in E. injection E as _ _ _ _ _ E. discriminate E.
Qed.
Lemma RT_nonempty x t : RT x t -> t <> [].
Proof. intros (tr & y & HR & _). eapply Reads_nonempty. exact HR. Qed.

Lemma join_sp_seq (t : list byte) ts : Seq (t :: ts) (join_sp (t :: ts)).
Proof.
  revert t. induction ts as [|u ts IH]; intros t.
  - cbn [join_sp map concat]. rewrite app_nil_r. apply Seq_one.
  - cbn [join_sp map concat]. change (t ++ (32 :: u) ++ concat (map (fun u0 => 32 :: u0) ts)) with (t ++ [32] ++ join_sp (u :: ts)).
    apply Seq_cons; [discriminate|reflexivity|apply IH].
Qed.
Lemma join_dot (l : list (list byte)) t : l <> [] -> join_sp (l ++ [[46; 32] ++ t]) = join_sp (l ++ [[46]; t]).
Proof.
  intros H. destruct l as [|a l]; [contradiction|]. cbn [app join_sp]. f_equal.
  rewrite !map_app, !concat_app. cbn [map concat app]. reflexivity.
Qed.

(* what the elements of a list give, collected *)
Lemma RT_split xs ts : Forall2 RT xs ts ->
  exists trs ys, Forall2 Reads ts trs /\ all_some (map obj_of_tree trs) = Some ys /\ list_eqb obj_equal xs ys = true /\
                 Forall (fun tr => is_dot tr = false) trs /\ length ys = length xs /\ length trs = length xs.
Proof.
  induction 1 as [|x t xs ts (tr & y & HR & Ho & He & Ht & Hd & Hn) _ (trs & ys & H1 & H2 & H3 & H4 & H5 & H6)].
  - exists [], []. repeat split; constructor.
  - exists (tr :: trs), (y :: ys). repeat split.
    + constructor; assumption.
    + cbn [map all_some]. rewrite Ho, H2. reflexivity.
    + cbn [list_eqb]. rewrite He, H3. reflexivity.
    + constructor; assumption.
    + cbn [length]. rewrite H5. reflexivity.
    + cbn [length]. rewrite H6. reflexivity.
Qed.

Lemma dotted_plain (l : list tree) : Forall (fun tr => is_dot tr = false) l -> dotted l = TNode KList l.
Proof.
  intros H. unfold dotted. destruct (rev l) as [|last [|d front]] eqn:E; try reflexivity.
  assert (Hin : In d l). { apply in_rev. rewrite E. right. left. reflexivity. }
  rewrite Forall_forall in H. rewrite (H d Hin). reflexivity.
Qed.
Lemma dotted_dot (l : list tree) tl : l <> [] -> is_nil tl = false -> dotted (l ++ [TLeaf (LTok [46]); tl]) = TDot l tl.
Proof.
  intros Hne Hnil. unfold dotted. rewrite rev_app_distr. cbn [rev app]. cbn [is_dot andb].
  replace (Nat.leb 3 (length (l ++ [TLeaf (LTok [46]); tl]))) with true.
  - rewrite Hnil, rev_involutive. reflexivity.
  - rewrite app_length. cbn [length]. destruct l; [contradiction|]. cbn [length]. symmetry. apply Nat.leb_le. lia.
Qed.
Lemma mk_list_nonempty (ys : list obj) : ys <> [] -> mk_list ys = OList ys.
Proof. destruct ys; [contradiction|reflexivity]. Qed.

(* ---- the four constructors ---- *)
Lemma RT_list xs ts body : xs <> [] -> Forall2 RT xs ts -> Seq ts body -> RT (OList xs) ([40] ++ body ++ [41]).
Proof.
  intros Hne HF HS. destruct (RT_split xs ts HF) as (trs & ys & H1 & H2 & H3 & H4 & H5 & H6).
  exists (TNode KList trs), (OList ys). split; [rewrite <- (dotted_plain trs H4); eapply Reads_list; eassumption|].
  repeat split; try reflexivity; try discriminate.
  - rewrite obj_of_tree_node, H2. f_equal. apply mk_list_nonempty. destruct ys; [destruct xs; [contradiction|discriminate H5]|discriminate].
  - cbn [obj_equal]. rewrite obj_equal_lists. exact H3.
Qed.
Lemma Reads_dot_token : Reads [46] (TLeaf (LTok [46])).
Proof. change (TLeaf (LTok [46])) with (tok_tree [46]). apply Reads_token; reflexivity. Qed.
Lemma Forall2_app_inv {A B} (R : A -> B -> Prop) l1 l2 k1 k2 : Forall2 R l1 k1 -> Forall2 R l2 k2 -> Forall2 R (l1 ++ l2) (k1 ++ k2).
Proof. induction 1; intros; cbn [app]; [assumption|constructor; auto]. Qed.
Lemma RT_dot xs tl ts ttl body : xs <> [] -> Forall2 RT xs ts -> RT tl ttl -> tl <> ONil ->
  Seq (ts ++ [[46]; ttl]) body -> RT (ODot xs tl) ([40] ++ body ++ [41]).
Proof.
  intros Hne HF (trl & yl & HRl & Hol & Hel & Htl & Hdl & Hnl) Htnil HS.
  destruct (RT_split xs ts HF) as (trs & ys & H1 & H2 & H3 & H4 & H5 & H6).
  assert (Hnil : is_nil trl = false). { destruct (is_nil trl) eqn:E; [|reflexivity]. exfalso. apply Htnil, Hnl. reflexivity. }
  exists (TDot trs trl), (ODot ys yl). split.
  - rewrite <- (dotted_dot trs trl); [|destruct trs; [destruct xs; [contradiction|discriminate H6]|discriminate]|exact Hnil].
    eapply Reads_list; [exact HS|]. apply Forall2_app_inv; [exact H1|]. constructor; [exact Reads_dot_token|]. constructor; [exact HRl|constructor].
  - repeat split; try reflexivity; try discriminate.
    + rewrite obj_of_tree_dot, H2, Hol. reflexivity.
    + cbn [obj_equal]. rewrite obj_equal_lists, H3, Hel. reflexivity.
Qed.
Lemma RT_vec xs ts body : xs <> [] -> Forall2 RT xs ts -> Seq ts body -> RT (OVec xs) ([35; 40] ++ body ++ [41]).
Proof.
  intros Hne HF HS. destruct (RT_split xs ts HF) as (trs & ys & H1 & H2 & H3 & H4 & H5 & H6).
  exists (TNode KVector trs), (OVec ys). split; [eapply Reads_vector; eassumption|].
  repeat split; try reflexivity; try discriminate.
  - rewrite obj_of_tree_node, H2. reflexivity.
  - cbn [obj_equal]. rewrite obj_equal_lists. exact H3.
Qed.
Lemma RT_vec_empty : RT (OVec []) [35; 40; 41].
Proof.
  exists (TNode KVector []), (OVec []). split; [apply Reads_vector_empty|]. repeat split; try reflexivity; discriminate.
Qed.

(* ---- arrays: the shape of the rows survives ---- *)
Lemma list_eqb_length {A} (f : A -> A -> bool) xs ys : list_eqb f xs ys = true -> length xs = length ys.
Proof. revert ys. induction xs as [|x xs IH]; intros [|y ys] H; try discriminate; [reflexivity|]. cbn in H. apply andb_true_iff in H as [_ H]. cbn. f_equal. apply IH, H. Qed.
Lemma obj_equal_OList_l a y : obj_equal (OList a) y = true -> exists b, y = OList b /\ list_eqb obj_equal a b = true.
Proof. destruct y; try discriminate. cbn [obj_equal]. rewrite obj_equal_lists. intros H. eexists. split; [reflexivity|exact H]. Qed.
Lemma obj_equal_OList_r x b : obj_equal x (OList b) = true -> exists a, x = OList a /\ list_eqb obj_equal a b = true.
Proof. destruct x; try discriminate; try (destruct big; discriminate). cbn [obj_equal]. rewrite obj_equal_lists. intros H. eexists. split; [reflexivity|exact H]. Qed.

Lemma arr_dims_equal rank : forall xs ys, list_eqb obj_equal xs ys = true -> arr_dims rank xs = arr_dims rank ys.
Proof.
  induction rank as [|r IH]; intros xs ys H; [reflexivity|]. cbn [arr_dims]. rewrite (list_eqb_length _ _ _ H). f_equal.
  destruct xs as [|x xs], ys as [|y ys]; try discriminate H; [reflexivity|].
  cbn [list_eqb] in H. apply andb_true_iff in H as [Hxy _].
  destruct x; try (destruct y; try reflexivity; try discriminate Hxy; destruct big; discriminate Hxy).
  apply obj_equal_OList_l in Hxy as (b & -> & Hb). apply IH. exact Hb.
Qed.
Lemma arr_check_equal dims : forall xs ys, list_eqb obj_equal xs ys = true -> arr_check dims xs = arr_check dims ys.
Proof.
  induction dims as [|d ds IH]; intros xs ys H; [reflexivity|]. cbn [arr_check]. rewrite (list_eqb_length _ _ _ H). f_equal.
  destruct ds as [|d' ds']; [reflexivity|].
  revert ys H. induction xs as [|x xs IHx]; intros [|y ys] H; try discriminate H; [reflexivity|].
  cbn [list_eqb] in H. apply andb_true_iff in H as [Hxy Hrest]. cbn [forallb]. rewrite (IHx ys Hrest). f_equal.
  destruct x; try (destruct y; try reflexivity; try discriminate Hxy; destruct big; discriminate Hxy).
  apply obj_equal_OList_l in Hxy as (b & -> & Hb). apply IH. exact Hb.
Qed.

Lemma RT_arr rank rows ts body : (2 <= rank)%nat -> (rank <= 1024)%nat -> rows <> [] -> Forall2 RT rows ts -> Seq ts body ->
  arr_dims_ok rank rows && arr_check (arr_dims rank rows) rows = true ->
  RT (OArr rank rows) ([35] ++ to_digits 10 (N.of_nat rank) ++ [65; 40] ++ body ++ [41]).
Proof.
  intros Hlo Hhi Hne HF HS Hshape. destruct (RT_split rows ts HF) as (trs & ys & H1 & H2 & H3 & H4 & H5 & H6).
  pose proof (to_digits_decimal (N.of_nat rank)) as Hd. pose proof (to_digits_nonempty 10 (N.of_nat rank)) as Hdn.
  pose proof (dec_acc_digits (N.of_nat rank)) as Hv.
  destruct (to_digits 10 (N.of_nat rank)) as [|d ds] eqn:Ed; [contradiction|]. cbn [forallb] in Hd. apply andb_true_iff in Hd as [Hd1 Hd2].
  exists (TNode (KArray (N.of_nat rank)) trs), (OArr rank ys). split.
  - rewrite <- Hv. apply (Reads_array d ds ts body trs); try assumption; rewrite Hv; lia.
  - repeat split; try reflexivity; try discriminate.
    + rewrite obj_of_tree_node, H2. cbv zeta. rewrite Nat2N.id. replace (rank =? 0)%nat with false by lia.
      unfold arr_dims_ok in *. rewrite <- (arr_dims_equal rank rows ys H3), <- (arr_check_equal _ rows ys H3), Hshape. reflexivity.
    + cbn [obj_equal]. rewrite Nat.eqb_refl, obj_equal_lists. exact H3.
Qed.

(* ------------------------------------------------------------------------------------------ *)
(* the flat printer                                                                              *)
(* ------------------------------------------------------------------------------------------ *)
Lemma Forall2_map_r {A B} (R : A -> B -> Prop) (f : A -> B) l : Forall (fun x => R x (f x)) l -> Forall2 R l (map f l).
Proof. induction 1; cbn [map]; constructor; assumption. Qed.

Lemma int_text_nat10 (k : nat) : int_text 10 (Z.of_nat k) = to_digits 10 (N.of_nat k).
Proof. unfold int_text. replace (Z.of_nat k <? 0)%Z with false by lia. cbn [app]. f_equal. lia. Qed.

Theorem flat_RT c : readable_cfg c = true -> p_pretty c = false -> forall x, dom c x = true -> RT x (flat c x).
Proof.
  intros Hc Hp. induction x as [x Ha|xs IH|xs tl IH IHtl|xs IH|rank rows IH] using obj_ind'; intros Hd.
  - replace (flat c x) with (atom_text c x) by (destruct x; try discriminate Ha; reflexivity).
    apply (RT_atom c x Hc Ha). destruct x; try discriminate Ha; exact Hd.
  - cbn [dom] in Hd. rewrite dom_all in Hd. apply andb_true_iff in Hd as [Hne Hall].
    destruct xs as [|x xs]; [discriminate Hne|]. rewrite flat_list.
    apply (RT_list (x :: xs) (map (flat c) (x :: xs))); [discriminate| |apply join_sp_seq].
    apply Forall2_map_r. rewrite Forall_forall in *. intros y Hy. apply IH; [exact Hy|]. rewrite forallb_forall in Hall. apply Hall, Hy.
  - cbn [dom] in Hd. rewrite dom_all in Hd.
    apply andb_true_iff in Hd as [Hd Hnn]. apply andb_true_iff in Hd as [Hd Htl]. apply andb_true_iff in Hd as [Hd Hat].
    apply andb_true_iff in Hd as [Hne Hall].
    destruct xs as [|x xs]; [discriminate Hne|]. rewrite flat_dot, join_dot by discriminate.
    assert (Htl' : RT tl (flat c tl)).
    { apply IHtl. destruct tl; try discriminate Hat; exact Htl. }
    apply (RT_dot (x :: xs) tl (map (flat c) (x :: xs)) (flat c tl)); [discriminate| |exact Htl'|destruct tl; try discriminate; discriminate Hnn|].
    + apply Forall2_map_r. rewrite Forall_forall in *. intros y Hy. apply IH; [exact Hy|]. rewrite forallb_forall in Hall. apply Hall, Hy.
    + cbn [map app]. apply join_sp_seq.
  - cbn [dom] in Hd. rewrite dom_all in Hd. apply andb_true_iff in Hd as [Harr Hall]. rewrite flat_vec, Harr.
    destruct xs as [|x xs]; [exact RT_vec_empty|].
    apply (RT_vec (x :: xs) (map (flat c) (x :: xs))); [discriminate| |apply join_sp_seq].
    apply Forall2_map_r. rewrite Forall_forall in *. intros y Hy. apply IH; [exact Hy|]. rewrite forallb_forall in Hall. apply Hall, Hy.
  - cbn [dom] in Hd. rewrite dom_all in Hd.
    apply andb_true_iff in Hd as [Hd Hall]. apply andb_true_iff in Hd as [Hd Hchk]. apply andb_true_iff in Hd as [Hd Hdims].
    apply andb_true_iff in Hd as [Hd Hhi]. apply andb_true_iff in Hd as [Harr Hlo].
    rewrite flat_arr, Harr. unfold array_prefix.
    destruct rows as [|x rows].
    { exfalso. unfold arr_dims_ok in Hdims. destruct rank as [|[|r]]; try lia. cbn in Hdims. discriminate. }
    rewrite <- !app_assoc.
    assert (HF2 : Forall2 RT (x :: rows) (map (flat c) (x :: rows))).
    { apply Forall2_map_r. rewrite Forall_forall in *. intros y Hy. apply IH; [exact Hy|]. rewrite forallb_forall in Hall. apply Hall, Hy. }
    assert (Hsh : arr_dims_ok rank (x :: rows) && arr_check (arr_dims rank (x :: rows)) (x :: rows) = true) by (rewrite Hdims, Hchk; reflexivity).
    apply (RT_arr rank (x :: rows) _ _ ltac:(lia) ltac:(lia) ltac:(discriminate) HF2 (join_sp_seq _ _) Hsh).
Qed.

(* ------------------------------------------------------------------------------------------ *)
(* the pretty printer: createTree / appendTree                                                   *)
(* ------------------------------------------------------------------------------------------ *)
Lemma ws_newline_indent off : forallb ws ([10] ++ repeat 32 off) = true.
Proof. cbn [app forallb]. induction off as [|k IH]; [reflexivity|]. cbn [repeat forallb]. cbn [forallb] in IH. exact IH. Qed.

Lemma Seq_cons_nl t0 off ts body : Seq ts body -> Seq (t0 :: ts) (t0 ++ [10] ++ repeat 32 off ++ body).
Proof.
  intros H. replace ([10] ++ repeat 32 off ++ body) with (([10] ++ repeat 32 off) ++ body) by (rewrite <- app_assoc; reflexivity).
  apply Seq_cons; [discriminate|apply ws_newline_indent|exact H].
Qed.

(* whatever offsets, sizes and margin: the loop writes the elements in order with white space before each *)
Lemma loop_seq (f : node -> nat -> nat -> list byte) margin off closes : forall l pos, l <> [] ->
  exists ts, Forall2 (fun e t => exists o c, t = f e o c) l ts /\
             forall t0, Seq (t0 :: ts) (t0 ++ tree_loop f margin off closes l pos).
Proof.
  induction l as [|e l IH]; intros pos Hne; [contradiction|].
  destruct l as [|e' l'].
  - cbn [tree_loop].
    destruct (N.of_nat (pos + nsize e + (closes + 1) + 1) <=? margin).
    + exists [f e 0%nat (closes + 1)%nat]. split; [constructor; [eexists _, _; reflexivity|constructor]|].
      intros t0. rewrite app_nil_r. apply Seq_cons; [discriminate|reflexivity|apply Seq_one].
    + exists [f e off (closes + 1)%nat]. split; [constructor; [eexists _, _; reflexivity|constructor]|].
      intros t0. rewrite app_nil_r. apply Seq_cons_nl, Seq_one.
  - assert (Hne' : e' :: l' <> []) by discriminate.
    change (tree_loop f margin off closes (e :: e' :: l') pos) with
      (if N.of_nat (pos + nsize e + 0 + 1) <=? margin
       then [32] ++ f e 0%nat 0%nat ++ tree_loop f margin off closes (e' :: l') (pos + nsize e + 0 + 1)
       else [10] ++ repeat 32 off ++ f e off 0%nat ++ tree_loop f margin off closes (e' :: l') (off + nsize e + 1)).
    destruct (N.of_nat (pos + nsize e + 0 + 1) <=? margin).
    + destruct (IH (pos + nsize e + 0 + 1)%nat Hne') as (ts & HF & HS).
      exists (f e 0%nat 0%nat :: ts). split; [constructor; [eexists _, _; reflexivity|exact HF]|].
      intros t0. apply Seq_cons; [discriminate|reflexivity|apply HS].
    + destruct (IH (off + nsize e + 1)%nat Hne') as (ts & HF & HS).
      exists (f e off 0%nat :: ts). split; [constructor; [eexists _, _; reflexivity|exact HF]|].
      intros t0. apply Seq_cons_nl, HS.
Qed.

Lemma append_tree_seq margin es sz o cl : es <> [] ->
  exists ts body, append_tree margin (Node [] es sz) o cl = [40] ++ body ++ [41] /\ Seq ts body /\
                  Forall2 (fun e t => exists o' c', t = append_tree margin e o' c') es ts.
Proof.
  intros Hne. destruct es as [|e0 [|e1 rest]]; [contradiction| |].
  - exists [append_tree margin e0 (o + 1) (cl + 1)], (append_tree margin e0 (o + 1) (cl + 1)).
    split; [reflexivity|]. split; [apply Seq_one|]. constructor; [eexists _, _; reflexivity|constructor].
  - cbn [append_tree].
    set (t := match e1 :: rest with [_] => (cl + 1)%nat | _ => 0%nat end).
    set (off := if N.of_nat (o + 1 + nsize e0 + nsize e1 + t + 1) <=? margin then (o + 1 + nsize e0 + 1)%nat else (o + 1)%nat).
    destruct (loop_seq (append_tree margin) margin off cl (e1 :: rest) (o + 1 + nsize e0)%nat ltac:(discriminate)) as (ts & HF & HS).
    exists (append_tree margin e0 off 0 :: ts), (append_tree margin e0 off 0 ++ tree_loop (append_tree margin) margin off cl (e1 :: rest) (o + 1 + nsize e0)).
    split; [reflexivity|]. split; [apply HS|]. constructor; [eexists _, _; reflexivity|exact HF].
Qed.

Lemma append_leaf margin (b : list byte) o cl : b <> [] -> append_tree margin (leaf_node b) o cl = b.
Proof. destruct b; [contradiction|reflexivity]. Qed.

(* the elements of a node made by createTree from objects, given the statement for each object *)
Lemma elements_RT c (xs : list obj) ts :
  Forall (fun x => forall o cl, RT x (append_tree (p_margin c) (ptree c x) o cl)) xs ->
  Forall2 (fun e t => exists o' c', t = append_tree (p_margin c) e o' c') (map (ptree c) xs) ts -> Forall2 RT xs ts.
Proof.
  intros HP. revert ts. induction HP as [|x xs Hx _ IH]; intros ts HF; inversion HF as [|? t ? ts' (o' & c' & ->) HF']; subst; constructor.
  - apply Hx.
  - apply IH. exact HF'.
Qed.

Theorem pretty_RT c : readable_cfg c = true -> p_pretty c = true ->
  forall x, dom c x = true -> forall o cl, RT x (append_tree (p_margin c) (ptree c x) o cl).
Proof.
  intros Hc Hp. induction x as [x Ha|xs IH|xs tl IH IHtl|xs IH|rank rows IH] using obj_ind'; intros Hd o cl.
  - (* atoms: the leaf holds the text Printer.Append writes *)
    assert (Hok : atom_ok c x = true) by (destruct x; try discriminate Ha; exact Hd).
    pose proof (RT_atom c x Hc Ha Hok) as HRT.
    destruct x; try discriminate Ha; cbn [ptree]; rewrite append_leaf by (eapply RT_nonempty; exact HRT); exact HRT.
  - cbn [dom] in Hd. rewrite dom_all in Hd. apply andb_true_iff in Hd as [Hne Hall].
    destruct xs as [|x xs]; [discriminate Hne|]. rewrite ptree_list.
    destruct (append_tree_seq (p_margin c) (map (ptree c) (x :: xs)) (1 + length (x :: xs) + sum_sizes (map (ptree c) (x :: xs))) o cl ltac:(discriminate))
      as (ts & body & E & HS & HF).
    rewrite E. apply (RT_list (x :: xs) ts body); [discriminate| |exact HS].
    apply (elements_RT c); [|exact HF]. rewrite Forall_forall in *. intros y Hy. apply IH; [exact Hy|]. rewrite forallb_forall in Hall. apply Hall, Hy.
  - cbn [dom] in Hd. rewrite dom_all in Hd.
    apply andb_true_iff in Hd as [Hd Hnn]. apply andb_true_iff in Hd as [Hd Htl]. apply andb_true_iff in Hd as [Hd Hat].
    apply andb_true_iff in Hd as [Hne Hall].
    destruct xs as [|x xs]; [discriminate Hne|]. rewrite ptree_dot.
    set (es := map (ptree c) (x :: xs) ++ [dot_node; ptree c tl]).
    destruct (append_tree_seq (p_margin c) es (1 + (length (x :: xs) + 1) + sum_sizes (map (ptree c) (x :: xs)) + nsize (ptree c tl)) o cl
                ltac:(unfold es; destruct (map (ptree c) (x :: xs)); discriminate)) as (ts & body & E & HS & HF).
    fold es. rewrite E.
    unfold es in HF. apply Forall2_app_inv_l in HF as (ts1 & ts2 & HF1 & HF2 & ->).
    inversion HF2 as [|? tdot ? ts3 (od & cd & Edot) HF3]; subst. inversion HF3 as [|? ttl ? ts4 (ot & ct & Etl) HF4]; subst. inversion HF4; subst.
    change (append_tree (p_margin c) dot_node od cd) with [46] in HS.
    apply (RT_dot (x :: xs) tl ts1 (append_tree (p_margin c) (ptree c tl) ot ct) body); [discriminate| | | |exact HS].
    + apply (elements_RT c); [|exact HF1]. rewrite Forall_forall in *. intros y Hy. apply IH; [exact Hy|]. rewrite forallb_forall in Hall. apply Hall, Hy.
    + apply IHtl. destruct tl; try discriminate Hat; exact Htl.
    + destruct tl; try discriminate; discriminate Hnn.
  - cbn [dom] in Hd. rewrite dom_all in Hd. apply andb_true_iff in Hd as [Harr Hall].
    destruct xs as [|x xs].
    + cbn [ptree]. rewrite Harr. rewrite append_leaf by discriminate. exact RT_vec_empty.
    + rewrite ptree_vec, Harr. rewrite append_leaf by discriminate. unfold node_text.
      destruct (append_tree_seq (p_margin c) (map (ptree c) (x :: xs)) (1 + length (x :: xs) + sum_sizes (map (ptree c) (x :: xs))) 0 0 ltac:(discriminate))
        as (ts & body & E & HS & HF).
      rewrite E. change ([35] ++ [40] ++ body ++ [41]) with ([35; 40] ++ body ++ [41]).
      apply (RT_vec (x :: xs) ts body); [discriminate| |exact HS].
      apply (elements_RT c); [|exact HF]. rewrite Forall_forall in *. intros y Hy. apply IH; [exact Hy|]. rewrite forallb_forall in Hall. apply Hall, Hy.
  - cbn [dom] in Hd. rewrite dom_all in Hd.
    apply andb_true_iff in Hd as [Hd Hall]. apply andb_true_iff in Hd as [Hd Hchk]. apply andb_true_iff in Hd as [Hd Hdims].
    apply andb_true_iff in Hd as [Hd Hhi]. apply andb_true_iff in Hd as [Harr Hlo].
    destruct rows as [|x rows].
    { exfalso. unfold arr_dims_ok in Hdims. destruct rank as [|[|r]]; try lia. cbn in Hdims. discriminate. }
    rewrite ptree_arr, Harr. unfold array_prefix.
    rewrite append_leaf by (destruct (to_digits 10 (N.of_nat rank)); discriminate). unfold node_text.
    destruct (append_tree_seq (p_margin c) (map (ptree c) (x :: rows)) (1 + length (x :: rows) + sum_sizes (map (ptree c) (x :: rows))) 0 0 ltac:(discriminate))
      as (ts & body & E & HS & HF).
    rewrite E. rewrite <- !app_assoc.
    assert (HF2 : Forall2 RT (x :: rows) ts).
    { apply (elements_RT c); [|exact HF]. rewrite Forall_forall in *. intros y Hy. apply IH; [exact Hy|]. rewrite forallb_forall in Hall. apply Hall, Hy. }
    assert (Hsh : arr_dims_ok rank (x :: rows) && arr_check (arr_dims rank (x :: rows)) (x :: rows) = true) by (rewrite Hdims, Hchk; reflexivity).
    apply (RT_arr rank (x :: rows) ts body ltac:(lia) ltac:(lia) ltac:(discriminate) HF2 HS Hsh).
Qed.
