(* C03 — UTF-8: utf8.DecodeRune (utf8.EncodeRune r) = r for every Unicode scalar; shape of the bytes. *)
From C03 Require Import Model.
From Coq Require Import ZifyBool.
Ltac Zify.zify_post_hook ::= Z.to_euclidean_division_equations.
Local Open Scope N_scope.

Lemma is_scalar_spec r : is_scalar r = true -> (r < 55296 \/ 57343 < r) /\ r <= 1114111.
Proof. unfold is_scalar. lia. Qed.

Theorem decode_encode r rest : is_scalar r = true ->
  decode_rune (utf8 r ++ rest) = (r, length (utf8 r)).
Proof.
  intros H. apply is_scalar_spec in H. unfold utf8.
  destruct (N.ltb_spec r 128) as [H1|H1].
  - cbn [app decode_rune length]. replace (r <? 128) with true by lia. reflexivity.
  - destruct (N.ltb_spec r 2048) as [H2|H2].
    + cbn [app decode_rune length].
      replace (192 + r / 64 <? 128) with false by lia.
      replace ((194 <=? 192 + r / 64) && (192 + r / 64 <=? 223)) with true by lia.
      unfold cont. replace ((128 <=? 128 + r mod 64) && (128 + r mod 64 <=? 191)) with true by lia.
      f_equal. lia.
    + replace ((55296 <=? r) && (r <=? 57343) || (1114111 <? r)) with false by lia.
      destruct (N.ltb_spec r 65536) as [H3|H3].
      * cbn [app decode_rune length].
        replace (224 + r / 4096 <? 128) with false by lia.
        replace ((194 <=? 224 + r / 4096) && (224 + r / 4096 <=? 223)) with false by lia.
        replace ((224 <=? 224 + r / 4096) && (224 + r / 4096 <=? 239)) with true by lia.
        unfold cont.
        destruct (N.eqb_spec (224 + r / 4096) 224) as [E1|E1]; destruct (N.eqb_spec (224 + r / 4096) 237) as [E2|E2]; try lia.
        -- replace ((160 <=? 128 + (r / 64) mod 64) && (128 + (r / 64) mod 64 <=? 191) &&
                    ((128 <=? 128 + r mod 64) && (128 + r mod 64 <=? 191))) with true by lia. f_equal. lia.
        -- replace ((128 <=? 128 + (r / 64) mod 64) && (128 + (r / 64) mod 64 <=? 159) &&
                    ((128 <=? 128 + r mod 64) && (128 + r mod 64 <=? 191))) with true by lia. f_equal. lia.
        -- replace ((128 <=? 128 + (r / 64) mod 64) && (128 + (r / 64) mod 64 <=? 191) &&
                    ((128 <=? 128 + r mod 64) && (128 + r mod 64 <=? 191))) with true by lia. f_equal. lia.
      * cbn [app decode_rune length].
        replace (240 + r / 262144 <? 128) with false by lia.
        replace ((194 <=? 240 + r / 262144) && (240 + r / 262144 <=? 223)) with false by lia.
        replace ((224 <=? 240 + r / 262144) && (240 + r / 262144 <=? 239)) with false by lia.
        replace ((240 <=? 240 + r / 262144) && (240 + r / 262144 <=? 244)) with true by lia.
        unfold cont.
        destruct (N.eqb_spec (240 + r / 262144) 240) as [E1|E1]; destruct (N.eqb_spec (240 + r / 262144) 244) as [E2|E2]; try lia.
        -- replace ((144 <=? 128 + (r / 4096) mod 64) && (128 + (r / 4096) mod 64 <=? 191) &&
                    ((128 <=? 128 + (r / 64) mod 64) && (128 + (r / 64) mod 64 <=? 191)) &&
                    ((128 <=? 128 + r mod 64) && (128 + r mod 64 <=? 191))) with true by lia. f_equal. lia.
        -- replace ((128 <=? 128 + (r / 4096) mod 64) && (128 + (r / 4096) mod 64 <=? 143) &&
                    ((128 <=? 128 + (r / 64) mod 64) && (128 + (r / 64) mod 64 <=? 191)) &&
                    ((128 <=? 128 + r mod 64) && (128 + r mod 64 <=? 191))) with true by lia. f_equal. lia.
        -- replace ((128 <=? 128 + (r / 4096) mod 64) && (128 + (r / 4096) mod 64 <=? 191) &&
                    ((128 <=? 128 + (r / 64) mod 64) && (128 + (r / 64) mod 64 <=? 191)) &&
                    ((128 <=? 128 + r mod 64) && (128 + r mod 64 <=? 191))) with true by lia. f_equal. lia.
Qed.

(* the bytes of a rune above 0x7f are all in 0x80..0xf7 *)
Lemma utf8_high_bytes r : 128 <= r -> Forall (fun b => 128 <= b /\ b < 248) (utf8 r).
Proof.
  intros H. unfold utf8. replace (r <? 128) with false by lia.
  destruct (r <? 2048) eqn:E2.
  - repeat constructor; lia.
  - destruct ((55296 <=? r) && (r <=? 57343) || (1114111 <? r)) eqn:E3.
    + repeat constructor; lia.
    + destruct (r <? 65536) eqn:E4; repeat constructor; lia.
Qed.
Lemma utf8_low r : r < 128 -> utf8 r = [r].
Proof. intros H. unfold utf8. replace (r <? 128) with true by lia. reflexivity. Qed.
Lemma utf8_length r : 128 <= r -> (2 <= length (utf8 r))%nat.
Proof.
  intros H. unfold utf8. replace (r <? 128) with false by lia.
  destruct (r <? 2048); [cbn; lia|]. destruct ((55296 <=? r) && (r <=? 57343) || (1114111 <? r)); [cbn; lia|].
  destruct (r <? 65536); cbn; lia.
Qed.
Lemma utf8_nonempty r : utf8 r <> [].
Proof.
  unfold utf8. destruct (r <? 128); [discriminate|]. destruct (r <? 2048); [discriminate|].
  destruct ((55296 <=? r) && (r <=? 57343) || (1114111 <? r)); [discriminate|]. destruct (r <? 65536); discriminate.
Qed.
