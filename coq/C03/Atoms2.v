(* C03 — strings, characters and symbols read back. *)
From C03 Require Import Model Spec Digits Utf8 ReaderLemmas Reading Classes Atoms.
From Coq Require Import ZifyBool.
Local Open Scope N_scope.

(* ------------------------------------------------------------------------------------------ *)
(* strings                                                                                       *)
(* ------------------------------------------------------------------------------------------ *)
Lemma StrBody_raw (bs : list byte) : (forall b, In b bs -> act T03 MString b = AStrByte) -> StrBody bs bs.
Proof.
  induction bs as [|b bs IH]; intros H; [apply StrBody_nil|].
  change (b :: bs) with ([b] ++ bs). apply StrBody_app; [apply StrBody_plain, H; left; reflexivity|].
  apply IH. intros x Hx. apply H. right. exact Hx.
Qed.

Lemma jesc_keep k bs : jesc 0 k bs = jesc 0 true bs.
Proof. destruct bs; reflexivity. Qed.
Lemma jesc_skip (tl : list byte) keep rest :
  jesc (length tl) keep (tl ++ rest) = (if keep then tl else []) ++ jesc 0 true rest.
Proof.
  induction tl as [|b tl IH]; cbn [length app].
  - rewrite jesc_keep. destruct keep; reflexivity.
  - cbn [jesc]. rewrite IH. destruct keep; reflexivity.
Qed.

(* what AppendJSONString writes for one rune *)
Definition jchunk_ascii (b : N) : list byte :=
  if b <? 32 then
    match b with
    | 8 => [92; 98] | 9 => [92; 116] | 10 => [92; 110] | 12 => [92; 102] | 13 => [92; 114]
    | _ => [92; 117; 48; 48; hexd (b / 16); hexd (b mod 16)]
    end
  else if b =? 34 then [92; 34]
  else if b =? 92 then [92; 92]
  else if b =? 127 then [92; 117; 48; 48; 55; 102]
  else [b].
Definition jchunk (r : N) : list byte :=
  if r <? 128 then jchunk_ascii r
  else if r =? 8232 then [92; 117; 50; 48; 50; 56]
  else if r =? 8233 then [92; 117; 50; 48; 50; 57]
  else if r =? 65533 then [92; 117; 102; 102; 102; 100]
  else utf8 r.

Lemma jesc_rune r rest : is_scalar r = true -> jesc 0 true (utf8 r ++ rest) = jchunk r ++ jesc 0 true rest.
Proof.
  intros Hs. unfold jchunk. destruct (N.ltb_spec r 128) as [Hlo|Hhi].
  - rewrite utf8_low by exact Hlo. cbn [app jesc]. unfold jchunk_ascii.
    destruct (r <? 32); [reflexivity|]. destruct (r =? 34); [reflexivity|]. destruct (r =? 92); [reflexivity|].
    destruct (r =? 127); [reflexivity|]. replace (r <? 128) with true by lia. reflexivity.
  - pose proof (utf8_high_bytes r Hhi) as HF. pose proof (decode_encode r rest Hs) as HD.
    destruct (utf8 r) as [|b0 tl] eqn:Eu; [exfalso; apply (utf8_nonempty r); exact Eu|].
    inversion HF as [|? ? [Hb0 Hb0'] _]; subst.
    cbn [app] in *. cbn [jesc].
    replace (b0 <? 32) with false by lia. replace (b0 =? 34) with false by lia. replace (b0 =? 92) with false by lia.
    replace (b0 =? 127) with false by lia. replace (b0 <? 128) with false by lia.
    rewrite HD. cbn [length]. replace (S (length tl) - 1)%nat with (length tl) by lia.
    destruct (r =? 8232); [rewrite jesc_skip; reflexivity|]. destruct (r =? 8233); [rewrite jesc_skip; reflexivity|].
    destruct (r =? 65533); [rewrite jesc_skip; reflexivity|]. rewrite jesc_skip. reflexivity.
Qed.

Lemma StrBody_chunk_low r : r < 32 -> StrBody (jchunk_ascii r) [r].
Proof.
  intros H.
  assert (Hc : r = 0 \/ r = 1 \/ r = 2 \/ r = 3 \/ r = 4 \/ r = 5 \/ r = 6 \/ r = 7 \/ r = 8 \/ r = 9 \/ r = 10 \/ r = 11 \/ r = 12 \/
               r = 13 \/ r = 14 \/ r = 15 \/ r = 16 \/ r = 17 \/ r = 18 \/ r = 19 \/ r = 20 \/ r = 21 \/ r = 22 \/ r = 23 \/ r = 24 \/
               r = 25 \/ r = 26 \/ r = 27 \/ r = 28 \/ r = 29 \/ r = 30 \/ r = 31) by lia.
  repeat (destruct Hc as [->|Hc]);
    first [ exact (StrBody_esc1 98 eq_refl) | exact (StrBody_esc1 116 eq_refl) | exact (StrBody_esc1 110 eq_refl)
          | exact (StrBody_esc1 102 eq_refl) | exact (StrBody_esc1 114 eq_refl)
          | match goal with |- StrBody (jchunk_ascii ?r) _ => exact (StrBody_u4 0 0 (r / 16) (r mod 16) eq_refl eq_refl eq_refl eq_refl) end
          | subst; exact (StrBody_u4 0 0 (31 / 16) (31 mod 16) eq_refl eq_refl eq_refl eq_refl) ].
Qed.
Lemma StrBody_chunk r : is_scalar r = true -> StrBody (jchunk r) (utf8 r).
Proof.
  intros Hs. unfold jchunk. destruct (N.ltb_spec r 128) as [Hlo|Hhi].
  - rewrite utf8_low by exact Hlo. unfold jchunk_ascii. destruct (N.ltb_spec r 32) as [H32|H32].
    + pose proof (StrBody_chunk_low r H32) as G. unfold jchunk_ascii in G. replace (r <? 32) with true in G by lia. exact G.
    + destruct (N.eqb_spec r 34) as [->|N34]; [exact (StrBody_esc1 34 eq_refl)|].
      destruct (N.eqb_spec r 92) as [->|N92]; [exact (StrBody_esc1 92 eq_refl)|].
      destruct (N.eqb_spec r 127) as [->|N127]; [exact (StrBody_u4 0 0 7 15 eq_refl eq_refl eq_refl eq_refl)|].
      apply StrBody_plain, json_plain_str. unfold json_plain. lia.
  - destruct (N.eqb_spec r 8232) as [->|N1]; [exact (StrBody_u4 2 0 2 8 eq_refl eq_refl eq_refl eq_refl)|].
    destruct (N.eqb_spec r 8233) as [->|N2]; [exact (StrBody_u4 2 0 2 9 eq_refl eq_refl eq_refl eq_refl)|].
    destruct (N.eqb_spec r 65533) as [->|N3]; [exact (StrBody_u4 15 15 15 13 eq_refl eq_refl eq_refl eq_refl)|].
    apply StrBody_raw. intros b Hb. pose proof (utf8_high_bytes r Hhi) as HF. rewrite Forall_forall in HF.
    destruct (HF b Hb). apply high_byte_str; lia.
Qed.
Lemma jesc_runes rs : forallb is_scalar rs = true ->
  StrBody (jesc 0 true (concat (map utf8 rs))) (concat (map utf8 rs)).
Proof.
  induction rs as [|r rs IH]; intros H; [apply StrBody_nil|].
  cbn [forallb] in H. apply andb_true_iff in H as [Hr Hrs]. cbn [map concat].
  rewrite jesc_rune by exact Hr. apply StrBody_app; [apply StrBody_chunk; exact Hr|apply IH; exact Hrs].
Qed.

Lemma bytes_eqb_eq (a b : list byte) : bytes_eqb a b = true -> a = b.
Proof.
  revert b. induction a as [|x a IH]; intros [|y b] H; try discriminate; [reflexivity|].
  cbn in H. apply andb_true_iff in H as [H1 H2]. apply N.eqb_eq in H1. subst. f_equal. apply IH. exact H2.
Qed.
Lemma bytes_eqb_refl (a : list byte) : bytes_eqb a a = true.
Proof. induction a as [|x a IH]; [reflexivity|]. cbn. rewrite N.eqb_refl. exact IH. Qed.

Lemma RT_string c bs : (if p_readably c then utf8_ok bs else forallb plain_string_byte bs) = true ->
  RT (OStr bs) (string_text c bs).
Proof.
  intros H. exists (TLeaf (LStr bs)), (OStr bs). split.
  - unfold string_text. apply Reads_string. destruct (p_readably c).
    + unfold utf8_ok in H. apply andb_true_iff in H as [Hs He]. apply bytes_eqb_eq in He.
      remember (runes bs) as rs eqn:Ers. clear Ers. subst bs. apply jesc_runes. exact Hs.
    + apply StrBody_raw. intros b Hb. apply plain_string_byte_str. rewrite forallb_forall in H. apply H. exact Hb.
  - repeat split; try reflexivity; try discriminate. cbn [obj_equal]. apply bytes_eqb_refl.
Qed.

(* ------------------------------------------------------------------------------------------ *)
(* characters                                                                                    *)
(* ------------------------------------------------------------------------------------------ *)
Lemma in_cases (b : byte) (l : list byte) (P : byte -> Prop) : Forall P l -> In b l -> P b.
Proof. intros HF Hb. rewrite Forall_forall in HF. apply HF, Hb. Qed.

Lemma special_none r : 128 <= r -> special_char r = None.
Proof.
  intros H. unfold special_char, special_table. cbn [find fst].
  repeat match goal with |- context [?k =? r] => replace (k =? r) with false by lia end. reflexivity.
Qed.
Lemma rune_map_high (b0 : byte) rest : 128 <= b0 -> rune_map (b0 :: rest) = None.
Proof.
  intros H. unfold rune_map, rune_table. cbn [find fst beqb].
  repeat match goal with |- context [?k =? b0] => replace (k =? b0) with false by lia end. reflexivity.
Qed.
Lemma lower_high b : 91 <= b -> lower b = b.
Proof. intros H. unfold lower. replace ((65 <=? b) && (b <=? 90)) with false by lia. reflexivity. Qed.

(* small runes: by cases *)
Definition char_case_ok (r : N) : bool :=
  match resolve_char (char_name r) with Some (OChr r') => (r' =? r) | _ => false end &&
  nonempty (char_name r) && forallb (fun b => action_eqb (act T03 MChar b) ASkip) (char_name r).
Lemma char_small r : r < 128 -> char_readable r = true -> char_case_ok r = true.
Proof.
  intros Hr. revert r Hr.
  assert (G : forall r, r < 128 -> implb (char_readable r) (char_case_ok r) = true).
  { intros r Hr. assert (Hr' : r < N.of_nat 128) by (cbn; lia). clear Hr. revert r Hr'.
    apply (forall_below_spec 128 (fun r => implb (char_readable r) (char_case_ok r))). vm_compute. reflexivity. }
  intros r Hr H. specialize (G r Hr). rewrite H in G. exact G.
Qed.
Lemma char_high r : 128 <= r -> is_scalar r = true -> char_case_ok r = true.
Proof.
  intros Hhi Hs. unfold char_case_ok, char_name, char_by_code. rewrite special_none by exact Hhi.
  replace (r <? 32) with false by lia. replace (r <? 128) with false by lia. cbn [andb orb].
  pose proof (utf8_high_bytes r Hhi) as HF. pose proof (utf8_length r Hhi) as HL. pose proof (decode_encode r [] Hs) as HD.
  rewrite app_nil_r in HD.
  destruct (utf8 r) as [|b0 [|b1 tl]] eqn:Eu; cbn [length] in HL; try lia.
  inversion HF as [|? ? [Hb0 Hb0'] HF']; subst.
  apply andb_true_iff. split; [apply andb_true_iff; split; [|reflexivity]|].
  - unfold resolve_char.
    assert (El : map lower (b0 :: b1 :: tl) = b0 :: map lower (b1 :: tl)) by (cbn [map]; rewrite lower_high by lia; reflexivity).
    rewrite El, rune_map_high by lia. replace ((b0 =? 117) || (b0 =? 85)) with false by lia. rewrite HD. cbn [fst].
    replace (r =? 0) with false by lia. apply N.eqb_refl.
  - apply forallb_forall. intros b Hb. pose proof (in_cases b _ _ HF Hb) as [H1 H2]. cbn beta in H1, H2.
    rewrite high_byte_char by lia. reflexivity.
Qed.

Lemma RT_char c r : p_escape c = true -> char_readable r = true -> RT (OChr r) (char_text c r).
Proof.
  intros He Hc. unfold char_text. rewrite He.
  assert (Hok : char_case_ok r = true).
  { destruct (N.lt_ge_cases r 128); [apply char_small; assumption|apply char_high; [assumption|]].
    exact Hc. }
  unfold char_case_ok in Hok. apply andb_true_iff in Hok as [Hok Hcls]. apply andb_true_iff in Hok as [Hres Hne].
  destruct (resolve_char (char_name r)) as [[| | | | | |r'| | | | | |]|] eqn:E; try discriminate Hres. apply N.eqb_eq in Hres. subst r'.
  exists (TLeaf (LChar (char_name r))), (OChr r). split.
  - apply Reads_char; [destruct (char_name r); [discriminate Hne|discriminate]|].
    intros b Hb. rewrite forallb_forall in Hcls. apply action_eqb_eq. apply Hcls. exact Hb.
  - repeat split; try reflexivity; try discriminate; [exact E|]. cbn [obj_equal]. apply N.eqb_refl.
Qed.

(* ------------------------------------------------------------------------------------------ *)
(* symbols                                                                                       *)
(* ------------------------------------------------------------------------------------------ *)
Lemma is_t_spec (w : list byte) : is_t w = match w with [b] => (b =? 116) || (b =? 84) | _ => false end.
Proof.
  unfold is_t. destruct w as [|b [|b' r]]; try reflexivity.
  - destruct b as [|p]; [reflexivity|]. repeat (destruct p as [p|p|]; try reflexivity).
  - destruct b as [|p]; [reflexivity|]. repeat (destruct p as [p|p|]; try reflexivity).
Qed.
Lemma lower_116 b : lower b = 116 -> (b =? 116) || (b =? 84) = true.
Proof. unfold lower. destruct ((65 <=? b) && (b <=? 90)) eqn:E; lia. Qed.
Lemma is_t_case c (s : list byte) : is_t s = false -> is_t (case_name c s) = false.
Proof.
  intros H. destruct (is_t (case_name c s)) eqn:E; [|reflexivity]. exfalso.
  rewrite is_t_spec in E, H. pose proof (case_name_length c s) as HL. pose proof (map_lower_case c s) as HM.
  destruct (case_name c s) as [|x [|]] eqn:Ec; try discriminate E.
  destruct s as [|b [|]]; cbn [length] in HL; try discriminate HL.
  cbn [map] in HM. injection HM as HM.
  assert (lower x = 116 \/ lower x = 116) as [Hx|Hx].
  { unfold lower. destruct ((65 <=? x) && (x <=? 90)) eqn:E2; lia. }
  - rewrite Hx in HM. symmetry in HM. apply lower_116 in HM. rewrite HM in H. discriminate H.
  - rewrite Hx in HM. symmetry in HM. apply lower_116 in HM. rewrite HM in H. discriminate H.
Qed.
Lemma is_nil_tok_case c (s : list byte) : is_nil_tok (case_name c s) = is_nil_tok s.
Proof. unfold is_nil_tok. rewrite map_lower_case. reflexivity. Qed.

Lemma case_46 c (s : list byte) : case_name c s = [46] -> s = [46].
Proof.
  intros H. pose proof (case_name_length c s) as HL. pose proof (map_lower_case c s) as HM. rewrite H in HL, HM.
  destruct s as [|b [|]]; cbn [length] in HL; try discriminate HL. cbn [map] in HM. injection HM as HM.
  f_equal. unfold lower in HM. destruct ((65 <=? b) && (b <=? 90)) eqn:E; cbn in HM; lia.
Qed.

Lemma resolve_symbolic (tok : list byte) : numeric_like (map lower tok) = false -> resolve_token tok = OSym tok.
Proof.
  intros H. unfold resolve_token. cbv zeta. destruct (starts_with_at (map lower tok)); [reflexivity|].
  unfold numeric_like in H. repeat (apply orb_false_iff in H as [H ?]).
  unfold resolve_buf. repeat match goal with E : _ = false |- _ => rewrite E; clear E end. reflexivity.
Qed.

(* every numeric token begins with a digit or a sign *)
Lemma strip_sign_other (b : byte) r : b <> 43 -> b <> 45 -> strip_sign (b :: r) = b :: r.
Proof.
  intros H1 H2. unfold strip_sign. destruct b as [|p]; [reflexivity|].
  repeat (destruct p as [p|p|]; try reflexivity); contradiction.
Qed.
Lemma numeric_like_first (b : byte) r : numeric_like (b :: r) = true -> numeric_first b = true.
Proof.
  intros H. destruct (numeric_first b) eqn:E; [reflexivity|]. exfalso.
  assert (Hs : strip_sign (b :: r) = b :: r) by (apply strip_sign_other; unfold numeric_first, is_digit in E; lia).
  assert (Hd : is_digit b = false) by (unfold numeric_first in E; lia).
  assert (Hsp : span_digits (b :: r) = ([], b :: r)) by (cbn [span_digits]; rewrite Hd; reflexivity).
  unfold numeric_like, int_rx, float_rx, ratio_rx in H. rewrite Hs, Hsp in H. cbn in H. discriminate H.
Qed.
Lemma lower_numeric_first b : numeric_first (lower b) = numeric_first b.
Proof. unfold numeric_first, is_digit, lower. destruct ((65 <=? b) && (b <=? 90)) eqn:E; lia. Qed.
(* what Symbol.needPipes = false says, clause by clause *)
Lemma need_pipes_false (name : list byte) : need_pipes name = false ->
  flagged name = false /\
  match name with b :: _ => numeric_first b && numeric_like (map lower name) | [] => false end = false /\
  name <> [46] /\ is_nil_tok name = false /\ match name with 64 :: _ => False | _ => True end.
Proof.
  unfold need_pipes. intros H. apply orb_false_iff in H as [H H5]. apply orb_false_iff in H as [H H4].
  apply orb_false_iff in H as [H H3]. apply orb_false_iff in H as [H1 H2].
  repeat split; try assumption.
  - intros ->. discriminate H3.
  - destruct name as [|b r]; [exact I|]. destruct b as [|p]; [exact I|].
    repeat (destruct p as [p|p|]; try exact I). discriminate H5.
Qed.
(* a name Symbol.needPipes leaves without bars is resolved to a symbol, whatever the print case *)
Lemma need_pipes_false_resolves c (name : list byte) : need_pipes name = false ->
  resolve_token (case_name (p_case c) name) = OSym (case_name (p_case c) name).
Proof.
  intros H. destruct (need_pipes_false name H) as (_ & H2 & _). destruct name as [|b r]; [destruct (p_case c); reflexivity|].
  apply resolve_symbolic. rewrite map_lower_case.
  destruct (numeric_first b) eqn:Ef; [exact H2|]. cbn [map].
  destruct (numeric_like (lower b :: map lower r)) eqn:E; [|reflexivity].
  apply numeric_like_first in E. rewrite lower_numeric_first in E. congruence.
Qed.
(* ... and is made of bytes the reader keeps in one token *)
Lemma need_pipes_false_shape (b : byte) r : forallb (fun x => x <? 256) (b :: r) = true -> need_pipes (b :: r) = false ->
  token_first b = true /\ forallb token_byte r = true.
Proof.
  intros H256 H. destruct (need_pipes_false _ H) as (H1 & _ & _ & _ & H5). cbn [flagged] in H1.
  apply orb_false_iff in H1 as [Hb Hr]. cbn [forallb] in H256. apply andb_true_iff in H256 as [Hb256 Hr256]. split.
  - apply unflagged_token_first; [lia|exact Hb|]. destruct (N.eqb_spec b 64) as [->|]; [contradiction|reflexivity].
  - apply forallb_forall. intros x Hx. rewrite forallb_forall in Hr256. specialize (Hr256 x Hx).
    apply unflagged_token_byte; [lia|]. destruct (need_pipe x) eqn:E; [|reflexivity].
    assert (existsb need_pipe r = true) by (apply existsb_exists; exists x; split; assumption). congruence.
Qed.

Lemma pipe_ok_closed b : pipe_ok_byte b = true /\ b < 128 -> (pipe_ok_byte (lower b) = true /\ lower b < 128) /\ (pipe_ok_byte (upper b) = true /\ upper b < 128).
Proof.
  intros [H Hb]. unfold pipe_ok_byte in *. unfold lower, upper.
  destruct ((65 <=? b) && (b <=? 90)) eqn:E1; destruct ((97 <=? b) && (b <=? 122)) eqn:E2; repeat split; lia.
Qed.

(* the name as the printer writes it without bars *)
Lemma bare_reads c (s : list byte) : forallb (fun x => x <? 256) s = true -> need_pipes s = false -> is_t s = false -> s <> [] ->
  exists y, Reads (case_name (p_case c) s) (TLeaf (LTok (case_name (p_case c) s))) /\
            obj_of_tree (TLeaf (LTok (case_name (p_case c) s))) = Some y /\ obj_equal (OSym s) y = true /\
            ty_eqb (type_of (OSym s)) (type_of y) = true /\ is_dot (TLeaf (LTok (case_name (p_case c) s))) = false /\
            case_name (p_case c) s <> [].
Proof.
  intros H256 Hnp Ht Hne. pose proof (need_pipes_false_resolves c s Hnp) as Hres.
  destruct (need_pipes_false s Hnp) as (_ & _ & Hdot & Hnil & _).
  destruct s as [|b r]; [contradiction|]. destruct (need_pipes_false_shape b r H256 Hnp) as [Hf Hr].
  set (w := case_name (p_case c) (b :: r)).
  assert (Htok : exists a rest, w = a :: rest /\ token_first a = true /\ forallb token_byte rest = true).
  { assert (HrL : forallb token_byte (map lower r) = true).
    { apply forallb_forall. intros x Hx. apply in_map_iff in Hx as (y & <- & Hy). rewrite forallb_forall in Hr. apply token_byte_case, Hr, Hy. }
    assert (HrU : forallb token_byte (map upper r) = true).
    { apply forallb_forall. intros x Hx. apply in_map_iff in Hx as (y & <- & Hy). rewrite forallb_forall in Hr. apply token_byte_case, Hr, Hy. }
    destruct (token_first_case b Hf) as [HfL HfU]. destruct (token_first_case (lower b) HfL) as [_ HfLU].
    unfold w. destruct (p_case c); cbn [case_name map]; eexists _, _; (split; [reflexivity|split; assumption]). }
  destruct Htok as (a & rest & Ew & Ha & Hrest).
  assert (Htt : tok_tree w = TLeaf (LTok w)).
  { unfold tok_tree, w. rewrite is_t_case by exact Ht. rewrite is_nil_tok_case, Hnil. reflexivity. }
  exists (OSym w). split; [rewrite <- Htt, Ew; apply Reads_token; assumption|].
  repeat split.
  - cbn [obj_of_tree]. unfold w. rewrite Hres. reflexivity.
  - cbn [obj_equal]. unfold w. rewrite map_lower_case. apply bytes_eqb_refl.
  - destruct (is_dot (TLeaf (LTok w))) eqn:Ed; [|reflexivity]. apply is_dot_true in Ed. apply case_46 in Ed.
    contradiction.
  - rewrite Ew. discriminate.
Qed.

(* the escaped spelling between bars reads back as the name, byte for byte *)
Lemma pesc_byte_body b : b < 256 -> SymBody (pesc_byte b) [b].
Proof.
  intros Hr. unfold pesc_byte. destruct ((b =? 124) || (b =? 92)) eqn:E1.
  - assert (Hc : b = 124 \/ b = 92) by lia. destruct Hc as [-> | ->]; [exact (SymBody_esc1 124 eq_refl)|exact (SymBody_esc1 92 eq_refl)].
  - destruct ((b <? 32) && negb ((b =? 9) || (b =? 10) || (b =? 13))) eqn:E2.
    + assert (Hc : b = 0 \/ b = 1 \/ b = 2 \/ b = 3 \/ b = 4 \/ b = 5 \/ b = 6 \/ b = 7 \/ b = 8 \/ b = 11 \/ b = 12 \/
                   b = 14 \/ b = 15 \/ b = 16 \/ b = 17 \/ b = 18 \/ b = 19 \/ b = 20 \/ b = 21 \/ b = 22 \/ b = 23 \/ b = 24 \/
                   b = 25 \/ b = 26 \/ b = 27 \/ b = 28 \/ b = 29 \/ b = 30 \/ b = 31) by lia.
      repeat (destruct Hc as [->|Hc]);
        first [ match goal with |- SymBody _ [?r] => exact (SymBody_u4 0 0 (r / 16) (r mod 16) eq_refl eq_refl eq_refl eq_refl) end
              | subst; exact (SymBody_u4 0 0 (31 / 16) (31 mod 16) eq_refl eq_refl eq_refl eq_refl) ].
    + apply SymBody_plain, pipe_ok_raw; [exact Hr|]. unfold pipe_ok_byte. lia.
Qed.
Lemma pesc_body (w : list byte) : Forall (fun b => b < 256) w -> SymBody (pesc w) w.
Proof.
  induction 1 as [|b w Hb _ IH]; [apply SymBody_nil|]. unfold pesc. cbn [map concat].
  change (b :: w) with ([b] ++ w). apply SymBody_app; [apply pesc_byte_body; exact Hb|exact IH].
Qed.
Lemma below_128_closed b : b < 128 -> lower b < 128 /\ upper b < 128.
Proof.
  intros H. unfold lower, upper. destruct ((65 <=? b) && (b <=? 90)) eqn:E1; destruct ((97 <=? b) && (b <=? 122)) eqn:E2; split; lia.
Qed.

Lemma case_name_bytes c (name : list byte) : forallb (fun b => b <? 256) name = true ->
  forallb (fun b => b <? 128) name || case_is_none c = true -> Forall (fun b => b < 256) (case_name (p_case c) name).
Proof.
  intros H256 H. apply orb_true_iff in H as [H|H].
  - assert (HF : Forall (fun b => b < 128) (case_name (p_case c) name)).
    { apply case_name_forall; [apply below_128_closed|]. apply Forall_forall. intros y Hy.
      rewrite forallb_forall in H. specialize (H y Hy). lia. }
    rewrite Forall_forall in *. intros x Hx. specialize (HF x Hx). lia.
  - unfold case_is_none in H. destruct (p_case c); try discriminate H. cbn [case_name].
    apply Forall_forall. intros y Hy. rewrite forallb_forall in H256. specialize (H256 y Hy). lia.
Qed.

Lemma RT_sym c (s : list byte) : sym_ok c s = true -> RT (OSym s) (symbol_text c s).
Proof.
  destruct s as [|b r].
  - (* the empty name: || *)
    intros _. exists (TLeaf (LPipe [])), (OSym []). split; [exact (Reads_pipe [] (fun b (H : In b []) => match H with end))|].
    repeat split; try reflexivity; discriminate.
  - unfold sym_ok, symbol_text. intros H. apply andb_true_iff in H as [Hascii Ht]. apply andb_true_iff in Hascii as [H256 Hascii].
    apply negb_true_iff in Ht.
    set (w := case_name (p_case c) (b :: r)).
    destruct (need_pipes (b :: r)) eqn:Enp.
    + (* |name|, escaped *)
      exists (TLeaf (LPipe w)), (OSym w).
      split.
      { apply Reads_pipe_body, pesc_body. apply case_name_bytes; assumption. }
      repeat split; try reflexivity; try discriminate. cbn [obj_equal]. unfold w. rewrite map_lower_case. apply bytes_eqb_refl.
    + destruct (bare_reads c (b :: r) H256 Enp Ht ltac:(discriminate)) as (y & HR & Ho & He & Ht' & Hd & Hne).
      exists (TLeaf (LTok w)), y. repeat split; try assumption. discriminate.
Qed.

(* ------------------------------------------------------------------------------------------ *)
(* every atom                                                                                    *)
(* ------------------------------------------------------------------------------------------ *)
Theorem RT_atom c x : readable_cfg c = true -> is_atom x = true -> atom_ok c x = true -> RT x (atom_text c x).
Proof.
  intros Hc Ha Hok. destruct x; try discriminate Ha; cbn [atom_text atom_ok] in *.
  - apply RT_nil.
  - apply RT_true.
  - apply RT_int; [exact Hc|]. apply Bool.eqb_prop in Hok. exact Hok.
  - apply andb_true_iff in Hok as [Hok Hr]. apply andb_true_iff in Hok as [Hok Hb]. apply andb_true_iff in Hok as [Hd Hg].
    apply RT_ratio; lia.
  - apply RT_float. exact Hok.
  - apply RT_string. exact Hok.
  - apply RT_char; [|exact Hok]. unfold readable_cfg in Hc. repeat (apply andb_true_iff in Hc as [Hc ?]). exact Hc.
  - apply (RT_sym c bs Hok).
  - discriminate Hok.
Qed.
