(* C03 — what the property demands, and where the unchanged code meets it (the guard). *)
From C03 Require Export Model.

Fixpoint list_eqb {A} (eqb : A -> A -> bool) (a b : list A) : bool :=
  match a, b with [], [] => true | x :: a', y :: b' => eqb x y && list_eqb eqb a' b' | _, _ => false end.
Definition bytes_eqb := list_eqb N.eqb.
Definition fkind_eqb (a b : fkind) : bool :=
  match a, b with FSingle, FSingle | FDouble, FDouble | FLong, FLong => true | _, _ => false end.

(* ---- the two equalities ----
   obj_eqb: the same Go object (used to compare the model with the implementation).
   obj_equal: `equal` of the property: symbols are compared as slip compares them (strings.EqualFold; on
   the ASCII names of the model: without regard to case), integers by value, everything else structurally.
   Floats are opaque in the model: both equalities look at the format only; that the VALUE read back is
   the value printed is strconv's / big.Float's business and is checked on the implementation (harness). *)
Fixpoint obj_eqb (a b : obj) : bool :=
  let fix go (x y : list obj) : bool :=
    match x, y with [], [] => true | p :: x', q :: y' => obj_eqb p q && go x' y' | _, _ => false end in
  match a, b with
  | ONil, ONil | OTrue, OTrue => true
  | OInt b1 x, OInt b2 y => Bool.eqb b1 b2 && Z.eqb x y
  | ORat n d, ORat n' d' => Z.eqb n n' && Z.eqb d d'
  | OFlt k _, OFlt k' _ => fkind_eqb k k'
  | OStr x, OStr y | OSym x, OSym y => bytes_eqb x y
  | OOther _, OOther _ => true      (* something that is not data: quote forms, times, bit vectors ... *)
  | OChr x, OChr y => N.eqb x y
  | OList x, OList y | OVec x, OVec y => go x y
  | ODot x t, ODot y u => go x y && obj_eqb t u
  | OArr r x, OArr r' y => Nat.eqb r r' && go x y
  | _, _ => false
  end.
Fixpoint obj_equal (a b : obj) : bool :=
  let fix go (x y : list obj) : bool :=
    match x, y with [], [] => true | p :: x', q :: y' => obj_equal p q && go x' y' | _, _ => false end in
  match a, b with
  | ONil, ONil | OTrue, OTrue => true
  | OInt _ x, OInt _ y => Z.eqb x y
  | ORat n d, ORat n' d' => Z.eqb n n' && Z.eqb d d'
  | OFlt k _, OFlt k' _ => fkind_eqb k k'
  | OStr x, OStr y => bytes_eqb x y
  | OSym x, OSym y => bytes_eqb (map lower x) (map lower y)
  | OChr x, OChr y => N.eqb x y
  | OList x, OList y | OVec x, OVec y => go x y
  | ODot x t, ODot y u => go x y && obj_equal t u
  | OArr r x, OArr r' y => Nat.eqb r r' && go x y
  | _, _ => false
  end.

(* type-of *)
Inductive ty := TNull | TTrue | TFixnum | TBignum | TRatio | TSingle | TDouble | TLong | TString | TCharacter
              | TSymbol | TList | TCons | TVector | TArray | TOther.
Definition type_of (x : obj) : ty :=
  match x with
  | ONil => TNull | OTrue => TTrue
  | OInt false _ => TFixnum | OInt true _ => TBignum
  | ORat _ _ => TRatio
  | OFlt FSingle _ => TSingle | OFlt FDouble _ => TDouble | OFlt FLong _ => TLong
  | OStr _ => TString | OChr _ => TCharacter | OSym _ => TSymbol
  | OList _ => TList | ODot _ _ => TCons | OVec _ => TVector | OArr _ _ => TArray
  | OOther _ => TOther
  end.
Definition ty_eqb (a b : ty) : bool :=
  match a, b with
  | TNull, TNull | TTrue, TTrue | TFixnum, TFixnum | TBignum, TBignum | TRatio, TRatio | TSingle, TSingle
  | TDouble, TDouble | TLong, TLong | TString, TString | TCharacter, TCharacter | TSymbol, TSymbol
  | TList, TList | TCons, TCons | TVector, TVector | TArray, TArray | TOther, TOther => true
  | _, _ => false
  end.

(* S: what reading the printed text must give for x *)
Definition roundtrip_ok (x : obj) (r : option (list obj)) : bool :=
  match r with
  | Some [y] => obj_equal x y && ty_eqb (type_of x) (type_of y)
  | _ => false
  end.

(* ------------------------------------------------------------------------------------------ *)
(* the guard                                                                                     *)
(* ------------------------------------------------------------------------------------------ *)
(* printer settings documented to keep output readable: escapes on, and the base announced
   ( *print-radix* ) or ten *)
Definition readable_cfg (c : pcfg) : bool :=
  p_escape c && (2 <=? p_base c)%N && (p_base c <=? 36)%N && (p_radix c || (p_base c =? 10)%N).

Definition plain_string_byte (b : byte) : bool :=     (* bytes a string printed without escapes may hold *)
  negb (b =? 34)%N && negb (b =? 92)%N && ((32 <=? b)%N || (b =? 9)%N || (b =? 10)%N || (b =? 13)%N) && (b <? 256)%N.
(* every rune of the Go string is a well-formed UTF-8 sequence (the string is a sequence of scalars) *)
Fixpoint runes_fuel (fuel : nat) (bs : list byte) : list N :=
  match fuel with
  | O => []
  | S f => match bs with
           | [] => []
           | _ => let '(r, cnt) := decode_rune bs in r :: runes_fuel f (skipn (Nat.max cnt 1) bs)
           end
  end.
Definition runes (bs : list byte) : list N := runes_fuel (length bs) bs.
Definition utf8_ok (bs : list byte) : bool :=
  let rs := runes bs in forallb is_scalar rs && bytes_eqb (concat (map utf8 rs)) bs.

(* characters: every Unicode scalar (a rune that is no scalar - a surrogate - is not a character of the property).
   The NUL character is printed by name (repo_fixes C03-12), the characters the reader's character mode rejects
   after #\ by code (repo_fixes C03-13). *)
Definition char_readable (r : N) : bool := is_scalar r.

Definition pipe_ok_byte (b : byte) : bool :=       (* bytes a |name| holds as they are; the others are escaped *)
  negb (b =? 124)%N && negb (b =? 92)%N && ((32 <=? b)%N || (b =? 9)%N || (b =? 10)%N || (b =? 13)%N).
Definition token_byte (b : byte) : bool :=          (* bytes the reader keeps inside a token *)
  match act T03 MToken b with ASkip | ATokenStart => true | _ => false end.
Definition token_first (b : byte) : bool :=
  match act T03 MValue b with ATokenStart => true | _ => false end.
(* Symbols.  Symbol.needPipes (repo_fixes C03-3 ... C03-11) puts between bars every name the reader would not give
   back as that symbol when written bare: a byte the token modes reject, the spelling of a number, the lone dot,
   nil in any case, a leading @; between bars | \ and control bytes are escaped (C03-5); keywords follow the
   same rule (C03-6); the pretty printer writes symbols like the flat one (C03-4); the reader takes bytes above
   0x7f as token constituents (C03-8).  What is left of the guard:
   - names are byte strings;
   - the model's caseName is the ASCII one: a name with bytes above 0x7f is inside the guard when *print-case* is
     nil (no conversion); with a conversion in force only ASCII names are (strings.ToUpper / ToLower on cased
     non-ASCII letters are outside the model);
   - the symbol named t (or T) is printed like the constant t: known finding C03-symbol-named-t, pinned by
     slip's own tests. *)
Definition case_is_none (c : pcfg) : bool := match p_case c with CNone => true | _ => false end.
Definition sym_ok (c : pcfg) (name : list byte) : bool :=
  forallb (fun b => (b <? 256)%N) name && (forallb (fun b => (b <? 128)%N) name || case_is_none c) && negb (is_t name).

Definition float_ok (k : fkind) (txt : list byte) : bool :=
  match resolve_token txt with OFlt k' _ => fkind_eqb k k' | _ => false end &&
  match txt with [] => false | b :: r => token_first b && forallb token_byte r end &&
  negb (is_t txt) && negb (is_nil_tok txt).

Definition atom_ok (c : pcfg) (x : obj) : bool :=
  match x with
  | ONil | OTrue => true
  | OInt b z => Bool.eqb b (negb (in64 z))
  | ORat n d => (2 <=? d)%Z && (Z.gcd n d =? 1)%Z && (p_base c =? 10)%N && negb (p_radix c)
  | OFlt k txt => float_ok k txt
  | OStr bs => if p_readably c then utf8_ok bs else forallb plain_string_byte bs
  | OChr r => char_readable r
  | OSym s => sym_ok c s
  | _ => false
  end.

(* dom c x: x is an object of the property (well formed) that the printer and the reader carry round *)
Fixpoint dom (c : pcfg) (x : obj) : bool :=
  let fix all (l : list obj) : bool := match l with [] => true | e :: l' => dom c e && all l' end in
  match x with
  | OList xs => nonempty xs && all xs
  | ODot xs tl => nonempty xs && all xs && is_atom tl && atom_ok c tl &&
                  match tl with ONil => false | _ => true end
  | OVec xs => p_array c && all xs
  | OArr rank rows => p_array c && (2 <=? rank)%nat && (rank <=? 1024)%nat &&
                      arr_dims_ok rank rows && arr_check (arr_dims rank rows) rows && all rows
  | _ => atom_ok c x
  end.
Definition in_domain (c : pcfg) (x : obj) : bool := readable_cfg c && dom c x.
