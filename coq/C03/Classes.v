(* C03 — byte classes of the reader tables, each decided by computing over all 256 entries. *)
From C03 Require Import Model Spec ReaderLemmas.
From Coq Require Import ZifyBool.
Local Open Scope N_scope.

Lemma table_lengths : forall m, length (T03 m) = 256%nat.
Proof. destruct m; reflexivity. Qed.
Lemma act_out_of_range m b : 256 <= b -> act T03 m b = AErr.
Proof.
  intros H. unfold act. rewrite nth_overflow; [reflexivity|]. rewrite table_lengths. lia.
Qed.
Lemma bytes_all (P : N -> bool) : forall_below 256 P = true -> (forall b, 256 <= b -> P b = true) -> forall b, P b = true.
Proof. intros H1 H2 b. destruct (N.lt_ge_cases b 256); [apply (forall_bytes P H1); assumption|apply H2; assumption]. Qed.

Definition action_eqb (a b : action) : bool :=
  match a, b with
  | ASkip, ASkip | ATokenStart, ATokenStart | AStrByte, AStrByte | AEscOne, AEscOne | ATokenDone, ATokenDone => true
  | _, _ => false
  end.
Lemma action_eqb_eq a b : action_eqb a b = true -> a = b.
Proof. destruct a, b; try discriminate; reflexivity. Qed.

(* token bytes keep their class under case conversion *)
Lemma token_first_range b : token_first b = true -> b < 256.
Proof. intros H. destruct (N.lt_ge_cases b 256); [assumption|]. unfold token_first in H. rewrite act_out_of_range in H by assumption. discriminate. Qed.
Lemma token_byte_range b : token_byte b = true -> b < 256.
Proof. intros H. destruct (N.lt_ge_cases b 256); [assumption|]. unfold token_byte in H. rewrite act_out_of_range in H by assumption. discriminate. Qed.
Lemma token_first_case b : token_first b = true -> token_first (lower b) = true /\ token_first (upper b) = true.
Proof.
  intros H. pose proof (token_first_range b H) as Hr. revert H.
  assert (G : implb (token_first b) (token_first (lower b) && token_first (upper b)) = true).
  { revert b Hr. apply (forall_bytes (fun b => implb (token_first b) (token_first (lower b) && token_first (upper b)))). vm_compute. reflexivity. }
  intros H. rewrite H in G. cbn in G. apply andb_true_iff in G. exact G.
Qed.
Lemma token_byte_case b : token_byte b = true -> token_byte (lower b) = true /\ token_byte (upper b) = true.
Proof.
  intros H. pose proof (token_byte_range b H) as Hr. revert H.
  assert (G : implb (token_byte b) (token_byte (lower b) && token_byte (upper b)) = true).
  { revert b Hr. apply (forall_bytes (fun b => implb (token_byte b) (token_byte (lower b) && token_byte (upper b)))). vm_compute. reflexivity. }
  intros H. rewrite H in G. cbn in G. apply andb_true_iff in G. exact G.
Qed.
(* digits, lower-case letters, the signs, '.', '/' *)
Definition numeric_byte (b : byte) : bool :=
  ((48 <=? b) && (b <=? 57)) || ((97 <=? b) && (b <=? 122)) || (b =? 45) || (b =? 46) || (b =? 47) || (b =? 43).
Lemma numeric_token_byte b : numeric_byte b = true -> token_byte b = true.
Proof.
  intros H. assert (Hr : b < 256) by (unfold numeric_byte in H; lia). revert H.
  assert (G : implb (numeric_byte b) (token_byte b) = true).
  { revert b Hr. apply (forall_bytes (fun b => implb (numeric_byte b) (token_byte b))). vm_compute. reflexivity. }
  intros H. rewrite H in G. exact G.
Qed.
Lemma numeric_token_first b : ((48 <=? b) && (b <=? 57)) || (b =? 45) = true -> token_first b = true.
Proof.
  intros H. assert (Hr : b < 256) by lia. revert H.
  assert (G : implb (((48 <=? b) && (b <=? 57)) || (b =? 45)) (token_first b) = true).
  { revert b Hr. apply (forall_bytes (fun b => implb (((48 <=? b) && (b <=? 57)) || (b =? 45)) (token_first b))). vm_compute. reflexivity. }
  intros H. rewrite H in G. exact G.
Qed.
Definition int_byte (b : byte) : bool := ((48 <=? b) && (b <=? 57)) || ((97 <=? b) && (b <=? 122)) || (b =? 45).
Lemma int_byte_skip b : int_byte b = true -> act T03 MInt b = ASkip.
Proof.
  intros H. assert (Hr : b < 256) by (unfold int_byte in H; lia). apply action_eqb_eq. revert H.
  assert (G : implb (int_byte b) (action_eqb (act T03 MInt b) ASkip) = true).
  { revert b Hr. apply (forall_bytes (fun b => implb (int_byte b) (action_eqb (act T03 MInt b) ASkip))). vm_compute. reflexivity. }
  intros H. rewrite H in G. exact G.
Qed.

(* strings *)
Lemma plain_string_byte_str b : plain_string_byte b = true -> act T03 MString b = AStrByte.
Proof.
  intros H. assert (Hr : b < 256) by (unfold plain_string_byte in H; lia). apply action_eqb_eq. revert H.
  assert (G : implb (plain_string_byte b) (action_eqb (act T03 MString b) AStrByte) = true).
  { revert b Hr. apply (forall_bytes (fun b => implb (plain_string_byte b) (action_eqb (act T03 MString b) AStrByte))). vm_compute. reflexivity. }
  intros H. rewrite H in G. exact G.
Qed.
Lemma high_byte_str b : 128 <= b -> b < 256 -> act T03 MString b = AStrByte.
Proof.
  intros H1 Hr. apply action_eqb_eq.
  assert (G : implb (128 <=? b) (action_eqb (act T03 MString b) AStrByte) = true).
  { clear H1. revert b Hr. apply (forall_bytes (fun b => implb (128 <=? b) (action_eqb (act T03 MString b) AStrByte))). vm_compute. reflexivity. }
  replace (128 <=? b) with true in G by lia. exact G.
Qed.
(* the ASCII bytes AppendJSONString copies unchanged *)
Definition json_plain (b : byte) : bool := (32 <=? b) && (b <? 127) && negb (b =? 34) && negb (b =? 92).
Lemma json_plain_str b : json_plain b = true -> act T03 MString b = AStrByte.
Proof. intros H. apply plain_string_byte_str. unfold json_plain in H. unfold plain_string_byte. lia. Qed.

(* |symbols| *)
Lemma pipe_ok_sym b : pipe_ok_byte b = true -> b < 128 ->
  act T03 MSymbol b = AStrByte /\ act T03 MSymbol (lower b) = AStrByte /\ act T03 MSymbol (upper b) = AStrByte.
Proof.
  intros H Hb. assert (Hr : b < 256) by lia.
  assert (G : implb (pipe_ok_byte b && (b <? 128))
                (action_eqb (act T03 MSymbol b) AStrByte && action_eqb (act T03 MSymbol (lower b)) AStrByte && action_eqb (act T03 MSymbol (upper b)) AStrByte) = true).
  { clear H Hb. revert b Hr. apply (forall_bytes (fun b => implb (pipe_ok_byte b && (b <? 128))
                (action_eqb (act T03 MSymbol b) AStrByte && action_eqb (act T03 MSymbol (lower b)) AStrByte && action_eqb (act T03 MSymbol (upper b)) AStrByte))).
    vm_compute. reflexivity. }
  rewrite H in G. replace (b <? 128) with true in G by lia. cbn [andb implb] in G.
  apply andb_true_iff in G as [G G3]. apply andb_true_iff in G as [G1 G2].
  repeat split; apply action_eqb_eq; assumption.
Qed.

(* every byte the printer leaves as it is between bars is a plain byte of the reader's symbol mode *)
Lemma pipe_ok_raw b : b < 256 -> pipe_ok_byte b = true -> act T03 MSymbol b = AStrByte.
Proof.
  intros Hr H. apply action_eqb_eq.
  assert (G : implb (pipe_ok_byte b) (action_eqb (act T03 MSymbol b) AStrByte) = true).
  { clear H. revert b Hr. apply (forall_bytes (fun b => implb (pipe_ok_byte b) (action_eqb (act T03 MSymbol b) AStrByte))). vm_compute. reflexivity. }
  rewrite H in G. exact G.
Qed.

(* a byte needPipeMap does not flag is a token constituent, and starts a token unless it is @ ; & starts one too *)
Lemma unflagged_token_byte b : b < 256 -> need_pipe b = false -> token_byte b = true.
Proof.
  intros Hr H.
  assert (G : implb (negb (need_pipe b)) (token_byte b) = true).
  { clear H. revert b Hr. apply (forall_bytes (fun b => implb (negb (need_pipe b)) (token_byte b))). vm_compute. reflexivity. }
  rewrite H in G. exact G.
Qed.
Lemma unflagged_token_first b : b < 256 -> need_pipe b && negb (b =? 38) = false -> (b =? 64) = false -> token_first b = true.
Proof.
  intros Hr H H64.
  assert (G : implb (negb (need_pipe b && negb (b =? 38)) && negb (b =? 64)) (token_first b) = true).
  { clear H H64. revert b Hr. apply (forall_bytes (fun b => implb (negb (need_pipe b && negb (b =? 38)) && negb (b =? 64)) (token_first b))). vm_compute. reflexivity. }
  rewrite H, H64 in G. exact G.
Qed.

(* characters *)
Lemma high_byte_char b : 128 <= b -> b < 256 -> act T03 MChar b = ASkip.
Proof.
  intros H1 Hr. apply action_eqb_eq.
  assert (G : implb (128 <=? b) (action_eqb (act T03 MChar b) ASkip) = true).
  { clear H1. revert b Hr. apply (forall_bytes (fun b => implb (128 <=? b) (action_eqb (act T03 MChar b) ASkip))). vm_compute. reflexivity. }
  replace (128 <=? b) with true in G by lia. exact G.
Qed.
Definition alnum (b : byte) : bool := ((48 <=? b) && (b <=? 57)) || ((97 <=? b) && (b <=? 122)) || ((65 <=? b) && (b <=? 90)).
Lemma alnum_char b : alnum b = true -> act T03 MChar b = ASkip.
Proof.
  intros H. assert (Hr : b < 256) by (unfold alnum in H; lia). apply action_eqb_eq. revert H.
  assert (G : implb (alnum b) (action_eqb (act T03 MChar b) ASkip) = true).
  { revert b Hr. apply (forall_bytes (fun b => implb (alnum b) (action_eqb (act T03 MChar b) ASkip))). vm_compute. reflexivity. }
  intros H. rewrite H in G. exact G.
Qed.

(* case conversion *)
Lemma lower_idem b : lower (lower b) = lower b.
Proof. unfold lower. destruct ((65 <=? b) && (b <=? 90)) eqn:E; [|rewrite E; reflexivity]. replace ((65 <=? b + 32) && (b + 32 <=? 90)) with false by lia. reflexivity. Qed.
Lemma lower_upper b : lower (upper b) = lower b.
Proof.
  unfold lower, upper. destruct ((97 <=? b) && (b <=? 122)) eqn:E.
  - replace ((65 <=? b - 32) && (b - 32 <=? 90)) with true by lia. replace ((65 <=? b) && (b <=? 90)) with false by lia. lia.
  - reflexivity.
Qed.
Lemma map_lower_case c name : map lower (case_name c name) = map lower name.
Proof.
  destruct c; cbn [case_name].
  - rewrite map_map. apply map_ext. apply lower_upper.
  - rewrite map_map. apply map_ext. apply lower_idem.
  - destruct name as [|b r]; [reflexivity|]. cbn [map]. rewrite lower_upper, lower_idem. f_equal.
    rewrite map_map. apply map_ext. apply lower_idem.
  - reflexivity.
Qed.
Lemma case_name_length c name : length (case_name c name) = length name.
Proof. destruct c; cbn [case_name]; rewrite ?map_length; try reflexivity. destruct name; cbn; rewrite ?map_length; reflexivity. Qed.
(* a property of bytes that case conversion keeps holds for the converted name *)
Lemma case_name_forall (P : byte -> Prop) c name :
  (forall b, P b -> P (lower b) /\ P (upper b)) -> Forall P name -> Forall P (case_name c name).
Proof.
  intros HP HF. assert (HL : Forall P (map lower name)).
  { apply Forall_forall. intros x Hx. apply in_map_iff in Hx as (y & <- & Hy). rewrite Forall_forall in HF. apply HP, HF, Hy. }
  destruct c; cbn [case_name]; try assumption.
  - apply Forall_forall. intros x Hx. apply in_map_iff in Hx as (y & <- & Hy). rewrite Forall_forall in HF. apply HP, HF, Hy.
  - destruct name as [|b r]; [constructor|]. cbn [map] in *. inversion HL; subst. constructor; [|assumption].
    inversion HF; subst. apply HP. apply HP. assumption.
Qed.
