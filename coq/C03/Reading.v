(* C03 — what a text reads as: the relation Reads text tree ("from any state between lexemes, on any
   stack, the text leaves exactly this tree"), its combinators for every kind of lexeme, for sequences
   separated by ANY white space, for lists, vectors and arrays, and the link to read_all. *)
From C03 Require Import Model Spec Utf8 ReaderLemmas.
From Coq Require Import ZifyBool.
Local Open Scope N_scope.

Definition nomark (st : list item) : bool := match st with IMark _ :: _ => false | _ => true end.
Definition Reads (t : list byte) (tr : tree) : Prop :=
  forall s p, Ready p s -> nomark (stack p) = true -> Lands (push_val p tr) (run s t).

Lemma nomark_push_val p t : nomark (stack (push_val p t)) = true.
Proof. unfold push_val. destruct (wrap_marks (stack p) t) as [st t']. destruct st; reflexivity. Qed.
(* on a stack without a waiting reader macro a completed object is just pushed *)
Lemma wrap_marks_nomark st t : nomark st = true -> wrap_marks st t = (st, t).
Proof. destruct st as [|[k|m|x] st]; intros H; try reflexivity. discriminate H. Qed.
Lemma push_val_nomark p t : nomark (stack p) = true ->
  push_val p t = match stack p with [] => {| stack := []; code := t :: code p |} | st => {| stack := IVal t :: st; code := code p |} end.
Proof. intros H. unfold push_val. rewrite (wrap_marks_nomark _ _ H). destruct (stack p); reflexivity. Qed.

(* ---- tokens ---- *)
Definition tok_tree (w : list byte) : tree :=
  if is_t w then TLeaf LTrue else if is_nil_tok w then TLeaf LNil else TLeaf (LTok w).
Lemma push_token_nomark p w : nomark (stack p) = true -> push_token p w = push_val p (tok_tree w).
Proof.
  intros H. unfold push_token, tok_tree. destruct (is_t w); [reflexivity|]. destruct (is_nil_tok w); reflexivity.
Qed.
Lemma Reads_token c0 cs : token_first c0 = true -> forallb token_byte cs = true -> Reads (c0 :: cs) (tok_tree (c0 :: cs)).
Proof.
  intros H0 Hcs s p (n & ba & sh & rn & rc & ->) Hnm. unfold token_first in H0.
  destruct (act T03 MValue c0) eqn:E; try discriminate H0.
  rewrite run_cons, R_value_tokstart by exact E. rewrite run_tok_grow by exact Hcs.
  apply LandsTok. apply push_token_nomark. exact Hnm.
Qed.

(* ---- strings ---- *)
(* in string mode the bytes `body` add the bytes `bs` to the string being read *)
Definition StrBody (body bs : list byte) : Prop :=
  forall ba sh rn rc p q, exists rn' rc',
    run (mkS MString MString ba sh rn rc p q) body = mkS MString MString ba sh rn' rc' p (q ++ bs).
Lemma StrBody_nil : StrBody [] [].
Proof. intros ba sh rn rc p q. exists rn, rc. rewrite app_nil_r. reflexivity. Qed.
Lemma StrBody_app b1 s1 b2 s2 : StrBody b1 s1 -> StrBody b2 s2 -> StrBody (b1 ++ b2) (s1 ++ s2).
Proof.
  intros H1 H2 ba sh rn rc p q. destruct (H1 ba sh rn rc p q) as (rn1 & rc1 & E1).
  destruct (H2 ba sh rn1 rc1 p (q ++ s1)) as (rn2 & rc2 & E2). exists rn2, rc2.
  rewrite run_app, E1, E2, app_assoc. reflexivity.
Qed.
Lemma StrBody_plain b : act T03 MString b = AStrByte -> StrBody [b] [b].
Proof. intros H ba sh rn rc p q. exists rn, rc. rewrite run_cons, R_str_byte by exact H. reflexivity. Qed.
Lemma StrBody_esc1 x : act T03 MEsc x = AEscOne -> StrBody [92; x] [esc03 x].
Proof. intros H ba sh rn rc p q. exists rn, rc. rewrite run_cons, R_str_esc, run_cons, R_esc_one by exact H. reflexivity. Qed.
Lemma StrBody_u4 a b c d : a < 16 -> b < 16 -> c < 16 -> d < 16 ->
  StrBody [92; 117; hexd a; hexd b; hexd c; hexd d] (utf8 (((a * 16 + b) * 16 + c) * 16 + d)).
Proof.
  intros Ha Hb Hc Hd ba sh rn rc p q. eexists. exists 0%nat.
  rewrite run_cons, R_str_esc, run_cons, R_esc_u, run_cons, R_rune_more, run_cons, R_rune_more, run_cons, R_rune_more by assumption.
  rewrite run_cons, R_rune_last by assumption. rewrite run_nil, !N.mul_0_l, !N.add_0_l. reflexivity.
Qed.
Lemma Reads_string body bs : StrBody body bs -> Reads ([34] ++ body ++ [34]) (TLeaf (LStr bs)).
Proof.
  intros H s p (n & ba & sh & rn & rc & ->) Hnm.
  cbn [app]. rewrite run_cons, R_value_dquote, run_app.
  destruct (H ba sh rn rc p []) as (rn' & rc' & E). rewrite E, run_cons, R_str_done, run_nil.
  apply LandsReady. exists MString, ba, sh, rn', rc'. reflexivity.
Qed.

(* ---- |symbols| ---- *)
Lemma run_sym_bytes ba sh rn rc p name : (forall b, In b name -> act T03 MSymbol b = AStrByte) -> forall q,
  run (mkS MSymbol MSymbol ba sh rn rc p q) name = mkS MSymbol MSymbol ba sh rn rc p (q ++ name).
Proof.
  induction name as [|b name IH]; intros H q; [rewrite app_nil_r; reflexivity|].
  rewrite run_cons, R_sym_byte by (apply H; left; reflexivity).
  rewrite IH by (intros; apply H; right; assumption). rewrite <- app_assoc. reflexivity.
Qed.
Lemma Reads_pipe name : (forall b, In b name -> act T03 MSymbol b = AStrByte) ->
  Reads ([124] ++ name ++ [124]) (TLeaf (LPipe name)).
Proof.
  intros H s p (n & ba & sh & rn & rc & ->) Hnm.
  cbn [app]. rewrite run_cons, R_value_pipe, run_app, run_sym_bytes by exact H.
  rewrite run_cons, R_sym_done, run_nil. apply LandsReady. exists MSymbol, ba, sh, rn, rc. reflexivity.
Qed.

(* in symbol mode the bytes `body` add the bytes `bs` to the name being read (escapes included) *)
Definition SymBody (body bs : list byte) : Prop :=
  forall ba sh rn rc p q, exists rn' rc',
    run (mkS MSymbol MSymbol ba sh rn rc p q) body = mkS MSymbol MSymbol ba sh rn' rc' p (q ++ bs).
Lemma SymBody_nil : SymBody [] [].
Proof. intros ba sh rn rc p q. exists rn, rc. rewrite app_nil_r. reflexivity. Qed.
Lemma SymBody_app b1 s1 b2 s2 : SymBody b1 s1 -> SymBody b2 s2 -> SymBody (b1 ++ b2) (s1 ++ s2).
Proof.
  intros H1 H2 ba sh rn rc p q. destruct (H1 ba sh rn rc p q) as (rn1 & rc1 & E1).
  destruct (H2 ba sh rn1 rc1 p (q ++ s1)) as (rn2 & rc2 & E2). exists rn2, rc2.
  rewrite run_app, E1, E2, app_assoc. reflexivity.
Qed.
Lemma SymBody_plain b : act T03 MSymbol b = AStrByte -> SymBody [b] [b].
Proof. intros H ba sh rn rc p q. exists rn, rc. rewrite run_cons, R_sym_byte by exact H. reflexivity. Qed.
Lemma R_sym_esc m ba sh rn rc p q : R (mkS MSymbol m ba sh rn rc p q) 92 = mkS MEsc m ba sh rn rc p q.
Proof. reflexivity. Qed.
Lemma SymBody_esc1 x : act T03 MEsc x = AEscOne -> SymBody [92; x] [esc03 x].
Proof. intros H ba sh rn rc p q. exists rn, rc. rewrite run_cons, R_sym_esc, run_cons, R_esc_one by exact H. reflexivity. Qed.
Lemma SymBody_u4 a b c d : a < 16 -> b < 16 -> c < 16 -> d < 16 ->
  SymBody [92; 117; hexd a; hexd b; hexd c; hexd d] (utf8 (((a * 16 + b) * 16 + c) * 16 + d)).
Proof.
  intros Ha Hb Hc Hd ba sh rn rc p q. eexists. exists 0%nat.
  rewrite run_cons, R_sym_esc, run_cons, R_esc_u, run_cons, R_rune_more, run_cons, R_rune_more, run_cons, R_rune_more by assumption.
  rewrite run_cons, R_rune_last by assumption. rewrite run_nil, !N.mul_0_l, !N.add_0_l. reflexivity.
Qed.
Lemma Reads_pipe_body body name : SymBody body name -> Reads ([124] ++ body ++ [124]) (TLeaf (LPipe name)).
Proof.
  intros H s p (n & ba & sh & rn & rc & ->) Hnm.
  cbn [app]. rewrite run_cons, R_value_pipe, run_app.
  destruct (H ba sh rn rc p []) as (rn' & rc' & E). rewrite E, run_cons, R_sym_done, run_nil.
  apply LandsReady. exists MSymbol, ba, sh, rn', rc'. reflexivity.
Qed.

(* ---- #\characters ---- *)
Lemma run_char_bytes n ba sh rn rc p name : (forall b, In b name -> act T03 MChar b = ASkip) -> forall q,
  run (mkS MChar n ba sh rn rc p q) name = mkS MChar n ba sh rn rc p (q ++ name).
Proof.
  induction name as [|b name IH]; intros H q; [rewrite app_nil_r; reflexivity|].
  rewrite run_cons, R_char_grow by (apply H; left; reflexivity).
  rewrite IH by (intros; apply H; right; assumption). rewrite <- app_assoc. reflexivity.
Qed.
Lemma Reads_char name : name <> [] -> (forall b, In b name -> act T03 MChar b = ASkip) ->
  Reads ([35; 92] ++ name) (TLeaf (LChar name)).
Proof.
  intros Hne H s p (n & ba & sh & rn & rc & ->) Hnm.
  cbn [app]. rewrite run_cons, R_value_sharp, run_cons, R_sharp_slash, run_char_bytes by exact H.
  apply LandsChar; [exact Hne|reflexivity].
Qed.

(* ---- #b #o #x #NNr integers ---- *)
Lemma run_int_bytes n ba sh rn rc p ds : (forall b, In b ds -> act T03 MInt b = ASkip) -> forall q,
  run (mkS MInt n ba sh rn rc p q) ds = mkS MInt n ba sh rn rc p (q ++ ds).
Proof.
  induction ds as [|b ds IH]; intros H q; [rewrite app_nil_r; reflexivity|].
  rewrite run_cons, R_int_grow by (apply H; left; reflexivity).
  rewrite IH by (intros; apply H; right; assumption). rewrite <- app_assoc. reflexivity.
Qed.
(* decimal digits after '#': the number they spell ends up in the sharp register *)
Definition dec_acc (acc : N) (b : byte) : N := acc * 10 + (b - 48).
Lemma run_sharpnum n ba rn rc p q ds : forallb is_digit ds = true -> forall sh,
  run (mkS MSharpNum n ba sh rn rc p q) ds = mkS MSharpNum n ba (fold_left dec_acc ds sh) rn rc p q.
Proof.
  induction ds as [|b ds IH]; intros H sh; [reflexivity|].
  cbn [forallb] in H. apply andb_true_iff in H as [Hb H].
  rewrite run_cons, R_sharpnum_digit by exact Hb. rewrite IH by exact H. reflexivity.
Qed.
Lemma run_sharp_number n ba sh rn rc p q d ds : is_digit d = true -> forallb is_digit ds = true ->
  run (mkS MSharp n ba sh rn rc p q) (d :: ds) = mkS MSharpNum n ba (fold_left dec_acc (d :: ds) 0) rn rc p q.
Proof.
  intros Hd Hds. rewrite run_cons, R_sharp_digit by exact Hd. rewrite run_sharpnum by exact Hds.
  cbn [fold_left]. replace (dec_acc 0 d) with (d - 48) by (unfold dec_acc; lia). reflexivity.
Qed.
(* the text after '#' that selects a base *)
Definition BasePrefix (pfx : list byte) (base : N) : Prop :=
  forall n ba sh rn rc p q, exists sh', run (mkS MSharp n ba sh rn rc p q) pfx = mkS MInt n base sh' rn rc p [].
Lemma Reads_sharp_int pfx base ds : BasePrefix pfx base -> (forall b, In b ds -> act T03 MInt b = ASkip) ->
  valid_int base ds = true -> Reads ([35] ++ pfx ++ ds) (TLeaf (LInt base ds)).
Proof.
  intros Hp Hds Hv s p (n & ba & sh & rn & rc & ->) Hnm.
  cbn [app]. rewrite run_cons, R_value_sharp, run_app. destruct (Hp n ba sh rn rc p []) as (sh' & E). rewrite E.
  rewrite run_int_bytes by exact Hds. apply LandsInt; [exact Hv|reflexivity].
Qed.
Lemma BasePrefix_b : BasePrefix [98] 2. Proof. intros n ba sh rn rc p q. exists sh. reflexivity. Qed.
Lemma BasePrefix_o : BasePrefix [111] 8. Proof. intros n ba sh rn rc p q. exists sh. reflexivity. Qed.
Lemma BasePrefix_x : BasePrefix [120] 16. Proof. intros n ba sh rn rc p q. exists sh. reflexivity. Qed.
Lemma BasePrefix_r d ds : is_digit d = true -> forallb is_digit ds = true ->
  BasePrefix ((d :: ds) ++ [114]) (fold_left dec_acc (d :: ds) 0).
Proof.
  intros Hd Hds n ba sh rn rc p q. eexists. rewrite run_app, run_sharp_number by assumption.
  rewrite run_cons, R_sharpnum_r, run_nil. reflexivity.
Qed.

(* ---- sequences of lexemes separated by white space ---- *)
Inductive Seq : list (list byte) -> list byte -> Prop :=
| Seq_one t : Seq [t] t
| Seq_cons t w ts body : w <> [] -> forallb ws w = true -> Seq ts body -> Seq (t :: ts) (t ++ w ++ body).

Definition vals (l : list tree) : list item := rev (map IVal l).
Lemma vals_snoc l t : vals (l ++ [t]) = IVal t :: vals l.
Proof. unfold vals. rewrite map_app, rev_app_distr. reflexivity. Qed.
Lemma pop_vals k st : forall trs acc, pop_to_open (vals trs ++ IOpen k :: st) acc = Some (k, trs ++ acc, st).
Proof.
  induction trs as [|t trs IH] using rev_ind; intros acc; [reflexivity|].
  rewrite vals_snoc. cbn [app pop_to_open]. rewrite IH, <- app_assoc. reflexivity.
Qed.
Lemma nomark_vals acc k st : nomark (vals acc ++ IOpen k :: st) = true.
Proof.
  destruct acc as [|t acc] using rev_ind; [reflexivity|]. rewrite vals_snoc. reflexivity.
Qed.
Lemma push_val_vals acc k st cd t :
  push_val {| stack := vals acc ++ IOpen k :: st; code := cd |} t = {| stack := vals (acc ++ [t]) ++ IOpen k :: st; code := cd |}.
Proof.
  rewrite vals_snoc. rewrite push_val_nomark by apply nomark_vals. cbn [stack code].
  destruct (vals acc ++ IOpen k :: st) eqn:E; [destruct (vals acc); discriminate E|].
  cbn [app]. rewrite E. reflexivity.
Qed.

Lemma run_seq ts body : Seq ts body -> forall trs, Forall2 Reads ts trs ->
  forall s k st cd acc, Ready {| stack := vals acc ++ IOpen k :: st; code := cd |} s ->
  Lands {| stack := vals (acc ++ trs) ++ IOpen k :: st; code := cd |} (run s body).
Proof.
  induction 1 as [t|t w ts body Hne Hw HS IH]; intros trs HF s k st cd acc Hr.
  - inversion HF as [|? tr ? ? Ht HF']; subst. inversion HF'; subst.
    rewrite <- push_val_vals. apply Ht; [exact Hr|]. apply nomark_vals.
  - inversion HF as [|? tr ? trs' Ht HF']; subst.
    rewrite !run_app.
    assert (HL : Lands {| stack := vals (acc ++ [tr]) ++ IOpen k :: st; code := cd |} (run s t)).
    { rewrite <- push_val_vals. apply Ht; [exact Hr|]. apply nomark_vals. }
    pose proof (lands_ws _ _ w HL Hne Hw) as Hr2.
    specialize (IH trs' HF' _ k st cd (acc ++ [tr]) Hr2). rewrite <- app_assoc in IH. exact IH.
Qed.

(* ---- lists, vectors, arrays ---- *)
Lemma close_vals k st cd trs : nomark st = true ->
  close_list {| stack := vals trs ++ IOpen k :: st; code := cd |} =
  inl (push_val {| stack := st; code := cd |} (match k with KList => dotted trs | _ => TNode k trs end)).
Proof.
  intros Hnm. unfold close_list. cbn [stack code]. rewrite pop_vals, app_nil_r. reflexivity.
Qed.

Lemma Reads_list ts body trs : Seq ts body -> Forall2 Reads ts trs -> Reads ([40] ++ body ++ [41]) (dotted trs).
Proof.
  intros HS HF s p Hr Hnm. cbn [app]. rewrite run_cons, run_app, run_cons, run_nil.
  destruct Hr as (n & ba & sh & rn & rc & ->). rewrite R_value_open.
  assert (Hr1 : Ready {| stack := vals [] ++ IOpen KList :: stack p; code := code p |} (mkS MValue n ba sh rn rc {| stack := IOpen KList :: stack p; code := code p |} [])).
  { exists n, ba, sh, rn, rc. reflexivity. }
  pose proof (run_seq ts body HS trs HF _ KList (stack p) (code p) [] Hr1) as HL. cbn [app] in HL.
  apply LandsReady. eapply lands_close; [exact HL|]. rewrite close_vals by exact Hnm. destruct p; reflexivity.
Qed.
Lemma Reads_vector ts body trs : Seq ts body -> Forall2 Reads ts trs -> Reads ([35; 40] ++ body ++ [41]) (TNode KVector trs).
Proof.
  intros HS HF s p Hr Hnm. cbn [app]. rewrite run_cons, run_cons, run_app, run_cons, run_nil.
  destruct Hr as (n & ba & sh & rn & rc & ->). rewrite R_value_sharp, R_sharp_paren.
  assert (Hr1 : Ready {| stack := vals [] ++ IOpen KVector :: stack p; code := code p |} (mkS MValue n ba sh rn rc {| stack := IOpen KVector :: stack p; code := code p |} [])).
  { exists n, ba, sh, rn, rc. reflexivity. }
  pose proof (run_seq ts body HS trs HF _ KVector (stack p) (code p) [] Hr1) as HL. cbn [app] in HL.
  apply LandsReady. eapply lands_close; [exact HL|]. rewrite close_vals by exact Hnm. destruct p; reflexivity.
Qed.
Lemma Reads_vector_empty : Reads [35; 40; 41] (TNode KVector []).
Proof.
  intros s p (n & ba & sh & rn & rc & ->) Hnm.
  rewrite run_cons, R_value_sharp, run_cons, R_sharp_paren, run_cons, R_value_close, run_nil.
  change (IOpen KVector :: stack p) with (vals [] ++ IOpen KVector :: stack p). rewrite close_vals by exact Hnm.
  apply LandsReady. exists n, ba, sh, rn, rc. destruct p; reflexivity.
Qed.
(* #<rank>A( rows ) with the rank in decimal *)
Lemma Reads_array d ds ts body trs : is_digit d = true -> forallb is_digit ds = true ->
  2 <= fold_left dec_acc (d :: ds) 0 -> fold_left dec_acc (d :: ds) 0 <= 1024 ->
  Seq ts body -> Forall2 Reads ts trs ->
  Reads ([35] ++ (d :: ds) ++ [65; 40] ++ body ++ [41]) (TNode (KArray (fold_left dec_acc (d :: ds) 0)) trs).
Proof.
  intros Hd Hds Hlo Hhi HS HF s p Hr Hnm. set (rank := fold_left dec_acc (d :: ds) 0) in *.
  cbn [app]. rewrite run_cons. destruct Hr as (n & ba & sh & rn & rc & ->). rewrite R_value_sharp.
  change (d :: ds ++ 65 :: 40 :: body ++ [41]) with ((d :: ds) ++ 65 :: 40 :: body ++ [41]).
  rewrite run_app, run_sharp_number by assumption. fold rank.
  rewrite run_cons, R_sharpnum_A by assumption. rewrite run_cons, R_must_open, run_app, run_cons, run_nil.
  assert (Hr1 : Ready {| stack := vals [] ++ IOpen (KArray rank) :: stack p; code := code p |}
                 (mkS MValue n ba rank rn rc {| stack := IOpen (KArray rank) :: stack p; code := code p |} [])).
  { exists n, ba, rank, rn, rc. reflexivity. }
  pose proof (run_seq ts body HS trs HF _ (KArray rank) (stack p) (code p) [] Hr1) as HL. cbn [app] in HL.
  apply LandsReady. eapply lands_close; [exact HL|]. rewrite close_vals by exact Hnm. destruct p; reflexivity.
Qed.

(* ---- the whole text ---- *)
Definition p0 : pstate := {| stack := []; code := [] |}.
Lemma s0_ready : Ready p0 s0.
Proof. exists MValue, 0, 0, 0, 0%nat. reflexivity. Qed.
Theorem Reads_s_read t tr : Reads t tr -> s_read T03 esc03 t = ROk [tr] (length t).
Proof.
  intros H. specialize (H s0 p0 s0_ready eq_refl). unfold s_read. rewrite <- run_is_s_run. cbv zeta.
  change (push_val p0 tr) with {| stack := []; code := [tr] |} in H.
  generalize dependent (run s0 t). intros s1 H.
  destruct H as [s (n & ba & sh & rn & rc & ->)|n ba sh rn rc q0 q E|n ba sh rn rc q0 q Hq E|n ba sh rn rc q0 q Hq E].
  - reflexivity.
  - cbn [mkS s_core c_err]. unfold s_finish, finish. cbn [mkS s_core s_pend c_err c_mode emit set_mode set_p c_p].
    rewrite E. reflexivity.
  - destruct q as [|b q]; [contradiction|]. cbn [mkS s_core c_err]. unfold s_finish, finish.
    cbn [mkS s_core s_pend c_err c_mode emit set_mode set_p c_p]. rewrite E. reflexivity.
  - cbn [mkS s_core c_err]. unfold s_finish, finish. cbn [mkS s_core s_pend c_err c_mode emit set_mode set_p c_p c_base].
    rewrite Hq. cbn [set_mode set_p c_err c_p]. rewrite E. reflexivity.
Qed.
Theorem Reads_read_all t tr : Reads t tr ->
  read_all t = match obj_of_tree tr with Some y => Some [y] | None => None end.
Proof. intros H. unfold read_all. rewrite (Reads_s_read t tr H). cbn [map all_some]. destruct (obj_of_tree tr); reflexivity. Qed.
