(* C03 — the comparison evaluated on every run.
   A case is one (printer configuration, object) pair with what the implementation did: the text
   Printer.Append produced (None: it panicked; the model printer never does) and what slip.Read made of that text. *)
From C03 Require Import Model Spec.

Record case := Case { k_cfg : pcfg; k_obj : obj; k_text : option (list byte); k_read : option (list obj) }.

Definition opt_bytes_eqb (a b : option (list byte)) : bool :=
  match a, b with Some x, Some y => bytes_eqb x y | None, None => true | _, _ => false end.
Definition read_eqb (a b : option (list obj)) : bool :=
  match a, b with Some x, Some y => list_eqb obj_eqb x y | None, None => true | _, _ => false end.

Definition model_text (c : pcfg) (x : obj) : option (list byte) := Some (print c x).
Definition model_read (t : option (list byte)) : option (list obj) :=
  match t with Some bs => read_all bs | None => None end.

(* What is compared is what the property constrains: the OBJECTS a text denotes, not its spelling.
   agree_reader: the model reader and slip.Read make the same objects of the implementation's text.
   agree_printer: the implementation's text and the model's text denote the same objects (a change of layout,
   of letter case in a prefix, an extra escape ... that reads back alike is not a disagreement).
   0 ok.
   1: inside the guard the model differs from the implementation although the implementation's round trip is
      fine (the link between the theorems and the code is broken, no failing input).
   2: the model differs AND the object the implementation reads back is not an equal object of the same type
      although the pair is inside the guard, or the model (the unchanged code) did carry this pair round: a failing input.
   3: self-check: model = implementation, the pair is inside the guard, and the round trip fails (excluded by
      theorem C03_model_meets_spec_in_guard).
   Outside the guard a difference is not reported when the implementation's round trip is fine (the code got
   better there) or when the unchanged code's also failed (it was already broken there); such pairs are
   counted by drift_outside_guard. *)
Definition check_case (k : case) : N :=
  let c := k_cfg k in let x := k_obj k in
  let mr_model := model_read (model_text c x) in
  let mr_impl_text := model_read (k_text k) in
  let agree_reader := read_eqb mr_impl_text (k_read k) in
  let agree_printer := read_eqb mr_model mr_impl_text in
  let impl_ok := roundtrip_ok x (k_read k) in
  let model_ok := roundtrip_ok x mr_model in
  let g := in_domain c x in
  if agree_reader && agree_printer then (if g && negb impl_ok then 3%N else 0%N)
  else if negb impl_ok then (if g || model_ok then 2%N else 0%N)
  else if g then 1%N else 0%N.
Definition disagrees (k : case) : bool :=
  let mr_impl_text := model_read (k_text k) in
  negb (read_eqb mr_impl_text (k_read k) && read_eqb (model_read (model_text (k_cfg k) (k_obj k))) mr_impl_text).

Fixpoint check_all_from (i : N) (cs : list case) : list (N * N) :=
  match cs with
  | [] => []
  | c :: cs' => let r := check_case c in (if N.eqb r 0 then [] else [(i, r)]) ++ check_all_from (N.succ i) cs'
  end.
Definition check_all := check_all_from 0%N.
(* how many cases lie inside the guard, and how many round trips the implementation failed outside it *)
Definition guard_count (cs : list case) : N :=
  N.of_nat (length (filter (fun k => in_domain (k_cfg k) (k_obj k)) cs)).
Definition outside_failures (cs : list case) : N :=
  N.of_nat (length (filter (fun k => negb (in_domain (k_cfg k) (k_obj k)) && negb (roundtrip_ok (k_obj k) (k_read k))) cs)).
(* informational: texts that differ from the model's byte for byte while denoting the same objects *)
Definition text_differences (cs : list case) : N :=
  N.of_nat (length (filter (fun k => negb (opt_bytes_eqb (model_text (k_cfg k) (k_obj k)) (k_text k))) cs)).
(* informational: pairs outside the guard on which model and implementation differ *)
Definition drift_outside_guard (cs : list case) : N :=
  N.of_nat (length (filter (fun k => negb (in_domain (k_cfg k) (k_obj k)) && disagrees k) cs)).
