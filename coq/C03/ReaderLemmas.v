(* C03 — the byte machine of the reader (C02.Model.s_step over the tables of code.go) on the texts the
   printer writes: what each kind of lexeme leaves on the parser stack, white space between lexemes,
   lists.  Everything is about ALL states / stacks (no bound), byte classes are decided by computing over
   the 256 table entries. *)
From C03 Require Import Model Spec.
From Coq Require Import ZifyBool.
Local Open Scope N_scope.

Definition R : sstate -> byte -> sstate := s_step T03 esc03.
Definition run (s : sstate) (t : list byte) : sstate := fold_left R t s.
Lemma run_is_s_run s t : run s t = s_run T03 esc03 s t. Proof. reflexivity. Qed.
Lemma run_app s a b : run s (a ++ b) = run (run s a) b. Proof. apply fold_left_app. Qed.
Lemma run_cons s a t : run s (a :: t) = run (R s a) t. Proof. reflexivity. Qed.
Lemma run_nil s : run s [] = s. Proof. reflexivity. Qed.

(* ---- all bytes ---- *)
Fixpoint forall_below (n : nat) (P : N -> bool) : bool :=
  match n with O => true | S k => P (N.of_nat k) && forall_below k P end.
Lemma forall_below_spec n P : forall_below n P = true -> forall b, b < N.of_nat n -> P b = true.
Proof.
  induction n as [|k IH]; intros H b Hb; [lia|].
  cbn [forall_below] in H. apply andb_true_iff in H as [H1 H2].
  destruct (N.eq_dec b (N.of_nat k)) as [->|Hne]; [exact H1|]. apply IH; [exact H2|lia].
Qed.
Lemma forall_bytes P : forall_below 256 P = true -> forall b, b < 256 -> P b = true.
Proof. intros H b Hb. apply (forall_below_spec 256 P H). exact Hb. Qed.

(* ---- states without an error, all registers explicit ---- *)
Definition mkS (m n : mode) (ba sh rn : N) (rc : nat) (p : pstate) (q : list byte) : sstate :=
  {| s_core := {| c_mode := m; c_next := n; c_base := ba; c_sharp := sh; c_rn := rn; c_rcnt := rc; c_p := p; c_err := None |};
     s_pend := q |}.
Lemma mkS_eta s : c_err (s_core s) = None ->
  s = mkS (c_mode (s_core s)) (c_next (s_core s)) (c_base (s_core s)) (c_sharp (s_core s)) (c_rn (s_core s))
          (c_rcnt (s_core s)) (c_p (s_core s)) (s_pend s).
Proof. destruct s as [[m n ba sh rn rc p e] q]. cbn. intros ->. reflexivity. Qed.

(* the reader is between lexemes: value mode, nothing pending, parser state p *)
Definition Ready (p : pstate) (s : sstate) : Prop := exists n ba sh rn rc, s = mkS MValue n ba sh rn rc p [].

(* the reader has read a lexeme that leaves parser state p once it is known to be complete: it is between
   lexemes already, or a token / character / #-integer is pending whose completion gives p *)
Inductive Lands (p : pstate) : sstate -> Prop :=
| LandsReady s : Ready p s -> Lands p s
| LandsTok n ba sh rn rc p0 q : push_token p0 q = p -> Lands p (mkS MToken n ba sh rn rc p0 q)
| LandsChar n ba sh rn rc p0 q : q <> [] -> push_val p0 (TLeaf (LChar q)) = p -> Lands p (mkS MChar n ba sh rn rc p0 q)
| LandsInt n ba sh rn rc p0 q : valid_int ba q = true -> push_val p0 (TLeaf (LInt ba q)) = p -> Lands p (mkS MInt n ba sh rn rc p0 q).

Definition delim (d : byte) : bool := (d =? 32) || (d =? 10) || (d =? 9) || (d =? 13) || (d =? 40) || (d =? 41).
Definition ws (d : byte) : bool := (d =? 32) || (d =? 10) || (d =? 9) || (d =? 13).

Ltac delim_cases H :=
  unfold delim in H; repeat (apply orb_true_iff in H as [H|H]); apply N.eqb_eq in H; subst.
Ltac ws_cases H :=
  unfold ws in H; repeat (apply orb_true_iff in H as [H|H]); apply N.eqb_eq in H; subst.

(* one step from an explicit state, the table entry still to be looked up *)
Lemma R_eq m n ba sh rn rc p q b :
  R (mkS m n ba sh rn rc p q) b =
  let s := mkS m n ba sh rn rc p q in
  let '(c1, op1) := step_core esc03 (act T03 m b) b (s_core s) in
  let '(s1, retry) := s_apply s b c1 op1 in
  if retry then
    match c_err (s_core s1) with
    | Some _ => s1
    | None => let '(c2, op2) := step_core esc03 (act T03 (c_mode (s_core s1)) b) b (s_core s1) in fst (s_apply s1 b c2 op2)
    end
  else s1.
Proof. reflexivity. Qed.

Ltac sim := cbv beta iota zeta delta [step_core s_apply emit set_mode set_modes set_p set_err set_base set_sharp set_rune push_open push_mark
  mkS s_core s_pend c_mode c_next c_base c_sharp c_rn c_rcnt c_p c_err fst snd].

Definition errS (m n : mode) (ba sh rn : N) (rc : nat) (p : pstate) (q : list byte) (e : err) : sstate :=
  {| s_core := {| c_mode := m; c_next := n; c_base := ba; c_sharp := sh; c_rn := rn; c_rcnt := rc; c_p := p; c_err := Some e |};
     s_pend := q |}.

(* ---- value mode ---- *)
Lemma R_value_ws n ba sh rn rc p q d : ws d = true -> R (mkS MValue n ba sh rn rc p q) d = mkS MValue n ba sh rn rc p q.
Proof. intros H. ws_cases H; reflexivity. Qed.
Lemma R_value_open n ba sh rn rc p q :
  R (mkS MValue n ba sh rn rc p q) 40 = mkS MValue n ba sh rn rc {| stack := IOpen KList :: stack p; code := code p |} q.
Proof. reflexivity. Qed.
Lemma R_value_close n ba sh rn rc p q :
  R (mkS MValue n ba sh rn rc p q) 41 =
  match close_list p with inl p' => mkS MValue n ba sh rn rc p' q | inr e => errS MValue n ba sh rn rc p q e end.
Proof.
  rewrite R_eq. change (act T03 MValue 41) with AClose. sim.
  destruct (close_list p); reflexivity.
Qed.

(* the byte that ends a token, a character or a #-integer is then handled as in value mode *)
Lemma R_tok_delim n ba sh rn rc p q d : delim d = true ->
  R (mkS MToken n ba sh rn rc p q) d = R (mkS MValue n ba sh rn rc (push_token p q) []) d.
Proof.
  intros Hd. delim_cases Hd; try reflexivity.
  rewrite R_value_close. rewrite R_eq. change (act T03 MToken 41) with ATokenDone. sim.
  change (act T03 MValue 41) with AClose. sim.
  destruct (close_list (push_token p q)); reflexivity.
Qed.
Lemma R_char_delim n ba sh rn rc p q d : delim d = true -> q <> [] ->
  R (mkS MChar n ba sh rn rc p q) d = R (mkS MValue n ba sh rn rc (push_val p (TLeaf (LChar q))) []) d.
Proof.
  intros Hd Hq. destruct q as [|q0 q]; [contradiction|]. delim_cases Hd; try reflexivity.
  rewrite R_value_close. rewrite R_eq. change (act T03 MChar 41) with ACharDone. sim.
  change (act T03 MValue 41) with AClose. sim.
  destruct (close_list _); reflexivity.
Qed.
Lemma R_int_delim n ba sh rn rc p q d : delim d = true -> valid_int ba q = true ->
  R (mkS MInt n ba sh rn rc p q) d = R (mkS MValue n ba sh rn rc (push_val p (TLeaf (LInt ba q))) []) d.
Proof.
  intros Hd Hq.
  assert (H1 : forall d', act T03 MInt d' = AIntDone ->
     R (mkS MInt n ba sh rn rc p q) d' =
     let s1 := mkS MValue n ba sh rn rc (push_val p (TLeaf (LInt ba q))) [] in
     let '(c2, op2) := step_core esc03 (act T03 MValue d') d' (s_core s1) in fst (s_apply s1 d' c2 op2)).
  { intros d' Ha. rewrite R_eq, Ha. sim. rewrite Hq. sim. reflexivity. }
  delim_cases Hd; rewrite H1 by reflexivity; try reflexivity.
  rewrite R_value_close. change (act T03 MValue 41) with AClose. sim.
  destruct (close_list _); reflexivity.
Qed.

Lemma R_ws_ready p s d : Ready p s -> ws d = true -> Ready p (R s d).
Proof.
  intros (n & ba & sh & rn & rc & ->) Hd. exists n, ba, sh, rn, rc. apply R_value_ws. exact Hd.
Qed.
Lemma ws_delim d : ws d = true -> delim d = true.
Proof. intros H. ws_cases H; reflexivity. Qed.

Lemma run_ws_ready p s w : Ready p s -> forallb ws w = true -> Ready p (run s w).
Proof.
  revert s. induction w as [|d w IH]; intros s Hr Hw; [exact Hr|].
  cbn [forallb] in Hw. apply andb_true_iff in Hw as [Hd Hw]. rewrite run_cons. apply IH; [|exact Hw].
  apply R_ws_ready; assumption.
Qed.
(* a non-empty run of white space after a lexeme: the lexeme is complete and nothing else happens *)
Lemma lands_ws p s w : Lands p s -> w <> [] -> forallb ws w = true -> Ready p (run s w).
Proof.
  intros HL Hne Hw. destruct w as [|d w]; [contradiction|].
  cbn [forallb] in Hw. apply andb_true_iff in Hw as [Hd Hw]. rewrite run_cons.
  apply run_ws_ready; [|exact Hw].
  destruct HL as [s Hr|n ba sh rn rc p0 q <-|n ba sh rn rc p0 q Hq <-|n ba sh rn rc p0 q Hq <-].
  - apply R_ws_ready; assumption.
  - rewrite R_tok_delim by (apply ws_delim; assumption). rewrite R_value_ws by assumption. exists n, ba, sh, rn, rc. reflexivity.
  - rewrite R_char_delim by (try apply ws_delim; assumption). rewrite R_value_ws by assumption. exists n, ba, sh, rn, rc. reflexivity.
  - rewrite R_int_delim by (try apply ws_delim; assumption). rewrite R_value_ws by assumption. exists n, ba, sh, rn, rc. reflexivity.
Qed.
Lemma lands_open p s : Lands p s -> Ready {| stack := IOpen KList :: stack p; code := code p |} (R s 40).
Proof.
  intros HL. destruct HL as [s (n & ba & sh & rn & rc & ->)|n ba sh rn rc p0 q <-|n ba sh rn rc p0 q Hq <-|n ba sh rn rc p0 q Hq <-].
  - rewrite R_value_open. exists n, ba, sh, rn, rc. reflexivity.
  - rewrite R_tok_delim by reflexivity. rewrite R_value_open. exists n, ba, sh, rn, rc. reflexivity.
  - rewrite R_char_delim by (try reflexivity; assumption). rewrite R_value_open. exists n, ba, sh, rn, rc. reflexivity.
  - rewrite R_int_delim by (try reflexivity; assumption). rewrite R_value_open. exists n, ba, sh, rn, rc. reflexivity.
Qed.
Lemma lands_close p p' s : Lands p s -> close_list p = inl p' -> Ready p' (R s 41).
Proof.
  intros HL Hc. destruct HL as [s (n & ba & sh & rn & rc & ->)|n ba sh rn rc p0 q <-|n ba sh rn rc p0 q Hq <-|n ba sh rn rc p0 q Hq <-].
  - rewrite R_value_close, Hc. exists n, ba, sh, rn, rc. reflexivity.
  - rewrite R_tok_delim by reflexivity. rewrite R_value_close, Hc. exists n, ba, sh, rn, rc. reflexivity.
  - rewrite R_char_delim by (try reflexivity; assumption). rewrite R_value_close, Hc. exists n, ba, sh, rn, rc. reflexivity.
  - rewrite R_int_delim by (try reflexivity; assumption). rewrite R_value_close, Hc. exists n, ba, sh, rn, rc. reflexivity.
Qed.

(* ------------------------------------------------------------------------------------------ *)
(* single steps                                                                                  *)
(* ------------------------------------------------------------------------------------------ *)
Ltac step1 H := rewrite R_eq; rewrite H; sim; reflexivity.

Lemma R_value_tokstart n ba sh rn rc p q b : act T03 MValue b = ATokenStart ->
  R (mkS MValue n ba sh rn rc p q) b = mkS MToken n ba sh rn rc p [b].
Proof. intros H. step1 H. Qed.
Lemma R_tok_grow n ba sh rn rc p q b : token_byte b = true ->
  R (mkS MToken n ba sh rn rc p q) b = mkS MToken n ba sh rn rc p (q ++ [b]).
Proof. unfold token_byte. intros H. destruct (act T03 MToken b) eqn:E; try discriminate H; step1 E. Qed.
Lemma run_tok_grow n ba sh rn rc p cs : forall q, forallb token_byte cs = true ->
  run (mkS MToken n ba sh rn rc p q) cs = mkS MToken n ba sh rn rc p (q ++ cs).
Proof.
  induction cs as [|b cs IH]; intros q H; [rewrite app_nil_r; reflexivity|].
  cbn [forallb] in H. apply andb_true_iff in H as [Hb H]. rewrite run_cons, R_tok_grow by exact Hb.
  rewrite IH by exact H. rewrite <- app_assoc. reflexivity.
Qed.

(* strings *)
Lemma R_value_dquote n ba sh rn rc p q : R (mkS MValue n ba sh rn rc p q) 34 = mkS MString MString ba sh rn rc p [].
Proof. reflexivity. Qed.
Lemma R_str_byte m ba sh rn rc p q b : act T03 MString b = AStrByte ->
  R (mkS MString m ba sh rn rc p q) b = mkS MString m ba sh rn rc p (q ++ [b]).
Proof. intros H. step1 H. Qed.
Lemma R_str_done m ba sh rn rc p q :
  R (mkS MString m ba sh rn rc p q) 34 = mkS MValue m ba sh rn rc (push_val p (TLeaf (LStr q))) [].
Proof. reflexivity. Qed.
Lemma R_str_esc m ba sh rn rc p q : R (mkS MString m ba sh rn rc p q) 92 = mkS MEsc m ba sh rn rc p q.
Proof. reflexivity. Qed.
Lemma R_esc_one m ba sh rn rc p q b : act T03 MEsc b = AEscOne ->
  R (mkS MEsc m ba sh rn rc p q) b = mkS m m ba sh rn rc p (q ++ [esc03 b]).
Proof. intros H. step1 H. Qed.
Lemma R_esc_u m ba sh rn rc p q : R (mkS MEsc m ba sh rn rc p q) 117 = mkS MRune m ba sh 0 4 p q.
Proof. reflexivity. Qed.
(* a hexadecimal digit as printed (lower case) *)
Lemma R_rune_more m ba sh rn k p q d : d < 16 ->
  R (mkS MRune m ba sh rn (S (S k)) p q) (hexd d) = mkS MRune m ba sh (rn * 16 + d) (S k) p q.
Proof.
  intros H. unfold hexd. destruct (N.ltb_spec d 10) as [Hd|Hd].
  - assert (E : act T03 MRune (48 + d) = ARuneDigit).
    { assert (d = 0 \/ d = 1 \/ d = 2 \/ d = 3 \/ d = 4 \/ d = 5 \/ d = 6 \/ d = 7 \/ d = 8 \/ d = 9) as Hc by lia.
      repeat (destruct Hc as [->|Hc]; [reflexivity|]). subst. reflexivity. }
    rewrite R_eq, E. sim. replace (48 + d - 48) with d by lia. reflexivity.
  - assert (E : act T03 MRune (87 + d) = ARuneHexa).
    { assert (d = 10 \/ d = 11 \/ d = 12 \/ d = 13 \/ d = 14 \/ d = 15) as Hc by lia.
      repeat (destruct Hc as [->|Hc]; [reflexivity|]). subst. reflexivity. }
    rewrite R_eq, E. sim. replace (87 + d - 97 + 10) with d by lia. reflexivity.
Qed.
Lemma R_rune_last m ba sh rn p q d : d < 16 ->
  R (mkS MRune m ba sh rn 1 p q) (hexd d) = mkS m m ba sh (rn * 16 + d) 0 p (q ++ utf8 (rn * 16 + d)).
Proof.
  intros H. unfold hexd. destruct (N.ltb_spec d 10) as [Hd|Hd].
  - assert (E : act T03 MRune (48 + d) = ARuneDigit).
    { assert (d = 0 \/ d = 1 \/ d = 2 \/ d = 3 \/ d = 4 \/ d = 5 \/ d = 6 \/ d = 7 \/ d = 8 \/ d = 9) as Hc by lia.
      repeat (destruct Hc as [->|Hc]; [reflexivity|]). subst. reflexivity. }
    rewrite R_eq, E. sim. replace (48 + d - 48) with d by lia. reflexivity.
  - assert (E : act T03 MRune (87 + d) = ARuneHexa).
    { assert (d = 10 \/ d = 11 \/ d = 12 \/ d = 13 \/ d = 14 \/ d = 15) as Hc by lia.
      repeat (destruct Hc as [->|Hc]; [reflexivity|]). subst. reflexivity. }
    rewrite R_eq, E. sim. replace (87 + d - 97 + 10) with d by lia. reflexivity.
Qed.
(* |symbols| *)
Lemma R_value_pipe n ba sh rn rc p q : R (mkS MValue n ba sh rn rc p q) 124 = mkS MSymbol MSymbol ba sh rn rc p [].
Proof. reflexivity. Qed.
Lemma R_sym_byte m ba sh rn rc p q b : act T03 MSymbol b = AStrByte ->
  R (mkS MSymbol m ba sh rn rc p q) b = mkS MSymbol m ba sh rn rc p (q ++ [b]).
Proof. intros H. step1 H. Qed.
Lemma R_sym_done m ba sh rn rc p q :
  R (mkS MSymbol m ba sh rn rc p q) 124 = mkS MValue m ba sh rn rc (push_val p (TLeaf (LPipe q))) [].
Proof. reflexivity. Qed.

(* # *)
Lemma R_value_sharp n ba sh rn rc p q : R (mkS MValue n ba sh rn rc p q) 35 = mkS MSharp n ba sh rn rc p q.
Proof. reflexivity. Qed.
Lemma R_sharp_slash n ba sh rn rc p q : R (mkS MSharp n ba sh rn rc p q) 92 = mkS MChar n ba sh rn rc p [].
Proof. reflexivity. Qed.
Lemma R_char_grow n ba sh rn rc p q b : act T03 MChar b = ASkip ->
  R (mkS MChar n ba sh rn rc p q) b = mkS MChar n ba sh rn rc p (q ++ [b]).
Proof. intros H. step1 H. Qed.
Lemma R_sharp_paren n ba sh rn rc p q :
  R (mkS MSharp n ba sh rn rc p q) 40 = mkS MValue n ba sh rn rc {| stack := IOpen KVector :: stack p; code := code p |} q.
Proof. reflexivity. Qed.
Lemma R_sharp_b n ba sh rn rc p q : R (mkS MSharp n ba sh rn rc p q) 98 = mkS MInt n 2 sh rn rc p [].
Proof. reflexivity. Qed.
Lemma R_sharp_o n ba sh rn rc p q : R (mkS MSharp n ba sh rn rc p q) 111 = mkS MInt n 8 sh rn rc p [].
Proof. reflexivity. Qed.
Lemma R_sharp_x n ba sh rn rc p q : R (mkS MSharp n ba sh rn rc p q) 120 = mkS MInt n 16 sh rn rc p [].
Proof. reflexivity. Qed.
Lemma R_int_grow n ba sh rn rc p q b : act T03 MInt b = ASkip ->
  R (mkS MInt n ba sh rn rc p q) b = mkS MInt n ba sh rn rc p (q ++ [b]).
Proof. intros H. step1 H. Qed.
Lemma act_sharp_digit b : is_digit b = true -> act T03 MSharp b = ASharpInt /\ act T03 MSharpNum b = ASharpNum.
Proof.
  intros H. unfold is_digit in H.
  assert (b = 48 \/ b = 49 \/ b = 50 \/ b = 51 \/ b = 52 \/ b = 53 \/ b = 54 \/ b = 55 \/ b = 56 \/ b = 57) as Hc by lia.
  repeat (destruct Hc as [->|Hc]; [split; reflexivity|]). subst. split; reflexivity.
Qed.
Lemma R_sharp_digit n ba sh rn rc p q b : is_digit b = true ->
  R (mkS MSharp n ba sh rn rc p q) b = mkS MSharpNum n ba (b - 48) rn rc p q.
Proof. intros H. destruct (act_sharp_digit b H) as [E _]. step1 E. Qed.
Lemma R_sharpnum_digit n ba sh rn rc p q b : is_digit b = true ->
  R (mkS MSharpNum n ba sh rn rc p q) b = mkS MSharpNum n ba (sh * 10 + (b - 48)) rn rc p q.
Proof. intros H. destruct (act_sharp_digit b H) as [_ E]. step1 E. Qed.
Lemma R_sharpnum_r n ba sh rn rc p q : R (mkS MSharpNum n ba sh rn rc p q) 114 = mkS MInt n sh sh rn rc p [].
Proof. reflexivity. Qed.
Lemma R_sharpnum_A n ba sh rn rc p q : 2 <= sh -> sh <= 1024 ->
  R (mkS MSharpNum n ba sh rn rc p q) 65 = mkS MMustArray n ba sh rn rc {| stack := IOpen (KArray sh) :: stack p; code := code p |} q.
Proof.
  intros H1 H2. rewrite R_eq. change (act T03 MSharpNum 65) with AArray. sim.
  destruct sh as [|[x|x|]]; try lia; replace (1024 <? _) with false by lia; reflexivity.
Qed.
Lemma R_must_open n ba sh rn rc p q : R (mkS MMustArray n ba sh rn rc p q) 40 = mkS MValue n ba sh rn rc p q.
Proof. reflexivity. Qed.
