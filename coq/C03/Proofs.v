(* C03 — the theorems about whole print / read round trips, the refutations outside the guard, examples. *)
From C03 Require Import Model Spec Corr Digits Utf8 ReaderLemmas Reading Classes Atoms Atoms2 Structure.
From Coq Require Import ZifyBool.
Local Open Scope N_scope.

(* ------------------------------------------------------------------------------------------ *)
(* print then read                                                                               *)
(* ------------------------------------------------------------------------------------------ *)
Lemma print_RT c x : in_domain c x = true -> RT x (print c x).
Proof.
  unfold in_domain. intros H. apply andb_true_iff in H as [Hc Hd]. unfold print. destruct (p_pretty c) eqn:Ep.
  - unfold pretty. destruct x as [| | | | | | |s|xs| | | |].
    all: try (apply (pretty_RT c Hc Ep); exact Hd).
    + apply (RT_atom c (OSym s) Hc eq_refl). exact Hd.
    + destruct xs as [|x xs]; [cbn in Hd; discriminate Hd|]. apply (pretty_RT c Hc Ep). exact Hd.
  - apply flat_RT; assumption.
Qed.

Lemma ty_eqb_eq a b : ty_eqb a b = true -> a = b.
Proof. destruct a, b; try discriminate; reflexivity. Qed.

(* THE round trip: inside the guard the text the printer writes is read as exactly one object, equal to
   the one printed and of the same type *)
Theorem read_print c x : in_domain c x = true ->
  exists y, read_all (print c x) = Some [y] /\ obj_equal x y = true /\ type_of x = type_of y.
Proof.
  intros H. destruct (print_RT c x H) as (tr & y & HR & Ho & He & Ht & _).
  exists y. split; [rewrite (Reads_read_all _ _ HR), Ho; reflexivity|]. split; [exact He|apply ty_eqb_eq, Ht].
Qed.
Corollary read_print_ok c x : in_domain c x = true -> roundtrip_ok x (read_all (print c x)) = true.
Proof.
  intros H. destruct (read_print c x H) as (y & -> & He & Ht). cbn [roundtrip_ok]. rewrite He, Ht.
  destruct (type_of y); reflexivity.
Qed.
(* hence code 3 of the correspondence cannot arise from the model itself *)
Theorem model_meets_spec_in_guard c x : in_domain c x = true -> roundtrip_ok x (model_read (model_text c x)) = true.
Proof. intros H. unfold model_text. cbn [model_read]. apply read_print_ok, H. Qed.

(* ------------------------------------------------------------------------------------------ *)
(* integers, in their own right: every integer, every base                                       *)
(* ------------------------------------------------------------------------------------------ *)
Theorem integer_digits_roundtrip : forall b z, 2 <= b -> b <= 36 -> int_val b (int_text b z) = z.
Proof. exact int_text_roundtrip. Qed.
Theorem integer_read_print c z : readable_cfg c = true ->
  read_all (print c (OInt (negb (in64 z)) z)) = Some [OInt (negb (in64 z)) z].
Proof.
  intros Hc. assert (Hd : in_domain c (OInt (negb (in64 z)) z) = true).
  { unfold in_domain. rewrite Hc. cbn [dom atom_ok andb]. apply Bool.eqb_reflx. }
  destruct (read_print c _ Hd) as (y & E & He & Ht). rewrite E. f_equal. f_equal.
  destruct y; try discriminate He. cbn [obj_equal] in He. apply Z.eqb_eq in He. subst z0.
  cbn [type_of] in Ht. destruct (negb (in64 z)), big; try discriminate Ht; reflexivity.
Qed.

(* ------------------------------------------------------------------------------------------ *)
(* strings: every sequence of Unicode scalars, printed readably                                   *)
(* ------------------------------------------------------------------------------------------ *)
Theorem string_read_print c (rs : list N) : readable_cfg c = true -> p_readably c = true -> forallb is_scalar rs = true ->
  read_all (print c (OStr (concat (map utf8 rs)))) = Some [OStr (concat (map utf8 rs))].
Proof.
  intros Hc Hr Hs. set (bs := concat (map utf8 rs)).
  assert (HRT : RT (OStr bs) (string_text c bs)).
  { exists (TLeaf (LStr bs)), (OStr bs). split.
    - unfold string_text. rewrite Hr. apply Reads_string. apply jesc_runes. exact Hs.
    - repeat split; try reflexivity; try discriminate. cbn [obj_equal]. apply bytes_eqb_refl. }
  destruct HRT as (tr & y & HR & Ho & He & _).
  assert (Ep : print c (OStr bs) = string_text c bs) by (unfold print, pretty; destruct (p_pretty c); reflexivity).
  rewrite Ep, (Reads_read_all _ _ HR), Ho. f_equal. f_equal.
  destruct y; try discriminate He. cbn [obj_equal] in He. apply bytes_eqb_eq in He. subst. reflexivity.
Qed.

(* ------------------------------------------------------------------------------------------ *)
(* symbols and characters in their own right (after the repairs C03-3 ... C03-13)                *)
(* ------------------------------------------------------------------------------------------ *)
(* every ASCII name except t / T, under every print case, flat or pretty: the printed symbol reads back as a
   symbol equal to it *)
Theorem symbol_read_print c (name : list byte) : readable_cfg c = true -> forallb (fun b => b <? 128) name = true -> is_t name = false ->
  exists y, read_all (print c (OSym name)) = Some [y] /\ obj_equal (OSym name) y = true /\ type_of y = TSymbol.
Proof.
  intros Hc Ha Ht. assert (Hd : in_domain c (OSym name) = true).
  { unfold in_domain. rewrite Hc. cbn [andb dom atom_ok]. unfold sym_ok. rewrite Ha, Ht. cbn [orb negb andb]. rewrite !andb_true_r.
    apply forallb_forall. intros x Hx. rewrite forallb_forall in Ha. specialize (Ha x Hx). lia. }
  destruct (read_print c _ Hd) as (y & E & He & Hty). exists y. repeat split; [exact E|exact He|symmetry; exact Hty].
Qed.
(* with *print-case* nil every name whatsoever (any bytes, the empty name, names of any length) except t / T reads
   back as the symbol with exactly that name: Symbol.needPipes asks for bars whenever the bare spelling would not
   do, and the escapes between bars are undone by the reader *)
Theorem symbol_exact c (name : list byte) : case_is_none c = true -> forallb (fun b => b <? 256) name = true -> is_t name = false ->
  read_all (symbol_text c name) = Some [OSym name].
Proof.
  intros Hn H256 Ht. assert (Ec : forall s, case_name (p_case c) s = s).
  { intros s. unfold case_is_none in Hn. destruct (p_case c); try discriminate Hn. reflexivity. }
  destruct name as [|b r].
  - exact (Reads_read_all _ _ (Reads_pipe [] (fun b (H : In b []) => match H with end))).
  - unfold symbol_text. rewrite Ec. destruct (need_pipes (b :: r)) eqn:Enp.
    + assert (HR : Reads ([124] ++ pesc (b :: r) ++ [124]) (TLeaf (LPipe (b :: r)))).
      { apply Reads_pipe_body, pesc_body. apply Forall_forall. intros x Hx. rewrite forallb_forall in H256. specialize (H256 x Hx). lia. }
      rewrite (Reads_read_all _ _ HR). reflexivity.
    + destruct (bare_reads c (b :: r) H256 Enp Ht ltac:(discriminate)) as (y & HR & _). rewrite Ec in HR.
      rewrite (Reads_read_all _ _ HR). cbn [obj_of_tree]. pose proof (need_pipes_false_resolves c (b :: r) Enp) as Hres.
      rewrite Ec in Hres. rewrite Hres. reflexivity.
Qed.
(* every character (Unicode scalar, the NUL character included) reads back as itself *)
Theorem character_read_print c r : readable_cfg c = true -> is_scalar r = true -> read_all (print c (OChr r)) = Some [OChr r].
Proof.
  intros Hc Hs. assert (Hd : in_domain c (OChr r) = true) by (unfold in_domain; rewrite Hc; exact Hs).
  destruct (read_print c _ Hd) as (y & E & He & _). rewrite E. destruct y; try discriminate He.
  cbn [obj_equal] in He. apply N.eqb_eq in He. subst. reflexivity.
Qed.

(* ------------------------------------------------------------------------------------------ *)
(* white space                                                                                   *)
(* ------------------------------------------------------------------------------------------ *)
(* after any lexeme, any two non-empty runs of blanks / tabs / newlines leave the reader in the same parser state *)
Theorem separators_are_interchangeable p s w1 w2 : Lands p s -> w1 <> [] -> w2 <> [] ->
  forallb ws w1 = true -> forallb ws w2 = true -> Ready p (run s w1) /\ Ready p (run s w2).
Proof. intros HL H1 H2 F1 F2. split; apply lands_ws; assumption. Qed.
(* two layouts of the same lexemes (different white space between them, none inside) read as the same list *)
Theorem layouts_read_alike ts trs b1 b2 : Forall2 Reads ts trs -> Seq ts b1 -> Seq ts b2 ->
  s_read T03 esc03 ([40] ++ b1 ++ [41]) = ROk [dotted trs] (length ([40] ++ b1 ++ [41])) /\
  s_read T03 esc03 ([40] ++ b2 ++ [41]) = ROk [dotted trs] (length ([40] ++ b2 ++ [41])).
Proof. intros HF S1 S2. split; apply Reads_s_read; eapply Reads_list; eassumption. Qed.
(* appendTree only chooses the white space: the text of a node is '(' the texts of its elements, in order,
   separated by non-empty white space ')' — for every margin, offset and size field *)
Theorem pretty_only_chooses_whitespace margin es sz o cl : es <> [] ->
  exists ts body, append_tree margin (Node [] es sz) o cl = [40] ++ body ++ [41] /\ Seq ts body /\
                  Forall2 (fun e t => exists o' c', t = append_tree margin e o' c') es ts.
Proof. apply append_tree_seq. Qed.

(* a leaf of the layout tree is written as it is, wherever it sits: the offset and the number of closing
   parentheses after it play no part (appendTree returns the buffer), so nothing the layout does can reach
   into the lexemes a leaf holds *)
Theorem leaf_position_independent margin (b : list byte) o cl o' cl' : b <> [] ->
  append_tree margin (leaf_node b) o cl = append_tree margin (leaf_node b) o' cl'.
Proof. intros H. rewrite !append_leaf by exact H. reflexivity. Qed.
(* in particular a vector or an array that is an element of a list (createTree renders it into a leaf buffer of
   its own) has, at every offset and however it is wrapped, exactly the text it has as a top-level object *)
Theorem nested_array_text c x o cl : match x with OVec _ | OArr _ _ => True | _ => False end ->
  append_tree (p_margin c) (ptree c x) o cl = pretty c x.
Proof.
  intros Hx. assert (G : forall b, b <> [] -> ptree c x = leaf_node b -> append_tree (p_margin c) (ptree c x) o cl = node_text c (ptree c x)).
  { intros b Hb E. unfold node_text. rewrite E. apply leaf_position_independent. exact Hb. }
  destruct x as [| | | | | | | | | |xs|rank rows|]; try contradiction; unfold pretty.
  - destruct xs as [|y ys].
    + apply (G (if p_array c then [35; 40; 41] else novec_text c 0)); [destruct (p_array c); discriminate|reflexivity].
    + rewrite ptree_vec. eapply G; [|reflexivity]. destruct (p_array c); discriminate.
  - destruct rows as [|y ys].
    + eapply G; [|reflexivity]. unfold array_prefix. destruct (p_array c); discriminate.
    + rewrite ptree_arr. eapply G; [|reflexivity]. unfold array_prefix. destruct (p_array c); discriminate.
Qed.

Definition with_layout (c : pcfg) (pretty : bool) (margin : N) : pcfg :=
  Pcfg (p_base c) (p_radix c) (p_case c) pretty margin (p_readably c) (p_escape c) (p_array c).
(* the guard does not look at the layout variables: the guard of a configuration is the guard of the same
   configuration printed flat, or pretty with any other margin *)
Lemma atom_ok_layout c pretty margin x : atom_ok (with_layout c pretty margin) x = atom_ok c x.
Proof. destruct x; reflexivity. Qed.
Lemma dom_layout c pretty margin : forall x, dom c x = true -> dom (with_layout c pretty margin) x = true.
Proof.
  induction x as [x Ha|xs IH|xs tl IH IHtl|xs IH|rank rows IH] using obj_ind'; intros Hd.
  - destruct x; try discriminate Ha; exact Hd.
  - cbn [dom] in *. rewrite dom_all in *. apply andb_true_iff in Hd as [Hne Hall]. rewrite Hne. cbn [andb].
    apply forallb_forall. intros y Hy. rewrite Forall_forall in IH. apply IH; [exact Hy|]. rewrite forallb_forall in Hall. apply Hall, Hy.
  - cbn [dom] in *. rewrite dom_all in *.
    apply andb_true_iff in Hd as [Hd Hnn]. apply andb_true_iff in Hd as [Hd Htl]. apply andb_true_iff in Hd as [Hd Hat].
    apply andb_true_iff in Hd as [Hne Hall]. rewrite Hne, Hat, Hnn, atom_ok_layout, Htl. cbn [andb].
    rewrite !andb_true_r. apply forallb_forall. intros y Hy. rewrite Forall_forall in IH. apply IH; [exact Hy|]. rewrite forallb_forall in Hall. apply Hall, Hy.
  - cbn [dom] in *. rewrite dom_all in *. apply andb_true_iff in Hd as [Harr Hall]. cbn [with_layout p_array]. rewrite Harr. cbn [andb].
    apply forallb_forall. intros y Hy. rewrite Forall_forall in IH. apply IH; [exact Hy|]. rewrite forallb_forall in Hall. apply Hall, Hy.
  - cbn [dom] in *. rewrite dom_all in *. apply andb_true_iff in Hd as [Hd Hall].
    cbn [with_layout p_array p_base p_radix]. rewrite Hd. cbn [andb].
    apply forallb_forall. intros y Hy. rewrite Forall_forall in IH. apply IH; [exact Hy|]. rewrite forallb_forall in Hall. apply Hall, Hy.
Qed.
(* pretty with any margin, or flat: every rendering reads back to an object equal to x, of x's type *)
Theorem pretty_and_flat_read_alike c x pretty margin : p_pretty c = true -> in_domain c x = true ->
  roundtrip_ok x (read_all (print c x)) = true /\
  roundtrip_ok x (read_all (print (with_layout c pretty margin) x)) = true.
Proof.
  intros _ H. split; [apply read_print_ok, H|]. apply read_print_ok.
  unfold in_domain in *. apply andb_true_iff in H as [Hc Hd]. apply andb_true_iff. split; [exact Hc|].
  apply dom_layout. exact Hd.
Qed.

(* ------------------------------------------------------------------------------------------ *)
(* outside the guard: the faithful model does NOT carry these round (each is a known finding)      *)
(* ------------------------------------------------------------------------------------------ *)
Definition refuted (c : pcfg) (x : obj) : bool :=
  negb (in_domain c x) && negb (roundtrip_ok x (model_read (model_text c x))).
Definition cfg_flat : pcfg := Pcfg 10 false CDown false 80 false true true.
Definition cfg_pretty : pcfg := Pcfg 10 false CDown true 80 true true true.
Definition fx (z : Z) : obj := OInt false z.
(* 'a\'b' printed with *print-readably* nil: the quote is not escaped *)
Definition w_string_quote := (cfg_flat, OStr [97; 34; 98]).
(* 1.5s0 printed with *print-readably* nil is '1.5': read as a double-float *)
Definition w_single_float := (cfg_flat, OFlt FSingle [49; 46; 53]).
(* 1.0d0 printed with *print-readably* nil is '1': read as a fixnum *)
Definition w_integral_double := (cfg_flat, OFlt FDouble [49]).
(* 3/4 in base 2 with *print-radix*: #b11/100 *)
Definition w_ratio_radix := (Pcfg 2 true CDown false 80 true true true, ORat 3 4).
(* the symbol named t is printed t (the suite pins this: the symbol t doubles as the name of the type t) *)
Definition w_symbol_t := (cfg_flat, OSym [116]).

Definition refutation_witnesses : list (pcfg * obj) :=
  [w_string_quote; w_single_float; w_integral_double; w_ratio_radix; w_symbol_t].
Theorem outside_guard_refuted : forallb (fun w => refuted (fst w) (snd w)) refutation_witnesses = true.
Proof. vm_compute. reflexivity. Qed.
(* what the model makes of some of them *)
(* repaired (C03-4): (|a b| c) keeps its bars under *print-pretty* t *)
Example pretty_keeps_bars : model_text cfg_pretty (OList [OSym [97; 32; 98]; OSym [99]]) = Some [40; 124; 97; 32; 98; 124; 32; 99; 41].
Proof. vm_compute. reflexivity. Qed.
(* repaired (C03-5): a|b is printed |a\|b|, the name with a backslash and a bell |\\\u0007| *)
Example bar_in_name_escaped : model_text cfg_flat (OSym [97; 124; 98]) = Some [124; 97; 92; 124; 98; 124] /\
  model_text cfg_flat (OSym [92; 7]) = Some [124; 92; 92; 92; 117; 48; 48; 48; 55; 124].
Proof. vm_compute. split; reflexivity. Qed.
(* repaired (C03-9): (a |.| b) keeps the bars around the dot *)
Example dot_symbol_barred : model_text cfg_flat (OList [OSym [97]; OSym [46]; OSym [98]]) = Some [40; 97; 32; 124; 46; 124; 32; 98; 41].
Proof. vm_compute. reflexivity. Qed.
(* repaired (C03-10): the symbol named NIL is printed |nil| *)
Example nil_symbol_barred : model_text cfg_flat (OSym [78; 73; 76]) = Some [124; 110; 105; 108; 124].
Proof. vm_compute. reflexivity. Qed.
(* repaired (C03-12): the NUL character is printed #\Null *)
Example nul_character_named : model_text cfg_flat (OChr 0) = Some [35; 92; 78; 117; 108; 108] /\
  model_read (model_text cfg_flat (OChr 0)) = Some [OChr 0].
Proof. vm_compute. split; reflexivity. Qed.
(* repaired (C03-13): #\( is printed #\u0028 *)
Example paren_character_by_code : model_text cfg_flat (OChr 40) = Some [35; 92; 117; 48; 48; 50; 56] /\
  model_read (model_text cfg_flat (OChr 40)) = Some [OChr 40].
Proof. vm_compute. split; reflexivity. Qed.
Example integral_double_reads_fixnum : model_read (model_text (fst w_integral_double) (snd w_integral_double)) = Some [OInt false 1].
Proof. vm_compute. reflexivity. Qed.
(* repaired (C03-14): the rank of an array is printed in decimal, the elements follow *print-radix* *)
Example array_radix_text : model_text (Pcfg 10 true CDown false 80 true true true) (OArr 2 [OList [fx 1; fx 2]; OList [fx 3; fx 4]]) =
  Some [35; 50; 65; 40; 40; 49; 46; 32; 50; 46; 41; 32; 40; 51; 46; 32; 52; 46; 41; 41].
Proof. vm_compute. reflexivity. Qed.
(* repaired (C03-2, C03-4): (||) under :capitalize neither faults nor loses its bars *)
Example empty_symbol_capitalize_prints :
  model_text (Pcfg 10 false CCap true 80 true true true) (OList [OSym []]) = Some [40; 124; 124; 41].
Proof. vm_compute. reflexivity. Qed.

(* ------------------------------------------------------------------------------------------ *)
(* the guard is inhabited by non-trivial objects                                                 *)
(* ------------------------------------------------------------------------------------------ *)
(* ((foo |Hello World| :key) #(1 -255 'a\'b\n' #\Space #\λ) (x . 12345678901234567890) #2A((1 2) (3 4)) 2/3 nil t 1.5d+00) *)
Definition ex_obj : obj :=
  OList [OList [OSym [102; 111; 111]; OSym [72; 101; 108; 108; 111; 32; 87; 111; 114; 108; 100]; OSym [58; 107; 101; 121]];
         OVec [fx 1; fx (-255); OStr [97; 34; 98; 10]; OChr 32; OChr 955];
         ODot [OSym [120]] (OInt true 12345678901234567890);
         OArr 2 [OList [fx 1; fx 2]; OList [fx 3; fx 4]];
         ORat 2 3; ONil; OTrue; OFlt FDouble [49; 46; 53; 100; 43; 48; 48]].
Definition ex_cfg_flat : pcfg := Pcfg 10 false CUp false 80 true true true.
(* the same without the ratio (it needs base ten without radix) *)
Definition ex_obj2 : obj :=
  OList [OList [OSym [102; 111; 111]; OSym [58; 107; 101; 121]];
         OVec [fx 1; fx (-255); OStr [97; 34; 98; 10]; OChr 32; OChr 955];
         ODot [OSym [120]] (OInt true 12345678901234567890); ONil; OTrue].
Definition ex_cfg_pretty : pcfg := Pcfg 16 true CCap true 12 true true true.
Example guard_inhabited :
  in_domain ex_cfg_flat ex_obj = true /\ in_domain ex_cfg_pretty ex_obj2 = true /\
  in_domain (Pcfg 36 true CDown true 1 true true true) ex_obj2 = true.
Proof. vm_compute. repeat split; reflexivity. Qed.
Example pretty_example_text :
  print ex_cfg_pretty ex_obj2 =
  [40; 40; 70; 111; 111; 32; 58; 107; 101; 121; 41; 10; 32; 35; 40; 35; 120; 49; 32; 35; 120; 45; 102; 102; 10; 32; 32; 32; 32; 32; 34; 97;
   92; 34; 98; 92; 110; 34; 10; 32; 32; 32; 32; 32; 35; 92; 83; 112; 97; 99; 101; 10; 32; 32; 32; 32; 32; 35; 92; 206; 187; 41; 10; 32; 40;
   88; 32; 46; 10; 32; 32; 32; 32; 35; 120; 97; 98; 53; 52; 97; 57; 56; 99; 101; 98; 49; 102; 48; 97; 100; 50; 41; 10; 32; 78; 105; 108; 32; 116; 41]
  /\ read_all (print ex_cfg_pretty ex_obj2) =
     Some [OList [OList [OSym [70; 111; 111]; OSym [58; 107; 101; 121]];
                  OVec [fx 1; fx (-255); OStr [97; 34; 98; 10]; OChr 32; OChr 955];
                  ODot [OSym [88]] (OInt true 12345678901234567890); ONil; OTrue]].
Proof. vm_compute. split; reflexivity. Qed.
