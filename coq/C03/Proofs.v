From C03 Require Import Model Spec.
Lemma placeholder : True. Proof. exact I. Qed.
