(* C03 — the tables the model was built from are the tables of the working tree (regenerated on this run). *)
From C03 Require Import Model.
From GenC03 Require Import Tables.
Definition all_modes : list mode :=
  [MValue; MComment; MToken; MString; MSymbol; MEsc; MRune; MSharp; MChar; MInt; MSharpNum; MMustArray; MBitVector; MBlockComment; MBlockEnd].
Fixpoint nlist_eqb (a b : list N) : bool :=
  match a, b with [], [] => true | x :: a', y :: b' => N.eqb x y && nlist_eqb a' b' | _, _ => false end.
Theorem reader_tables_current : forallb (fun m => nlist_eqb (T03 m) (tables m)) all_modes = true.
Proof. vm_compute. reflexivity. Qed.
Print Assumptions reader_tables_current.
Theorem escape_tables_current : nlist_eqb esc_table g_esc && nlist_eqb hex_table g_hex = true.
Proof. vm_compute. reflexivity. Qed.
Print Assumptions escape_tables_current.
Theorem needpipe_table_current : nlist_eqb needpipe_table g_needpipe = true.
Proof. vm_compute. reflexivity. Qed.
Print Assumptions needpipe_table_current.
