(* C03 — the swank wire frame (pkg/swank/wire.go): six upper-case hexadecimal digits giving the length of the
   payload, then the payload (the default printing of the message).  Reading the frame gives the payload back. *)
From C03 Require Import Model.
From Coq Require Import ZifyBool.
Ltac Zify.zify_post_hook ::= Z.to_euclidean_division_equations.
Local Open Scope N_scope.

Definition hex_upper (d : N) : byte := if d <? 10 then 48 + d else 55 + d.
(* fmt.Sprintf("%06X", n) for n < 16^6 *)
Fixpoint hex_digits (k : nat) (n : N) : list byte :=
  match k with O => [] | S k' => hex_digits k' (n / 16) ++ [hex_upper (n mod 16)] end.
Definition wire_header (n : N) : list byte := hex_digits 6 n.
Definition wire_frame (payload : list byte) : list byte := wire_header (N.of_nat (length payload)) ++ payload.

(* strconv.ParseUint(header, 16, 32): every byte a hexadecimal digit of either case *)
Definition hex_val (b : byte) : option N :=
  if (48 <=? b) && (b <=? 57) then Some (b - 48)
  else if (65 <=? b) && (b <=? 70) then Some (b - 55)
  else if (97 <=? b) && (b <=? 102) then Some (b - 87) else None.
Fixpoint parse_hex (acc : N) (bs : list byte) : option N :=
  match bs with
  | [] => Some acc
  | b :: r => match hex_val b with Some d => parse_hex (acc * 16 + d) r | None => None end
  end.
Definition max_message : N := 1048576.
(* ReadWireMessage up to slip.Read: header, length check, payload *)
Definition wire_unframe (bs : list byte) : option (list byte) :=
  if (length bs <? 6)%nat then None
  else match parse_hex 0 (firstn 6 bs) with
       | None => None
       | Some n => if max_message <? n then None
                   else let rest := skipn 6 bs in
                        if (length rest <? N.to_nat n)%nat then None else Some (firstn (N.to_nat n) rest)
       end.

Lemma hex_val_upper d : d < 16 -> hex_val (hex_upper d) = Some d.
Proof.
  intros H. unfold hex_val, hex_upper. destruct (N.ltb_spec d 10).
  - replace ((48 <=? 48 + d) && (48 + d <=? 57)) with true by lia. f_equal. lia.
  - replace ((48 <=? 55 + d) && (55 + d <=? 57)) with false by lia.
    replace ((65 <=? 55 + d) && (55 + d <=? 70)) with true by lia. f_equal. lia.
Qed.
Lemma parse_hex_app a xs ys : parse_hex a (xs ++ ys) = match parse_hex a xs with Some v => parse_hex v ys | None => None end.
Proof. revert a. induction xs as [|x xs IH]; intros a; [reflexivity|]. cbn [app parse_hex]. destruct (hex_val x); [apply IH|reflexivity]. Qed.
Lemma parse_hex_digits k : forall n a, n < 16 ^ N.of_nat k -> parse_hex a (hex_digits k n) = Some (a * 16 ^ N.of_nat k + n).
Proof.
  induction k as [|k IH]; intros n a Hn.
  - cbn in *. f_equal. lia.
  - cbn [hex_digits]. rewrite parse_hex_app. rewrite Nat2N.inj_succ, N.pow_succ_r' in *.
    rewrite IH by (apply N.div_lt_upper_bound; lia).
    cbn [parse_hex]. rewrite hex_val_upper by (apply N.mod_lt; lia). f_equal.
    pose proof (N.div_mod n 16 ltac:(lia)). nia.
Qed.
Lemma hex_digits_length k n : length (hex_digits k n) = k.
Proof. revert n. induction k as [|k IH]; intros n; [reflexivity|]. cbn [hex_digits]. rewrite app_length, IH. cbn. lia. Qed.

Lemma firstn_exact {A} (a b : list A) n : n = length a -> firstn n (a ++ b) = a.
Proof. intros ->. induction a as [|x a IH]; [destruct b; reflexivity|]. cbn. f_equal. exact IH. Qed.
Lemma skipn_exact {A} (a b : list A) n : n = length a -> skipn n (a ++ b) = b.
Proof. intros ->. induction a as [|x a IH]; [reflexivity|]. cbn. exact IH. Qed.

(* whatever follows the frame on the connection, the reader recovers exactly the payload, provided the
   payload is not longer than the reader's limit (1 MiB; the header could spell up to 16 MiB - 1) *)
Theorem wire_roundtrip (payload more : list byte) : N.of_nat (length payload) <= max_message ->
  wire_unframe (wire_frame payload ++ more) = Some payload.
Proof.
  intros Hlen. unfold wire_unframe, wire_frame, wire_header. set (n := N.of_nat (length payload)) in *.
  rewrite <- app_assoc. rewrite app_length, hex_digits_length.
  replace (6 + length (payload ++ more) <? 6)%nat with false by (symmetry; apply Nat.ltb_ge; lia).
  rewrite firstn_exact by (rewrite hex_digits_length; reflexivity).
  rewrite parse_hex_digits by (unfold max_message in Hlen; cbn; lia). rewrite N.mul_0_l, N.add_0_l.
  replace (max_message <? n) with false by lia. cbv zeta.
  rewrite skipn_exact by (rewrite hex_digits_length; reflexivity).
  unfold n. rewrite Nat2N.id. rewrite app_length.
  replace (length payload + length more <? length payload)%nat with false by (symmetry; apply Nat.ltb_ge; lia).
  apply f_equal. apply firstn_exact. reflexivity.
Qed.
Example wire_example : wire_frame [40; 58; 111; 107; 41] = [48; 48; 48; 48; 48; 53; 40; 58; 111; 107; 41] /\
  wire_unframe [48; 48; 48; 48; 48; 53; 40; 58; 111; 107; 41; 48; 48] = Some [40; 58; 111; 107; 41].
Proof. vm_compute. split; reflexivity. Qed.
(* a payload of 16^6 bytes or more does not fit the header; between 1 MiB and that the reader refuses *)
Example wire_too_long_refused : wire_unframe (wire_header 1048577 ++ repeat 32 8) = None.
Proof. vm_compute. reflexivity. Qed.
