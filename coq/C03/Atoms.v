(* C03 — every atom the printer writes inside the guard reads back as an equal atom of the same type. *)
From C03 Require Import Model Spec Digits Utf8 ReaderLemmas Reading Classes.
From Coq Require Import ZifyBool.
Local Open Scope N_scope.

(* ------------------------------------------------------------------------------------------ *)
(* integers                                                                                      *)
(* ------------------------------------------------------------------------------------------ *)
Lemma digit_byte_int_byte base c : base <= 36 -> digit_byte base c -> int_byte c = true.
Proof. intros Hb (d & Hd & ->). unfold int_byte, digit_char. destruct (d <? 10) eqn:E; lia. Qed.
Lemma digit_byte_decimal c : digit_byte 10 c -> is_digit c = true.
Proof. intros (d & Hd & ->). unfold is_digit, digit_char. replace (d <? 10) with true by lia. lia. Qed.
Lemma to_digits_int_bytes base n : 2 <= base -> base <= 36 -> Forall (fun b => int_byte b = true) (to_digits base n).
Proof.
  intros H1 H2. pose proof (to_digits_bytes base n H1) as HF. rewrite Forall_forall in *. intros x Hx.
  eapply digit_byte_int_byte; [exact H2|]. apply HF. exact Hx.
Qed.
Lemma to_digits_decimal n : forallb is_digit (to_digits 10 n) = true.
Proof.
  apply forallb_forall. intros x Hx. apply digit_byte_decimal.
  pose proof (to_digits_bytes 10 n ltac:(lia)) as HF. rewrite Forall_forall in HF. apply HF. exact Hx.
Qed.
Lemma int_text_int_bytes base z : 2 <= base -> base <= 36 -> Forall (fun b => int_byte b = true) (int_text base z).
Proof.
  intros H1 H2. unfold int_text. apply Forall_app. split.
  - destruct (z <? 0)%Z; constructor; [reflexivity|constructor].
  - apply to_digits_int_bytes; assumption.
Qed.

(* span_digits on decimal digits *)
Lemma span_digits_app ds rest : forallb is_digit ds = true ->
  match rest with [] => True | b :: _ => is_digit b = false end -> span_digits (ds ++ rest) = (ds, rest).
Proof.
  intros Hd Hr. induction ds as [|d ds IH]; cbn [app].
  - destruct rest as [|b r]; [reflexivity|]. cbn [span_digits]. rewrite Hr. reflexivity.
  - cbn [forallb] in Hd. apply andb_true_iff in Hd as [Hd1 Hd2]. cbn [span_digits]. rewrite Hd1, (IH Hd2). reflexivity.
Qed.
Lemma span_digits_all ds : forallb is_digit ds = true -> span_digits ds = (ds, []).
Proof. intros H. rewrite <- (app_nil_r ds) at 1. apply span_digits_app; [exact H|exact I]. Qed.

(* the decimal text of an integer: sign, digits *)
Lemma int_text10_shape z : exists sg ds, int_text 10 z = sg ++ ds /\ (sg = [] \/ sg = [45]) /\ ds <> [] /\
  forallb is_digit ds = true /\ strip_sign (sg ++ ds) = ds.
Proof.
  unfold int_text. exists (if (z <? 0)%Z then [45] else []), (to_digits 10 (Z.abs_N z)).
  pose proof (to_digits_decimal (Z.abs_N z)) as Hd. pose proof (to_digits_nonempty 10 (Z.abs_N z)) as Hne.
  split; [reflexivity|]. split; [destruct (z <? 0)%Z; auto|]. split; [exact Hne|]. split; [exact Hd|].
  destruct (z <? 0)%Z; [reflexivity|]. cbn [app].
  destruct (to_digits 10 (Z.abs_N z)) as [|c r]; [contradiction|]. cbn [forallb] in Hd. apply andb_true_iff in Hd as [Hc _].
  unfold is_digit in Hc. unfold strip_sign. destruct c as [|p]; [reflexivity|].
  repeat (destruct p as [p|p|]; try reflexivity); cbn in Hc; discriminate Hc.
Qed.

Lemma lower_int_byte b : int_byte b = true -> lower b = b.
Proof. intros H. unfold int_byte in H. unfold lower. replace ((65 <=? b) && (b <=? 90)) with false by lia. reflexivity. Qed.
Lemma map_lower_id l : Forall (fun b => lower b = b) l -> map lower l = l.
Proof. induction 1 as [|b l Hb _ IH]; [reflexivity|]. cbn [map]. rewrite Hb, IH. reflexivity. Qed.

Lemma trim_dots_keep (w : list byte) : (forall b : byte, In b w -> b <> 46) -> trim_dots w = w /\ trim_dots (w ++ [46]) = w.
Proof.
  intros H. assert (E : trim_dots_rev (rev w) = rev w).
  { destruct (rev w) as [|b r] eqn:Er; [reflexivity|].
    assert (In b w) by (apply in_rev; rewrite Er; left; reflexivity).
    specialize (H b H0). cbn [trim_dots_rev]. destruct b as [|p]; [reflexivity|].
    repeat (destruct p as [p|p|]; try reflexivity). contradiction. }
  unfold trim_dots. split.
  - rewrite E, rev_involutive. reflexivity.
  - rewrite rev_app_distr. cbn [rev app trim_dots_rev]. rewrite E, rev_involutive. reflexivity.
Qed.

Lemma is_digit_not b : is_digit b = true -> b <> 46 /\ b <> 47 /\ b <> 64 /\ b <> 45 /\ b <> 43.
Proof. unfold is_digit. lia. Qed.

(* reading the decimal token of an integer, with or without the trailing dot *)
Lemma resolve_decimal z dot : dot = [] \/ dot = [46] ->
  resolve_token (int_text 10 z ++ dot) = int_obj z.
Proof.
  intros Hdot. destruct (int_text10_shape z) as (sg & ds & E & Hsg & Hne & Hd & Hstrip).
  pose proof (int_text_roundtrip 10 z ltac:(lia) ltac:(lia)) as HR.
  assert (Hbytes : Forall (fun b => lower b = b) (int_text 10 z ++ dot)).
  { apply Forall_app. split.
    - pose proof (int_text_int_bytes 10 z ltac:(lia) ltac:(lia)) as HF. rewrite Forall_forall in *. intros x Hx. apply lower_int_byte, HF, Hx.
    - destruct Hdot as [-> | ->]; repeat constructor. }
  unfold resolve_token. rewrite (map_lower_id _ Hbytes).
  assert (Hfirst : match int_text 10 z ++ dot with 64 :: _ => False | _ => True end).
  { rewrite E. destruct Hsg as [-> | ->]; cbn [app]; [|exact I].
    destruct ds as [|c r]; [contradiction|]. cbn [forallb] in Hd. apply andb_true_iff in Hd as [Hc _].
    cbn [app]. destruct (is_digit_not c Hc) as (_ & _ & H64 & _). destruct c as [|p]; [exact I|].
    repeat (destruct p as [p|p|]; try exact I). contradiction. }
  assert (Hrx : int_rx (int_text 10 z ++ dot) = true).
  { unfold int_rx. rewrite E.
    assert (Hs : strip_sign ((sg ++ ds) ++ dot) = ds ++ dot).
    { destruct Hsg as [-> | ->]; cbn [app] in *; [|reflexivity].
      destruct ds as [|c r]; [contradiction|]. cbn [app] in *. unfold strip_sign in *.
      pose proof Hd as Hd'. cbn [forallb] in Hd'. apply andb_true_iff in Hd' as [Hc _]. unfold is_digit in Hc.
      destruct c as [|p]; [reflexivity|]. repeat (destruct p as [p|p|]; try reflexivity); cbn in Hc; discriminate Hc. }
    rewrite Hs. rewrite span_digits_app; [|exact Hd|destruct Hdot as [-> | ->]; [exact I|reflexivity]].
    destruct ds; [contradiction|]. destruct Hdot as [-> | ->]; reflexivity. }
  assert (Hat : starts_with_at (int_text 10 z ++ dot) = false).
  { unfold starts_with_at. destruct (int_text 10 z ++ dot) as [|b0 w]; [reflexivity|].
    destruct b0 as [|p]; [reflexivity|]. repeat (destruct p as [p|p|]; try reflexivity). contradiction. }
  cbv zeta. rewrite Hat. unfold resolve_buf. rewrite Hrx. f_equal.
  assert (Hnodot : forall b : byte, In b (int_text 10 z) -> b <> 46).
  { intros b Hb. pose proof (int_text_int_bytes 10 z ltac:(lia) ltac:(lia)) as HF. rewrite Forall_forall in HF.
    specialize (HF b Hb). unfold int_byte in HF. lia. }
  destruct (trim_dots_keep _ Hnodot) as [T1 T2].
  destruct Hdot as [-> | ->]; [rewrite app_nil_r, T1|rewrite T2]; exact HR.
Qed.

(* ------------------------------------------------------------------------------------------ *)
(* the statement carried through the structural induction                                       *)
(* ------------------------------------------------------------------------------------------ *)
(* the text reads as one tree that denotes an object equal to x, of the same type; the tree is not the
   lone dot, and is the nil leaf only for nil *)
Definition RT (x : obj) (text : list byte) : Prop :=
  exists tr y, Reads text tr /\ obj_of_tree tr = Some y /\ obj_equal x y = true /\ ty_eqb (type_of x) (type_of y) = true /\
               is_dot tr = false /\ (is_nil tr = true -> x = ONil).

Lemma not_nil_head (a : byte) rest : a <> 110 -> match a :: rest with [110; 105; 108] => true | _ => false end = false.
Proof. intros H. destruct a as [|p]; [reflexivity|]. do 7 (destruct p as [p|p|]; try reflexivity). contradiction. Qed.
Lemma is_t_head (a : byte) rest : a <> 116 -> a <> 84 -> is_t (a :: rest) = false.
Proof.
  intros H1 H2. unfold is_t. destruct a as [|p]; [reflexivity|].
  do 7 (destruct p as [p|p|]; try reflexivity); try contradiction.
Qed.
Lemma is_dot_head (a : byte) rest : a <> 46 -> is_dot (TLeaf (LTok (a :: rest))) = false.
Proof. intros H. cbn [is_dot]. destruct a as [|p]; [reflexivity|]. do 6 (destruct p as [p|p|]; try reflexivity). contradiction. Qed.
(* a token that begins with a digit or a sign is neither t nor nil nor the dot *)
Lemma tok_tree_numeric (a : byte) rest : is_digit a = true \/ a = 45 ->
  tok_tree (a :: rest) = TLeaf (LTok (a :: rest)) /\ is_dot (TLeaf (LTok (a :: rest))) = false.
Proof.
  intros H. assert (a <> 116 /\ a <> 84 /\ a <> 110 /\ a <> 78 /\ a <> 46 /\ lower a = a) as (H1 & H2 & H3 & H4 & H5 & H6).
  { unfold lower. unfold is_digit in H. destruct H as [H | ->]; [|repeat split; try lia; reflexivity].
    replace ((65 <=? a) && (a <=? 90)) with false by lia. repeat split; lia. }
  split; [|apply is_dot_head; assumption].
  unfold tok_tree. rewrite is_t_head by assumption. unfold is_nil_tok. cbn [map]. rewrite H6, not_nil_head by assumption. reflexivity.
Qed.

Lemma RT_nil c : RT ONil (nil_text c).
Proof.
  exists (TLeaf LNil), ONil. split; [|repeat split; reflexivity].
  unfold nil_text. destruct (p_case c); cbn [case_name map lower upper].
  - change (TLeaf LNil) with (tok_tree [78; 73; 76]). apply Reads_token; reflexivity.
  - change (TLeaf LNil) with (tok_tree [110; 105; 108]). apply Reads_token; reflexivity.
  - change (TLeaf LNil) with (tok_tree [78; 105; 108]). apply Reads_token; reflexivity.
  - change (TLeaf LNil) with (tok_tree [110; 105; 108]). apply Reads_token; reflexivity.
Qed.
Lemma RT_true : RT OTrue [116].
Proof.
  exists (TLeaf LTrue), OTrue. split; [|repeat split; try reflexivity; discriminate].
  change (TLeaf LTrue) with (tok_tree [116]). apply Reads_token; reflexivity.
Qed.

Lemma dec_acc_digits n : fold_left dec_acc (to_digits 10 n) 0 = n.
Proof.
  pose proof (digits_roundtrip 10 n ltac:(lia) ltac:(lia)) as HR. rewrite digits_val_eq in HR.
  pose proof (to_digits_decimal n) as Hd.
  assert (G : forall ds a, forallb is_digit ds = true -> fold_left (dstep 10) ds (Z.of_N a) = Z.of_N (fold_left dec_acc ds a)).
  { induction ds as [|d ds IH]; intros a H; [reflexivity|]. cbn [forallb] in H. apply andb_true_iff in H as [H1 H2].
    cbn [fold_left]. rewrite <- IH by exact H2. f_equal. unfold dstep, dec_acc, digit_val. unfold is_digit in H1. rewrite H1. lia. }
  specialize (G _ 0 Hd). cbn in G. rewrite G in HR. lia.
Qed.

Lemma radix_prefix_base b : 2 <= b -> b <= 36 -> exists pfx, radix_prefix b = 35 :: pfx /\ BasePrefix pfx b.
Proof.
  intros H1 H2. unfold radix_prefix.
  destruct (N.eq_dec b 2) as [->|N2]; [exists [98]; split; [reflexivity|apply BasePrefix_b]|].
  destruct (N.eq_dec b 8) as [->|N8]; [exists [111]; split; [reflexivity|apply BasePrefix_o]|].
  destruct (N.eq_dec b 16) as [->|N16]; [exists [120]; split; [reflexivity|apply BasePrefix_x]|].
  exists (to_digits 10 b ++ [114]). split.
  - destruct b as [|p]; [lia|]. repeat (destruct p as [p|p|]; try reflexivity; try congruence).
  - pose proof (to_digits_decimal b) as Hd. pose proof (to_digits_nonempty 10 b) as Hne. pose proof (dec_acc_digits b) as Hv.
    destruct (to_digits 10 b) as [|d ds]; [contradiction|]. cbn [forallb] in Hd. apply andb_true_iff in Hd as [Hd1 Hd2].
    rewrite <- Hv. apply BasePrefix_r; assumption.
Qed.

Lemma int_obj_equal b z : b = negb (in64 z) -> obj_equal (OInt b z) (int_obj z) = true /\ ty_eqb (type_of (OInt b z)) (type_of (int_obj z)) = true.
Proof. intros ->. unfold int_obj. cbn [obj_equal type_of]. rewrite Z.eqb_refl. destruct (negb (in64 z)); split; reflexivity. Qed.

Lemma int_text10_head z : exists a rest, int_text 10 z = a :: rest /\ (is_digit a = true \/ a = 45) /\
  token_first a = true /\ forallb token_byte rest = true.
Proof.
  pose proof (int_text_int_bytes 10 z ltac:(lia) ltac:(lia)) as HF.
  destruct (int_text10_shape z) as (sg & ds & E & Hsg & Hne & Hd & _).
  destruct (int_text 10 z) as [|a rest] eqn:Et. { destruct sg, ds; try discriminate E; contradiction. }
  exists a, rest. split; [reflexivity|].
  assert (Ha : is_digit a = true \/ a = 45).
  { destruct Hsg as [-> | ->]; cbn [app] in E.
    - destruct ds as [|d ds']; [contradiction|]. injection E as -> _. cbn [forallb] in Hd. apply andb_true_iff in Hd as [Hd _]. left. exact Hd.
    - injection E as -> _. right. reflexivity. }
  split; [exact Ha|]. split.
  - apply numeric_token_first. unfold is_digit in Ha. lia.
  - inversion HF as [|? ? _ HF']; subst. apply forallb_forall. intros x Hx. rewrite Forall_forall in HF'. specialize (HF' x Hx).
    apply numeric_token_byte. unfold int_byte in HF'. unfold numeric_byte. lia.
Qed.

Lemma RT_int c b z : readable_cfg c = true -> b = negb (in64 z) -> RT (OInt b z) (integer_text c z).
Proof.
  intros Hc Hb. unfold readable_cfg in Hc. destruct (int_obj_equal b z Hb) as [He Ht].
  unfold integer_text. destruct (p_radix c) eqn:Er.
  - destruct (N.eqb_spec (p_base c) 10) as [E10|N10].
    + (* 123. *)
      destruct (int_text10_head z) as (a & rest & Et & Ha & Hf & Hr).
      destruct (tok_tree_numeric a (rest ++ [46]) Ha) as [Htt Hdot].
      exists (TLeaf (LTok (int_text 10 z ++ [46]))), (int_obj z). rewrite Et. cbn [app]. rewrite <- Htt.
      split; [apply Reads_token; [exact Hf|]|].
      { rewrite forallb_app, Hr. reflexivity. }
      rewrite Htt. change (a :: rest ++ [46]) with ((a :: rest) ++ [46]). rewrite <- Et.
      repeat split; try assumption.
      * cbn [obj_of_tree]. rewrite resolve_decimal by (right; reflexivity). reflexivity.
      * rewrite Et. exact Hdot.
      * discriminate.
    + (* #b... #o... #x... #NNr... *)
      assert (H1 : 2 <= p_base c) by lia. assert (H2 : p_base c <= 36) by lia.
      destruct (radix_prefix_base (p_base c) H1 H2) as (pfx & Ep & HP).
      exists (TLeaf (LInt (p_base c) (int_text (p_base c) z))), (int_obj z). rewrite Ep.
      split.
      { change ((35 :: pfx) ++ int_text (p_base c) z) with ([35] ++ pfx ++ int_text (p_base c) z).
        apply Reads_sharp_int; [exact HP| |apply valid_int_text; assumption].
        intros x Hx. apply int_byte_skip. pose proof (int_text_int_bytes (p_base c) z H1 H2) as HF. rewrite Forall_forall in HF. apply HF, Hx. }
      repeat split; try assumption; try discriminate.
      cbn [obj_of_tree]. rewrite int_text_roundtrip by assumption. reflexivity.
  - (* no radix: base ten *)
    assert (E10 : p_base c = 10) by lia. rewrite E10.
    destruct (int_text10_head z) as (a & rest & Et & Ha & Hf & Hr).
    destruct (tok_tree_numeric a rest Ha) as [Htt Hdot].
    exists (TLeaf (LTok (int_text 10 z))), (int_obj z). rewrite Et. rewrite <- Htt.
    split; [apply Reads_token; assumption|]. rewrite Htt, <- Et.
    repeat split; try assumption.
    * cbn [obj_of_tree]. rewrite <- (app_nil_r (int_text 10 z)). rewrite resolve_decimal by (left; reflexivity). reflexivity.
    * rewrite Et. exact Hdot.
    * discriminate.
Qed.

(* ------------------------------------------------------------------------------------------ *)
(* ratios                                                                                        *)
(* ------------------------------------------------------------------------------------------ *)
Lemma strip_sign_shape (sg ds rest : list byte) : sg = [] \/ sg = [45] -> ds <> [] -> forallb is_digit ds = true ->
  strip_sign ((sg ++ ds) ++ rest) = ds ++ rest.
Proof.
  intros Hsg Hne Hd. destruct Hsg as [-> | ->]; cbn [app]; [|reflexivity].
  destruct ds as [|c r]; [contradiction|]. cbn [app forallb] in *. apply andb_true_iff in Hd as [Hc _]. unfold is_digit in Hc.
  unfold strip_sign. destruct c as [|p]; [reflexivity|]. repeat (destruct p as [p|p|]; try reflexivity); cbn in Hc; discriminate Hc.
Qed.
Lemma split_slash_app (a r : list byte) : (forall b : byte, In b a -> b <> 47) -> split_slash (a ++ 47 :: r) = (a, r).
Proof.
  induction a as [|x a IH]; intros H; [reflexivity|].
  assert (Hx : x <> 47) by (apply H; left; reflexivity).
  cbn [app split_slash]. rewrite IH by (intros; apply H; right; assumption).
  destruct x as [|p]; [reflexivity|]. repeat (destruct p as [p|p|]; try reflexivity). contradiction.
Qed.

Lemma resolve_ratio n d : (2 <= d)%Z -> Z.gcd n d = 1%Z ->
  resolve_token (int_text 10 n ++ 47 :: int_text 10 d) = ORat n d.
Proof.
  intros Hd Hg.
  destruct (int_text10_shape n) as (sg & ds & E & Hsg & Hne & Hdig & _).
  destruct (int_text10_shape d) as (sg' & ds' & E' & Hsg' & Hne' & Hdig' & _).
  assert (Esg' : sg' = []).
  { unfold int_text in E'. replace (d <? 0)%Z with false in E' by lia. cbn [app] in E'.
    destruct Hsg' as [-> | ->]; [reflexivity|]. exfalso. cbn [app] in E'.
    pose proof (to_digits_decimal (Z.abs_N d)) as Hx. rewrite E' in Hx. cbn in Hx. discriminate Hx. }
  subst sg'. cbn [app] in E'.
  set (w := int_text 10 n ++ 47 :: int_text 10 d).
  assert (Hbytes : Forall (fun b => lower b = b) w).
  { unfold w. apply Forall_app. split; [|constructor; [reflexivity|]].
    - pose proof (int_text_int_bytes 10 n ltac:(lia) ltac:(lia)) as HF. rewrite Forall_forall in *. intros x Hx. apply lower_int_byte, HF, Hx.
    - pose proof (int_text_int_bytes 10 d ltac:(lia) ltac:(lia)) as HF. rewrite Forall_forall in *. intros x Hx. apply lower_int_byte, HF, Hx. }
  unfold resolve_token. rewrite (map_lower_id _ Hbytes). cbv zeta.
  assert (Hs : strip_sign w = ds ++ 47 :: int_text 10 d).
  { unfold w. rewrite E. apply strip_sign_shape; assumption. }
  assert (Hspan : span_digits (strip_sign w) = (ds, 47 :: int_text 10 d)).
  { rewrite Hs. apply span_digits_app; [exact Hdig|reflexivity]. }
  assert (Hat : starts_with_at w = false).
  { unfold w, starts_with_at. rewrite E. destruct Hsg as [-> | ->]; cbn [app]; [|reflexivity].
    destruct ds as [|c r]; [contradiction|]. cbn [forallb] in Hdig. apply andb_true_iff in Hdig as [Hc _]. unfold is_digit in Hc.
    cbn [app]. destruct c as [|p]; [reflexivity|]. repeat (destruct p as [p|p|]; try reflexivity); cbn in Hc; discriminate Hc. }
  rewrite Hat. unfold resolve_buf.
  assert (Hne2 : nonempty ds = true) by (destruct ds; [contradiction|reflexivity]).
  assert (R1 : int_rx w = false). { unfold int_rx. rewrite Hspan, Hne2. reflexivity. }
  assert (R2 : float_rx None w = false). { unfold float_rx. rewrite Hspan, Hne2. reflexivity. }
  assert (R4 : forall m, m <> 47 -> float_rx (Some m) w = false).
  { intros m Hm. unfold float_rx. rewrite Hspan, Hne2. cbn [andb]. destruct (N.eqb_spec 47 m); [congruence|reflexivity]. }
  rewrite R1, R2, !R4 by lia. cbn [orb].
  assert (R5 : ratio_rx w = true).
  { unfold ratio_rx. rewrite Hspan, Hne2. cbn [andb]. rewrite E'. rewrite <- (app_nil_l ds'). rewrite <- (app_nil_r ([] ++ ds')).
    rewrite strip_sign_shape by (auto; assumption). rewrite app_nil_r, span_digits_all by exact Hdig'. destruct ds'; [contradiction|]. reflexivity. }
  rewrite R5. unfold w. rewrite split_slash_app.
  2:{ intros b Hb. pose proof (int_text_int_bytes 10 n ltac:(lia) ltac:(lia)) as HF. rewrite Forall_forall in HF. specialize (HF b Hb). unfold int_byte in HF. lia. }
  cbv zeta. rewrite !int_text_roundtrip by lia. replace (0 <? d)%Z with true by lia. rewrite Hg, !Z.div_1_r. reflexivity.
Qed.

Lemma RT_ratio c n d : p_base c = 10 -> p_radix c = false -> (2 <= d)%Z -> Z.gcd n d = 1%Z -> RT (ORat n d) (ratio_text c n d).
Proof.
  intros Hb Hr Hd Hg. unfold ratio_text. replace (d =? 1)%Z with false by lia. rewrite Hr, Hb. cbn [app].
  destruct (int_text10_head n) as (a & rest & Et & Ha & Hf & Hrest).
  destruct (tok_tree_numeric a (rest ++ 47 :: int_text 10 d) Ha) as [Htt Hdot].
  exists (TLeaf (LTok (int_text 10 n ++ 47 :: int_text 10 d))), (ORat n d).
  rewrite Et. cbn [app]. rewrite <- Htt. split.
  { apply Reads_token; [exact Hf|]. rewrite forallb_app, Hrest. cbn [forallb andb].
    replace (token_byte 47) with true by reflexivity. cbn [andb].
    apply forallb_forall. intros x Hx. pose proof (int_text_int_bytes 10 d ltac:(lia) ltac:(lia)) as HF. rewrite Forall_forall in HF.
    specialize (HF x Hx). apply numeric_token_byte. unfold int_byte in HF. unfold numeric_byte. lia. }
  rewrite Htt. repeat split.
  - cbn [obj_of_tree]. change (a :: rest ++ 47 :: int_text 10 d) with ((a :: rest) ++ 47 :: int_text 10 d). rewrite <- Et.
    rewrite resolve_ratio by assumption. reflexivity.
  - cbn [obj_equal]. rewrite !Z.eqb_refl. reflexivity.
  - exact Hdot.
  - discriminate.
Qed.

(* ------------------------------------------------------------------------------------------ *)
(* floats (opaque text; the guard asks that the reader classifies the text as a float of this format) *)
(* ------------------------------------------------------------------------------------------ *)
Lemma is_dot_true (w : list byte) : is_dot (TLeaf (LTok w)) = true -> w = [46].
Proof.
  cbn [is_dot]. destruct w as [|a [|b r]]; try discriminate.
  - destruct a as [|p]; try discriminate. repeat (destruct p as [p|p|]; try discriminate). reflexivity.
  - destruct a as [|p]; try discriminate. repeat (destruct p as [p|p|]; try discriminate).
Qed.
Lemma RT_float k txt : float_ok k txt = true -> RT (OFlt k txt) txt.
Proof.
  unfold float_ok. intros H. apply andb_true_iff in H as [H Hnil]. apply andb_true_iff in H as [H Ht].
  apply andb_true_iff in H as [Hres Hshape].
  destruct txt as [|a rest]; [discriminate Hshape|]. apply andb_true_iff in Hshape as [Hf Hr].
  destruct (resolve_token (a :: rest)) as [| |? ?|? ?|k' t'| | | | | | | |] eqn:E; try discriminate Hres.
  exists (TLeaf (LTok (a :: rest))), (OFlt k' t').
  assert (Htt : tok_tree (a :: rest) = TLeaf (LTok (a :: rest))).
  { unfold tok_tree. apply negb_true_iff in Ht. apply negb_true_iff in Hnil. rewrite Ht, Hnil. reflexivity. }
  split; [rewrite <- Htt; apply Reads_token; assumption|].
  repeat split.
  - cbn [obj_of_tree]. rewrite E. reflexivity.
  - cbn [obj_equal]. exact Hres.
  - cbn [type_of]. destruct k, k'; try discriminate Hres; reflexivity.
  - destruct (is_dot (TLeaf (LTok (a :: rest)))) eqn:Ed; [|reflexivity].
    apply is_dot_true in Ed. rewrite Ed in E. vm_compute in E. discriminate E.
  - discriminate.
Qed.
