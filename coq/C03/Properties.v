From C03 Require Import Model Spec Proofs.
Theorem C03_placeholder : True.
Proof. exact placeholder. Qed.
Print Assumptions C03_placeholder.
