(* C03 — property theorems only.  M = coq/C03/Model.v (printer.go, the Readably methods, resolveToken, pushChar,
   calcAndSet) on top of C02's byte machine of the reader, instantiated with the tables of code.go.
   obj = objects built from readable data; pcfg = the printer control variables. *)
From C03 Require Import Model Spec Corr Digits Utf8 ReaderLemmas Reading Atoms Atoms2 Structure Wire Proofs.

(* (1) THE property, for every object and every printer configuration inside the guard (unbounded: any
   integer, any nesting depth, any length, any right margin, pretty or not): the text Printer.Append writes
   is read by slip.Read as exactly one object, equal to the one printed and of the same type.
   in_domain = readable configuration (escape on; base announced by *print-radix* or ten) and an object made of
   integers of any size, ratios (base ten without radix), floats whose text the reader classifies as that
   format, strings (valid UTF-8 when *print-readably*, else free of quote, backslash and control bytes),
   characters (every Unicode scalar, NUL included), symbols and keywords (every ASCII name except t / T - with
   *print-case* nil every name whatsoever -: names that need |bars| get them, also inside lists under
   *print-pretty*, with | \ and control bytes escaped), lists, dotted lists, vectors, arrays (under every base
   and radix), nested without bound.  Every clause that still narrows the guard is a known finding with a
   refutation below; the clauses of thirteen repaired findings (repo_fixes C03-2 ... C03-14) are gone.
   PARTIAL in two respects stated here: floats are opaque (format and text; that strconv / big.Float return the
   number printed is checked on the implementation only), symbol names are ASCII unless *print-case* is nil
   (the model's caseName is the ASCII one). *)
Theorem C03_read_print_partial : forall c x, in_domain c x = true ->
  exists y, read_all (print c x) = Some [y] /\ obj_equal x y = true /\ type_of x = type_of y.
Proof. exact read_print. Qed.
Print Assumptions C03_read_print_partial.

(* (1') the same as the boolean the per-run comparison evaluates: inside the guard the model itself satisfies
   the specification, so correspondence code 3 cannot come from the model *)
Theorem C03_model_meets_spec_in_guard : forall c x, in_domain c x = true -> roundtrip_ok x (model_read (model_text c x)) = true.
Proof. exact model_meets_spec_in_guard. Qed.
Print Assumptions C03_model_meets_spec_in_guard.

(* (2) integers on their own: every integer z, every base 2..36: the digits strconv.AppendInt / big.Int.Append
   write are parsed back to z (induction over the digits) ... *)
Theorem C03_integer_digits_roundtrip : forall b z, (2 <= b)%N -> (b <= 36)%N -> int_val b (int_text b z) = z.
Proof. exact integer_digits_roundtrip. Qed.
Print Assumptions C03_integer_digits_roundtrip.
(* ... and through the whole printer and reader, with the #b #o #x #NNr prefixes or the trailing dot of
   *print-radix*, fixnum or bignum: read (print z) is z with the same representation *)
Theorem C03_integer_read_print : forall c z, readable_cfg c = true ->
  read_all (print c (OInt (negb (in64 z)) z)) = Some [OInt (negb (in64 z)) z].
Proof. exact integer_read_print. Qed.
Print Assumptions C03_integer_read_print.

(* (3) strings: every sequence of Unicode scalars, printed with *print-readably* (ojg's JSON escaping) and read
   back by the reader's string / escape / rune modes, is the same byte string *)
Theorem C03_string_read_print : forall c rs, readable_cfg c = true -> p_readably c = true -> forallb is_scalar rs = true ->
  read_all (print c (OStr (concat (map utf8 rs)))) = Some [OStr (concat (map utf8 rs))].
Proof. exact string_read_print. Qed.
Print Assumptions C03_string_read_print.
(* utf8.DecodeRune (EncodeRune r) = r for every scalar, which the character reader and the escaper rely on *)
Theorem C03_utf8_decode_encode : forall r rest, is_scalar r = true -> decode_rune (utf8 r ++ rest) = (r, length (utf8 r)).
Proof. exact decode_encode. Qed.
Print Assumptions C03_utf8_decode_encode.

(* (3') symbols and characters in their own right, after the repairs.
   Every ASCII name except t / T, under every print case, flat or pretty, reads back as a symbol equal to it
   (slip compares symbols without regard to case) ... *)
Theorem C03_symbol_read_print : forall c name, readable_cfg c = true -> forallb (fun b => (b <? 128)%N) name = true -> is_t name = false ->
  exists y, read_all (print c (OSym name)) = Some [y] /\ obj_equal (OSym name) y = true /\ type_of y = TSymbol.
Proof. exact symbol_read_print. Qed.
Print Assumptions C03_symbol_read_print.
(* ... and with *print-case* nil every name whatsoever (any bytes, non-ASCII, the empty name; only t / T excepted:
   known finding C03-symbol-named-t) reads back as the symbol with exactly that name: Symbol.needPipes asks for
   bars whenever the bare spelling would be read as something else (a byte the token modes reject, the spelling
   of a number, the lone dot, nil, a leading @), and the escapes written between bars are undone by the reader *)
Theorem C03_symbol_exact : forall c name, case_is_none c = true -> forallb (fun b => (b <? 256)%N) name = true -> is_t name = false ->
  read_all (symbol_text c name) = Some [OSym name].
Proof. exact symbol_exact. Qed.
Print Assumptions C03_symbol_exact.
(* every character - any Unicode scalar, the NUL character, parentheses, quotes, semicolon ... included - reads back as itself *)
Theorem C03_character_read_print : forall c r, readable_cfg c = true -> is_scalar r = true -> read_all (print c (OChr r)) = Some [OChr r].
Proof. exact character_read_print. Qed.
Print Assumptions C03_character_read_print.

(* (4) pretty printing changes only white space.
   (a) whatever the margin, offsets and size fields, appendTree writes '(' the texts of the elements in order,
       separated by non-empty runs of blanks / newlines, ')' *)
Theorem C03_pretty_only_chooses_whitespace : forall margin es sz o cl, es <> [] ->
  exists ts body, append_tree margin (Node [] es sz) o cl = ([40] ++ body ++ [41])%N /\ Seq ts body /\
                  Forall2 (fun e t => exists o' c', t = append_tree margin e o' c') es ts.
Proof. exact pretty_only_chooses_whitespace. Qed.
Print Assumptions C03_pretty_only_chooses_whitespace.
(* (a') and a leaf of the layout tree (an atom, or a vector / array, which createTree renders into a buffer of its
       own) is written as it is wherever it sits: offset, wrapping and the closing parentheses behind it play no
       part, so white space that is CONTENT (inside a |symbol|, a string) is out of the layout's reach ... *)
Theorem C03_leaf_position_independent : forall margin b o cl o' cl', b <> [] ->
  append_tree margin (leaf_node b) o cl = append_tree margin (leaf_node b) o' cl'.
Proof. exact leaf_position_independent. Qed.
Print Assumptions C03_leaf_position_independent.
(*     ... in particular a vector or array nested in a list has, at every offset, the text it has at top level *)
Theorem C03_nested_array_text : forall c x o cl, match x with OVec _ | OArr _ _ => True | _ => False end ->
  append_tree (p_margin c) (ptree c x) o cl = pretty c x.
Proof. exact nested_array_text. Qed.
Print Assumptions C03_nested_array_text.
(* (b) the reader does not care which white space separates lexemes: after any lexeme, on any stack, any two
       non-empty runs of blanks, tabs, newlines, returns leave the same parser state ... *)
Theorem C03_separators_are_interchangeable : forall p s w1 w2, Lands p s -> w1 <> [] -> w2 <> [] ->
  forallb ws w1 = true -> forallb ws w2 = true -> Ready p (run s w1) /\ Ready p (run s w2).
Proof. exact separators_are_interchangeable. Qed.
Print Assumptions C03_separators_are_interchangeable.
(*     ... so two layouts of the same lexemes read as the same list (no white space inside lexemes: strings,
       |symbols| and #\ characters are single lexemes here) *)
Theorem C03_layouts_read_alike : forall ts trs b1 b2, Forall2 Reads ts trs -> Seq ts b1 -> Seq ts b2 ->
  s_read T03 esc03 ([40] ++ b1 ++ [41])%N = ROk [dotted trs] (length ([40] ++ b1 ++ [41])%N) /\
  s_read T03 esc03 ([40] ++ b2 ++ [41])%N = ROk [dotted trs] (length ([40] ++ b2 ++ [41])%N).
Proof. exact layouts_read_alike. Qed.
Print Assumptions C03_layouts_read_alike.
(* (c) hence: an object inside the guard of a pretty configuration reads back to an equal object of its type
       from the pretty rendering, from the flat rendering and from the rendering with any other margin *)
Theorem C03_pretty_and_flat_read_alike : forall c x pretty margin, p_pretty c = true -> in_domain c x = true ->
  roundtrip_ok x (read_all (print c x)) = true /\ roundtrip_ok x (read_all (print (with_layout c pretty margin) x)) = true.
Proof. exact pretty_and_flat_read_alike. Qed.
Print Assumptions C03_pretty_and_flat_read_alike.

(* (5) the swank wire frame: the reader recovers exactly the payload the writer framed, whatever follows it
   on the connection, for payloads up to the reader's 1 MiB limit *)
Theorem C03_wire_roundtrip : forall payload more, (N.of_nat (length payload) <= max_message)%N ->
  wire_unframe (wire_frame payload ++ more) = Some payload.
Proof. exact wire_roundtrip. Qed.
Print Assumptions C03_wire_roundtrip.

(* (6) outside the guard the faithful model does not carry the object round: one witness per guard clause
   (unescaped quote in a string, single float and integral double printed without readably, ratio with
   *print-radix*, the symbol named t) — the known findings.  Repaired and therefore gone from the list: the Go index panic on the empty
   symbol under :capitalize (C03-2), names that read as numbers (C03-3), createTree dropping |bars| (C03-4),
   | and \ between bars (C03-5), keywords that need bars (C03-6), ? in a name (C03-7),
   non-ASCII names (C03-8: the reader takes them as tokens), the symbol named . (C03-9),
   symbols named nil (C03-10), names that begin with @ (C03-11),
   the NUL character (C03-12: #\Null), the characters the reader rejects after #\ (C03-13: by code),
   the rank of an array under *print-radix* (C03-14). *)
Theorem C03_outside_guard_refuted : forallb (fun w => refuted (fst w) (snd w)) refutation_witnesses = true.
Proof. exact outside_guard_refuted. Qed.
Print Assumptions C03_outside_guard_refuted.

(* (7) the guard is inhabited: a nested object with every kind of leaf under a flat upcase configuration, and
   one under pretty / base 16 with radix / capitalize / margin 12, and base 36 / margin 1 *)
Theorem C03_guard_nonvacuous :
  in_domain ex_cfg_flat ex_obj = true /\ in_domain ex_cfg_pretty ex_obj2 = true /\
  in_domain (Pcfg 36 true CDown true 1 true true true) ex_obj2 = true.
Proof. exact guard_inhabited. Qed.
Print Assumptions C03_guard_nonvacuous.
