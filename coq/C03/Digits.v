(* C03 — integers: the digits strconv.AppendInt / big.Int.Append write in base 2..36 are read back by
   strconv.ParseInt / big.Int.SetString as the same number.  All integers, all bases: induction on fuel. *)
From C03 Require Import Model.
From Coq Require Import ZifyBool.
Ltac Zify.zify_post_hook ::= Z.to_euclidean_division_equations.
Local Open Scope N_scope.

Definition dstep (base : N) (acc : Z) (b : byte) : Z :=
  match digit_val b with Some d => (acc * Z.of_N base + Z.of_N d)%Z | None => acc end.
Lemma digits_val_eq base bs : digits_val base bs = fold_left (dstep base) bs 0%Z.
Proof. reflexivity. Qed.

Lemma digit_val_char d : d < 36 -> digit_val (digit_char d) = Some d.
Proof.
  intros H. unfold digit_val, digit_char.
  destruct (N.ltb_spec d 10).
  - replace ((48 <=? 48 + d) && (48 + d <=? 57)) with true by lia. f_equal. lia.
  - replace ((48 <=? 87 + d) && (87 + d <=? 57)) with false by lia.
    replace ((97 <=? 87 + d) && (87 + d <=? 122)) with true by lia. f_equal. lia.
Qed.

Lemma digits_fuel_app fuel b : forall n acc, digits_fuel fuel b n acc = digits_fuel fuel b n [] ++ acc.
Proof.
  induction fuel as [|f IH]; intros n acc; cbn [digits_fuel]; [reflexivity|].
  destruct (n =? 0); [reflexivity|].
  rewrite IH. rewrite (IH _ [_]). rewrite <- app_assoc. reflexivity.
Qed.

Lemma digits_fuel_val fuel b : 2 <= b -> b <= 36 -> forall n, n < 2 ^ N.of_nat fuel ->
  fold_left (dstep b) (digits_fuel fuel b n []) 0%Z = Z.of_N n.
Proof.
  intros Hb1 Hb2. induction fuel as [|f IH]; intros n Hn.
  - cbn in Hn. assert (n = 0) by lia. subst. reflexivity.
  - cbn [digits_fuel]. destruct (N.eqb_spec n 0) as [->|Hnz]; [reflexivity|].
    rewrite digits_fuel_app, fold_left_app. rewrite IH.
    + cbn [fold_left]. unfold dstep. rewrite digit_val_char.
      * rewrite <- N2Z.inj_mul, <- N2Z.inj_add. f_equal. rewrite N.mul_comm. symmetry. apply N.div_mod. lia.
      * assert (n mod b < b) by (apply N.mod_lt; lia). lia.
    + rewrite Nat2N.inj_succ, N.pow_succ_r' in Hn.
      apply N.div_lt_upper_bound; [lia|].
      assert (2 * 2 ^ N.of_nat f <= b * 2 ^ N.of_nat f) by (apply N.mul_le_mono_r; lia). lia.
Qed.

Lemma size_nat_bound n : n < 2 ^ N.of_nat (N.size_nat n).
Proof.
  destruct n as [|p]; [cbn; lia|].
  cbn [N.size_nat]. induction p as [p IH|p IH|]; cbn [Pos.size_nat].
  - rewrite Nat2N.inj_succ, N.pow_succ_r'. lia.
  - rewrite Nat2N.inj_succ, N.pow_succ_r'. lia.
  - cbn. lia.
Qed.

Theorem digits_roundtrip b n : 2 <= b -> b <= 36 -> digits_val b (to_digits b n) = Z.of_N n.
Proof.
  intros H1 H2. unfold to_digits. destruct (N.eqb_spec n 0) as [->|Hn]; [reflexivity|].
  rewrite digits_val_eq. apply digits_fuel_val; [assumption..|]. apply size_nat_bound.
Qed.

(* every byte written is a digit below the base, in lower case *)
Definition digit_byte (base : N) (c : byte) : Prop := exists d, d < base /\ c = digit_char d.
Lemma digits_fuel_bytes fuel b : 2 <= b -> forall n, Forall (digit_byte b) (digits_fuel fuel b n []).
Proof.
  intros Hb. induction fuel as [|f IH]; intros n; cbn [digits_fuel]; [constructor|].
  destruct (n =? 0); [constructor|].
  rewrite digits_fuel_app. apply Forall_app. split; [apply IH|].
  constructor; [|constructor]. exists (n mod b). split; [apply N.mod_lt; lia|reflexivity].
Qed.
Lemma to_digits_bytes b n : 2 <= b -> Forall (digit_byte b) (to_digits b n).
Proof.
  intros Hb. unfold to_digits. destruct (n =? 0).
  - constructor; [|constructor]. exists 0. split; [lia|reflexivity].
  - apply digits_fuel_bytes. exact Hb.
Qed.
Lemma digits_fuel_nonempty fuel b n : n <> 0 -> n < 2 ^ N.of_nat fuel -> digits_fuel fuel b n [] <> [].
Proof.
  intros Hn Hlt. destruct fuel as [|f].
  - cbn in Hlt. lia.
  - cbn [digits_fuel]. destruct (N.eqb_spec n 0); [contradiction|].
    rewrite digits_fuel_app. intros E. apply app_eq_nil in E. destruct E as [_ E]. discriminate.
Qed.
Lemma to_digits_nonempty b n : to_digits b n <> [].
Proof.
  unfold to_digits. destruct (N.eqb_spec n 0); [discriminate|].
  apply digits_fuel_nonempty; [assumption|apply size_nat_bound].
Qed.

Lemma digit_byte_valid b c : b <= 36 -> digit_byte b c ->
  match digit_val c with Some d => d <? b | None => false end = true.
Proof. intros Hb (d & Hd & ->). rewrite digit_val_char by lia. lia. Qed.
Lemma valid_digits_to_digits b n : 2 <= b -> b <= 36 -> valid_digits b (to_digits b n) = true.
Proof.
  intros H1 H2. unfold valid_digits. pose proof (to_digits_nonempty b n) as Hne.
  destruct (to_digits b n) as [|c r] eqn:E; [contradiction|]. rewrite <- E.
  apply forallb_forall. intros x Hx. apply digit_byte_valid; [assumption|].
  pose proof (to_digits_bytes b n H1) as HF. rewrite Forall_forall in HF. apply HF. exact Hx.
Qed.

(* a digit character is neither of the signs *)
Lemma digit_char_not_sign d : d < 36 -> digit_char d <> 43 /\ digit_char d <> 45.
Proof. intros H. unfold digit_char. destruct (d <? 10) eqn:E; lia. Qed.

(* the signed text *)
Theorem int_text_roundtrip b z : 2 <= b -> b <= 36 -> int_val b (int_text b z) = z.
Proof.
  intros H1 H2. unfold int_text. destruct (Z.ltb_spec z 0) as [Hneg|Hpos]; cbn [app].
  - cbn [int_val]. rewrite digits_roundtrip by assumption. lia.
  - pose proof (to_digits_bytes b (Z.abs_N z) H1) as HF. pose proof (to_digits_nonempty b (Z.abs_N z)) as Hne.
    pose proof (digits_roundtrip b (Z.abs_N z) H1 H2) as HR.
    destruct (to_digits b (Z.abs_N z)) as [|c r]; [contradiction|].
    inversion HF as [|? ? (d & Hd & Hc) _]; subst.
    destruct (digit_char_not_sign d ltac:(lia)) as [Hp Hm].
    unfold int_val. destruct (digit_char d) as [|p] eqn:Ec; [rewrite HR; lia|].
    repeat (destruct p as [p|p|]; try (rewrite HR; lia)); try contradiction.
Qed.
Lemma valid_int_text b z : 2 <= b -> b <= 36 -> valid_int b (int_text b z) = true.
Proof.
  intros H1 H2. unfold valid_int. replace ((2 <=? b) && (b <=? 36)) with true by lia. cbn [andb].
  unfold int_text. destruct (z <? 0)%Z; cbn [app].
  - apply valid_digits_to_digits; assumption.
  - pose proof (to_digits_bytes b (Z.abs_N z) H1) as HF. pose proof (to_digits_nonempty b (Z.abs_N z)) as Hne.
    pose proof (valid_digits_to_digits b (Z.abs_N z) H1 H2) as HV.
    destruct (to_digits b (Z.abs_N z)) as [|c r]; [contradiction|].
    inversion HF as [|? ? (d & Hd & Hc) _]; subst.
    destruct (digit_char_not_sign d ltac:(lia)) as [Hp Hm].
    destruct (digit_char d) as [|p] eqn:Ec; [exact HV|].
    repeat (destruct p as [p|p|]; try exact HV); contradiction.
Qed.
