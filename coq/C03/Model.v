(* C03 — the printer (printer.go and the per-type Readably methods) and the reader's token
   resolution (code.go resolveToken / pushChar / pushInteger / closeList for arrays).
   The byte machine of the reader itself is C02's (C02.Model.s_read), instantiated with the
   tables of C03.Tables.  No proofs in this file. *)
From Coq Require Export List Bool Arith NArith ZArith Lia.
From C02 Require Export Model.
From C03 Require Export Tables.
Export ListNotations.
Open Scope list_scope.

(* ------------------------------------------------------------------------------------------ *)
(* objects                                                                                       *)
(* ------------------------------------------------------------------------------------------ *)
Inductive fkind := FSingle | FDouble | FLong.

(* strings and symbol names are byte strings (Go strings); characters are runes.
   OInt carries the Go representation: big = false for Fixnum (int64), true for *Bignum.
   OFlt is opaque: the format and the text strconv / big.Float produced for it (see Spec).
   OArr rank rows: rank >= 2, rows in the shape Array.AsList hands to the printer (lists of lists).  OOther: anything else the reader may return. *)
Inductive obj :=
| ONil | OTrue
| OInt (big : bool) (z : Z)
| ORat (n d : Z)
| OFlt (k : fkind) (txt : list byte)
| OStr (bs : list byte)
| OChr (r : N)
| OSym (bs : list byte)
| OList (xs : list obj)
| ODot (xs : list obj) (tl : obj)
| OVec (xs : list obj)
| OArr (rank : nat) (rows : list obj)
| OOther (tag : list byte).

Inductive pcase := CUp | CDown | CCap | CNone.
(* Printer fields that are modelled; Length, Level, Lines are at their default (unlimited), Prec -1 *)
Record pcfg := Pcfg { p_base : N; p_radix : bool; p_case : pcase; p_pretty : bool; p_margin : N;
                      p_readably : bool; p_escape : bool; p_array : bool }.

Definition in64 (z : Z) : bool := (-9223372036854775808 <=? z)%Z && (z <=? 9223372036854775807)%Z.

(* ------------------------------------------------------------------------------------------ *)
(* bytes, case, digits                                                                           *)
(* ------------------------------------------------------------------------------------------ *)
Definition upper (b : byte) : byte := if (97 <=? b)%N && (b <=? 122)%N then (b - 32)%N else b.
(* `lower` is C02's *)

(* caseName for names whose bytes are below 0x80 or have no case (strings.ToLower / ToUpper are the
   identity on those); names with cased letters above 0x7f are outside the model.  :capitalize leaves the
   empty name alone (repo_fixes C03-2; it used to index the first rune of the empty name) *)
Definition case_name (c : pcase) (name : list byte) : list byte :=
  match c with
  | CUp => map upper name
  | CDown => map lower name
  | CCap => match map lower name with [] => [] | b :: r => upper b :: r end
  | CNone => name
  end.

Definition digit_char (d : N) : byte := if (d <? 10)%N then (48 + d)%N else (87 + d)%N.
Fixpoint digits_fuel (fuel : nat) (b n : N) (acc : list byte) : list byte :=
  match fuel with
  | O => acc
  | S f => if (n =? 0)%N then acc else digits_fuel f b (n / b)%N (digit_char (n mod b) :: acc)
  end.
(* strconv.AppendInt / big.Int.Append of a non-negative number, 2 <= b <= 36 *)
Definition to_digits (b n : N) : list byte :=
  if (n =? 0)%N then [48%N] else digits_fuel (N.size_nat n) b n [].
Definition int_text (b : N) (z : Z) : list byte :=
  (if (z <? 0)%Z then [45%N] else []) ++ to_digits b (Z.abs_N z).

(* Fixnum.Readably / Bignum.Readably *)
Definition radix_prefix (b : N) : list byte :=
  match b with
  | 2%N => [35; 98]%N | 8%N => [35; 111]%N | 16%N => [35; 120]%N
  | _ => [35%N] ++ to_digits 10 b ++ [114%N]
  end.
Definition integer_text (c : pcfg) (z : Z) : list byte :=
  if p_radix c then
    (if (p_base c =? 10)%N then int_text 10 z ++ [46%N] else radix_prefix (p_base c) ++ int_text (p_base c) z)
  else int_text (p_base c) z.
(* Ratio.Readably: base 10 with *print-radix* falls into the default branch: #10r *)
Definition ratio_text (c : pcfg) (n d : Z) : list byte :=
  if (d =? 1)%Z then integer_text c n
  else (if p_radix c then radix_prefix (p_base c) else []) ++ int_text (p_base c) n ++ [47%N] ++ int_text (p_base c) d.

(* ------------------------------------------------------------------------------------------ *)
(* utf-8                                                                                         *)
(* ------------------------------------------------------------------------------------------ *)
Definition is_scalar (r : N) : bool := (((r <? 55296) || (57343 <? r)) && (r <=? 1114111))%N.
Definition cont (b : byte) : bool := ((128 <=? b) && (b <=? 191))%N.
(* utf8.DecodeRune: the rune and the number of bytes; (65533, 1) for an invalid or short sequence *)
Definition rune_error : N := 65533%N.
Definition decode_rune (bs : list byte) : N * nat :=
  match bs with
  | [] => (rune_error, 0%nat)
  | b0 :: r =>
      if b0 <? 128 then (b0, 1%nat)
      else if (194 <=? b0) && (b0 <=? 223) then
        match r with b1 :: _ => if cont b1 then ((b0 - 192) * 64 + (b1 - 128), 2%nat) else (rune_error, 1%nat) | _ => (rune_error, 1%nat) end
      else if (224 <=? b0) && (b0 <=? 239) then
        match r with
        | b1 :: b2 :: _ =>
            let lo := if b0 =? 224 then 160 else 128 in
            let hi := if b0 =? 237 then 159 else 191 in
            if (lo <=? b1) && (b1 <=? hi) && cont b2 then ((b0 - 224) * 4096 + (b1 - 128) * 64 + (b2 - 128), 3%nat) else (rune_error, 1%nat)
        | _ => (rune_error, 1%nat)
        end
      else if (240 <=? b0) && (b0 <=? 244) then
        match r with
        | b1 :: b2 :: b3 :: _ =>
            let lo := if b0 =? 240 then 144 else 128 in
            let hi := if b0 =? 244 then 143 else 191 in
            if (lo <=? b1) && (b1 <=? hi) && cont b2 && cont b3
            then ((b0 - 240) * 262144 + (b1 - 128) * 4096 + (b2 - 128) * 64 + (b3 - 128), 4%nat) else (rune_error, 1%nat)
        | _ => (rune_error, 1%nat)
        end
      else (rune_error, 1%nat)
  end%N.

(* ------------------------------------------------------------------------------------------ *)
(* strings                                                                                       *)
(* ------------------------------------------------------------------------------------------ *)
Definition hexd (d : N) : byte := if (d <? 10)%N then (48 + d)%N else (87 + d)%N.
(* ojg.AppendJSONString(buf, s, false), the loop body; `skip` bytes of a multi-byte rune are copied
   (keep = true) or were replaced by an escape (keep = false) *)
Fixpoint jesc (skip : nat) (keep : bool) (bs : list byte) : list byte :=
  match bs with
  | [] => []
  | b :: rest =>
      match skip with
      | S k => (if keep then [b] else []) ++ jesc k keep rest
      | O =>
          if (b <? 32)%N then
            (match b with
             | 8%N => [92; 98]%N | 9%N => [92; 116]%N | 10%N => [92; 110]%N | 12%N => [92; 102]%N | 13%N => [92; 114]%N
             | _ => [92; 117; 48; 48; hexd (b / 16); hexd (b mod 16)]%N
             end) ++ jesc 0 true rest
          else if (b =? 34)%N then [92; 34]%N ++ jesc 0 true rest
          else if (b =? 92)%N then [92; 92]%N ++ jesc 0 true rest
          else if (b =? 127)%N then [92; 117; 48; 48; 55; 102]%N ++ jesc 0 true rest
          else if (b <? 128)%N then b :: jesc 0 true rest
          else
            let '(r, cnt) := decode_rune bs in
            if (r =? 8232)%N then [92; 117; 50; 48; 50; 56]%N ++ jesc (cnt - 1) false rest
            else if (r =? 8233)%N then [92; 117; 50; 48; 50; 57]%N ++ jesc (cnt - 1) false rest
            else if (r =? 65533)%N then [92; 117; 102; 102; 102; 100]%N ++ jesc (cnt - 1) false rest
            else b :: jesc (cnt - 1) true rest
      end
  end.
(* String.Readably *)
Definition string_text (c : pcfg) (bs : list byte) : list byte :=
  [34%N] ++ (if p_readably c then jesc 0 true bs else bs) ++ [34%N].

(* ------------------------------------------------------------------------------------------ *)
(* characters                                                                                    *)
(* ------------------------------------------------------------------------------------------ *)
Definition bytes_of_string (s : list N) : list byte := s.
(* specialCharacters: a Go map from the rune to the name (here without the leading #\) *)
Definition special_table : list (N * list byte) :=
  [(32%N, [83; 112; 97; 99; 101]%N);                        (* Space *)
   (8%N, [66; 97; 99; 107; 115; 112; 97; 99; 101]%N);       (* Backspace *)
   (12%N, [80; 97; 103; 101]%N);                            (* Page *)
   (10%N, [78; 101; 119; 108; 105; 110; 101]%N);            (* Newline *)
   (13%N, [82; 101; 116; 117; 114; 110]%N);                 (* Return *)
   (9%N, [84; 97; 98]%N);                                   (* Tab *)
   (127%N, [82; 117; 98; 111; 117; 116]%N);                 (* Rubout *)
   (0%N, [78; 117; 108; 108]%N)].                           (* Null: repo_fixes C03-12 *)
Definition special_char (r : N) : option (list byte) :=
  match find (fun e => (fst e =? r)%N) special_table with Some e => Some (snd e) | None => None end.
(* Character.Append (after #\) and Character.Readably: control characters and the ASCII characters the reader's
   character mode does not take as part of the token (parentheses, quotes, semicolon ...) are written by code
   (repo_fixes C03-13) *)
Definition char_by_code (r : N) : bool :=
  (r <? 32)%N || ((r <? 128)%N && match act T03 MChar r with ASkip => false | _ => true end).
Definition char_name (r : N) : list byte :=
  match special_char r with
  | Some s => s
  | None => if char_by_code r then [117; 48; 48; hexd (r / 16); hexd (r mod 16)]%N else utf8 r
  end.
Definition char_text (c : pcfg) (r : N) : list byte :=
  if p_escape c then [35; 92]%N ++ char_name r else utf8 r.

(* ------------------------------------------------------------------------------------------ *)
(* the reader: token resolution (resolveToken), also consulted by the printer of symbols         *)
(* ------------------------------------------------------------------------------------------ *)
Definition is_digit (b : byte) : bool := (48 <=? b)%N && (b <=? 57)%N.
Definition strip_sign (bs : list byte) : list byte := match bs with 43%N :: r | 45%N :: r => r | _ => bs end.
Fixpoint span_digits (bs : list byte) : list byte * list byte :=
  match bs with
  | b :: r => if is_digit b then let '(d, rest) := span_digits r in (b :: d, rest) else ([], bs)
  | [] => ([], [])
  end.
Definition nonempty {A} (l : list A) : bool := match l with [] => false | _ => true end.
(* ^[-+]?[0-9]+\.?$   (with the read base 10) *)
Definition int_rx (bs : list byte) : bool :=
  let '(d, rest) := span_digits (strip_sign bs) in
  nonempty d && match rest with [] | [46%N] => true | _ => false end.
(* ^[-+]?[0-9]+\.?[0-9]*$ (marker None)  and  ^[-+]?[0-9]+\.?[0-9]*m[-+]?[0-9]+?$ (marker Some m) *)
Definition float_rx (marker : option byte) (bs : list byte) : bool :=
  let '(d, rest) := span_digits (strip_sign bs) in
  nonempty d &&
  let rest := match rest with 46%N :: r => snd (span_digits r) | _ => rest end in
  match marker, rest with
  | None, [] => true
  | Some m, b :: e => (b =? m)%N && (let '(d2, r2) := span_digits (strip_sign e) in nonempty d2 && negb (nonempty r2))
  | _, _ => false
  end.
(* ^[-+]?[0-9]+/[-+]?[0-9]+$ *)
Definition ratio_rx (bs : list byte) : bool :=
  let '(d, rest) := span_digits (strip_sign bs) in
  nonempty d && match rest with 47%N :: e => let '(d2, r2) := span_digits (strip_sign e) in nonempty d2 && negb (nonempty r2) | _ => false end.

Definition digits_val (base : N) (bs : list byte) : Z :=
  fold_left (fun acc b => match digit_val b with Some d => (acc * Z.of_N base + Z.of_N d)%Z | None => acc end) bs 0%Z.
(* strconv.ParseInt / big.Int.SetString on a token the regular expression (or valid_int) accepted *)
Definition int_val (base : N) (bs : list byte) : Z :=
  match bs with
  | 45%N :: r => (- digits_val base r)%Z
  | 43%N :: r => digits_val base r
  | _ => digits_val base bs
  end.
Definition int_obj (z : Z) : obj := OInt (negb (in64 z)) z.
Fixpoint trim_dots_rev (bs : list byte) : list byte := match bs with 46%N :: r => trim_dots_rev r | _ => bs end.
Definition trim_dots (bs : list byte) : list byte := rev (trim_dots_rev (rev bs)).   (* bytes.TrimRight(buf, ".") *)
Fixpoint split_slash (bs : list byte) : list byte * list byte :=
  match bs with
  | [] => ([], [])
  | 47%N :: r => ([], r)
  | b :: r => let '(x, y) := split_slash r in (b :: x, y)
  end.

(* resolveToken with *read-base* 10 and *read-default-float-format* double-float.  Not modelled: a
   token beginning with @ that parses as a time (it is read as a symbol here), and float tokens
   strconv.ParseFloat rejects as out of range (they become symbols in the Go code). *)
Definition starts_with_at (buf : list byte) : bool := match buf with 64%N :: _ => true | _ => false end.
Definition resolve_buf (tok buf : list byte) : obj :=
  if int_rx buf then int_obj (int_val 10 (trim_dots buf))
  else if float_rx None buf || float_rx (Some 101%N) buf then OFlt FDouble buf
  else if float_rx (Some 100%N) buf then OFlt FDouble buf
  else if float_rx (Some 115%N) buf then OFlt FSingle buf
  else if float_rx (Some 102%N) buf then OFlt FSingle buf
  else if float_rx (Some 108%N) buf then OFlt FLong buf
  else if ratio_rx buf then
    let '(ns, ds) := split_slash buf in
    let n := int_val 10 ns in let d := int_val 10 ds in
    if (0 <? d)%Z then let g := Z.gcd n d in ORat (n / g)%Z (d / g)%Z else OSym tok
  else OSym tok.
Definition resolve_token (tok : list byte) : obj :=
  let buf := map lower tok in
  if starts_with_at buf then OSym tok else resolve_buf tok buf.

(* ------------------------------------------------------------------------------------------ *)
(* symbols                                                                                       *)
(* ------------------------------------------------------------------------------------------ *)
Definition need_pipe (b : byte) : bool := (nth (N.to_nat b) needpipe_table 46 =? 120)%N.
(* numberLike (code.go): the regular expressions resolveToken tries, with the default read base *)
Definition numeric_like (buf : list byte) : bool :=
  int_rx buf || float_rx None buf || float_rx (Some 101%N) buf || float_rx (Some 100%N) buf ||
  float_rx (Some 115%N) buf || float_rx (Some 102%N) buf || float_rx (Some 108%N) buf || ratio_rx buf.
(* Symbol.needPipes (repo_fixes C03-3, C03-4): a byte needPipeMap flags - except an & in first place, which starts a
   token (&rest) but is not accepted inside one -, or a name beginning with a sign or a digit whose lower-cased
   spelling is that of a number, or the name of the dotted-pair marker, or nil spelled in any case, or a name beginning
   with @ (the reader tries such a token as a time first) *)
Definition numeric_first (b : byte) : bool := is_digit b || (b =? 43)%N || (b =? 45)%N.
Definition flagged (name : list byte) : bool :=
  match name with
  | b :: r => (need_pipe b && negb (b =? 38)%N) || existsb need_pipe r
  | [] => false
  end.
Definition need_pipes (name : list byte) : bool :=
  flagged name ||
  match name with b :: _ => numeric_first b && numeric_like (map lower name) | [] => false end ||
  match name with [46%N] => true | _ => false end ||          (* the lone dot: repo_fixes C03-9 *)
  is_nil_tok name ||                                           (* nil in any case: repo_fixes C03-10 *)
  match name with 64%N :: _ => true | _ => false end.          (* @...: could be read as a time, repo_fixes C03-11 *)
(* between bars (repo_fixes C03-5): | and \ get a backslash, control bytes other than tab, newline and return
   are written \u00XX *)
Definition pesc_byte (b : byte) : list byte :=
  if (b =? 124)%N || (b =? 92)%N then [92%N; b]
  else if (b <? 32)%N && negb ((b =? 9)%N || (b =? 10)%N || (b =? 13)%N) then [92; 117; 48; 48; hexd (b / 16); hexd (b mod 16)]%N
  else [b].
Definition pesc (bs : list byte) : list byte := concat (map pesc_byte bs).
(* Symbol.Readably; a keyword follows the same rule as every other symbol (repo_fixes C03-6) *)
Definition symbol_text (c : pcfg) (name : list byte) : list byte :=
  match name with
  | [] => [124; 124]%N
  | _ => if need_pipes name then [124%N] ++ pesc (case_name (p_case c) name) ++ [124%N] else case_name (p_case c) name
  end.

(* ------------------------------------------------------------------------------------------ *)
(* the printer                                                                                   *)
(* ------------------------------------------------------------------------------------------ *)
Definition nil_text (c : pcfg) : list byte := case_name (p_case c) [110; 105; 108]%N.

Definition is_atom (x : obj) : bool :=
  match x with OList _ | ODot _ _ | OVec _ | OArr _ _ => false | _ => true end.
(* the text of an object that is not a list, vector or array: Printer.Append, the Readble case *)
Definition atom_text (c : pcfg) (x : obj) : list byte :=
  match x with
  | ONil => nil_text c
  | OTrue => [116%N]
  | OInt _ z => integer_text c z
  | ORat n d => ratio_text c n d
  | OFlt _ txt => txt
  | OStr bs => string_text c bs
  | OChr r => char_text c r
  | OSym s => symbol_text c s
  | OOther tag => tag
  | _ => []
  end.
Definition join_sp (ts : list (list byte)) : list byte :=
  match ts with [] => [] | t :: r => t ++ concat (map (fun u => 32%N :: u) r) end.

(* an array is kept in the shape Array.AsList gives the printer: rows of rows ... of elements;
   OArr rank rows.  Its dimensions, read off the first elements (as calcAndSet does) *)
Fixpoint arr_dims (rank : nat) (rows : list obj) : list nat :=
  match rank with
  | O => []
  | S r => length rows :: match rows with OList sub :: _ => arr_dims r sub | _ => [] end
  end.
(* the prefix of an array: '#' rank 'A', the rank in decimal whatever the base and radix (repo_fixes C03-14; it
   used to go through Printer.Append: #2.A, ##b10A) *)
Definition array_prefix (c : pcfg) (rank : nat) : list byte :=
  [35%N] ++ to_digits 10 (N.of_nat rank) ++ [65%N].
Definition novec_text (c : pcfg) (n : nat) : list byte :=      (* #<(VECTOR n)> *)
  [35; 60; 40; 86; 69; 67; 84; 79; 82; 32]%N ++ integer_text c (Z.of_nat n) ++ [41; 62]%N.
Definition noarr_text (c : pcfg) (dims : list nat) : list byte :=   (* #<(ARRAY T (d ...))> *)
  [35; 60; 40; 65; 82; 82; 65; 89; 32; 84; 32; 40]%N ++ join_sp (map (fun d => integer_text c (Z.of_nat d)) dims) ++ [41; 41; 62]%N.

(* --- *print-pretty* nil: the loop of Printer.Append --- *)
Fixpoint flat (c : pcfg) (x : obj) : list byte :=
  let fix flats (l : list obj) : list (list byte) :=
    match l with [] => [] | e :: l' => flat c e :: flats l' end in
  match x with
  | OList [] => nil_text c
  | OList xs => [40%N] ++ join_sp (flats xs) ++ [41%N]
  | ODot xs tl => [40%N] ++ join_sp (flats xs ++ [[46; 32]%N ++ flat c tl]) ++ [41%N]
  | OVec xs => if p_array c then [35; 40]%N ++ join_sp (flats xs) ++ [41%N] else novec_text c (length xs)
  | OArr rank rows => if p_array c then array_prefix c rank ++ [40%N] ++ join_sp (flats rows) ++ [41%N]
                      else noarr_text c (arr_dims rank rows)
  | _ => atom_text c x
  end.

(* --- *print-pretty* t: createTree / appendTree --- *)
Inductive node := Node (buf : list byte) (elems : list node) (size : nat).
Definition nsize (n : node) : nat := match n with Node _ _ s => s end.
Definition sum_sizes (l : list node) : nat := fold_right (fun n a => nsize n + a) 0%nat l.
Definition leaf_node (b : list byte) : node := Node b [] (length b).

(* the loop over elements 1.. of appendTree; f is appendTree itself *)
Definition tree_loop (f : node -> nat -> nat -> list byte) (margin : N) (off closes : nat) :=
  fix loop (l : list node) (pos : nat) : list byte :=
    match l with
    | [] => []
    | e :: l' =>
        let t := match l' with [] => closes + 1 | _ => 0 end in
        if (N.of_nat (pos + nsize e + t + 1) <=? margin)%N
        then [32%N] ++ f e 0 t ++ loop l' (pos + nsize e + t + 1)
        else [10%N] ++ repeat 32%N off ++ f e off t ++ loop l' (off + nsize e + 1)
    end.
Fixpoint append_tree (margin : N) (n : node) (offset closes : nat) : list byte :=
  match n with
  | Node (b :: buf) _ _ => b :: buf
  | Node [] elems _ =>
      [40%N] ++
      (match elems with
       | [] => []
       | [e] => append_tree margin e (offset + 1) (closes + 1)
       | e0 :: ((e1 :: _) as rest) =>
           let t := match rest with [_] => closes + 1 | _ => 0 end in
           let off := if (N.of_nat (offset + 1 + nsize e0 + nsize e1 + t + 1) <=? margin)%N
                      then offset + 1 + nsize e0 + 1 else offset + 1 in
           append_tree margin e0 off 0 ++ tree_loop (append_tree margin) margin off closes rest (offset + 1 + nsize e0)
       end) ++ [41%N]
  end.
Definition node_text (c : pcfg) (n : node) : list byte := append_tree (p_margin c) n 0 0.

Definition dot_node : node := Node [46%N] [] 1.
(* createTree: a symbol inside a list is a leaf holding what Symbol.Readably writes, like every other atom
   (repo_fixes C03-4; it used to be caseName alone, without the bars) *)
Fixpoint ptree (c : pcfg) (x : obj) : node :=
  let fix ptrees (l : list obj) : list node :=
    match l with [] => [] | e :: l' => ptree c e :: ptrees l' end in
  match x with
  | OList [] => Node [] [] 2
  | OList xs => let es := ptrees xs in Node [] es (1 + length xs + sum_sizes es)
  | ODot xs tl => let es := ptrees xs in let t := ptree c tl in
                  Node [] (es ++ [dot_node; t]) (1 + (length xs + 1) + sum_sizes es + nsize t)
  | OVec xs =>
      leaf_node (if p_array c then
                   match xs with
                   | [] => [35; 40; 41]%N
                   | _ => let es := ptrees xs in [35%N] ++ node_text c (Node [] es (1 + length xs + sum_sizes es))
                   end
                 else novec_text c (length xs))
  | OArr rank rows =>
      leaf_node (if p_array c then
                   array_prefix c rank ++
                   match rows with
                   | [] => nil_text c
                   | _ => let es := ptrees rows in node_text c (Node [] es (1 + length rows + sum_sizes es))
                   end
                 else noarr_text c (arr_dims rank rows))
  | _ => leaf_node (atom_text c x)
  end.
Definition pretty (c : pcfg) (x : obj) : list byte :=
  match x with
  | OSym _ => atom_text c x
  | OList [] => nil_text c
  | _ => node_text c (ptree c x)
  end.

(* Printer.Append at level 0 *)
Definition print (c : pcfg) (x : obj) : list byte := if p_pretty c then pretty c x else flat c x.

(* ------------------------------------------------------------------------------------------ *)
(* the reader: characters, arrays, objects denoted by C02's trees                               *)
(* ------------------------------------------------------------------------------------------ *)
(* runeMap: a Go map from the lower-cased name to the character *)
Fixpoint beqb (a b : list byte) : bool :=
  match a, b with [], [] => true | x :: a', y :: b' => (x =? y)%N && beqb a' b' | _, _ => false end.
Definition rune_table : list (list byte * N) :=
  [([98; 97; 99; 107; 115; 112; 97; 99; 101]%N, 8%N); ([110; 101; 119; 108; 105; 110; 101]%N, 10%N);
   ([110; 117; 108]%N, 0%N); ([110; 117; 108; 108]%N, 0%N);
   ([112; 97; 103; 101]%N, 12%N); ([114; 101; 116; 117; 114; 110]%N, 13%N); ([114; 117; 98; 111; 117; 116]%N, 127%N);
   ([115; 112; 97; 99; 101]%N, 32%N); ([116; 97; 98]%N, 9%N)].
Definition rune_map (name : list byte) : option N :=
  match find (fun e => beqb (fst e) name) rune_table with Some e => Some (snd e) | None => None end.
Definition hex_value (b : byte) : N := nth (N.to_nat b) hex_table 46%N.
(* pushChar: None = "'#\...' is not a valid character".  A character found by name is returned as it is (the NUL
   character has the names Nul and Null: repo_fixes C03-12); in the other forms the code 0 means "not valid" *)
Definition resolve_char (tok : list byte) : option obj :=
  match tok with
  | [] => None
  | [b] => if (b =? 0)%N then None else Some (OChr b)
  | b0 :: rest =>
      match rune_map (map lower tok) with
      | Some r => Some (OChr r)
      | None =>
          let c : N :=
            if (b0 =? 117)%N || (b0 =? 85)%N then
              (if (7 <? length tok)%nat then 0%N
               else let rn := fold_left (fun a b => (a * 16 + hex_value b)%N) rest 0%N in
                    if (rn <=? 1114111)%N then rn else 0%N)
            else fst (decode_rune tok) in
          if (c =? 0)%N then None else Some (OChr c)
      end
  end.

(* calcAndSet / setDim: the nested lists of #nA(...) must be rectangular; lists above the last axis *)
Fixpoint arr_check (dims : list nat) (rows : list obj) : bool :=
  match dims with
  | [] => true
  | d :: ds =>
      (length rows =? d)%nat &&
      match ds with
      | [] => true
      | _ => forallb (fun r => match r with OList sub => arr_check ds sub | _ => false end) rows
      end
  end.
Definition arr_dims_ok (rank : nat) (rows : list obj) : bool :=
  (* calcAndSet walks down the first elements: each must be a non-empty list above the last axis *)
  (length (arr_dims rank rows) =? rank)%nat && forallb (fun d => negb (d =? 0)%nat) (arr_dims rank rows).

Fixpoint all_some {A} (l : list (option A)) : option (list A) :=
  match l with
  | [] => Some []
  | Some x :: r => match all_some r with Some xs => Some (x :: xs) | None => None end
  | None :: _ => None
  end.
Definition mk_list (xs : list obj) : obj := match xs with [] => ONil | _ => OList xs end.

(* the object a tree of lexemes stands for; None: the reader raises an error *)
Fixpoint obj_of_tree (t : tree) : option obj :=
  let fix objs (l : list tree) : list (option obj) :=
    match l with [] => [] | x :: l' => obj_of_tree x :: objs l' end in
  match t with
  | TLeaf (LTok bs) => Some (resolve_token bs)
  | TLeaf LTrue => Some OTrue
  | TLeaf LNil => Some ONil
  | TLeaf (LStr bs) => Some (OStr bs)
  | TLeaf (LPipe bs) => Some (OSym bs)
  | TLeaf (LChar bs) => resolve_char bs
  | TLeaf (LInt base bs) => Some (int_obj (int_val base bs))
  | TLeaf (LBits _) => Some (OOther [42%N])
  | TNode KList l => match all_some (objs l) with Some xs => Some (mk_list xs) | None => None end
  | TNode KVector l => match all_some (objs l) with Some xs => Some (OVec xs) | None => None end
  | TNode (KArray n) l =>
      match all_some (objs l) with
      | Some xs =>
          let rank := N.to_nat n in
          if (rank =? 0)%nat then Some (OOther [48%N])
          else if arr_dims_ok rank xs && arr_check (arr_dims rank xs) xs then Some (OArr rank xs) else None
      | None => None
      end
  | TNode KComplex _ => Some (OOther [99%N])
  | TDot l tl => match all_some (objs l), obj_of_tree tl with Some xs, Some y => Some (ODot xs y) | _, _ => None end
  | TWrap _ _ => Some (OOther [39%N])
  end.

(* slip.Read / read-from-string on a whole text: all the objects, or an error *)
Definition read_all (text : list byte) : option (list obj) :=
  match s_read T03 esc03 text with
  | ROk trees _ => all_some (map obj_of_tree trees)
  | RErr _ _ => None
  end.
