(* C11 — correspondence: the harness runs a history of defflavor / defmethod / defwhopper forms on the real
   interpreter and writes down, per form, its outcome and, at the end, for every flavor: class precedence,
   inherit list, default values of fresh instances, init keywords, the shape of the method tables
   (Flavor.Simplify), and the trace and value of (send inst msg) and of Instance.BoundReceive.
   check_case re-runs the model M on the same history and compares all of it; a difference is judged by the
   specification S (computed from the set of forms alone). *)
From C11 Require Import Model Spec.

Fixpoint list_eqb {A} (eqb : A -> A -> bool) (a b : list A) : bool :=
  match a, b with [], [] => true | x :: a', y :: b' => eqb x y && list_eqb eqb a' b' | _, _ => false end.
Definition opt_eqb {A} (eqb : A -> A -> bool) (a b : option A) : bool :=
  match a, b with None, None => true | Some x, Some y => eqb x y | _, _ => false end.
Definition val_eqb : val -> val -> bool := opt_eqb Z.eqb.
Definition event_eqb (a b : event) : bool :=
  match a, b with Ev x, Ev y | EvEnd x, EvEnd y => Nat.eqb x y | _, _ => false end.
Definition result_eqb (a b : result) : bool :=
  match a, b with
  | RVal x, RVal y => Z.eqb x y
  | RNil, RNil | RNoMethod, RNoMethod | RUnbound, RUnbound | ROutOfFuel, ROutOfFuel | ROther, ROther => true
  | _, _ => false
  end.
Definition out_eqb (a b : out) : bool := list_eqb event_eqb (fst a) (fst b) && result_eqb (snd a) (snd b).
Definition outcome_eqb (a b : outcome) : bool :=
  match a, b with
  | Ok, Ok | ErrExists, ErrExists | ErrNoComponent, ErrNoComponent | ErrNoFlavor, ErrNoFlavor | ErrFuel, ErrFuel => true
  | _, _ => false
  end.
Definition shape_eqb (a b : shape) : bool :=
  let '(f1, (w1, b1, p1, a1)) := a in let '(f2, (w2, b2, p2, a2)) := b in
  Nat.eqb f1 f2 && Bool.eqb w1 w2 && Bool.eqb b1 b2 && Bool.eqb p1 p2 && Bool.eqb a1 a2.

Record fobs := {
  o_f : nat;
  o_prec : list nat;                            (* (class-precedence 'f) without instance, t *)
  o_inherit : list nat;                         (* Simplify()["inherit"] *)
  o_vars : list (nat * option val);             (* variable -> binding in a fresh instance (None: no such variable) *)
  o_keys : list (nat * option val);             (* keyword -> Simplify()["keywords"] entry *)
  (* (make-instance 'f k1 z1 k2 z2 ...) -> error, or the variables of the new instance and the plist :init received *)
  o_makes : list (list (nat * Z) * option (list (nat * option val) * list (nat * Z)));
  o_tables : list (mid * list shape);
  o_sends : list (mid * option Z * out);
  o_bound : list (mid * out)
}.
Record case := { k_forms : list form; k_outs : list outcome; k_obs : list fobs }.

Definition kz_eqb (a b : nat * Z) : bool := (fst a =? fst b) && Z.eqb (snd a) (snd b).
(* an expected make-instance result against the observed one: same error / same plist, and every observed variable
   holds its last assignment or else its default *)
Definition make_ok (expected : option (list (nat * Z) * list (nat * Z))) (dflt : nat -> option val)
           (observed : option (list (nat * option val) * list (nat * Z))) : bool :=
  match expected, observed with
  | None, None => true
  | Some (u, p), Some (vals, p') =>
      list_eqb kz_eqb p p' && forallb (fun vb => opt_eqb val_eqb (inst_value (dflt (fst vb)) (fst vb) u) (snd vb)) vals
  | _, _ => false
  end.
(* a send must answer what the model says, for any number of whoppers (the whopper guard is gone with
   repo_fixes/C10-2.patch) *)
Definition send_ok (ss : sstate) (f : nat) (m : mid) (arg : option Z) (model observed : out) : bool :=
  out_eqb model observed.
Definition fobs_agree (ss : sstate) (st : state) (o : fobs) : bool :=
  match find_flavor st (o_f o) with
  | None => false
  | Some fl =>
      list_eqb Nat.eqb (f_prec fl) (o_prec o) &&
      list_eqb Nat.eqb (f_inherit fl) (o_inherit o) &&
      forallb (fun vb => opt_eqb val_eqb (lookup Nat.eqb (fst vb) (f_vars fl)) (snd vb)) (o_vars o) &&
      forallb (fun kb => opt_eqb val_eqb (lookup Nat.eqb (fst kb) (f_keys fl)) (snd kb)) (o_keys o) &&
      forallb (fun mk => make_ok (make_instance st (o_f o) (fst mk)) (fun v => lookup Nat.eqb v (f_vars fl)) (snd mk)) (o_makes o) &&
      forallb (fun mt => list_eqb shape_eqb (map shape_of (table st (o_f o) (fst mt))) (snd mt)) (o_tables o) &&
      forallb (fun s => send_ok ss (o_f o) (fst (fst s)) (snd (fst s)) (send st (o_f o) (fst (fst s)) (snd (fst s))) (snd s)) (o_sends o) &&
      forallb (fun s => send_ok ss (o_f o) (fst s) None (bound_send fixed st (o_f o) (fst s)) (snd s)) (o_bound o)
  end.

(* the specification's state after the admissible forms of the history, and the outcomes it expects *)
Fixpoint s_history (ss : sstate) (h : list form) : sstate * list outcome :=
  match h with
  | [] => (ss, [])
  | x :: h' => let o := s_outcome (ss_decls ss) x in
               let '(ss', os) := s_history (if form_ok (ss_decls ss) x then sstep ss x else ss) h' in (ss', o :: os)
  end.

Definition fobs_violates (ss : sstate) (o : fobs) : bool :=
  let ds := ss_decls ss in let f := o_f o in
  negb (list_eqb Nat.eqb (fullprec ds f) (o_prec o)) ||
  negb (list_eqb Nat.eqb (tl (fullprec ds f)) (o_inherit o)) ||
  existsb (fun vb => negb (opt_eqb val_eqb (s_var ds f (fst vb)) (snd vb))) (o_vars o) ||
  existsb (fun kb => negb (opt_eqb val_eqb (s_key ds f (fst kb)) (snd kb))) (o_keys o) ||
  existsb (fun mk => g_init ds f (fst mk) && negb (make_ok (s_make ds f (fst mk)) (s_var ds f) (snd mk))) (o_makes o) ||
  existsb (fun mt => negb (list_eqb shape_eqb (map shape_of (s_table ss f (fst mt))) (snd mt))) (o_tables o) ||
  existsb (fun s => let cs := s_table ss f (fst (fst s)) in
                    match cs with
                    | [] => negb (out_eqb ([], RNoMethod) (snd s))
                    | _ => negb (out_eqb (s_send (s_var ds f) (snd (fst s)) cs) (snd s))
                    end) (o_sends o) ||
  existsb (fun s => let cs := s_table ss f (fst s) in
                    match cs with
                    | [] => negb (out_eqb ([], RNoMethod) (snd s))
                    | _ => negb (out_eqb (s_send (s_var ds f) None cs) (snd s))
                    end) (o_bound o).

Definition spec_violation (c : case) : bool :=
  negb (existsb names_vanilla (k_forms c)) &&
  let '(ss, os) := s_history s_init (k_forms c) in
  negb (list_eqb outcome_eqb os (k_outs c)) || existsb (fobs_violates ss) (k_obs c).

(* 0: M = observed and (inside the guard) = S.   1: M <> observed, the observation does not contradict S.
   2: M <> observed and the observation contradicts S inside the guard: a failing input.
   3: M = observed but contradicts S inside the guard: the guard or a theorem is wrong. *)
Definition check_case (c : case) : N :=
  let '(st, outs) := run fixed init (k_forms c) in
  let ss := fst (s_history s_init (k_forms c)) in
  let agree := list_eqb outcome_eqb outs (k_outs c) && forallb (fobs_agree ss st) (k_obs c) in
  let viol := spec_violation c in
  if agree then (if viol then 3%N else 0%N) else (if viol then 2%N else 1%N).

Fixpoint check_all_from (i : N) (cs : list case) : list (N * N) :=
  match cs with
  | [] => []
  | c :: cs' => let r := check_case c in (if N.eqb r 0 then [] else [(i, r)]) ++ check_all_from (N.succ i) cs'
  end.
Definition check_all := check_all_from 0%N.

(* counters for the evidence: sends with at most two whoppers (the former guard), sends with more *)
Definition sends_in_guard (c : case) : N :=
  let '(ss, _) := s_history s_init (k_forms c) in
  N.of_nat (fold_left (fun n o => n + length (filter (fun s => g_whop (s_table ss (o_f o) (fst (fst s)))) (o_sends o))) (k_obs c) 0).
Definition sends_outside_guard (c : case) : N :=
  let '(ss, _) := s_history s_init (k_forms c) in
  N.of_nat (fold_left (fun n o => n + length (filter (fun s => negb (g_whop (s_table ss (o_f o) (fst (fst s))))) (o_sends o))) (k_obs c) 0).
Definition makes_in_guard (c : case) : N :=
  let '(ss, _) := s_history s_init (k_forms c) in
  N.of_nat (fold_left (fun n o => n + length (filter (fun mk => g_init (ss_decls ss) (o_f o) (fst mk)) (o_makes o))) (k_obs c) 0).
Definition makes_total (c : case) : N := N.of_nat (fold_left (fun n o => n + length (o_makes o)) (k_obs c) 0).
Definition make_guard_count (cs : list case) : N := fold_left (fun a c => (a + makes_in_guard c)%N) cs 0%N.
Definition make_count (cs : list case) : N := fold_left (fun a c => (a + makes_total c)%N) cs 0%N.
Definition guard_count (cs : list case) : N := fold_left (fun a c => (a + sends_in_guard c)%N) cs 0%N.
Definition outside_count (cs : list case) : N := fold_left (fun a c => (a + sends_outside_guard c)%N) cs 0%N.
