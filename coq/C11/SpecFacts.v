(* C11 — facts about the specification's precedence lists on well-formed declaration lists. *)
From C11 Require Import Model Spec Lists.

(* declarations newest first: a name is declared once, is not vanilla-flavor, and its components were declared before *)
Fixpoint wfd (ds : list (nat * decl)) : Prop :=
  match ds with
  | [] => True
  | (f, d) :: ds' => f <> vanilla /\ defined ds' f = false /\
                     (forall c, In c (d_comps d) -> c <> vanilla /\ defined ds' c = true) /\ wfd ds'
  end.

Lemma decl_of_cons : forall f d ds g, decl_of ((f, d) :: ds) g = if g =? f then Some d else decl_of ds g.
Proof. reflexivity. Qed.
Lemma defined_cons : forall f d ds g, defined ((f, d) :: ds) g = (g =? f) || defined ds g.
Proof. intros. unfold defined. rewrite decl_of_cons. destruct (g =? f); reflexivity. Qed.
Lemma defined_decl : forall ds g, defined ds g = true <-> exists d, decl_of ds g = Some d.
Proof. intros. unfold defined. destruct (decl_of ds g); simpl; split; intros H; try discriminate; eauto. destruct H; discriminate. Qed.
Lemma defined_in : forall ds g, defined ds g = true <-> In g (map fst ds).
Proof.
  intros. unfold defined, decl_of. rewrite <- (lookup_in_keys Nat.eqb nat_eqb_spec).
  destruct (lookup Nat.eqb g ds); simpl; split; congruence.
Qed.
Lemma defined_not_vanilla : forall ds g, wfd ds -> defined ds g = true -> g <> vanilla.
Proof.
  induction ds as [| [f d] ds IH]; intros g W H; [discriminate |].
  destruct W as (Hf & _ & _ & W). rewrite defined_cons in H. destruct (g =? f) eqn:E.
  - apply Nat.eqb_eq in E. subst. exact Hf.
  - apply IH; assumption.
Qed.
Lemma wfd_comps : forall ds g d, wfd ds -> decl_of ds g = Some d -> forall c, In c (d_comps d) -> c <> vanilla /\ defined ds c = true.
Proof.
  induction ds as [| [f d0] ds IH]; intros g d W H c Hc; [discriminate |].
  destruct W as (Hf & Hn & Hcs & W). rewrite decl_of_cons in H. rewrite defined_cons. destruct (g =? f).
  - inversion H; subst. destruct (Hcs c Hc) as [H1 H2]. split; [exact H1 | rewrite H2; apply orb_true_r].
  - destruct (IH g d W H c Hc) as [H1 H2]. split; [exact H1 | rewrite H2; apply orb_true_r].
Qed.

Lemma flat_map_ext_in : forall {A B} (f g : A -> list B) l, (forall x, In x l -> f x = g x) -> flat_map f l = flat_map g l.
Proof.
  induction l as [| x l IH]; intros H; simpl; [reflexivity |].
  rewrite (H x (or_introl eq_refl)), IH; [reflexivity |]. intros y Hy. apply H. right. exact Hy.
Qed.

(* a newer declaration does not change the precedence of older flavors, and the fuel does not matter *)
Lemma s_prec_stable : forall f d ds n g, wfd ((f, d) :: ds) -> defined ds g = true -> s_prec n ((f, d) :: ds) g = s_prec n ds g.
Proof.
  intros f d ds n. induction n as [| n IH]; intros g W H; [reflexivity |].
  cbn [s_prec]. rewrite decl_of_cons. destruct W as (Hf & Hn & Hcs & W).
  destruct (g =? f) eqn:E; [apply Nat.eqb_eq in E; subst; congruence |].
  destruct (decl_of ds g) as [dg |] eqn:Eg; [| reflexivity].
  f_equal. f_equal. apply flat_map_ext_in. intros c Hc. apply IH.
  - exact (conj Hf (conj Hn (conj Hcs W))).
  - apply (wfd_comps ds g dg W Eg c Hc).
Qed.
Lemma s_prec_fuel : forall ds, wfd ds -> forall g n m, defined ds g = true -> length ds < n -> length ds < m -> s_prec n ds g = s_prec m ds g.
Proof.
  induction ds as [| [f d] ds IH]; intros W g n m H Hn Hm; [discriminate |].
  assert (W' := W). destruct W' as (Hf & Hnd & Hcs & W'). simpl in Hn, Hm.
  rewrite defined_cons in H. destruct (g =? f) eqn:E.
  - apply Nat.eqb_eq in E. subst g. destruct n as [| n]; [lia |]. destruct m as [| m]; [lia |].
    cbn [s_prec]. rewrite decl_of_cons, Nat.eqb_refl. f_equal. f_equal. apply flat_map_ext_in. intros c Hc.
    destruct (Hcs c Hc) as [_ Hd]. rewrite !(s_prec_stable f d ds _ c W Hd). apply IH; [assumption | assumption | lia | lia].
  - simpl in H. rewrite !(s_prec_stable f d ds _ g W H). apply IH; [assumption | assumption | lia | lia].
Qed.
Lemma s_prec_S : forall k ds f,
  s_prec (S k) ds f = match decl_of ds f with None => [] | Some d => f :: nub (flat_map (s_prec k ds) (d_comps d)) end.
Proof. reflexivity. Qed.
Lemma prec_cons_old : forall f d ds g, wfd ((f, d) :: ds) -> defined ds g = true -> prec ((f, d) :: ds) g = prec ds g.
Proof.
  intros f d ds g W H. unfold prec. rewrite (s_prec_stable f d ds _ g W H).
  destruct W as (_ & _ & _ & W). apply s_prec_fuel; [assumption | assumption | simpl; lia | lia].
Qed.
Lemma prec_cons_new : forall f d ds, wfd ((f, d) :: ds) -> prec ((f, d) :: ds) f = f :: nub (flat_map (prec ds) (d_comps d)).
Proof.
  intros f d ds W. unfold prec at 1. change (length ((f, d) :: ds)) with (S (length ds)).
  rewrite s_prec_S, decl_of_cons, Nat.eqb_refl. f_equal. f_equal.
  apply flat_map_ext_in. intros c Hc. assert (W' := W). destruct W' as (_ & _ & Hcs & W'). destruct (Hcs c Hc) as [_ Hd].
  rewrite (s_prec_stable f d ds _ c W Hd). unfold prec. apply s_prec_fuel; [assumption | assumption | lia | lia].
Qed.
Lemma prec_undefined : forall ds g, defined ds g = false -> prec ds g = [].
Proof. intros ds g H. unfold prec, defined in *. simpl. destruct (decl_of ds g); [discriminate | reflexivity]. Qed.

(* every member of a precedence list is declared *)
Lemma prec_defined : forall ds, wfd ds -> forall g x, In x (prec ds g) -> defined ds x = true.
Proof.
  induction ds as [| [f d] ds IH]; intros W g x Hx.
  - unfold prec in Hx. simpl in Hx. contradiction.
  - assert (W' := W). destruct W' as (Hf & Hnd & Hcs & W'). rewrite defined_cons.
    destruct (defined ((f, d) :: ds) g) eqn:Hg; [| rewrite prec_undefined in Hx by assumption; contradiction].
    rewrite defined_cons in Hg. destruct (g =? f) eqn:E.
    + apply Nat.eqb_eq in E. subst g. rewrite prec_cons_new in Hx by assumption. destruct Hx as [Hx | Hx].
      * subst. rewrite Nat.eqb_refl. reflexivity.
      * apply -> in_nub in Hx. apply in_flat_map in Hx. destruct Hx as [c [Hc Hx]]. rewrite (IH W' c x Hx). apply orb_true_r.
    + simpl in Hg. rewrite prec_cons_old in Hx by assumption. rewrite (IH W' g x Hx). apply orb_true_r.
Qed.
Lemma prec_head : forall ds, wfd ds -> forall g, defined ds g = true -> prec ds g = g :: tl (prec ds g).
Proof.
  induction ds as [| [f d] ds IH]; intros W g H; [discriminate |].
  assert (W' := W). destruct W' as (Hf & Hnd & Hcs & W'). rewrite defined_cons in H. destruct (g =? f) eqn:E.
  - apply Nat.eqb_eq in E. subst g. rewrite prec_cons_new by assumption. reflexivity.
  - simpl in H. rewrite prec_cons_old by assumption. apply IH; assumption.
Qed.
Lemma prec_self : forall ds, wfd ds -> forall g, defined ds g = true -> In g (prec ds g).
Proof. intros ds W g H. rewrite prec_head by assumption. left. reflexivity. Qed.
Lemma prec_nodup : forall ds, wfd ds -> forall g, NoDup (prec ds g).
Proof.
  induction ds as [| [f d] ds IH]; intros W g.
  - unfold prec. simpl. constructor.
  - assert (W' := W). destruct W' as (Hf & Hnd & Hcs & W').
    destruct (defined ((f, d) :: ds) g) eqn:Hg; [| rewrite prec_undefined by assumption; constructor].
    rewrite defined_cons in Hg. destruct (g =? f) eqn:E.
    + apply Nat.eqb_eq in E. subst g. rewrite prec_cons_new by assumption. constructor; [| apply nodup_nub].
      intros Hin. apply -> in_nub in Hin. apply in_flat_map in Hin. destruct Hin as [c [Hc Hin]].
      apply (prec_defined ds W') in Hin. congruence.
    + simpl in Hg. rewrite prec_cons_old by assumption. apply IH. exact W'.
Qed.
(* the precedence list of a member is contained in the list *)
Lemma prec_trans : forall ds, wfd ds -> forall g x, In x (prec ds g) -> incl (prec ds x) (prec ds g).
Proof.
  induction ds as [| [f d] ds IH]; intros W g x Hx.
  - unfold prec in Hx. simpl in Hx. contradiction.
  - assert (W' := W). destruct W' as (Hf & Hnd & Hcs & W').
    destruct (defined ((f, d) :: ds) g) eqn:Hg; [| rewrite prec_undefined in Hx by assumption; contradiction].
    rewrite defined_cons in Hg. destruct (g =? f) eqn:E.
    + apply Nat.eqb_eq in E. subst g. rewrite prec_cons_new in * by assumption. destruct Hx as [Hx | Hx].
      * subst x. rewrite prec_cons_new by assumption. apply incl_refl.
      * apply -> in_nub in Hx. apply in_flat_map in Hx. destruct Hx as [c [Hc Hx]].
        assert (Hdx : defined ds x = true) by (apply (prec_defined ds W' c x Hx)).
        rewrite prec_cons_old by assumption. intros y Hy. right. apply in_nub. apply in_flat_map. exists c. split; [exact Hc |].
        apply (IH W' c x Hx y Hy).
    + simpl in Hg. rewrite (prec_cons_old f d ds g W Hg) in *.
      assert (Hdx : defined ds x = true) by (apply (prec_defined ds W' g x Hx)).
      rewrite (prec_cons_old f d ds x W Hdx). apply IH; assumption.
Qed.
(* flattening is idempotent: the list is what one gets by collecting the lists of its members *)
Lemma prec_flat : forall ds, wfd ds -> forall g, nub (flat_map (prec ds) (prec ds g)) = prec ds g.
Proof.
  intros ds W g. destruct (defined ds g) eqn:Hg; [| rewrite prec_undefined by assumption; reflexivity].
  rewrite (prec_head ds W g Hg) at 1. simpl. rewrite nub_app. rewrite (nub_nodup _ (prec_nodup ds W g)).
  apply adds_incl. intros y Hy. apply in_flat_map in Hy. destruct Hy as [x [Hx Hy]].
  apply (prec_trans ds W g x); [| exact Hy]. rewrite prec_head by assumption. right. exact Hx.
Qed.
Lemma prec_flat_tl : forall ds, wfd ds -> forall g, nub (flat_map (prec ds) (tl (prec ds g))) = tl (prec ds g).
Proof.
  induction ds as [| [f d] ds IH]; intros W g.
  - unfold prec. simpl. reflexivity.
  - assert (W' := W). destruct W' as (Hf & Hnd & Hcs & W').
    destruct (defined ((f, d) :: ds) g) eqn:Hg; [| rewrite prec_undefined by assumption; reflexivity].
    rewrite defined_cons in Hg. destruct (g =? f) eqn:E.
    + apply Nat.eqb_eq in E. subst g. rewrite prec_cons_new by assumption. cbn [tl].
      assert (Hext : flat_map (prec ((f, d) :: ds)) (nub (flat_map (prec ds) (d_comps d)))
                     = flat_map (prec ds) (nub (flat_map (prec ds) (d_comps d)))).
      { apply flat_map_ext_in. intros x Hx. apply prec_cons_old; [assumption |].
        apply -> in_nub in Hx. apply in_flat_map in Hx. destruct Hx as [c [Hc Hx]]. apply (prec_defined ds W' c x Hx). }
      rewrite Hext, nub_flat_map_nub, flat_map_flat_map. unfold nub. apply adds_flat_map_ext.
      intros c Hc. rewrite (prec_flat ds W' c). symmetry. apply nub_nodup, prec_nodup. exact W'.
    + simpl in Hg. rewrite prec_cons_old by assumption. rewrite <- (IH W' g) at 2. f_equal.
      apply flat_map_ext_in. intros x Hx. apply prec_cons_old; [assumption |].
      apply (prec_defined ds W' g x). destruct (prec ds g); [contradiction | right; exact Hx].
Qed.

(* age: how many flavors were declared before g; components are strictly older *)
Fixpoint age (ds : list (nat * decl)) (g : nat) : nat :=
  match ds with [] => 0 | (f, _) :: ds' => if g =? f then length ds' else age ds' g end.
Lemma age_lt : forall ds g, defined ds g = true -> age ds g < length ds.
Proof.
  induction ds as [| [f d] ds IH]; intros g H; [discriminate |]. rewrite defined_cons in H. simpl.
  destruct (g =? f); [lia |]. simpl in H. specialize (IH g H). lia.
Qed.
Lemma age_tl : forall ds, wfd ds -> forall g x, In x (tl (prec ds g)) -> age ds x < age ds g.
Proof.
  induction ds as [| [f d] ds IH]; intros W g x Hx.
  - unfold prec in Hx. simpl in Hx. contradiction.
  - assert (W' := W). destruct W' as (Hf & Hnd & Hcs & W').
    destruct (defined ((f, d) :: ds) g) eqn:Hg; [| rewrite prec_undefined in Hx by assumption; contradiction].
    rewrite defined_cons in Hg. simpl. destruct (g =? f) eqn:E.
    + apply Nat.eqb_eq in E. subst g. rewrite prec_cons_new in Hx by assumption. cbn [tl] in Hx.
      apply -> in_nub in Hx. apply in_flat_map in Hx. destruct Hx as [c [Hc Hx]].
      assert (Hdx : defined ds x = true) by (apply (prec_defined ds W' c x Hx)).
      destruct (x =? f) eqn:Ex; [apply Nat.eqb_eq in Ex; subst; congruence |]. apply age_lt. exact Hdx.
    + simpl in Hg. rewrite prec_cons_old in Hx by assumption.
      assert (Hdx : defined ds x = true).
      { apply (prec_defined ds W' g x). destruct (prec ds g); [contradiction | right; exact Hx]. }
      destruct (x =? f) eqn:Ex; [apply Nat.eqb_eq in Ex; subst; congruence |]. apply IH; assumption.
Qed.
Lemma age_prec : forall ds, wfd ds -> forall g x, defined ds g = true -> In x (prec ds g) -> age ds x <= age ds g.
Proof.
  intros ds W g x Hg Hx. rewrite prec_head in Hx by assumption. destruct Hx as [Hx | Hx]; [subst; lia |].
  apply Nat.lt_le_incl. apply age_tl; assumption.
Qed.
(* no cycles: g is not in the precedence list of a member of its tail *)
Lemma prec_acyclic : forall ds, wfd ds -> forall g x, In x (tl (prec ds g)) -> ~ In g (prec ds x).
Proof.
  intros ds W g x Hx Hg. assert (H1 := age_tl ds W g x Hx).
  assert (Hdx : defined ds x = true).
  { destruct (defined ds x) eqn:E; [reflexivity |]. rewrite prec_undefined in Hg by assumption. contradiction. }
  assert (H2 := age_prec ds W x g Hdx Hg). lia.
Qed.
