(* C11 — executable model M of the flavor tables of slip.

   What is modelled (file : function):
     pkg/flavors/defflavor.go : DefFlavor (name check, components, :default-init-plist,
                                :gettable/:settable-instance-variables, vanilla last, Precedence)
     pkg/flavors/flavor.go    : inheritFlavor (recursive, dedupe on the inherit list, "insert if absent"
                                for defaults and keywords, dedupe of combinations by From)
     pkg/generic/defmethod.go : DefClassMethod, insertMethod   (defmethod and defwhopper both end here)
     method.go                : Method.Call / InnerCall / BoundCall / BoundInnerCall
     whoploc.go               : WhopLoc.Continue (continue-whopper)
     pkg/flavors/instance.go  : Receive / BoundReceive (method lookup, default handler)

   Go pointers: a *Combination is an address into [st_heap]; a flavor's [Method.Combinations] is a list of
   addresses, so that a daemon added to an existing combination is seen by every inheriting flavor exactly
   as in Go.  *Flavor pointers are flavor names (flavors are never removed here).  Go maps are association
   lists read through [lookup] only.

   Three places of the code were repaired (repo_fixes/C11-*.patch).  The model carries a [version] so that
   both the repaired and the original behaviour are defined: the theorems are about [fixed], the refutations
   about [original]. *)
From Coq Require Export List Bool Arith ZArith Lia.
Export ListNotations.

(* ---- identifiers ------------------------------------------------------------------------------ *)
(* flavor names, variable names and init keywords are numbers; flavor 0 is vanilla-flavor *)
Definition vanilla : nat := 0.
(* a message is a user keyword, the reader :v or the writer :set-v of variable v *)
Inductive mid := MUser (n : nat) | MGet (v : nat) | MSet (v : nat).
Definition mid_eqb (a b : mid) : bool :=
  match a, b with
  | MUser x, MUser y | MGet x, MGet y | MSet x, MSet y => Nat.eqb x y
  | _, _ => false
  end.
Definition val := option Z.                       (* None = nil *)
Inductive daemon := DPrimary | DBefore | DAfter | DWhopper.
(* what a Caller does when run: a user lambda traces its id (a whopper then calls continue-whopper or not),
   getter/setter are defflavor.go's [getter]/[setter], BVanilla is one of vanilla.go's callers *)
(* how often the body of a whopper calls (continue-whopper): not at all (it returns its id), once, or twice (a
   retry: the rest runs twice, the value is that of the last call).  Booleans are read as CNo / COnce. *)
Inductive conts := CNo | COnce | CTwice.
Definition conts_of_bool (b : bool) : conts := if b then COnce else CNo.
Coercion conts_of_bool : bool >-> conts.
Inductive body := BUser (id : nat) (cont : conts) | BGetter (v : nat) | BSetter (v : nat) | BVanilla.

(* v_io (repo_fixes/C11-4, C11-5): inheritFlavor also copies the inittable set and the required init keywords *)
Record version := { v_insert : bool; v_vanilla : bool; v_bound : bool; v_io : bool }.   (* true = repaired code *)
Definition fixed : version := {| v_insert := true; v_vanilla := true; v_bound := true; v_io := true |}.
Definition original : version := {| v_insert := false; v_vanilla := false; v_bound := false; v_io := false |}.

(* ---- association lists (Go maps) ------------------------------------------------------------------ *)
Section Assoc.
  Context {K V : Type} (eqb : K -> K -> bool).
  Fixpoint lookup (k : K) (l : list (K * V)) : option V :=
    match l with
    | [] => None
    | (k', v) :: r => if eqb k k' then Some v else lookup k r
    end.
  Fixpoint aset (k : K) (v : V) (l : list (K * V)) : list (K * V) :=
    match l with
    | [] => [(k, v)]
    | (k', v') :: r => if eqb k k' then (k, v) :: r else (k', v') :: aset k v r
    end.
  (* for k, v := range src { if _, has := dst[k]; !has { dst[k] = v } } *)
  Definition merge_absent (dst src : list (K * V)) : list (K * V) :=
    fold_left (fun acc kv => match lookup (fst kv) acc with Some _ => acc | None => acc ++ [kv] end) src dst.
  (* for _, kv := range src { dst[k] = v } *)
  Definition set_all (dst src : list (K * V)) : list (K * V) :=
    fold_left (fun acc kv => aset (fst kv) (snd kv) acc) src dst.
End Assoc.

Definition isSome {A} (o : option A) : bool := match o with Some _ => true | None => false end.
(* for _, k := range src { if !contains(dst, k) { dst = append(dst, k) } } *)
Definition add_missing (dst src : list nat) : list nat :=
  fold_left (fun acc k => if existsb (Nat.eqb k) acc then acc else acc ++ [k]) src dst.

(* ---- state ------------------------------------------------------------------------------------- *)
Record combo := { c_from : nat; c_prim : option body; c_bef : option body; c_aft : option body; c_wrap : option body }.
Record flavor := {
  f_name : nat;
  f_inherit : list nat;                 (* Flavor.inherit *)
  f_vars : list (nat * val);            (* Flavor.defaultVars (without "self") *)
  f_keys : list (nat * val);            (* Flavor.keywords *)
  f_meths : list (mid * list nat);      (* Flavor.methods: message -> Method.Combinations (addresses) *)
  f_prec : list nat;                    (* Flavor.Precedence without the trailing instance, t *)
  f_initable : list nat;                (* Flavor.initable (a Go set): own and, since C11-4, inherited :inittable-instance-variables *)
  f_required : list nat                 (* Flavor.requiredKeywords: own and, since C11-5, inherited :required-init-keywords, each once *)
}.
Record state := { st_flavors : list flavor; st_heap : list combo }.   (* allFlavors in definition order; all Combinations *)

Definition empty_combo (g : nat) : combo := {| c_from := g; c_prim := None; c_bef := None; c_aft := None; c_wrap := None |}.
Definition vanilla_combo : combo := {| c_from := vanilla; c_prim := Some BVanilla; c_bef := None; c_aft := None; c_wrap := None |}.
(* vanilla.go gives vanilla-flavor sixteen methods, each one combination with a primary; one of them
   (:init, message MUser 0) stands for all *)
Definition vanilla_flavor : flavor :=
  {| f_name := vanilla; f_inherit := []; f_vars := []; f_keys := []; f_meths := [(MUser 0, [0])]; f_prec := [vanilla];
     f_initable := []; f_required := [] |}.
Definition init : state := {| st_flavors := [vanilla_flavor]; st_heap := [vanilla_combo] |}.

Definition deref (h : list combo) (a : nat) : combo := nth a h (empty_combo vanilla).
Fixpoint upd {A} (l : list A) (n : nat) (x : A) : list A :=
  match l, n with
  | [], _ => []
  | _ :: r, O => x :: r
  | y :: r, S n' => y :: upd r n' x
  end.
Definition find_flavor (st : state) (g : nat) : option flavor := find (fun fl => f_name fl =? g) (st_flavors st).
Definition tbl_of (fl : flavor) (m : mid) : list nat :=
  match lookup mid_eqb m (f_meths fl) with Some l => l | None => [] end.
Definition with_meths (fl : flavor) (ms : list (mid * list nat)) : flavor :=
  {| f_name := f_name fl; f_inherit := f_inherit fl; f_vars := f_vars fl; f_keys := f_keys fl; f_meths := ms; f_prec := f_prec fl;
     f_initable := f_initable fl; f_required := f_required fl |}.

(* ---- defmethod / defwhopper: generic.DefClassMethod ------------------------------------------------ *)
Definition set_slot (d : daemon) (b : body) (c : combo) : combo :=
  match d with
  | DPrimary => {| c_from := c_from c; c_prim := Some b; c_bef := c_bef c; c_aft := c_aft c; c_wrap := c_wrap c |}
  | DBefore => {| c_from := c_from c; c_prim := c_prim c; c_bef := Some b; c_aft := c_aft c; c_wrap := c_wrap c |}
  | DAfter => {| c_from := c_from c; c_prim := c_prim c; c_bef := c_bef c; c_aft := Some b; c_wrap := c_wrap c |}
  | DWhopper => {| c_from := c_from c; c_prim := c_prim c; c_bef := c_bef c; c_aft := c_aft c; c_wrap := Some b |}
  end.

(* the part of DefClassMethod that touches obj itself: "if there is a combination for this class it will be
   the first on the list", otherwise a new combination is put in front.  Returns heap, obj, the address of
   the combination and addCombo. *)
Definition def_own (h : list combo) (fl : flavor) (m : mid) (d : daemon) (b : body) : list combo * flavor * nat * bool :=
  let fresh := (h ++ [set_slot d b (empty_combo (f_name fl))],
                with_meths fl (aset mid_eqb m (length h :: tbl_of fl m) (f_meths fl)), length h, true) in
  match tbl_of fl m with
  | a :: _ => if c_from (deref h a) =? f_name fl then (upd h a (set_slot d b (deref h a)), fl, a, false) else fresh
  | [] => fresh
  end.

(* insertMethod's position search.  repaired: stop at super itself;  original: stop when the combination at
   pos is from super (never the case, super has none yet), so every later flavor's combination is skipped too *)
Fixpoint ins_pos (fx : bool) (h : list combo) (tbl : list nat) (pos : nat) (inh : list nat) (g : nat) : nat :=
  match inh with
  | [] => pos
  | f :: inh' =>
      if (length tbl <=? pos) || (if fx then f =? g else c_from (deref h (nth pos tbl 0)) =? g) then pos
      else if c_from (deref h (nth pos tbl 0)) =? f then ins_pos fx h tbl (S pos) inh' g
      else ins_pos fx h tbl pos inh' g
  end.
(* m.Combinations = append(append(m.Combinations[:pos], combo), m.Combinations[pos:]...)
   original: for pos < len the inner append writes combo over element pos of the same backing array before
   the tail m.Combinations[pos:] is read, so that element is lost and combo appears twice (whatever the
   capacity); for pos = len it is a plain append.  repaired: a new slice is built. *)
Definition splice (fx : bool) (tbl : list nat) (pos a : nat) : list nat :=
  if fx then firstn pos tbl ++ a :: skipn pos tbl
  else if pos <? length tbl then firstn pos tbl ++ a :: a :: skipn (S pos) tbl else tbl ++ [a].
Definition insert_method (v : version) (h : list combo) (ac : flavor) (g : nat) (m : mid) (a : nat) : flavor :=
  match lookup mid_eqb m (f_meths ac) with
  | None => with_meths ac (aset mid_eqb m [a] (f_meths ac))
  | Some tbl =>
      let pos0 := match tbl with x :: _ => if c_from (deref h x) =? f_name ac then 1 else 0 | [] => 0 end in
      let pos := ins_pos (v_insert v) h tbl pos0 (f_inherit ac) g in
      with_meths ac (aset mid_eqb m (splice (v_insert v) tbl pos a) (f_meths ac))
  end.

Inductive outcome := Ok | ErrExists | ErrNoComponent | ErrNoFlavor | ErrFuel.

Definition replace_flavor (fls : list flavor) (fl : flavor) : list flavor :=
  map (fun x => if f_name x =? f_name fl then fl else x) fls.

Definition def_method (v : version) (st : state) (g : nat) (d : daemon) (m : mid) (b : body) : state * outcome :=
  match find_flavor st g with
  | None => (st, ErrNoFlavor)                         (* "class for defmethod": type-error *)
  | Some fl =>
      let '(h1, fl1, a, isnew) := def_own (st_heap st) fl m d b in
      let fls1 := replace_flavor (st_flavors st) fl1 in
      (* for _, ac := range AllClasses() { if ac.Inherits(obj) { insertMethod(ac, obj, m, c) } } *)
      let fls2 := if isnew
                  then map (fun ac => if existsb (Nat.eqb g) (f_inherit ac) then insert_method v h1 ac g m a else ac) fls1
                  else fls1 in
      ({| st_flavors := fls2; st_heap := h1 |}, Ok)
  end.

(* ---- defflavor: DefFlavor and inheritFlavor -------------------------------------------------------- *)
(* if !m.HasMethodFromClass(ic.From.Name()) { m.Combinations = append(m.Combinations, ic) } *)
Definition add_combo (h : list combo) (ms : list (mid * list nat)) (k : mid) (a : nat) : list (mid * list nat) :=
  let tbl := match lookup mid_eqb k ms with Some l => l | None => [] end in
  if existsb (fun b => c_from (deref h b) =? c_from (deref h a)) tbl then ms else aset mid_eqb k (tbl ++ [a]) ms.
(* for k, im := range cf.methods { for _, ic := range im.Combinations { ... } }
   repaired: vanilla-flavor's combinations are only taken from vanilla-flavor itself (it is inherited last);
   original: they are copied along with the first component's table and so precede later components *)
Definition merge_meths (v : version) (h : list combo) (ms : list (mid * list nat)) (cf : nat) (cfm : list (mid * list nat))
  : list (mid * list nat) :=
  fold_left (fun ms ka =>
    fold_left (fun ms a =>
      if v_vanilla v && (c_from (deref h a) =? vanilla) && negb (cf =? vanilla) then ms else add_combo h ms (fst ka) a)
      (snd ka) ms) cfm ms.

(* inheritFlavor.  Go's recursion ends because a flavor already on the list returns at once; the model
   carries fuel and reports its exhaustion (never happens on admissible or refused forms: Properties.C11_admissible_accepted,
   C11_inadmissible_refused). *)
Fixpoint inherit_flavor (v : version) (fuel : nat) (st : state) (obj : flavor) (cf : nat) : option flavor :=
  match fuel with
  | O => None
  | S k =>
      if existsb (Nat.eqb cf) (f_inherit obj) then Some obj
      else match find_flavor st cf with
           | None => None
           | Some c =>
               let obj1 := {| f_name := f_name obj; f_inherit := f_inherit obj ++ [cf];
                              f_vars := merge_absent Nat.eqb (f_vars obj) (f_vars c);
                              f_keys := merge_absent Nat.eqb (f_keys obj) (f_keys c);
                              f_meths := merge_meths v (st_heap st) (f_meths obj) cf (f_meths c);
                              f_prec := f_prec obj;
                              f_initable := if v_io v then f_initable obj ++ f_initable c else f_initable obj;
                              f_required := if v_io v then add_missing (f_required obj) (f_required c) else f_required obj |} in
               fold_left (fun o f2 => match o with
                                      | None => None
                                      | Some o' => if f2 =? vanilla then Some o' else inherit_flavor v k st o' f2
                                      end) (f_inherit c) (Some obj1)
           end
  end.

Inductive accs := AccNone | AccAll | AccList (l : list nat).
Definition acc_vars (a : accs) (fl : flavor) : list nat :=
  match a with AccNone => [] | AccAll => map fst (f_vars fl) | AccList l => l end.
(* nf.DefMethod(":"+k, "", getter(k)) for each listed variable: DefClassMethod on the flavor under
   construction; no class inherits it yet, so the insertMethod loop does nothing *)
Definition def_accessors (mk : nat -> mid) (bd : nat -> body) (vs : list nat) (hf : list combo * flavor) : list combo * flavor :=
  fold_left (fun hf x => let '(h', fl', _, _) := def_own (fst hf) (snd hf) (mk x) DPrimary (bd x) in (h', fl')) vs hf.

Definition inherit_fuel (st : state) : nat := S (length (st_flavors st)).

(* (:inittable-instance-variables ...) bare or listed, (:required-init-keywords ...) *)
Record iopts := { io_inits : accs; io_reqs : list nat }.
Definition def_flavor (v : version) (st : state) (f : nat) (vars : list (nat * val)) (comps : list nat)
           (keys : list (nat * val)) (gets sets : accs) (io : iopts) : state * outcome :=
  if existsb (fun fl => f_name fl =? f) (st_flavors st) then (st, ErrExists)
  else
    let nf0 := {| f_name := f; f_inherit := []; f_vars := set_all Nat.eqb [] vars; f_keys := []; f_meths := []; f_prec := [];
                 f_initable := []; f_required := [] |} in
    let r := fold_left (fun o c => match o with
                                   | inl e => inl e
                                   | inr nf => match find_flavor st c with
                                               | None => inl ErrNoComponent       (* class-not-found *)
                                               | Some _ => match inherit_flavor v (inherit_fuel st) st nf c with
                                                           | Some nf' => inr nf'
                                                           | None => inl ErrFuel
                                                           end
                                               end
                                   end) comps (inr nf0) in
    match r with
    | inl e => (st, e)
    | inr nf1 =>
        (* processFlavorOptions: :default-init-plist overwrites, then the accessors; the inittable variables are
           added to the (inherited; empty in the original code) set; the required keywords are appended to the
           inherited ones (original code: they replace the list, which is empty there) *)
        let nf2 := {| f_name := f; f_inherit := f_inherit nf1; f_vars := f_vars nf1;
                      f_keys := set_all Nat.eqb (f_keys nf1) keys; f_meths := f_meths nf1; f_prec := [];
                      f_initable := f_initable nf1 ++ acc_vars (io_inits io) nf1;
                      f_required := if v_io v then add_missing (f_required nf1) (io_reqs io) else io_reqs io |} in
        let hf3 := def_accessors MGet BGetter (acc_vars gets nf2) (st_heap st, nf2) in
        let hf4 := def_accessors MSet BSetter (acc_vars sets nf2) hf3 in
        let st4 := {| st_flavors := st_flavors st; st_heap := fst hf4 |} in
        (* if !nf.noVanilla { nf.inheritFlavor(&vanilla) } *)
        match inherit_flavor v (inherit_fuel st) st4 (snd hf4) vanilla with
        | None => (st, ErrFuel)
        | Some nf5 =>
            let nf6 := {| f_name := f; f_inherit := f_inherit nf5; f_vars := f_vars nf5; f_keys := f_keys nf5;
                          f_meths := f_meths nf5; f_prec := f :: f_inherit nf5;
                          f_initable := f_initable nf5; f_required := f_required nf5 |} in
            ({| st_flavors := st_flavors st ++ [nf6]; st_heap := fst hf4 |}, Ok)
        end
    end.

(* ---- histories ------------------------------------------------------------------------------------ *)
Inductive form :=
| DFlavor (f : nat) (vars : list (nat * val)) (comps : list nat) (keys : list (nat * val)) (gets sets : accs) (io : iopts)
| DMethod (f : nat) (d : daemon) (m : mid) (id : nat) (cont : conts).    (* defmethod / defwhopper with a tracing body *)

Definition step (v : version) (st : state) (x : form) : state * outcome :=
  match x with
  | DFlavor f vars comps keys gets sets io => def_flavor v st f vars comps keys gets sets io
  | DMethod f d m id cont => def_method v st f d m (BUser id cont)
  end.
Fixpoint run (v : version) (st : state) (h : list form) : state * list outcome :=
  match h with
  | [] => (st, [])
  | x :: h' => let '(st1, o) := step v st x in let '(st2, os) := run v st1 h' in (st2, o :: os)
  end.

(* ---- send ----------------------------------------------------------------------------------------- *)
Inductive event := Ev (id : nat) | EvEnd (id : nat).      (* a user body starts; a whopper body ends *)
Inductive result := RVal (z : Z) | RNil | RNoMethod | RUnbound | ROutOfFuel | ROther.
Definition out := (list event * result)%type.

Definition run_plain (b : body) : list event := match b with BUser id _ => [Ev id] | _ => [] end.
Definition befores (cs : list combo) : list event :=
  flat_map (fun c => match c_bef c with Some b => run_plain b | None => [] end) cs.
Definition afters (cs : list combo) : list event :=
  flat_map (fun c => match c_aft c with Some b => run_plain b | None => [] end) cs.
Definition is_vanilla_body (b : body) : bool := match b with BVanilla => true | _ => false end.
(* the first combination with a primary; BoundInnerCall only takes primaries that are BoundCallers,
   which vanilla.go's callers are not *)
Fixpoint first_prim (bound : bool) (cs : list combo) : option body :=
  match cs with
  | [] => None
  | c :: r => match c_prim c with
              | Some b => if bound && is_vanilla_body b then first_prim bound r else Some b
              | None => first_prim bound r
              end
  end.
(* [vars] reads an instance variable of the receiver *)
Definition prim_result (vars : nat -> option val) (arg : option Z) (b : body) : result :=
  match b with
  | BUser id _ => RVal (Z.of_nat id)
  | BGetter x => match vars x with Some (Some z) => RVal z | Some None => RNil | None => RUnbound end
  | BSetter x => match arg with Some z => RVal z | None => ROther end
  | BVanilla => RNil
  end.
(* InnerCall (afters from the last combination to the first) and BoundInnerCall (original: first to last) *)
Definition inner_call (afters_rev bound : bool) (vars : nat -> option val) (arg : option Z) (cs : list combo) : out :=
  let p := first_prim bound cs in
  (befores cs ++ (match p with Some b => run_plain b | None => [] end) ++ afters (if afters_rev then rev cs else cs),
   match p with Some b => prim_result vars arg b | None => RNil end).

Fixpoint scan_wrap (cs : list combo) (i : nat) : option (nat * body) :=
  match cs with
  | [] => None
  | c :: r => match c_wrap c with Some b => Some (i, b) | None => scan_wrap r (S i) end
  end.
Definition wrap_from (cs : list combo) (i : nat) : option (nat * body) := scan_wrap (skipn i cs) i.
Definition run_wrap (b : body) (k : out) : out :=
  match b with
  | BUser id COnce => (Ev id :: fst k ++ [EvEnd id], snd k)
  | BUser id CTwice => (Ev id :: fst k ++ fst k ++ [EvEnd id], snd k)   (* WhopLoc.Continue does not move the caller's location *)
  | BUser id CNo => ([Ev id; EvEnd id], RVal (Z.of_nat id))
  | _ => ([], ROther)
  end.
(* WhopLoc.Continue (repaired, repo_fixes/C10-2.patch): for i := wl.Current+1; i < len; i++ { if wrap != nil {
     ... &WhopLoc{Method: wl.Method, Current: i} ... return wrap.Call } } return InnerCall
   [current] is wl.Current: the index of the combination whose whopper is running; the next whopper's
   location is its own index *)
Fixpoint continue_whopper (fuel : nat) (cs : list combo) (inner : out) (current : nat) : out :=
  match fuel with
  | O => ([], ROutOfFuel)
  | S k => match wrap_from cs (S current) with
           | Some (j, b) => run_wrap b (continue_whopper k cs inner j)
           | None => inner
           end
  end.
(* the original: for wl.Current++; ...; wl.Current++ { ... &WhopLoc{Method: wl.Method, Current: wl.Current + 1} ... }
   the next whopper's location started one past its own index (kept for the refutation only) *)
Fixpoint continue_whopper_orig (fuel : nat) (cs : list combo) (inner : out) (current : nat) : out :=
  match fuel with
  | O => ([], ROutOfFuel)
  | S k => match wrap_from cs (S current) with
           | Some (j, b) => run_wrap b (continue_whopper_orig k cs inner (S j))
           | None => inner
           end
  end.
Definition method_call_orig (cs : list combo) (inner : out) : out :=
  match wrap_from cs 0 with
  | Some (i, b) => run_wrap b (continue_whopper_orig (length cs) cs inner i)
  | None => inner
  end.
(* Method.Call: the first combination with a whopper gets WhopLoc{Current: i} *)
Definition method_call (cs : list combo) (inner : out) : out :=
  match wrap_from cs 0 with
  | Some (i, b) => run_wrap b (continue_whopper (length cs) cs inner i)
  | None => inner
  end.

Definition inst_vars (fl : flavor) : nat -> option val := fun x => lookup Nat.eqb x (f_vars fl).
(* (send (make-instance f) m [arg]) on a fresh instance: Instance.Receive *)
Definition send (st : state) (f : nat) (m : mid) (arg : option Z) : out :=
  match find_flavor st f with
  | None => ([], ROther)
  | Some fl => match lookup mid_eqb m (f_meths fl) with
               | None => ([], RNoMethod)                    (* default handler: invalid-method-error *)
               | Some tbl => let cs := map (deref (st_heap st)) tbl in
                             method_call cs (inner_call true false (inst_vars fl) arg cs)
               end
  end.
(* Instance.BoundReceive with no bindings: Method.BoundCall; a whopper continues on the unbound path *)
Definition bound_send (v : version) (st : state) (f : nat) (m : mid) : out :=
  match find_flavor st f with
  | None => ([], ROther)
  | Some fl => match lookup mid_eqb m (f_meths fl) with
               | None => ([], RNoMethod)
               | Some tbl => let cs := map (deref (st_heap st)) tbl in
                             match wrap_from cs 0 with
                             | Some (i, b) => run_wrap b (continue_whopper (length cs) cs (inner_call true false (inst_vars fl) None cs) i)
                             | None => inner_call (v_bound v) true (inst_vars fl) None cs
                             end
               end
  end.

(* ---- make-instance with init arguments: Instance.Init ------------------------------------------------------- *)
(* for each keyword/value pair in order: an inittable instance variable is set ("len(cf.initable) == 0 ||
   cf.initable[key]", then "cf.defaultVars[vkey]"); otherwise the pair goes to the plist handed to :init if the
   keyword is in cf.keywords (own or inherited :default-init-plist / :init-keywords entry); otherwise an error.
   Afterwards every cf.requiredKeywords entry must be among the keywords that went to the plist.
   The result: the assignments made, in order, and the plist; None = the error. *)
Definition initable_of (l : list nat) (k : nat) : bool := match l with [] => true | _ => existsb (Nat.eqb k) l end.
Fixpoint init_loop (isvar iskey : nat -> bool) (args : list (nat * Z)) (upds plist : list (nat * Z)) : option (list (nat * Z) * list (nat * Z)) :=
  match args with
  | [] => Some (upds, plist)
  | (k, z) :: r => if isvar k then init_loop isvar iskey r (upds ++ [(k, z)]) plist
                   else if iskey k then init_loop isvar iskey r upds (plist ++ [(k, z)])
                   else None
  end.
Definition init_gen (isvar iskey : nat -> bool) (req : list nat) (args : list (nat * Z)) : option (list (nat * Z) * list (nat * Z)) :=
  match init_loop isvar iskey args [] [] with
  | Some (u, p) => if forallb (fun k => existsb (Nat.eqb k) (map fst p)) req then Some (u, p) else None
  | None => None
  end.
Definition make_instance (st : state) (f : nat) (args : list (nat * Z)) : option (list (nat * Z) * list (nat * Z)) :=
  match find_flavor st f with
  | None => None
  | Some fl => init_gen (fun k => initable_of (f_initable fl) k && isSome (lookup Nat.eqb k (f_vars fl)))
                        (fun k => isSome (lookup Nat.eqb k (f_keys fl))) (f_required fl) args
  end.
(* the value of variable v in the new instance: the last assignment, else the default *)
Definition last_upd (v : nat) (upds : list (nat * Z)) : option Z :=
  fold_left (fun acc kz => if fst kz =? v then Some (snd kz) else acc) upds None.
Definition inst_value (dflt : option val) (v : nat) (upds : list (nat * Z)) : option val :=
  match last_upd v upds with Some z => match dflt with Some _ => Some (Some z) | None => None end | None => dflt end.

(* the table of a flavor for a message as the harness reads it from Flavor.Simplify():
   per combination its flavor and which daemons it has *)
Definition shape := (nat * (bool * bool * bool * bool))%type.     (* from, (whopper, before, primary, after) *)
Definition shape_of (c : combo) : shape := (c_from c, (isSome (c_wrap c), isSome (c_bef c), isSome (c_prim c), isSome (c_aft c))).
Definition table (st : state) (f : nat) (m : mid) : list combo :=
  match find_flavor st f with Some fl => map (deref (st_heap st)) (tbl_of fl m) | None => [] end.
