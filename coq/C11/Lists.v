(* C11 — list facts used by the proofs: duplicate-free accumulation (adds / nub), firstsome, filter_map,
   association lists. *)
From C11 Require Import Model Spec.

(* ---- mem / add / adds / nub ------------------------------------------------------------------------------ *)
Lemma mem_In : forall x l, mem x l = true <-> In x l.
Proof.
  unfold mem. intros x l. rewrite existsb_exists. split.
  - intros [y [Hy He]]. apply Nat.eqb_eq in He. subst. exact Hy.
  - intros H. exists x. split; [exact H | apply Nat.eqb_refl].
Qed.
Lemma mem_false : forall x l, mem x l = false <-> ~ In x l.
Proof. intros x l. rewrite <- mem_In. destruct (mem x l); split; congruence. Qed.

Lemma in_add : forall l x y, In y (add l x) <-> In y l \/ y = x.
Proof.
  intros l x y. unfold add. destruct (mem x l) eqn:E.
  - apply mem_In in E. split; [auto | intros [H | H]; subst; auto].
  - rewrite in_app_iff. simpl. intuition.
Qed.
Lemma in_adds : forall X l y, In y (adds l X) <-> In y l \/ In y X.
Proof.
  unfold adds. induction X as [| x X IH]; intros l y; simpl.
  - intuition.
  - rewrite IH, in_add. intuition.
Qed.
Lemma NoDup_snoc : forall (l : list nat) x, NoDup l -> ~ In x l -> NoDup (l ++ [x]).
Proof.
  induction l as [| y l IH]; intros x Hn Hx; simpl.
  - constructor; [intros [] | constructor].
  - inversion Hn; subst. constructor.
    + rewrite in_app_iff. simpl. intros [H | [H | []]]; [auto | subst; apply Hx; left; reflexivity].
    + apply IH; [assumption | intros H; apply Hx; right; exact H].
Qed.
Lemma nodup_add : forall l x, NoDup l -> NoDup (add l x).
Proof.
  intros l x H. unfold add. destruct (mem x l) eqn:E; [exact H |].
  apply mem_false in E. apply NoDup_snoc; assumption.
Qed.
Lemma nodup_adds : forall X l, NoDup l -> NoDup (adds l X).
Proof. unfold adds. induction X as [| x X IH]; intros l H; simpl; [exact H | apply IH, nodup_add, H]. Qed.
Lemma nodup_nub : forall X, NoDup (nub X).
Proof. intros X. apply nodup_adds. constructor. Qed.
Lemma in_nub : forall X y, In y (nub X) <-> In y X.
Proof. intros X y. unfold nub. rewrite in_adds. simpl. intuition. Qed.

Lemma adds_app : forall l X Y, adds l (X ++ Y) = adds (adds l X) Y.
Proof. intros. unfold adds. apply fold_left_app. Qed.
Lemma adds_cons : forall l x X, adds l (x :: X) = adds (add l x) X.
Proof. reflexivity. Qed.
Lemma adds_incl : forall X l, incl X l -> adds l X = l.
Proof.
  induction X as [| x X IH]; intros l H; [reflexivity |].
  rewrite adds_cons. unfold add. assert (Hx : mem x l = true) by (apply mem_In, H; left; reflexivity).
  rewrite Hx. apply IH. intros y Hy. apply H. right. exact Hy.
Qed.
(* adds only appends *)
Lemma adds_prefix : forall X l, exists N, adds l X = l ++ N.
Proof.
  induction X as [| x X IH]; intros l.
  - exists []. rewrite app_nil_r. reflexivity.
  - rewrite adds_cons. destruct (IH (add l x)) as [N HN]. rewrite HN. unfold add. destruct (mem x l).
    + exists N. reflexivity.
    + exists (x :: N). rewrite <- app_assoc. reflexivity.
Qed.
Lemma adds_nodup_app : forall X l, NoDup (l ++ X) -> adds l X = l ++ X.
Proof.
  induction X as [| x X IH]; intros l H.
  - rewrite app_nil_r. reflexivity.
  - rewrite adds_cons. unfold add.
    assert (Hx : mem x l = false).
    { apply mem_false. intros Hin. apply NoDup_remove_2 in H. apply H. rewrite in_app_iff. left. exact Hin. }
    rewrite Hx. rewrite IH; rewrite <- app_assoc; simpl; [reflexivity | exact H].
Qed.
Lemma nub_nodup : forall X, NoDup X -> nub X = X.
Proof. intros X H. unfold nub. rewrite adds_nodup_app; [reflexivity | exact H]. Qed.

(* an element already present can be dropped from what is added *)
Lemma adds_snoc : forall X l x, adds l (X ++ [x]) = add (adds l X) x.
Proof. intros. rewrite adds_app. reflexivity. Qed.
Lemma adds_nub : forall X l, adds l X = adds l (nub X).
Proof.
  induction X as [| x X IH] using rev_ind; intros l; [reflexivity |].
  unfold nub. rewrite !adds_snoc. fold (nub X). unfold add at 2.
  destruct (mem x (nub X)) eqn:E.
  - rewrite <- IH. unfold add. assert (Hx : mem x (adds l X) = true).
    { apply mem_In, in_adds. right. apply mem_In in E. apply -> in_nub in E. exact E. }
    rewrite Hx. reflexivity.
  - rewrite adds_snoc, <- IH. reflexivity.
Qed.
Lemma nub_idem : forall X, nub (nub X) = nub X.
Proof. intros X. apply nub_nodup, nodup_nub. Qed.
(* nub (flat_map g (nub X)) = nub (flat_map g X) *)
Lemma nub_snoc : forall X x, nub (X ++ [x]) = add (nub X) x.
Proof. intros. unfold nub. apply adds_snoc. Qed.
Lemma nub_app : forall X Y, nub (X ++ Y) = adds (nub X) Y.
Proof. intros. unfold nub. apply adds_app. Qed.
Lemma flat_map_snoc : forall {A B} (g : A -> list B) X x, flat_map g (X ++ [x]) = flat_map g X ++ g x.
Proof. intros. rewrite flat_map_app. simpl. rewrite app_nil_r. reflexivity. Qed.
Lemma nub_flat_map_nub : forall (g : nat -> list nat) X, nub (flat_map g (nub X)) = nub (flat_map g X).
Proof.
  intros g X. induction X as [| x X IH] using rev_ind; [reflexivity |].
  rewrite nub_snoc, (flat_map_snoc g X x), nub_app. unfold add.
  destruct (mem x (nub X)) eqn:E.
  - rewrite IH. symmetry. apply adds_incl. intros y Hy. apply in_nub. apply in_flat_map. exists x. split; [| exact Hy].
    apply mem_In in E. apply -> in_nub in E. exact E.
  - rewrite flat_map_snoc, nub_app, IH. reflexivity.
Qed.
Lemma adds_flat_map_ext : forall (g g' : nat -> list nat) cs l,
  (forall c, In c cs -> nub (g c) = nub (g' c)) -> adds l (flat_map g cs) = adds l (flat_map g' cs).
Proof.
  induction cs as [| c cs IH]; intros l H; [reflexivity |].
  simpl. rewrite !adds_app. rewrite (adds_nub (g c)), (adds_nub (g' c)), (H c (or_introl eq_refl)).
  apply IH. intros c' Hc'. apply H. right. exact Hc'.
Qed.
Lemma flat_map_flat_map : forall {A B C} (f : A -> list B) (g : B -> list C) l,
  flat_map g (flat_map f l) = flat_map (fun x => flat_map g (f x)) l.
Proof. induction l as [| x l IH]; simpl; [reflexivity | rewrite flat_map_app, IH; reflexivity]. Qed.

(* ---- firstsome ----------------------------------------------------------------------------------------- *)
Lemma firstsome_app : forall {A B} (phi : A -> option B) l r,
  firstsome phi (l ++ r) = match firstsome phi l with Some y => Some y | None => firstsome phi r end.
Proof. induction l as [| x l IH]; intros r; simpl; [reflexivity |]. destruct (phi x); [reflexivity | apply IH]. Qed.
Lemma firstsome_none : forall {A B} (phi : A -> option B) l, firstsome phi l = None <-> forall x, In x l -> phi x = None.
Proof.
  induction l as [| x l IH]; simpl.
  - split; [intros _ y [] | reflexivity].
  - destruct (phi x) eqn:E.
    + split; [discriminate | intros H; rewrite <- E; apply H; left; reflexivity].
    + rewrite IH. split; [intros H y [Hy | Hy]; subst; auto | intros H y Hy; apply H; right; exact Hy].
Qed.
Lemma firstsome_drop : forall {B} (phi : nat -> option B) l x r, In x l -> firstsome phi (l ++ x :: r) = firstsome phi (l ++ r).
Proof.
  intros B phi l x r H. rewrite !firstsome_app. destruct (firstsome phi l) eqn:E; [reflexivity |].
  simpl. rewrite (proj1 (firstsome_none phi l) E x H). reflexivity.
Qed.
Lemma firstsome_adds : forall {B} (phi : nat -> option B) X l, firstsome phi (adds l X) = firstsome phi (l ++ X).
Proof.
  intros B phi. induction X as [| x X IH]; intros l.
  - rewrite app_nil_r. reflexivity.
  - rewrite adds_cons, IH. unfold add. destruct (mem x l) eqn:E.
    + apply mem_In in E. symmetry. apply firstsome_drop. exact E.
    + rewrite <- app_assoc. reflexivity.
Qed.
Lemma firstsome_nub : forall {B} (phi : nat -> option B) X, firstsome phi (nub X) = firstsome phi X.
Proof. intros. unfold nub. rewrite firstsome_adds. reflexivity. Qed.
Lemma firstsome_flat_map : forall {A B C} (phi : B -> option C) (g : A -> list B) l,
  firstsome phi (flat_map g l) = firstsome (fun x => firstsome phi (g x)) l.
Proof.
  induction l as [| x l IH]; simpl; [reflexivity |]. rewrite firstsome_app, IH. reflexivity.
Qed.
Lemma firstsome_ext : forall {A B} (phi psi : A -> option B) l, (forall x, In x l -> phi x = psi x) -> firstsome phi l = firstsome psi l.
Proof.
  induction l as [| x l IH]; intros H; simpl; [reflexivity |].
  rewrite (H x (or_introl eq_refl)). destruct (psi x); [reflexivity |]. apply IH. intros y Hy. apply H. right. exact Hy.
Qed.

(* ---- filter_map ------------------------------------------------------------------------------------------ *)
Lemma filter_map_app : forall {A B} (phi : A -> option B) l r, filter_map phi (l ++ r) = filter_map phi l ++ filter_map phi r.
Proof. induction l as [| x l IH]; intros r; simpl; [reflexivity |]. destruct (phi x); simpl; rewrite IH; reflexivity. Qed.
Lemma filter_map_ext : forall {A B} (phi psi : A -> option B) l, (forall x, In x l -> phi x = psi x) -> filter_map phi l = filter_map psi l.
Proof.
  induction l as [| x l IH]; intros H; simpl; [reflexivity |].
  rewrite (H x (or_introl eq_refl)). rewrite IH; [reflexivity |]. intros y Hy. apply H. right. exact Hy.
Qed.
Lemma in_filter_map : forall {A B} (phi : A -> option B) l y, In y (filter_map phi l) <-> exists x, In x l /\ phi x = Some y.
Proof.
  induction l as [| x l IH]; intros y; simpl.
  - split; [intros [] | intros [x [[] _]]].
  - destruct (phi x) eqn:E; simpl; rewrite IH; split.
    + intros [H | [z [Hz Hp]]]; [subst; exists x; auto | exists z; auto].
    + intros [z [[Hz | Hz] Hp]]; [subst; left; congruence | right; exists z; auto].
    + intros [z [Hz Hp]]. exists z. auto.
    + intros [z [[Hz | Hz] Hp]]; [subst; congruence | exists z; auto].
Qed.
Lemma filter_map_map : forall {A B C} (phi : A -> option B) (g : B -> C) l,
  map g (filter_map phi l) = filter_map (fun x => option_map g (phi x)) l.
Proof. induction l as [| x l IH]; simpl; [reflexivity |]. destruct (phi x); simpl; rewrite IH; reflexivity. Qed.
Lemma filter_map_flat_map : forall {A B C} (phi : B -> option C) (g : A -> list B) l,
  filter_map phi (flat_map g l) = flat_map (fun x => filter_map phi (g x)) l.
Proof. induction l as [| x l IH]; simpl; [reflexivity |]. rewrite filter_map_app, IH. reflexivity. Qed.
Lemma filter_map_none : forall {A B} (phi : A -> option B) l, (forall x, In x l -> phi x = None) -> filter_map phi l = [].
Proof.
  induction l as [| x l IH]; intros H; simpl; [reflexivity |]. rewrite (H x (or_introl eq_refl)). apply IH.
  intros y Hy. apply H. right. exact Hy.
Qed.

(* ---- association lists ------------------------------------------------------------------------------------ *)
Section AssocFacts.
  Context {K V : Type} (eqb : K -> K -> bool).
  Hypothesis eqb_spec : forall a b, eqb a b = true <-> a = b.
  Lemma eqb_refl' : forall a, eqb a a = true. Proof. intros a. apply eqb_spec. reflexivity. Qed.
  Lemma eqb_neq : forall a b, a <> b -> eqb a b = false.
  Proof. intros a b H. destruct (eqb a b) eqn:E; [apply eqb_spec in E; contradiction | reflexivity]. Qed.
  Lemma lookup_aset_same : forall (l : list (K * V)) k v, lookup eqb k (aset eqb k v l) = Some v.
  Proof.
    induction l as [| [k' v'] l IH]; intros k v; simpl.
    - rewrite eqb_refl'. reflexivity.
    - destruct (eqb k k') eqn:E; simpl; [rewrite eqb_refl'; reflexivity | rewrite E; apply IH].
  Qed.
  Lemma lookup_aset_other : forall (l : list (K * V)) k k' v, k' <> k -> lookup eqb k' (aset eqb k v l) = lookup eqb k' l.
  Proof.
    induction l as [| [k0 v0] l IH]; intros k k' v H; simpl.
    - rewrite (eqb_neq k' k H). reflexivity.
    - destruct (eqb k k0) eqn:E; simpl.
      + apply eqb_spec in E. subst k0. rewrite (eqb_neq k' k H). reflexivity.
      + destruct (eqb k' k0); [reflexivity | apply IH; exact H].
  Qed.
  Lemma lookup_aset : forall (l : list (K * V)) k k' v,
    lookup eqb k' (aset eqb k v l) = if eqb k' k then Some v else lookup eqb k' l.
  Proof.
    intros l k k' v. destruct (eqb k' k) eqn:E.
    - apply eqb_spec in E. subst. apply lookup_aset_same.
    - apply lookup_aset_other. intros H. subst. rewrite eqb_refl' in E. discriminate.
  Qed.
  Lemma aset_keys : forall (l : list (K * V)) k v x, In x (map fst (aset eqb k v l)) <-> x = k \/ In x (map fst l).
  Proof.
    induction l as [| [k0 v0] l IH]; intros k v x; simpl.
    - intuition.
    - destruct (eqb k k0) eqn:E; simpl.
      + apply eqb_spec in E. subst. intuition.
      + rewrite IH. intuition.
  Qed.
  Lemma aset_nodup : forall (l : list (K * V)) k v, NoDup (map fst l) -> NoDup (map fst (aset eqb k v l)).
  Proof.
    induction l as [| [k0 v0] l IH]; intros k v H; simpl.
    - constructor; [intros [] | constructor].
    - inversion H; subst. destruct (eqb k k0) eqn:E; simpl.
      + apply eqb_spec in E. subst. constructor; assumption.
      + constructor; [| apply IH; assumption]. rewrite aset_keys. intros [Hx | Hx]; [| contradiction].
        subst. rewrite eqb_refl' in E. discriminate.
  Qed.
  Lemma lookup_app : forall (l r : list (K * V)) k,
    lookup eqb k (l ++ r) = match lookup eqb k l with Some v => Some v | None => lookup eqb k r end.
  Proof. induction l as [| [k0 v0] l IH]; intros r k; simpl; [reflexivity |]. destruct (eqb k k0); [reflexivity | apply IH]. Qed.
  Lemma lookup_in_keys : forall (l : list (K * V)) k, lookup eqb k l <> None <-> In k (map fst l).
  Proof.
    induction l as [| [k0 v0] l IH]; intros k; simpl.
    - split; [congruence | intros []].
    - destruct (eqb k k0) eqn:E.
      + apply eqb_spec in E. subst. split; [auto | congruence].
      + rewrite IH. split; [auto | intros [H | H]; [subst; rewrite eqb_refl' in E; discriminate | exact H]].
  Qed.
  (* "insert if absent" *)
  Lemma lookup_merge_absent : forall (src dst : list (K * V)) k,
    lookup eqb k (merge_absent eqb dst src) = match lookup eqb k dst with Some v => Some v | None => lookup eqb k src end.
  Proof.
    unfold merge_absent. induction src as [| [k0 v0] src IH]; intros dst k; simpl.
    - destruct (lookup eqb k dst); reflexivity.
    - rewrite IH. destruct (lookup eqb k0 dst) eqn:E0.
      + destruct (lookup eqb k dst) eqn:E; [reflexivity |]. destruct (eqb k k0) eqn:Ek; [| reflexivity].
        apply eqb_spec in Ek. subst. congruence.
      + rewrite lookup_app. simpl. destruct (lookup eqb k dst); [reflexivity |]. destruct (eqb k k0); reflexivity.
  Qed.
  Lemma lookup_set_all : forall (src dst : list (K * V)) k,
    lookup eqb k (set_all eqb dst src) = match lookup eqb k (set_all eqb [] src) with Some v => Some v | None => lookup eqb k dst end.
  Proof.
    unfold set_all. induction src as [| [k0 v0] src IH] using rev_ind; intros dst k; simpl.
    - reflexivity.
    - rewrite !fold_left_app. simpl. rewrite !lookup_aset. destruct (eqb k k0); [reflexivity | apply IH].
  Qed.
End AssocFacts.

Lemma mid_eqb_spec : forall a b, mid_eqb a b = true <-> a = b.
Proof.
  intros [x | x | x] [y | y | y]; simpl; try (split; [discriminate | congruence]);
    rewrite Nat.eqb_eq; split; congruence.
Qed.
Lemma fm_eqb_spec : forall a b, fm_eqb a b = true <-> a = b.
Proof.
  intros [g m] [g' m']. unfold fm_eqb. simpl. rewrite andb_true_iff, Nat.eqb_eq, mid_eqb_spec. split; [intros [? ?]; subst; reflexivity | intros H; inversion H; auto].
Qed.
Lemma nat_eqb_spec : forall a b, Nat.eqb a b = true <-> a = b.
Proof. exact Nat.eqb_eq. Qed.
