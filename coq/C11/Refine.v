(* C11 — refinement: every admissible form keeps the model state (flavor records + heap of shared
   combinations) in the relation Inv with the specification state (the recorded forms); Inv makes every
   observation of the model equal to the specification's. *)
From C11 Require Import Model Spec Lists SpecFacts.

(* ---- flavors, heap ---------------------------------------------------------------------------------------- *)
Lemma find_flavor_some : forall st g fl, find_flavor st g = Some fl -> In fl (st_flavors st) /\ f_name fl = g.
Proof.
  intros st g fl H. unfold find_flavor in H. apply find_some in H. destruct H as [H1 H2]. apply Nat.eqb_eq in H2. auto.
Qed.
Lemma find_in_nodup : forall (fls : list flavor) fl, NoDup (map f_name fls) -> In fl fls ->
  find (fun x => f_name x =? f_name fl) fls = Some fl.
Proof.
  induction fls as [| x fls IH]; intros fl N H; [contradiction |]. simpl in *. inversion N; subst.
  destruct H as [H | H].
  - subst. rewrite Nat.eqb_refl. reflexivity.
  - destruct (f_name x =? f_name fl) eqn:E; [| apply IH; assumption].
    apply Nat.eqb_eq in E. exfalso. apply H2. rewrite E. apply in_map. exact H.
Qed.
Lemma find_flavor_in : forall st fl, NoDup (map f_name (st_flavors st)) -> In fl (st_flavors st) -> find_flavor st (f_name fl) = Some fl.
Proof. intros. unfold find_flavor. apply find_in_nodup; assumption. Qed.
Lemma find_flavor_none : forall st g, find_flavor st g = None <-> ~ In g (map f_name (st_flavors st)).
Proof.
  intros st g. unfold find_flavor. split.
  - intros H Hin. apply in_map_iff in Hin. destruct Hin as [fl [Hn Hin]].
    apply (find_none _ _ H) in Hin. rewrite Hn, Nat.eqb_refl in Hin. discriminate.
  - intros H. destruct (find _ _) eqn:E; [| reflexivity]. apply find_some in E. destruct E as [E1 E2].
    apply Nat.eqb_eq in E2. exfalso. apply H. rewrite <- E2. apply in_map. exact E1.
Qed.
Lemma find_app_fresh : forall (fls : list flavor) nf g, g <> f_name nf ->
  find (fun x => f_name x =? g) (fls ++ [nf]) = find (fun x => f_name x =? g) fls.
Proof.
  induction fls as [| x fls IH]; intros nf g H; simpl.
  - destruct (f_name nf =? g) eqn:E; [apply Nat.eqb_eq in E; congruence | reflexivity].
  - destruct (f_name x =? g); [reflexivity | apply IH; exact H].
Qed.
Lemma find_app_new : forall (fls : list flavor) nf, ~ In (f_name nf) (map f_name fls) ->
  find (fun x => f_name x =? f_name nf) (fls ++ [nf]) = Some nf.
Proof.
  induction fls as [| x fls IH]; intros nf H; simpl.
  - rewrite Nat.eqb_refl. reflexivity.
  - simpl in H. destruct (f_name x =? f_name nf) eqn:E.
    + apply Nat.eqb_eq in E. exfalso. apply H. left. exact E.
    + apply IH. intros Hin. apply H. right. exact Hin.
Qed.

Lemma deref_app_old : forall h x a, a < length h -> deref (h ++ x) a = deref h a.
Proof. intros. unfold deref. apply app_nth1. assumption. Qed.
Lemma deref_app_new : forall h c, deref (h ++ [c]) (length h) = c.
Proof. intros. unfold deref. rewrite app_nth2 by lia. rewrite Nat.sub_diag. reflexivity. Qed.
Lemma upd_length : forall {A} (l : list A) n x, length (upd l n x) = length l.
Proof. induction l as [| y l IH]; intros [| n] x; simpl; auto. Qed.
Lemma deref_upd_same : forall h a c, a < length h -> deref (upd h a c) a = c.
Proof.
  unfold deref. induction h as [| y h IH]; intros [| a] c H; simpl in *; try lia; [reflexivity |]. apply IH. lia.
Qed.
Lemma deref_upd_other : forall h a b c, a <> b -> deref (upd h a c) b = deref h b.
Proof.
  unfold deref. induction h as [| y h IH]; intros [| a] [| b] c H; simpl; try reflexivity; try congruence.
  apply IH. congruence.
Qed.
Lemma set_slot_from : forall d b c, c_from (set_slot d b c) = c_from c.
Proof. intros [] b c; reflexivity. Qed.

Definition tblm (ms : list (mid * list nat)) (m : mid) : list nat :=
  match lookup mid_eqb m ms with Some l => l | None => [] end.
Lemma tbl_of_tblm : forall fl m, tbl_of fl m = tblm (f_meths fl) m.
Proof. reflexivity. Qed.
Lemma tblm_aset : forall ms k l m, tblm (aset mid_eqb k l ms) m = if mid_eqb m k then l else tblm ms m.
Proof. intros. unfold tblm. rewrite (lookup_aset mid_eqb mid_eqb_spec). destruct (mid_eqb m k); reflexivity. Qed.
Definition noempty (ms : list (mid * list nat)) : Prop := forall m, lookup mid_eqb m ms <> Some [].
Lemma noempty_aset : forall ms k l, noempty ms -> l <> [] -> noempty (aset mid_eqb k l ms).
Proof.
  intros ms k l H Hl m. rewrite (lookup_aset mid_eqb mid_eqb_spec). destruct (mid_eqb m k); [congruence | apply H].
Qed.
Lemma mid_eqb_refl : forall m, mid_eqb m m = true.
Proof. intros. apply mid_eqb_spec. reflexivity. Qed.
Lemma mid_eqb_neq : forall a b, a <> b -> mid_eqb a b = false.
Proof. intros a b H. destruct (mid_eqb a b) eqn:E; [apply mid_eqb_spec in E; contradiction | reflexivity]. Qed.

(* ---- insertMethod (repaired): the position search is a merge along the inherit list ---------------------- *)
Section Insert.
  Variable h : list combo.
  Variable A : nat -> option nat.            (* flavor -> address of its combination for the message *)
  Variable g a : nat.
  Hypothesis A_from : forall y b, A y = Some b -> c_from (deref h b) = y.
  Hypothesis A_g : A g = None.
  Definition A' (y : nat) : option nat := if y =? g then Some a else A y.

  Lemma fm_only_g : forall inh, NoDup inh -> In g inh -> (forall y, In y inh -> A y = None) -> filter_map A' inh = [a].
  Proof.
    induction inh as [| f inh IH]; intros N Hg Hn; [contradiction |]. inversion N; subst. simpl. unfold A' at 1.
    destruct (f =? g) eqn:E.
    - apply Nat.eqb_eq in E. subst f. f_equal. apply filter_map_none. intros y Hy. unfold A'.
      destruct (y =? g) eqn:E; [apply Nat.eqb_eq in E; subst; contradiction |]. apply Hn. right. exact Hy.
    - rewrite (Hn f (or_introl eq_refl)). apply IH; [assumption | | intros y Hy; apply Hn; right; exact Hy].
      destruct Hg as [Hg | Hg]; [subst; rewrite Nat.eqb_refl in E; discriminate | exact Hg].
  Qed.
  Lemma fm_A'_notin : forall inh, ~ In g inh -> filter_map A' inh = filter_map A inh.
  Proof.
    intros inh H. apply filter_map_ext. intros y Hy. unfold A'. destruct (y =? g) eqn:E; [| reflexivity].
    apply Nat.eqb_eq in E. subst. contradiction.
  Qed.
  Lemma skipn_nth : forall (l : list nat) n, n < length l -> skipn n l = nth n l 0 :: skipn (S n) l.
  Proof.
    induction l as [| x l IH]; intros [| n] H; simpl in *; try lia; [reflexivity |]. apply IH. lia.
  Qed.
  Lemma firstn_S_nth : forall (l : list nat) n, n < length l -> firstn (S n) l = firstn n l ++ [nth n l 0].
  Proof.
    induction l as [| x l IH]; intros [| n] H; simpl in *; try lia; [reflexivity |]. f_equal. apply IH. lia.
  Qed.
  Lemma ins_pos_merge : forall inh tbl pos, NoDup inh -> In g inh -> skipn pos tbl = filter_map A inh ->
    let p := ins_pos true h tbl pos inh g in
    firstn p tbl ++ a :: skipn p tbl = firstn pos tbl ++ filter_map A' inh.
  Proof.
    induction inh as [| f inh IH]; intros tbl pos N Hg Hs; [contradiction |]. inversion N as [| ? ? Hnf Hnd]; subst. cbn [ins_pos].
    destruct (length tbl <=? pos) eqn:El; cbn [orb].
    - apply Nat.leb_le in El. rewrite skipn_all2 in Hs by exact El. rewrite skipn_all2 by exact El.
      f_equal. symmetry. apply fm_only_g; [exact N | exact Hg |].
      intros y Hy. destruct (A y) eqn:Ey; [| reflexivity]. exfalso.
      assert (Hin : In n (filter_map A (f :: inh))) by (apply in_filter_map; exists y; auto). rewrite <- Hs in Hin. exact Hin.
    - apply Nat.leb_gt in El. destruct (f =? g) eqn:Efg.
      + apply Nat.eqb_eq in Efg. subst f. cbn zeta. f_equal. rewrite Hs. simpl. rewrite A_g. unfold A' at 1. rewrite Nat.eqb_refl.
        f_equal. symmetry. apply fm_A'_notin. assumption.
      + assert (Hg' : In g inh) by (destruct Hg as [Hg | Hg]; [subst; rewrite Nat.eqb_refl in Efg; discriminate | exact Hg]).
        rewrite (skipn_nth tbl pos El) in Hs. simpl in Hs. simpl filter_map. unfold A' at 1. rewrite Efg.
        destruct (c_from (deref h (nth pos tbl 0)) =? f) eqn:Ef.
        * apply Nat.eqb_eq in Ef. destruct (A f) as [af |] eqn:EA.
          -- inversion Hs as [[H1 H2']]. cbn zeta. rewrite (IH tbl (S pos) Hnd Hg' H2'). rewrite firstn_S_nth by exact El.
             rewrite <- app_assoc. reflexivity.
          -- exfalso. assert (Hin : In (nth pos tbl 0) (filter_map A inh)) by (rewrite <- Hs; left; reflexivity).
             apply in_filter_map in Hin. destruct Hin as [y [Hy HA]]. apply A_from in HA. rewrite Ef in HA. subst y. contradiction.
        * destruct (A f) as [af |] eqn:EA.
          -- exfalso. inversion Hs as [[H1 H2']]. apply A_from in EA. rewrite <- H1 in EA. rewrite EA, Nat.eqb_refl in Ef. discriminate.
          -- cbn zeta. apply IH; [assumption | assumption |]. rewrite (skipn_nth tbl pos El). exact Hs.
  Qed.
End Insert.

(* ---- the invariant ----------------------------------------------------------------------------------------- *)
(* A g m is the address of the one Combination object of flavor g for message m *)
Record InvA (st : state) (ss : sstate) (A : nat -> mid -> option nat) : Prop := {
  i_wfd : wfd (ss_decls ss);
  i_names : NoDup (map f_name (st_flavors st));
  i_dom : forall f, In f (map f_name (st_flavors st)) <-> f = vanilla \/ defined (ss_decls ss) f = true;
  i_van : forall fl, In fl (st_flavors st) -> f_name fl = vanilla ->
     f_inherit fl = [] /\ f_vars fl = [] /\ f_keys fl = [] /\ f_initable fl = [] /\ f_required fl = [];
  i_user : forall fl, In fl (st_flavors st) -> f_name fl <> vanilla ->
     f_inherit fl = tl (prec (ss_decls ss) (f_name fl)) ++ [vanilla] /\ f_prec fl = f_name fl :: f_inherit fl /\
     (forall v, lookup Nat.eqb v (f_vars fl) = s_var (ss_decls ss) (f_name fl) v) /\
     (forall k, lookup Nat.eqb k (f_keys fl) = s_key (ss_decls ss) (f_name fl) k);
  i_io : forall fl, In fl (st_flavors st) -> f_name fl <> vanilla ->
     (forall v, In v (f_initable fl) <-> In v (s_initable_all (ss_decls ss) (f_name fl))) /\
     (forall k, In k (f_required fl) <-> In k (s_required_inh (ss_decls ss) (f_name fl)));
  i_keys : forall fl, In fl (st_flavors st) -> NoDup (map fst (f_meths fl)) /\ noempty (f_meths fl);
  i_tbl : forall fl m, In fl (st_flavors st) -> tbl_of fl m = filter_map (fun g => A g m) (f_name fl :: f_inherit fl);
  i_slot : forall g m, match s_slot ss g m with
                       | Some c => exists a, A g m = Some a /\ a < length (st_heap st) /\ deref (st_heap st) a = c
                       | None => A g m = None
                       end;
  i_inj : forall g m g' m' a, A g m = Some a -> A g' m' = Some a -> g = g' /\ m = m';
  i_from : forall g m c, s_slot ss g m = Some c -> c_from c = g;
  i_sdef : forall g m c, s_slot ss g m = Some c -> g = vanilla \/ defined (ss_decls ss) g = true
}.
Definition Inv (st : state) (ss : sstate) : Prop := exists A, InvA st ss A.

Section InvFacts.
  Variables (st : state) (ss : sstate) (A : nat -> mid -> option nat).
  Hypothesis I : InvA st ss A.
  Let ds := ss_decls ss.

  Lemma A_valid : forall g m a, A g m = Some a -> a < length (st_heap st) /\ c_from (deref (st_heap st) a) = g /\ s_slot ss g m = Some (deref (st_heap st) a).
  Proof.
    intros g m a H. assert (S := i_slot _ _ _ I g m). destruct (s_slot ss g m) as [c |] eqn:E; [| congruence].
    destruct S as (a' & H1 & H2 & H3). rewrite H in H1. inversion H1; subst a'. subst c.
    split; [exact H2 | split; [| reflexivity]]. apply (i_from _ _ _ I g m _ E).
  Qed.
  Lemma A_defined : forall g m a, A g m = Some a -> g = vanilla \/ defined ds g = true.
  Proof. intros g m a H. destruct (A_valid g m a H) as (_ & _ & S). apply (i_sdef _ _ _ I g m _ S). Qed.
  Lemma inherit_nodup : forall fl, In fl (st_flavors st) -> NoDup (f_name fl :: f_inherit fl).
  Proof.
    intros fl H. destruct (Nat.eq_dec (f_name fl) vanilla) as [E | E].
    - rewrite (proj1 (i_van _ _ _ I fl H E)). constructor; [intros [] | constructor].
    - destruct (i_user _ _ _ I fl H E) as (Hi & _). rewrite Hi.
      assert (Hd : defined ds (f_name fl) = true).
      { assert (Hin : In (f_name fl) (map f_name (st_flavors st))) by (apply in_map; exact H).
        apply (i_dom _ _ _ I) in Hin. destruct Hin; [contradiction | assumption]. }
      assert (W := i_wfd _ _ _ I). assert (N := prec_nodup ds W (f_name fl)). rewrite (prec_head ds W _ Hd) in N.
      inversion N as [| ? ? N1 N2]; subst. constructor.
      + rewrite in_app_iff. simpl. intros [Hx | [Hx | []]]; [contradiction | congruence].
      + apply NoDup_snoc; [exact N2 |]. intros Hv. apply (defined_not_vanilla ds vanilla W); [| reflexivity].
        apply (prec_defined ds W (f_name fl)). rewrite (prec_head ds W _ Hd). right. exact Hv.
  Qed.
  (* the test DefClassMethod makes ("the combination of this class is the first on the list") finds A *)
  Lemma own_head : forall fl m, In fl (st_flavors st) ->
    match tbl_of fl m with
    | a :: _ => if c_from (deref (st_heap st) a) =? f_name fl then Some a else None
    | [] => None
    end = A (f_name fl) m.
  Proof.
    intros fl m H. rewrite (i_tbl _ _ _ I fl m H). simpl. destruct (A (f_name fl) m) as [a |] eqn:E.
    - destruct (A_valid _ _ _ E) as (_ & Hf & _). rewrite Hf, Nat.eqb_refl. reflexivity.
    - destruct (filter_map (fun g => A g m) (f_inherit fl)) as [| a r] eqn:Er; [reflexivity |].
      assert (Hin : In a (filter_map (fun g => A g m) (f_inherit fl))) by (rewrite Er; left; reflexivity).
      apply in_filter_map in Hin. destruct Hin as [y [Hy HA]]. destruct (A_valid _ _ _ HA) as (_ & Hf & _). rewrite Hf.
      destruct (y =? f_name fl) eqn:Ey; [| reflexivity]. apply Nat.eqb_eq in Ey. exfalso.
      assert (N := inherit_nodup fl H). inversion N as [| ? ? N1 N2]. apply N1. rewrite <- Ey. exact Hy.
  Qed.
  Lemma tbl_valid : forall fl m a, In fl (st_flavors st) -> In a (tbl_of fl m) -> a < length (st_heap st).
  Proof.
    intros fl m a H Ha. rewrite (i_tbl _ _ _ I fl m H) in Ha. apply in_filter_map in Ha. destruct Ha as [y [_ HA]].
    apply (A_valid _ _ _ HA).
  Qed.
  Lemma user_defined : forall fl, In fl (st_flavors st) -> f_name fl <> vanilla -> defined ds (f_name fl) = true.
  Proof.
    intros fl H E. assert (Hin : In (f_name fl) (map f_name (st_flavors st))) by (apply in_map; exact H).
    apply (i_dom _ _ _ I) in Hin. destruct Hin; [contradiction | assumption].
  Qed.
  Lemma defined_found : forall g, defined ds g = true -> exists fl, find_flavor st g = Some fl /\ In fl (st_flavors st) /\ f_name fl = g.
  Proof.
    intros g H. assert (Hin : In g (map f_name (st_flavors st))) by (apply (i_dom _ _ _ I); right; exact H).
    destruct (find_flavor st g) as [fl |] eqn:E.
    - exists fl. destruct (find_flavor_some _ _ _ E). auto.
    - apply find_flavor_none in E. contradiction.
  Qed.
End InvFacts.

(* ---- defmethod / defwhopper ---------------------------------------------------------------------------------- *)
Lemma s_slot_set : forall ss g m d b g' m',
  s_slot (s_set_slot ss g m d b) g' m' =
  if fm_eqb (g', m') (g, m) then Some (set_slot d b (match s_slot ss g m with Some c => c | None => empty_combo g end))
  else s_slot ss g' m'.
Proof. intros. unfold s_slot, s_set_slot. simpl. apply (lookup_aset fm_eqb fm_eqb_spec). Qed.

Lemma def_own_cases : forall h fl m d b,
  def_own h fl m d b =
  match (match tbl_of fl m with a :: _ => if c_from (deref h a) =? f_name fl then Some a else None | [] => None end) with
  | Some a => (upd h a (set_slot d b (deref h a)), fl, a, false)
  | None => (h ++ [set_slot d b (empty_combo (f_name fl))],
             with_meths fl (aset mid_eqb m (length h :: tbl_of fl m) (f_meths fl)), length h, true)
  end.
Proof.
  intros. unfold def_own. destruct (tbl_of fl m) as [| a r]; [reflexivity |].
  destruct (c_from (deref h a) =? f_name fl); reflexivity.
Qed.
Lemma same_name_same : forall (fls : list flavor) x y, NoDup (map f_name fls) -> In x fls -> In y fls -> f_name x = f_name y -> x = y.
Proof.
  intros fls x y N Hx Hy E. assert (H1 := find_in_nodup fls x N Hx). assert (H2 := find_in_nodup fls y N Hy).
  rewrite E in H1. congruence.
Qed.
Lemma replace_same : forall fls fl, NoDup (map f_name fls) -> In fl fls -> replace_flavor fls fl = fls.
Proof.
  intros fls fl N H. unfold replace_flavor. rewrite <- (map_id fls) at 2. apply map_ext_in. intros x Hx.
  destruct (f_name x =? f_name fl) eqn:E; [| reflexivity]. apply Nat.eqb_eq in E. symmetry. apply (same_name_same fls x fl N Hx H E).
Qed.
Lemma mem_existsb : forall g l, existsb (Nat.eqb g) l = mem g l.
Proof. reflexivity. Qed.

(* insertMethod on one inheriting flavor *)
Lemma insert_method_spec : forall h ac g m a (B : nat -> option nat),
  (forall y b, B y = Some b -> c_from (deref h b) = y) -> B g = None ->
  NoDup (f_name ac :: f_inherit ac) -> In g (f_inherit ac) ->
  tbl_of ac m = filter_map B (f_name ac :: f_inherit ac) -> noempty (f_meths ac) ->
  let ac' := insert_method fixed h ac g m a in
  tbl_of ac' m = filter_map (A' B g a) (f_name ac :: f_inherit ac) /\
  f_meths ac' = aset mid_eqb m (tbl_of ac' m) (f_meths ac) /\ tbl_of ac' m <> [] /\
  f_name ac' = f_name ac /\ f_inherit ac' = f_inherit ac /\ f_vars ac' = f_vars ac /\ f_keys ac' = f_keys ac /\ f_prec ac' = f_prec ac.
Proof.
  intros h ac g m a B Bf Bg N Hg Ht Hne. inversion N as [| ? ? N1 N2]; subst.
  assert (Hng : f_name ac <> g) by (intros E; apply N1; rewrite E; exact Hg).
  assert (HA'n : A' B g a (f_name ac) = B (f_name ac)).
  { unfold A'. destruct (f_name ac =? g) eqn:E; [apply Nat.eqb_eq in E; contradiction | reflexivity]. }
  unfold insert_method. rewrite tbl_of_tblm in Ht. unfold tblm in Ht.
  destruct (lookup mid_eqb m (f_meths ac)) as [tbl |] eqn:El.
  - (* the flavor has a method for m *)
    cbv zeta. simpl v_insert. unfold splice.
    set (pos0 := match tbl with x :: _ => if c_from (deref h x) =? f_name ac then 1 else 0 | [] => 0 end).
    assert (Hp0 : skipn pos0 tbl = filter_map B (f_inherit ac) /\ firstn pos0 tbl = filter_map B [f_name ac]).
    { subst pos0. rewrite Ht. simpl. destruct (B (f_name ac)) as [a0 |] eqn:E0.
      - rewrite (Bf _ _ E0), Nat.eqb_refl. split; reflexivity.
      - destruct (filter_map B (f_inherit ac)) as [| x r] eqn:Er; [split; reflexivity |].
        assert (Hin : In x (filter_map B (f_inherit ac))) by (rewrite Er; left; reflexivity).
        apply in_filter_map in Hin. destruct Hin as [y [Hy HB]]. rewrite (Bf _ _ HB).
        destruct (y =? f_name ac) eqn:Ey; [apply Nat.eqb_eq in Ey; subst y; contradiction | split; reflexivity]. }
    destruct Hp0 as [Hs Hf].
    assert (M := ins_pos_merge h B g a Bf Bg (f_inherit ac) tbl pos0 N2 Hg Hs). cbv zeta in M.
    assert (Hres : tbl_of (with_meths ac (aset mid_eqb m (firstn (ins_pos true h tbl pos0 (f_inherit ac) g) tbl ++
                      a :: skipn (ins_pos true h tbl pos0 (f_inherit ac) g) tbl) (f_meths ac))) m
                   = filter_map (A' B g a) (f_name ac :: f_inherit ac)).
    { rewrite tbl_of_tblm. simpl f_meths. rewrite tblm_aset, mid_eqb_refl, M, Hf. simpl. rewrite HA'n.
      destruct (B (f_name ac)); reflexivity. }
    split; [exact Hres |]. split; [rewrite tbl_of_tblm; simpl f_meths; rewrite tblm_aset, mid_eqb_refl; reflexivity |].
    split; [rewrite Hres; simpl; rewrite HA'n; intros E; destruct (B (f_name ac)); [discriminate |]
           | repeat split].
    assert (Hin : In a (filter_map (A' B g a) (f_inherit ac))).
    { apply in_filter_map. exists g. split; [exact Hg |]. unfold A'. rewrite Nat.eqb_refl. reflexivity. }
    rewrite E in Hin. contradiction.
  - (* no method yet: Ht says every B is None *)
    assert (Hall : forall y, In y (f_name ac :: f_inherit ac) -> B y = None).
    { intros y Hy. destruct (B y) eqn:E; [| reflexivity]. exfalso.
      assert (Hin : In n (filter_map B (f_name ac :: f_inherit ac))) by (apply in_filter_map; exists y; auto).
      rewrite <- Ht in Hin. exact Hin. }
    assert (Hres : tbl_of (with_meths ac (aset mid_eqb m [a] (f_meths ac))) m = filter_map (A' B g a) (f_name ac :: f_inherit ac)).
    { rewrite tbl_of_tblm. simpl f_meths. rewrite tblm_aset, mid_eqb_refl. simpl. rewrite HA'n, (Hall _ (or_introl eq_refl)).
      symmetry. apply fm_only_g; [exact N2 | exact Hg | intros y Hy; apply Hall; right; exact Hy]. }
    split; [exact Hres |]. split; [rewrite tbl_of_tblm; simpl f_meths; rewrite tblm_aset, mid_eqb_refl; reflexivity |].
    split; [rewrite tbl_of_tblm; simpl f_meths; rewrite tblm_aset, mid_eqb_refl; discriminate | repeat split].
Qed.

Lemma fm_eqb_pair : forall g' m' g m, fm_eqb (g', m') (g, m) = (g' =? g) && mid_eqb m' m.
Proof. reflexivity. Qed.

Lemma step_method : forall st ss A g d m b, InvA st ss A -> g <> vanilla -> defined (ss_decls ss) g = true ->
  exists A', snd (def_method fixed st g d m b) = Ok /\ InvA (fst (def_method fixed st g d m b)) (s_set_slot ss g m d b) A'.
Proof.
  intros st ss A g d m b I Hg Hd.
  destruct (defined_found st ss A I g Hd) as (fl & Hfind & Hin & Hname).
  unfold def_method. rewrite Hfind, def_own_cases, (own_head st ss A I fl m Hin), Hname.
  destruct (A g m) as [a |] eqn:EA.
  - (* the flavor has a combination for m already: the daemon is stored in it *)
    cbn [fst snd]. rewrite (replace_same _ _ (i_names _ _ _ I) Hin). exists A. split; [reflexivity |].
    destruct (A_valid st ss A I g m a EA) as (Ha & Hfa & Hsa).
    constructor; cbn [st_flavors st_heap s_set_slot ss_decls].
    + apply (i_wfd _ _ _ I).
    + apply (i_names _ _ _ I).
    + apply (i_dom _ _ _ I).
    + apply (i_van _ _ _ I).
    + apply (i_user _ _ _ I).
    + apply (i_io _ _ _ I).
    + apply (i_keys _ _ _ I).
    + apply (i_tbl _ _ _ I).
    + intros g' m'. fold (s_set_slot ss g m d b). rewrite s_slot_set, Hsa.
      destruct (fm_eqb (g', m') (g, m)) eqn:E.
      * apply fm_eqb_spec in E. inversion E; subst g' m'. exists a. rewrite upd_length. repeat split; [exact EA | exact Ha |].
        apply deref_upd_same. exact Ha.
      * assert (S := i_slot _ _ _ I g' m'). destruct (s_slot ss g' m') as [c |]; [| exact S].
        destruct S as (a' & H1 & H2 & H3). exists a'. rewrite upd_length. repeat split; [exact H1 | exact H2 |].
        rewrite deref_upd_other; [exact H3 |]. intros Eq. subst a'.
        destruct (i_inj _ _ _ I _ _ _ _ _ EA H1) as [E1 E2]. subst. rewrite (proj2 (fm_eqb_spec _ _) eq_refl) in E. discriminate.
    + apply (i_inj _ _ _ I).
    + intros g' m' c. fold (s_set_slot ss g m d b). rewrite s_slot_set, Hsa. destruct (fm_eqb (g', m') (g, m)) eqn:E.
      * apply fm_eqb_spec in E. inversion E; subst. intros H. inversion H. rewrite set_slot_from. exact Hfa.
      * apply (i_from _ _ _ I).
    + intros g' m' c. fold (s_set_slot ss g m d b). rewrite s_slot_set. destruct (fm_eqb (g', m') (g, m)) eqn:E.
      * apply fm_eqb_spec in E. inversion E; subst. intros _. right. exact Hd.
      * apply (i_sdef _ _ _ I).
  - (* a new combination: in front of the flavor's own list, and inserted into every inheriting flavor *)
    set (a := length (st_heap st)). set (c0 := set_slot d b (empty_combo g)). set (h1 := st_heap st ++ [c0]).
    set (fl1 := with_meths fl (aset mid_eqb m (a :: tbl_of fl m) (f_meths fl))).
    cbn [fst snd]. set (A1 := fun y m' => if (y =? g) && mid_eqb m' m then Some a else A y m').
    exists A1. split; [reflexivity |].
    assert (Hs0 : s_slot ss g m = None).
    { assert (S := i_slot _ _ _ I g m). destruct (s_slot ss g m); [| reflexivity]. destruct S as (a' & H1 & _). congruence. }
    assert (Hh1 : forall x, x < length (st_heap st) -> deref h1 x = deref (st_heap st) x) by (intros; apply deref_app_old; assumption).
    assert (Hnew : deref h1 a = c0) by apply deref_app_new.
    set (G := fun x : flavor => (fun ac => if existsb (Nat.eqb g) (f_inherit ac) then insert_method fixed h1 ac g m a else ac)
                                 (if f_name x =? f_name fl1 then fl1 else x)).
    assert (Hfls : map (fun ac => if existsb (Nat.eqb g) (f_inherit ac) then insert_method fixed h1 ac g m a else ac)
                       (replace_flavor (st_flavors st) fl1) = map G (st_flavors st)).
    { unfold replace_flavor. rewrite map_map. reflexivity. }
    rewrite Hfls. clear Hfls.
    (* what G does to a flavor of the old state *)
    assert (PG : forall x, In x (st_flavors st) ->
              f_name (G x) = f_name x /\ f_inherit (G x) = f_inherit x /\ f_vars (G x) = f_vars x /\ f_keys (G x) = f_keys x /\
              f_prec (G x) = f_prec x /\ NoDup (map fst (f_meths (G x))) /\ noempty (f_meths (G x)) /\
              forall m', tbl_of (G x) m' = filter_map (fun y => A1 y m') (f_name x :: f_inherit x)).
    { intros x Hx. assert (Nx := inherit_nodup st ss A I x Hx). destruct (i_keys _ _ _ I x Hx) as [Kx Ex].
      unfold G. change (f_name fl1) with (f_name fl). rewrite Hname. destruct (f_name x =? g) eqn:Exg.
      - (* the flavor itself *)
        apply Nat.eqb_eq in Exg. assert (x = fl) by (apply (same_name_same _ x fl (i_names _ _ _ I) Hx Hin); congruence). subst x.
        assert (Hni : existsb (Nat.eqb g) (f_inherit fl1) = false).
        { change (f_inherit fl1) with (f_inherit fl). rewrite mem_existsb. apply mem_false. inversion Nx as [| ? ? Nx1 Nx2]. rewrite <- Hname. exact Nx1. }
        rewrite Hni. repeat split; try reflexivity.
        + simpl. apply (aset_nodup mid_eqb mid_eqb_spec). exact Kx.
        + simpl. apply noempty_aset; [exact Ex | discriminate].
        + intros m'. rewrite tbl_of_tblm. simpl f_meths. rewrite tblm_aset. unfold A1. rewrite Hname.
          destruct (mid_eqb m' m) eqn:Em.
          * apply mid_eqb_spec in Em. subst m'. rewrite (i_tbl _ _ _ I fl m Hin), Hname. simpl. rewrite EA, Nat.eqb_refl. simpl. f_equal.
            apply filter_map_ext. intros y Hy. destruct (y =? g) eqn:Ey; [| reflexivity].
            apply Nat.eqb_eq in Ey. subst y. inversion Nx as [| ? ? Nx1 Nx2]. rewrite Hname in Nx1. contradiction.
          * rewrite <- tbl_of_tblm, (i_tbl _ _ _ I fl m' Hin), Hname. apply filter_map_ext. intros y Hy. rewrite andb_false_r. reflexivity.
      - rewrite mem_existsb. destruct (mem g (f_inherit x)) eqn:Eg.
        + (* an inheriting flavor *)
          apply mem_In in Eg.
          assert (Bf : forall y b0, A y m = Some b0 -> c_from (deref h1 b0) = y).
          { intros y b0 Hy. destruct (A_valid st ss A I y m b0 Hy) as (H1 & H2 & _). rewrite Hh1 by exact H1. exact H2. }
          destruct (insert_method_spec h1 x g m a (fun y => A y m) Bf EA Nx Eg (i_tbl _ _ _ I x m Hx) Ex)
            as (T1 & T2 & T3 & T4 & T5 & T6 & T7 & T8).
          repeat split; try assumption.
          * rewrite T2. apply (aset_nodup mid_eqb mid_eqb_spec). exact Kx.
          * rewrite T2. apply noempty_aset; assumption.
          * intros m'. destruct (mid_eqb m' m) eqn:Em.
            -- apply mid_eqb_spec in Em. subst m'. rewrite T1. apply filter_map_ext. intros y Hy. unfold A', A1.
               rewrite mid_eqb_refl, andb_true_r. reflexivity.
            -- rewrite tbl_of_tblm, T2, tblm_aset, Em, <- tbl_of_tblm, (i_tbl _ _ _ I x m' Hx).
               apply filter_map_ext. intros y Hy. unfold A1. rewrite Em, andb_false_r. reflexivity.
        + (* unrelated *)
          apply mem_false in Eg. repeat split; try assumption; try reflexivity.
          intros m'. rewrite (i_tbl _ _ _ I x m' Hx). apply filter_map_ext. intros y Hy. unfold A1.
          destruct (y =? g) eqn:Ey; [| reflexivity]. apply Nat.eqb_eq in Ey. subst y. destruct Hy as [Hy | Hy]; [| contradiction].
          rewrite Hy, Nat.eqb_refl in Exg. discriminate. }
    assert (PGio : forall x, In x (st_flavors st) -> f_initable (G x) = f_initable x /\ f_required (G x) = f_required x).
    { intros x Hx. unfold G. cbv beta. set (y := if f_name x =? f_name fl1 then fl1 else x).
      assert (Hy : f_initable y = f_initable x /\ f_required y = f_required x).
      { unfold y. destruct (f_name x =? f_name fl1) eqn:Exf; [| split; reflexivity]. apply Nat.eqb_eq in Exf.
        assert (x = fl) by (apply (same_name_same _ x fl (i_names _ _ _ I) Hx Hin); exact Exf). subst x. split; reflexivity. }
      destruct (existsb (Nat.eqb g) (f_inherit y)); [| exact Hy]. unfold insert_method.
      destruct (lookup mid_eqb m (f_meths y)); simpl; exact Hy. }
    assert (Hnames : map f_name (map G (st_flavors st)) = map f_name (st_flavors st)).
    { rewrite map_map. apply map_ext_in. intros x Hx. apply (PG x Hx). }
    constructor; cbn [st_flavors st_heap s_set_slot ss_decls].
    + apply (i_wfd _ _ _ I).
    + rewrite Hnames. apply (i_names _ _ _ I).
    + rewrite Hnames. apply (i_dom _ _ _ I).
    + intros x' Hx' E. apply in_map_iff in Hx'. destruct Hx' as [x [Ex Hx]]. subst x'.
      destruct (PG x Hx) as (P1 & P2 & P3 & P4 & _). destruct (PGio x Hx) as [Q1 Q2]. rewrite P2, P3, P4, Q1, Q2. apply (i_van _ _ _ I x Hx). congruence.
    + intros x' Hx' E. apply in_map_iff in Hx'. destruct Hx' as [x [Ex Hx]]. subst x'.
      destruct (PG x Hx) as (P1 & P2 & P3 & P4 & P5 & _). rewrite P1, P2, P3, P4, P5. apply (i_user _ _ _ I x Hx). congruence.
    + intros x' Hx' E. apply in_map_iff in Hx'. destruct Hx' as [x [Ex Hx]]. subst x'.
      destruct (PG x Hx) as (P1 & _). destruct (PGio x Hx) as [Q1 Q2]. rewrite P1, Q1, Q2. apply (i_io _ _ _ I x Hx). congruence.
    + intros x' Hx'. apply in_map_iff in Hx'. destruct Hx' as [x [Ex Hx]]. subst x'.
      destruct (PG x Hx) as (_ & _ & _ & _ & _ & P6 & P7 & _). split; assumption.
    + intros x' m' Hx'. apply in_map_iff in Hx'. destruct Hx' as [x [Ex Hx]]. subst x'.
      destruct (PG x Hx) as (P1 & P2 & _ & _ & _ & _ & _ & P8). rewrite P1, P2. apply P8.
    + intros g' m'. fold (s_set_slot ss g m d b). rewrite s_slot_set, Hs0, fm_eqb_pair. unfold A1.
      destruct ((g' =? g) && mid_eqb m' m) eqn:E.
      * exists a. fold h1. repeat split; [unfold h1; rewrite app_length; simpl; lia | exact Hnew].
      * assert (S := i_slot _ _ _ I g' m'). destruct (s_slot ss g' m') as [c |]; [| exact S].
        destruct S as (a' & H1 & H2 & H3). exists a'. fold h1. repeat split; [exact H1 | unfold h1; rewrite app_length; simpl; lia |].
        rewrite Hh1 by exact H2. exact H3.
    + intros y m1 y' m2 x. unfold A1. destruct ((y =? g) && mid_eqb m1 m) eqn:E1; destruct ((y' =? g) && mid_eqb m2 m) eqn:E2; intros H1 H2.
      * apply andb_true_iff in E1, E2. destruct E1 as [E1 E1'], E2 as [E2 E2']. apply Nat.eqb_eq in E1, E2.
        apply mid_eqb_spec in E1', E2'. subst. split; reflexivity.
      * inversion H1; subst x. destruct (A_valid st ss A I _ _ _ H2) as (Hlt & _). unfold a in Hlt. lia.
      * inversion H2; subst x. destruct (A_valid st ss A I _ _ _ H1) as (Hlt & _). unfold a in Hlt. lia.
      * apply (i_inj _ _ _ I _ _ _ _ _ H1 H2).
    + intros g' m' c. fold (s_set_slot ss g m d b). rewrite s_slot_set, Hs0. destruct (fm_eqb (g', m') (g, m)) eqn:E.
      * apply fm_eqb_spec in E. inversion E; subst. intros H. inversion H. rewrite set_slot_from. reflexivity.
      * apply (i_from _ _ _ I).
    + intros g' m' c. fold (s_set_slot ss g m d b). rewrite s_slot_set. destruct (fm_eqb (g', m') (g, m)) eqn:E.
      * apply fm_eqb_spec in E. inversion E; subst. intros _. right. exact Hd.
      * apply (i_sdef _ _ _ I).
Qed.

(* ---- inheritFlavor: copying the method tables ------------------------------------------------------------------ *)
Definition add_addr (h : list combo) (t : list nat) (a : nat) : list nat :=
  if existsb (fun b => c_from (deref h b) =? c_from (deref h a)) t then t else t ++ [a].
Definition skipv (h : list combo) (cf a : nat) : bool := (c_from (deref h a) =? vanilla) && negb (cf =? vanilla).

Lemma add_combo_tblm : forall h ms k a m, tblm (add_combo h ms k a) m = if mid_eqb m k then add_addr h (tblm ms k) a else tblm ms m.
Proof.
  intros. unfold add_combo, add_addr. fold (tblm ms k).
  destruct (existsb (fun b => c_from (deref h b) =? c_from (deref h a)) (tblm ms k)).
  - destruct (mid_eqb m k) eqn:E; [apply mid_eqb_spec in E; subst; reflexivity | reflexivity].
  - rewrite tblm_aset. reflexivity.
Qed.
Lemma add_combo_keys : forall h ms k a, NoDup (map fst ms) -> noempty ms -> NoDup (map fst (add_combo h ms k a)) /\ noempty (add_combo h ms k a).
Proof.
  intros h ms k a N E. unfold add_combo.
  destruct (existsb _ _); [split; assumption |]. split; [apply (aset_nodup mid_eqb mid_eqb_spec); exact N |].
  apply noempty_aset; [exact E |]. destruct (match lookup mid_eqb k ms with Some l => l | None => [] end); discriminate.
Qed.
Lemma inner_tblm : forall h cf k addrs ms m,
  tblm (fold_left (fun ms a => if skipv h cf a then ms else add_combo h ms k a) addrs ms) m
  = if mid_eqb m k then fold_left (add_addr h) (filter (fun a => negb (skipv h cf a)) addrs) (tblm ms k) else tblm ms m.
Proof.
  intros h cf k. induction addrs as [| a addrs IH]; intros ms m; simpl.
  - destruct (mid_eqb m k) eqn:E; [apply mid_eqb_spec in E; subst; reflexivity | reflexivity].
  - rewrite IH. destruct (skipv h cf a); simpl; [reflexivity |]. rewrite !add_combo_tblm, mid_eqb_refl.
    destruct (mid_eqb m k); reflexivity.
Qed.
Lemma inner_keys : forall h cf k addrs ms, NoDup (map fst ms) -> noempty ms ->
  NoDup (map fst (fold_left (fun ms a => if skipv h cf a then ms else add_combo h ms k a) addrs ms)) /\
  noempty (fold_left (fun ms a => if skipv h cf a then ms else add_combo h ms k a) addrs ms).
Proof.
  intros h cf k. induction addrs as [| a addrs IH]; intros ms N E; simpl; [split; assumption |].
  destruct (skipv h cf a); [apply IH; assumption |]. destruct (add_combo_keys h ms k a N E). apply IH; assumption.
Qed.
Lemma merge_meths_unfold : forall h ms cf cfm,
  merge_meths fixed h ms cf cfm = fold_left (fun ms ka => fold_left (fun ms a => if skipv h cf a then ms else add_combo h ms (fst ka) a) (snd ka) ms) cfm ms.
Proof. reflexivity. Qed.
Lemma tblm_notin : forall ms m, ~ In m (map fst ms) -> tblm ms m = [].
Proof.
  intros ms m H. unfold tblm. destruct (lookup mid_eqb m ms) eqn:E; [| reflexivity]. exfalso. apply H.
  apply (lookup_in_keys mid_eqb mid_eqb_spec). congruence.
Qed.
Lemma tblm_cons : forall k l rest m, tblm ((k, l) :: rest) m = if mid_eqb m k then l else tblm rest m.
Proof. intros. unfold tblm. simpl. destruct (mid_eqb m k); reflexivity. Qed.
Lemma merge_meths_tblm : forall h cf cfm ms m, NoDup (map fst cfm) ->
  tblm (merge_meths fixed h ms cf cfm) m = fold_left (add_addr h) (filter (fun a => negb (skipv h cf a)) (tblm cfm m)) (tblm ms m).
Proof.
  intros h cf cfm ms m. rewrite merge_meths_unfold. revert ms m.
  induction cfm as [| [k addrs] rest IH]; intros ms m N; simpl; [reflexivity |].
  inversion N as [| ? ? N1 N2]; subst. rewrite IH by exact N2. rewrite inner_tblm, tblm_cons.
  destruct (mid_eqb m k) eqn:E.
  - apply mid_eqb_spec in E. subst m. rewrite (tblm_notin rest k N1). reflexivity.
  - reflexivity.
Qed.
Lemma merge_meths_keys : forall h cf cfm ms, NoDup (map fst ms) -> noempty ms ->
  NoDup (map fst (merge_meths fixed h ms cf cfm)) /\ noempty (merge_meths fixed h ms cf cfm).
Proof.
  intros h cf cfm ms. rewrite merge_meths_unfold. revert ms.
  induction cfm as [| [k addrs] rest IH]; intros ms N E; simpl; [split; assumption |].
  destruct (inner_keys h cf k addrs ms N E). apply IH; assumption.
Qed.

(* one visit of inheritFlavor *)
Definition absorb (st : state) (obj : flavor) (g : nat) : flavor :=
  match find_flavor st g with
  | Some c => {| f_name := f_name obj; f_inherit := f_inherit obj ++ [g];
                 f_vars := merge_absent Nat.eqb (f_vars obj) (f_vars c);
                 f_keys := merge_absent Nat.eqb (f_keys obj) (f_keys c);
                 f_meths := merge_meths fixed (st_heap st) (f_meths obj) g (f_meths c);
                 f_prec := f_prec obj; f_initable := f_initable obj ++ f_initable c;
                 f_required := add_missing (f_required obj) (f_required c) |}
  | None => obj
  end.
Lemma add_missing_In : forall src dst k, In k (add_missing dst src) <-> In k dst \/ In k src.
Proof.
  unfold add_missing. induction src as [| a r IH]; intros dst k; simpl; [tauto |].
  rewrite IH. destruct (existsb (Nat.eqb a) dst) eqn:E.
  - apply existsb_exists in E. destruct E as [x [Hx Ex]]. apply Nat.eqb_eq in Ex. subst x. split; [tauto |].
    intros [H | [H | H]]; [tauto | subst; tauto | tauto].
  - rewrite in_app_iff. simpl. tauto.
Qed.

Section Visit.
  Variables (st : state) (ds : list (nat * decl)).
  Hypothesis W : wfd ds.
  Hypothesis HI : forall g, defined ds g = true -> exists c, find_flavor st g = Some c /\ f_inherit c = tl (prec ds g) ++ [vanilla].

  Definition closed_except (E l : list nat) : Prop := forall x, In x l -> ~ In x E -> incl (prec ds x) l.

  Lemma absorb_fold_inherit : forall N obj, (forall g, In g N -> defined ds g = true) ->
    f_inherit (fold_left (absorb st) N obj) = f_inherit obj ++ N.
  Proof.
    induction N as [| g N IH]; intros obj H; simpl; [rewrite app_nil_r; reflexivity |].
    rewrite IH by (intros x Hx; apply H; right; exact Hx). unfold absorb.
    destruct (HI g (H g (or_introl eq_refl))) as (c & Hc & _). rewrite Hc. simpl. rewrite <- app_assoc. reflexivity.
  Qed.
  Lemma absorb_fold_name : forall N obj, f_name (fold_left (absorb st) N obj) = f_name obj /\ f_prec (fold_left (absorb st) N obj) = f_prec obj.
  Proof.
    induction N as [| g N IH]; intros obj; simpl; [split; reflexivity |]. destruct (IH (absorb st obj g)) as [H1 H2].
    rewrite H1, H2. unfold absorb. destruct (find_flavor st g); split; reflexivity.
  Qed.

  Lemma absorb_fold_io : forall N obj,
    (forall v, In v (f_initable (fold_left (absorb st) N obj)) <->
               In v (f_initable obj) \/ exists g c, In g N /\ find_flavor st g = Some c /\ In v (f_initable c)) /\
    (forall k, In k (f_required (fold_left (absorb st) N obj)) <->
               In k (f_required obj) \/ exists g c, In g N /\ find_flavor st g = Some c /\ In k (f_required c)).
  Proof.
    induction N as [| g N IH]; intros obj; simpl.
    - split; intros x; (split; [tauto | intros [H | (g & c & [] & _)]; exact H]).
    - destruct (IH (absorb st obj g)) as [H1 H2]. split; intros x; [rewrite H1 | rewrite H2]; unfold absorb;
        destruct (find_flavor st g) as [c |] eqn:E; cbn [f_initable f_required]; rewrite ?in_app_iff, ?add_missing_In.
      + split.
        * intros [[H | H] | (g' & c' & Hg & Hf & Hi)]; [left; exact H | right; exists g, c; auto | right; exists g', c'; auto].
        * intros [H | (g' & c' & [Hg | Hg] & Hf & Hi)]; [left; left; exact H | subst g'; rewrite E in Hf; inversion Hf; subst c'; left; right; exact Hi | right; exists g', c'; auto].
      + split.
        * intros [H | (g' & c' & Hg & Hf & Hi)]; [left; exact H | right; exists g', c'; auto].
        * intros [H | (g' & c' & [Hg | Hg] & Hf & Hi)]; [left; exact H | subst g'; congruence | right; exists g', c'; auto].
      + split.
        * intros [[H | H] | (g' & c' & Hg & Hf & Hi)]; [left; exact H | right; exists g, c; auto | right; exists g', c'; auto].
        * intros [H | (g' & c' & [Hg | Hg] & Hf & Hi)]; [left; left; exact H | subst g'; rewrite E in Hf; inversion Hf; subst c'; left; right; exact Hi | right; exists g', c'; auto].
      + split.
        * intros [H | (g' & c' & Hg & Hf & Hi)]; [left; exact H | right; exists g', c'; auto].
        * intros [H | (g' & c' & [Hg | Hg] & Hf & Hi)]; [left; exact H | subst g'; congruence | right; exists g', c'; auto].
  Qed.

  Definition visit_step (k : nat) (o : option flavor) (f2 : nat) : option flavor :=
    match o with None => None | Some o' => if f2 =? vanilla then Some o' else inherit_flavor fixed k st o' f2 end.

  Lemma inherit_visit : forall k obj cf E, defined ds cf = true -> age ds cf < k -> closed_except E (f_inherit obj) ->
    (forall e, In e E -> ~ In e (prec ds cf)) ->
    exists N, inherit_flavor fixed k st obj cf = Some (fold_left (absorb st) N obj) /\ (forall g, In g N -> defined ds g = true) /\
              f_inherit obj ++ N = adds (f_inherit obj) (prec ds cf) /\ closed_except E (f_inherit obj ++ N).
  Proof.
    induction k as [| k IHk]; intros obj cf E Hd Hage Hcl HE; [lia |].
    cbn [inherit_flavor]. rewrite mem_existsb. destruct (mem cf (f_inherit obj)) eqn:Em.
    - apply mem_In in Em. exists []. simpl. rewrite app_nil_r. repeat split; [intros g [] | | exact Hcl].
      symmetry. apply adds_incl. apply Hcl; [exact Em |]. intros Hin. apply (HE cf Hin). apply prec_self; assumption.
    - apply mem_false in Em. destruct (HI cf Hd) as (c & Hfind & Hinh). rewrite Hfind.
      assert (Hobj1 : absorb st obj cf = {| f_name := f_name obj; f_inherit := f_inherit obj ++ [cf];
                 f_vars := merge_absent Nat.eqb (f_vars obj) (f_vars c); f_keys := merge_absent Nat.eqb (f_keys obj) (f_keys c);
                 f_meths := merge_meths fixed (st_heap st) (f_meths obj) cf (f_meths c); f_prec := f_prec obj;
                 f_initable := f_initable obj ++ f_initable c; f_required := add_missing (f_required obj) (f_required c) |}).
      { unfold absorb. rewrite Hfind. reflexivity. }
      change (v_io fixed) with true. cbv iota. rewrite <- Hobj1. fold (visit_step k). rewrite Hinh, fold_left_app. cbn [fold_left].
      (* the walk over the flattened inherit list of cf *)
      assert (Walk : forall T o, (forall x, In x T -> x <> vanilla /\ defined ds x = true /\ age ds x < k /\
                                            forall e, In e (cf :: E) -> ~ In e (prec ds x)) ->
                       closed_except (cf :: E) (f_inherit o) ->
                       exists N', fold_left (visit_step k) T (Some o) = Some (fold_left (absorb st) N' o) /\
                                  (forall g, In g N' -> defined ds g = true) /\
                                  f_inherit o ++ N' = adds (f_inherit o) (flat_map (prec ds) T) /\
                                  closed_except (cf :: E) (f_inherit o ++ N')).
      { induction T as [| x T IHT]; intros o HT Hclo.
        - exists []. simpl. rewrite app_nil_r. repeat split; [intros g [] | exact Hclo].
        - destruct (HT x (or_introl eq_refl)) as (Hxv & Hxd & Hxa & HxE). cbn [fold_left]. unfold visit_step at 2.
          destruct (x =? vanilla) eqn:Exv; [apply Nat.eqb_eq in Exv; contradiction |].
          destruct (IHk o x (cf :: E) Hxd Hxa Hclo HxE) as (N1 & R1 & D1 & I1 & C1). rewrite R1.
          assert (Hi1 : f_inherit (fold_left (absorb st) N1 o) = f_inherit o ++ N1) by (apply absorb_fold_inherit; exact D1).
          destruct (IHT (fold_left (absorb st) N1 o)) as (N2 & R2 & D2 & I2 & C2).
          { intros y Hy. apply HT. right. exact Hy. }
          { rewrite Hi1. exact C1. }
          exists (N1 ++ N2). rewrite fold_left_app. split; [exact R2 |]. split.
          { intros g Hg. apply in_app_iff in Hg. destruct Hg; auto. }
          rewrite Hi1 in I2, C2. rewrite app_assoc. split; [| exact C2].
          rewrite I2, I1. simpl. rewrite adds_app. reflexivity. }
      destruct (Walk (tl (prec ds cf)) (absorb st obj cf)) as (N' & R & D & I' & C).
      { intros x Hx. assert (Hxp : In x (prec ds cf)) by (rewrite prec_head by assumption; right; exact Hx).
        assert (Hxd : defined ds x = true) by (apply (prec_defined ds W cf x Hxp)).
        split; [apply (defined_not_vanilla ds x W Hxd) |]. split; [exact Hxd |]. split.
        - assert (Ha := age_tl ds W cf x Hx). lia.
        - intros e [He | He].
          + subst e. apply prec_acyclic; assumption.
          + intros Hin. apply (HE e He). apply (prec_trans ds W cf x Hxp). exact Hin. }
      { rewrite Hobj1. simpl. intros x Hx Hne. apply in_app_iff in Hx. destruct Hx as [Hx | [Hx | []]].
        - intros y Hy. apply in_app_iff. left. apply (Hcl x Hx); [| exact Hy]. intros HinE. apply Hne. right. exact HinE.
        - subst x. exfalso. apply Hne. left. reflexivity. }
      rewrite R. unfold visit_step. rewrite Nat.eqb_refl.
      assert (Hi0 : f_inherit (absorb st obj cf) = f_inherit obj ++ [cf]) by (rewrite Hobj1; reflexivity).
      rewrite Hi0 in I', C.
      exists (cf :: N'). cbn [fold_left]. split; [reflexivity |]. split.
      { intros g [Hg | Hg]; [subst; exact Hd | apply D; exact Hg]. }
      assert (Heq : f_inherit obj ++ cf :: N' = adds (f_inherit obj) (prec ds cf)).
      { change (f_inherit obj ++ cf :: N') with (f_inherit obj ++ [cf] ++ N'). rewrite app_assoc, I'.
        rewrite (prec_head ds W cf Hd) at 2. rewrite adds_cons. unfold add. rewrite (proj2 (mem_false _ _) Em).
        rewrite adds_nub, prec_flat_tl by exact W. reflexivity. }
      split; [exact Heq |].
      intros x Hx Hne. destruct (Nat.eq_dec x cf) as [Exc | Exc].
      + subst x. rewrite Heq. intros y Hy. apply in_adds. right. exact Hy.
      + change (f_inherit obj ++ cf :: N') with (f_inherit obj ++ [cf] ++ N') in *. rewrite app_assoc in *.
        apply C; [exact Hx |]. intros [Hc | Hc]; [congruence | contradiction].
  Qed.
End Visit.

(* ---- what a sequence of visits leaves in the new flavor --------------------------------------------------------- *)
Section Fields.
  Variable st : state.
  Let h := st_heap st.
  Definition rec_vars (v : nat) (g : nat) : option val :=
    match find_flavor st g with Some c => lookup Nat.eqb v (f_vars c) | None => None end.
  Definition rec_keys (k : nat) (g : nat) : option val :=
    match find_flavor st g with Some c => lookup Nat.eqb k (f_keys c) | None => None end.
  Definition rec_user_tbl (m : mid) (g : nat) : list nat :=
    match find_flavor st g with Some c => filter (fun a => negb (skipv h g a)) (tbl_of c m) | None => [] end.

  Lemma absorb_fold_vars : forall N obj v,
    lookup Nat.eqb v (f_vars (fold_left (absorb st) N obj)) =
    match lookup Nat.eqb v (f_vars obj) with Some x => Some x | None => firstsome (rec_vars v) N end.
  Proof.
    induction N as [| g N IH]; intros obj v; simpl; [destruct (lookup Nat.eqb v (f_vars obj)); reflexivity |].
    rewrite IH. unfold absorb, rec_vars at 2. destruct (find_flavor st g) as [c |]; [| reflexivity].
    simpl. rewrite (lookup_merge_absent Nat.eqb nat_eqb_spec). destruct (lookup Nat.eqb v (f_vars obj)); [reflexivity |].
    destruct (lookup Nat.eqb v (f_vars c)); reflexivity.
  Qed.
  Lemma absorb_fold_keys : forall N obj k,
    lookup Nat.eqb k (f_keys (fold_left (absorb st) N obj)) =
    match lookup Nat.eqb k (f_keys obj) with Some x => Some x | None => firstsome (rec_keys k) N end.
  Proof.
    induction N as [| g N IH]; intros obj k; simpl; [destruct (lookup Nat.eqb k (f_keys obj)); reflexivity |].
    rewrite IH. unfold absorb, rec_keys at 2. destruct (find_flavor st g) as [c |]; [| reflexivity].
    simpl. rewrite (lookup_merge_absent Nat.eqb nat_eqb_spec). destruct (lookup Nat.eqb k (f_keys obj)); [reflexivity |].
    destruct (lookup Nat.eqb k (f_keys c)); reflexivity.
  Qed.
  Lemma absorb_fold_tbl : forall N obj m,
    (forall g c, In g N -> find_flavor st g = Some c -> NoDup (map fst (f_meths c))) ->
    tbl_of (fold_left (absorb st) N obj) m = fold_left (add_addr h) (flat_map (rec_user_tbl m) N) (tbl_of obj m).
  Proof.
    induction N as [| g N IH]; intros obj m HN; simpl; [reflexivity |].
    rewrite IH by (intros g' c Hg; apply HN; right; exact Hg). rewrite fold_left_app. f_equal.
    unfold absorb, rec_user_tbl. destruct (find_flavor st g) as [c |] eqn:E; [| reflexivity].
    rewrite !tbl_of_tblm. simpl f_meths. apply merge_meths_tblm. apply (HN g c (or_introl eq_refl) E).
  Qed.
  Lemma absorb_fold_mkeys : forall N obj, NoDup (map fst (f_meths obj)) -> noempty (f_meths obj) ->
    NoDup (map fst (f_meths (fold_left (absorb st) N obj))) /\ noempty (f_meths (fold_left (absorb st) N obj)).
  Proof.
    induction N as [| g N IH]; intros obj K E; simpl; [split; assumption |]. apply IH; unfold absorb; destruct (find_flavor st g); try assumption; simpl;
      apply merge_meths_keys; assumption.
  Qed.
End Fields.

(* copying combinations with dedupe by From = accumulating the flavors without duplicates *)
Lemma add_addr_fold : forall h (B : nat -> option nat), (forall y b, B y = Some b -> c_from (deref h b) = y) ->
  forall X l, fold_left (add_addr h) (filter_map B X) (filter_map B l) = filter_map B (adds l X).
Proof.
  intros h B Bf. induction X as [| x X IH]; intros l; [reflexivity |].
  rewrite adds_cons. simpl. assert (Hadd : filter_map B (add l x) = match B x with Some b => add_addr h (filter_map B l) b | None => filter_map B l end).
  { unfold add, add_addr. destruct (B x) as [b |] eqn:Ex.
    - assert (Hex : existsb (fun b0 => c_from (deref h b0) =? c_from (deref h b)) (filter_map B l) = mem x l).
      { rewrite (Bf _ _ Ex). destruct (mem x l) eqn:Em.
        - apply mem_In in Em. apply existsb_exists. exists b. split; [apply in_filter_map; exists x; auto |].
          rewrite (Bf _ _ Ex). apply Nat.eqb_refl.
        - apply mem_false in Em. destruct (existsb _ _) eqn:Ee; [| reflexivity]. exfalso. apply existsb_exists in Ee.
          destruct Ee as [b0 [Hb0 He]]. apply in_filter_map in Hb0. destruct Hb0 as [y [Hy HB]]. rewrite (Bf _ _ HB) in He.
          apply Nat.eqb_eq in He. subst y. contradiction. }
      rewrite Hex. destruct (mem x l); [reflexivity |]. rewrite filter_map_app. simpl. rewrite Ex. reflexivity.
    - destruct (mem x l); [reflexivity |]. rewrite filter_map_app. simpl. rewrite Ex, app_nil_r. reflexivity. }
  destruct (B x) as [b |] eqn:Ex; simpl; rewrite <- IH, Hadd; reflexivity.
Qed.
Lemma filter_filter_map : forall h (B : nat -> option nat) (p : nat -> bool), (forall y b, B y = Some b -> c_from (deref h b) = y) ->
  forall X, filter (fun a => p (c_from (deref h a))) (filter_map B X) = filter_map B (filter p X).
Proof.
  intros h B p Bf. induction X as [| x X IH]; [reflexivity |]. simpl. destruct (B x) as [b |] eqn:E; simpl.
  - rewrite (Bf _ _ E). destruct (p x); simpl; rewrite ?E, IH; reflexivity.
  - destruct (p x); simpl; rewrite ?E, IH; reflexivity.
Qed.
Lemma filter_all : forall {T} (p : T -> bool) l, (forall x, In x l -> p x = true) -> filter p l = l.
Proof.
  induction l as [| x l IH]; intros H; simpl; [reflexivity |]. rewrite (H x (or_introl eq_refl)). f_equal. apply IH.
  intros y Hy. apply H. right. exact Hy.
Qed.

(* ---- :gettable / :settable-instance-variables: DefClassMethod on the flavor under construction --------------- *)
Definition acc_combo (name : nat) (b : body) : combo := set_slot DPrimary b (empty_combo name).

Section Accessors.
  Variables (mk : nat -> mid) (bd : nat -> body) (name : nat).
  Hypothesis mk_inj : forall x y, mk x = mk y -> x = y.
  Variables (h0 : list combo) (nf0 : flavor).
  Hypothesis name0 : f_name nf0 = name.
  Hypothesis pre0 : forall x a, In a (tbl_of nf0 (mk x)) -> a < length h0 /\ c_from (deref h0 a) <> name.

  Definition acc_msg (S : list nat) (m : mid) : Prop := exists x, In x S /\ m = mk x.
  Record AccInv (S : list nat) (hf : list combo * flavor) : Prop := {
    ai_len : length h0 <= length (fst hf);
    ai_old : forall a, a < length h0 -> deref (fst hf) a = deref h0 a;
    ai_name : f_name (snd hf) = name;
    ai_same : f_inherit (snd hf) = f_inherit nf0 /\ f_vars (snd hf) = f_vars nf0 /\ f_keys (snd hf) = f_keys nf0 /\ f_prec (snd hf) = f_prec nf0;
    ai_io : f_initable (snd hf) = f_initable nf0 /\ f_required (snd hf) = f_required nf0;
    ai_keys : NoDup (map fst (f_meths nf0)) -> noempty (f_meths nf0) -> NoDup (map fst (f_meths (snd hf))) /\ noempty (f_meths (snd hf));
    ai_acc : forall x, In x S -> exists a, tbl_of (snd hf) (mk x) = a :: tbl_of nf0 (mk x) /\ length h0 <= a < length (fst hf) /\
                                          deref (fst hf) a = acc_combo name (bd x);
    ai_other : forall m, ~ acc_msg S m -> tbl_of (snd hf) m = tbl_of nf0 m
  }.
  Lemma acc_step : forall S hf x, AccInv S hf ->
    AccInv (x :: S) (let '(h', fl', _, _) := def_own (fst hf) (snd hf) (mk x) DPrimary (bd x) in (h', fl')).
  Proof.
    intros S [h nf] x I. destruct I as [I1 I2 I3 I4 Iio I5 I6 I7]. simpl fst in *. simpl snd in *. rewrite def_own_cases, I3.
    destruct (in_dec Nat.eq_dec x S) as [Hin | Hnin].
    - (* declared twice: the same primary is stored again *)
      destruct (I6 x Hin) as (a & Ht & Ha & Hc). rewrite Ht.
      assert (Hf : c_from (deref h a) =? name = true) by (rewrite Hc; apply Nat.eqb_refl). rewrite Hf.
      assert (Hsame : set_slot DPrimary (bd x) (deref h a) = deref h a) by (rewrite Hc; reflexivity).
      rewrite Hsame.
      assert (Hd : forall b, deref (upd h a (deref h a)) b = deref h b).
      { intros b. destruct (Nat.eq_dec a b) as [E | E]; [subst; apply deref_upd_same; lia | apply deref_upd_other; exact E]. }
      constructor; simpl fst; simpl snd.
      + rewrite upd_length. exact I1.
      + intros b Hb. rewrite Hd. apply (I2 b Hb).
      + exact I3.
      + exact I4.
      + exact Iio.
      + exact I5.
      + intros y Hy. assert (Hy' : In y S) by (destruct Hy; [subst; exact Hin | assumption]).
        destruct (I6 y Hy') as (b & H1 & H2 & H3). exists b. rewrite upd_length, Hd. auto.
      + intros m Hm. apply I7. intros [y [Hy Em]]. apply Hm. exists y. split; [right; exact Hy | exact Em].
    - (* first time: a new combination in front *)
      assert (Hoth : tbl_of nf (mk x) = tbl_of nf0 (mk x)).
      { apply I7. intros [y [Hy Em]]. apply mk_inj in Em. subst y. contradiction. }
      assert (Htest : match tbl_of nf (mk x) with a :: _ => if c_from (deref h a) =? name then Some a else None | [] => None end = None).
      { rewrite Hoth. destruct (tbl_of nf0 (mk x)) as [| a r] eqn:E; [reflexivity |].
        destruct (pre0 x a) as [H1 H2]; [rewrite E; left; reflexivity |]. rewrite (I2 a H1).
        destruct (c_from (deref h0 a) =? name) eqn:En; [apply Nat.eqb_eq in En; contradiction | reflexivity]. }
      rewrite Htest.
      constructor; simpl fst; simpl snd.
      + rewrite app_length. simpl. lia.
      + intros b Hb. rewrite deref_app_old by lia. apply (I2 b Hb).
      + exact I3.
      + exact I4.
      + exact Iio.
      + intros K E. destruct (I5 K E) as [K1 E1]. split.
        * apply (aset_nodup mid_eqb mid_eqb_spec). exact K1.
        * apply noempty_aset; [exact E1 | discriminate].
      + intros y [Hy | Hy].
        * subst y. exists (length h). rewrite tbl_of_tblm. simpl f_meths. rewrite tblm_aset, mid_eqb_refl, Hoth.
          split; [reflexivity |]. split; [rewrite app_length; simpl; lia |]. rewrite deref_app_new. reflexivity.
        * destruct (I6 y Hy) as (b & H1 & H2 & H3). exists b.
          rewrite tbl_of_tblm. simpl f_meths. rewrite tblm_aset.
          assert (Eyx : mid_eqb (mk y) (mk x) = false).
          { apply mid_eqb_neq. intros E. apply mk_inj in E. subst y. contradiction. }
          rewrite Eyx, <- tbl_of_tblm. split; [exact H1 |]. split; [rewrite app_length; simpl; lia |].
          rewrite deref_app_old by lia. exact H3.
      + intros m Hm. rewrite tbl_of_tblm. simpl f_meths. rewrite tblm_aset.
        assert (Em : mid_eqb m (mk x) = false).
        { apply mid_eqb_neq. intros E. apply Hm. exists x. split; [left; reflexivity | exact E]. }
        rewrite Em, <- tbl_of_tblm. apply I7. intros [y [Hy Ey]]. apply Hm. exists y. split; [right; exact Hy | exact Ey].
  Qed.
  Lemma acc_all : forall vs S hf, AccInv S hf -> AccInv (rev vs ++ S) (def_accessors mk bd vs hf).
  Proof.
    unfold def_accessors. induction vs as [| x vs IH]; intros S hf I; simpl; [exact I |].
    rewrite <- app_assoc. simpl. apply IH. apply acc_step. exact I.
  Qed.
  Lemma acc_init : AccInv [] (h0, nf0).
  Proof.
    constructor; simpl; auto.
    - intros x [].
  Qed.
  Lemma acc_final : forall vs, AccInv vs (def_accessors mk bd vs (h0, nf0)).
  Proof.
    intros vs. assert (I := acc_all vs [] (h0, nf0) acc_init). rewrite app_nil_r in I.
    destruct I as [I1 I2 I3 I4 Iio I5 I6 I7]. constructor; try assumption.
    - intros x Hx. apply I6. apply in_rev in Hx. exact Hx.
    - intros m Hm. apply I7. intros [y [Hy Ey]]. apply Hm. exists y. split; [apply in_rev; exact Hy | exact Ey].
  Qed.
End Accessors.

(* ---- the specification's side of the accessors ------------------------------------------------------------------- *)
Section SpecAcc.
  Variables (mk : nat -> mid) (bd : nat -> body) (f : nat).
  Hypothesis mk_inj : forall x y, mk x = mk y -> x = y.
  Definition acc_ok (ss0 : sstate) : Prop :=
    forall y, s_slot ss0 f (mk y) = None \/ s_slot ss0 f (mk y) = Some (acc_combo f (bd y)).
  Lemma s_acc_fold : forall vs ss0, acc_ok ss0 ->
    let ss1 := fold_left (fun s x => s_set_slot s f (mk x) DPrimary (bd x)) vs ss0 in
    ss_decls ss1 = ss_decls ss0 /\ acc_ok ss1 /\
    (forall x, In x vs -> s_slot ss1 f (mk x) = Some (acc_combo f (bd x))) /\
    (forall g m, ~ (g = f /\ exists x, In x vs /\ m = mk x) -> s_slot ss1 g m = s_slot ss0 g m).
  Proof.
    induction vs as [| x vs IH]; intros ss0 H0; cbn [fold_left].
    - repeat split; [exact H0 | intros x [] ].
    - set (ssx := s_set_slot ss0 f (mk x) DPrimary (bd x)).
      assert (Hx : s_slot ssx f (mk x) = Some (acc_combo f (bd x))).
      { unfold ssx. rewrite s_slot_set, (proj2 (fm_eqb_spec _ _) eq_refl). destruct (H0 x) as [E | E]; rewrite E; reflexivity. }
      assert (Hox : forall g m, (g, m) <> (f, mk x) -> s_slot ssx g m = s_slot ss0 g m).
      { intros g m Hne. unfold ssx. rewrite s_slot_set. destruct (fm_eqb (g, m) (f, mk x)) eqn:E; [apply fm_eqb_spec in E; contradiction | reflexivity]. }
      assert (Hokx : acc_ok ssx).
      { intros y. destruct (Nat.eq_dec y x) as [E | E]; [subst; right; exact Hx |].
        rewrite Hox; [apply H0 |]. intros Eq. inversion Eq as [Em]. apply mk_inj in Em. contradiction. }
      destruct (IH ssx Hokx) as (D & O & S1 & S2). cbv zeta in *. repeat split.
      + rewrite D. reflexivity.
      + exact O.
      + intros y [Hy | Hy]; [subst y | apply S1; exact Hy].
        destruct (in_dec Nat.eq_dec x vs) as [Hin | Hnin]; [apply S1; exact Hin |].
        rewrite S2; [exact Hx |]. intros [_ [z [Hz Ez]]]. apply mk_inj in Ez. subst z. contradiction.
      + intros g m Hn. rewrite S2.
        * apply Hox. intros Eq. inversion Eq; subst. apply Hn. split; [reflexivity |]. exists x. split; [left; reflexivity | reflexivity].
        * intros [Eg [z [Hz Ez]]]. apply Hn. split; [exact Eg |]. exists z. split; [right; exact Hz | exact Ez].
  Qed.
End SpecAcc.

(* ---- the loop over the components of defflavor ---------------------------------------------------------------------- *)
Section Comps.
  Variables (st : state) (ds : list (nat * decl)).
  Hypothesis W : wfd ds.
  Hypothesis HI : forall g, defined ds g = true -> exists c, find_flavor st g = Some c /\ f_inherit c = tl (prec ds g) ++ [vanilla].
  Hypothesis Hfuel : forall g, defined ds g = true -> age ds g < inherit_fuel st.
  Definition comp_step (o : outcome + flavor) (c : nat) : outcome + flavor :=
    match o with
    | inl e => inl e
    | inr nf => match find_flavor st c with
                | None => inl ErrNoComponent
                | Some _ => match inherit_flavor fixed (inherit_fuel st) st nf c with Some nf' => inr nf' | None => inl ErrFuel end
                end
    end.
  Lemma inherit_comps : forall comps obj, (forall c, In c comps -> defined ds c = true) -> closed_except ds [] (f_inherit obj) ->
    exists N, fold_left comp_step comps (inr obj) = inr (fold_left (absorb st) N obj) /\ (forall g, In g N -> defined ds g = true) /\
              f_inherit obj ++ N = adds (f_inherit obj) (flat_map (prec ds) comps) /\ closed_except ds [] (f_inherit obj ++ N).
  Proof.
    induction comps as [| c comps IH]; intros obj Hc Hcl.
    - exists []. simpl. rewrite app_nil_r. repeat split; [intros g [] | exact Hcl].
    - cbn [fold_left]. unfold comp_step at 2. destruct (HI c (Hc c (or_introl eq_refl))) as (rc & Hfind & _). rewrite Hfind.
      destruct (inherit_visit st ds W HI (inherit_fuel st) obj c [] (Hc c (or_introl eq_refl)) (Hfuel c (Hc c (or_introl eq_refl))) Hcl)
        as (N1 & R1 & D1 & I1 & C1); [intros e [] |]. rewrite R1.
      assert (Hi1 : f_inherit (fold_left (absorb st) N1 obj) = f_inherit obj ++ N1) by (apply (absorb_fold_inherit st ds HI); exact D1).
      destruct (IH (fold_left (absorb st) N1 obj)) as (N2 & R2 & D2 & I2 & C2).
      { intros c' Hc'. apply Hc. right. exact Hc'. }
      { rewrite Hi1. exact C1. }
      exists (N1 ++ N2). rewrite fold_left_app. split; [exact R2 |]. split.
      { intros g Hg. apply in_app_iff in Hg. destruct Hg; auto. }
      rewrite Hi1 in I2, C2. rewrite app_assoc. split; [| exact C2]. rewrite I2, I1. simpl. rewrite adds_app. reflexivity.
  Qed.
End Comps.

(* ---- defflavor ------------------------------------------------------------------------------------------------------- *)
Lemma wfd_nodup : forall ds, wfd ds -> NoDup (map fst ds).
Proof.
  induction ds as [| [f d] ds IH]; intros W; simpl; [constructor |]. destruct W as (_ & Hn & _ & W).
  constructor; [| apply IH; exact W]. intros Hin. apply defined_in in Hin. congruence.
Qed.
Lemma firstsome_exists : forall {T B} (phi : T -> option B) l, firstsome phi l <> None <-> exists x, In x l /\ phi x <> None.
Proof.
  intros T B phi l. split.
  - intros H. destruct (firstsome phi l) eqn:E; [| congruence]. clear H. induction l as [| x l IH]; simpl in E; [discriminate |].
    destruct (phi x) eqn:Ex.
    + exists x. split; [left; reflexivity | congruence].
    + destruct (IH E) as [y [Hy Hp]]. exists y. split; [right; exact Hy | exact Hp].
  - intros [x [Hx Hp]] E. apply Hp. apply (proj1 (firstsome_none phi l) E x Hx).
Qed.

Section StepFlavor.
  Variables (st : state) (ss : sstate) (A : nat -> mid -> option nat).
  Hypothesis I : InvA st ss A.
  Variables (f : nat) (vars : list (nat * val)) (comps : list nat) (keys : list (nat * val)) (gets sets : accs) (io : iopts).
  Local Notation ds := (ss_decls ss).
  Hypothesis Hf : f <> vanilla.
  Hypothesis Hnd : defined ds f = false.
  Hypothesis Hcs : forall c, In c comps -> c <> vanilla /\ defined ds c = true.
  Let d := {| d_vars := set_all Nat.eqb [] vars; d_comps := comps; d_keys := set_all Nat.eqb [] keys; d_io := io |}.
  Let ds' := (f, d) :: ds.
  Let L := nub (flat_map (prec ds) comps).
  Let W := i_wfd _ _ _ I.

  Lemma sf_wfd : wfd ds'.
  Proof. simpl. repeat split; [exact Hf | exact Hnd | apply (Hcs c H) | apply (Hcs c H) | exact W]. Qed.
  Lemma sf_prec_new : prec ds' f = f :: L.
  Proof. apply (prec_cons_new f d ds sf_wfd). Qed.
  Lemma sf_prec_old : forall g, defined ds g = true -> prec ds' g = prec ds g.
  Proof. intros g H. apply (prec_cons_old f d ds g sf_wfd H). Qed.
  Lemma sf_L_defined : forall x, In x L -> defined ds x = true /\ x <> f /\ x <> vanilla.
  Proof.
    intros x Hx. unfold L in Hx. apply -> in_nub in Hx. apply in_flat_map in Hx. destruct Hx as [c [Hc Hx]].
    assert (Hd : defined ds x = true) by (apply (prec_defined ds W c x Hx)). split; [exact Hd |]. split.
    - intros E. subst x. rewrite Hd in Hnd. discriminate.
    - apply (defined_not_vanilla ds x W Hd).
  Qed.
  Lemma sf_L_nodup : NoDup L.
  Proof. apply nodup_nub. Qed.
  Lemma sf_L_flat : nub (flat_map (prec ds) L) = L.
  Proof.
    assert (H := prec_flat_tl ds' sf_wfd f). rewrite sf_prec_new in H. cbn [tl] in H. rewrite <- H at 2. f_equal.
    apply flat_map_ext_in. intros x Hx. symmetry. apply sf_prec_old. apply (sf_L_defined x Hx).
  Qed.
  Lemma sf_HI : forall g, defined ds g = true -> exists c, find_flavor st g = Some c /\ f_inherit c = tl (prec ds g) ++ [vanilla].
  Proof.
    intros g H. destruct (defined_found st ss A I g H) as (c & H1 & H2 & H3). exists c. split; [exact H1 |].
    assert (Hv : f_name c <> vanilla) by (rewrite H3; apply (defined_not_vanilla ds g W H)).
    destruct (i_user _ _ _ I c H2 Hv) as (Hi & _). rewrite Hi, H3. reflexivity.
  Qed.
  Lemma sf_fuel : forall g, defined ds g = true -> age ds g < inherit_fuel st.
  Proof.
    intros g H. assert (H1 := age_lt ds g H). unfold inherit_fuel.
    assert (H2 : length (map fst ds) <= length (map f_name (st_flavors st))).
    { apply NoDup_incl_length; [apply wfd_nodup; exact W |]. intros x Hx. apply (i_dom _ _ _ I). right. apply defined_in. exact Hx. }
    rewrite !map_length in H2. lia.
  Qed.

  Let nf0 := {| f_name := f; f_inherit := []; f_vars := set_all Nat.eqb [] vars; f_keys := []; f_meths := []; f_prec := [];
                f_initable := []; f_required := [] |}.
  Let nf1 := fold_left (absorb st) L nf0.
  Lemma sf_comps : fold_left (comp_step st) comps (inr nf0) = inr nf1.
  Proof.
    destruct (inherit_comps st ds W sf_HI sf_fuel comps nf0) as (N & R & D & E & _).
    - intros c Hc. apply (Hcs c Hc).
    - intros x [].
    - simpl in E. rewrite R. unfold nf1. f_equal. f_equal. exact E.
  Qed.
  Lemma sf_nf1_basic : f_name nf1 = f /\ f_prec nf1 = [] /\ f_inherit nf1 = L.
  Proof.
    unfold nf1. destruct (absorb_fold_name st L nf0) as [H1 H2]. rewrite H1, H2. repeat split.
    rewrite (absorb_fold_inherit st ds sf_HI); [reflexivity |]. intros g Hg. apply (sf_L_defined g Hg).
  Qed.
  Lemma sf_rec_user : forall g, defined ds g = true -> exists c, find_flavor st g = Some c /\ In c (st_flavors st) /\ f_name c = g /\ g <> vanilla.
  Proof.
    intros g H. destruct (defined_found st ss A I g H) as (c & H1 & H2 & H3). exists c. repeat split; try assumption.
    apply (defined_not_vanilla ds g W H).
  Qed.
  Lemma sf_own_var_old : forall v g, g <> f -> own_var ds' v g = own_var ds v g.
  Proof.
    intros v g H. unfold own_var, ds'. rewrite decl_of_cons. destruct (g =? f) eqn:E; [apply Nat.eqb_eq in E; contradiction | reflexivity].
  Qed.
  Lemma sf_own_key_old : forall k g, g <> f -> own_key ds' k g = own_key ds k g.
  Proof.
    intros k g H. unfold own_key, ds'. rewrite decl_of_cons. destruct (g =? f) eqn:E; [apply Nat.eqb_eq in E; contradiction | reflexivity].
  Qed.
  (* defaults: the first declaration in precedence order *)
  Lemma sf_vars : forall v, lookup Nat.eqb v (f_vars nf1) = s_var ds' f v.
  Proof.
    intros v. unfold nf1. rewrite absorb_fold_vars. unfold s_var. rewrite sf_prec_new. cbn [firstsome].
    assert (Ho : own_var ds' v f = lookup Nat.eqb v (set_all Nat.eqb [] vars)).
    { unfold own_var, ds'. rewrite decl_of_cons, Nat.eqb_refl. reflexivity. }
    rewrite Ho. simpl f_vars. destruct (lookup Nat.eqb v (set_all Nat.eqb [] vars)); [reflexivity |].
    transitivity (firstsome (fun g => s_var ds g v) L).
    { apply firstsome_ext. intros g Hg. destruct (sf_rec_user g (proj1 (sf_L_defined g Hg))) as (c & H1 & H2 & H3 & H4).
      unfold rec_vars. rewrite H1. rewrite <- H3. apply (i_user _ _ _ I c H2). congruence. }
    unfold s_var. rewrite <- (firstsome_flat_map (own_var ds v) (prec ds) L), <- firstsome_nub, sf_L_flat.
    apply firstsome_ext. intros g Hg. symmetry. apply sf_own_var_old. apply (sf_L_defined g Hg).
  Qed.
  Lemma sf_keys : forall k, lookup Nat.eqb k (set_all Nat.eqb (f_keys nf1) keys) = s_key ds' f k.
  Proof.
    intros k. rewrite (lookup_set_all Nat.eqb nat_eqb_spec). unfold s_key. rewrite sf_prec_new. cbn [firstsome].
    assert (Ho : own_key ds' k f = lookup Nat.eqb k (set_all Nat.eqb [] keys)).
    { unfold own_key, ds'. rewrite decl_of_cons, Nat.eqb_refl. reflexivity. }
    rewrite Ho. destruct (lookup Nat.eqb k (set_all Nat.eqb [] keys)); [reflexivity |].
    unfold nf1. rewrite absorb_fold_keys. simpl f_keys. cbn [lookup].
    transitivity (firstsome (fun g => s_key ds g k) L).
    { apply firstsome_ext. intros g Hg. destruct (sf_rec_user g (proj1 (sf_L_defined g Hg))) as (c & H1 & H2 & H3 & H4).
      unfold rec_keys. rewrite H1. rewrite <- H3. apply (i_user _ _ _ I c H2). congruence. }
    unfold s_key. rewrite <- (firstsome_flat_map (own_key ds k) (prec ds) L), <- firstsome_nub, sf_L_flat.
    apply firstsome_ext. intros g Hg. symmetry. apply sf_own_key_old. apply (sf_L_defined g Hg).
  Qed.
  Lemma sf_A_from : forall m y b, A y m = Some b -> c_from (deref (st_heap st) b) = y.
  Proof. intros m y b H. apply (A_valid st ss A I y m b H). Qed.
  (* the method table copied from the components *)
  Lemma sf_tbl1 : forall m, tbl_of nf1 m = filter_map (fun g => A g m) L.
  Proof.
    intros m. unfold nf1. rewrite absorb_fold_tbl.
    - transitivity (fold_left (add_addr (st_heap st)) (filter_map (fun g => A g m) (flat_map (prec ds) L)) (filter_map (fun g => A g m) [])).
      + f_equal. rewrite filter_map_flat_map. apply flat_map_ext_in. intros g Hg.
        destruct (sf_rec_user g (proj1 (sf_L_defined g Hg))) as (c & H1 & H2 & H3 & H4). unfold rec_user_tbl. rewrite H1.
        rewrite (i_tbl _ _ _ I c m H2). destruct (i_user _ _ _ I c H2) as (Hi & _); [congruence |]. rewrite Hi, H3.
        assert (Hd := proj1 (sf_L_defined g Hg)).
        assert (Hp : g :: tl (prec ds g) ++ [vanilla] = prec ds g ++ [vanilla]) by (rewrite (prec_head ds W g Hd) at 2; reflexivity).
        rewrite Hp.
        assert (Hsk : forall a, negb (skipv (st_heap st) g a) = negb (c_from (deref (st_heap st) a) =? vanilla)).
        { intros a. unfold skipv. destruct (g =? vanilla) eqn:E; [apply Nat.eqb_eq in E; contradiction |]. simpl. rewrite andb_true_r. reflexivity. }
        rewrite (filter_ext _ _ Hsk).
        rewrite (filter_filter_map (st_heap st) (fun y => A y m) (fun y => negb (y =? vanilla)) (sf_A_from m)).
        f_equal. rewrite filter_app. simpl. rewrite app_nil_r. apply filter_all. intros x Hx.
        assert (Hxv : x <> vanilla) by (apply (defined_not_vanilla ds x W); apply (prec_defined ds W g x Hx)).
        destruct (x =? vanilla) eqn:E; [apply Nat.eqb_eq in E; contradiction | reflexivity].
      + rewrite (add_addr_fold (st_heap st) (fun g => A g m) (sf_A_from m)). fold (nub (flat_map (prec ds) L)). rewrite sf_L_flat. reflexivity.
    - intros g c Hg Hc. apply find_flavor_some in Hc. apply (i_keys _ _ _ I c (proj1 Hc)).
  Qed.
  Lemma sf_mkeys1 : NoDup (map fst (f_meths nf1)) /\ noempty (f_meths nf1).
  Proof. unfold nf1. apply absorb_fold_mkeys; simpl; [constructor | intros m; simpl; discriminate]. Qed.

  (* ---- options: keywords, accessors ---- *)
  Let nf2 := {| f_name := f; f_inherit := f_inherit nf1; f_vars := f_vars nf1; f_keys := set_all Nat.eqb (f_keys nf1) keys;
                f_meths := f_meths nf1; f_prec := []; f_initable := f_initable nf1 ++ acc_vars (io_inits io) nf1;
                f_required := add_missing (f_required nf1) (io_reqs io) |}.
  Let Gs := acc_vars gets nf2.
  Let Ss := acc_vars sets nf2.
  Let hf3 := def_accessors MGet BGetter Gs (st_heap st, nf2).
  Let hf4 := def_accessors MSet BSetter Ss hf3.
  Let h4 := fst hf4.
  Let nf4 := snd hf4.

  Lemma sf_tbl2 : forall m, tbl_of nf2 m = filter_map (fun g => A g m) L.
  Proof. intros m. rewrite <- sf_tbl1. reflexivity. Qed.
  Lemma sf_tbl2_valid : forall m a, In a (tbl_of nf2 m) -> a < length (st_heap st) /\ c_from (deref (st_heap st) a) <> f.
  Proof.
    intros m a Ha. rewrite sf_tbl2 in Ha. apply in_filter_map in Ha. destruct Ha as [y [Hy HA]].
    destruct (A_valid st ss A I y m a HA) as (H1 & H2 & _). split; [exact H1 |]. rewrite H2. apply (sf_L_defined y Hy).
  Qed.
  Lemma MGet_inj : forall x y, MGet x = MGet y -> x = y. Proof. intros x y H. inversion H. reflexivity. Qed.
  Lemma MSet_inj : forall x y, MSet x = MSet y -> x = y. Proof. intros x y H. inversion H. reflexivity. Qed.

  Lemma sf_acc3 : AccInv MGet BGetter f (st_heap st) nf2 Gs hf3.
  Proof. apply acc_final; [exact MGet_inj | reflexivity |]. intros x a Ha. apply (sf_tbl2_valid _ _ Ha). Qed.
  Lemma sf_acc4 : AccInv MSet BSetter f (fst hf3) (snd hf3) Ss hf4.
  Proof.
    assert (Epair : hf4 = def_accessors MSet BSetter Ss (fst hf3, snd hf3)) by (unfold hf4; rewrite <- surjective_pairing; reflexivity).
    rewrite Epair. apply acc_final; [exact MSet_inj | apply (ai_name _ _ _ _ _ _ _ sf_acc3) |].
    intros x a Ha. rewrite (ai_other _ _ _ _ _ _ _ sf_acc3) in Ha by (intros [y [_ E]]; discriminate).
    destruct (sf_tbl2_valid _ _ Ha) as [H1 H2]. split; [assert (Hl := ai_len _ _ _ _ _ _ _ sf_acc3); lia |].
    rewrite (ai_old _ _ _ _ _ _ _ sf_acc3 a H1). exact H2.
  Qed.
  Lemma sf_heap4 : length (st_heap st) <= length h4 /\ forall a, a < length (st_heap st) -> deref h4 a = deref (st_heap st) a.
  Proof.
    assert (L3 := ai_len _ _ _ _ _ _ _ sf_acc3). assert (L4 := ai_len _ _ _ _ _ _ _ sf_acc4). split; [unfold h4; lia |].
    intros a Ha. unfold h4. rewrite (ai_old _ _ _ _ _ _ _ sf_acc4) by lia. apply (ai_old _ _ _ _ _ _ _ sf_acc3 a Ha).
  Qed.
  Lemma sf_nf4_basic : f_name nf4 = f /\ f_inherit nf4 = L /\ f_vars nf4 = f_vars nf1 /\ f_keys nf4 = set_all Nat.eqb (f_keys nf1) keys /\ f_prec nf4 = [].
  Proof.
    destruct (ai_same _ _ _ _ _ _ _ sf_acc4) as (A1 & A2 & A3 & A4). destruct (ai_same _ _ _ _ _ _ _ sf_acc3) as (B1 & B2 & B3 & B4).
    unfold nf4. rewrite A1, A2, A3, A4, B1, B2, B3, B4. split; [apply (ai_name _ _ _ _ _ _ _ sf_acc4) |].
    split; [apply sf_nf1_basic | repeat split].
  Qed.
  Lemma sf_nf4_io : f_initable nf4 = f_initable nf1 ++ acc_vars (io_inits io) nf1 /\ f_required nf4 = add_missing (f_required nf1) (io_reqs io).
  Proof.
    destruct (ai_io _ _ _ _ _ _ _ sf_acc4) as (A1 & A2). destruct (ai_io _ _ _ _ _ _ _ sf_acc3) as (B1 & B2).
    unfold nf4. rewrite A1, A2, B1, B2. split; reflexivity.
  Qed.
  Lemma sf_nf4_keys : NoDup (map fst (f_meths nf4)) /\ noempty (f_meths nf4).
  Proof.
    destruct sf_mkeys1 as [K E]. destruct (ai_keys _ _ _ _ _ _ _ sf_acc3 K E) as [K3 E3]. apply (ai_keys _ _ _ _ _ _ _ sf_acc4 K3 E3).
  Qed.
  Lemma sf_get : forall x, In x Gs -> exists a, tbl_of nf4 (MGet x) = a :: filter_map (fun g => A g (MGet x)) L /\
                                            length (st_heap st) <= a < length h4 /\ deref h4 a = acc_combo f (BGetter x).
  Proof.
    intros x Hx. destruct (ai_acc _ _ _ _ _ _ _ sf_acc3 x Hx) as (a & H1 & H2 & H3). exists a.
    assert (Hsame : tbl_of nf4 (MGet x) = tbl_of (snd hf3) (MGet x)).
    { unfold nf4. apply (ai_other _ _ _ _ _ _ _ sf_acc4). intros [y [_ E]]. discriminate. }
    rewrite Hsame, H1, sf_tbl2. split; [reflexivity |]. assert (L4 := ai_len _ _ _ _ _ _ _ sf_acc4). split; [unfold h4; lia |].
    unfold h4. rewrite (ai_old _ _ _ _ _ _ _ sf_acc4) by lia. exact H3.
  Qed.
  Lemma sf_set : forall x, In x Ss -> exists a, tbl_of nf4 (MSet x) = a :: filter_map (fun g => A g (MSet x)) L /\
                                            length (st_heap st) <= a < length h4 /\ deref h4 a = acc_combo f (BSetter x).
  Proof.
    intros x Hx. destruct (ai_acc _ _ _ _ _ _ _ sf_acc4 x Hx) as (a & H1 & H2 & H3). exists a.
    assert (Hsame : tbl_of (snd hf3) (MSet x) = tbl_of nf2 (MSet x)).
    { apply (ai_other _ _ _ _ _ _ _ sf_acc3). intros [y [_ E]]. discriminate. }
    unfold nf4. rewrite H1, Hsame, sf_tbl2. split; [reflexivity |]. assert (L3 := ai_len _ _ _ _ _ _ _ sf_acc3).
    split; [unfold h4; lia | exact H3].
  Qed.
  Lemma sf_other : forall m, (forall x, In x Gs -> m <> MGet x) -> (forall x, In x Ss -> m <> MSet x) -> tbl_of nf4 m = filter_map (fun g => A g m) L.
  Proof.
    intros m H1 H2. unfold nf4. rewrite (ai_other _ _ _ _ _ _ _ sf_acc4) by (intros [y [Hy E]]; apply (H2 y Hy E)).
    rewrite (ai_other _ _ _ _ _ _ _ sf_acc3) by (intros [y [Hy E]]; apply (H1 y Hy E)). apply sf_tbl2.
  Qed.

  (* the address map of the new state *)
  Definition headf (m : mid) : option nat :=
    match tbl_of nf4 m with a :: _ => if c_from (deref h4 a) =? f then Some a else None | [] => None end.
  Definition A2 (g : nat) (m : mid) : option nat := if g =? f then headf m else A g m.

  Lemma sf_head_inherited : forall m, tbl_of nf4 m = filter_map (fun g => A g m) L -> headf m = None.
  Proof.
    intros m H. unfold headf. rewrite H. destruct (filter_map (fun g => A g m) L) as [| a r] eqn:E; [reflexivity |].
    assert (Hin : In a (filter_map (fun g => A g m) L)) by (rewrite E; left; reflexivity).
    apply in_filter_map in Hin. destruct Hin as [y [Hy HA]]. destruct (A_valid st ss A I y m a HA) as (H1 & H2 & _).
    rewrite (proj2 sf_heap4 a H1), H2. destruct (y =? f) eqn:Ey; [| reflexivity]. apply Nat.eqb_eq in Ey.
    exfalso. destruct (sf_L_defined y Hy) as (_ & Hyf & _). apply Hyf. exact Ey.
  Qed.
  Lemma sf_headf : forall m,
    match headf m with
    | Some a => length (st_heap st) <= a < length h4 /\ tbl_of nf4 m = a :: filter_map (fun g => A g m) L /\
                ((exists x, m = MGet x /\ In x Gs /\ deref h4 a = acc_combo f (BGetter x)) \/
                 (exists x, m = MSet x /\ In x Ss /\ deref h4 a = acc_combo f (BSetter x)))
    | None => tbl_of nf4 m = filter_map (fun g => A g m) L /\ (forall x, In x Gs -> m <> MGet x) /\ (forall x, In x Ss -> m <> MSet x)
    end.
  Proof.
    intros m.
    assert (Hget : forall x, In x Gs -> m = MGet x -> match headf m with Some a => length (st_heap st) <= a < length h4 /\
                     tbl_of nf4 m = a :: filter_map (fun g => A g m) L /\
                     ((exists x, m = MGet x /\ In x Gs /\ deref h4 a = acc_combo f (BGetter x)) \/
                      (exists x, m = MSet x /\ In x Ss /\ deref h4 a = acc_combo f (BSetter x))) | None => False end).
    { intros x Hx Em. subst m. destruct (sf_get x Hx) as (a & T & B & C). unfold headf. rewrite T, C. simpl. rewrite Nat.eqb_refl.
      split; [exact B |]. split; [reflexivity |]. left. exists x. auto. }
    assert (Hset : forall x, In x Ss -> m = MSet x -> match headf m with Some a => length (st_heap st) <= a < length h4 /\
                     tbl_of nf4 m = a :: filter_map (fun g => A g m) L /\
                     ((exists x, m = MGet x /\ In x Gs /\ deref h4 a = acc_combo f (BGetter x)) \/
                      (exists x, m = MSet x /\ In x Ss /\ deref h4 a = acc_combo f (BSetter x))) | None => False end).
    { intros x Hx Em. subst m. destruct (sf_set x Hx) as (a & T & B & C). unfold headf. rewrite T, C. simpl. rewrite Nat.eqb_refl.
      split; [exact B |]. split; [reflexivity |]. right. exists x. auto. }
    assert (Hoth : (forall x, In x Gs -> m <> MGet x) -> (forall x, In x Ss -> m <> MSet x) ->
                   match headf m with Some _ => False | None => tbl_of nf4 m = filter_map (fun g => A g m) L /\
                      (forall x, In x Gs -> m <> MGet x) /\ (forall x, In x Ss -> m <> MSet x) end).
    { intros H1 H2. assert (T := sf_other m H1 H2). rewrite (sf_head_inherited m T). auto. }
    destruct m as [n | x | x].
    - assert (O := Hoth (fun x _ E => ltac:(discriminate)) (fun x _ E => ltac:(discriminate))). destruct (headf (MUser n)); [contradiction | exact O].
    - destruct (in_dec Nat.eq_dec x Gs) as [Hin | Hnin].
      + assert (G := Hget x Hin eq_refl). destruct (headf (MGet x)); [exact G | contradiction].
      + assert (O := Hoth (fun y Hy E => ltac:(inversion E; subst; contradiction)) (fun y _ E => ltac:(discriminate))).
        destruct (headf (MGet x)); [contradiction | exact O].
    - destruct (in_dec Nat.eq_dec x Ss) as [Hin | Hnin].
      + assert (G := Hset x Hin eq_refl). destruct (headf (MSet x)); [exact G | contradiction].
      + assert (O := Hoth (fun y _ E => ltac:(discriminate)) (fun y Hy E => ltac:(inversion E; subst; contradiction))).
        destruct (headf (MSet x)); [contradiction | exact O].
  Qed.
  Lemma sf_A2_old : forall g m, g <> f -> A2 g m = A g m.
  Proof. intros g m H. unfold A2. destruct (g =? f) eqn:E; [apply Nat.eqb_eq in E; contradiction | reflexivity]. Qed.
  Lemma sf_A2_L : forall m, filter_map (fun g => A2 g m) L = filter_map (fun g => A g m) L.
  Proof. intros m. apply filter_map_ext. intros y Hy. apply sf_A2_old. apply (sf_L_defined y Hy). Qed.
  Lemma sf_tbl4 : forall m, tbl_of nf4 m = filter_map (fun g => A2 g m) (f :: L).
  Proof.
    intros m. simpl. unfold A2 at 1. rewrite Nat.eqb_refl, sf_A2_L. assert (H := sf_headf m). destruct (headf m); [apply H | apply H].
  Qed.
  Lemma sf_A2_from : forall m y b, A2 y m = Some b -> c_from (deref h4 b) = y.
  Proof.
    intros m y b H. unfold A2 in H. destruct (y =? f) eqn:E.
    - apply Nat.eqb_eq in E. subst y. assert (S := sf_headf m). rewrite H in S. destruct S as (_ & _ & [[x [_ [_ C]]] | [x [_ [_ C]]]]); rewrite C; reflexivity.
    - destruct (A_valid st ss A I y m b H) as (H1 & H2 & _). rewrite (proj2 sf_heap4 b H1). exact H2.
  Qed.

  (* ---- vanilla-flavor last ---- *)
  Let st4 := {| st_flavors := st_flavors st; st_heap := h4 |}.
  Lemma sf_vanilla_rec : exists vfl, find_flavor st vanilla = Some vfl /\ In vfl (st_flavors st) /\ f_name vfl = vanilla /\
                                     f_inherit vfl = [] /\ f_vars vfl = [] /\ f_keys vfl = [].
  Proof.
    assert (Hin : In vanilla (map f_name (st_flavors st))) by (apply (i_dom _ _ _ I); left; reflexivity).
    destruct (find_flavor st vanilla) as [vfl |] eqn:E; [| apply find_flavor_none in E; contradiction].
    destruct (find_flavor_some _ _ _ E) as [H1 H2]. exists vfl. destruct (i_van _ _ _ I vfl H1 H2) as (V1 & V2 & V3 & _). auto 10.
  Qed.
  Lemma sf_vanilla_io : forall vfl, find_flavor st vanilla = Some vfl -> f_initable vfl = [] /\ f_required vfl = [].
  Proof.
    intros vfl E. destruct (find_flavor_some _ _ _ E) as [H1 H2]. destruct (i_van _ _ _ I vfl H1 H2) as (_ & _ & _ & V4 & V5). auto.
  Qed.
  Let nf6 := {| f_name := f; f_inherit := L ++ [vanilla]; f_vars := f_vars nf1; f_keys := set_all Nat.eqb (f_keys nf1) keys;
                f_meths := merge_meths fixed h4 (f_meths nf4) vanilla
                             (match find_flavor st vanilla with Some vfl => f_meths vfl | None => [] end);
                f_prec := f :: L ++ [vanilla]; f_initable := f_initable nf1 ++ acc_vars (io_inits io) nf1;
                f_required := add_missing (f_required nf1) (io_reqs io) |}.
  Lemma sf_inherit_vanilla :
    inherit_flavor fixed (inherit_fuel st) st4 nf4 vanilla =
    Some {| f_name := f; f_inherit := L ++ [vanilla]; f_vars := f_vars nf1; f_keys := set_all Nat.eqb (f_keys nf1) keys;
            f_meths := f_meths nf6; f_prec := []; f_initable := f_initable nf1 ++ acc_vars (io_inits io) nf1;
            f_required := add_missing (f_required nf1) (io_reqs io) |}.
  Proof.
    destruct sf_vanilla_rec as (vfl & V1 & V2 & V3 & V4 & V5 & V6). destruct sf_nf4_basic as (B1 & B2 & B3 & B4 & B5).
    destruct (sf_vanilla_io vfl V1) as [V7 V8].
    unfold inherit_fuel. cbn [inherit_flavor]. rewrite B2, mem_existsb.
    assert (Hm : mem vanilla L = false).
    { apply mem_false. intros Hin. destruct (sf_L_defined vanilla Hin) as (_ & _ & Hv). apply Hv. reflexivity. }
    rewrite Hm. change (find_flavor st4 vanilla) with (find_flavor st vanilla). rewrite V1, V4, V5, V6. cbn [fold_left].
    destruct sf_nf4_io as [B6 B7]. unfold nf6. change (v_io fixed) with true. cbv iota.
    rewrite V7, V8, V1, B1, B3, B4, B5, B6, B7. rewrite app_nil_r. reflexivity.
  Qed.
  Lemma sf_tbl6 : forall m, tbl_of nf6 m = filter_map (fun g => A2 g m) (f :: L ++ [vanilla]).
  Proof.
    intros m. destruct sf_vanilla_rec as (vfl & V1 & V2 & V3 & V4 & V5 & V6).
    rewrite tbl_of_tblm. unfold nf6. simpl f_meths. rewrite V1. rewrite merge_meths_tblm by (apply (i_keys _ _ _ I vfl V2)).
    rewrite <- !tbl_of_tblm, sf_tbl4.
    assert (Hf0 : filter (fun a => negb (skipv h4 vanilla a)) (tbl_of vfl m) = tbl_of vfl m).
    { apply filter_all. intros a _. unfold skipv. rewrite Nat.eqb_refl. simpl. rewrite andb_false_r. reflexivity. }
    rewrite Hf0, (i_tbl _ _ _ I vfl m V2), V3, V4.
    assert (Hv : filter_map (fun g => A g m) [vanilla] = filter_map (fun g => A2 g m) [vanilla]).
    { apply filter_map_ext. intros y [Hy | []]. subst y. symmetry. apply sf_A2_old. congruence. }
    rewrite Hv, (add_addr_fold h4 (fun g => A2 g m) (sf_A2_from m)). f_equal.
    change (f :: L ++ [vanilla]) with ((f :: L) ++ [vanilla]). apply adds_nodup_app.
    apply NoDup_snoc; [constructor; [| apply sf_L_nodup] |].
    - intros Hin. destruct (sf_L_defined f Hin) as (_ & Hff & _). apply Hff. reflexivity.
    - intros [Hv' | Hv']; [congruence |]. destruct (sf_L_defined vanilla Hv') as (_ & _ & Hvv). apply Hvv. reflexivity.
  Qed.
  Lemma sf_keys6 : NoDup (map fst (f_meths nf6)) /\ noempty (f_meths nf6).
  Proof. destruct sf_nf4_keys as [K E]. unfold nf6. simpl f_meths. apply merge_meths_keys; assumption. Qed.

  (* ---- the specification's side ---- *)
  Let ss1 := {| ss_decls := ds'; ss_slots := ss_slots ss |}.
  Let ss2 := fold_left (fun s x => s_set_slot s f (MGet x) DPrimary (BGetter x)) (s_acc gets ds' f) ss1.
  Let ss3 := fold_left (fun s x => s_set_slot s f (MSet x) DPrimary (BSetter x)) (s_acc sets ds' f) ss2.
  Lemma sf_sstep : sstep ss (DFlavor f vars comps keys gets sets io) = ss3.
  Proof. reflexivity. Qed.
  Lemma sf_no_slot : forall m, s_slot ss f m = None.
  Proof.
    intros m. destruct (s_slot ss f m) eqn:E; [| reflexivity]. destruct (i_sdef _ _ _ I f m c E) as [H | H]; [contradiction | congruence].
  Qed.
  Lemma sf_in_keys : forall x (l : list (nat * val)), In x (map fst l) <-> lookup Nat.eqb x l <> None.
  Proof. intros. symmetry. apply (lookup_in_keys Nat.eqb nat_eqb_spec). Qed.
  Lemma sf_acc_same : forall a x, In x (acc_vars a nf2) <-> In x (s_acc a ds' f).
  Proof.
    intros [| | l] x; simpl; [tauto | | tauto]. change (f_vars nf2) with (f_vars nf1). rewrite sf_in_keys, sf_vars.
    unfold s_var, s_allvars. rewrite firstsome_exists, in_nub, in_flat_map. split.
    - intros [g [Hg Ho]]. exists g. split; [exact Hg |]. unfold own_var in Ho. destruct (decl_of ds' g); [| congruence].
      apply sf_in_keys. exact Ho.
    - intros [g [Hg Ho]]. exists g. split; [exact Hg |]. unfold own_var. destruct (decl_of ds' g); [| contradiction].
      apply sf_in_keys. exact Ho.
  Qed.
  Lemma sf_spec_slots :
    ss_decls ss3 = ds' /\
    (forall x, In x Gs -> s_slot ss3 f (MGet x) = Some (acc_combo f (BGetter x))) /\
    (forall x, In x Ss -> s_slot ss3 f (MSet x) = Some (acc_combo f (BSetter x))) /\
    (forall g m, (g <> f \/ ((forall x, In x Gs -> m <> MGet x) /\ (forall x, In x Ss -> m <> MSet x))) -> s_slot ss3 g m = s_slot ss g m).
  Proof.
    assert (O1 : acc_ok MGet BGetter f ss1) by (intros y; left; apply sf_no_slot).
    destruct (s_acc_fold MGet BGetter f MGet_inj (s_acc gets ds' f) ss1 O1) as (D2 & _ & G2 & N2). fold ss2 in D2, G2, N2.
    assert (O2 : acc_ok MSet BSetter f ss2).
    { intros y. left. rewrite N2; [apply sf_no_slot |]. intros [_ [z [_ E]]]. discriminate. }
    destruct (s_acc_fold MSet BSetter f MSet_inj (s_acc sets ds' f) ss2 O2) as (D3 & _ & G3 & N3). fold ss3 in D3, G3, N3.
    split; [rewrite D3, D2; reflexivity |]. split; [| split].
    - intros x Hx. rewrite N3; [apply G2; apply sf_acc_same; exact Hx |]. intros [_ [z [_ E]]]. discriminate.
    - intros x Hx. apply G3. apply sf_acc_same. exact Hx.
    - intros g m H. rewrite N3, N2; [reflexivity | |].
      + intros [Eg [z [Hz Ez]]]. destruct H as [H | [H _]]; [contradiction |]. apply (H z); [apply sf_acc_same; exact Hz | exact Ez].
      + intros [Eg [z [Hz Ez]]]. destruct H as [H | [_ H]]; [contradiction |]. apply (H z); [apply sf_acc_same; exact Hz | exact Ez].
  Qed.

  (* ---- the new state ---- *)
  Lemma sf_f_fresh : ~ In f (map f_name (st_flavors st)).
  Proof. intros Hin. apply (i_dom _ _ _ I) in Hin. destruct Hin as [H | H]; [contradiction | congruence]. Qed.
  Lemma sf_run : def_flavor fixed st f vars comps keys gets sets io = ({| st_flavors := st_flavors st ++ [nf6]; st_heap := h4 |}, Ok).
  Proof.
    unfold def_flavor.
    assert (He : existsb (fun fl => f_name fl =? f) (st_flavors st) = false).
    { destruct (existsb _ _) eqn:E; [| reflexivity]. exfalso. apply existsb_exists in E. destruct E as [fl [H1 H2]].
      apply Nat.eqb_eq in H2. apply sf_f_fresh. rewrite <- H2. apply in_map. exact H1. }
    rewrite He. fold nf0. change (fold_left _ comps (inr nf0)) with (fold_left (comp_step st) comps (inr nf0)). rewrite sf_comps.
    cbv zeta. change (v_io fixed) with true. cbv iota. fold nf2. fold Gs. fold Ss. fold hf3. fold hf4. fold h4. fold nf4. fold st4. rewrite sf_inherit_vanilla. reflexivity.
  Qed.
  Lemma sf_old_not_f : forall fl y, In fl (st_flavors st) -> In y (f_name fl :: f_inherit fl) -> y <> f.
  Proof.
    intros fl y Hfl Hy E. subst y. destruct Hy as [Hy | Hy].
    - apply sf_f_fresh. rewrite <- Hy. apply in_map. exact Hfl.
    - destruct (Nat.eq_dec (f_name fl) vanilla) as [Ev | Ev].
      + rewrite (proj1 (i_van _ _ _ I fl Hfl Ev)) in Hy. contradiction.
      + destruct (i_user _ _ _ I fl Hfl Ev) as (Hi & _). rewrite Hi in Hy. apply in_app_iff in Hy. destruct Hy as [Hy | [Hy | []]]; [| congruence].
        assert (Hd : defined ds f = true).
        { apply (prec_defined ds W (f_name fl)). rewrite (prec_head ds W _ (user_defined st ss A I fl Hfl Ev)). right. exact Hy. }
        congruence.
  Qed.
  Lemma sf_svar_old : forall g v, defined ds g = true -> s_var ds' g v = s_var ds g v.
  Proof.
    intros g v H. unfold s_var. rewrite (sf_prec_old g H). apply firstsome_ext. intros y Hy. apply sf_own_var_old.
    intros E. subst y. apply (prec_defined ds W g) in Hy. congruence.
  Qed.
  Lemma sf_skey_old : forall g k, defined ds g = true -> s_key ds' g k = s_key ds g k.
  Proof.
    intros g k H. unfold s_key. rewrite (sf_prec_old g H). apply firstsome_ext. intros y Hy. apply sf_own_key_old.
    intros E. subst y. apply (prec_defined ds W g) in Hy. congruence.
  Qed.
  Lemma sf_sacc_old : forall a g, defined ds g = true -> s_acc a ds' g = s_acc a ds g.
  Proof.
    intros [| | l] g H; simpl; try reflexivity. unfold s_allvars. rewrite (sf_prec_old g H). f_equal. apply flat_map_ext_in.
    intros y Hy. unfold ds'. rewrite decl_of_cons. destruct (y =? f) eqn:E; [| reflexivity]. apply Nat.eqb_eq in E. subst y.
    apply (prec_defined ds W g) in Hy. congruence.
  Qed.
  Lemma sf_sinit_old : forall g, defined ds g = true -> s_initable ds' g = s_initable ds g /\ s_required ds' g = s_required ds g.
  Proof.
    intros g H. unfold s_initable, s_required. assert (E : decl_of ds' g = decl_of ds g).
    { unfold ds'. rewrite decl_of_cons. destruct (g =? f) eqn:E; [| reflexivity]. apply Nat.eqb_eq in E. subst g. congruence. }
    rewrite E. destruct (decl_of ds g); [| split; reflexivity]. rewrite (sf_sacc_old _ g H). split; reflexivity.
  Qed.
  Lemma sf_sinit_new : s_initable ds' f = s_acc (io_inits io) ds' f /\ s_required ds' f = io_reqs io.
  Proof. unfold s_initable, s_required, ds'. rewrite decl_of_cons, Nat.eqb_refl. split; reflexivity. Qed.
  Lemma sf_sinit_all_old : forall g, defined ds g = true ->
    s_initable_all ds' g = s_initable_all ds g /\ s_required_inh ds' g = s_required_inh ds g.
  Proof.
    intros g H. unfold s_initable_all, s_required_inh. rewrite (sf_prec_old g H).
    split; [| f_equal]; apply flat_map_ext_in; intros y Hy; apply (sf_sinit_old y (prec_defined ds W g y Hy)).
  Qed.
  Lemma sf_L_closed : forall g g', In g L -> In g' (prec ds g) -> In g' L.
  Proof. intros g g' Hg Hg'. rewrite <- sf_L_flat. apply in_nub. apply in_flat_map. exists g. auto. Qed.
  (* what the components hand down: the union over L of what each flavor of L declares itself *)
  Lemma sf_union : forall (F : flavor -> list nat) (S S' : nat -> list nat) (x : nat),
    (forall g c, In g L -> find_flavor st g = Some c -> forall y, In y (F c) <-> exists g', In g' (prec ds g) /\ In y (S g')) ->
    (forall g', In g' L -> S' g' = S g') ->
    ((exists g c, In g L /\ find_flavor st g = Some c /\ In x (F c)) <-> In x (flat_map S' L)).
  Proof.
    intros F S S' x HF HS. rewrite in_flat_map. split.
    - intros (g & c & Hg & Hfc & Hx). apply (HF g c Hg Hfc) in Hx. destruct Hx as (g' & Hg' & Hx).
      exists g'. assert (In g' L) as Hl by (apply (sf_L_closed g g' Hg Hg')). split; [exact Hl |]. rewrite (HS g' Hl). exact Hx.
    - intros (g' & Hg' & Hx). rewrite (HS g' Hg') in Hx. destruct (sf_L_defined g' Hg') as (Hd & _).
      destruct (sf_rec_user g' Hd) as (c & Hc & _). exists g', c. split; [exact Hg' |]. split; [exact Hc |].
      apply (HF g' c Hg' Hc). exists g'. split; [apply (prec_self ds W g' Hd) | exact Hx].
  Qed.
  Lemma sf_io6 : (forall v, In v (f_initable nf6) <-> In v (s_initable_all ds' f)) /\
                 (forall k, In k (f_required nf6) <-> In k (s_required_inh ds' f)).
  Proof.
    destruct sf_sinit_new as [N1 N2]. unfold s_initable_all, s_required_inh. rewrite sf_prec_new. cbn [flat_map f_initable f_required nf6].
    rewrite N1, N2. destruct (absorb_fold_io st L nf0) as [A1 A2]. fold nf1 in A1, A2. split.
    - intros v. rewrite !in_app_iff, A1. cbn [f_initable nf0].
      rewrite (sf_union f_initable (s_initable ds) (s_initable ds') v).
      + change (acc_vars (io_inits io) nf1) with (acc_vars (io_inits io) nf2).
        rewrite (sf_acc_same (io_inits io) v). split; [intros [[[] | H] | H]; tauto | intros [H | H]; tauto].
      + intros g c Hg Hc y. destruct (sf_L_defined g Hg) as (Hd & _). destruct (sf_rec_user g Hd) as (c' & Hc' & Hin & Hn & Hv).
        rewrite Hc in Hc'. inversion Hc'; subst c'. destruct (i_io _ _ _ I c Hin) as [Q1 _]; [congruence |].
        rewrite Q1, Hn. unfold s_initable_all. rewrite in_flat_map. tauto.
      + intros g' Hg'. apply (sf_sinit_old g'). apply (sf_L_defined g' Hg').
    - intros k. rewrite in_nub, in_app_iff, add_missing_In, A2. cbn [f_required nf0].
      rewrite (sf_union f_required (s_required ds) (s_required ds') k).
      + split; [intros [[[] | H] | H]; tauto | intros [H | H]; tauto].
      + intros g c Hg Hc y. destruct (sf_L_defined g Hg) as (Hd & _). destruct (sf_rec_user g Hd) as (c' & Hc' & Hin & Hn & Hv).
        rewrite Hc in Hc'. inversion Hc'; subst c'. destruct (i_io _ _ _ I c Hin) as [_ Q2]; [congruence |].
        rewrite Q2, Hn. unfold s_required_inh. rewrite in_nub, in_flat_map. tauto.
      + intros g' Hg'. apply (sf_sinit_old g'). apply (sf_L_defined g' Hg').
  Qed.
  Lemma acc_combo_inj : forall b b', acc_combo f b = acc_combo f b' -> b = b'.
  Proof. intros b b' H. unfold acc_combo in H. simpl in H. inversion H. reflexivity. Qed.

  Lemma sf_inv : InvA {| st_flavors := st_flavors st ++ [nf6]; st_heap := h4 |} ss3 A2.
  Proof.
    destruct sf_spec_slots as (SD & SG & SS & SO). destruct sf_heap4 as [HL HO].
    constructor; cbn [st_flavors st_heap]; rewrite ?SD.
    - apply sf_wfd.
    - rewrite map_app. simpl. apply NoDup_snoc; [apply (i_names _ _ _ I) | apply sf_f_fresh].
    - intros x. rewrite map_app, in_app_iff. simpl. unfold ds'. rewrite defined_cons. rewrite (i_dom _ _ _ I x). split.
      + intros [[H | H] | [H | []]]; [left; exact H | right; rewrite H; apply orb_true_r | right; subst x; rewrite Nat.eqb_refl; reflexivity].
      + intros [H | H]; [left; left; exact H |]. apply orb_true_iff in H. destruct H as [H | H]; [apply Nat.eqb_eq in H; right; left; congruence | left; right; exact H].
    - intros fl Hfl E. apply in_app_iff in Hfl. destruct Hfl as [Hfl | [Hfl | []]]; [apply (i_van _ _ _ I fl Hfl E) |].
      subst fl. simpl in E. contradiction.
    - intros fl Hfl E. apply in_app_iff in Hfl. destruct Hfl as [Hfl | [Hfl | []]].
      + destruct (i_user _ _ _ I fl Hfl E) as (U1 & U2 & U3 & U4). assert (Hd := user_defined st ss A I fl Hfl E).
        rewrite (sf_prec_old _ Hd). split; [exact U1 |]. split; [exact U2 |]. split.
        * intros v. rewrite (sf_svar_old _ v Hd). apply U3.
        * intros k. rewrite (sf_skey_old _ k Hd). apply U4.
      + subst fl. simpl. rewrite sf_prec_new. simpl. split; [reflexivity |]. split; [reflexivity |]. split; [apply sf_vars | apply sf_keys].
    - intros fl Hfl E. apply in_app_iff in Hfl. destruct Hfl as [Hfl | [Hfl | []]].
      + destruct (i_io _ _ _ I fl Hfl E) as (Q1 & Q2). assert (Hd := user_defined st ss A I fl Hfl E).
        destruct (sf_sinit_all_old _ Hd) as [O1 O2]. rewrite O1, O2. split; assumption.
      + subst fl. exact sf_io6.
    - intros fl Hfl. apply in_app_iff in Hfl. destruct Hfl as [Hfl | [Hfl | []]]; [apply (i_keys _ _ _ I fl Hfl) | subst fl; apply sf_keys6].
    - intros fl m Hfl. apply in_app_iff in Hfl. destruct Hfl as [Hfl | [Hfl | []]].
      + rewrite (i_tbl _ _ _ I fl m Hfl). apply filter_map_ext. intros y Hy. symmetry. apply sf_A2_old. apply (sf_old_not_f fl y Hfl Hy).
      + subst fl. apply sf_tbl6.
    - intros g m. destruct (Nat.eq_dec g f) as [Eg | Eg].
      + subst g. unfold A2. rewrite Nat.eqb_refl. assert (S := sf_headf m). destruct (headf m) as [a |].
        * destruct S as (B & _ & [[x [Em [Hx C]]] | [x [Em [Hx C]]]]); subst m.
          -- rewrite (SG x Hx). exists a. repeat split; [lia | exact C].
          -- rewrite (SS x Hx). exists a. repeat split; [lia | exact C].
        * destruct S as (_ & N1 & N2). rewrite (SO f m (or_intror (conj N1 N2))), sf_no_slot. reflexivity.
      + rewrite (SO g m (or_introl Eg)), (sf_A2_old g m Eg). assert (S := i_slot _ _ _ I g m). destruct (s_slot ss g m); [| exact S].
        destruct S as (a & S1 & S2 & S3). exists a. repeat split; [exact S1 | lia | rewrite (HO a S2); exact S3].
    - intros g m g' m' a. unfold A2. destruct (g =? f) eqn:Eg; destruct (g' =? f) eqn:Eg'; intros H1 H2.
      + apply Nat.eqb_eq in Eg, Eg'. subst g g'. split; [reflexivity |].
        assert (S1 := sf_headf m). assert (S2 := sf_headf m'). rewrite H1 in S1. rewrite H2 in S2.
        destruct S1 as (_ & _ & [[x [Em [_ C]]] | [x [Em [_ C]]]]); destruct S2 as (_ & _ & [[x' [Em' [_ C']]] | [x' [Em' [_ C']]]]);
          subst m m'; rewrite C in C'; apply acc_combo_inj in C'; inversion C'; reflexivity.
      + exfalso. assert (S1 := sf_headf m). rewrite H1 in S1. destruct S1 as (B & _). destruct (A_valid st ss A I g' m' a H2) as (V & _). lia.
      + exfalso. assert (S2 := sf_headf m'). rewrite H2 in S2. destruct S2 as (B & _). destruct (A_valid st ss A I g m a H1) as (V & _). lia.
      + apply (i_inj _ _ _ I _ _ _ _ _ H1 H2).
    - intros g m c H. destruct (Nat.eq_dec g f) as [Eg | Eg].
      + subst g. assert (S := sf_headf m). destruct (headf m) as [a |].
        * destruct S as (_ & _ & [[x [Em [Hx C]]] | [x [Em [Hx C]]]]); subst m.
          -- rewrite (SG x Hx) in H. inversion H. reflexivity.
          -- rewrite (SS x Hx) in H. inversion H. reflexivity.
        * destruct S as (_ & N1 & N2). rewrite (SO f m (or_intror (conj N1 N2))), sf_no_slot in H. discriminate.
      + rewrite (SO g m (or_introl Eg)) in H. apply (i_from _ _ _ I g m c H).
    - intros g m c H. unfold ds'. rewrite defined_cons. destruct (Nat.eq_dec g f) as [Eg | Eg].
      + right. subst g. rewrite Nat.eqb_refl. reflexivity.
      + rewrite (SO g m (or_introl Eg)) in H. destruct (i_sdef _ _ _ I g m c H) as [Hv | Hd]; [left; exact Hv | right; rewrite Hd; apply orb_true_r].
  Qed.
End StepFlavor.

(* ---- every admissible form preserves the invariant ----------------------------------------------------------------- *)
Lemma step_flavor : forall st ss A f vars comps keys gets sets io, InvA st ss A ->
  form_ok (ss_decls ss) (DFlavor f vars comps keys gets sets io) = true ->
  exists A', snd (def_flavor fixed st f vars comps keys gets sets io) = Ok /\
             InvA (fst (def_flavor fixed st f vars comps keys gets sets io)) (sstep ss (DFlavor f vars comps keys gets sets io)) A'.
Proof.
  intros st ss A f vars comps keys gets sets io I H. simpl in H. apply andb_true_iff in H. destruct H as [H Hc].
  apply andb_true_iff in H. destruct H as [Hf Hn]. apply negb_true_iff in Hf, Hn. apply Nat.eqb_neq in Hf.
  assert (Hcs : forall c, In c comps -> c <> vanilla /\ defined (ss_decls ss) c = true).
  { intros c Hin. rewrite forallb_forall in Hc. specialize (Hc c Hin). apply andb_true_iff in Hc. destruct Hc as [C1 C2].
    apply negb_true_iff in C1. apply Nat.eqb_neq in C1. auto. }
  exists (A2 st ss A f vars comps keys gets sets io).
  rewrite (sf_run st ss A I f vars comps keys gets sets io Hf Hn Hcs). cbn [fst snd]. split; [reflexivity |].
  rewrite sf_sstep. apply (sf_inv st ss A I f vars comps keys gets sets io Hf Hn Hcs).
Qed.
