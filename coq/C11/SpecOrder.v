(* C11 — the specification does not depend on the order of the forms: for two admissible orders of the
   same forms (each slot written by at most one form) the recorded declarations and slots agree, hence so
   does everything computed from them. *)
From Coq Require Import Permutation.
From C11 Require Import Model Spec Lists SpecFacts Refine.

(* ---- the writes of a form, given the (final) declarations ---------------------------------------------------------- *)
Definition write := ((nat * mid) * (daemon * body))%type.
Definition wr (D : list (nat * decl)) (x : form) : list write :=
  match x with
  | DFlavor f _ _ _ gets sets _ =>
      map (fun v => ((f, MGet v), (DPrimary, BGetter v))) (s_acc gets D f) ++
      map (fun v => ((f, MSet v), (DPrimary, BSetter v))) (s_acc sets D f)
  | DMethod f d m id cont => [((f, m), (d, BUser id cont))]
  end.
Definition all_writes (D : list (nat * decl)) (h : list form) : list write := flat_map (wr D) h.
Definition wkey (w : write) : nat * mid * daemon := (fst w, fst (snd w)).
Definition form_decl (x : form) : option (nat * decl) :=
  match x with
  | DFlavor f vars comps keys _ _ io => Some (f, {| d_vars := set_all Nat.eqb [] vars; d_comps := comps; d_keys := set_all Nat.eqb [] keys; d_io := io |})
  | DMethod _ _ _ _ _ => None
  end.

Definition apply_write (sl : list ((nat * mid) * combo)) (w : write) : list ((nat * mid) * combo) :=
  aset fm_eqb (fst w) (set_slot (fst (snd w)) (snd (snd w))
                         (match lookup fm_eqb (fst w) sl with Some c => c | None => empty_combo (fst (fst w)) end)) sl.
Definition apply_writes (W : list write) (sl : list ((nat * mid) * combo)) := fold_left apply_write W sl.

Lemma set_slot_decls : forall ss g m d b, ss_decls (s_set_slot ss g m d b) = ss_decls ss.
Proof. reflexivity. Qed.
Lemma fold_set_decls : forall (mk : nat -> mid) (bd : nat -> body) f vs ss,
  ss_decls (fold_left (fun s x => s_set_slot s f (mk x) DPrimary (bd x)) vs ss) = ss_decls ss.
Proof. induction vs as [| x vs IH]; intros ss; simpl; [reflexivity | rewrite IH; reflexivity]. Qed.
Lemma fold_set_slots : forall (mk : nat -> mid) (bd : nat -> body) f vs ss,
  ss_slots (fold_left (fun s x => s_set_slot s f (mk x) DPrimary (bd x)) vs ss) =
  apply_writes (map (fun v => ((f, mk v), (DPrimary, bd v))) vs) (ss_slots ss).
Proof. induction vs as [| x vs IH]; intros ss; simpl; [reflexivity | rewrite IH; reflexivity]. Qed.
Lemma sstep_decls : forall ss x, ss_decls (sstep ss x) = match form_decl x with Some p => p :: ss_decls ss | None => ss_decls ss end.
Proof. intros ss [f vars comps keys gets sets io | f d m id cont]; simpl; [rewrite !fold_set_decls; reflexivity | reflexivity]. Qed.
Lemma sstep_slots : forall ss x, ss_slots (sstep ss x) = apply_writes (wr (ss_decls (sstep ss x)) x) (ss_slots ss).
Proof.
  intros ss [f vars comps keys gets sets io | f d m id cont].
  - rewrite sstep_decls. simpl. rewrite !fold_set_slots. unfold apply_writes. rewrite fold_left_app. reflexivity.
  - reflexivity.
Qed.
Lemma s_run_decls : forall h ss, ss_decls (s_run ss h) = rev (filter_map form_decl h) ++ ss_decls ss.
Proof.
  induction h as [| x h IH]; intros ss; simpl; [reflexivity |]. unfold s_run in *. simpl. rewrite IH, sstep_decls.
  destruct (form_decl x); simpl; [rewrite <- app_assoc; reflexivity | reflexivity].
Qed.

(* ---- later declarations do not change what an earlier flavor sees ------------------------------------------------- *)
Lemma wfd_app : forall later ds, wfd (later ++ ds) -> wfd ds.
Proof. induction later as [| [f d] later IH]; intros ds W; [exact W |]. apply IH. apply W. Qed.
Lemma defined_app_r : forall later ds g, defined ds g = true -> defined (later ++ ds) g = true.
Proof.
  induction later as [| [f d] later IH]; intros ds g H; [exact H |]. simpl app. rewrite defined_cons, (IH ds g H). apply orb_true_r.
Qed.
Lemma prec_app_old : forall later ds g, wfd (later ++ ds) -> defined ds g = true -> prec (later ++ ds) g = prec ds g.
Proof.
  induction later as [| [f d] later IH]; intros ds g W H; [reflexivity |]. simpl app in *.
  rewrite (prec_cons_old f d (later ++ ds) g W (defined_app_r later ds g H)). apply IH; [apply W | exact H].
Qed.
Lemma decl_of_app_old : forall later ds g, wfd (later ++ ds) -> defined ds g = true -> decl_of (later ++ ds) g = decl_of ds g.
Proof.
  induction later as [| [f d] later IH]; intros ds g W H; [reflexivity |]. simpl app in *. rewrite decl_of_cons.
  destruct W as (_ & Hn & _ & W). destruct (g =? f) eqn:E.
  - apply Nat.eqb_eq in E. subst g. rewrite (defined_app_r later ds f H) in Hn. discriminate.
  - apply IH; assumption.
Qed.
Lemma s_acc_app_old : forall a later ds g, wfd (later ++ ds) -> defined ds g = true -> s_acc a (later ++ ds) g = s_acc a ds g.
Proof.
  intros [| | l] later ds g W H; simpl; try reflexivity. unfold s_allvars. rewrite (prec_app_old later ds g W H). f_equal.
  apply flat_map_ext_in. intros y Hy. rewrite (decl_of_app_old later ds y W); [reflexivity |].
  apply (prec_defined ds (wfd_app later ds W) g y Hy).
Qed.
Lemma wr_app_old : forall later ds x, wfd (later ++ ds) ->
  (match x with DFlavor f _ _ _ _ _ _ => defined ds f = true | DMethod _ _ _ _ _ => True end) -> wr (later ++ ds) x = wr ds x.
Proof.
  intros later ds [f vars comps keys gets sets io | f d m id cont] W H; simpl; [| reflexivity].
  rewrite !(s_acc_app_old _ later ds f W H). reflexivity.
Qed.

(* the recorded slots are the writes of all forms, taken with the final declarations *)
Lemma wf_from_wfd : forall h ss, wfd (ss_decls ss) -> wf_from ss h = true -> wfd (ss_decls (s_run ss h)).
Proof.
  induction h as [| x h IH]; intros ss W H; [exact W |]. simpl in H. apply andb_true_iff in H. destruct H as [Hx Hh].
  unfold s_run. simpl. apply IH; [| exact Hh]. rewrite sstep_decls.
  destruct x as [f vars comps keys gets sets io | f d m id cont]; simpl; [| exact W].
  simpl in Hx. apply andb_true_iff in Hx. destruct Hx as [Hx Hc]. apply andb_true_iff in Hx. destruct Hx as [Hf Hn].
  apply negb_true_iff in Hf, Hn. apply Nat.eqb_neq in Hf. repeat split; [exact Hf | exact Hn | | | exact W];
    rewrite forallb_forall in Hc; specialize (Hc c H); apply andb_true_iff in Hc; destruct Hc as [C1 C2];
    [apply negb_true_iff in C1; apply Nat.eqb_neq in C1; exact C1 | exact C2].
Qed.
Lemma s_run_slots : forall h ss, wfd (ss_decls ss) -> wf_from ss h = true ->
  ss_slots (s_run ss h) = apply_writes (all_writes (ss_decls (s_run ss h)) h) (ss_slots ss).
Proof.
  induction h as [| x h IH]; intros ss W H; [reflexivity |].
  assert (Wfin := wf_from_wfd (x :: h) ss W H).
  simpl in H. apply andb_true_iff in H. destruct H as [Hx Hh].
  assert (W1 : wfd (ss_decls (sstep ss x))).
  { assert (Hone : wf_from ss [x] = true) by (simpl; rewrite Hx; reflexivity). apply (wf_from_wfd [x] ss W Hone). }
  unfold s_run in *. simpl fold_left in *. rewrite (IH (sstep ss x) W1 Hh). unfold all_writes, apply_writes. simpl flat_map.
  rewrite fold_left_app. f_equal. rewrite sstep_slots. unfold apply_writes. f_equal.
  assert (Hd := s_run_decls h (sstep ss x)). unfold s_run in Hd. rewrite Hd. symmetry. apply wr_app_old.
  - rewrite <- Hd. exact Wfin.
  - destruct x as [f vars comps keys gets sets io | f d m id cont]; [| exact I]. rewrite sstep_decls. simpl. rewrite defined_cons, Nat.eqb_refl. reflexivity.
Qed.

(* ---- the effect of a list of writes on one slot --------------------------------------------------------------------- *)
Definition ws_for (k : nat * mid) (W : list write) : list (daemon * body) :=
  filter_map (fun w => if fm_eqb (fst w) k then Some (snd w) else None) W.
Definition apply_k (c0 : combo) (ws : list (daemon * body)) : combo := fold_left (fun c db => set_slot (fst db) (snd db) c) ws c0.
Lemma fm_eqb_sym : forall a b, fm_eqb a b = fm_eqb b a.
Proof.
  intros a b. destruct (fm_eqb a b) eqn:E.
  - apply fm_eqb_spec in E. subst. symmetry. apply fm_eqb_spec. reflexivity.
  - destruct (fm_eqb b a) eqn:E2; [| reflexivity]. apply fm_eqb_spec in E2. subst. rewrite (proj2 (fm_eqb_spec _ _) eq_refl) in E. discriminate.
Qed.
Lemma apply_k_cons : forall c0 db ws, apply_k c0 (db :: ws) = apply_k (set_slot (fst db) (snd db) c0) ws.
Proof. reflexivity. Qed.
Lemma ws_for_cons : forall k w W, ws_for k (w :: W) = if fm_eqb (fst w) k then snd w :: ws_for k W else ws_for k W.
Proof. intros. unfold ws_for. simpl. destruct (fm_eqb (fst w) k); reflexivity. Qed.
Lemma lookup_apply_writes : forall W sl k,
  lookup fm_eqb k (apply_writes W sl) =
  match ws_for k W with
  | [] => lookup fm_eqb k sl
  | ws => Some (apply_k (match lookup fm_eqb k sl with Some c => c | None => empty_combo (fst k) end) ws)
  end.
Proof.
  unfold apply_writes. induction W as [| w W IH]; intros sl k; [reflexivity |].
  cbn [fold_left]. rewrite IH, ws_for_cons. unfold apply_write. rewrite (lookup_aset fm_eqb fm_eqb_spec), (fm_eqb_sym k (fst w)).
  destruct (fm_eqb (fst w) k) eqn:E.
  - apply fm_eqb_spec in E. subst k. rewrite apply_k_cons. destruct (ws_for (fst w) W); reflexivity.
  - reflexivity.
Qed.
Definition daemon_eqb (a b : daemon) : bool :=
  match a, b with DPrimary, DPrimary | DBefore, DBefore | DAfter, DAfter | DWhopper, DWhopper => true | _, _ => false end.
Lemma set_slot_comm : forall d1 b1 d2 b2 c, d1 <> d2 -> set_slot d1 b1 (set_slot d2 b2 c) = set_slot d2 b2 (set_slot d1 b1 c).
Proof. intros [] b1 [] b2 c H; try reflexivity; contradiction. Qed.
Lemma apply_k_perm : forall ws ws', Permutation ws ws' -> NoDup (map fst ws) -> forall c0, apply_k c0 ws = apply_k c0 ws'.
Proof.
  unfold apply_k. intros ws ws' P. induction P; intros N c0.
  - reflexivity.
  - simpl. inversion N; subst. apply IHP. assumption.
  - simpl. inversion N as [| ? ? N1 N2]; subst. f_equal. apply set_slot_comm. intros E. apply N1. left. exact E.
  - rewrite IHP1 by exact N. apply IHP2. apply (Permutation_NoDup (Permutation_map fst P1) N).
Qed.
Lemma Permutation_filter_map : forall {T B} (phi : T -> option B) l l', Permutation l l' -> Permutation (filter_map phi l) (filter_map phi l').
Proof.
  intros T B phi l l' P. induction P; simpl.
  - constructor.
  - destruct (phi x); [constructor |]; exact IHP.
  - destruct (phi x), (phi y); try apply Permutation_refl. apply perm_swap.
  - eapply Permutation_trans; eassumption.
Qed.
Lemma ws_for_nodup : forall k W, NoDup (map wkey W) -> NoDup (map fst (ws_for k W)).
Proof.
  intros k. induction W as [| w W IH]; intros N; [constructor |]. inversion N as [| ? ? N1 N2]; subst. rewrite ws_for_cons.
  destruct (fm_eqb (fst w) k) eqn:E; [| apply IH; exact N2]. simpl. constructor; [| apply IH; exact N2].
  intros Hin. apply N1. apply in_map_iff in Hin. destruct Hin as [db [Hd Hin]]. unfold ws_for in Hin. apply in_filter_map in Hin.
  destruct Hin as [w' [Hw' Hs]]. destruct (fm_eqb (fst w') k) eqn:E'; [| discriminate]. inversion Hs; subst db.
  apply in_map_iff. exists w'. split; [| exact Hw']. unfold wkey. apply fm_eqb_spec in E, E'. rewrite E, E', Hd. reflexivity.
Qed.

(* ---- lookups in association lists without duplicate keys are order free ---------------------------------------------- *)
Lemma lookup_in_nodup : forall (l : list (nat * decl)) k v, NoDup (map fst l) -> (lookup Nat.eqb k l = Some v <-> In (k, v) l).
Proof.
  induction l as [| [k0 v0] l IH]; intros k v N; simpl.
  - split; [discriminate | intros []].
  - inversion N as [| ? ? N1 N2]; subst. destruct (k =? k0) eqn:E.
    + apply Nat.eqb_eq in E. subst k0. split.
      * intros H. inversion H. left. reflexivity.
      * intros [H | H]; [inversion H; reflexivity |]. exfalso. apply N1. apply in_map_iff. exists (k, v). auto.
    + rewrite (IH k v N2). split; [auto |]. intros [H | H]; [| exact H]. inversion H. subst. rewrite Nat.eqb_refl in E. discriminate.
Qed.
Lemma lookup_perm : forall (l l' : list (nat * decl)) k, NoDup (map fst l) -> Permutation l l' -> lookup Nat.eqb k l = lookup Nat.eqb k l'.
Proof.
  intros l l' k N P. assert (N' : NoDup (map fst l')) by (apply (Permutation_NoDup (Permutation_map fst P) N)).
  destruct (lookup Nat.eqb k l) as [v |] eqn:E.
  - apply (lookup_in_nodup l k v N) in E. symmetry. apply (lookup_in_nodup l' k v N'). apply (Permutation_in _ P E).
  - destruct (lookup Nat.eqb k l') as [v' |] eqn:E'; [| reflexivity].
    apply (lookup_in_nodup l' k v' N') in E'. apply (Permutation_in _ (Permutation_sym P)) in E'.
    apply (lookup_in_nodup l k v' N) in E'. congruence.
Qed.

(* ---- everything computed from the declarations only needs their lookups ------------------------------------------------- *)
Lemma s_prec_ext : forall D D', (forall g, decl_of D g = decl_of D' g) -> forall n f, s_prec n D f = s_prec n D' f.
Proof.
  intros D D' H. induction n as [| n IH]; intros f; [reflexivity |]. cbn [s_prec]. rewrite H. destruct (decl_of D' f); [| reflexivity].
  f_equal. f_equal. apply flat_map_ext_in. intros c _. apply IH.
Qed.
Lemma prec_ext : forall D D', (forall g, decl_of D g = decl_of D' g) -> length D = length D' -> forall f, prec D f = prec D' f.
Proof. intros D D' H Hl f. unfold prec. rewrite Hl. apply s_prec_ext. exact H. Qed.
Lemma s_acc_ext : forall a D D' f, (forall g, decl_of D g = decl_of D' g) -> length D = length D' -> s_acc a D f = s_acc a D' f.
Proof.
  intros [| | l] D D' f H Hl; simpl; try reflexivity. unfold s_allvars. rewrite (prec_ext D D' H Hl f). f_equal.
  apply flat_map_ext_in. intros g _. rewrite H. reflexivity.
Qed.
Lemma wr_ext : forall D D' x, (forall g, decl_of D g = decl_of D' g) -> length D = length D' -> wr D x = wr D' x.
Proof.
  intros D D' [f vars comps keys gets sets io | f d m id cont] H Hl; simpl; [| reflexivity].
  rewrite (s_acc_ext gets D D' f H Hl), (s_acc_ext sets D D' f H Hl). reflexivity.
Qed.
Lemma Permutation_flat_map' : forall {T B} (g : T -> list B) l l', Permutation l l' -> Permutation (flat_map g l) (flat_map g l').
Proof.
  intros T B g l l' P. induction P; simpl.
  - constructor.
  - apply Permutation_app_head. exact IHP.
  - rewrite !app_assoc. apply Permutation_app_tail. apply Permutation_app_comm.
  - eapply Permutation_trans; eassumption.
Qed.

(* ---- the theorem ------------------------------------------------------------------------------------------------------- *)
Definition writes_once (h : list form) : Prop := NoDup (map wkey (all_writes (ss_decls (spec h)) h)).

Theorem spec_order_free : forall h h', wf h = true -> wf h' = true -> Permutation h h' -> writes_once h ->
  (forall g, decl_of (ss_decls (spec h)) g = decl_of (ss_decls (spec h')) g) /\
  length (ss_decls (spec h)) = length (ss_decls (spec h')) /\
  (forall g m, s_slot (spec h) g m = s_slot (spec h') g m).
Proof.
  intros h h' H H' P N. unfold spec in *.
  assert (W := wf_from_wfd h s_init I H). assert (W' := wf_from_wfd h' s_init I H').
  assert (D := s_run_decls h s_init). assert (D' := s_run_decls h' s_init). simpl in D, D'. rewrite app_nil_r in D, D'.
  assert (PD : Permutation (ss_decls (s_run s_init h)) (ss_decls (s_run s_init h'))).
  { rewrite D, D'. apply Permutation_trans with (filter_map form_decl h); [apply Permutation_sym, Permutation_rev |].
    apply Permutation_trans with (filter_map form_decl h'); [apply Permutation_filter_map; exact P | apply Permutation_rev]. }
  assert (HD : forall g, decl_of (ss_decls (s_run s_init h)) g = decl_of (ss_decls (s_run s_init h')) g).
  { intros g. unfold decl_of. apply lookup_perm; [apply wfd_nodup; exact W | exact PD]. }
  assert (HL : length (ss_decls (s_run s_init h)) = length (ss_decls (s_run s_init h'))) by (apply Permutation_length; exact PD).
  split; [exact HD |]. split; [exact HL |].
  intros g m. unfold s_slot. rewrite (s_run_slots h s_init I H), (s_run_slots h' s_init I H'). rewrite !lookup_apply_writes.
  set (Dh := ss_decls (s_run s_init h)) in *. set (Dh' := ss_decls (s_run s_init h')) in *.
  assert (PW : Permutation (all_writes Dh h) (all_writes Dh' h')).
  { unfold all_writes. apply Permutation_trans with (flat_map (wr Dh) h'); [apply Permutation_flat_map'; exact P |].
    rewrite (flat_map_ext_in (wr Dh) (wr Dh') h'); [apply Permutation_refl |]. intros x _. apply wr_ext; assumption. }
  assert (Pk : Permutation (ws_for (g, m) (all_writes Dh h)) (ws_for (g, m) (all_writes Dh' h'))) by (apply Permutation_filter_map; exact PW).
  assert (Nk : NoDup (map fst (ws_for (g, m) (all_writes Dh h)))) by (apply ws_for_nodup; exact N).
  destruct (ws_for (g, m) (all_writes Dh h)) as [| w ws] eqn:E1; destruct (ws_for (g, m) (all_writes Dh' h')) as [| w' ws'] eqn:E2.
  - reflexivity.
  - apply Permutation_nil in Pk. discriminate.
  - apply Permutation_sym, Permutation_nil in Pk. discriminate.
  - f_equal. apply apply_k_perm; assumption.
Qed.
