(* C11 — what the original code did (model version [original]) against the specification: the witnesses of the
   repaired defects; the one remaining defect (third whopper) on a history; examples showing that the
   hypotheses of the theorems are satisfiable and the conclusions not trivial. *)
From Coq Require Import Permutation.
From C11 Require Import Model Spec Lists SpecFacts SendProofs Refine Proofs SpecOrder Order.

Definition E0 : list (nat * val) := [].
Definition io0 : iopts := {| io_inits := AccNone; io_reqs := [] |}.
Definition fl (f : nat) (comps : list nat) : form := DFlavor f E0 comps E0 AccNone AccNone io0.

(* (1) insertMethod, position: base <- mid <- leaf, the daemon of base defined before the daemon of mid *)
Definition h_chain : list form :=
  [fl 1 []; fl 2 [1]; fl 3 [2]; DMethod 3 DPrimary (MUser 1) 30 false; DMethod 1 DBefore (MUser 1) 11 false; DMethod 2 DBefore (MUser 1) 21 false].
Definition h_chain' : list form :=
  [fl 1 []; fl 2 [1]; fl 3 [2]; DMethod 3 DPrimary (MUser 1) 30 false; DMethod 2 DBefore (MUser 1) 21 false; DMethod 1 DBefore (MUser 1) 11 false].
Lemma chain_perm : Permutation h_chain h_chain'.
Proof. unfold h_chain, h_chain'. repeat apply perm_skip. apply perm_swap. Qed.
Lemma chain_wf : wf h_chain = true /\ wf h_chain' = true.
Proof. vm_compute. split; reflexivity. Qed.
Lemma chain_writes_once : writes_once h_chain.
Proof. unfold writes_once. vm_compute. repeat constructor; simpl; intuition discriminate. Qed.
(* the original code runs base's :before ahead of mid's, and differently for the two orders *)
Lemma insert_position_original :
  send (fst (run original init h_chain)) 3 (MUser 1) None = ([Ev 11; Ev 21; Ev 30], RVal 30) /\
  send (fst (run original init h_chain')) 3 (MUser 1) None = ([Ev 21; Ev 11; Ev 30], RVal 30) /\
  s_send (s_var (decls h_chain) 3) None (s_table (spec h_chain) 3 (MUser 1)) = ([Ev 21; Ev 11; Ev 30], RVal 30) /\
  send (final h_chain) 3 (MUser 1) None = ([Ev 21; Ev 11; Ev 30], RVal 30).
Proof. vm_compute. repeat split. Qed.

(* (2) insertMethod, in-place append: the diamond of DESIGN.md; m1's daemons are lost, base's run twice *)
Definition h_diamond : list form :=
  [fl 1 []; fl 2 [1]; fl 3 [1]; fl 4 [2; 3];
   DMethod 4 DPrimary (MUser 1) 40 false; DMethod 3 DBefore (MUser 1) 31 false; DMethod 2 DBefore (MUser 1) 21 false;
   DMethod 1 DBefore (MUser 1) 11 false; DMethod 1 DAfter (MUser 1) 12 false; DMethod 2 DAfter (MUser 1) 22 false;
   DMethod 4 DBefore (MUser 1) 41 false].
Lemma insert_clobber_original :
  wf h_diamond = true /\
  send (fst (run original init h_diamond)) 4 (MUser 1) None = ([Ev 41; Ev 31; Ev 11; Ev 11; Ev 40; Ev 12; Ev 12], RVal 40) /\
  map shape_of (table (fst (run original init h_diamond)) 4 (MUser 1)) =
    [(4, (false, true, true, false)); (3, (false, true, false, false)); (1, (false, true, false, true)); (1, (false, true, false, true))] /\
  s_send (s_var (decls h_diamond) 4) None (s_table (spec h_diamond) 4 (MUser 1)) = ([Ev 41; Ev 21; Ev 11; Ev 31; Ev 40; Ev 12; Ev 22], RVal 40) /\
  send (final h_diamond) 4 (MUser 1) None = ([Ev 41; Ev 21; Ev 11; Ev 31; Ev 40; Ev 12; Ev 22], RVal 40).
Proof. vm_compute. repeat split. Qed.

(* (3) inheritFlavor copied vanilla-flavor's combination along with the first component's table: the :init
   primary of a later component never ran *)
Definition h_vanilla : list form := [fl 1 []; fl 2 []; DMethod 2 DPrimary (MUser 0) 20 false; fl 3 [1; 2]].
Lemma vanilla_shadow_original :
  wf h_vanilla = true /\
  send (fst (run original init h_vanilla)) 3 (MUser 0) None = ([], RNil) /\
  map shape_of (table (fst (run original init h_vanilla)) 3 (MUser 0)) = [(0, (false, false, true, false)); (2, (false, false, true, false))] /\
  s_send (s_var (decls h_vanilla) 3) None (s_table (spec h_vanilla) 3 (MUser 0)) = ([Ev 20], RVal 20) /\
  send (final h_vanilla) 3 (MUser 0) None = ([Ev 20], RVal 20).
Proof. vm_compute. repeat split. Qed.

(* (4) with whoppers on three flavors in a row the ORIGINAL continue-whopper skipped the third one (repaired by
   repo_fixes/C10-2.patch: whoploc.go is shared with the generic functions of C10) *)
Definition send_orig (st : state) (f : nat) (m : mid) (arg : option Z) : out :=
  match find_flavor st f with
  | None => ([], ROther)
  | Some fl => match lookup mid_eqb m (f_meths fl) with
               | None => ([], RNoMethod)
               | Some tbl => let cs := map (deref (st_heap st)) tbl in
                             method_call_orig cs (inner_call true false (inst_vars fl) arg cs)
               end
  end.
Definition h_whoppers : list form :=
  [fl 1 []; fl 2 [1]; fl 3 [2]; DMethod 3 DPrimary (MUser 1) 30 false;
   DMethod 3 DWhopper (MUser 1) 33 true; DMethod 2 DWhopper (MUser 1) 23 true; DMethod 1 DWhopper (MUser 1) 13 true].
Lemma third_whopper_history :
  wf h_whoppers = true /\
  send_orig (final h_whoppers) 3 (MUser 1) None = ([Ev 33; Ev 23; Ev 30; EvEnd 23; EvEnd 33], RVal 30) /\
  s_send (s_var (decls h_whoppers) 3) None (s_table (spec h_whoppers) 3 (MUser 1)) = ([Ev 33; Ev 23; Ev 13; Ev 30; EvEnd 13; EvEnd 23; EvEnd 33], RVal 30) /\
  send (final h_whoppers) 3 (MUser 1) None = ([Ev 33; Ev 23; Ev 13; Ev 30; EvEnd 13; EvEnd 23; EvEnd 33], RVal 30).
Proof. vm_compute. repeat split. Qed.

(* ---- non-vacuity ------------------------------------------------------------------------------------------------------ *)
(* a diamond with defaults, keywords, accessors, whoppers and daemons defined after the inheriting flavors *)
Definition h_example : list form :=
  [DFlavor 1 [(0, Some 101%Z); (1, None)] [] [(0, Some 201%Z)] AccAll AccNone io0;
   DFlavor 2 [(0, Some 102%Z)] [1] [(1, Some 212%Z)] AccNone (AccList [0]) io0;
   DFlavor 3 [(1, Some 113%Z)] [1] [(0, Some 203%Z)] AccNone AccNone io0;
   DFlavor 4 [] [2; 3] [] AccNone AccNone io0;
   DMethod 4 DPrimary (MUser 1) 40 false; DMethod 3 DBefore (MUser 1) 31 false; DMethod 1 DAfter (MUser 1) 12 false;
   DMethod 2 DWhopper (MUser 1) 23 true; DMethod 1 DBefore (MUser 0) 15 false; DMethod 3 DAfter (MUser 0) 36 false;
   DMethod 2 DBefore (MUser 1) 21 false; DMethod 1 DWhopper (MUser 1) 13 true].
Lemma example_history :
  wf h_example = true /\ writes_once h_example /\ defined (decls h_example) 4 = true /\
  fullprec (decls h_example) 4 = [4; 2; 1; 3; 0] /\
  send (final h_example) 4 (MUser 1) None = ([Ev 23; Ev 13; Ev 21; Ev 31; Ev 40; Ev 12; EvEnd 13; EvEnd 23], RVal 40) /\
  send (final h_example) 4 (MUser 0) None = ([Ev 15; Ev 36], RNil) /\
  send (final h_example) 4 (MGet 0) None = ([], RVal 102) /\ send (final h_example) 4 (MGet 1) None = ([], RNil) /\
  send (final h_example) 4 (MSet 0) (Some 41%Z) = ([], RVal 41) /\ send (final h_example) 4 (MUser 2) None = ([], RNoMethod) /\
  s_var (decls h_example) 4 1 = Some None /\ s_var (decls h_example) 3 1 = Some (Some 113%Z) /\
  s_key (decls h_example) 4 0 = Some (Some 201%Z) /\ s_key (decls h_example) 4 1 = Some (Some 212%Z).
Proof.
  split; [vm_compute; reflexivity |]. split; [unfold writes_once; vm_compute; repeat constructor; simpl; intuition discriminate |].
  vm_compute. repeat split.
Qed.
(* two admissible orders of the same forms *)
Lemma example_orders : wf h_chain = true /\ wf h_chain' = true /\ Permutation h_chain h_chain' /\ writes_once h_chain /\ h_chain <> h_chain'.
Proof.
  destruct chain_wf as [W1 W2]. split; [exact W1 |]. split; [exact W2 |]. split; [exact chain_perm |]. split; [exact chain_writes_once |].
  unfold h_chain, h_chain'. intros H. inversion H.
Qed.
(* an inadmissible history: the method comes before its flavor *)
Lemma example_inadmissible :
  wf [DMethod 1 DBefore (MUser 1) 5 false; fl 1 []] = false /\
  run fixed init [DMethod 1 DBefore (MUser 1) 5 false; fl 2 [1]; fl 1 []; fl 1 []] =
    (fst (run fixed init [fl 1 []]), [ErrNoFlavor; ErrNoComponent; Ok; ErrExists]).
Proof. vm_compute. split; reflexivity. Qed.

(* ---- make-instance --------------------------------------------------------------------------------------------------- *)
(* a name that is an inittable variable (from base) and an init keyword (from a mixin): the variable is set *)
Definition h_initvar : list form :=
  [DFlavor 1 [(0, Some 1%Z)] [] E0 AccNone AccNone {| io_inits := AccAll; io_reqs := [] |};
   DFlavor 2 E0 [] [(0, None); (2, Some 7%Z)] AccNone AccNone io0;
   DFlavor 3 E0 [1; 2] E0 AccNone AccNone io0].
Lemma example_make_instance :
  wf h_initvar = true /\ g_init (decls h_initvar) 3 [(0, 5%Z); (2, 9%Z)] = true /\
  make_instance (final h_initvar) 3 [(0, 5%Z); (2, 9%Z)] = Some ([(0, 5%Z)], [(2, 9%Z)]) /\
  make_instance (final h_initvar) 3 [(4, 1%Z)] = None /\
  inst_value (s_var (decls h_initvar) 3 0) 0 [(0, 5%Z)] = Some (Some 5%Z).
Proof. vm_compute. repeat split. Qed.
(* REPAIRED (repo_fixes/C11-4, C11-5): :inittable-instance-variables and :required-init-keywords are inherited.
   The two witnesses of the former findings are inside g_init now and make-instance answers what s_make demands;
   [before_io] is the code before these two patches (the options were kept per flavor). *)
Definition before_io : version := {| v_insert := true; v_vanilla := true; v_bound := true; v_io := false |}.
Definition h_inits : list form :=
  [DFlavor 1 [(0, Some 1%Z)] [] E0 AccNone AccNone {| io_inits := AccList [0]; io_reqs := [] |};
   DFlavor 2 [(1, Some 2%Z)] [1] E0 AccNone AccNone {| io_inits := AccList [1]; io_reqs := [] |}].
Lemma initable_inherited_example :
  wf h_inits = true /\ g_init (decls h_inits) 2 [(0, 5%Z)] = true /\
  make_instance (final h_inits) 2 [(0, 5%Z)] = Some ([(0, 5%Z)], []) /\
  s_make (decls h_inits) 2 [(0, 5%Z)] = Some ([(0, 5%Z)], []).
Proof. vm_compute. repeat split. Qed.
Lemma initable_not_inherited_original :
  make_instance (fst (run before_io init h_inits)) 2 [(0, 5%Z)] = None /\
  s_make (decls h_inits) 2 [(0, 5%Z)] = Some ([(0, 5%Z)], []).
Proof. vm_compute. repeat split. Qed.
Definition h_reqs : list form :=
  [DFlavor 1 E0 [] [(2, None)] AccNone AccNone {| io_inits := AccNone; io_reqs := [2] |}; DFlavor 2 E0 [1] E0 AccNone AccNone io0].
Lemma required_inherited_example :
  wf h_reqs = true /\ g_init (decls h_reqs) 2 [] = true /\
  make_instance (final h_reqs) 2 [] = None /\ make_instance (final h_reqs) 1 [] = None /\
  make_instance (final h_reqs) 2 [(2, 4%Z)] = Some ([], [(2, 4%Z)]) /\ s_make (decls h_reqs) 2 [] = None.
Proof. vm_compute. repeat split. Qed.
Lemma required_not_inherited_original :
  make_instance (fst (run before_io init h_reqs)) 2 [] = Some ([], []) /\ make_instance (fst (run before_io init h_reqs)) 1 [] = None /\
  s_make (decls h_reqs) 2 [] = None.
Proof. vm_compute. repeat split. Qed.
(* what is left outside g_init: a bare (:inittable-instance-variables) on a flavor WITHOUT variables leaves the
   inherited set empty, which the code reads as "every variable" (len(cf.initable) == 0), although a flavor of
   the precedence list has the option and none lists the variable *)
Definition h_bare : list form :=
  [DFlavor 1 E0 [] E0 AccNone AccNone {| io_inits := AccAll; io_reqs := [] |};
   DFlavor 2 [(1, Some 2%Z)] [1] E0 AccNone AccNone io0].
Lemma bare_inittable_on_varless_flavor :
  wf h_bare = true /\ g_init (decls h_bare) 2 [(1, 5%Z)] = false /\
  make_instance (final h_bare) 2 [(1, 5%Z)] = Some ([(1, 5%Z)], []) /\ s_make (decls h_bare) 2 [(1, 5%Z)] = None.
Proof. vm_compute. repeat split. Qed.

(* ---- a whopper that continues twice (round-4 seed c11-11) -------------------------------------------------------- *)
(* leaf (3) <- mid (2) <- base (1): whoppers on all three, the leaf's continues TWICE (a retry), the others once; a
   :before daemon and the primary on base.  Every pass runs the whoppers of mid and base again. *)
Definition h_retry : list form :=
  [fl 1 []; fl 2 [1]; fl 3 [2];
   DMethod 3 DWhopper (MUser 1) 33 CTwice; DMethod 2 DWhopper (MUser 1) 23 true; DMethod 1 DWhopper (MUser 1) 13 true;
   DMethod 1 DBefore (MUser 1) 11 false; DMethod 1 DPrimary (MUser 1) 10 false].
Lemma retry_history :
  wf h_retry = true /\
  send (final h_retry) 3 (MUser 1) None =
    ([Ev 33; Ev 23; Ev 13; Ev 11; Ev 10; EvEnd 13; EvEnd 23; Ev 23; Ev 13; Ev 11; Ev 10; EvEnd 13; EvEnd 23; EvEnd 33], RVal 10) /\
  s_send (s_var (decls h_retry) 3) None (s_table (spec h_retry) 3 (MUser 1)) = send (final h_retry) 3 (MUser 1) None.
Proof. vm_compute. repeat split. Qed.
(* WhopLoc.Continue with ONE location object for the whole chain (the seeded change: "wl.Current = i" and the same object
   bound in the inner whopper's scope): the location is threaded through the calls; when control is back in the outer
   whopper it points at the innermost whopper reached, so the second continue goes straight to the daemons *)
Fixpoint continue_shared (fuel : nat) (cs : list combo) (inner : out) (loc : nat) : out * nat :=
  match fuel with
  | O => (([], ROutOfFuel), loc)
  | S k => match wrap_from cs (S loc) with
           | None => (inner, loc)
           | Some (j, b) =>
               match b with
               | BUser id CNo => (([Ev id; EvEnd id], RVal (Z.of_nat id)), j)
               | BUser id COnce => let '(o1, l1) := continue_shared k cs inner j in ((Ev id :: fst o1 ++ [EvEnd id], snd o1), l1)
               | BUser id CTwice => let '(o1, l1) := continue_shared k cs inner j in
                                    let '(o2, l2) := continue_shared k cs inner l1 in
                                    ((Ev id :: fst o1 ++ fst o2 ++ [EvEnd id], snd o2), l2)
               | _ => (([], ROther), j)
               end
           end
  end.
Definition retry_combos : list combo :=
  [{| c_from := 3; c_prim := None; c_bef := None; c_aft := None; c_wrap := Some (BUser 33 CTwice) |};
   {| c_from := 2; c_prim := None; c_bef := None; c_aft := None; c_wrap := Some (BUser 23 true) |};
   {| c_from := 1; c_prim := Some (BUser 10 false); c_bef := Some (BUser 11 false); c_aft := None; c_wrap := Some (BUser 13 true) |}].
Lemma shared_location_skips_on_retry :
  (* the location of the first whopper is index 0: Method.Call scans from 0 *)
  fst (match wrap_from retry_combos 0 with
       | Some (_, BUser id CTwice) =>
           let '(o1, l1) := continue_shared 9 retry_combos (inner_call true false (fun _ => None) None retry_combos) 0 in
           let '(o2, l2) := continue_shared 9 retry_combos (inner_call true false (fun _ => None) None retry_combos) l1 in
           ((Ev id :: fst o1 ++ fst o2 ++ [EvEnd id], snd o2), l2)
       | _ => (([], ROther), 0)
       end) = ([Ev 33; Ev 23; Ev 13; Ev 11; Ev 10; EvEnd 13; EvEnd 23; Ev 11; Ev 10; EvEnd 33], RVal 10) /\
  method_call retry_combos (inner_call true false (fun _ => None) None retry_combos) =
    ([Ev 33; Ev 23; Ev 13; Ev 11; Ev 10; EvEnd 13; EvEnd 23; Ev 23; Ev 13; Ev 11; Ev 10; EvEnd 13; EvEnd 23; EvEnd 33], RVal 10).
Proof. vm_compute. repeat split. Qed.
