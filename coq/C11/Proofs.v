(* C11 — the theorems: every admissible history leaves the model in the relation Inv with the recorded forms;
   under Inv every observation (precedence, inherit list, defaults, keywords, method tables, sends) is the one
   the specification computes from the forms; refutations for the original code; non-vacuity examples. *)
From C11 Require Import Model Spec Lists SpecFacts SendProofs Refine.

(* ---- initial state ---------------------------------------------------------------------------------------------- *)
Definition A_init (g : nat) (m : mid) : option nat := if (g =? vanilla) && mid_eqb m (MUser 0) then Some 0 else None.
Lemma inv_init : InvA init s_init A_init.
Proof.
  constructor; simpl.
  - exact I.
  - constructor; [intros [] | constructor].
  - intros f. split; [intros [H | []]; left; congruence | intros [H | H]; [left; congruence | discriminate]].
  - intros fl [H | []] _. subst fl. repeat split.
  - intros fl [H | []] E. subst fl. simpl in E. contradiction.
  - intros fl [H | []] E. subst fl. simpl in E. contradiction.
  - intros fl [H | []]. subst fl. simpl. split; [constructor; [intros [] | constructor] |].
    intros m. simpl. destruct (mid_eqb m (MUser 0)); discriminate.
  - intros fl m [H | []]. subst fl. unfold tbl_of, A_init. simpl. destruct (mid_eqb m (MUser 0)); reflexivity.
  - intros g m. unfold s_slot, A_init. simpl. unfold fm_eqb. simpl. destruct ((g =? vanilla) && mid_eqb m (MUser 0)).
    + exists 0. repeat split. lia.
    + reflexivity.
  - intros g m g' m' a. unfold A_init.
    destruct ((g =? vanilla) && mid_eqb m (MUser 0)) eqn:E1; [| discriminate].
    destruct ((g' =? vanilla) && mid_eqb m' (MUser 0)) eqn:E2; [| discriminate].
    intros _ _. apply andb_true_iff in E1, E2. destruct E1 as [E1 E1'], E2 as [E2 E2'].
    apply Nat.eqb_eq in E1, E2. apply mid_eqb_spec in E1', E2'. subst. split; reflexivity.
  - intros g m c. unfold s_slot. simpl. unfold fm_eqb. simpl. destruct ((g =? vanilla) && mid_eqb m (MUser 0)) eqn:E; [| discriminate].
    intros H. inversion H. apply andb_true_iff in E. destruct E as [E _]. apply Nat.eqb_eq in E. subst. reflexivity.
  - intros g m c. unfold s_slot. simpl. unfold fm_eqb. simpl. destruct ((g =? vanilla) && mid_eqb m (MUser 0)) eqn:E; [| discriminate].
    intros _. left. apply andb_true_iff in E. destruct E as [E _]. apply Nat.eqb_eq in E. exact E.
Qed.
Lemma Inv_init : Inv init s_init.
Proof. exists A_init. exact inv_init. Qed.

(* ---- one form, then every history ------------------------------------------------------------------------------------ *)
Lemma inv_step : forall st ss x, Inv st ss -> form_ok (ss_decls ss) x = true ->
  snd (step fixed st x) = Ok /\ Inv (fst (step fixed st x)) (sstep ss x).
Proof.
  intros st ss x [A I] H. destruct x as [f vars comps keys gets sets io | f d m id cont].
  - destruct (step_flavor st ss A f vars comps keys gets sets io I H) as (A' & H1 & H2). split; [exact H1 | exists A'; exact H2].
  - simpl in H. apply andb_true_iff in H. destruct H as [Hf Hd]. apply negb_true_iff in Hf. apply Nat.eqb_neq in Hf.
    destruct (step_method st ss A f d m (BUser id cont) I Hf Hd) as (A' & H1 & H2). split; [exact H1 | exists A'; exact H2].
Qed.
Theorem inv_history : forall h st ss, Inv st ss -> wf_from ss h = true ->
  Forall (fun o => o = Ok) (snd (run fixed st h)) /\ Inv (fst (run fixed st h)) (s_run ss h).
Proof.
  induction h as [| x h IH]; intros st ss I H; simpl.
  - split; [constructor | exact I].
  - simpl in H. apply andb_true_iff in H. destruct H as [Hx Hh]. destruct (inv_step st ss x I Hx) as [O I'].
    destruct (step fixed st x) as [st1 o] eqn:E. simpl in O, I'. specialize (IH st1 (sstep ss x) I' Hh).
    destruct (run fixed st1 h) as [st2 os]. simpl in *. destruct IH as [F I2]. split; [constructor; assumption | exact I2].
Qed.
(* an inadmissible form is refused and changes nothing *)
Lemma find_flavor_defined : forall st ss A g, InvA st ss A ->
  (find_flavor st g <> None <-> g = vanilla \/ defined (ss_decls ss) g = true).
Proof.
  intros st ss A g I. rewrite <- (i_dom _ _ _ I g). split.
  - intros H. destruct (find_flavor st g) eqn:E; [| congruence]. destruct (find_flavor_some _ _ _ E) as [H1 H2]. rewrite <- H2. apply in_map. exact H1.
  - intros H E. apply find_flavor_none in E. contradiction.
Qed.
Lemma forallb_false_split : forall {T} (p : T -> bool) l, forallb p l = false ->
  exists pre c post, l = pre ++ c :: post /\ forallb p pre = true /\ p c = false.
Proof.
  induction l as [| x l IH]; intros H; [discriminate |]. simpl in H. destruct (p x) eqn:E.
  - simpl in H. destruct (IH H) as (pre & c & post & H1 & H2 & H3). exists (x :: pre), c, post. subst l. simpl. rewrite E. auto.
  - exists [], x, l. auto.
Qed.
Lemma forallb_ext_in' : forall {T} (p q : T -> bool) l, (forall x, In x l -> p x = q x) -> forallb p l = forallb q l.
Proof.
  induction l as [| x l IH]; intros H; simpl; [reflexivity |]. rewrite (H x (or_introl eq_refl)), IH; [reflexivity |].
  intros y Hy. apply H. right. exact Hy.
Qed.
Lemma comp_step_inl : forall st cs e, fold_left (comp_step st) cs (inl e) = inl e.
Proof. induction cs as [| c cs IH]; intros e; [reflexivity | apply IH]. Qed.
Theorem inadmissible_refused : forall st ss x, Inv st ss -> names_vanilla x = false -> form_ok (ss_decls ss) x = false ->
  step fixed st x = (st, s_outcome (ss_decls ss) x) /\ s_outcome (ss_decls ss) x <> Ok.
Proof.
  intros st ss x [A I] Hv H. destruct x as [f vars comps keys gets sets io | f d m id cont]; simpl in *.
  - apply orb_false_iff in Hv. destruct Hv as [Hfv Hcv]. rewrite Hfv in *. simpl in *.
    unfold def_flavor. destruct (defined (ss_decls ss) f) eqn:E.
    + assert (He : existsb (fun fl => f_name fl =? f) (st_flavors st) = true).
      { apply existsb_exists. assert (Hin : In f (map f_name (st_flavors st))) by (apply (i_dom _ _ _ I); right; exact E).
        apply in_map_iff in Hin. destruct Hin as [fl [H1 H2]]. exists fl. split; [exact H2 | apply Nat.eqb_eq; exact H1]. }
      rewrite He. split; [reflexivity | discriminate].
    + simpl in H.
      assert (He : existsb (fun fl => f_name fl =? f) (st_flavors st) = false).
      { destruct (existsb (fun fl => f_name fl =? f) (st_flavors st)) eqn:Ee; [| reflexivity]. apply existsb_exists in Ee. destruct Ee as [fl [H1 H2]]. apply Nat.eqb_eq in H2.
        assert (Hin : In f (map f_name (st_flavors st))) by (rewrite <- H2; apply in_map; exact H1).
        apply (i_dom _ _ _ I) in Hin. apply Nat.eqb_neq in Hfv. destruct Hin; congruence. }
      rewrite He.
      assert (Hsame : forallb (fun c => (c =? vanilla) || defined (ss_decls ss) c) comps = forallb (fun c => negb (c =? vanilla) && defined (ss_decls ss) c) comps).
      { apply forallb_ext_in'. intros c Hc. assert (Hcn : (c =? vanilla) = false).
        { destruct (c =? vanilla) eqn:Ec; [| reflexivity]. exfalso. assert (Hex : existsb (fun c0 => c0 =? vanilla) comps = true) by (apply existsb_exists; exists c; auto). congruence. }
        rewrite Hcn. reflexivity. }
      rewrite Hsame, H. split; [| discriminate].
      destruct (forallb_false_split _ _ H) as (pre & c & post & Hcomps & Hpre & Hc).
      set (nf0 := {| f_name := f; f_inherit := []; f_vars := set_all Nat.eqb [] vars; f_keys := []; f_meths := []; f_prec := [];
                   f_initable := []; f_required := [] |}).
      change (fold_left _ comps (inr nf0)) with (fold_left (comp_step st) comps (inr nf0)).
      assert (W := i_wfd _ _ _ I).
      assert (HI : forall g, defined (ss_decls ss) g = true -> exists c0, find_flavor st g = Some c0 /\ f_inherit c0 = tl (prec (ss_decls ss) g) ++ [vanilla]).
      { intros g Hg. destruct (defined_found st ss A I g Hg) as (c0 & H1 & H2 & H3). exists c0. split; [exact H1 |].
        assert (Hgv : f_name c0 <> vanilla) by (rewrite H3; apply (defined_not_vanilla _ g W Hg)).
        destruct (i_user _ _ _ I c0 H2 Hgv) as (Hi & _). rewrite Hi, H3. reflexivity. }
      assert (Hfuel : forall g, defined (ss_decls ss) g = true -> age (ss_decls ss) g < inherit_fuel st).
      { intros g Hg. assert (H1 := age_lt _ g Hg). unfold inherit_fuel.
        assert (H2 : length (map fst (ss_decls ss)) <= length (map f_name (st_flavors st))).
        { apply NoDup_incl_length; [apply wfd_nodup; exact W |]. intros y Hy. apply (i_dom _ _ _ I). right. apply defined_in. exact Hy. }
        rewrite !map_length in H2. lia. }
      destruct (inherit_comps st (ss_decls ss) W HI Hfuel pre nf0) as (N & R & _).
      { intros c' Hc'. rewrite forallb_forall in Hpre. specialize (Hpre c' Hc'). apply andb_true_iff in Hpre. apply Hpre. }
      { intros y []. }
      rewrite Hcomps, fold_left_app, R. cbn [fold_left]. unfold comp_step at 2.
      assert (Hnf : find_flavor st c = None).
      { destruct (find_flavor st c) eqn:Ef; [| reflexivity]. exfalso.
        assert (Hd : c = vanilla \/ defined (ss_decls ss) c = true) by (apply (find_flavor_defined st ss A c I); congruence).
        apply andb_false_iff in Hc. destruct Hd as [Hd | Hd]; [| destruct Hc as [Hc | Hc]; [| congruence]].
        - assert (Hex : existsb (fun c0 => c0 =? vanilla) comps = true) by (apply existsb_exists; exists c; subst; split; [apply in_app_iff; right; left; reflexivity | reflexivity]). congruence.
        - apply negb_false_iff in Hc. apply Nat.eqb_eq in Hc. subst c.
          assert (Hex : existsb (fun c0 => c0 =? vanilla) comps = true) by (apply existsb_exists; exists vanilla; subst; split; [apply in_app_iff; right; left; reflexivity | reflexivity]). congruence. }
      rewrite Hnf, comp_step_inl. reflexivity.
  - rewrite Hv in *. simpl in *. unfold def_method. rewrite H.
    assert (Hn : find_flavor st f = None).
    { destruct (find_flavor st f) eqn:Ef; [| reflexivity]. exfalso.
      assert (Hd : f = vanilla \/ defined (ss_decls ss) f = true) by (apply (find_flavor_defined st ss A f I); congruence).
      apply Nat.eqb_neq in Hv. destruct Hd; congruence. }
    rewrite Hn. split; [reflexivity | discriminate].
Qed.

(* ---- under the invariant every observation is the specification's ------------------------------------------------------ *)
Lemma prim_result_ext : forall v1 v2 arg b, (forall x, v1 x = v2 x) -> prim_result v1 arg b = prim_result v2 arg b.
Proof. intros v1 v2 arg b H. destruct b; simpl; try reflexivity. rewrite H. reflexivity. Qed.
Lemma s_send_ext : forall v1 v2 arg cs, (forall x, v1 x = v2 x) -> s_send v1 arg cs = s_send v2 arg cs.
Proof.
  intros v1 v2 arg cs H. unfold s_send. destruct (first_primary cs); [| reflexivity]. rewrite (prim_result_ext v1 v2 arg b H). reflexivity.
Qed.
Lemma inner_call_ext : forall r b v1 v2 arg cs, (forall x, v1 x = v2 x) -> inner_call r b v1 arg cs = inner_call r b v2 arg cs.
Proof.
  intros r b v1 v2 arg cs H. unfold inner_call. destruct (first_prim b cs); [| reflexivity]. rewrite (prim_result_ext v1 v2 arg b0 H). reflexivity.
Qed.

(* user forms never store a vanilla-flavor body *)
Definition no_vanilla_body (ss : sstate) : Prop :=
  forall g m c, s_slot ss g m = Some c -> g <> vanilla -> c_prim c <> Some BVanilla.
Lemma nvb_set : forall ss g m d b, no_vanilla_body ss -> b <> BVanilla -> no_vanilla_body (s_set_slot ss g m d b).
Proof.
  intros ss g m d b H Hb g' m' c. rewrite s_slot_set. destruct (fm_eqb (g', m') (g, m)) eqn:E; [| apply H].
  apply fm_eqb_spec in E. inversion E; subst g' m'. intros Hc Hg. inversion Hc; subst c. clear Hc.
  destruct (s_slot ss g m) as [c0 |] eqn:E0.
  - specialize (H g m c0 E0 Hg). destruct d; simpl; try exact H. congruence.
  - destruct d; simpl; congruence.
Qed.
Lemma nvb_fold : forall (mk : nat -> mid) (bd : nat -> body) f vs ss, no_vanilla_body ss -> (forall x, bd x <> BVanilla) ->
  no_vanilla_body (fold_left (fun s x => s_set_slot s f (mk x) DPrimary (bd x)) vs ss).
Proof. induction vs as [| x vs IH]; intros ss H Hb; simpl; [exact H |]. apply IH; [apply nvb_set; [exact H | apply Hb] | exact Hb]. Qed.
Lemma nvb_step : forall ss x, no_vanilla_body ss -> no_vanilla_body (sstep ss x).
Proof.
  intros ss [f vars comps keys gets sets io | f d m id cont] H; simpl.
  - apply nvb_fold; [apply nvb_fold; [| discriminate] | discriminate]. intros g m c Hs. apply (H g m c Hs).
  - apply nvb_set; [exact H | discriminate].
Qed.
Lemma nvb_run : forall h ss, no_vanilla_body ss -> no_vanilla_body (s_run ss h).
Proof. induction h as [| x h IH]; intros ss H; simpl; [exact H | apply IH, nvb_step, H]. Qed.
Lemma nvb_init : no_vanilla_body s_init.
Proof.
  intros g m c. unfold s_slot. simpl. unfold fm_eqb. simpl. destruct ((g =? vanilla) && mid_eqb m (MUser 0)) eqn:E; [| discriminate].
  intros _ Hg. apply andb_true_iff in E. destruct E as [E _]. apply Nat.eqb_eq in E. contradiction.
Qed.
Lemma vlast_app : forall xs last, (forall c, In c xs -> c_prim c <> Some BVanilla) -> vlast (xs ++ match last with Some c => [c] | None => [] end) = true.
Proof.
  induction xs as [| c xs IH]; intros last H; simpl.
  - destruct last as [c |]; simpl; [destruct (c_prim c) as [[] |]; reflexivity | reflexivity].
  - rewrite IH by (intros c' Hc'; apply H; right; exact Hc'). rewrite andb_true_r.
    assert (Hc := H c (or_introl eq_refl)). destruct (c_prim c) as [[] |]; try reflexivity. congruence.
Qed.

Section Obs.
  Variables (st : state) (ss : sstate) (A : nat -> mid -> option nat).
  Hypothesis I : InvA st ss A.
  Local Notation ds := (ss_decls ss).
  Variable f : nat.
  Hypothesis Hd : defined ds f = true.

  Lemma obs_record : exists fl, find_flavor st f = Some fl /\ In fl (st_flavors st) /\ f_name fl = f /\ f <> vanilla.
  Proof.
    destruct (defined_found st ss A I f Hd) as (fl & H1 & H2 & H3). exists fl. repeat split; try assumption.
    apply (defined_not_vanilla ds f (i_wfd _ _ _ I) Hd).
  Qed.
  Lemma obs_inherit : forall fl, find_flavor st f = Some fl -> f_inherit fl = tl (fullprec ds f) /\ f_prec fl = fullprec ds f.
  Proof.
    intros fl Hf. destruct obs_record as (fl' & H1 & H2 & H3 & H4). rewrite Hf in H1. inversion H1; subst fl'.
    destruct (i_user _ _ _ I fl H2) as (U1 & U2 & _); [congruence |]. rewrite U2, U1, H3. unfold fullprec.
    rewrite (prec_head ds (i_wfd _ _ _ I) f Hd) at 2 4. split; reflexivity.
  Qed.
  Lemma obs_vars : forall fl v, find_flavor st f = Some fl -> lookup Nat.eqb v (f_vars fl) = s_var ds f v.
  Proof.
    intros fl v Hf. destruct obs_record as (fl' & H1 & H2 & H3 & H4). rewrite Hf in H1. inversion H1; subst fl'.
    destruct (i_user _ _ _ I fl H2) as (_ & _ & U3 & _); [congruence |]. rewrite <- H3. apply U3.
  Qed.
  Lemma obs_keys : forall fl k, find_flavor st f = Some fl -> lookup Nat.eqb k (f_keys fl) = s_key ds f k.
  Proof.
    intros fl k Hf. destruct obs_record as (fl' & H1 & H2 & H3 & H4). rewrite Hf in H1. inversion H1; subst fl'.
    destruct (i_user _ _ _ I fl H2) as (_ & _ & _ & U4); [congruence |]. rewrite <- H3. apply U4.
  Qed.
  Lemma obs_table : forall m, table st f m = s_table ss f m.
  Proof.
    intros m. destruct obs_record as (fl & H1 & H2 & H3 & H4). unfold table. rewrite H1. rewrite (i_tbl _ _ _ I fl m H2).
    destruct (i_user _ _ _ I fl H2) as (U1 & _); [congruence |]. rewrite U1, H3. unfold s_table, fullprec.
    rewrite (prec_head ds (i_wfd _ _ _ I) f Hd) at 2. cbn [app]. rewrite filter_map_map. apply filter_map_ext. intros y _.
    assert (S := i_slot _ _ _ I y m). destruct (s_slot ss y m) as [c |].
    - destruct S as (a & S1 & _ & S3). rewrite S1. simpl. rewrite S3. reflexivity.
    - rewrite S. reflexivity.
  Qed.
  Lemma obs_lookup : forall fl m, find_flavor st f = Some fl ->
    match lookup mid_eqb m (f_meths fl) with Some tbl => tbl <> [] /\ map (deref (st_heap st)) tbl = s_table ss f m | None => s_table ss f m = [] end.
  Proof.
    intros fl m Hf. assert (T := obs_table m). unfold table in T. rewrite Hf in T. unfold tbl_of in T.
    destruct obs_record as (fl' & H1 & H2 & H3 & H4). rewrite Hf in H1. inversion H1; subst fl'.
    destruct (i_keys _ _ _ I fl H2) as [_ E]. specialize (E m). destruct (lookup mid_eqb m (f_meths fl)) as [tbl |].
    - split; [congruence | exact T].
    - simpl in T. symmetry. exact T.
  Qed.
  Lemma obs_send : forall m arg,
    send st f m arg = match s_table ss f m with [] => ([], RNoMethod) | cs => s_send (s_var ds f) arg cs end.
  Proof.
    intros m arg. destruct obs_record as (fl & H1 & H2 & H3 & H4). unfold send. rewrite H1.
    assert (L := obs_lookup fl m H1). destruct (lookup mid_eqb m (f_meths fl)) as [tbl |].
    - destruct L as [Ln Lt]. rewrite Lt. rewrite send_order.
      rewrite (s_send_ext (inst_vars fl) (s_var ds f)) by (intros x; apply (obs_vars fl x H1)).
      destruct (s_table ss f m) eqn:E; [| reflexivity]. destruct tbl; [contradiction | discriminate].
    - rewrite L. reflexivity.
  Qed.
  Lemma obs_bound : forall m, no_vanilla_body ss ->
    bound_send fixed st f m = match s_table ss f m with [] => ([], RNoMethod) | cs => s_send (s_var ds f) None cs end.
  Proof.
    intros m NV. destruct obs_record as (fl & H1 & H2 & H3 & H4). unfold bound_send. rewrite H1.
    assert (L := obs_lookup fl m H1). destruct (lookup mid_eqb m (f_meths fl)) as [tbl |].
    - destruct L as [Ln Lt]. rewrite Lt.
      assert (V : vlast (s_table ss f m) = true).
      { unfold s_table, fullprec. rewrite filter_map_app. simpl.
        replace (match s_slot ss vanilla m with Some y => [y] | None => [] end) with
                (match s_slot ss vanilla m with Some c => [c] | None => [] end) by reflexivity.
        apply vlast_app. intros c Hc. apply in_filter_map in Hc. destruct Hc as [y [Hy Hs]]. apply (NV y m c Hs).
        apply (defined_not_vanilla ds y (i_wfd _ _ _ I)). apply (prec_defined ds (i_wfd _ _ _ I) f y Hy). }
      assert (B := bound_send_order (s_table ss f m) (inst_vars fl) V). unfold bound_call in B. rewrite B.
      rewrite (s_send_ext (inst_vars fl) (s_var ds f)) by (intros x; apply (obs_vars fl x H1)).
      destruct (s_table ss f m) eqn:E; [| reflexivity]. destruct tbl; [contradiction | discriminate].
    - rewrite L. reflexivity.
  Qed.
End Obs.

(* ---- the theorems over histories ------------------------------------------------------------------------------------------ *)
Definition final (h : list form) : state := fst (run fixed init h).
Definition decls (h : list form) : list (nat * decl) := ss_decls (spec h).

Lemma history_inv : forall h, wf h = true -> Forall (fun o => o = Ok) (snd (run fixed init h)) /\ Inv (final h) (spec h).
Proof. intros h H. apply (inv_history h init s_init Inv_init H). Qed.

Theorem tables_equal_spec : forall h f m, wf h = true -> defined (decls h) f = true -> table (final h) f m = s_table (spec h) f m.
Proof. intros h f m H Hd. destruct (history_inv h H) as [_ [A I]]. apply (obs_table _ _ A I f Hd m). Qed.
Theorem precedence_equal_spec : forall h f, wf h = true -> defined (decls h) f = true ->
  exists fl, find_flavor (final h) f = Some fl /\ f_prec fl = fullprec (decls h) f /\ f_inherit fl = tl (fullprec (decls h) f).
Proof.
  intros h f H Hd. destruct (history_inv h H) as [_ [A I]]. destruct (obs_record _ _ A I f Hd) as (fl & H1 & _).
  exists fl. destruct (obs_inherit _ _ A I f Hd fl H1). auto.
Qed.
Theorem defaults_by_precedence : forall h f, wf h = true -> defined (decls h) f = true ->
  exists fl, find_flavor (final h) f = Some fl /\
             (forall v, lookup Nat.eqb v (f_vars fl) = firstsome (own_var (decls h) v) (prec (decls h) f)) /\
             (forall k, lookup Nat.eqb k (f_keys fl) = firstsome (own_key (decls h) k) (prec (decls h) f)).
Proof.
  intros h f H Hd. destruct (history_inv h H) as [_ [A I]]. destruct (obs_record _ _ A I f Hd) as (fl & H1 & _).
  exists fl. split; [exact H1 |]. split; [intros v; apply (obs_vars _ _ A I f Hd fl v H1) | intros k; apply (obs_keys _ _ A I f Hd fl k H1)].
Qed.
Theorem send_equal_spec : forall h f m arg, wf h = true -> defined (decls h) f = true ->
  send (final h) f m arg = match s_table (spec h) f m with [] => ([], RNoMethod) | cs => s_send (s_var (decls h) f) arg cs end.
Proof. intros h f m arg H Hd. destruct (history_inv h H) as [_ [A I]]. apply (obs_send _ _ A I f Hd m arg). Qed.
Theorem bound_send_equal_spec : forall h f m, wf h = true -> defined (decls h) f = true ->
  bound_send fixed (final h) f m = match s_table (spec h) f m with [] => ([], RNoMethod) | cs => s_send (s_var (decls h) f) None cs end.
Proof.
  intros h f m H Hd. destruct (history_inv h H) as [_ [A I]]. apply (obs_bound _ _ A I f Hd m).
  apply nvb_run. exact nvb_init.
Qed.
Theorem admissible_forms_accepted : forall h, wf h = true -> Forall (fun o => o = Ok) (snd (run fixed init h)).
Proof. intros h H. apply (history_inv h H). Qed.

(* the explicit out-of-fuel outcomes of the model are never produced *)
Theorem send_total : forall st f m arg, snd (send st f m arg) <> ROutOfFuel.
Proof.
  intros st f m arg. unfold send. destruct (find_flavor st f) as [fl |]; [| discriminate].
  destruct (lookup mid_eqb m (f_meths fl)) as [tbl |]; [| discriminate].
  apply send_never_out_of_fuel. apply inner_call_fuel.
Qed.

(* ---- make-instance with init arguments ------------------------------------------------------------------------------- *)
Lemma initable_of_ext : forall l l' k, (forall x, In x l <-> In x l') -> initable_of l k = initable_of l' k.
Proof.
  intros l l' k H. assert (Hm : existsb (Nat.eqb k) l = existsb (Nat.eqb k) l').
  { change (mem k l = mem k l'). destruct (mem k l) eqn:E.
    - apply mem_In in E. symmetry. apply mem_In. apply H. exact E.
    - apply mem_false in E. symmetry. apply mem_false. intros E'. apply E. apply H. exact E'. }
  unfold initable_of. destruct l as [| a l], l' as [| a' l']; try reflexivity.
  - exfalso. apply (proj2 (H a') (or_introl eq_refl)).
  - exfalso. apply (proj1 (H a) (or_introl eq_refl)).
  - exact Hm.
Qed.
Lemma init_loop_ext : forall v1 k1 v2 k2 args u p, (forall x, v1 x = v2 x) -> (forall x, k1 x = k2 x) ->
  init_loop v1 k1 args u p = init_loop v2 k2 args u p.
Proof.
  intros v1 k1 v2 k2. induction args as [| [k z] r IH]; intros u p Hv Hk; simpl; [reflexivity |].
  rewrite Hv, Hk. destruct (v2 k); [apply IH; assumption |]. destruct (k2 k); [apply IH; assumption | reflexivity].
Qed.
Lemma init_gen_ext : forall v1 k1 v2 k2 req args, (forall x, v1 x = v2 x) -> (forall x, k1 x = k2 x) ->
  init_gen v1 k1 req args = init_gen v2 k2 req args.
Proof. intros. unfold init_gen. rewrite (init_loop_ext v1 k1 v2 k2 args [] []); [reflexivity | assumption | assumption]. Qed.

Lemma forallb_set_ext : forall (p : nat -> bool) l l', (forall x, In x l <-> In x l') -> forallb p l = forallb p l'.
Proof.
  intros p l l' H. destruct (forallb p l) eqn:E.
  - symmetry. apply forallb_forall. intros x Hx. rewrite forallb_forall in E. apply E. apply H. exact Hx.
  - destruct (forallb p l') eqn:E'; [| reflexivity]. rewrite <- E. apply forallb_forall. intros x Hx.
    rewrite forallb_forall in E'. apply E'. apply H. exact Hx.
Qed.
Lemma init_gen_req_ext : forall v k req req' args, (forall x, In x req <-> In x req') -> init_gen v k req args = init_gen v k req' args.
Proof.
  intros v k req req' args H. unfold init_gen. destruct (init_loop v k args [] []) as [[u p] |]; [| reflexivity].
  rewrite (forallb_set_ext _ req req' H). reflexivity.
Qed.
Lemma obs_make : forall st ss A f args, InvA st ss A -> defined (ss_decls ss) f = true ->
  make_instance st f args = s_make_code (ss_decls ss) f args.
Proof.
  intros st ss A f args I Hd. destruct (obs_record st ss A I f Hd) as (fl & H1 & H2 & H3 & H4). unfold make_instance. rewrite H1.
  assert (Hfl : f_name fl <> vanilla) by congruence.
  destruct (i_io _ _ _ I fl H2 Hfl) as [Q1 Q2]. rewrite H3 in Q1, Q2. unfold s_make_code.
  rewrite (init_gen_req_ext _ _ _ _ args Q2). apply init_gen_ext.
  - intros x. rewrite (initable_of_ext _ _ x Q1), (obs_vars st ss A I f Hd fl x H1). reflexivity.
  - intros x. rewrite (obs_keys st ss A I f Hd fl x H1). reflexivity.
Qed.
Theorem make_instance_code_rule : forall h f args, wf h = true -> defined (decls h) f = true ->
  make_instance (final h) f args = s_make_code (decls h) f args.
Proof. intros h f args H Hd. destruct (history_inv h H) as [_ [A I]]. apply (obs_make _ _ A f args I Hd). Qed.
Lemma init_res_eqb_eq : forall a b, init_res_eqb a b = true -> a = b.
Proof.
  assert (L : forall l r : list (nat * Z),
            (fix leq (l r : list (nat * Z)) := match l, r with [], [] => true
               | x :: l', y :: r' => ((fst x =? fst y) && Z.eqb (snd x) (snd y)) && leq l' r' | _, _ => false end) l r = true -> l = r).
  { induction l as [| [k z] l IH]; intros [| [k' z'] r] H; try discriminate; [reflexivity |].
    simpl in H. apply andb_true_iff in H. destruct H as [H1 H2]. apply andb_true_iff in H1. destruct H1 as [E1 E2].
    apply Nat.eqb_eq in E1. apply Z.eqb_eq in E2. subst. f_equal. apply IH. exact H2. }
  intros [[u p] |] [[u' p'] |] H; simpl in H; try discriminate; [| reflexivity].
  apply andb_true_iff in H. destruct H as [H1 H2]. rewrite (L _ _ H1), (L _ _ H2). reflexivity.
Qed.
(* the guard g_init holds unless some flavor of the precedence list has the :inittable-instance-variables option
   and no flavor of the list lists a variable (then the code reads the empty inherited set as "every variable") *)
Lemma existsb_flat_map : forall {A} (p : nat -> bool) (g : A -> list nat) l,
  existsb p (flat_map g l) = existsb (fun x => existsb p (g x)) l.
Proof. induction l as [| a r IH]; simpl; [reflexivity |]. rewrite existsb_app, IH. reflexivity. Qed.
Lemma init_res_eqb_refl : forall a, init_res_eqb a a = true.
Proof.
  assert (L : forall l : list (nat * Z),
            (fix leq (l r : list (nat * Z)) := match l, r with [], [] => true
               | x :: l', y :: r' => ((fst x =? fst y) && Z.eqb (snd x) (snd y)) && leq l' r' | _, _ => false end) l l = true).
  { induction l as [| [k z] l IH]; [reflexivity |]. simpl. rewrite Nat.eqb_refl, Z.eqb_refl, IH. reflexivity. }
  intros [[u p] |]; simpl; [rewrite !L; reflexivity | reflexivity].
Qed.
Lemma no_inits_nil : forall ds l, existsb (has_inits ds) l = false -> flat_map (s_initable ds) l = [].
Proof.
  induction l as [| g r IH]; intros H; [reflexivity |]. simpl in H. apply orb_false_iff in H. destruct H as [H1 H2].
  simpl. rewrite (IH H2), app_nil_r. unfold has_inits in H1. unfold s_initable. destruct (decl_of ds g) as [d |]; [| reflexivity].
  destruct (io_inits (d_io d)); [reflexivity | discriminate | discriminate].
Qed.
Theorem g_init_inherited : forall ds f args,
  existsb (has_inits ds) (prec ds f) = false \/ s_initable_all ds f <> [] -> g_init ds f args = true.
Proof.
  intros ds f args Hc. unfold g_init.
  assert (E : s_make_code ds f args = s_make ds f args); [| rewrite E; apply init_res_eqb_refl].
  unfold s_make_code, s_make. apply init_gen_ext; [| reflexivity]. intros k. f_equal.
  unfold s_initable_inh, s_initable_all in *. destruct Hc as [Hc | Hc].
  - rewrite Hc, (no_inits_nil ds _ Hc). reflexivity.
  - assert (Hh : existsb (has_inits ds) (prec ds f) = true).
    { destruct (existsb (has_inits ds) (prec ds f)) eqn:E; [reflexivity |]. exfalso. apply Hc. apply no_inits_nil. exact E. }
    rewrite Hh. unfold initable_of. destruct (flat_map (s_initable ds) (prec ds f)) as [| a l] eqn:El; [contradiction |].
    rewrite <- El. apply existsb_flat_map.
Qed.
Theorem make_instance_by_precedence : forall h f args, wf h = true -> defined (decls h) f = true -> g_init (decls h) f args = true ->
  make_instance (final h) f args = s_make (decls h) f args.
Proof.
  intros h f args H Hd G. rewrite (make_instance_code_rule h f args H Hd). apply init_res_eqb_eq. exact G.
Qed.
