(* C11 — property theorems only.  M = Model.v (the Go code, repaired version [fixed]; [original] for the
   refutations), S = Spec.v (computed from the recorded forms alone).  [wf h]: every flavor is declared once,
   after its components, and methods are defined on declared flavors ("components before users"); forms that
   name vanilla-flavor itself are outside.  [final h] is the model state after history h from the initial
   state, [spec h]/[decls h] what S recorded. *)
From Coq Require Import Permutation.
From C11 Require Import Model Spec Lists SpecFacts SendProofs Refine Proofs SpecOrder Order Refute.

(* (1) For EVERY admissible history, the method table of every flavor for every message is the list of the
   combinations of the flavors of its precedence list (the flavor, then its components depth-first as written,
   first occurrence wins, vanilla-flavor last), in that order, each with the daemons defined for it so far.
   No bound on the number of flavors, components or forms; methods may be defined before or after any
   inheriting flavor. *)
Theorem C11_tables_follow_precedence : forall h f m, wf h = true -> defined (decls h) f = true ->
  table (final h) f m = s_table (spec h) f m.
Proof. exact tables_equal_spec. Qed.
Print Assumptions C11_tables_follow_precedence.

(* (2) Flavor.Precedence and Flavor.inherit are the specification's precedence list. *)
Theorem C11_precedence_depth_first : forall h f, wf h = true -> defined (decls h) f = true ->
  exists fl, find_flavor (final h) f = Some fl /\ f_prec fl = fullprec (decls h) f /\ f_inherit fl = tl (fullprec (decls h) f).
Proof. exact precedence_equal_spec. Qed.
Print Assumptions C11_precedence_depth_first.

(* (3) Instance variable defaults and init keywords: the binding of the first flavor in precedence order that
   declares the variable / keyword (None when no flavor of the list declares it). *)
Theorem C11_defaults_by_precedence : forall h f, wf h = true -> defined (decls h) f = true ->
  exists fl, find_flavor (final h) f = Some fl /\
             (forall v, lookup Nat.eqb v (f_vars fl) = firstsome (own_var (decls h) v) (prec (decls h) f)) /\
             (forall k, lookup Nat.eqb k (f_keys fl) = firstsome (own_key (decls h) k) (prec (decls h) f)).
Proof. exact defaults_by_precedence. Qed.
Print Assumptions C11_defaults_by_precedence.

(* (4) Daemon order on any combination list: Method.Call / InnerCall / continue-whopper (index based, as in
   whoploc.go) run the whoppers outermost first, then every :before first to last, the first primary, every
   :after last to first -- for any number of whoppers (since repo_fixes/C10-2.patch; before it: at most two). *)
Theorem C11_send_order : forall cs vars arg,
  method_call cs (inner_call true false vars arg cs) = s_send vars arg cs.
Proof. exact send_order. Qed.
Print Assumptions C11_send_order.

(* (5) (1)+(4): for every admissible history, (send (make-instance f) m) is what the specification computes from
   the forms: whoppers, :before daemons in precedence order, first primary in that order (gettable/settable
   accessors are primaries of the declaring flavor), :after daemons in reverse order; invalid-method when no
   flavor of the precedence list has a method for m.  No guard. *)
Theorem C11_send_follows_precedence : forall h f m arg, wf h = true -> defined (decls h) f = true ->
  send (final h) f m arg = match s_table (spec h) f m with [] => ([], RNoMethod) | cs => s_send (s_var (decls h) f) arg cs end.
Proof. exact send_equal_spec. Qed.
Print Assumptions C11_send_follows_precedence.

(* (6) the same for the bound path (Instance.BoundReceive -> BoundCall / BoundInnerCall, repaired). *)
Theorem C11_bound_send_follows_precedence : forall h f m, wf h = true -> defined (decls h) f = true ->
  bound_send fixed (final h) f m = match s_table (spec h) f m with [] => ([], RNoMethod) | cs => s_send (s_var (decls h) f) None cs end.
Proof. exact bound_send_equal_spec. Qed.
Print Assumptions C11_bound_send_follows_precedence.

(* (7) The specification is a function of the SET of forms: two admissible orders of the same forms, each
   (flavor, message, daemon) written by at most one form, record the same declarations and slots. *)
Theorem C11_spec_order_free : forall h h', wf h = true -> wf h' = true -> Permutation h h' -> writes_once h ->
  (forall g, decl_of (ss_decls (spec h)) g = decl_of (ss_decls (spec h')) g) /\
  length (ss_decls (spec h)) = length (ss_decls (spec h')) /\
  (forall g m, s_slot (spec h) g m = s_slot (spec h') g m).
Proof. exact spec_order_free. Qed.
Print Assumptions C11_spec_order_free.

(* (8) Hence "the result is the same whether the methods were defined before or after the flavors that inherit
   them": two admissible orders of the same forms leave every flavor with the same precedence, inherit list,
   defaults, keywords, method tables, and the same trace and value for every send (no whopper guard here). *)
Theorem C11_define_order_irrelevant : forall h h', wf h = true -> wf h' = true -> Permutation h h' -> writes_once h ->
  forall f, defined (decls h) f = true ->
  exists fl fl', find_flavor (final h) f = Some fl /\ find_flavor (final h') f = Some fl' /\
    f_prec fl = f_prec fl' /\ f_inherit fl = f_inherit fl' /\
    (forall v, lookup Nat.eqb v (f_vars fl) = lookup Nat.eqb v (f_vars fl')) /\
    (forall k, lookup Nat.eqb k (f_keys fl) = lookup Nat.eqb k (f_keys fl')) /\
    (forall m, table (final h) f m = table (final h') f m) /\
    (forall m arg, send (final h) f m arg = send (final h') f m arg) /\
    (forall m, bound_send fixed (final h) f m = bound_send fixed (final h') f m).
Proof. exact order_irrelevant. Qed.
Print Assumptions C11_define_order_irrelevant.

(* (9) Admissible forms are accepted; a form that is not admissible (method on an undeclared flavor, flavor
   declared twice, component not declared yet) is refused with the matching condition and changes nothing. *)
Theorem C11_admissible_accepted : forall h, wf h = true -> Forall (fun o => o = Ok) (snd (run fixed init h)).
Proof. exact admissible_forms_accepted. Qed.
Print Assumptions C11_admissible_accepted.
Theorem C11_inadmissible_refused : forall st ss x, Inv st ss -> names_vanilla x = false -> form_ok (ss_decls ss) x = false ->
  step fixed st x = (st, s_outcome (ss_decls ss) x) /\ s_outcome (ss_decls ss) x <> Ok.
Proof. exact inadmissible_refused. Qed.
Print Assumptions C11_inadmissible_refused.

(* (9b) make-instance with init arguments (Instance.Init).  For every admissible history each keyword/value pair
   sets the instance variable of that name when the variable -- own or inherited, found by precedence -- is inittable,
   and otherwise goes to the plist handed to :init when it is an init keyword found by precedence (own or inherited
   :default-init-plist / :init-keywords entry); any other keyword is refused.  A name that is both a variable and a keyword
   is a variable first.  [s_make_code] is the code's rule on the specification's tables: since repo_fixes/C11-4 and C11-5 the
   inittable set and the required keywords are inherited (union over the precedence list); it differs from [s_make] only in
   reading an EMPTY inherited set as "every variable" (see (9c)). *)
Theorem C11_make_instance_code_rule : forall h f args, wf h = true -> defined (decls h) f = true ->
  make_instance (final h) f args = s_make_code (decls h) f args.
Proof. exact make_instance_code_rule. Qed.
Print Assumptions C11_make_instance_code_rule.
Theorem C11_make_instance_by_precedence : forall h f args, wf h = true -> defined (decls h) f = true ->
  g_init (decls h) f args = true -> make_instance (final h) f args = s_make (decls h) f args.
Proof. exact make_instance_by_precedence. Qed.
Print Assumptions C11_make_instance_by_precedence.
Theorem C11_make_instance_order_irrelevant : forall h h', wf h = true -> wf h' = true -> Permutation h h' -> writes_once h ->
  forall f args, defined (decls h) f = true -> make_instance (final h) f args = make_instance (final h') f args.
Proof. exact order_irrelevant_make. Qed.
Print Assumptions C11_make_instance_order_irrelevant.
(* (9c) the guard g_init after repo_fixes/C11-4 and C11-5 (the inittable set and the required init keywords are
   inherited): it holds for EVERY argument list unless some flavor of the precedence list has the
   :inittable-instance-variables option while no flavor of the list lists any variable. *)
Theorem C11_init_guard_inherited : forall ds f args,
  existsb (has_inits ds) (prec ds f) = false \/ s_initable_all ds f <> [] -> g_init ds f args = true.
Proof. exact g_init_inherited. Qed.
Print Assumptions C11_init_guard_inherited.
(* the witnesses of the two former findings are inside the guard now, and make-instance answers what s_make demands *)
Theorem C11_initable_inherited_example :
  wf h_inits = true /\ g_init (decls h_inits) 2 [(0, 5%Z)] = true /\
  make_instance (final h_inits) 2 [(0, 5%Z)] = Some ([(0, 5%Z)], []) /\
  s_make (decls h_inits) 2 [(0, 5%Z)] = Some ([(0, 5%Z)], []).
Proof. exact initable_inherited_example. Qed.
Print Assumptions C11_initable_inherited_example.
Theorem C11_required_inherited_example :
  wf h_reqs = true /\ g_init (decls h_reqs) 2 [] = true /\
  make_instance (final h_reqs) 2 [] = None /\ make_instance (final h_reqs) 1 [] = None /\
  make_instance (final h_reqs) 2 [(2, 4%Z)] = Some ([], [(2, 4%Z)]) /\ s_make (decls h_reqs) 2 [] = None.
Proof. exact required_inherited_example. Qed.
Print Assumptions C11_required_inherited_example.
(* the code before these two patches (model version [before_io]) kept both options per flavor *)
Theorem C11_original_initable_not_inherited_refuted :
  make_instance (fst (run before_io init h_inits)) 2 [(0, 5%Z)] = None /\
  s_make (decls h_inits) 2 [(0, 5%Z)] = Some ([(0, 5%Z)], []).
Proof. exact initable_not_inherited_original. Qed.
Print Assumptions C11_original_initable_not_inherited_refuted.
Theorem C11_original_required_not_inherited_refuted :
  make_instance (fst (run before_io init h_reqs)) 2 [] = Some ([], []) /\ make_instance (fst (run before_io init h_reqs)) 1 [] = None /\
  s_make (decls h_reqs) 2 [] = None.
Proof. exact required_not_inherited_original. Qed.
Print Assumptions C11_original_required_not_inherited_refuted.
(* still outside g_init (known finding C11-bare-inittable-on-varless-flavor): a bare option on a flavor without variables *)
Theorem C11_bare_inittable_on_varless_flavor_refuted :
  wf h_bare = true /\ g_init (decls h_bare) 2 [(1, 5%Z)] = false /\
  make_instance (final h_bare) 2 [(1, 5%Z)] = Some ([(1, 5%Z)], []) /\ s_make (decls h_bare) 2 [(1, 5%Z)] = None.
Proof. exact bare_inittable_on_varless_flavor. Qed.
Print Assumptions C11_bare_inittable_on_varless_flavor_refuted.
(* non-vacuity: x is an inittable variable of base and an init keyword of a mixin; the variable is set, k1 goes to :init *)
Theorem C11_example_make_instance :
  wf h_initvar = true /\ g_init (decls h_initvar) 3 [(0, 5%Z); (2, 9%Z)] = true /\
  make_instance (final h_initvar) 3 [(0, 5%Z); (2, 9%Z)] = Some ([(0, 5%Z)], [(2, 9%Z)]) /\
  make_instance (final h_initvar) 3 [(4, 1%Z)] = None /\
  inst_value (s_var (decls h_initvar) 3 0) 0 [(0, 5%Z)] = Some (Some 5%Z).
Proof. exact example_make_instance. Qed.
Print Assumptions C11_example_make_instance.

(* The model's explicit fuel outcomes never occur: ErrFuel is excluded by C11_admissible_accepted (outcome Ok) and
   C11_inadmissible_refused (outcome = the specification's error); a send never answers ROutOfFuel, whatever the state
   and the number of whoppers. *)
Theorem C11_send_never_out_of_fuel : forall st f m arg, snd (send st f m arg) <> ROutOfFuel.
Proof. exact send_total. Qed.
Print Assumptions C11_send_never_out_of_fuel.

(* (10) Refuted for the ORIGINAL WhopLoc.Continue (it handed the next whopper a location one past its index): with
   whoppers on three consecutive combinations the third was skipped.  Repaired by repo_fixes/C10-2.patch (whoploc.go
   is shared with the generic functions of C10); the repaired model meets S on the same history. *)
Theorem C11_original_third_whopper_skipped_refuted :
  wf h_whoppers = true /\
  send_orig (final h_whoppers) 3 (MUser 1) None = ([Ev 33; Ev 23; Ev 30; EvEnd 23; EvEnd 33], RVal 30) /\
  s_send (s_var (decls h_whoppers) 3) None (s_table (spec h_whoppers) 3 (MUser 1)) = ([Ev 33; Ev 23; Ev 13; Ev 30; EvEnd 13; EvEnd 23; EvEnd 33], RVal 30) /\
  send (final h_whoppers) 3 (MUser 1) None = ([Ev 33; Ev 23; Ev 13; Ev 30; EvEnd 13; EvEnd 23; EvEnd 33], RVal 30).
Proof. exact third_whopper_history. Qed.
Print Assumptions C11_original_third_whopper_skipped_refuted.

(* (11) Refuted for the ORIGINAL code (model version [original] = the code before repo_fixes/C11-1..3):
   insertMethod put a late daemon of a base flavor in the wrong place (and differently for two orders of the
   same forms), overwrote a neighbour while inserting, inheritFlavor let vanilla-flavor's primary shadow a later
   component's, BoundInnerCall ran the :after daemons first to last.  The same histories on [fixed] meet S. *)
Theorem C11_original_insert_position_refuted :
  send (fst (run original init h_chain)) 3 (MUser 1) None = ([Ev 11; Ev 21; Ev 30], RVal 30) /\
  send (fst (run original init h_chain')) 3 (MUser 1) None = ([Ev 21; Ev 11; Ev 30], RVal 30) /\
  s_send (s_var (decls h_chain) 3) None (s_table (spec h_chain) 3 (MUser 1)) = ([Ev 21; Ev 11; Ev 30], RVal 30) /\
  send (final h_chain) 3 (MUser 1) None = ([Ev 21; Ev 11; Ev 30], RVal 30).
Proof. exact insert_position_original. Qed.
Print Assumptions C11_original_insert_position_refuted.
Theorem C11_original_insert_clobber_refuted :
  wf h_diamond = true /\
  send (fst (run original init h_diamond)) 4 (MUser 1) None = ([Ev 41; Ev 31; Ev 11; Ev 11; Ev 40; Ev 12; Ev 12], RVal 40) /\
  map shape_of (table (fst (run original init h_diamond)) 4 (MUser 1)) =
    [(4, (false, true, true, false)); (3, (false, true, false, false)); (1, (false, true, false, true)); (1, (false, true, false, true))] /\
  s_send (s_var (decls h_diamond) 4) None (s_table (spec h_diamond) 4 (MUser 1)) = ([Ev 41; Ev 21; Ev 11; Ev 31; Ev 40; Ev 12; Ev 22], RVal 40) /\
  send (final h_diamond) 4 (MUser 1) None = ([Ev 41; Ev 21; Ev 11; Ev 31; Ev 40; Ev 12; Ev 22], RVal 40).
Proof. exact insert_clobber_original. Qed.
Print Assumptions C11_original_insert_clobber_refuted.
Theorem C11_original_vanilla_shadow_refuted :
  wf h_vanilla = true /\
  send (fst (run original init h_vanilla)) 3 (MUser 0) None = ([], RNil) /\
  map shape_of (table (fst (run original init h_vanilla)) 3 (MUser 0)) = [(0, (false, false, true, false)); (2, (false, false, true, false))] /\
  s_send (s_var (decls h_vanilla) 3) None (s_table (spec h_vanilla) 3 (MUser 0)) = ([Ev 20], RVal 20) /\
  send (final h_vanilla) 3 (MUser 0) None = ([Ev 20], RVal 20).
Proof. exact vanilla_shadow_original. Qed.
Print Assumptions C11_original_vanilla_shadow_refuted.
Theorem C11_original_bound_after_order_refuted :
  bound_call original (fun _ => None) [ac 2 21; ac 1 11] = ([Ev 21; Ev 11], RNil) /\
  s_send (fun _ => None) None [ac 2 21; ac 1 11] = ([Ev 11; Ev 21], RNil) /\
  bound_call fixed (fun _ => None) [ac 2 21; ac 1 11] = ([Ev 11; Ev 21], RNil).
Proof. exact bound_after_order_original. Qed.
Print Assumptions C11_original_bound_after_order_refuted.

(* (12) Non-vacuity: an admissible history (diamond, defaults, keywords, accessors, two whoppers, daemons defined
   after the inheriting flavors) with its precedence list, sends and bindings; two different admissible orders
   of the same forms satisfying every hypothesis of (8); an inadmissible history and what it answers. *)
Theorem C11_example_history :
  wf h_example = true /\ writes_once h_example /\ defined (decls h_example) 4 = true /\
  fullprec (decls h_example) 4 = [4; 2; 1; 3; 0] /\
  send (final h_example) 4 (MUser 1) None = ([Ev 23; Ev 13; Ev 21; Ev 31; Ev 40; Ev 12; EvEnd 13; EvEnd 23], RVal 40) /\
  send (final h_example) 4 (MUser 0) None = ([Ev 15; Ev 36], RNil) /\
  send (final h_example) 4 (MGet 0) None = ([], RVal 102) /\ send (final h_example) 4 (MGet 1) None = ([], RNil) /\
  send (final h_example) 4 (MSet 0) (Some 41%Z) = ([], RVal 41) /\ send (final h_example) 4 (MUser 2) None = ([], RNoMethod) /\
  s_var (decls h_example) 4 1 = Some None /\ s_var (decls h_example) 3 1 = Some (Some 113%Z) /\
  s_key (decls h_example) 4 0 = Some (Some 201%Z) /\ s_key (decls h_example) 4 1 = Some (Some 212%Z).
Proof. exact example_history. Qed.
Print Assumptions C11_example_history.
Theorem C11_example_orders :
  wf h_chain = true /\ wf h_chain' = true /\ Permutation h_chain h_chain' /\ writes_once h_chain /\ h_chain <> h_chain'.
Proof. exact example_orders. Qed.
Print Assumptions C11_example_orders.
Theorem C11_example_inadmissible :
  wf [DMethod 1 DBefore (MUser 1) 5 false; fl 1 []] = false /\
  run fixed init [DMethod 1 DBefore (MUser 1) 5 false; fl 2 [1]; fl 1 []; fl 1 []] =
    (fst (run fixed init [fl 1 []]), [ErrNoFlavor; ErrNoComponent; Ok; ErrExists]).
Proof. exact example_inadmissible. Qed.
Print Assumptions C11_example_inadmissible.

(* (13) The slices behind the tables (Slices.v).  Model.v reads Method.Combinations as a list and Go's append as list
   append; Go slices share backing arrays.  inheritFlavor gives the flavor under construction a nil combination list
   and appends the combinations of its components one by one: whatever arrays the existing lists share among each
   other and however much spare capacity they have, the list it builds reads as the combinations appended, in order,
   and every list that existed before reads as before.  (This is why defining a flavor cannot change the table of
   a flavor defined earlier; the correspondence run also checks that directly around every defflavor.) *)
From C11 Require Slices.
Theorem C11_inherit_builds_own_list : forall (H : Slices.heap) (xs : list nat),
  Slices.sread (fst (Slices.build H xs)) (snd (Slices.build H xs)) = xs /\
  forall t, Slices.wf H t -> Slices.sread (fst (Slices.build H xs)) t = Slices.sread H t.
Proof. exact Slices.build_fresh. Qed.
Print Assumptions C11_inherit_builds_own_list.
(* one append: the result reads as the old contents followed by the new element; any other list is unchanged unless
   it lives in the array the append writes in place *)
Theorem C11_append_read_frame : forall H s x, Slices.wf H s ->
  Slices.sread (fst (Slices.sappend H s x)) (snd (Slices.sappend H s x)) = Slices.sread H s ++ [x] /\
  forall t, Slices.wf H t -> (Slices.s_cap t = 0 \/ Slices.s_arr t <> Slices.s_arr s \/ Slices.s_cap s <= Slices.s_len s) ->
            Slices.sread (fst (Slices.sappend H s x)) t = Slices.sread H t.
Proof. exact Slices.sappend_read_frame. Qed.
Print Assumptions C11_append_read_frame.
(* refuted for the shortcut "the first component has the method: take its list as it is": base combines three
   mixins (length 3 in an array of 4); x = (base xo) and y = (base yo) append to base's own slice: after y is defined
   x's table holds y's combination *)
Theorem C11_shared_first_component_refuted :
  Slices.s_cap (snd Slices.ex_base) = 4 /\
  Slices.sread (fst Slices.ex_x) (snd Slices.ex_x) = [1; 2; 3; 4] /\
  Slices.sread (fst Slices.ex_y) (snd Slices.ex_y) = [1; 2; 3; 5] /\
  Slices.sread (fst Slices.ex_y) (snd Slices.ex_x) = [1; 2; 3; 5] /\
  Slices.s_arr (snd Slices.ex_x) = Slices.s_arr (snd Slices.ex_y).
Proof. exact Slices.shared_first_component_refuted. Qed.
Print Assumptions C11_shared_first_component_refuted.
Theorem C11_own_lists_example :
  Slices.sread (fst Slices.ok_y) (snd Slices.ok_x) = [1; 2; 3; 4] /\ Slices.sread (fst Slices.ok_y) (snd Slices.ok_y) = [1; 2; 3; 5] /\
  Slices.sread (fst Slices.ok_y) (snd Slices.ex_base) = [1; 2; 3].
Proof. exact Slices.own_lists_example. Qed.
Print Assumptions C11_own_lists_example.

(* (14) A whopper may continue more than once (a retry): theorems (4)-(6) hold for bodies that call continue-whopper
   0, 1 or 2 times ([conts]; run_wrap runs the rest once per call, the value is that of the last call) - every pass runs
   the whoppers of the components again, because WhopLoc.Continue gives the next whopper a location of its own and does
   not move the caller's.  Example: leaf <- mid <- base, the leaf's whopper continues twice. *)
Theorem C11_retry_example :
  wf h_retry = true /\
  send (final h_retry) 3 (MUser 1) None =
    ([Ev 33; Ev 23; Ev 13; Ev 11; Ev 10; EvEnd 13; EvEnd 23; Ev 23; Ev 13; Ev 11; Ev 10; EvEnd 13; EvEnd 23; EvEnd 33], RVal 10) /\
  s_send (s_var (decls h_retry) 3) None (s_table (spec h_retry) 3 (MUser 1)) = send (final h_retry) 3 (MUser 1) None.
Proof. exact retry_history. Qed.
Print Assumptions C11_retry_example.
(* refuted for ONE location object shared by the whole chain ([continue_shared]: the location is moved to the next whopper
   and handed on): back in the outer whopper it points at the innermost whopper, the second pass skips mid's and base's *)
Theorem C11_shared_location_retry_refuted :
  fst (match wrap_from retry_combos 0 with
       | Some (_, BUser id CTwice) =>
           let '(o1, l1) := continue_shared 9 retry_combos (inner_call true false (fun _ => None) None retry_combos) 0 in
           let '(o2, l2) := continue_shared 9 retry_combos (inner_call true false (fun _ => None) None retry_combos) l1 in
           ((Ev id :: fst o1 ++ fst o2 ++ [EvEnd id], snd o2), l2)
       | _ => (([], ROther), 0)
       end) = ([Ev 33; Ev 23; Ev 13; Ev 11; Ev 10; EvEnd 13; EvEnd 23; Ev 11; Ev 10; EvEnd 33], RVal 10) /\
  method_call retry_combos (inner_call true false (fun _ => None) None retry_combos) =
    ([Ev 33; Ev 23; Ev 13; Ev 11; Ev 10; EvEnd 13; EvEnd 23; Ev 23; Ev 13; Ev 11; Ev 10; EvEnd 13; EvEnd 23; EvEnd 33], RVal 10).
Proof. exact shared_location_skips_on_retry. Qed.
Print Assumptions C11_shared_location_retry_refuted.
