From C11 Require Import Model Spec Proofs.
