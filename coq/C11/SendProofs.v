(* C11 — the order in which a send runs the daemons of a combination list: Method.Call / InnerCall /
   WhopLoc.Continue (model) against the declarative order of the property (Spec.s_send). *)
From C11 Require Import Model Spec Lists.

Lemma first_prim_unbound : forall cs, first_prim false cs = first_primary cs.
Proof.
  unfold first_primary. induction cs as [| c cs IH]; simpl; [reflexivity |]. destruct (c_prim c); [reflexivity | exact IH].
Qed.
Lemma flat_map_rev_short : forall {A B} (f : A -> list B) l, (forall x, length (f x) <= 1) -> flat_map f (rev l) = rev (flat_map f l).
Proof.
  intros A B f l H. induction l as [| x l IH]; simpl; [reflexivity |].
  rewrite flat_map_app, IH, rev_app_distr. simpl. rewrite app_nil_r. f_equal.
  specialize (H x). destruct (f x) as [| y [| z r]]; simpl in *; [reflexivity | reflexivity | lia].
Qed.
Lemma afters_rev : forall cs, afters (rev cs) = rev (afters cs).
Proof.
  intros cs. unfold afters. apply flat_map_rev_short. intros c. destruct (c_aft c) as [[] |]; simpl; lia.
Qed.
(* InnerCall = befores in order, first primary, afters reversed *)
Lemma inner_call_spec : forall vars arg cs,
  inner_call true false vars arg cs =
  (befores cs ++ (match first_primary cs with Some b => run_plain b | None => [] end) ++ rev (afters cs),
   match first_primary cs with Some b => prim_result vars arg b | None => RNil end).
Proof. intros. unfold inner_call. rewrite first_prim_unbound, afters_rev. reflexivity. Qed.

(* scanning for the next whopper *)
Lemma scan_spec : forall l i,
  match scan_wrap l i with
  | None => wraps l = []
  | Some (j, b) => exists pre c post, l = pre ++ c :: post /\ wraps pre = [] /\ c_wrap c = Some b /\ j = i + length pre
  end.
Proof.
  induction l as [| c l IH]; intros i; simpl; [reflexivity |].
  destruct (c_wrap c) as [b |] eqn:E.
  - exists [], c, l. simpl. repeat split; [exact E | lia].
  - specialize (IH (S i)). destruct (scan_wrap l (S i)) as [[j b] |].
    + destruct IH as (pre & c' & post & H1 & H2 & H3 & H4). exists (c :: pre), c', post. subst l. simpl.
      unfold wraps in *. simpl. rewrite E. repeat split; [exact H2 | exact H3 | lia].
    + unfold wraps in *. simpl. rewrite E. exact IH.
Qed.
Lemma wraps_app : forall a b, wraps (a ++ b) = wraps a ++ wraps b.
Proof. intros. unfold wraps. apply filter_map_app. Qed.
Lemma skipn_app_exact : forall {A} (a b : list A), skipn (length a) (a ++ b) = b.
Proof. induction a as [| x a IH]; intros b; simpl; [reflexivity | apply IH]. Qed.
Lemma skipn_cons_exact : forall {A} (a : list A) x b, skipn (S (length a)) (a ++ x :: b) = b.
Proof. induction a as [| y a IH]; intros x b; [reflexivity | apply IH]. Qed.
Lemma skipn_plus : forall {A} m n (l : list A), skipn (n + m) l = skipn n (skipn m l).
Proof.
  induction m as [| m IH]; intros n l.
  - rewrite Nat.add_0_r. reflexivity.
  - rewrite Nat.add_succ_r. destruct l as [| x l]; [rewrite !skipn_nil; reflexivity | apply IH].
Qed.
Lemma wraps_tl_nil : forall l, wraps l = [] -> wraps (tl l) = [].
Proof.
  intros [| c l] H; [reflexivity |]. unfold wraps in *. simpl in *. destruct (c_wrap c); [discriminate | exact H].
Qed.
Lemma skipn_S_tl : forall {A} n (l : list A), skipn (S n) l = tl (skipn n l).
Proof.
  induction n as [| n IH]; intros l.
  - destruct l; reflexivity.
  - destruct l as [| x l]; [reflexivity |]. change (skipn (S (S n)) (x :: l)) with (skipn (S n) l).
    change (skipn (S n) (x :: l)) with (skipn n l). apply IH.
Qed.

(* Continue from the whopper of combination [current]: the whoppers of the later combinations, outermost
   first, around the inner call - however many there are *)
Lemma continue_spec : forall fuel cs inner current, 1 <= fuel -> length cs < fuel + S current ->
  continue_whopper fuel cs inner current = nest (wraps (skipn (S current) cs)) inner.
Proof.
  induction fuel as [| k IH]; intros cs inner current Hf Hl; [lia |]. cbn [continue_whopper]. unfold wrap_from.
  assert (S0 := scan_spec (skipn (S current) cs) (S current)).
  destruct (scan_wrap (skipn (S current) cs) (S current)) as [[j b] |]; [| rewrite S0; reflexivity].
  destruct S0 as (pre & c & post & Hsk & Hpre & Hc & Hj).
  assert (Hlen : length (skipn (S current) cs) = length pre + S (length post)) by (rewrite Hsk, app_length; reflexivity).
  rewrite skipn_length in Hlen.
  assert (Hpost : skipn (S j) cs = post).
  { subst j. replace (S (S current + length pre)) with (S (length pre) + S current) by lia.
    rewrite skipn_plus, Hsk. apply skipn_cons_exact. }
  rewrite Hsk, wraps_app, Hpre. unfold wraps at 1. simpl filter_map. rewrite Hc. simpl nest.
  f_equal. rewrite <- Hpost. apply IH; lia.
Qed.

(* Method.Call runs all the whoppers outermost first around the inner call *)
Lemma method_call_spec : forall cs inner, method_call cs inner = nest (wraps cs) inner.
Proof.
  intros cs inner. unfold method_call, wrap_from. simpl skipn.
  assert (S0 := scan_spec cs 0). destruct (scan_wrap cs 0) as [[i b] |]; [| rewrite S0; reflexivity].
  destruct S0 as (pre & c & post & Hcs & Hpre & Hc & Hi). simpl in Hi. subst i.
  assert (Hlen : length cs = S (length pre + length post)) by (subst cs; rewrite app_length; simpl; lia).
  assert (Hsk : skipn (S (length pre)) cs = post) by (subst cs; apply skipn_cons_exact).
  rewrite continue_spec by lia. rewrite Hsk. subst cs. rewrite wraps_app, Hpre. unfold wraps at 2. simpl filter_map.
  rewrite Hc. reflexivity.
Qed.

(* the send theorem on a combination list *)
Theorem send_order : forall cs vars arg,
  method_call cs (inner_call true false vars arg cs) = s_send vars arg cs.
Proof. intros. rewrite method_call_spec. rewrite inner_call_spec. reflexivity. Qed.

(* the bound path (BoundCall / BoundInnerCall, repaired): the same order, provided a vanilla-flavor primary is
   only found in the last combination (BoundInnerCall passes over it) *)
Fixpoint vlast (cs : list combo) : bool :=
  match cs with
  | [] => true
  | c :: r => (match c_prim c with Some BVanilla => match r with [] => true | _ => false end | _ => true end) && vlast r
  end.
Lemma first_prim_bound : forall cs, vlast cs = true ->
  match first_prim true cs, first_primary cs with
  | Some b, Some b' => b = b'
  | None, Some b' => b' = BVanilla
  | None, None => True
  | Some _, None => False
  end.
Proof.
  unfold first_primary. induction cs as [| c cs IH]; intros H; simpl; [exact I |].
  simpl in H. apply andb_true_iff in H. destruct H as [H1 H2]. destruct (c_prim c) as [b |] eqn:E.
  - destruct b; simpl; try reflexivity. destruct cs; [simpl; reflexivity | discriminate].
  - apply IH. exact H2.
Qed.
Definition bound_call (v : version) (vars : nat -> option val) (cs : list combo) : out :=
  match wrap_from cs 0 with
  | Some (i, b) => run_wrap b (continue_whopper (length cs) cs (inner_call true false vars None cs) i)
  | None => inner_call (v_bound v) true vars None cs
  end.
Theorem bound_send_order : forall cs vars, vlast cs = true -> bound_call fixed vars cs = s_send vars None cs.
Proof.
  intros cs vars V. unfold bound_call.
  destruct (wrap_from cs 0) as [[i b] |] eqn:E.
  - rewrite <- send_order. unfold method_call. rewrite E. reflexivity.
  - unfold s_send. unfold wrap_from in E. simpl in E. assert (S0 := scan_spec cs 0). rewrite E in S0. rewrite S0. simpl nest.
    unfold inner_call. simpl v_bound. cbv iota. rewrite afters_rev.
    assert (F := first_prim_bound cs V). destruct (first_prim true cs) as [b |], (first_primary cs) as [b' |]; try contradiction.
    + subst. reflexivity.
    + subst. reflexivity.
    + reflexivity.
Qed.

(* ---- refutations ------------------------------------------------------------------------------------------- *)
Definition wc (g id : nat) : combo := {| c_from := g; c_prim := None; c_bef := None; c_aft := None; c_wrap := Some (BUser id true) |}.
Definition three_whoppers : list combo :=
  [wc 3 33; wc 2 23; wc 1 13; {| c_from := 0; c_prim := Some (BUser 9 false); c_bef := None; c_aft := None; c_wrap := None |}].
(* the original continue-whopper gave the second whopper a location one past its own index and Continue advanced
   once more: the whopper of the combination right after it never ran (repaired by repo_fixes/C10-2.patch) *)
Lemma third_whopper_skipped :
  method_call_orig three_whoppers (inner_call true false (fun _ => None) None three_whoppers)
    = ([Ev 33; Ev 23; Ev 9; EvEnd 23; EvEnd 33], RVal 9) /\
  s_send (fun _ => None) None three_whoppers = ([Ev 33; Ev 23; Ev 13; Ev 9; EvEnd 13; EvEnd 23; EvEnd 33], RVal 9) /\
  method_call three_whoppers (inner_call true false (fun _ => None) None three_whoppers)
    = s_send (fun _ => None) None three_whoppers.
Proof. vm_compute. repeat split. Qed.
Definition ac (g a : nat) : combo := {| c_from := g; c_prim := None; c_bef := None; c_aft := Some (BUser a false); c_wrap := None |}.
(* the original BoundInnerCall ran the :after daemons first to last *)
Lemma bound_after_order_original :
  bound_call original (fun _ => None) [ac 2 21; ac 1 11] = ([Ev 21; Ev 11], RNil) /\
  s_send (fun _ => None) None [ac 2 21; ac 1 11] = ([Ev 11; Ev 21], RNil) /\
  bound_call fixed (fun _ => None) [ac 2 21; ac 1 11] = ([Ev 11; Ev 21], RNil).
Proof. vm_compute. repeat split. Qed.

(* ---- the fuel of continue_whopper is never exhausted, whatever the number of whoppers ------------------------------- *)
Lemma run_wrap_fuel : forall b k, snd k <> ROutOfFuel -> snd (run_wrap b k) <> ROutOfFuel.
Proof. intros [id [| |] | v | v |] k H; simpl; try exact H; discriminate. Qed.
Lemma scan_lt : forall l i j b, scan_wrap l i = Some (j, b) -> i <= j < i + length l.
Proof.
  intros l i j b H. assert (S := scan_spec l i). rewrite H in S. destruct S as (pre & c & post & Hl & _ & _ & Hj).
  subst. rewrite app_length. simpl. lia.
Qed.
Lemma continue_fuel : forall fuel cs inner current, snd inner <> ROutOfFuel -> 1 <= fuel -> length cs <= fuel + current ->
  snd (continue_whopper fuel cs inner current) <> ROutOfFuel.
Proof.
  induction fuel as [| k IH]; intros cs inner current Hi Hf Hq; [lia |]. cbn [continue_whopper]. unfold wrap_from.
  destruct (scan_wrap (skipn (S current) cs) (S current)) as [[j b] |] eqn:E; [| exact Hi].
  apply scan_lt in E. rewrite skipn_length in E. apply run_wrap_fuel.
  destruct k as [| k']; [lia |]. apply IH; [exact Hi | lia | lia].
Qed.
Theorem send_never_out_of_fuel : forall cs inner, snd inner <> ROutOfFuel -> snd (method_call cs inner) <> ROutOfFuel.
Proof.
  intros cs inner Hi. unfold method_call, wrap_from. simpl skipn. destruct (scan_wrap cs 0) as [[i b] |] eqn:E; [| exact Hi].
  apply scan_lt in E. apply run_wrap_fuel. apply continue_fuel; [exact Hi | lia | lia].
Qed.
Lemma inner_call_fuel : forall r b vars arg cs, snd (inner_call r b vars arg cs) <> ROutOfFuel.
Proof.
  intros. unfold inner_call. simpl. destruct (first_prim b cs) as [[id c | v | v |] |]; simpl; try discriminate.
  - destruct (vars v) as [[z |] |]; discriminate.
  - destruct arg; discriminate.
Qed.
