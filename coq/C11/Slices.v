(* C11 — the slices behind the method tables.

   Model.v treats Method.Combinations as a list and Go's append as list append (add_combo, merge_meths).  Go slices
   share backing arrays: that reading is sound only as long as no table that is still in use shares an array with
   another one that has spare capacity there.  This file models the slice operations inheritFlavor performs and
   proves why the code may be read that way: inheritFlavor gives the new flavor a Method with a nil combination
   list and appends to it, so every array it writes is one it allocated itself (build_fresh); a table that is the
   component's OWN slice (an "optimisation" of the first component, as in seeded change c06-7) lets the next
   append write into the component's array, and the flavor defined next overwrites the entry of the flavor defined
   first (shared_first_component_refuted).  Names are addresses of combinations, as in Model.v. *)
From Coq Require Import List Arith Lia.
Import ListNotations.

Record slice := { s_arr : nat; s_len : nat; s_cap : nat }.
Definition heap := list (list nat).                       (* the arrays; an array's length is its capacity *)
Definition nil_slice : slice := {| s_arr := 0; s_len := 0; s_cap := 0 |}.
Definition arr (H : heap) (a : nat) : list nat := nth a H [].
Definition sread (H : heap) (s : slice) : list nat := firstn (s_len s) (arr H (s_arr s)).

Fixpoint upd {A} (l : list A) (n : nat) (x : A) : list A :=
  match l, n with
  | [], _ => []
  | _ :: r, O => x :: r
  | y :: r, S n' => y :: upd r n' x
  end.
(* growslice for one more element of pointer size, below 256 elements: 0 -> 1 -> 2 -> 4 -> 8 ... *)
Definition grow (cap : nat) : nat := if cap =? 0 then 1 else 2 * cap.
(* append(s, x): in place when there is room, otherwise a new array *)
Definition sappend (H : heap) (s : slice) (x : nat) : heap * slice :=
  if s_len s <? s_cap s
  then (upd H (s_arr s) (upd (arr H (s_arr s)) (s_len s) x),
        {| s_arr := s_arr s; s_len := S (s_len s); s_cap := s_cap s |})
  else let c := grow (s_cap s) in
       (H ++ [sread H s ++ x :: repeat 0 (c - S (s_len s))],
        {| s_arr := length H; s_len := S (s_len s); s_cap := c |}).
(* a slice the heap can account for *)
Definition wf (H : heap) (s : slice) : Prop :=
  s_len s <= s_cap s /\ (s_cap s = 0 \/ (s_arr s < length H /\ length (arr H (s_arr s)) = s_cap s)).

(* ---- list facts ---------------------------------------------------------------------------------- *)
Lemma upd_length : forall A (l : list A) n x, length (upd l n x) = length l.
Proof. induction l as [| y r IH]; intros [| n] x; simpl; auto. Qed.
Lemma nth_upd_same : forall A (l : list A) n x d, n < length l -> nth n (upd l n x) d = x.
Proof. induction l as [| y r IH]; intros [| n] x d H; simpl in *; try lia; auto. apply IH. lia. Qed.
Lemma nth_upd_other : forall A (l : list A) n m x d, n <> m -> nth m (upd l n x) d = nth m l d.
Proof. induction l as [| y r IH]; intros [| n] [| m] x d H; simpl; auto; try lia. Qed.
Lemma firstn_upd_ge : forall A (l : list A) n k x, k <= n -> firstn k (upd l n x) = firstn k l.
Proof.
  induction l as [| y r IH]; intros [| n] [| k] x H; simpl; auto; try lia. f_equal. apply IH. lia.
Qed.
Lemma firstn_S_upd : forall A (l : list A) n x, n < length l -> firstn (S n) (upd l n x) = firstn n l ++ [x].
Proof.
  induction l as [| y r IH]; intros [| n] x H; simpl in *; try lia; auto. f_equal. apply IH. lia.
Qed.
Lemma firstn_app_exact : forall A (a b : list A), firstn (length a) (a ++ b) = a.
Proof. induction a; intros; simpl; [destruct b |]; auto. f_equal. auto. Qed.
Lemma nth_app_last : forall A (l : list A) x d, nth (length l) (l ++ [x]) d = x.
Proof. induction l; intros; simpl; auto. Qed.
Lemma nth_app_old : forall A (l : list A) x n d, n < length l -> nth n (l ++ [x]) d = nth n l d.
Proof. intros. apply app_nth1. assumption. Qed.
Lemma sread_length : forall H s, wf H s -> length (sread H s) = s_len s.
Proof.
  intros H s [L [C | [A B]]]; unfold sread; rewrite firstn_length; [| lia].
  assert (s_len s = 0) by lia. lia.
Qed.

(* ---- one append ------------------------------------------------------------------------------------ *)
Lemma grow_gt : forall c, c < grow c.
Proof. intros c. unfold grow. destruct (c =? 0) eqn:E; [apply Nat.eqb_eq in E | apply Nat.eqb_neq in E]; lia. Qed.

Theorem sappend_read : forall H s x, wf H s -> sread (fst (sappend H s x)) (snd (sappend H s x)) = sread H s ++ [x].
Proof.
  intros H s x W. unfold sappend. destruct (s_len s <? s_cap s) eqn:E.
  - apply Nat.ltb_lt in E. destruct W as [L [C | [A B]]]; [lia |].
    unfold sread. cbn [fst snd s_arr s_len]. unfold arr at 1. rewrite nth_upd_same by assumption.
    apply firstn_S_upd. rewrite B. assumption.
  - cbv zeta. unfold sread at 1. cbn [fst snd s_arr s_len]. unfold arr at 1. rewrite nth_app_last.
    rewrite <- (sread_length H s W) at 1.
    change (sread H s ++ x :: repeat 0 (grow (s_cap s) - S (s_len s))) with (sread H s ++ [x] ++ repeat 0 (grow (s_cap s) - S (s_len s))).
    rewrite app_assoc. replace (S (length (sread H s))) with (length (sread H s ++ [x])) by (rewrite app_length; simpl; lia).
    apply firstn_app_exact.
Qed.

(* another slice is untouched unless it lives in the array the append writes in place *)
Theorem sappend_frame : forall H s x t, wf H t -> (s_cap t = 0 \/ s_arr t <> s_arr s \/ s_cap s <= s_len s) ->
  sread (fst (sappend H s x)) t = sread H t.
Proof.
  intros H s x t Wt D. destruct (Nat.eq_dec (s_len t) 0) as [Z | NZ]; [unfold sread; rewrite Z; reflexivity |].
  destruct Wt as [Lt [Ct | [At Bt]]]; [lia |]. unfold sappend.
  destruct (s_len s <? s_cap s) eqn:E; cbv zeta; cbn [fst]; unfold sread, arr.
  - apply Nat.ltb_lt in E. destruct D as [D | [D | D]]; [lia | | lia]. rewrite nth_upd_other by auto. reflexivity.
  - rewrite app_nth1 by assumption. reflexivity.
Qed.
Theorem sappend_wf : forall H s x, wf H s -> wf (fst (sappend H s x)) (snd (sappend H s x)) /\
  length H <= length (fst (sappend H s x)) /\
  ((s_len s < s_cap s /\ s_arr (snd (sappend H s x)) = s_arr s) \/ s_arr (snd (sappend H s x)) = length H).
Proof.
  intros H s x W. pose proof W as [L C]. unfold sappend. destruct (s_len s <? s_cap s) eqn:E.
  - apply Nat.ltb_lt in E. destruct C as [C | [A B]]; [lia |]. cbn [fst snd]. rewrite upd_length. split; [| split; [lia | left; split; [assumption | reflexivity]]].
    split; cbn [s_len s_cap s_arr]; [lia |]. right. rewrite upd_length. split; [assumption |].
    unfold arr. rewrite nth_upd_same by assumption. rewrite upd_length. assumption.
  - apply Nat.ltb_ge in E. cbv zeta. cbn [fst snd]. rewrite app_length. simpl. split; [| split; [lia | right; reflexivity]].
    pose proof (grow_gt (s_cap s)) as G. split; cbn [s_len s_cap s_arr]; [lia |]. right. rewrite app_length. simpl. split; [lia |].
    unfold arr. rewrite nth_app_last. rewrite app_length. simpl. rewrite repeat_length, (sread_length H s W). lia.
Qed.
Theorem sappend_read_frame : forall H s x, wf H s ->
  sread (fst (sappend H s x)) (snd (sappend H s x)) = sread H s ++ [x] /\
  forall t, wf H t -> (s_cap t = 0 \/ s_arr t <> s_arr s \/ s_cap s <= s_len s) -> sread (fst (sappend H s x)) t = sread H t.
Proof. intros H s x W. split; [apply sappend_read; exact W | intros t Wt D; apply sappend_frame; assumption]. Qed.
Lemma wf_mono : forall H x t, wf H t -> forall s, wf H s -> wf (fst (sappend H s x)) t.
Proof.
  intros H x t [Lt Ct] s Ws. split; [assumption |]. destruct Ct as [Ct | [At Bt]]; [left; assumption | right].
  destruct (sappend_wf H s x Ws) as [_ [Hl _]]. split; [lia |]. unfold sappend.
  destruct (s_len s <? s_cap s); cbv zeta; cbn [fst]; unfold arr.
  - destruct (Nat.eq_dec (s_arr s) (s_arr t)) as [E | E].
    + rewrite E, nth_upd_same by assumption. rewrite upd_length. exact Bt.
    + rewrite nth_upd_other by auto. exact Bt.
  - rewrite app_nth1 by assumption. exact Bt.
Qed.

(* ---- inheritFlavor: a nil list, then appends ------------------------------------------------------- *)
Fixpoint build_from (H : heap) (s : slice) (xs : list nat) : heap * slice :=
  match xs with
  | [] => (H, s)
  | x :: r => let '(H1, s1) := sappend H s x in build_from H1 s1 r
  end.
Definition build (H : heap) (xs : list nat) : heap * slice := build_from H nil_slice xs.

(* appending to a slice that is full (the next append allocates) or whose array is at or beyond n leaves every
   slice that lives in an array below n as it was *)
Lemma build_from_spec : forall xs H s n, wf H s -> n <= length H -> (s_cap s <= s_len s \/ n <= s_arr s) ->
  sread (fst (build_from H s xs)) (snd (build_from H s xs)) = sread H s ++ xs /\
  wf (fst (build_from H s xs)) (snd (build_from H s xs)) /\
  forall t, wf H t -> (s_cap t = 0 \/ s_arr t < n) -> sread (fst (build_from H s xs)) t = sread H t.
Proof.
  induction xs as [| x r IH]; intros H s n W Hn Hs; simpl.
  - rewrite app_nil_r. split; [reflexivity |]. split; [assumption | reflexivity].
  - destruct (sappend H s x) as [H1 s1] eqn:E.
    pose proof (sappend_read H s x W) as R. pose proof (sappend_wf H s x W) as [W1 [L1 A1]]. rewrite E in R, W1, L1, A1. cbn [fst snd] in *.
    destruct (IH H1 s1 n W1) as [I1 [I2 I3]]; [lia | |].
    { right. destruct A1 as [[A0 A1] | A1]; rewrite A1; [| lia]. destruct Hs as [Hs | Hs]; [lia | assumption]. }
    split; [rewrite I1, R, <- app_assoc; reflexivity |]. split; [assumption |].
    intros t Wt Ht. rewrite I3.
    + pose proof (sappend_frame H s x t Wt) as F. rewrite E in F. cbn [fst] in F. apply F.
      destruct Ht as [Ht | Ht]; [left; assumption |]. destruct Hs as [Hs | Hs]; [right; right; assumption | right; left; lia].
    + pose proof (wf_mono H x t Wt s W) as M. rewrite E in M. exact M.
    + assumption.
Qed.
Lemma wf_nil : forall H, wf H nil_slice.
Proof. intros H. split; simpl; [lia | left; reflexivity]. Qed.

(* what inheritFlavor relies on: the list it builds for the new flavor reads as the combinations appended, in
   order, and every list that existed before reads as before - whatever arrays those lists share among each
   other and however much spare capacity they have *)
Theorem build_fresh : forall H xs,
  sread (fst (build H xs)) (snd (build H xs)) = xs /\
  forall t, wf H t -> sread (fst (build H xs)) t = sread H t.
Proof.
  intros H xs. destruct (build_from_spec xs H nil_slice (length H) (wf_nil H) (le_n _)) as [A [_ B]]; [left; simpl; lia |].
  split; [exact A |]. intros t Wt. apply B; [assumption |]. destruct Wt as [_ [C | [C _]]]; [left | right]; assumption.
Qed.

(* ---- the shortcut "the first component has the method: take its list" (seeded change c06-7) ----------- *)
(* base combines three mixins (combinations 1 2 3): its list is built by appends, length 3 in an array of 4.
   x = (base xo) and y = (base yo) take base's slice itself and append their own component's combination (4, 5) *)
Definition ex_base := build [] [1; 2; 3].
Definition ex_x := sappend (fst ex_base) (snd ex_base) 4.
Definition ex_y := sappend (fst ex_x) (snd ex_base) 5.
Theorem shared_first_component_refuted :
  s_cap (snd ex_base) = 4 /\
  sread (fst ex_x) (snd ex_x) = [1; 2; 3; 4] /\          (* x right after its definition *)
  sread (fst ex_y) (snd ex_y) = [1; 2; 3; 5] /\
  sread (fst ex_y) (snd ex_x) = [1; 2; 3; 5] /\          (* x after y was defined: y's combination in x's table *)
  s_arr (snd ex_x) = s_arr (snd ex_y).
Proof. vm_compute. repeat split. Qed.
(* the code as it is: each flavor builds its own list *)
Definition ok_x := build (fst ex_base) [1; 2; 3; 4].
Definition ok_y := build (fst ok_x) [1; 2; 3; 5].
Theorem own_lists_example :
  sread (fst ok_y) (snd ok_x) = [1; 2; 3; 4] /\ sread (fst ok_y) (snd ok_y) = [1; 2; 3; 5] /\
  sread (fst ok_y) (snd ex_base) = [1; 2; 3].
Proof. vm_compute. repeat split. Qed.
