(* C11 — specification S.

   S only records the forms: which flavor was declared with which components / own defaults / own
   keywords, and the latest body given for each (flavor, message, daemon).  Everything the property talks
   about is then computed from these records alone:
     precedence  prec f  = f followed by the precedence lists of its components as written, depth first,
                           first occurrence wins; vanilla-flavor last
     table f m           = the combinations for m of the flavors of prec f, in that order
     send                = whoppers outermost first, every :before in precedence order, the first primary,
                           every :after in reverse order
     default of v / keyword k in f = the one of the first flavor in prec f that declares it.
   Nothing in S depends on the order in which the forms arrived (Proofs.spec_order_free). *)
From C11 Require Import Model.

(* ---- lists without duplicates, first occurrence wins --------------------------------------------------- *)
Definition mem (x : nat) (l : list nat) : bool := existsb (Nat.eqb x) l.
Definition add (l : list nat) (x : nat) : list nat := if mem x l then l else l ++ [x].
Definition adds (l xs : list nat) : list nat := fold_left add xs l.
Definition nub (xs : list nat) : list nat := adds [] xs.

Fixpoint firstsome {A B} (phi : A -> option B) (l : list A) : option B :=
  match l with [] => None | x :: r => match phi x with Some y => Some y | None => firstsome phi r end end.
Fixpoint filter_map {A B} (phi : A -> option B) (l : list A) : list B :=
  match l with [] => [] | x :: r => match phi x with Some y => y :: filter_map phi r | None => filter_map phi r end end.

(* ---- the recorded forms ------------------------------------------------------------------------------- *)
Record decl := { d_vars : list (nat * val); d_comps : list nat; d_keys : list (nat * val); d_io : iopts }.
Definition fm_eqb (a b : nat * mid) : bool := (fst a =? fst b) && mid_eqb (snd a) (snd b).
(* declarations newest first *)
Record sstate := { ss_decls : list (nat * decl); ss_slots : list ((nat * mid) * combo) }.
Definition s_init : sstate := {| ss_decls := []; ss_slots := [((vanilla, MUser 0), vanilla_combo)] |}.

Definition decl_of (ds : list (nat * decl)) (f : nat) : option decl := lookup Nat.eqb f ds.
Definition defined (ds : list (nat * decl)) (f : nat) : bool := isSome (decl_of ds f).
Definition s_slot (ss : sstate) (g : nat) (m : mid) : option combo := lookup fm_eqb (g, m) (ss_slots ss).

(* ---- precedence ------------------------------------------------------------------------------------------ *)
(* the fuel bounds the depth of the component graph; any fuel above the number of declared flavors gives the
   same list (Proofs.s_prec_fuel) *)
Fixpoint s_prec (n : nat) (ds : list (nat * decl)) (f : nat) : list nat :=
  match n with
  | O => []
  | S k => match decl_of ds f with
           | None => []
           | Some d => f :: nub (flat_map (s_prec k ds) (d_comps d))
           end
  end.
Definition prec (ds : list (nat * decl)) (f : nat) : list nat := s_prec (S (length ds)) ds f.
Definition fullprec (ds : list (nat * decl)) (f : nat) : list nat := prec ds f ++ [vanilla].

Definition own_var (ds : list (nat * decl)) (v : nat) (g : nat) : option val :=
  match decl_of ds g with Some d => lookup Nat.eqb v (d_vars d) | None => None end.
Definition own_key (ds : list (nat * decl)) (k : nat) (g : nat) : option val :=
  match decl_of ds g with Some d => lookup Nat.eqb k (d_keys d) | None => None end.
(* the binding of variable v / keyword k in flavor f: the first declaration in precedence order *)
Definition s_var (ds : list (nat * decl)) (f v : nat) : option val := firstsome (own_var ds v) (prec ds f).
Definition s_key (ds : list (nat * decl)) (f k : nat) : option val := firstsome (own_key ds k) (prec ds f).
(* every variable of f, own and inherited *)
Definition s_allvars (ds : list (nat * decl)) (f : nat) : list nat :=
  nub (flat_map (fun g => match decl_of ds g with Some d => map fst (d_vars d) | None => [] end) (prec ds f)).
(* the combinations of f for message m *)
Definition s_table (ss : sstate) (f : nat) (m : mid) : list combo :=
  filter_map (fun g => s_slot ss g m) (fullprec (ss_decls ss) f).

(* ---- recording a form -------------------------------------------------------------------------------------- *)
Definition s_set_slot (ss : sstate) (g : nat) (m : mid) (d : daemon) (b : body) : sstate :=
  let c := match s_slot ss g m with Some c => c | None => empty_combo g end in
  {| ss_decls := ss_decls ss; ss_slots := aset fm_eqb (g, m) (set_slot d b c) (ss_slots ss) |}.
Definition s_acc (a : accs) (ds : list (nat * decl)) (f : nat) : list nat :=
  match a with AccNone => [] | AccAll => s_allvars ds f | AccList l => l end.

(* ---- make-instance ------------------------------------------------------------------------------------------ *)
(* the flavor's own declarations, as the code keeps them *)
Definition s_initable (ds : list (nat * decl)) (f : nat) : list nat :=
  match decl_of ds f with Some d => s_acc (io_inits (d_io d)) ds f | None => [] end.
Definition s_required (ds : list (nat * decl)) (f : nat) : list nat :=
  match decl_of ds f with Some d => io_reqs (d_io d) | None => [] end.
(* the property's rule: init keywords are inherited.  A variable is inittable in f when a flavor of prec f that has
   the option lists it (when no flavor of prec f has the option: every variable, slip's default); the required
   keywords are those of every flavor of prec f. *)
Definition has_inits (ds : list (nat * decl)) (g : nat) : bool :=
  match decl_of ds g with Some d => match io_inits (d_io d) with AccNone => false | _ => true end | None => false end.
Definition s_initable_inh (ds : list (nat * decl)) (f k : nat) : bool :=
  if existsb (has_inits ds) (prec ds f) then existsb (fun g => existsb (Nat.eqb k) (s_initable ds g)) (prec ds f) else true.
Definition s_required_inh (ds : list (nat * decl)) (f : nat) : list nat := nub (flat_map (s_required ds) (prec ds f)).
Definition s_make (ds : list (nat * decl)) (f : nat) (args : list (nat * Z)) :=
  init_gen (fun k => s_initable_inh ds f k && isSome (s_var ds f k)) (fun k => isSome (s_key ds f k)) (s_required_inh ds f) args.
(* the code's rule (as repaired by repo_fixes/C11-4 and C11-5) on the specification's tables: variables, defaults,
   keywords, the inittable set and the required keywords by precedence.  The inittable set is the union of the sets
   of the flavors of prec f; an EMPTY union means "every variable" to the code (len(cf.initable) == 0), whether or
   not some flavor had the option: that is the one place left where it can differ from s_make (a bare
   :inittable-instance-variables on flavors without variables). *)
Definition s_initable_all (ds : list (nat * decl)) (f : nat) : list nat := flat_map (s_initable ds) (prec ds f).
Definition s_make_code (ds : list (nat * decl)) (f : nat) (args : list (nat * Z)) :=
  init_gen (fun k => initable_of (s_initable_all ds f) k && isSome (s_var ds f k)) (fun k => isSome (s_key ds f k)) (s_required_inh ds f) args.
(* guard: where the code's rule gives what the property's rule demands (always, unless some flavor of prec f has
   the :inittable-instance-variables option and no flavor of prec f lists a variable: g_init_inherited) *)
Definition init_res_eqb (a b : option (list (nat * Z) * list (nat * Z))) : bool :=
  let kz_eqb (x y : nat * Z) := (fst x =? fst y) && Z.eqb (snd x) (snd y) in
  let fix leq (l r : list (nat * Z)) := match l, r with [], [] => true | x :: l', y :: r' => kz_eqb x y && leq l' r' | _, _ => false end in
  match a, b with
  | None, None => true
  | Some (u, p), Some (u', p') => leq u u' && leq p p'
  | _, _ => false
  end.
Definition g_init (ds : list (nat * decl)) (f : nat) (args : list (nat * Z)) : bool :=
  init_res_eqb (s_make_code ds f args) (s_make ds f args).

Definition sstep (ss : sstate) (x : form) : sstate :=
  match x with
  | DFlavor f vars comps keys gets sets io =>
      let ds := (f, {| d_vars := set_all Nat.eqb [] vars; d_comps := comps; d_keys := set_all Nat.eqb [] keys; d_io := io |}) :: ss_decls ss in
      let ss1 := {| ss_decls := ds; ss_slots := ss_slots ss |} in
      let ss2 := fold_left (fun s x => s_set_slot s f (MGet x) DPrimary (BGetter x)) (s_acc gets ds f) ss1 in
      fold_left (fun s x => s_set_slot s f (MSet x) DPrimary (BSetter x)) (s_acc sets ds f) ss2
  | DMethod f d m id cont => s_set_slot ss f m d (BUser id cont)
  end.

(* "components before users": a flavor is declared once, after its components; a method is defined on a
   declared flavor.  vanilla-flavor itself is neither redefined, named as a component nor given methods. *)
Definition form_ok (ds : list (nat * decl)) (x : form) : bool :=
  match x with
  | DFlavor f _ comps _ _ _ _ =>
      negb (f =? vanilla) && negb (defined ds f) && forallb (fun c => negb (c =? vanilla) && defined ds c) comps
  | DMethod f _ _ _ _ => negb (f =? vanilla) && defined ds f
  end.
(* forms that name vanilla-flavor itself are outside the specification *)
Definition names_vanilla (x : form) : bool :=
  match x with
  | DFlavor f _ comps _ _ _ _ => (f =? vanilla) || existsb (fun c => c =? vanilla) comps
  | DMethod f _ _ _ _ => f =? vanilla
  end.
Fixpoint wf_from (ss : sstate) (h : list form) : bool :=
  match h with [] => true | x :: h' => form_ok (ss_decls ss) x && wf_from (sstep ss x) h' end.
Definition wf (h : list form) : bool := wf_from s_init h.
Definition s_run (ss : sstate) (h : list form) : sstate := fold_left sstep h ss.
Definition spec (h : list form) : sstate := s_run s_init h.

(* what the implementation answers to a form that is not admissible (the state is then unchanged) *)
Definition s_outcome (ds : list (nat * decl)) (x : form) : outcome :=
  match x with
  | DFlavor f _ comps _ _ _ _ =>
      if (f =? vanilla) || defined ds f then ErrExists
      else if forallb (fun c => (c =? vanilla) || defined ds c) comps then Ok else ErrNoComponent
  | DMethod f _ _ _ _ => if (f =? vanilla) || defined ds f then Ok else ErrNoFlavor
  end.

(* ---- send ------------------------------------------------------------------------------------------------- *)
Definition wraps (cs : list combo) : list body := filter_map c_wrap cs.
Fixpoint nest (ws : list body) (k : out) : out :=
  match ws with
  | [] => k
  | w :: ws' => run_wrap w (nest ws' k)
  end.
Definition first_primary (cs : list combo) : option body := firstsome c_prim cs.
(* whoppers outermost first around: every :before in order, the first primary, every :after in reverse *)
Definition s_send (vars : nat -> option val) (arg : option Z) (cs : list combo) : out :=
  nest (wraps cs)
       (befores cs ++ (match first_primary cs with Some b => run_plain b | None => [] end) ++ rev (afters cs),
        match first_primary cs with Some b => prim_result vars arg b | None => RNil end).

(* the former guard of the send theorem: the original continue-whopper skipped the combination that followed
   the second (third, ...) whopper (C11-third-whopper-skipped, repaired by repo_fixes/C10-2.patch). No theorem
   needs it any more; Corr.v still counts the sends on either side of it for the evidence *)
Definition g_whop (cs : list combo) : bool := length (wraps cs) <=? 2.
