(* C11 — the result does not depend on the order of the forms: two admissible orders of the same forms leave
   flavors with the same precedence, defaults, keywords, tables and sends. *)
From Coq Require Import Permutation.
From C11 Require Import Model Spec Lists SpecFacts SendProofs Refine Proofs SpecOrder.

Lemma send_by_table : forall st ss A f m arg fl, InvA st ss A -> defined (ss_decls ss) f = true -> find_flavor st f = Some fl ->
  send st f m arg = match s_table ss f m with
                    | [] => ([], RNoMethod)
                    | cs => method_call cs (inner_call true false (inst_vars fl) arg cs)
                    end.
Proof.
  intros st ss A f m arg fl I Hd Hf. unfold send. rewrite Hf. assert (L := obs_lookup st ss A I f Hd fl m Hf).
  destruct (lookup mid_eqb m (f_meths fl)) as [tbl |].
  - destruct L as [Ln Lt]. rewrite Lt. destruct (s_table ss f m) eqn:E; [| reflexivity]. destruct tbl; [contradiction | discriminate].
  - rewrite L. reflexivity.
Qed.
Lemma bound_by_table : forall st ss A f m fl, InvA st ss A -> defined (ss_decls ss) f = true -> find_flavor st f = Some fl ->
  bound_send fixed st f m = match s_table ss f m with
                            | [] => ([], RNoMethod)
                            | cs => bound_call fixed (inst_vars fl) cs
                            end.
Proof.
  intros st ss A f m fl I Hd Hf. unfold bound_send. rewrite Hf. assert (L := obs_lookup st ss A I f Hd fl m Hf).
  destruct (lookup mid_eqb m (f_meths fl)) as [tbl |].
  - destruct L as [Ln Lt]. rewrite Lt. destruct (s_table ss f m) eqn:E; [| reflexivity]. destruct tbl; [contradiction | discriminate].
  - rewrite L. reflexivity.
Qed.

Section TwoOrders.
  Variables h h' : list form.
  Hypothesis H : wf h = true.
  Hypothesis H' : wf h' = true.
  Hypothesis P : Permutation h h'.
  Hypothesis N : writes_once h.
  Let E := spec_order_free h h' H H' P N.

  Lemma oi_defined : forall f, defined (decls h) f = defined (decls h') f.
  Proof. intros f. unfold defined, decls. rewrite (proj1 E f). reflexivity. Qed.
  Lemma oi_prec : forall f, prec (decls h) f = prec (decls h') f.
  Proof. intros f. apply prec_ext; [apply (proj1 E) | apply (proj1 (proj2 E))]. Qed.
  Lemma oi_table : forall f m, s_table (spec h) f m = s_table (spec h') f m.
  Proof.
    intros f m. unfold s_table, fullprec. fold (decls h) (decls h'). rewrite oi_prec. apply filter_map_ext. intros g _. apply (proj2 (proj2 E)).
  Qed.
  Lemma oi_var : forall f v, s_var (decls h) f v = s_var (decls h') f v.
  Proof.
    intros f v. unfold s_var. rewrite oi_prec. apply firstsome_ext. intros g _. unfold own_var, decls. rewrite (proj1 E g). reflexivity.
  Qed.
  Lemma oi_key : forall f k, s_key (decls h) f k = s_key (decls h') f k.
  Proof.
    intros f k. unfold s_key. rewrite oi_prec. apply firstsome_ext. intros g _. unfold own_key, decls. rewrite (proj1 E g). reflexivity.
  Qed.

  (* the property's last sentence: the flavors left behind do not depend on the order of the forms *)
  Theorem order_irrelevant : forall f, defined (decls h) f = true ->
    exists fl fl', find_flavor (final h) f = Some fl /\ find_flavor (final h') f = Some fl' /\
      f_prec fl = f_prec fl' /\ f_inherit fl = f_inherit fl' /\
      (forall v, lookup Nat.eqb v (f_vars fl) = lookup Nat.eqb v (f_vars fl')) /\
      (forall k, lookup Nat.eqb k (f_keys fl) = lookup Nat.eqb k (f_keys fl')) /\
      (forall m, table (final h) f m = table (final h') f m) /\
      (forall m arg, send (final h) f m arg = send (final h') f m arg) /\
      (forall m, bound_send fixed (final h) f m = bound_send fixed (final h') f m).
  Proof.
    intros f Hd. assert (Hd' : defined (decls h') f = true) by (rewrite <- oi_defined; exact Hd).
    destruct (history_inv h H) as [_ [A I]]. destruct (history_inv h' H') as [_ [A' I']].
    destruct (obs_record _ _ A I f Hd) as (fl & F1 & _). destruct (obs_record _ _ A' I' f Hd') as (fl' & F1' & _).
    destruct (obs_inherit _ _ A I f Hd fl F1) as [O1 O2]. destruct (obs_inherit _ _ A' I' f Hd' fl' F1') as [O1' O2'].
    assert (Hv : forall x, inst_vars fl x = inst_vars fl' x).
    { intros x. unfold inst_vars. rewrite (obs_vars _ _ A I f Hd fl x F1), (obs_vars _ _ A' I' f Hd' fl' x F1'). apply oi_var. }
    exists fl, fl'. split; [exact F1 |]. split; [exact F1' |].
    split; [rewrite O2, O2'; unfold fullprec; fold (decls h) (decls h'); rewrite oi_prec; reflexivity |].
    split; [rewrite O1, O1'; unfold fullprec; fold (decls h) (decls h'); rewrite oi_prec; reflexivity |].
    split; [exact Hv |].
    split; [intros k; rewrite (obs_keys _ _ A I f Hd fl k F1), (obs_keys _ _ A' I' f Hd' fl' k F1'); apply oi_key |].
    split; [intros m; rewrite (obs_table _ _ A I f Hd m), (obs_table _ _ A' I' f Hd' m); apply oi_table |].
    split.
    - intros m arg. rewrite (send_by_table _ _ A f m arg fl I Hd F1), (send_by_table _ _ A' f m arg fl' I' Hd' F1'), oi_table.
      destruct (s_table (spec h') f m); [reflexivity |]. cbv zeta. rewrite (inner_call_ext true false _ _ arg _ Hv). reflexivity.
    - intros m. rewrite (bound_by_table _ _ A f m fl I Hd F1), (bound_by_table _ _ A' f m fl' I' Hd' F1'), oi_table.
      destruct (s_table (spec h') f m) as [| c cs]; [reflexivity |]. cbv zeta. unfold bound_call.
      rewrite (inner_call_ext true false _ _ None _ Hv), (inner_call_ext (v_bound fixed) true _ _ None _ Hv). reflexivity.
  Qed.
End TwoOrders.

(* make-instance with the same init arguments answers the same in the two final states *)
Theorem order_irrelevant_make : forall h h', wf h = true -> wf h' = true -> Permutation h h' -> writes_once h ->
  forall f args, defined (decls h) f = true -> make_instance (final h) f args = make_instance (final h') f args.
Proof.
  intros h h' H H' P N f args Hd. assert (E := spec_order_free h h' H H' P N). destruct E as (E1 & E2 & E3).
  assert (Hd' : defined (decls h') f = true) by (rewrite <- (oi_defined h h' H H' P N); exact Hd).
  rewrite (make_instance_code_rule h f args H Hd), (make_instance_code_rule h' f args H' Hd'). unfold s_make_code.
  assert (Ei : forall g, s_initable (decls h) g = s_initable (decls h') g).
  { intros g. unfold s_initable, decls. rewrite (E1 g). destruct (decl_of (ss_decls (spec h')) g); [| reflexivity]. apply s_acc_ext; assumption. }
  assert (Er : forall g, s_required (decls h) g = s_required (decls h') g) by (intros g; unfold s_required, decls; rewrite (E1 g); reflexivity).
  assert (Eia : s_initable_all (decls h) f = s_initable_all (decls h') f).
  { unfold s_initable_all. rewrite (oi_prec h h' H H' P N f). apply flat_map_ext_in. intros g _. apply Ei. }
  assert (Era : s_required_inh (decls h) f = s_required_inh (decls h') f).
  { unfold s_required_inh. rewrite (oi_prec h h' H H' P N f). f_equal. apply flat_map_ext_in. intros g _. apply Er. }
  rewrite Eia, Era. apply init_gen_ext.
  - intros x. rewrite (oi_var h h' H H' P N f x). reflexivity.
  - intros x. rewrite (oi_key h h' H H' P N f x). reflexivity.
Qed.
