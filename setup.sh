#!/bin/sh
# Offline build of the framework: Coq development (full .vo) and the Go harness (warms the Go build cache).
set -e
cd "$(dirname "$0")"
export GOFLAGS=-mod=mod GOPROXY=off
unset GOSUMDB GOTOOLCHAIN
mkdir -p build evidence replay
cp /repo/go.sum harness/go.sum
(cd harness && go build -tags verif -o ../build/harness ./cmd/harness)
(cd coq && coq_makefile -f _CoqProject -o Makefile >/dev/null 2>&1 && timeout 7000 make -j16 >build.log 2>&1 || { tail -50 build.log; exit 1; })
echo setup ok
