#!/usr/bin/env python3
"""apply_fixes.py <worktree> <ID> <n> [<n> ...] [id=n ...]
Applies <worktree>/repo_fixes/<ID>-<n>.patch to /repo, one `fix:` commit each (message = first line of the .md, the rest of
the .md as body), then runs the pinned baseline (tools/baseline_check.py, all packages). On success rewrites every
"PENDING" of <worktree>/known_findings/<ID>.json with the commit of the patch that names the finding (id=n pairs override;
a finding named by no .md gets the first commit of the batch) and prints the mapping. On a baseline failure the commits are
removed again (git reset --hard to the old head) and the script exits 1."""
import json, os, re, subprocess, sys
wt, pid = sys.argv[1], sys.argv[2]
nums = [a for a in sys.argv[3:] if "=" not in a]
override = dict(a.split("=") for a in sys.argv[3:] if "=" in a)
def git(*a, **k):
    return subprocess.run(["git", "-C", "/repo"] + list(a), text=True, capture_output=True, **k)
old = git("rev-parse", "HEAD").stdout.strip()
assert git("status", "--porcelain").stdout.strip() == "", "/repo not clean"
commits, mds, skipped = {}, {}, []
for n in nums:
    patch = os.path.join(wt, "repo_fixes", "%s-%s.patch" % (pid, n))
    md = open(patch[:-6] + ".md").read().strip()
    mds[n] = md
    first, _, rest = md.partition("\n")
    first = first.strip().lstrip("#").strip().strip("`*")
    if not first.startswith("fix:"):
        m = re.search(r"fix:[^\n`]*", md)
        first = m.group(0).strip() if m else "fix: " + first
    r = git("apply", "--index", patch)
    if r.returncode:
        r = git("apply", "--index", "--3way", patch)
        if r.returncode or git("diff", "--name-only", "--diff-filter=U").stdout.strip():
            print("SKIPPED patch %s: does not apply to the current head (%s)" % (n, r.stderr.strip()[:300]))
            git("reset", "-q", "--hard", "HEAD"); skipped.append(n); continue
        if git("diff", "--cached", "--quiet").returncode == 0:
            print("SKIPPED patch %s: already contained in the current head" % n); skipped.append(n); continue
    body = re.sub(r"\s+\n", "\n", rest.strip())
    r = git("commit", "-q", "-m", first, "-m", body[:3000])
    assert r.returncode == 0, r.stderr
    commits[n] = git("rev-parse", "--short", "HEAD").stdout.strip()
    print("committed", commits[n], first)
r = subprocess.run(["python3", os.path.join(os.path.dirname(os.path.abspath(__file__)), "baseline_check.py")], text=True, capture_output=True)
print(r.stdout[-1500:])
if r.returncode:
    print("BASELINE FAILS: removing the commits"); git("reset", "--hard", old); sys.exit(1)
kf = os.path.join(wt, "known_findings", pid + ".json")
d = json.load(open(kf))
for f in d["findings"]:
    if f.get("commit") == "PENDING":
        n = override.get(f["id"]) or next((k for k in nums if f["id"] in mds[k]), None) or nums[0]
        if n not in commits:
            print("  %s stays PENDING (patch %s skipped)" % (f["id"], n)); continue
        f["commit"] = commits[n]
        f["what"] = f["what"].replace("PENDING", commits[n])
        print("  %s -> %s (patch %s)" % (f["id"], commits[n], n))
json.dump(d, open(kf, "w"), indent=1, ensure_ascii=False)
print("skipped:", skipped)
