#!/bin/bash
# seedtest.sh <ID> <n...> : run ./check <ID> quick against each seed /tmp/seed/out/<id>-<n>/patch.diff in a scratch copy
# (framework worktree /tmp/vb/st synced to /verif HEAD + uncommitted harness/coq changes, slip worktree /tmp/vb/st-repo)
ID=$1; shift
lc=$(echo $ID | tr A-Z a-z)
mkdir -p /tmp/vb; [ -d /tmp/vb/st ] || git -C /verif worktree add -q -f --detach /tmp/vb/st HEAD; [ -d /tmp/vb/st-repo ] || git -C /repo worktree add -q -f --detach /tmp/vb/st-repo HEAD
cd /tmp/vb/st && git checkout -q --detach $(git -C /verif rev-parse HEAD) 2>/dev/null
rsync -a --exclude build --exclude 'coq/gen' --exclude '*.vo' --exclude '*.glob' --exclude '*.aux' --exclude '.git' --exclude replay --exclude evidence /verif/harness /verif/coq /verif/props /verif/known_findings /verif/check /verif/tools /tmp/vb/st/ 2>/dev/null
git -C /tmp/vb/st-repo checkout -q --detach $(git -C /repo rev-parse HEAD); git -C /tmp/vb/st-repo checkout -- .
for n in "$@"; do
  if [ "$n" = "clean" ]; then
    VERIF_REPO=/tmp/vb/st-repo ./check $ID quick 2>&1 | grep -v "^KNOWN-FINDING" | tail -1 | sed "s/^/clean: /"
    continue
  fi
  git -C /tmp/vb/st-repo apply /tmp/seed/out/$lc-$n/patch.diff 2>&1 | head -2
  VERIF_REPO=/tmp/vb/st-repo ./check $ID quick 2>&1 | grep -v "^KNOWN-FINDING" | tail -1 | sed "s/^/seed $n: /"
  git -C /tmp/vb/st-repo checkout -- .
done
