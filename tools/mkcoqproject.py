#!/usr/bin/env python3
"""Regenerates coq/_CoqProject: one -Q per directory under coq/ (lib -> SlipLib, Cxx -> Cxx) and every
.v file in it, except files a property compiles against regenerated tables (props/*.json gen_compile)."""
import glob, json, os
ROOT = os.path.dirname(os.path.dirname(os.path.abspath(__file__)))
COQ = os.path.join(ROOT, "coq")
skip = set()
for p in glob.glob(os.path.join(ROOT, "props", "C*.json")):
    for g in json.load(open(p)).get("gen_compile", []):
        skip.add(g)
dirs = sorted(d for d in os.listdir(COQ) if os.path.isdir(os.path.join(COQ, d)) and d != "gen"
              and glob.glob(os.path.join(COQ, d, "*.v")))
lines = ["-Q %s %s" % (d, "SlipLib" if d == "lib" else d) for d in dirs]
for d in dirs:
    for f in sorted(glob.glob(os.path.join(COQ, d, "*.v"))):
        rel = os.path.relpath(f, COQ)
        if rel not in skip:
            lines.append(rel)
new = "\n".join(lines) + "\n"
path = os.path.join(COQ, "_CoqProject")
if not os.path.exists(path) or open(path).read() != new:
    open(path, "w").write(new)
print("coq/_CoqProject: %d dirs, %d files" % (len(dirs), len(lines) - len(dirs)))
