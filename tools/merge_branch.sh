#!/bin/bash
# merge_branch.sh <branch> [worktree-id]: merge a builder branch into main safely; removes the branch and its
# worktrees only after the branch head is an ancestor of HEAD.
B=$1; ID=$2
cd /verif || exit 1
git stash -q 2>/dev/null; STASHED=$?
git merge -q --no-edit "$B" 2>&1 | tail -1
for f in $(git status --short | grep "^UU\|^AA" | awk '{print $2}'); do
  case "$f" in evidence/*|coq/_CoqProject|MANIFEST.json) git checkout --ours "$f" ;; *) echo "UNRESOLVED CONFLICT in $f"; exit 2 ;; esac
done
python3 tools/mkcoqproject.py >/dev/null; python3 tools/mkmanifest.py >/dev/null
git add -A; git commit -q -m "merge $B" 2>/dev/null
[ $STASHED -eq 0 ] && git stash pop -q 2>/dev/null
if git merge-base --is-ancestor "$B" HEAD; then
  echo "merged $B"
  if [ -n "$ID" ]; then git worktree remove --force /tmp/vb/$ID 2>/dev/null; git -C /repo worktree remove --force /tmp/vb/$ID-repo 2>/dev/null; fi
  git branch -D "$B" -q
else
  echo "NOT MERGED: $B"; exit 3
fi
