#!/usr/bin/env python3
"""merge_props.py <props/Cxx.json> : resolve a both-sides-edited props file during a merge (stages 1/2/3 of the index):
one-sided changes win; lists are united; strings extended on both sides are concatenated."""
import json, subprocess, sys
f = sys.argv[1]
def show(n): return json.loads(subprocess.check_output(['git', 'show', ':%d:%s' % (n, f)]))
base, ours, theirs = show(1), show(2), show(3)
out = {}
for k in list(ours.keys()) + [k for k in theirs if k not in ours]:
    b, o, t = base.get(k), ours.get(k), theirs.get(k)
    if o == t or t == b: out[k] = o
    elif o == b: out[k] = t
    elif isinstance(o, list) and isinstance(t, list):
        res = list(t)
        for x in o:
            if x not in (b or []) and x not in res: res.append(x)
        out[k] = res
    elif isinstance(o, str) and isinstance(t, str) and isinstance(b, str):
        if o.startswith(b): out[k] = t + o[len(b):]
        elif t.startswith(b): out[k] = o + t[len(b):]
        else:
            # common prefix with base, then both tails
            print("both sides rewrote", k, file=sys.stderr)
            out[k] = t + "  [also, from the other branch of the same round:] " + o
    else:
        print("unmergeable, theirs taken:", k, file=sys.stderr); out[k] = t
with open(f, 'w') as fh:
    json.dump(out, fh, indent=1, ensure_ascii=False); fh.write("\n")
