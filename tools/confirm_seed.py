#!/usr/bin/env python3
"""confirm_seed.py <seed_dir> <demo_dest_dir_rel> <run_regex> <test_pkg> [<test_pkg>...]
Confirms a seeded change in a scratch worktree (never /repo): compiles, the existing tests of the named
packages fail no more than on the pristine tree, the demonstration passes without and fails with the change.
Writes <seed_dir>/confirm.json."""
import json, os, re, subprocess, sys, shutil, hashlib
seed, dest, rx, pkgs = sys.argv[1], sys.argv[2], sys.argv[3], sys.argv[4:]
WT = "/tmp/seed/confirm-" + hashlib.md5(seed.encode()).hexdigest()[:8]
ENV = dict(os.environ, GOFLAGS="-mod=mod", GOPROXY="off")
def sh(cmd, cwd=WT, t=1800):
    p = subprocess.run(cmd, shell=True, cwd=cwd, env=ENV, stdout=subprocess.PIPE, stderr=subprocess.STDOUT, text=True, timeout=t)
    return p.returncode, p.stdout
def fails(out):
    return sorted(set(re.findall(r"^--- FAIL: (\S+)", out, re.M)))
subprocess.run("git -C /repo worktree remove --force %s 2>/dev/null; git -C /repo worktree add -f --detach %s HEAD" % (WT, WT), shell=True, check=True, stdout=subprocess.DEVNULL, stderr=subprocess.DEVNULL)
res = {"seed": seed, "ran": []}
try:
    demo = [f for f in os.listdir(seed) if f.startswith("demo") and f.endswith(".go")][0]
    demo_dst = os.path.join(WT, dest, "zz_seed_" + demo if demo.endswith("_test.go") else demo)
    os.makedirs(os.path.dirname(demo_dst), exist_ok=True)
    # baseline of the existing tests (cached per package on the pristine tree)
    base = {}
    for p in pkgs:
        cache = "/tmp/seed/baseline_" + p.strip("./").replace("/", "_") + ".json"
        if os.path.exists(cache):
            base[p] = json.load(open(cache))
        else:
            rc, out = sh("timeout 1500 go test -vet=off -count=1 %s" % p)
            base[p] = fails(out)
            json.dump(base[p], open(cache, "w"))
    shutil.copy(os.path.join(seed, demo), demo_dst)
    rc0, out0 = sh("timeout 600 go test -vet=off -count=1 -run '%s' ./%s" % (rx, dest))
    res["demo_pristine"] = "pass" if rc0 == 0 else "FAIL"
    res["ran"].append("pristine + demo: rc=%d" % rc0)
    rc, out = sh("git apply %s" % os.path.join(seed, "patch.diff"))
    res["applies"] = rc == 0
    rc, out = sh("timeout 900 go build . ./pkg/... ./cmd/... ./pp/... ./sliptest/...")
    res["compiles"] = rc == 0
    rc1, out1 = sh("timeout 600 go test -vet=off -count=1 -run '%s' ./%s" % (rx, dest))
    res["demo_patched"] = "pass" if rc1 == 0 else "FAIL"
    res["demo_patched_tail"] = out1[-800:]
    os.remove(demo_dst)
    newf = {}
    for p in pkgs:
        rc, out = sh("timeout 1500 go test -vet=off -count=1 %s" % p)
        nf = [f for f in fails(out) if f not in base[p]]
        if nf or ("FAIL" in out and not fails(out) and rc != 0 and "build failed" in out):
            newf[p] = nf or ["build failed"]
    res["new_test_failures"] = newf
    res["confirmed"] = bool(res["applies"] and res["compiles"] and res["demo_pristine"] == "pass" and res["demo_patched"] == "FAIL" and not newf)
finally:
    subprocess.run("git -C /repo worktree remove --force %s" % WT, shell=True, stdout=subprocess.DEVNULL, stderr=subprocess.DEVNULL)
json.dump(res, open(os.path.join(seed, "confirm.json"), "w"), indent=1)
print(json.dumps({k: res.get(k) for k in ("confirmed", "applies", "compiles", "demo_pristine", "demo_patched", "new_test_failures")}))
