#!/bin/bash
# seedtest5.sh <ID> <n...|clean> : like seedtest.sh but with one scratch pair per property (/tmp/vb/st-<id>, /tmp/vb/st-<id>-repo)
# so that several properties can be tested at once; the framework copy keeps the compiled .vo files (incremental Coq build).
ID=$1; shift
lc=$(echo $ID | tr A-Z a-z)
ST=/tmp/vb/st-$lc; SR=/tmp/vb/st-$lc-repo
mkdir -p $ST
[ -d $SR ] || git -C /repo worktree add -q -f --detach $SR HEAD
rsync -a --delete --exclude 'coq/gen' --exclude '.git' --exclude replay --exclude evidence --exclude 'build/*.lock' /verif/ $ST/
mkdir -p $ST/replay $ST/evidence
git -C $SR checkout -q --detach $(git -C /repo rev-parse HEAD); git -C $SR checkout -- .
cd $ST
for n in "$@"; do
  if [ "$n" = "clean" ]; then
    VERIF_REPO=$SR ./check $ID quick > $ST/log-clean.txt 2>&1; grep -v "^KNOWN-FINDING" $ST/log-clean.txt | tail -1 | sed "s/^/$ID clean: /"
    continue
  fi
  git -C $SR apply /tmp/seed/out/$lc-$n/patch.diff 2>&1 | head -2
  VERIF_REPO=$SR ./check $ID quick > $ST/log-$n.txt 2>&1; grep -v "^KNOWN-FINDING" $ST/log-$n.txt | tail -1 | sed "s/^/$ID seed $n: /"
  git -C $SR checkout -- .
done
