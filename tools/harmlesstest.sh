#!/bin/bash
# harmlesstest.sh <ID> [<check-ID>...] : apply each behaviour-preserving patch /tmp/seed/out/<id>-h-N/patch.diff in the scratch
# copy and run the quick checks (default: the property's own) — every run must stay silent.
ID=$1; shift
CHECKS=${@:-$ID}
lc=$(echo $ID | tr A-Z a-z)
mkdir -p /tmp/vb; [ -d /tmp/vb/st ] || git -C /verif worktree add -q -f --detach /tmp/vb/st HEAD; [ -d /tmp/vb/st-repo ] || git -C /repo worktree add -q -f --detach /tmp/vb/st-repo HEAD
cd /tmp/vb/st && git checkout -q --detach $(git -C /verif rev-parse HEAD) 2>/dev/null
rsync -a --exclude build --exclude 'coq/gen' --exclude '*.vo' --exclude '*.glob' --exclude '*.aux' --exclude '.git' --exclude replay --exclude evidence /verif/harness /verif/coq /verif/props /verif/known_findings /verif/check /verif/tools /tmp/vb/st/ 2>/dev/null
git -C /tmp/vb/st-repo checkout -q --detach $(git -C /repo rev-parse HEAD); git -C /tmp/vb/st-repo checkout -- .
for n in 1 2 3; do
  [ -f /tmp/seed/out/$lc-h-$n/patch.diff ] || continue
  git -C /tmp/vb/st-repo apply /tmp/seed/out/$lc-h-$n/patch.diff 2>&1 | head -2
  for c in $CHECKS; do
    VERIF_REPO=/tmp/vb/st-repo ./check $c quick 2>&1 | grep "VIOLATION\|quick:" | tail -2 | sed "s/^/harmless $lc-$n -> /"
  done
  git -C /tmp/vb/st-repo checkout -- .; git -C /tmp/vb/st-repo clean -fdq
done
