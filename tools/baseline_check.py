#!/usr/bin/env python3
"""baseline_check.py [pkg ...]  — runs `go test -json` (guard OFF) in /repo for the given packages (default: ./...)
and checks that every test of BASELINE.json's stable_pass in those packages passes."""
import json, subprocess, sys, os
pkgs = sys.argv[1:] or ["./..."]
env = dict(os.environ, GOPROXY="off")
env.pop("GOFLAGS", None)
p = subprocess.run(["go", "test", "-mod=mod", "-json", "-vet=off", "-count=1", "-timeout", "6m"] + pkgs, cwd="/repo", env=env, stdout=subprocess.PIPE, stderr=subprocess.DEVNULL, text=True)
res = {}
for line in p.stdout.splitlines():
    try:
        e = json.loads(line)
    except Exception:
        continue
    if e.get("Test") and e.get("Action") in ("pass", "fail", "skip"):
        res[e["Package"] + "::" + e["Test"]] = e["Action"]
base = json.load(open("/root/.vp/BASELINE.json"))["stable_pass"]
ran_pkgs = {k.split("::")[0] for k in res}
want = [t for t in base if t.split("::")[0] in ran_pkgs]
bad = [t for t in want if res.get(t) != "pass"]
all_pkgs = {t.split("::")[0] for t in base}
if pkgs == ["./..."] and ran_pkgs != all_pkgs:
    # a package that does not build (or dies before its first test) reports no test at all: that is a failure
    print("packages of the baseline that reported no test (build failure / early death?):", sorted(all_pkgs - ran_pkgs))
    bad = bad or ["<missing packages>"]
print("packages run: %d, stable tests expected: %d, not passing: %d" % (len(ran_pkgs), len(want), len(bad)))
for t in bad[:40]:
    print("  ", t, res.get(t))
sys.exit(1 if bad else 0)
