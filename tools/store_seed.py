#!/usr/bin/env python3
"""store_seed.py <seed_out_dir> <ID-n> <detected_by> [detection_history]
Copies a confirmed seeded change into /verif/seeded/<ID-n>/ with a meta.json."""
import json, os, shutil, sys
src, name, detected = sys.argv[1], sys.argv[2], sys.argv[3]
hist = sys.argv[4] if len(sys.argv) > 4 else None
m = json.load(open(os.path.join(src, "meta.json")))
c = json.load(open(os.path.join(src, "confirm.json")))
if not c.get("confirmed"):
    print("NOT CONFIRMED:", c); sys.exit(1)
d = os.path.join(os.path.dirname(os.path.dirname(os.path.abspath(__file__))), "seeded", name)
os.makedirs(d, exist_ok=True)
for f in os.listdir(src):
    if f == "patch.diff" or (f.startswith("demo") and f.endswith(".go")):
        shutil.copy(os.path.join(src, f), d)
out = {"property": m["property"], "breaks": m["summary"], "needs_to_manifest": m["needs_to_manifest"],
       "files_changed": m.get("files_changed"),
       "author": "independent sub-agent given only the property text and a scratch worktree",
       "demo": "copy the demo file to <slip>/%s and run: go test -vet=off -count=1 -run '%s' ./%s" % (m.get("demo_dest", "?"), m.get("demo_run_regex", "?"), m.get("demo_dest", "?")),
       "confirmed_by_me": {"how": "tools/confirm_seed.py in a scratch worktree under /tmp (removed afterwards): git apply; go build . ./pkg/... ./cmd/... ./pp/... ./sliptest/...; the demo passes on the pristine tree and fails with the patch; the listed test packages show no failure the pristine tree does not have",
                           "result": {k: c.get(k) for k in ("confirmed", "applies", "compiles", "demo_pristine", "demo_patched", "new_test_failures")}},
       "agent_ran": m.get("ran"), "detected_by": detected}
if hist:
    out["detection_history"] = hist
json.dump(out, open(os.path.join(d, "meta.json"), "w"), indent=1)
print("stored", d)
