#!/usr/bin/env python3
"""mkharmless.py: docs/harmless.md (DESIGN 11.6) from seeded-harmless/*/meta.json."""
import glob, json, os
ROOT = os.path.dirname(os.path.dirname(os.path.abspath(__file__)))
rows = []
for d in sorted(glob.glob(os.path.join(ROOT, "seeded-harmless", "*"))):
    m = json.load(open(os.path.join(d, "meta.json")))
    r = m.get("regression") or {}
    again = ("not applicable to the final head (lines rewritten by repairs)" if r and not r.get("applies") else "silent" if r and not r.get("detected") else "reported without failing input" if r else "")
    rows.append((os.path.basename(d), (m.get("summary") or "")[:220].replace("\n", " ").replace("|", "\\|"), m.get("check_outcome", ""), again))
silent = sum(1 for r in rows if r[2].startswith("silent"))
props = sorted({r[0][:3] for r in rows})
txt = ["### 11.6 Behaviour-preserving changes (false-alarm test)", "",
       "Fresh sub-agents were also asked for the opposite of a seeded bug: strictly behaviour-preserving refactorings of the anchored",
       "files (renamed tables and helpers, extracted functions, switches for if-chains, typed arrays for string tables, merged duplicate",
       "loops ...), each verified by the agent with a differential dump (hundreds to tens of thousands of forms, error classes and messages",
       "included) against the pristine tree. `tools/harmlesstest.sh <ID> [other IDs]` applies each patch in a scratch copy and runs the quick",
       "check of the property (and of the neighbouring properties whose files it touches); the patches are kept in `seeded-harmless/`.",
       "%d patches over %d properties: %d leave the checks silent from the start; the others made a source translator fail (a table it reads" % (len(rows), len(props), silent),
       "was renamed / re-typed / wrapped), which is reported as a violation WITHOUT a failing input, as the brief allows (one of them is silent",
       "now that the translator looks through a wrapping call). This test exposed a real flaw, now fixed: the translators of C02, C03, C04 and",
       "C15 used to go on with empty tables when they could not find one, and the comparison then reported thousands of bogus \"failing",
       "inputs\"; a missing table now stops the run as a harness failure (violation without failing input), and `check` no longer crashes when a",
       "regenerated file is missing.",
       "After the repairs and the five strengthening rounds most of these patches no longer apply textually (the lines were",
       "rewritten); `tools/harmless_regress.py` re-runs those that do against the final heads: 19 of 60 at the end of the third",
       "session, all 19 silent - the models and generators added in round five raised no alarm on any of them.", "",
       "| patch | refactoring | outcome of the check when written | on the final heads |", "|---|---|---|---|"]
for r in rows:
    txt.append("| %s | %s | %s | %s |" % r)
open(os.path.join(ROOT, "docs", "harmless.md"), "w").write("\n".join(txt) + "\n")
print(len(rows), "harmless patches,", silent, "silent")
