#!/usr/bin/env python3
"""Regenerates MANIFEST.json from props/*.json (one file per claimed property)."""
import json, os, glob
ROOT = os.path.dirname(os.path.dirname(os.path.abspath(__file__)))
ids = [json.loads(l)["id"] for l in open(os.path.join(ROOT, "properties.jsonl"))]
checks, claimed = [], set()
for p in sorted(glob.glob(os.path.join(ROOT, "props", "C*.json"))):
    c = json.load(open(p))
    pid = c["id"]
    claimed.add(pid)
    checks.append({
        "property_id": pid,
        "quick_cmd": "./check %s quick" % pid,
        "thorough_cmd": "./check %s thorough" % pid,
        "evidence_file": "/verif/evidence/%s.json" % pid,
        "replay_cmd_template": "./check %s --replay {path}" % pid,
        "engine": "rocq-model-correspondence",
        "level_claimed": {"category": "proof", "text": c["level_text"], "design_ref": c.get("design_ref", "DESIGN.md section 5, " + pid)},
        "level_note": c["level_note"],
        "technique": c.get("technique", "machine-checked proof in Rocq (Coq 8.16.1) about a model tied to the Go code by a per-run correspondence check"),
    })
na_reasons = json.load(open(os.path.join(ROOT, "props", "not_applicable.json")))
na = [{"property_id": i, "reason": na_reasons.get(i, "check not built yet in this session; see DESIGN.md section 10 (build order)")}
      for i in ids if i not in claimed]
hooks = json.load(open(os.path.join(ROOT, "MANIFEST.hooks")))
m = {
    "version": 1,
    "setup_cmd": "./setup.sh",
    "hooks": hooks,
    "engines": [{"name": "rocq-model-correspondence", "path": "/verif/check",
                 "serves_properties": sorted(claimed),
                 "kind_free_text": "Rocq (Coq 8.16.1) models + theorems under coq/, Go harness under harness/ driving /repo's working tree, in-Coq evaluation (vm_compute) of the model on observed cases"}],
    "checks": checks,
    "not_applicable": na,
    "notes": "Every check rebuilds the harness from /repo's working tree (-tags verif), rebuilds the proofs, re-runs the correspondence and replays known_findings/<id>.json.",
}
json.dump(m, open(os.path.join(ROOT, "MANIFEST.json"), "w"), indent=1)
print("claimed:", sorted(claimed), "not claimed:", [x["property_id"] for x in na])
