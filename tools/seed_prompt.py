#!/usr/bin/env python3
"""seed_prompt.py <ID> <demo_dest> <demo_package> <test dirs...>  -> /tmp/seed/prompt-<id>.txt and the scratch worktree."""
import json, os, subprocess, sys
ROOT = os.path.dirname(os.path.dirname(os.path.abspath(__file__)))
pid, demo_dest, demo_pkg, tests = sys.argv[1], sys.argv[2], sys.argv[3], sys.argv[4:]
first = int(os.environ.get("SEED_FIRST", "1"))
lc = pid.lower()
os.makedirs("/tmp/seed/out", exist_ok=True)
wt = "/tmp/seed/%sa" % lc
if not os.path.exists(wt):
    subprocess.run(["git", "-C", "/repo", "worktree", "add", "-f", "--detach", wt, "HEAD"], check=True, stdout=subprocess.DEVNULL, stderr=subprocess.DEVNULL)
prop = [json.loads(l) for l in open(os.path.join(ROOT, "properties.jsonl")) if json.loads(l)["id"] == pid][0]
open("/tmp/seed/%s.prop.txt" % lc, "w").write(json.dumps(prop, indent=1))
kf = os.path.join(ROOT, "known_findings", pid + ".json")
pre = []
if os.path.exists(kf):
    for f in json.load(open(kf))["findings"]:
        if f.get("status") == "known":
            w = f.get("witness", {})
            pre.append("- " + f["what"][:300] + (("  e.g. " + str(w.get("program"))[:200]) if isinstance(w, dict) and w.get("program") else ""))
pre = pre[:40]
import glob
done = []
for d in sorted(glob.glob(os.path.join(ROOT, "seeded", pid + "-*"))):
    m = json.load(open(os.path.join(d, "meta.json")))
    done.append("- " + (m.get("breaks") or m.get("summary") or "")[:260].replace("\n", " "))
nums = "{%d,%d,%d}" % (first, first + 1, first + 2)
text = f"""You are helping test a verification framework by writing realistic *bug-introducing* changes ("seeded defects") to a Go project. Work ONLY inside the git worktree {wt} (a checkout of github.com/ohler55/slip, a Common-Lisp interpreter in Go). Do not touch /repo or /verif and do not read anything under /verif.

Environment: run Go with `export GOFLAGS=-mod=mod GOPROXY=off` (do NOT set GOSUMDB or GOTOOLCHAIN). No network. Never run the `slip` CLI binary directly (it drops into a REPL and blocks); write Go tests instead. The project's tests live under ./test/... (./test/ is `package test` for the root package; ./test/cl is package `cl_test` for pkg/cl, idiom `(&sliptest.Function{{Source: "(car '(1 2))", Expect: "1"}}).Test(t)`; other packages likewise: ./test/clos, ./test/flavors, ./test/generic, ./test/gi, ./test/bag ...; look at an existing test file in the destination directory for the package name and idiom). `go build ./...` fails on the pristine tree because of two plugin mains; use `go build . ./pkg/... ./cmd/...`. Always run things under `timeout`. On the pristine tree `go test ./test/cl/` has one test that panics and aborts the package (TestRequireLoadPath): run with `-skip TestRequireLoadPath`, where only TestRequireNotReadable fails (environment); `go test ./test/` fails only TestAppRunGenerate, TestAppRunGenerateCleanup, TestAppRunPrepare; ./test/gi aborts in TestMakeApp* / TestSnapshotRequire, ./test/repl fails TestHistoryAdd and TestStashAdd, ./test/flavors fails TestFlavorGoMakeOnly (all environment).

The property under test (JSON) is in /tmp/seed/{lc}.prop.txt — read it carefully, and read the source files it is anchored in.

Pre-existing defects of the unchanged tree that you must NOT re-introduce, rely on or build upon (choose paths that currently behave correctly):
{chr(10).join(pre) if pre else "- (none recorded)"}

Changes of this kind that were already written in an earlier round (choose DIFFERENT mechanisms, files or code paths; do not repeat these):
{chr(10).join(done) if done else "- (none)"}

Task: produce THREE different, independent changes to the slip source (each as its own patch against the pristine worktree HEAD) that each BREAK this property while (a) the project still compiles (`go build . ./pkg/... ./cmd/...`), and (b) the existing tests still pass exactly as on the pristine tree: {"; ".join("`go test -vet=off -count=1 " + t + "`" for t in tests)} (record the pristine failures first; no additional test may fail). Prefer changes that need something specific to manifest — a particular shape of input, a boundary value, nil / 0 / empty, a second element, a particular order of operations or history — not changes that ordinary use exposes at once. Make them look like plausible refactoring / optimisation mistakes a maintainer could make. Spread the three changes over different mechanisms named in the property's anchors.

For each change N in {nums} write into /tmp/seed/out/{lc}-N/ :
  - patch.diff  : `git diff` of the source change against HEAD (not the demo)
  - demo_test.go : a Go test (package {demo_pkg}, destination {demo_dest}/) with a test function whose name starts with Test{pid}Seed that FAILS with the change and PASSES without it
  - meta.json : {{"property":"{pid}","summary":"...","needs_to_manifest":"...","files_changed":[...],"demo_dest":"{demo_dest}","demo_run_regex":"Test{pid}Seed","ran":["commands you ran and their outcome"]}}
After writing each patch, reset the worktree (`git -C {wt} checkout -- . && git -C {wt} clean -fd`) so patches are independent. Verify each yourself: apply patch → existing tests as on pristine, demo fails; revert → demo passes.

Report back a short summary of the three changes (one paragraph each) and confirm the files exist."""
open("/tmp/seed/prompt-%s.txt" % lc, "w").write(text.replace("{nums}", nums))
print("/tmp/seed/prompt-%s.txt" % lc, len(text))
