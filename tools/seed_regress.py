#!/usr/bin/env python3
"""seed_regress.py [-j N] [ID ...]: re-run every stored seeded change (seeded/<ID>-<n>/patch.diff) against the CURRENT /verif and /repo
heads in scratch copies under /tmp/vb/sr<k> (removed afterwards) and record in each meta.json `regression`:
{"repo_head","verif_head","applies","detected","by","line"}. A patch that no longer applies to the head (a later fix commit touched
the same lines) is tried 3-way; if that fails too it is recorded as not applicable to this head. Never touches /repo."""
import glob, json, os, re, subprocess, sys, threading, queue
ROOT = os.path.dirname(os.path.dirname(os.path.abspath(__file__)))
args = sys.argv[1:]
J = 4
if args[:1] == ["-j"]:
    J = int(args[1]); args = args[2:]
SEED_DIR = os.environ.get("SEED_DIR", os.path.join(ROOT, "seeded"))
seeds = sorted(d for d in glob.glob(os.path.join(SEED_DIR, "C*-*")) if not args or os.path.basename(d)[:3] in args)
def sh(cmd, **k):
    return subprocess.run(cmd, shell=True, text=True, capture_output=True, **k)
repo_head = sh("git -C /repo rev-parse --short HEAD").stdout.strip()
verif_head = sh("git -C %s rev-parse --short HEAD" % ROOT).stdout.strip()
q = queue.Queue()
for s in seeds:
    q.put(s)
out = {}
def worker(k):
    P = os.environ.get("SR_PREFIX", "sr"); fw, rp = "/tmp/vb/%s%d" % (P, k), "/tmp/vb/%s%d-repo" % (P, k)
    sh("rm -rf %s %s; git -C /repo worktree prune" % (fw, rp))
    sh("git -C /repo worktree add -f --detach %s HEAD" % rp)
    sh("mkdir -p %s && rsync -a --exclude build --exclude 'coq/gen' --exclude '.git' --exclude replay --exclude evidence --exclude seeded --exclude seeded-harmless %s/ %s/" % (fw, ROOT, fw))
    sh("rm -f coq/Makefile coq/Makefile.conf coq/.Makefile.d", cwd=fw)
    while True:
        try:
            d = q.get_nowait()
        except queue.Empty:
            break
        name = os.path.basename(d)
        meta = json.load(open(os.path.join(d, "meta.json")))
        checks = re.findall(r"check (C\d\d)", str(meta.get("detected_by", ""))) or [name[:3]]
        r = sh("git -C %s apply %s/patch.diff" % (rp, d))
        if r.returncode:
            r = sh("git -C %s apply --3way %s/patch.diff" % (rp, d))
            if r.returncode or sh("git -C %s diff --name-only --diff-filter=U" % rp).stdout.strip():
                sh("git -C %s reset -q --hard; git -C %s clean -fdq" % (rp, rp))
                r = subprocess.CompletedProcess("", 1)
        which = "patch.diff"
        if r.returncode and os.path.exists(os.path.join(d, "patch.rebased.diff")):
            # the same change ported by hand to the code as rewritten by later repairs
            r = sh("git -C %s apply %s/patch.rebased.diff" % (rp, d)); which = "patch.rebased.diff"
        res = {"repo_head": repo_head, "verif_head": verif_head, "applies": r.returncode == 0, "patch": which, "detected": False, "by": None, "line": None}
        if r.returncode == 0:
            for c in checks:
                o = sh("VERIF_REPO=%s timeout 1500 ./check %s quick 2>&1 | grep '^VIOLATION' | head -3" % (rp, c), cwd=fw).stdout
                v = [l for l in o.splitlines() if l.startswith("VIOLATION")]
                if v:
                    res.update(detected=True, by="./check %s quick" % c, line=v[0].replace(fw, "<verif>"))
                    break
        sh("git -C %s reset -q --hard; git -C %s clean -fdq" % (rp, rp))
        out[name] = res
        meta["regression"] = res
        json.dump(meta, open(os.path.join(d, "meta.json"), "w"), indent=1, ensure_ascii=False)
        print(name, "applies" if res["applies"] else "DOES-NOT-APPLY", "detected" if res["detected"] else "MISSED" if res["applies"] else "", res["by"] or "", flush=True)
    sh("git -C /repo worktree remove --force %s; rm -rf %s" % (rp, fw))
ts = [threading.Thread(target=worker, args=(k,)) for k in range(J)]
[t.start() for t in ts]; [t.join() for t in ts]
app = [n for n, r in out.items() if r["applies"]]
print("seeds %d, apply %d, detected %d, missed %s, not applicable %s" % (len(out), len(app), sum(out[n]["detected"] for n in app),
      [n for n in app if not out[n]["detected"]], [n for n in out if not out[n]["applies"]]))
