#!/usr/bin/env python3
"""Rebuilds section 12 of DESIGN.md from docs/design/C*.md (the per-property as-built notes)."""
import glob, os, re
ROOT = os.path.dirname(os.path.dirname(os.path.abspath(__file__)))
p = os.path.join(ROOT, "DESIGN.md")
s = open(p).read()
import json, subprocess
def fixes_table():
    rows = {}
    for f in sorted(glob.glob(os.path.join(ROOT, "known_findings", "C*.json"))):
        pid = os.path.basename(f)[:-5]
        for e in json.load(open(f))["findings"]:
            if e.get("status") == "fixed":
                w = re.sub(r"^fixed: property=C\d+ \S+ ", "", e["what"])
                rows.setdefault(e.get("commit", "?"), []).append((pid, w))
    order = subprocess.run(["git", "-C", "/repo", "log", "--format=%h %s"], stdout=subprocess.PIPE, text=True).stdout.splitlines()
    out = ["| commit | property | what failed |", "|---|---|---|"]
    for line in reversed(order):
        h, subj = line.split(" ", 1)
        if not subj.startswith("fix:"):
            continue
        ents = rows.get(h, [])
        props = ", ".join(sorted({p_ for p_, _ in ents})) or "—"
        what = ents[0][1] if ents else subj[5:]
        out.append("| %s | %s | %s |" % (h, props, what.replace("|", "\\|")[:420]))
    return "\n".join(out)
def seeds_table():
    out = ["| seed | change | caught by | note |", "|---|---|---|---|"]
    for d in sorted(glob.glob(os.path.join(ROOT, "seeded", "C*-*"))):
        m = json.load(open(os.path.join(d, "meta.json")))
        br = (m.get("breaks") or m.get("summary") or "").replace("\n", " ").replace("|", "\\|")
        out.append("| %s | %s | %s | %s |" % (os.path.basename(d), br[:260], str(m.get("detected_by", "")).split(" (")[0],
                                              (m.get("detection_history") or "caught by the first version of the check").replace("|", "\\|")[:400]))
    return "\n".join(out)
def replace_block(s, name, body):
    b, e = "<!-- %s-BEGIN -->" % name, "<!-- %s-END -->" % name
    if b in s:
        return s[:s.index(b) + len(b)] + "\n" + body + "\n" + s[s.index(e):]
    return s
marker = "\n## 12. Per-property notes as built"
s = replace_block(s, "FIXES", fixes_table())
s = replace_block(s, "SEEDS", seeds_table())
hp = os.path.join(ROOT, "docs", "harmless.md")
if os.path.exists(hp):
    s = replace_block(s, "HARMLESS", open(hp).read().strip())
if marker in s:
    s = s[:s.index(marker)]
out = [s.rstrip(), "", marker.strip(), "",
       "Generated from `docs/design/<id>.md` (written with each property; `tools/mkdesign.py`). Properties without a file here",
       "follow their section-5 design; what each check covers is also in `props/<id>.json`.", ""]
written = {os.path.basename(f)[:-3]: f for f in glob.glob(os.path.join(ROOT, "docs", "design", "C??.md"))}
for pf in sorted(glob.glob(os.path.join(ROOT, "props", "C*.json"))):
    pid = os.path.basename(pf)[:-5]
    if pid in written:
        body = open(written[pid]).read().strip()
        first = re.search(r"^(#+) ", body, flags=re.M)
        shift = 3 - (len(first.group(1)) if first else 1)  # the note's first heading becomes a ### heading
        body = re.sub(r"^(#+) ", lambda m: "#" * max(3, len(m.group(1)) + shift) + " ", body, flags=re.M)
        out += [body, ""]
        # later rounds write separate notes docs/design/<id>-<round>.md: appended below the property's note
        for ef in sorted(glob.glob(os.path.join(ROOT, "docs", "design", pid + "-*.md"))):
            eb = open(ef).read().strip()
            fm = re.search(r"^(#+) ", eb, flags=re.M)
            sh = 4 - (len(fm.group(1)) if fm else 1)
            eb = re.sub(r"^(#+) ", lambda m: "#" * max(4, len(m.group(1)) + sh) + " ", eb, flags=re.M)
            out += ["<!-- from docs/design/%s -->" % os.path.basename(ef), eb, ""]
        continue
    # no hand-written note: summarise from props/<id>.json and known_findings/<id>.json
    c = json.load(open(pf))
    kf = os.path.join(ROOT, "known_findings", pid + ".json")
    fs = json.load(open(kf))["findings"] if os.path.exists(kf) else []
    out += ["### %s (as built, from props/%s.json)" % (pid, pid), "", c.get("explanation", ""), "",
            "*Level:* " + c.get("level_note", ""), "", "*Assumptions / not covered:*"]
    out += ["- " + a for a in c.get("assumptions", [])]
    known = [f for f in fs if f.get("status") == "known"]
    if known:
        out += ["", "*Known findings (%d):*" % len(known)]
        for f in known[:12]:
            out.append("- `%s` — %s" % (f["id"], f["what"][:220]))
        if len(known) > 12:
            out.append("- ... %d more in `known_findings/%s.json`" % (len(known) - 12, pid))
    out.append("")
open(p, "w").write("\n".join(out) + "\n")
print("DESIGN.md rebuilt with", len(glob.glob(os.path.join(ROOT, "docs", "design", "C*.md"))), "property notes")
