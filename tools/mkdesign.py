#!/usr/bin/env python3
"""Rebuilds section 12 of DESIGN.md from docs/design/C*.md (the per-property as-built notes)."""
import glob, os, re
ROOT = os.path.dirname(os.path.dirname(os.path.abspath(__file__)))
p = os.path.join(ROOT, "DESIGN.md")
s = open(p).read()
marker = "\n## 12. Per-property notes as built"
if marker in s:
    s = s[:s.index(marker)]
out = [s.rstrip(), "", marker.strip(), "",
       "Generated from `docs/design/<id>.md` (written with each property; `tools/mkdesign.py`). Properties without a file here",
       "follow their section-5 design; what each check covers is also in `props/<id>.json`.", ""]
for f in sorted(glob.glob(os.path.join(ROOT, "docs", "design", "C*.md"))):
    body = open(f).read().strip()
    body = re.sub(r"^(#+) ", lambda m: "#" * (len(m.group(1)) + 2) + " ", body, flags=re.M)
    out += [body, ""]
open(p, "w").write("\n".join(out) + "\n")
print("DESIGN.md rebuilt with", len(glob.glob(os.path.join(ROOT, "docs", "design", "C*.md"))), "property notes")
