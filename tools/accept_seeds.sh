#!/bin/bash
# accept_seeds.sh <ID> <demo_dest> <regex> <history-or-empty> <test pkgs...> : confirm the three seeds of /tmp/seed/out/<id>-N and store them
ID=$1; DEST=$2; RX=$3; HIST=$4; shift 4
lc=$(echo $ID | tr A-Z a-z)
for n in ${NUMS:-1 2 3}; do
  [ -d /tmp/seed/out/$lc-$n ] || continue
  python3 /verif/tools/confirm_seed.py /tmp/seed/out/$lc-$n $DEST $RX "$@" 2>&1 | tail -1
  python3 /verif/tools/store_seed.py /tmp/seed/out/$lc-$n $ID-$n "./check $ID quick" "$HIST" 2>&1 | tail -1
done
[ -z "$KEEPWT" ] && git -C /repo worktree remove --force /tmp/seed/${lc}a 2>/dev/null
