package c09

import (
	"fmt"
	"go/ast"
	"go/constant"
	"go/parser"
	"go/token"
	"os"
	"path/filepath"
	"strconv"
	"strings"

	"verifharness/common"
)

// A copy of the translator of harness/c02 (that package is not edited from here): the stream theorems of
// coq/C09/StreamTables.v are re-checked against the reader's CURRENT mode tables on every run of C09.
// the translator: the mode tables and escByteMap are constant string expressions in code.go; they are
// re-read from the source on every run and written as Gallina lists.
var readerTableNames = map[string]string{
	"valueMode": "MValue", "commentMode": "MComment", "tokenMode": "MToken", "stringMode": "MString", "symbolMode": "MSymbol",
	"escMode": "MEsc", "runeMode": "MRune", "sharpMode": "MSharp", "charMode": "MChar", "intMode": "MInt",
	"sharpNumMode": "MSharpNum", "mustArrayMode": "MMustArray", "bitVectorMode": "MBitVector",
	"blockCommentMode": "MBlockComment", "blockEndMode": "MBlockEnd",
}

func readerConstString(e ast.Expr) (string, bool) {
	switch t := e.(type) {
	case *ast.BasicLit:
		if t.Kind == token.STRING {
			s, err := strconv.Unquote(t.Value)
			return s, err == nil
		}
	case *ast.BinaryExpr:
		if t.Op == token.ADD {
			a, ok1 := readerConstString(t.X)
			b, ok2 := readerConstString(t.Y)
			return a + b, ok1 && ok2
		}
	case *ast.ParenExpr:
		return readerConstString(t.X)
	}
	if ce, ok := e.(*ast.CallExpr); ok && len(ce.Args) == 1 {
		return readerConstString(ce.Args[0])
	}
	return "", false
}

func writeReaderTables(ctx *common.Ctx) {
	fset := token.NewFileSet()
	f, err := parser.ParseFile(fset, common.RepoDir()+"/code.go", nil, 0)
	if err != nil {
		panic("c09 reader-table translator: cannot parse code.go: " + err.Error())
	}
	found := map[string]string{}
	for _, d := range f.Decls {
		gd, ok := d.(*ast.GenDecl)
		if !ok || (gd.Tok != token.CONST && gd.Tok != token.VAR) {
			continue
		}
		for _, sp := range gd.Specs {
			vs := sp.(*ast.ValueSpec)
			for i, n := range vs.Names {
				if i < len(vs.Values) {
					if s, ok := readerConstString(vs.Values[i]); ok {
						found[n.Name] = s
					}
				}
			}
		}
	}
	_ = constant.MakeString
	var sb strings.Builder
	sb.WriteString("(* regenerated from code.go on every run by harness/c09 (same translation as harness/c02/tables.go) *)\nFrom C02 Require Import Model.\nOpen Scope N_scope.\n")
	var cases []string
	for goName, m := range readerTableNames {
		tbl, ok := found[goName]
		if !ok || len(tbl) < 256 {
			// without the table the model cannot be instantiated: stop (a harness failure, not a failing input)
			panic(fmt.Sprintf("c09 reader-table translator: mode table %s not found in code.go (or shorter than 256 bytes: %d); the translator must be adapted to the new source layout", goName, len(tbl)))
		}
		var xs []string
		for i := 0; i < 256; i++ {
			xs = append(xs, fmt.Sprint(tbl[i]))
		}
		fmt.Fprintf(&sb, "Definition t_%s : list N := [%s].\n", m, strings.Join(xs, ";"))
		cases = append(cases, fmt.Sprintf("  | %s => t_%s", m, m))
	}
	sb.WriteString("Definition tables : mode -> list N := fun m => match m with\n" + strings.Join(readerSortStrings(cases), "\n") + "\n  end.\n")
	em, ok := found["escByteMap"]
	if !ok || len(em) < 256 {
		panic(fmt.Sprintf("c09 reader-table translator: escByteMap not found in code.go (%d bytes); the translator must be adapted to the new source layout", len(em)))
	}
	var xs []string
	for i := 0; i < 256; i++ {
		xs = append(xs, fmt.Sprint(em[i]))
	}
	fmt.Fprintf(&sb, "Definition esc_table : list N := [%s].\nDefinition esc (b : N) : N := nth (N.to_nat b) esc_table 46.\n", strings.Join(xs, ";"))
	if err := os.WriteFile(filepath.Join(ctx.OutDir, "ReaderTables.v"), []byte(sb.String()), 0o644); err != nil {
		panic(err)
	}
}

func readerSortStrings(xs []string) []string {
	for i := 1; i < len(xs); i++ {
		for j := i; j > 0 && xs[j] < xs[j-1]; j-- {
			xs[j], xs[j-1] = xs[j-1], xs[j]
		}
	}
	return xs
}
