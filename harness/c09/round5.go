package c09

import (
	"fmt"
	"regexp"
	"strconv"
	"strings"
	"time"

	"verifharness/common"
)

// Round 5: two KINDS of input that the sweeps did not produce (an outside reader found a hang and a
// makeslice fault with them), enumerated completely over small alphabets, independent of the seed.
//
//   1. format: a move in the argument list (~n* ~n:* ~n@*, n over nothing, 0, 1, 2, 3, large counts, v, #)
//      INSIDE an iteration (~{ ~:{ ~@{ ~:@{, closed by ~} and ~:}, with and without a limit) - directly in the
//      body, next to a consuming directive, and inside a conditional (~[ ~:[ ~@[) nested in the body - so
//      that a pass of the iteration can end where it began or before.
//   2. reader: # followed by a run of 1..25 decimal digits (values around 2^31, 2^32, 2^63, 2^64, the
//      values that wrap around to a small valid count, leading zeros) before every dispatch character
//      that takes a count, complete, truncated after the character and truncated inside the run.

// iterMoveMoves: the ~* directives.
func iterMoveMoves() (out []string) {
	for _, n := range []string{"", "0", "1", "2", "3", "100", "99999999999", "99999999999999999999", "v", "#"} {
		for _, m := range []string{"", ":", "@"} {
			out = append(out, "~"+n+m+"*")
		}
	}
	return
}

// iterMoveControls: (control string, argument text) pairs.
func iterMoveControls() (out [][2]string) {
	listArgs := []string{" '(0 0 1)", " '(1 2 3)", " '(1)", " '()", " '(2 0 1 0)"}
	restArgs := []string{" 0 0 1", " 1 2 3", " 1", "", " 2 0 1 0"}
	subArgs := []string{" '((0 0 1))", " '((1 2 3) (1))", " '((1))", " '(())", " '((2 0 1 0) (0 1))"}
	iters := []struct {
		open string
		args []string
	}{{"~{", listArgs}, {"~@{", restArgs}, {"~:{", subArgs}, {"~:@{", listArgs}}
	for _, mv := range iterMoveMoves() {
		bodies := []string{
			mv, "~A" + mv, mv + "~A", "~A~A" + mv, "x" + mv + "~^y",
			// inside a conditional nested in the iteration: the move is taken on some passes only
			"~[~;" + mv + "~]", "~[" + mv + "~;~A~]", "~[~;~;" + mv + "~:;~]", "~A~[~;" + mv + "~]",
			"~:[~;" + mv + "~]", "~:[" + mv + "~;~]", "~@[" + mv + "~]", "~[~:;" + mv + "~]",
		}
		for _, it := range iters {
			for bi, body := range bodies {
				for ai, args := range it.args {
					closer := "~}"
					if (bi+ai)%4 == 3 {
						closer = "~:}"
					}
					open := it.open
					switch (bi + 2*ai) % 7 {
					case 5:
						open = "~3" + open[1:] // a limit
					case 6:
						open = "~100000000000" + open[1:] // a limit no output could reach
					}
					out = append(out, [2]string{open + body + closer, args})
				}
			}
		}
	}
	return
}

// sharpDigitRuns: runs of decimal digits of every length 1..25 and the values at which a count kept in
// an int32, an int64 or a uint64 changes sign, wraps around, or comes back as a small valid count.
func sharpDigitRuns() (out []string) {
	seen := map[string]bool{}
	add := func(s string) {
		if !seen[s] {
			seen[s] = true
			out = append(out, s)
		}
	}
	for l := 1; l <= 25; l++ {
		add(strings.Repeat("9", l))
		add("1" + strings.Repeat("0", l-1))
		add(strings.Repeat("0", l-1) + "2")
		add(strings.Repeat("1", l))
		add("2" + strings.Repeat("0", l-1))
	}
	for _, s := range []string{
		"36", "37", "1024", "1025", "10240", "10249", "10250",
		"2147483647", "2147483648", "2147483649", "4294967295", "4294967296", "4294967297", "4294967298", "4294967306", "4294967332",
		"9223372036854775806", "9223372036854775807", "9223372036854775808", "9223372036854775809", "9223372036854775817",
		"9999999999999999999", "12345678901234567890",
		"18446744073709551614", "18446744073709551615", "18446744073709551616", "18446744073709551617", "18446744073709551618",
		"18446744073709551619", "18446744073709551626", "18446744073709551632", "18446744073709551652", "18446744073709552640", "18446744073709552641",
		"36893488147419103232", "36893488147419103233", "36893488147419103234", "184467440737095516160", "184467440737095516170",
		"340282366920938463463374607431768211456", "340282366920938463463374607431768211458",
	} {
		add(s)
	}
	return
}

// sharpDigitTexts: # + digit run + dispatch character + contents; complete and truncated.
func sharpDigitTexts() (out []string) {
	contents := map[string][]string{
		"A": {"", "(", "()", "(1)", "((1 2) (3 4))", "1"},
		"a": {"", "()", "(1)"},
		"R": {"", "1", "10", "z", "-1", "1/2"},
		"r": {"", "1", "11"},
		"*": {"", "01", "1"},
		"(": {"", ")", "1)", "1 2)"},
		"=": {"", "1", "(a)"},
		"#": {"", " "},
	}
	for _, run := range sharpDigitRuns() {
		out = append(out, "#"+run, "#"+run+" ", "(#"+run+")")
		for _, m := range []string{"A", "a", "R", "r", "*", "(", "=", "#"} {
			for _, c := range contents[m] {
				out = append(out, "#"+run+m+c)
			}
		}
		// a second count after the first (the field is set afresh by the first digit after #)
		out = append(out, "#"+run+"A(1) #2A((1))", "(#"+run+"R1 #2R1)")
	}
	return
}

// sharpExpected: what the count of #<run>A / #<run>R must lead to, decided on the digits alone (no
// machine arithmetic): a rank above array-rank-limit and a radix above 36 are errors of the reader, whatever
// the run's length. Returns "" when this text is not decided here.
func sharpExpected(run, m string) string {
	d := strings.TrimLeft(run, "0")
	switch m {
	case "A", "a":
		if len(d) > 4 || (len(d) == 4 && d > "1024") {
			return "parse-error"
		}
	case "R", "r":
		if len(d) > 2 || (len(d) == 2 && d > "36") || d == "" || d == "1" {
			return "parse-error"
		}
	}
	return ""
}

// ---- the cases compared with coq/C09/Progress.v on every run ----

type moveOp struct {
	show      bool
	colon, at bool
	n         int // -1 = v
}

func (o moveOp) ctl() string {
	if o.show {
		return "|~#~"
	}
	n := "v"
	if o.n >= 0 {
		n = strconv.Itoa(o.n)
	}
	m := ""
	if o.colon {
		m = ":"
	}
	if o.at {
		m = "@"
	}
	return "~" + n + m + "*"
}

func (o moveOp) term() string {
	if o.show {
		return "Show"
	}
	n := "None"
	if o.n >= 0 {
		n = fmt.Sprintf("(Some %d)", o.n)
	}
	return fmt.Sprintf("Move %v %v %s", o.colon, o.at, n)
}

type iterCase struct {
	src, ops, args string
}

// iterModelCases: EVERY body of the shapes Show+move, Show+move+move, move+Show, Show, empty over the 15 moves
// (plain / colon / at-sign x count v, 0, 1, 2, 3) inside ~{ ~} (the two-move bodies) and ~@{ ~}, over EVERY argument
// list of length 0..3 over 0..3.
func iterModelCases() (out []iterCase) {
	var moves []moveOp
	for _, md := range [][2]bool{{false, false}, {true, false}, {false, true}} {
		for n := -1; n <= 3; n++ {
			moves = append(moves, moveOp{colon: md[0], at: md[1], n: n})
		}
	}
	show := moveOp{show: true}
	bodies := [][]moveOp{{}, {show}}
	for _, m := range moves {
		bodies = append(bodies, []moveOp{show, m}, []moveOp{m, show})
	}
	short := len(bodies)
	for _, m1 := range moves {
		for _, m2 := range moves {
			bodies = append(bodies, []moveOp{show, m1, m2})
		}
	}
	var argLists [][]int
	argLists = append(argLists, []int{})
	for a := 0; a < 4; a++ {
		argLists = append(argLists, []int{a})
		for b := 0; b < 4; b++ {
			argLists = append(argLists, []int{a, b})
			for c := 0; c < 4; c++ {
				argLists = append(argLists, []int{a, b, c})
			}
		}
	}
	for bi, body := range bodies {
		var ctl, ops []string
		for _, o := range body {
			ctl = append(ctl, o.ctl())
			ops = append(ops, o.term())
		}
		for _, al := range argLists {
			var as []string
			for _, a := range al {
				as = append(as, strconv.Itoa(a))
			}
			opsT := "[" + strings.Join(ops, "; ") + "]"
			argsT := "[" + strings.Join(as, "; ") + "]"
			out = append(out, iterCase{fmt.Sprintf("(format nil \"~{%s~}\" '(%s))", strings.Join(ctl, ""), strings.Join(as, " ")), opsT, argsT})
			if bi < short {
				sp := ""
				if len(as) > 0 {
					sp = " "
				}
				out = append(out, iterCase{fmt.Sprintf("(format nil \"~@{%s~}\"%s%s)", strings.Join(ctl, ""), sp, strings.Join(as, " ")), opsT, argsT})
			}
		}
	}
	return
}

var showRe = regexp.MustCompile(`^(\|~*)*$`)

// progressCases runs the round-5 model cases in worker processes (a hang must not stay behind in this process) and
// writes them as shards for coq/C09/Progress.v: check_iter_all / check_sharp_all.
func progressCases(ctx *common.Ctx, self, dir string, workers, memKB int, mk func(string) job) int {
	run := func(srcs []string) []result {
		var groups [][]job
		for i := 0; i < len(srcs); i += 1000 {
			var g []job
			for _, s := range srcs[i:min(i+1000, len(srcs))] {
				j := mk(s)
				j.Kind = "eval-value"
				g = append(g, j)
			}
			groups = append(groups, g)
		}
		var out []result
		for _, rs := range runGroups(self, dir, groups, workers, 4*time.Second, memKB) {
			out = append(out, rs...)
		}
		return out
	}
	header := "From Coq Require Import ZArith List.\nImport ListNotations.\nFrom C09 Require Import Progress.\nOpen Scope Z_scope.\n"
	total := 0
	// iterations
	{
		ics := iterModelCases()
		var srcs []string
		for _, ic := range ics {
			srcs = append(srcs, ic.src)
		}
		var terms []string
		var descs []any
		for i, r := range run(srcs) {
			var obs string
			switch {
			case r.Class == "skipped":
				ctx.Hist("iteration-model-case-skipped-after-timeouts")
				continue
			case r.Fault != "":
				obs = "JFault"
			case r.Class != "":
				obs = "JErr"
			case !showRe.MatchString(r.Msg):
				obs = "(JText [-1])"
			default:
				var ns []string
				if r.Msg != "" {
					for _, piece := range strings.Split(r.Msg, "|")[1:] {
						ns = append(ns, strconv.Itoa(len(piece)))
					}
				}
				obs = "(JText [" + strings.Join(ns, "; ") + "])"
			}
			terms = append(terms, fmt.Sprintf("{| i_ops := %s; i_args := %s; i_obs := %s |}", ics[i].ops, ics[i].args, obs))
			descs = append(descs, map[string]any{"program": ics[i].src, "outcome": fmt.Sprintf("[%s] %s %s", r.Class, r.Msg, r.Fault)})
			ctx.Hist("iteration-model-case")
			total++
		}
		footer := "Definition res := Eval vm_compute in check_iter_all cases.\nPrint res.\nDefinition modelled := Eval vm_compute in N.of_nat (length cases).\nPrint modelled.\n"
		ctx.WriteShards("iter", header, "icase", footer, terms, descs, 8)
	}
	// the count after #
	{
		type sc struct {
			src, run string
			radix    bool
		}
		var scs []sc
		for _, run := range sharpDigitRuns() {
			scs = append(scs, sc{fmt.Sprintf("(values (read-from-string \"#%sR10\"))", run), run, true},
				sc{fmt.Sprintf("(values (read-from-string \"#%sA()\"))", run), run, false})
		}
		var srcs []string
		for _, c := range scs {
			srcs = append(srcs, c.src)
		}
		var terms []string
		var descs []any
		for i, r := range run(srcs) {
			var obs string
			switch {
			case r.Class == "skipped":
				continue
			case r.Fault != "":
				obs = "ObsFault"
			case r.Class == "parse-error":
				obs = "ObsParseError"
			case r.Class != "":
				obs = "ObsCondition"
			default:
				if n, err := strconv.ParseInt(r.Msg, 10, 64); err == nil && scs[i].radix {
					obs = fmt.Sprintf("(ObsVal %d)", n)
				} else {
					obs = "ObsOther"
				}
			}
			var ds []string
			for _, ch := range scs[i].run {
				ds = append(ds, string(ch))
			}
			terms = append(terms, fmt.Sprintf("{| s_radix := %v; s_digits := [%s]; s_obs := %s |}", scs[i].radix, strings.Join(ds, "; "), obs))
			descs = append(descs, map[string]any{"program": scs[i].src, "outcome": fmt.Sprintf("[%s] %s %s", r.Class, r.Msg, r.Fault)})
			ctx.Hist("sharp-count-model-case")
			total++
		}
		footer := "Definition res := Eval vm_compute in check_sharp_all cases.\nPrint res.\nDefinition modelled := Eval vm_compute in N.of_nat (length cases).\nPrint modelled.\n"
		ctx.WriteShards("sharp", header, "scase", footer, terms, descs, 2)
	}
	return total
}
