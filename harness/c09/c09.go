package c09

import (
	"encoding/json"
	"fmt"
	"os"
	"sort"
	"strings"
	"time"

	"github.com/ohler55/slip"
	"verifharness/common"
)

// the argument pool: Lisp expressions, evaluated afresh for every call
type arg struct{ kind, src string }

var pool = []arg{
	{"nil", "nil"}, {"t", "t"}, {"zero", "0"}, {"one", "1"}, {"neg", "-1"}, {"small", "7"}, {"big-fix", "4611686018427387904"},
	{"min-fix", "-9223372036854775808"}, {"bignum", "100000000000000000000"}, {"neg-bignum", "-100000000000000000000"},
	{"ratio", "3/4"}, {"neg-ratio", "-7/2"}, {"single", "1.5s0"}, {"double", "2.5d0"}, {"neg-double", "-0.5d0"}, {"long", "1.25l0"},
	{"complex", "#C(1 2)"}, {"char", "#\\a"}, {"char-nl", "#\\Newline"}, {"empty-string", "\"\""}, {"string", "\"abc\""},
	{"tilde-string", "\"~D ~A~%\""}, {"symbol", "'foo"}, {"keyword", ":bar"}, {"fn-symbol", "'car"}, {"function", "#'car"},
	{"lambda", "(lambda (x) x)"}, {"list", "'(1 2 3)"}, {"list1", "'(a)"}, {"dotted", "'(1 . 2)"}, {"alist", "'((a . 1) (b . 2))"},
	{"nested", "'((1 2) (3 (4)))"}, {"vector", "#(1 2 3)"}, {"empty-vector", "#()"}, {"bit-vector", "#*1011"}, {"array", "#2A((1 2) (3 4))"},
	{"octets", "(coerce '(1 2 3) 'octets)"}, {"hash-table", "(make-hash-table)"}, {"package", "(find-package 'cl)"},
	{"string-stream", "(make-string-input-stream \"a b\")"}, {"out-stream", "(make-string-output-stream)"},
	{"time", "@2024-01-02T03:04:05Z"}, {"values", "(values 1 2)"}, {"no-values", "(values)"},
	// non-ASCII characters and strings (added after seeded change C09-5 was missed)
	{"char-latin1", "#\\é"}, {"char-greek", "#\\λ"}, {"char-arabic-digit", "(code-char 1635)"}, {"string-non-ascii", "\"héλ٣\""},
	// designators and ragged structures (added after seeded changes C09-1 and C09-3 were missed)
	{"pkg-symbol", "'keyword"}, {"pkg-keyword", ":keyword"}, {"pkg-string", "\"keyword\""}, {"ragged-alist", "'((a . 1) (b))"},
	{"list-of-empty", "'(())"}, {"list-of-list1", "'((a))"}, {"plist", "'(:a 1 :b)"}, {"neg-big", "-4611686018427387905"},
	// sizes between "a few" and "does not fit", byte specifiers, zero as a float (added after a review: make-array 300000000,
	// ash by -100, dpb with (byte -1 0) and format ~F of 0.0 were not reachable from the pool)
	{"mid-fix", "300000000"}, {"neg-hundred", "-100"}, {"byte-spec", "(byte 2 1)"}, {"neg-byte-spec", "(byte -1 0)"},
	{"huge-byte-spec", "(byte 4611686018427387904 0)"}, {"zero-double", "0.0d0"}, {"one-digit-float", "0.001"},
	// objects whose Go type is a slice or a map outside the root package's list / octets (stream types of pkg/cl) and
	// condition objects, one with a slot holding what no system-made condition holds (added after seeded changes C09-7, C09-9)
	{"broadcast-stream", "(make-broadcast-stream)"}, {"concatenated-stream", "(make-concatenated-stream)"},
	{"condition", "(make-condition 'error :message \"boo\")"}, {"condition-odd-stack", "(make-condition 'error :message \"boo\" :stack 5)"},
}

// the objects of the exhaustive 3-tuple grid (every function x core^3)
var core = []string{"nil", "zero", "one", "neg", "bignum", "string", "list", "function", "neg-byte-spec"}

// call sites outside the reach of the pool: (key, program). A long-float with a huge exponent is not in the pool because nearly
// every numeric function hangs on it (one root cause, see the known finding); two call sites stand for it.
var extras = [][2]string{
	{"common-lisp:+/2", "(+ 1l99999999 2)"},
	{"common-lisp:princ-to-string/1", "(princ-to-string 1l99999999)"},
	{"common-lisp:make-array/1", "(make-array 300000000)"},
	{"common-lisp:make-sequence/2", "(make-sequence 'list 300000000)"},
	{"common-lisp:make-sequence/2", "(make-sequence 'vector 4611686018427387904)"},
	{"common-lisp:make-string/3+", "(make-string 4611686018427387904 :initial-element #\\a)"},
	{"common-lisp:make-string/3+", "(make-string 300000000 :initial-element (code-char 1635))"},
	{"common-lisp:make-list/3+", "(make-list 300000000 :initial-element 1)"},
	{"common-lisp:make-array/3+", "(make-array 300000000 :element-type 'octet)"},
	// the total size of a multi-dimensional array is not limited (array-total-size-limit is most-positive-fixnum) and
	// the product of the dimensions can overflow: one root cause, two call sites (known findings)
	{"common-lisp:make-array/1", "(make-array '(70000 70000))"},
	{"common-lisp:aref/3+", "(aref (make-array '(268435456 268435456 268435456)) 1 1 1)"},
	{"common-lisp:typecase/2", "(typecase nil (t 2))"},
	{"common-lisp:floor/2", "(floor 3/4 0)"},
	{"common-lisp:setf/2", "(let ((h (make-hash-table))) (setf (gethash '(1 2) h) 3))"},
	{"flavors:make-instance/2", "(progn (defflavor c09-fl (a) () :initable-instance-variables) (make-instance 'c09-fl :a))"},
}

// the kinds that most often sit on the edge of a missing check; used for the quick 2-tuple grid
var _ = poolByKind
var sharp = []string{"nil", "zero", "neg", "bignum", "ratio", "double", "char", "empty-string", "string", "symbol", "keyword", "function",
	"list", "dotted", "empty-vector", "vector", "hash-table", "out-stream"}

// never called by the sweep: they leave the process, sleep, talk to the outside, or block on input
var deny = map[string]bool{
	"quit": true, "exit": true, "sleep": true, "run-program": true, "shell": true, "ed": true, "break": true, "invoke-debugger": true,
	"y-or-n-p": true, "yes-or-no-p": true, "inspect": true, "dribble": true, "room": true,
	"make-app": true, "watch": true, "require": true, "gc": true, "loop": true,
	"wait": true, "channel-pop": true, "channel-push": true, "range": true, "select": true, "run": true,
	"trace": true, "untrace": true, "step": true, "die": true, "panic": true, "signal-wait": true, "send-signal": true,
	"read": true, "read-char": true, "read-line": true, "read-byte": true, "peek-char": true, "read-all": true, "read-each": true, "read-push": true,
	"setenv": true, "unsetenv": true, "cd": true, "chdir": true,
}

// forms whose meaning includes running forever
var loops = map[string]bool{"common-lisp:do": true, "common-lisp:do*": true, "common-lisp:loop": true, "common-lisp:tagbody": true}

type fn struct{ pkg, name, kind string }

func (f fn) key() string { return f.pkg + ":" + f.name }

func functions() (out []fn) {
	for _, p := range slip.AllPackages() {
		pn := strings.ToLower(p.Name)
		switch pn {
		case "keyword", "common-lisp-user", "cl-user", "repl", "swank", "net", "watch":
			continue
		}
		p.EachFuncInfo(func(fi *slip.FuncInfo) {
			if fi.Pkg != p {
				return // inherited
			}
			out = append(out, fn{pkg: pn, name: fi.Name, kind: string(fi.Kind)})
		})
	}
	sort.Slice(out, func(i, j int) bool { return out[i].key() < out[j].key() })
	return
}

func denied(f fn) bool {
	if deny[f.name] {
		return true
	}
	for _, part := range strings.Split(f.name, "-") {
		switch part {
		case "sleep", "exit", "quit", "socket", "server", "listen", "connect", "http", "file", "files", "directory", "open", "load", "save",
			"snapshot", "app", "plugin", "watch", "edit", "terminal", "ansi", "signal":
			return true
		}
	}
	return false
}

func callSrc(f fn, args []arg) string {
	var sb strings.Builder
	sb.WriteString("(")
	if f.pkg != "common-lisp" && f.pkg != "cl" {
		sb.WriteString(f.pkg + "::")
	}
	sb.WriteString(f.name)
	for _, a := range args {
		sb.WriteString(" " + a.src)
	}
	sb.WriteString(")")
	return sb.String()
}

type candidate struct {
	Area  string `json:"area"` // function | format | reader
	Key   string `json:"key"`  // what a known finding is matched on
	Src   string `json:"src"`
	Class string `json:"class"`
	Msg   string `json:"msg"`
	Fault string `json:"fault"`
}

func poolByKind(k string) arg {
	for _, a := range pool {
		if a.kind == k {
			return a
		}
	}
	panic("no pool kind " + k)
}

func Run(ctx *common.Ctx) {
	self, _ := os.Executable()
	dir, err := os.MkdirTemp("", "c09-")
	if err != nil {
		panic(err)
	}
	defer os.RemoveAll(dir)
	const memKB = 6 * 1024 * 1024
	const workers = 14
	fns := functions()
	var groups [][]job
	var keys [][]string // per group, per job: the finding key prefix "pkg:name/arity"
	nid := 0
	mk := func(src string) job { nid++; return job{ID: nid, Kind: "eval", Src: src} }
	for _, f := range fns {
		if denied(f) {
			ctx.Hist("function-denied")
			continue
		}
		ctx.Hist("function-swept")
		var g []job
		var ks []string
		add := func(args ...arg) {
			g = append(g, mk(callSrc(f, args)))
			if len(args) >= 3 {
				ks = append(ks, f.key()+"/3+")
			} else {
				ks = append(ks, fmt.Sprintf("%s/%d", f.key(), len(args)))
			}
			ctx.Hist(fmt.Sprintf("tuple-size:%d", len(args)))
		}
		add()
		for _, a := range pool {
			add(a)
		}
		for _, a := range pool {
			for _, b := range pool {
				add(a, b)
			}
		}
		n3 := 30
		if ctx.Thorough() {
			n3 = 400
		}
		for i := 0; i < n3; i++ {
			k := 3 + ctx.Rng.Intn(3)
			var as []arg
			for len(as) < k {
				if ctx.Rng.Chance(60) {
					as = append(as, poolByKind(common.Pick(ctx.Rng, sharp)))
				} else {
					as = append(as, common.Pick(ctx.Rng, pool))
				}
			}
			add(as...)
		}
		// every 3-tuple over the core objects
		for _, a := range core {
			for _, b := range core {
				for _, c := range core {
					add(poolByKind(a), poolByKind(b), poolByKind(c))
				}
			}
		}
		groups = append(groups, g)
		keys = append(keys, ks)
	}
	for _, e := range extras {
		groups = append(groups, []job{mk(e[1])})
		keys = append(keys, []string{e[0]})
		ctx.Hist("extra-call-site")
	}
	// systematic blocks: every pool object as a hash key through every entry point; condition objects with every kind
	// of slot value raised every way; the stream readers with every lexeme opening around a block boundary
	{
		sg, sk, sn := systematicGroups(mk)
		for i := range sg {
			groups = append(groups, sg[i])
			keys = append(keys, sk[i])
			for range sg[i] {
				ctx.Hist("systematic:" + sn[i])
			}
		}
	}
	// deep evaluation, with and without tracing (the trace hooks replace the catch-all hooks; added after seeded
	// change C09-6 was missed): nested calls and recursion at depths around the hooks' indentation limits
	for _, tr := range []bool{false, true} {
		for _, depth := range []int{10, 39, 41, 45, 79, 81, 200} {
			nested := strings.Repeat("(+ 1 ", depth) + "0" + strings.Repeat(")", depth)
			rec := fmt.Sprintf("(defun c09-deep (n) (if (= n 0) 0 (+ 1 (c09-deep (- n 1))))) (c09-deep %d)", depth)
			for _, body := range []string{nested, rec} {
				src := body
				if tr {
					src = "(let ((*trace-output* (make-string-output-stream))) (trace t) (unwind-protect (progn " + body + ") (untrace)))"
				}
				groups = append(groups, []job{mk(src)})
				keys = append(keys, []string{fmt.Sprintf("deep:%v/%d", tr, depth)})
				ctx.Hist("deep-evaluation")
			}
		}
	}
	// format control strings
	nfmt := 6000
	if ctx.Thorough() {
		nfmt = 120000
	}
	fg := &fmtGen{r: ctx.Rng}
	for len(groups) > 0 && nfmt > 0 {
		var g []job
		var ks []string
		for i := 0; i < 400 && nfmt > 0; i++ {
			ctl, args := fg.control()
			g = append(g, mk(fmt.Sprintf("(format nil %s%s)", lispString(ctl), args)))
			ks = append(ks, "format")
			nfmt--
			ctx.Hist("format-control")
		}
		groups = append(groups, g)
		keys = append(keys, ks)
	}
	// moves in the argument list inside iterations and inside conditionals nested in iterations (round 5): enumerated,
	// the same in every run
	{
		ims := iterMoveControls()
		for i := 0; i < len(ims); i += 300 {
			var g []job
			var ks []string
			for _, im := range ims[i:min(i+300, len(ims))] {
				g = append(g, mk(fmt.Sprintf("(format nil %s%s)", lispString(im[0]), im[1])))
				ks = append(ks, "format")
				ctx.Hist("format-iteration-move")
			}
			groups = append(groups, g)
			keys = append(keys, ks)
		}
	}
	// the reader
	nrand := 60000
	if ctx.Thorough() {
		nrand = 3000000
	}
	rg := []job{{Kind: "read-sweep", Src: "short", Deadline: 300}, {Kind: "read-sweep", Src: "triples", Deadline: 300}, {Kind: "read-sweep", Src: "quads", Deadline: 600},
		{Kind: "read-sweep", Src: "templates", Deadline: 300}, {Kind: "read-sweep", Src: "sharp-digits", Deadline: 300},
		{Kind: "read-sweep", Src: "stream-cuts", Seed: 0, Deadline: 600}, {Kind: "read-sweep", Src: "stream-cuts", Seed: 1, Deadline: 600},
		{Kind: "read-sweep", Src: "stream-pairs", Deadline: 300}}
	for i := 0; i < 12; i++ {
		rg = append(rg, job{Kind: "read-sweep", Src: "random", Seed: ctx.Seed*1000 + uint64(i), Count: nrand / 12, Deadline: 600})
	}
	for i := range rg {
		nid++
		rg[i].ID = nid
		groups = append(groups, []job{rg[i]})
		keys = append(keys, []string{"reader"})
	}
	t0 := time.Now()
	res := runGroups(self, dir, groups, workers, 4*time.Second, memKB)
	var cands []candidate
	total := 0
	for gi, rs := range res {
		for ji, r := range rs {
			j := groups[gi][ji]
			if j.Kind == "read-sweep" {
				total += r.N * 2
				ctx.Hist("reader-inputs:" + j.Src)
				for _, b := range r.Bad {
					cands = append(cands, candidate{Area: "reader", Key: "reader", Src: b, Fault: "reader fault"})
				}
				if r.Fault != "" {
					cands = append(cands, candidate{Area: "reader", Key: "reader", Src: fmt.Sprintf("read-sweep %s seed %d", j.Src, j.Seed), Class: r.Class, Msg: r.Msg, Fault: r.Fault})
				}
				continue
			}
			total++
			if r.Fault == "hang" && loops[strings.SplitN(keys[gi][ji], "/", 2)[0]] {
				r.Fault = "" // a loop without an exit is supposed to run forever
				ctx.Hist("loop-form-ran-forever")
			}
			ctx.Hist("outcome:" + outcomeKind(r))
			if r.Fault != "" {
				area := "function"
				if keys[gi][ji] == "format" {
					area = "format"
				}
				cands = append(cands, candidate{Area: area, Key: keys[gi][ji], Src: j.Src, Class: r.Class, Msg: r.Msg, Fault: r.Fault})
			}
		}
	}
	fmt.Fprintf(os.Stderr, "c09: %d functions, %d evaluations, %d fault candidates in %s\n", len(fns), total, len(cands), time.Since(t0))
	// confirm every candidate alone in a fresh process (an earlier job of the same group may have
	// changed global state); what does not reproduce alone is counted, not reported
	var cgroups [][]job
	for _, c := range cands {
		if c.Area == "reader" {
			continue
		}
		cgroups = append(cgroups, []job{mk(c.Src)})
	}
	cres := runGroups(self, dir, cgroups, workers, 4*time.Second, memKB)
	var confirmed []candidate
	ci := 0
	for _, c := range cands {
		if c.Area == "reader" {
			confirmed = append(confirmed, c)
			continue
		}
		r := cres[ci][0]
		ci++
		if r.Fault == "" {
			ctx.Hist("candidate-not-reproduced-alone")
			continue
		}
		c.Class, c.Msg, c.Fault = r.Class, r.Msg, r.Fault
		if c.Area == "format" {
			// narrow the control string to the single directive that faults, when there is one
			if ctl, args, ok := controlOf(c.Src); ok {
				for _, ch := range chunks(ctl) {
					src := fmt.Sprintf("(format nil %s%s)", lispString(ch), args)
					if rr := runGroup(self, dir, []job{mk(src)}, 4*time.Second, memKB)[0]; rr.Fault == c.Fault {
						c.Src, c.Class, c.Msg = src, rr.Class, rr.Msg
						break
					}
				}
			}
		}
		confirmed = append(confirmed, c)
	}
	if p := os.Getenv("C09_EMIT_KNOWN"); p != "" {
		type kf struct {
			ID      string         `json:"id"`
			Status  string         `json:"status"`
			What    string         `json:"what"`
			Witness map[string]any `json:"witness"`
		}
		var out []kf
		done := map[string]bool{}
		for _, c := range confirmed {
			id := findingID(c)
			if done[id] || c.Area == "reader" {
				continue
			}
			done[id] = true
			out = append(out, kf{ID: id, Status: "known", What: fmt.Sprintf("%s is a host fault (%s) instead of a Lisp condition", c.Src, c.Fault),
				Witness: map[string]any{"program": c.Src, "observed": fmt.Sprintf("[%s] %s", c.Class, c.Msg), "expected": "a value or a Lisp condition of a documented class"}})
		}
		sort.Slice(out, func(i, j int) bool { return out[i].ID < out[j].ID })
		b, _ := json.MarshalIndent(map[string]any{"findings": out}, "", " ")
		_ = os.WriteFile(p, b, 0o644)
	}
	// match against the known findings: key = area-specific key + fault signature
	known := map[string]bool{}
	for id := range ctx.Known {
		known[id] = false
	}
	seen := map[string]bool{}
	// a fault met with three or more arguments counts as known when the same function is listed with
	// the same fault signature at any argument count (the 3+-tuples are a seeded sample)
	knownFnSig := map[string]string{}
	for id := range ctx.Known {
		if i := strings.LastIndex(id, "/"); i > 0 && strings.HasPrefix(id, "C09-fn:") {
			if j := strings.Index(id[i:], ":"); j > 0 {
				knownFnSig[id[:i]+id[i+j:]] = id
			}
		}
	}
	fixed := fixedIDs()
	for _, c := range confirmed {
		id := findingID(c)
		if _, ok := known[id]; ok {
			known[id] = true
			ctx.Hist("known-fault-reproduced")
			if fixed[id] && !seen[id] {
				// the call site was repaired: this is a new fault there (or the old one back), reported with the input met
				// in this run, not only as the stored witness of the repaired one
				seen[id] = true
				ctx.Violate("an internal fault of the host is reachable again at a call site that was repaired",
					c.Src, fmt.Sprintf("[%s] %s", c.Class, c.Msg), "a value or a Lisp condition; finding id "+id+" (fixed)")
			}
			continue
		}
		if strings.Contains(id, "/3+:") {
			if kid, ok := knownFnSig[strings.Replace(id, "/3+", "", 1)]; ok {
				known[kid] = true
				ctx.Hist("known-fault-reproduced")
				if fixed[kid] && !seen[kid] {
					seen[kid] = true
					ctx.Violate("an internal fault of the host is reachable again at a call site that was repaired",
						c.Src, fmt.Sprintf("[%s] %s", c.Class, c.Msg), "a value or a Lisp condition; finding id "+kid+" (fixed)")
				}
				continue
			}
		}
		if seen[id] {
			continue
		}
		seen[id] = true
		ctx.Violate("an internal fault of the host (not a Lisp condition of a documented class) is reachable from Lisp-level input",
			c.Src, fmt.Sprintf("[%s] %s", c.Class, c.Msg), "a value or a Lisp condition; finding id "+id)
	}
	for _, id := range common.SortedKeys(ctx.Known) {
		var w struct {
			Program string `json:"program"`
		}
		_ = json.Unmarshal(ctx.Known[id], &w)
		if known[id] {
			ctx.KnownResult(id, true, "host fault reproduced")
		} else if w.Program != "" {
			// not met by this run's sample: replay the recorded witness
			r := runGroup(self, dir, []job{mk(w.Program)}, 4*time.Second, memKB)[0]
			ctx.KnownResult(id, r.Fault != "", fmt.Sprintf("[%s] %s", r.Class, r.Msg))
		}
	}
	if p := os.Getenv("C09_DUMP"); p != "" {
		b, _ := json.MarshalIndent(confirmed, "", " ")
		_ = os.WriteFile(p, b, 0o644)
	}
	// (D) the modelled part of format, compared with the Coq model in every case
	writeTables(ctx)
	writeReaderTables(ctx)
	nD := 1500
	if ctx.Thorough() {
		nD = 20000
	}
	var terms []string
	var descs []any
	sc := slip.NewScope()
	for len(terms) < nD {
		ctl, args, gargs := fg.simple()
		src := fmt.Sprintf("(format nil %s%s)", lispString(ctl), args)
		o := common.EvalTimeout(sc, src, 3*time.Second)
		var obs string
		switch {
		case o.Err == "":
			str, ok := o.Value.(slip.String)
			if !ok {
				ctx.Violate("format nil did not return a string", src, o.Printed, nil)
				continue
			}
			obs = "(BText " + common.GBytes([]byte(string(str))) + ")"
		case o.Err == "timeout" || FaultSignature(o.Err, o.Msg) != "":
			obs = "BFault"
		default:
			obs = "BError"
		}
		terms = append(terms, fmt.Sprintf("{| k_ctl := %s; k_args := %s; k_obs := %s |}", common.GBytes([]byte(ctl)), common.GList(gargs), obs))
		descs = append(descs, map[string]any{"program": src, "outcome": common.ShowOutcome(o)})
		ctx.Hist("format-model-case")
		total++
	}
	header := "From Coq Require Import ZArith.\nFrom C09 Require Import Format Corr.\nFrom GenC09 Require Import Tables.\n"
	footer := "Definition res := Eval vm_compute in check_all tb cases.\nPrint res.\nDefinition modelled := Eval vm_compute in modelled_count tb cases.\nPrint modelled.\n"
	ctx.WriteShards("cases", header, "case", footer, terms, descs, 16)
	// (E) round 5: iterations around bodies of move directives and the count after #, compared with coq/C09/Progress.v
	total += progressCases(ctx, self, dir, workers, memKB, mk)
	ctx.Meta.Evaluations = total
	ctx.Meta.DistinctNontrivial = total
	ctx.Meta.Rule = fmt.Sprintf("every function of the packages cl, gi, bag, clos, flavors, generic, ... (%d swept, deny-list for those that exit, sleep, block on input or touch files/network) applied to the empty tuple, every 1-tuple of a %d-object pool, all %d 2-tuples, all 3-tuples over a 9-object core and seeded 3..5-tuples, nested calls and recursion 10..200 deep with tracing off and on, each function in a process of its own with a 4 s deadline and a memory limit; format control strings over the directive alphabet with prefix parameters (numbers, 'c, v, #), modifiers and 0..4 arguments, and every move ~n* ~n:* ~n@* (n over nothing, 0..3, large counts, v, #) in the body of every kind of iteration and in a conditional nested in it, over argument lists that make a pass end where it began; the reader on every byte string of length 1 and 2, every length-3 string over its syntax bytes, every length-4 string over 24 core syntax bytes, # followed by every kind of digit run of length 1..25 (around 2^31, 2^32, 2^63, 2^64 and the values that wrap to a valid count) before every dispatch character that takes a count, whole and in two blocks, templates (#n dispatch macros x nested contents, numbers with every exponent marker x exponents up to 10^8, nesting 10^4 deep) and random strings. Outcome classes: value / Lisp condition / host fault (runtime error, interface conversion, unhashable key, non-Lisp panic) / hang / process death; every fault is re-run alone in a fresh process before it counts", len(fns), len(pool), len(pool)*len(pool))
}

func outcomeKind(r result) string {
	switch {
	case r.Fault != "":
		return "fault:" + r.Fault
	case r.Class == "":
		return "value"
	default:
		return "condition"
	}
}

// findingID identifies a fault by where it is raised: the function and argument count (or the
// shape of the format directive) and the fault signature.
func findingID(c candidate) string {
	switch c.Area {
	case "format":
		return "C09-format:" + directiveLetters(c.Src) + ":" + strings.ReplaceAll(c.Fault, " ", "-")
	case "reader":
		return "C09-reader"
	}
	return "C09-fn:" + c.Key + ":" + strings.ReplaceAll(c.Fault, " ", "-")
}

// fixedIDs: the ids of the findings recorded as fixed (the --known file; the framework hands the harness the
// witnesses only).
func fixedIDs() map[string]bool {
	out := map[string]bool{}
	for i, a := range os.Args {
		if a == "--known" && i+1 < len(os.Args) {
			if data, err := os.ReadFile(os.Args[i+1]); err == nil {
				var kf struct {
					Findings []struct {
						ID     string `json:"id"`
						Status string `json:"status"`
					} `json:"findings"`
				}
				if json.Unmarshal(data, &kf) == nil {
					for _, f := range kf.Findings {
						if f.Status == "fixed" {
							out[f.ID] = true
						}
					}
				}
			}
		}
	}
	return out
}
