package c09

import (
	"fmt"
	"strings"
)

// Systematic finite blocks (added after the seeded changes of round 3): mechanisms that the
// function x pool sweep does not reach because they need a particular SHAPE of call, enumerated
// completely over small alphabets instead of hoping for the random stream.

type keyed struct{ key, src string }

// hashKeyForms: EVERY pool object as a key through EVERY entry point of the Go map behind a
// hash-table (HashTable.Key guards them all): gethash, gethash with a default, (setf gethash),
// remhash, coerce of an association list - each on an empty and on a populated table (the Go runtime
// takes different paths for an empty map) - and as the test object of maphash-built tables.
func hashKeyForms() (out []keyed) {
	empty := "(make-hash-table)"
	populated := "(let ((h (make-hash-table))) (setf (gethash 'a h) 1) (setf (gethash 2 h) 2) h)"
	for _, a := range pool {
		for ti, tbl := range []string{empty, populated} {
			suffix := []string{"", "+populated"}[ti]
			k := a.src
			out = append(out,
				keyed{"hash-key:gethash" + suffix, fmt.Sprintf("(gethash %s %s)", k, tbl)},
				keyed{"hash-key:gethash-default" + suffix, fmt.Sprintf("(gethash %s %s 0)", k, tbl)},
				keyed{"hash-key:setf-gethash" + suffix, fmt.Sprintf("(let ((h %s)) (setf (gethash %s h) 1) (hash-table-count h))", tbl, k)},
				keyed{"hash-key:remhash" + suffix, fmt.Sprintf("(remhash %s %s)", k, tbl)},
				keyed{"hash-key:same-object" + suffix, fmt.Sprintf("(let ((h %s) (k %s)) (setf (gethash k h) 1) (list (gethash k h) (remhash k h)))", tbl, k)},
			)
		}
		out = append(out,
			keyed{"hash-key:coerce-alist", fmt.Sprintf("(coerce (list (cons %s 1)) 'hash-table)", a.src)},
			keyed{"hash-key:coerce-alist-second", fmt.Sprintf("(coerce (list (cons 'a 1) (cons %s 2)) 'hash-table)", a.src)},
		)
	}
	// a table as its own key
	out = append(out,
		keyed{"hash-key:gethash", "(let ((h (make-hash-table))) (gethash h h))"},
		keyed{"hash-key:remhash", "(let ((h (make-hash-table))) (remhash h h))"},
		keyed{"hash-key:setf-gethash", "(let ((h (make-hash-table))) (setf (gethash h h) h))"})
	return
}

// conditionForms: condition OBJECTS whose slots hold every kind of value, raised through every way
// an existing object can be raised (gi:panic is on the deny-list of the sweep because applied to
// anything else it panics by design), at several nesting depths, so that every frame's after-hook
// (trace.go normalAfter -> Panic.AppendToStack / WrapError) meets the object; plus slot changes
// after a catch and user conditions that bring their own slot of the same name.
func conditionForms() (out []keyed) {
	classes := []string{"error", "warning", "simple-error", "type-error", "arithmetic-error", "condition"}
	slots := []string{":stack", ":message"}
	values := []string{"nil", "5", "\"s\"", "'sym", "'(1 2)", "'((f 1) (g 2))", "#(1 2)", "1.5", "(make-hash-table)", "#\\a", "'(1 . 2)", "t"}
	raise := []struct{ name, tmpl string }{
		{"panic", "(panic %s)"},
		{"panic-nested", "(list (car (list (+ 1 (panic %s)))))"},
		{"panic-in-let", "(let ((c %s)) (progn (panic c)))"},
		{"panic-in-function", "(funcall (lambda (c) (list (funcall (lambda (d) (panic d)) c))) %s)"},
		{"panic-ignore-errors", "(ignore-errors (panic %s))"},
		{"panic-handler-case", "(handler-case (list (panic %s)) (condition (c) (list 'caught (type-of c))))"},
		{"panic-caught-again", "(let ((c (handler-case (list (panic %s)) (condition (c) c)))) (list (panic c)))"},
		{"panic-unwind-protect", "(unwind-protect (list (panic %s)) (+ 1 2))"},
		{"panic-traced", "(let ((*trace-output* (make-string-output-stream))) (trace t) (unwind-protect (list (panic %s)) (untrace)))"},
		{"describe", "(let ((*standard-output* (make-string-output-stream))) (describe %s))"},
		{"princ", "(princ-to-string %s)"},
	}
	for _, cl := range classes {
		for _, sl := range slots {
			for _, v := range values {
				obj := fmt.Sprintf("(make-condition '%s %s %s)", cl, sl, v)
				for _, r := range raise {
					out = append(out, keyed{"condition:" + r.name + "/" + strings.TrimPrefix(sl, ":"), fmt.Sprintf(r.tmpl, obj)})
				}
			}
		}
	}
	// the slot changed after the condition was caught, then raised again
	for vi, v := range values {
		out = append(out,
			keyed{"condition:setf-slot-then-panic/stack", fmt.Sprintf("(let ((c (handler-case (error \"boo\") (error (c) c)))) (setf (slot-value c 'stack) %s) (list (panic c)))", v)},
			keyed{"condition:setf-slot-then-panic/message", fmt.Sprintf("(let ((c (handler-case (error \"boo\") (error (c) c)))) (setf (slot-value c 'message) %s) (list (panic c)))", v)},
			keyed{"condition:user-slot-initform/stack", fmt.Sprintf("(progn (define-condition c09-cond-a%d (error) ((stack :initarg :depth :initform %s))) (list (panic (make-condition 'c09-cond-a%d))))", vi, v, vi)},
			keyed{"condition:user-slot-initform/stack", fmt.Sprintf("(progn (define-condition c09-cond-b%d (error) ((stack :initarg :depth :initform %s))) (list (error 'c09-cond-b%d)))", vi, v, vi)},
			keyed{"condition:user-slot-initform/message", fmt.Sprintf("(progn (define-condition c09-cond-c%d (error) ((message :initarg :text :initform %s))) (list (panic (make-condition 'c09-cond-c%d))))", vi, v, vi)},
		)
	}
	return
}

// streamReadForms: the Lisp-level stream readers (cl:read on a string stream, gi:read-each,
// gi:read-push with a channel) on texts in which every kind of lexeme OPENS at, one byte before and
// one byte after the end of a 65536-byte read block (first and second boundary), and on streams that
// END right after the opening characters. The byte-level cuts at every position are swept in the
// worker (read-sweep "stream-cuts"); this block is the real block size through the real entry points.
func streamReadForms() (out []keyed) {
	lexemes := []string{`"abc" `, `|abc| `, `#xff `, `#b101 `, `#o17 `, `#36rz `, `#\a `, `#\Space `, `#*101 `, `abc `, `12 `, `(1 2) `, `#(1 2) `, `'a `, `a\ b `, `"a\"b" `, `#|c|# 1 `, `; c` + "\n1 ", `#C(1 2) `, `1.5d0 `, `@2024-01-02 `}
	for _, bs := range []int{65536, 131072} {
		for _, lx := range lexemes {
			// the lexeme opens so that 0..len(opening)+1 of its bytes are in the first block
			for in := 0; in <= 4 && in <= len(lx); in++ {
				pad := bs - in
				text := fmt.Sprintf("(concatenate 'string (make-string %d :initial-element #\\Space) %s)", pad, lispString(lx+"7"))
				out = append(out,
					keyed{"stream-read:read", fmt.Sprintf("(let ((s (make-string-input-stream %s))) (list (read s) (read s nil :eof)))", text)},
					keyed{"stream-read:read-each", fmt.Sprintf("(let (r) (read-each (make-string-input-stream %s) (lambda (x) (push x r))) r)", text)},
					keyed{"stream-read:read-push", fmt.Sprintf("(let ((ch (make-channel 10))) (read-push (make-string-input-stream %s) ch) (channel-close ch) (list (channel-pop ch) (channel-pop ch)))", text)},
				)
			}
		}
	}
	// the stream ends right after the opening characters (the end of a stream is a block of its own)
	for _, op := range []string{`"`, `|`, `#\`, `#x`, `#b`, `#o`, `#36r`, `#3r`, `#*`, `#`, `#(`, `(`, `'`, `\`, `a\`, `#|`, `#C`, `#2A`, `,`, "`", `@`, `:`, `#:`, ``} {
		for _, pre := range []string{"", "1 "} {
			t := lispString(pre + op)
			out = append(out,
				keyed{"stream-read:read-at-end", fmt.Sprintf("(let ((s (make-string-input-stream %s))) (list (read s nil :eof) (read s nil :eof)))", t)},
				keyed{"stream-read:read-each-at-end", fmt.Sprintf("(let (r) (read-each (make-string-input-stream %s) (lambda (x) (push x r))) r)", t)},
			)
		}
	}
	return
}

// systematicGroups cuts a block into groups of jobs; every group runs in a process of its own.
func systematicGroups(mk func(string) job) (groups [][]job, keys [][]string, names []string) {
	add := func(name string, forms []keyed, per int) {
		for i := 0; i < len(forms); i += per {
			var g []job
			var ks []string
			for _, f := range forms[i:min(i+per, len(forms))] {
				g = append(g, mk(f.src))
				ks = append(ks, f.key)
			}
			groups = append(groups, g)
			keys = append(keys, ks)
			names = append(names, name)
		}
	}
	add("hash-key", hashKeyForms(), 120)
	add("condition", conditionForms(), 150)
	add("stream-read", streamReadForms(), 40)
	return
}
