// Package c09: no Lisp-level input may fault the host.
// The worker evaluates one job per line of standard input in a process of its own (deadline and
// memory limit are enforced by the parent) and prints one result line per job.
package c09

import (
	"bufio"
	"io"
	"encoding/json"
	"fmt"
	"os"
	"regexp"
	"runtime/debug"
	"strings"

	"github.com/ohler55/slip"
	_ "github.com/ohler55/slip/pkg"
	"verifharness/common"
)

type job struct {
	ID   int    `json:"id"`
	Kind string `json:"kind"` // eval | read | format
	Src  string `json:"src"`  // program text (eval/format) or raw bytes (read)
	// read-sweep: Seed/Count select the byte strings, generated inside the worker
	Seed     uint64 `json:"seed,omitempty"`
	Count    int    `json:"count,omitempty"`
	Deadline int    `json:"deadline,omitempty"` // seconds, 0 = default
	// stream reads (inside the worker only): the text is handed to the stream readers in blocks cut at Cuts;
	// EOFWithLast: the last block comes together with io.EOF instead of a separate empty read
	Cuts        []int `json:"-"`
	EOFWithLast bool  `json:"-"`
}

// chunkReader hands out a text in the given blocks (an io.Reader may return fewer bytes than asked for).
type chunkReader struct {
	chunks      [][]byte
	eofWithLast bool
}

func (c *chunkReader) Read(p []byte) (int, error) {
	if len(c.chunks) == 0 {
		return 0, io.EOF
	}
	n := copy(p, c.chunks[0])
	c.chunks = c.chunks[1:]
	if len(c.chunks) == 0 && c.eofWithLast {
		return n, io.EOF
	}
	return n, nil
}

func cutBlocks(text []byte, cuts []int) (out [][]byte) {
	prev := 0
	for _, c := range cuts {
		if c < prev || c > len(text) {
			continue
		}
		out = append(out, text[prev:c])
		prev = c
	}
	return append(out, text[prev:])
}

type nopCaller struct{}

func (nopCaller) Call(s *slip.Scope, args slip.List, depth int) slip.Object { return nil }

type result struct {
	ID    int      `json:"id"`
	Bad   []string `json:"bad,omitempty"` // read-sweep: faulting inputs (Go-quoted), with their message
	N     int      `json:"n,omitempty"`   // read-sweep: inputs read
	Class string `json:"class"` // "" = value, else condition class, "go:<type>" for a non-Lisp panic
	Msg   string `json:"msg"`
	Fault string `json:"fault"` // "" or the fault signature
}

// internal faults dressed up as conditions
var faultRx = regexp.MustCompile(`runtime error: [a-z ]*|interface conversion|hash of unhashable type|invalid memory address|index out of range|slice bounds out of range|nil map|makeslice|unexpected signal|reflect: [A-Za-z ]*|assignment to entry in nil map|integer divide by zero`)

// FaultSignature returns "" when (class,msg) is an ordinary Lisp condition, else a short stable
// signature of the host fault.
func FaultSignature(class, msg string) string {
	if m := faultRx.FindString(msg); m != "" {
		sig := strings.TrimSpace(m)
		switch {
		case strings.Contains(msg, "index out of range"):
			sig = "index out of range"
		case strings.Contains(msg, "slice bounds out of range"):
			sig = "slice bounds out of range"
		case strings.Contains(msg, "invalid memory address"):
			sig = "nil dereference"
		case strings.Contains(msg, "interface conversion"):
			sig = "interface conversion"
		case strings.Contains(msg, "integer divide by zero"):
			sig = "integer divide by zero"
		case strings.Contains(msg, "hash of unhashable"):
			sig = "unhashable key"
		}
		return sig
	}
	if strings.HasPrefix(class, "go:") {
		return "non-Lisp panic " + class
	}
	return ""
}

func evalJob(j job) (r result) {
	r.ID = j.ID
	defer func() {
		if rec := recover(); rec != nil {
			switch tr := rec.(type) {
			case *slip.Panic:
				r.Msg = tr.Message
				if tr.Condition != nil {
					r.Class = string(tr.Condition.Hierarchy()[0])
					if r.Msg == "" {
						r.Msg = condMessage(tr.Condition)
					}
				} else {
					r.Class = "error"
				}
			case *slip.PartialPanic:
				r.Class, r.Msg = "partial", tr.Message
			case slip.Instance:
				r.Class = string(tr.Hierarchy()[0])
				r.Msg = condMessage(tr)
			case error:
				r.Class, r.Msg = fmt.Sprintf("go:%T", rec), tr.Error()
			default:
				r.Class, r.Msg = fmt.Sprintf("go:%T", rec), fmt.Sprint(rec)
			}
			r.Fault = FaultSignature(r.Class, r.Msg)
			if len(r.Msg) > 300 {
				r.Msg = r.Msg[:300]
			}
		}
	}()
	slip.CurrentPackage = &slip.UserPkg // an earlier job may have left another package current
	s := slip.NewScope()
	switch j.Kind {
	case "read":
		_ = slip.Read([]byte(j.Src), s)
	case "read-one":
		_, _ = slip.ReadOne([]byte(j.Src), s)
	case "stream":
		_, _ = slip.ReadStream(&chunkReader{chunks: cutBlocks([]byte(j.Src), j.Cuts), eofWithLast: j.EOFWithLast}, s)
	case "stream-one":
		_, _ = slip.ReadStream(&chunkReader{chunks: cutBlocks([]byte(j.Src), j.Cuts), eofWithLast: j.EOFWithLast}, s, true)
	case "stream-each":
		slip.ReadStreamEach(&chunkReader{chunks: cutBlocks([]byte(j.Src), j.Cuts), eofWithLast: j.EOFWithLast}, s, nopCaller{})
	case "stream-push":
		ch := make(chan slip.Object, 4096)
		slip.ReadStreamPush(&chunkReader{chunks: cutBlocks([]byte(j.Src), j.Cuts), eofWithLast: j.EOFWithLast}, s, ch)
	case "eval-value": // the value of the last form comes back in Msg (a string as it is, anything else printed)
		var v slip.Object
		for _, o := range slip.ReadString(j.Src, s) {
			if o != nil {
				v = s.Eval(o, 0)
			}
		}
		if str, ok := v.(slip.String); ok {
			r.Msg = string(str)
		} else {
			r.Msg = slip.ObjectString(v)
		}
	default:
		code := slip.ReadString(j.Src, s)
		for _, o := range code {
			if o != nil {
				_ = s.Eval(o, 0)
			}
		}
	}
	return
}

// the bytes the reader's tables distinguish, over-represented in random inputs
var syntaxBytes = []byte("()'`,@#\\|\";:.+-/0123456789abcdefxXrRbBoOtTnil*&sS^~ \n\t\x00\x7f\x80\xff\xc3\xa9uU")

func readSweep(j job) (r result) {
	r.ID = j.ID
	rng := common.NewRng(j.Seed)
	try := func(in []byte) {
		r.N++
		for _, one := range []bool{false, true} {
			res := evalJob(job{Kind: map[bool]string{false: "read", true: "read-one"}[one], Src: string(in)})
			switch res.Class {
			case "", "parse-error", "partial", "reader-error", "end-of-file":
			case "error", "type-error":
				// malformed contents of #nA(...) are reported by the array code as error / type-error
				// conditions (Lisp conditions of a documented class, not parse errors); only the templates
				// reach them, the byte sweeps keep the strict list
				if j.Src != "templates" && j.Src != "sharp-digits" && res.Fault == "" {
					res.Fault = "condition of class " + res.Class + " from the reader"
				}
			default:
				if res.Fault == "" {
					res.Fault = "condition of class " + res.Class + " from the reader"
				}
			}
			if res.Fault != "" && len(r.Bad) < 20 {
				r.Bad = append(r.Bad, fmt.Sprintf("%q => %s: %s", in, res.Fault, res.Msg))
			}
		}
	}
	// the same text through the stream readers, cut into blocks at the given positions
	tryStream := func(in []byte, cuts []int, kinds []string, eofWithLast bool) {
		r.N++
		for _, k := range kinds {
			res := evalJob(job{Kind: k, Src: string(in), Cuts: cuts, EOFWithLast: eofWithLast})
			switch res.Class {
			case "", "parse-error", "partial", "reader-error", "end-of-file":
			case "error", "type-error":
				// malformed contents of #nA(...), as for the templates below: Lisp conditions of a documented class
			default:
				if res.Fault == "" {
					res.Fault = "condition of class " + res.Class + " from the reader"
				}
			}
			if res.Fault != "" && len(r.Bad) < 20 {
				r.Bad = append(r.Bad, fmt.Sprintf("%q in blocks cut at %v (%s, EOF with the last block: %v) => %s: %s", in, cuts, k, eofWithLast, res.Fault, res.Msg))
			}
		}
	}
	switch j.Src {
	case "stream-cuts":
		// EVERY template (and every byte string of length 1 and 2 over the syntax bytes) cut in two at EVERY position,
		// read with ReadStream (all objects); the end of the stream alternately as a separate empty read and
		// together with the last block; every fourth also in one-form mode and through ReadStreamEach
		n := 0
		var inputs [][]byte
		for _, t := range readerTemplates() {
			if len(t) <= 64 {
				inputs = append(inputs, []byte(t))
			}
		}
		for _, a := range syntaxBytes {
			inputs = append(inputs, []byte{a})
			for _, b := range syntaxBytes {
				inputs = append(inputs, []byte{a, b})
			}
		}
		for idx, in := range inputs {
			if uint64(idx%2) != j.Seed%2 { // two jobs share the inputs
				continue
			}
			for cut := 0; cut <= len(in); cut++ {
				n++
				kinds := []string{"stream"}
				if n%4 == 0 {
					kinds = []string{"stream", "stream-one", "stream-each"}
				}
				tryStream(in, []int{cut}, kinds, n%2 == 0)
			}
		}
	case "stream-pairs":
		// ALL pairs (what a block ends with, what the next block starts with) over the pieces lexemes are made of,
		// cut exactly between them, with an empty block in between, with a third block, and with the stream ending
		// after the first piece; through all four stream readers and both ways of ending a stream
		heads := []string{`"`, `"a`, `"a\`, `|`, `|a`, `#\`, `#\a`, `#\Sp`, `#x`, `#xf`, `#b`, `#b1`, `#o`, `#o7`, `#36r`, `#3`, `#3r`, `#*`, `#*1`, `#`, `#(`, `#2A`, `#2A(`, `#C`, `#C(`, `#|`, `#|a|`,
			`a`, `1`, `1.`, `1e`, `-`, `(`, `(a`, `'`, "`", `,`, `,@`, `;`, `; c`, `\`, `a\`, `@`, `@2024-01-`, `:`, `a:`, `a::`, `#:`, `#'`, `#.`, ` `, ``, `)`, `.`, `(a .`}
		tails := []string{`"`, `abc"`, `\"x"`, `|`, `a|`, `a`, `a `, `Space `, `pace `, `ff `, `g `, `101 `, `2 `, `7 `, `z `, `r12 `, `)`, `1 2)`, `(1 2) (3 4))`, ` `, ``, "\n", "\n1 ", `|#`, `#`, `x41 `, `1 `, `.5 `, `5 `,
			`02 `, `b `, `:b `, `(1 2) `, `'a `, ` b)`, `\`, `\ `, `#\a`, `#xff`, `#*1`, `"a"`, `|a|`}
		kinds := []string{"stream", "stream-one", "stream-each", "stream-push"}
		for _, h := range heads {
			for _, eof := range []bool{false, true} {
				tryStream([]byte(h), nil, kinds, eof) // the stream ends after the first piece
				tryStream([]byte("1 "+h), []int{2}, kinds, eof)
			}
			for _, t := range tails {
				text := []byte(h + t)
				for _, eof := range []bool{false, true} {
					tryStream(text, []int{len(h)}, kinds, eof)
					tryStream(text, []int{len(h), len(h)}, kinds[:1], eof)             // an empty read in between
					tryStream([]byte(h+t+" 7"), []int{len(h), len(h) + len(t)}, kinds[:1], eof) // three blocks
				}
			}
		}
	case "short": // every byte string of length 1 and 2
		for a := 0; a < 256; a++ {
			try([]byte{byte(a)})
			for b := 0; b < 256; b++ {
				try([]byte{byte(a), byte(b)})
			}
		}
	case "triples": // every string of length 3 over the syntax bytes
		for _, a := range syntaxBytes {
			for _, b := range syntaxBytes {
				for _, c := range syntaxBytes {
					try([]byte{a, b, c})
				}
			}
		}
	case "quads": // every string of length 4 over the core syntax bytes
		core := []byte("()'\"#\\|;,@`.012arxb*:-+ ")
		for _, a := range core {
			for _, b := range core {
				for _, c := range core {
					for _, d := range core {
						try([]byte{a, b, c, d})
					}
				}
			}
		}
	case "sharp-digits":
		// # + a run of 1..25 digits + every dispatch character that takes a count (round 5): no fault, and where
		// the digits alone decide that the count is no rank / no radix the reader must say so whatever the run's
		// length (a count that wrapped around to a small number would be accepted silently)
		for _, run := range sharpDigitRuns() {
			for _, mc := range [][2]string{{"A", "(1)"}, {"a", "()"}, {"R", "1"}, {"r", "0"}} {
				want := sharpExpected(run, mc[0])
				if want == "" {
					continue
				}
				in := "#" + run + mc[0] + mc[1]
				r.N++
				for _, k := range []string{"read", "read-one"} {
					if res := evalJob(job{Kind: k, Src: in}); res.Class != want && len(r.Bad) < 20 {
						r.Bad = append(r.Bad, fmt.Sprintf("%q => the count is beyond every rank and radix, expected %s: got [%s] %s", in, want, res.Class, res.Msg))
					}
				}
			}
		}
		n := 0
		for _, in := range sharpDigitTexts() {
			try([]byte(in))
			// the same text in two blocks: cut inside the run, before and after the dispatch character
			if h := strings.IndexAny(in, "#"); h >= 0 && len(in) <= 40 {
				e := h + 1
				for e < len(in) && in[e] >= '0' && in[e] <= '9' {
					e++
				}
				for _, cut := range []int{h + 1, (h + 1 + e) / 2, e, e + 1} {
					if cut <= len(in) {
						n++
						kinds := []string{"stream"}
						if n%4 == 0 {
							kinds = []string{"stream", "stream-one", "stream-each"}
						}
						tryStream([]byte(in), []int{cut}, kinds, n%2 == 0)
					}
				}
			}
		}
	case "templates": // structured inputs longer than the exhaustive sweeps reach
		for _, in := range readerTemplates() {
			try([]byte(in))
		}
	default: // random strings, syntax bytes over-represented
		for i := 0; i < j.Count; i++ {
			n := 1 + rng.Intn(24)
			in := make([]byte, n)
			for k := range in {
				if rng.Chance(85) {
					in[k] = syntaxBytes[rng.Intn(len(syntaxBytes))]
				} else {
					in[k] = byte(rng.Intn(256))
				}
			}
			try(in)
		}
	}
	return
}

// readerTemplates: dispatch macros with a numeric argument applied to nested contents (#nA #n( #n* #nR #C #S),
// numbers with every exponent marker and exponents from 0 to 10^8, deep nesting, and tokens at the limits
// (added after a review: #2A() faulted and no generated input reached it).
func readerTemplates() (out []string) {
	contents := []string{"()", "(())", "((()))", "(1)", "((1))", "((1 2) (3 4))", "((1 2) (3))", "(() ())", "(1 . 2)", "((1 . 2))",
		"nil", "1", "x", "\"ab\"", "(\"ab\" \"cd\")", "#(1 2)", "(#(1 2))", "(", ")", "", " ", "(nil)", "((nil))", "(() . ())"}
	for _, n := range []string{"", "0", "1", "2", "3", "4", "7", "8", "9", "10", "99", "1024", "99999999999999999999"} {
		for _, c := range contents {
			for _, m := range []string{"A", "a", "(", "*", "R", "r", "C", "S", "=", "#", "P", "'", "."} {
				if m == "(" {
					out = append(out, "#"+n+c)
				} else {
					out = append(out, "#"+n+m+c)
				}
			}
		}
	}
	for _, mant := range []string{"1", "-1", "+1", "1.5", ".5", "1.", "0", "0.0", "123456789012345678901234567890", "1/2", "1/0", "0/0", "-0"} {
		for _, m := range []string{"e", "d", "s", "f", "l", "E", "D", "S", "F", "L"} {
			for _, e := range []string{"", "0", "1", "-1", "+1", "9", "38", "39", "99", "308", "309", "999", "-999", "4932", "99999", "99999999", "-99999999",
				"99999999999999999999", "1.5", "1e1"} {
				out = append(out, mant+m+e)
			}
		}
	}
	for _, depth := range []int{1, 10, 100, 1000, 10000} {
		out = append(out, strings.Repeat("(", depth)+strings.Repeat(")", depth), strings.Repeat("(", depth), strings.Repeat(")", depth),
			strings.Repeat("'", depth)+"a", strings.Repeat("#(", depth)+strings.Repeat(")", depth), strings.Repeat("`", depth)+"a",
			strings.Repeat("#2A(", depth)+strings.Repeat(")", depth), strings.Repeat(",", depth)+"a", strings.Repeat("#'", depth)+"a")
	}
	for _, t := range []string{"#\\", "#\\a", "#\\Space", "#\\nosuchname", "#\\u+110000", "#\\u+FFFFFFFFFF", "#\\U+41", "#b", "#b2", "#b102", "#o8", "#xg", "#x-ff", "#36rzz", "#37r1", "#0r1", "#1r1",
		"#*", "#*2", "#*0101", "#3*01", "#2*0101", "#|", "#|#|", "#||#", "#| |# 1", "|", "||", "|a", "a|b|c", "\\", "a\\", "\"", "\"\\", "\"\\\"", "@", "@2024-01-02", "@2024-13-45T99:99:99Z", "@x",
		"#.(+ 1 2)", "#.", "#+sbcl 1 2", "#-sbcl 1", "#+", "#-", "#:", "#:a", "#1=", "#1#", "#1=(a . #1#)", "a:b", "a::b", "a:::b", ":", "::", "a:", ":a:b", "keyword:a", "nosuchpackage:a", "cl:car", "cl::car", "cl:nosuchsymbol",
		",", ",@", ",.", "`(a ,b ,@c)", ",a", "`,a", "`,@a", ".", "..", "...", "(. a)", "(a .)", "(a . b c)", "(a . . b)", "( . )", "1+", "-", "+", "1-", "+.", "-.", "+.e1", "1e", "1e+", "e1", ".e1"} {
		out = append(out, t)
	}
	return
}

func condMessage(inst slip.Instance) (msg string) {
	defer func() { _ = recover() }()
	if v, has := inst.SlotValue(slip.Symbol("message")); has && v != nil {
		if ss, ok := v.(slip.String); ok {
			return string(ss)
		}
		return slip.ObjectString(v)
	}
	return ""
}

// Worker is the entry point of `harness C09W`.
func Worker(ctx *common.Ctx) {
	debug.SetMaxStack(64 << 20)
	if ctx.OutDir != "" {
		_ = os.Chdir(ctx.OutDir)
	}
	in := bufio.NewReaderSize(os.Stdin, 1<<20)
	out := bufio.NewWriter(os.NewFile(3, "results")) // stdout / stderr belong to the evaluated code
	for {
		line, err := in.ReadBytes('\n')
		if len(line) > 1 {
			var j job
			if json.Unmarshal(line, &j) == nil {
				var res result
				if j.Kind == "read-sweep" {
					res = readSweep(j)
				} else {
					res = evalJob(j)
				}
				b, _ := json.Marshal(res)
				out.Write(b)
				out.WriteByte('\n')
				out.Flush()
			}
		}
		if err != nil {
			break
		}
	}
	os.Exit(0)
}
