package c09

import (
	"fmt"
	"sort"
	"strings"

	"verifharness/common"
)

type fmtGen struct{ r *common.Rng }

var dirLetters = []string{"A", "S", "D", "B", "O", "X", "R", "C", "%", "&", "~", "T", "*", "?", "(", ")", "[", "]", ";", "{", "}", "P", "F", "E", "G", "$", "W", "^", "|", "<", ">", "\n", "a", "d", "r", "x", "I", "_"}
var fmtArgs = []string{"0", "1", "-5", "42", "1000", "123456789", "100000000000000000000", "3/4", "2.5", "nil", "t", "\"s\"", "\"\"", "#\\a", "'foo", "'(1 2 3)", "'()", "'((1 2) (3))", "'(a . b)", "\"~A\"",
	// floats with one significant digit, zero, large and small (added after a review: ~F of 0.001 and of 0.0 faulted)
	"0.001", "100.0", "0.0", "-0.0", "1d10", "1d-10", "123456.789", "-2.5"}

func (g *fmtGen) param() string {
	switch g.r.Intn(9) {
	case 0:
		return "v"
	case 1:
		return "#"
	case 2:
		return "'" + string(rune("*0 x~,"[g.r.Intn(6)]))
	case 3:
		return ""
	case 4:
		return fmt.Sprint(-g.r.Intn(5))
	case 5:
		return fmt.Sprint(g.r.Intn(3))
	case 6:
		return fmt.Sprint(2 + g.r.Intn(40))
	case 7:
		// does not fit an int64 / fits but is far too large for a buffer / just above array-dimension-limit
		return common.Pick(g.r, []string{"99999999999999999999", "100000000000", "300000000", "-400"})
	default:
		return fmt.Sprint(g.r.Intn(12))
	}
}

func (g *fmtGen) directive() string {
	var sb strings.Builder
	sb.WriteString("~")
	if g.r.Chance(55) {
		n := 1 + g.r.Intn(4)
		for i := 0; i < n; i++ {
			if i > 0 {
				sb.WriteString(",")
			}
			sb.WriteString(g.param())
		}
	}
	switch g.r.Intn(6) {
	case 0:
		sb.WriteString(":")
	case 1:
		sb.WriteString("@")
	case 2:
		sb.WriteString(":@")
	case 3:
		if g.r.Chance(10) {
			sb.WriteString("@:")
		}
	}
	sb.WriteString(common.Pick(g.r, dirLetters))
	return sb.String()
}

// control returns a control string and the argument text (" a b c").
func (g *fmtGen) control() (string, string) {
	var sb strings.Builder
	n := 1 + g.r.Intn(4)
	for i := 0; i < n; i++ {
		if g.r.Chance(30) {
			sb.WriteString(common.Pick(g.r, []string{"x", " ", "ab", ",", "~", "#", ":"}))
		}
		d := g.directive()
		sb.WriteString(d)
		// close what was opened, most of the time
		switch d[len(d)-1] {
		case '(':
			if g.r.Chance(80) {
				sb.WriteString("ab~A~)")
			}
		case '[':
			if g.r.Chance(80) {
				sb.WriteString("zero~;one~:;other~]")
			}
		case '{':
			if g.r.Chance(80) {
				sb.WriteString("~A~^,~}")
			}
		case '<':
			if g.r.Chance(80) {
				sb.WriteString("a~;b~>")
			}
		}
	}
	if g.r.Chance(8) {
		sb.WriteString("~")
	}
	var args strings.Builder
	k := g.r.Intn(5)
	for i := 0; i < k; i++ {
		args.WriteString(" " + common.Pick(g.r, fmtArgs))
	}
	return sb.String(), args.String()
}

func lispString(s string) string {
	return "\"" + strings.NewReplacer("\\", "\\\\", "\"", "\\\"").Replace(s) + "\""
}

// directiveShape reduces a (format nil "ctl" args) program to the letters of its directives with
// their modifiers and the kinds of their parameters, e.g. "~v,#:D" -> "v,#:D".
func directiveShape(src string) string {
	i := strings.Index(src, "\"")
	j := strings.LastIndex(src, "\"")
	ctl := src
	if i >= 0 && j > i {
		// the control string is the first string literal
		k := i + 1
		for k < len(src) {
			if src[k] == '\\' {
				k += 2
				continue
			}
			if src[k] == '"' {
				break
			}
			k++
		}
		ctl = strings.NewReplacer("\\\"", "\"", "\\\\", "\\").Replace(src[i+1 : k])
	}
	var shapes []string
	for p := 0; p < len(ctl); p++ {
		if ctl[p] != '~' {
			continue
		}
		q := p + 1
		var sb strings.Builder
		for q < len(ctl) {
			c := ctl[q]
			switch {
			case c >= '0' && c <= '9' || c == '-' || c == '+':
				for q < len(ctl) && (ctl[q] >= '0' && ctl[q] <= '9' || ctl[q] == '-' || ctl[q] == '+') {
					q++
				}
				sb.WriteString("n")
				continue
			case c == '\'':
				sb.WriteString("'c")
				q += 2
				continue
			case c == ',' || c == ':' || c == '@' || c == 'v' || c == 'V' || c == '#':
				sb.WriteByte(c)
				q++
				continue
			}
			break
		}
		if q < len(ctl) {
			if ctl[q] == '\n' {
				sb.WriteString("NL")
			} else {
				sb.WriteString(strings.ToUpper(string(ctl[q])))
			}
		} else {
			sb.WriteString("END")
		}
		shapes = append(shapes, sb.String())
		p = q
	}
	return strings.Join(shapes, "~")
}

// controlOf extracts the control string and the argument text of a (format nil "ctl" args...) program.
func controlOf(src string) (ctl, args string, ok bool) {
	i := strings.Index(src, "\"")
	if i < 0 {
		return
	}
	k := i + 1
	for k < len(src) {
		if src[k] == '\\' {
			k += 2
			continue
		}
		if src[k] == '"' {
			break
		}
		k++
	}
	if k >= len(src) {
		return
	}
	ctl = strings.NewReplacer("\\\"", "\"", "\\\\", "\\").Replace(src[i+1 : k])
	args = strings.TrimSuffix(src[k+1:], ")")
	return ctl, args, true
}

// chunks splits a control string into its directives (each "~...X"), dropping literal text.
func chunks(ctl string) (out []string) {
	for p := 0; p < len(ctl); p++ {
		if ctl[p] != '~' {
			continue
		}
		q := p + 1
		for q < len(ctl) {
			c := ctl[q]
			if c == '\'' {
				q += 2
				continue
			}
			if c >= '0' && c <= '9' || c == '-' || c == '+' || c == ',' || c == ':' || c == '@' || c == 'v' || c == 'V' || c == '#' {
				q++
				continue
			}
			break
		}
		if q < len(ctl) {
			out = append(out, ctl[p:q+1])
		} else {
			out = append(out, ctl[p:])
		}
		p = q
	}
	return
}

// simple draws a control string over literal text and the fully modelled directives (~% ~& ~~ ~| ~* ~T,
// with prefix parameters and modifiers) plus, rarely, another directive letter; returns the control
// string, the Lisp argument text and the arguments as Gallina terms.
func (g *fmtGen) simple() (string, string, []string) {
	var sb strings.Builder
	n := 1 + g.r.Intn(4)
	for i := 0; i < n; i++ {
		if g.r.Chance(50) {
			sb.WriteString(common.Pick(g.r, []string{"x", " ", "ab", ",", "\n", "#", ":", "v", "'", "1"}))
		}
		sb.WriteString("~")
		if g.r.Chance(60) {
			k := 1 + g.r.Intn(3)
			for j := 0; j < k; j++ {
				if j > 0 {
					sb.WriteString(",")
				}
				switch g.r.Intn(9) {
				case 0:
					sb.WriteString("v")
				case 1:
					sb.WriteString("#")
				case 2:
					sb.WriteString("'" + string(rune("*0 x~,%"[g.r.Intn(7)])))
				case 3:
				case 4:
					sb.WriteString(fmt.Sprint(-g.r.Intn(4)))
				case 5:
					sb.WriteString(common.Pick(g.r, []string{"99999999999999999999", "100000000000", "300000000", "-300000000"}))
				case 6:
					sb.WriteString("+" + fmt.Sprint(g.r.Intn(3)))
				default:
					sb.WriteString(fmt.Sprint(g.r.Intn(5)))
				}
			}
		}
		switch g.r.Intn(8) {
		case 0:
			sb.WriteString(":")
		case 1:
			sb.WriteString("@")
		case 2:
			sb.WriteString(":@")
		case 3:
			sb.WriteString("::")
		}
		if g.r.Chance(92) {
			sb.WriteString(common.Pick(g.r, []string{"%", "&", "~", "|", "%", "&", "*", "*", "T", "T", "T", "t"}))
		} else if g.r.Chance(50) {
			sb.WriteString(common.Pick(g.r, []string{"Z", "!", "V", "q", "\"", ".", ")", "]"}))
		}
	}
	var args strings.Builder
	var gargs []string
	k := g.r.Intn(4)
	for i := 0; i < k; i++ {
		switch g.r.Intn(6) {
		case 0:
			args.WriteString(" nil")
			gargs = append(gargs, "FNil")
		case 1:
			args.WriteString(" #\\a")
			gargs = append(gargs, "FChar")
		case 2:
			args.WriteString(" \"s\"")
			gargs = append(gargs, "FOther")
		case 3:
			// around and beyond the bound on directive parameters (array-dimension-limit = 268435456); the
			// bound itself only negated, the model would build 2^28 characters
			z := common.Pick(g.r, []string{"300000000", "-300000000", "100000000000000000000", "-268435456", "268435457", "-268435457"})
			args.WriteString(" " + z)
			gargs = append(gargs, fmt.Sprintf("(FInt (%s)%%Z)", z))
		default:
			z := g.r.Intn(7) - 2
			args.WriteString(fmt.Sprintf(" %d", z))
			gargs = append(gargs, fmt.Sprintf("(FInt (%d)%%Z)", z))
		}
	}
	return sb.String(), args.String(), gargs
}

// directiveLetters: the directive letters of a format program's control string (upper case, sorted,
// without repetition); for a control narrowed to one directive this is that directive's letter.
func directiveLetters(src string) string {
	ctl, _, ok := controlOf(src)
	if !ok {
		return "?"
	}
	seen := map[string]bool{}
	var out []string
	for _, ch := range chunks(ctl) {
		l := strings.ToUpper(ch[len(ch)-1:])
		if l == "\n" {
			l = "NL"
		}
		if ch == "~" || strings.ContainsAny(l, ",:@#'") {
			l = "END"
		}
		if !seen[l] {
			seen[l] = true
			out = append(out, l)
		}
	}
	sort.Strings(out)
	return strings.Join(out, "")
}
