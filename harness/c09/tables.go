package c09

import (
	"fmt"
	"go/ast"
	"go/parser"
	"go/token"
	"os"
	"path/filepath"
	"sort"
	"strconv"
	"strings"

	"verifharness/common"
)

// writeTables regenerates Tables.v from pkg/cl/control.go: the bytes marked 'x' in dirScanMap and the
// bytes readDir dispatches to a directive on (the case clauses of its switch that end in a return).
func writeTables(ctx *common.Ctx) {
	fset := token.NewFileSet()
	f, err := parser.ParseFile(fset, common.RepoDir()+"/pkg/cl/control.go", nil, 0)
	if err != nil {
		panic(err)
	}
	var scan string
	var letters []int
	ast.Inspect(f, func(n ast.Node) bool {
		switch t := n.(type) {
		case *ast.ValueSpec:
			if len(t.Names) == 1 && t.Names[0].Name == "dirScanMap" && len(t.Values) == 1 {
				scan = constString(t.Values[0])
			}
		case *ast.FuncDecl:
			if t.Name.Name != "readDir" {
				return true
			}
			ast.Inspect(t.Body, func(m ast.Node) bool {
				cc, ok := m.(*ast.CaseClause)
				if !ok || len(cc.Body) == 0 {
					return true
				}
				if _, isRet := cc.Body[len(cc.Body)-1].(*ast.ReturnStmt); !isRet {
					return true
				}
				for _, e := range cc.List {
					if bl, ok := e.(*ast.BasicLit); ok && bl.Kind == token.CHAR {
						if r, _, _, err := strconv.UnquoteChar(bl.Value[1:len(bl.Value)-1], '\''); err == nil {
							letters = append(letters, int(r))
						}
					}
				}
				return true
			})
		}
		return true
	})
	if len(scan) != 256 || len(letters) < 30 {
		panic(fmt.Sprintf("c09 translator: dirScanMap has %d entries, readDir %d letters", len(scan), len(letters)))
	}
	var ends []string
	for i := 0; i < 256; i++ {
		if scan[i] == 'x' {
			ends = append(ends, strconv.Itoa(i))
		}
	}
	sort.Ints(letters)
	var ls []string
	for _, l := range letters {
		ls = append(ls, strconv.Itoa(l))
	}
	var sb strings.Builder
	sb.WriteString("(* regenerated from pkg/cl/control.go on every run by harness/c09 *)\nFrom C09 Require Import Format.\nOpen Scope N_scope.\n")
	sb.WriteString("Definition tb : tabs := {| t_ends := [" + strings.Join(ends, "; ") + "];\n  t_letters := [" + strings.Join(ls, "; ") + "] |}.\n")
	if err := os.WriteFile(filepath.Join(ctx.OutDir, "Tables.v"), []byte(sb.String()), 0o644); err != nil {
		panic(err)
	}
}

func constString(e ast.Expr) string {
	switch t := e.(type) {
	case *ast.BasicLit:
		s, _ := strconv.Unquote(t.Value)
		return s
	case *ast.BinaryExpr:
		return constString(t.X) + constString(t.Y)
	case *ast.ParenExpr:
		return constString(t.X)
	}
	return ""
}
