package c09

import (
	"bufio"
	"encoding/json"
	"fmt"
	"os"
	"os/exec"
	"sync"
	"time"
)

// a worker process with a watchdog
type proc struct {
	cmd *exec.Cmd
	in  *bufio.Writer
	res chan result
}

func startProc(self, dir string, memKB int) (*proc, error) {
	pr, pw, err := os.Pipe()
	if err != nil {
		return nil, err
	}
	cmd := exec.Command("sh", "-c", fmt.Sprintf("ulimit -v %d; exec %s C09W --out %s", memKB, self, dir))
	cmd.ExtraFiles = []*os.File{pw}
	stdin, err := cmd.StdinPipe()
	if err != nil {
		return nil, err
	}
	if err = cmd.Start(); err != nil {
		return nil, err
	}
	pw.Close()
	p := &proc{cmd: cmd, in: bufio.NewWriter(stdin), res: make(chan result, 1)}
	out := bufio.NewReaderSize(pr, 1<<20)
	go func() {
		for {
			line, err := out.ReadBytes('\n')
			if len(line) > 1 {
				var r result
				if json.Unmarshal(line, &r) == nil {
					p.res <- r
				}
			}
			if err != nil {
				close(p.res)
				pr.Close()
				return
			}
		}
	}()
	return p, nil
}

func (p *proc) kill() {
	_ = p.cmd.Process.Kill()
	_, _ = p.cmd.Process.Wait()
}

// runGroups evaluates every group of jobs in a fresh worker process of its own (earlier jobs may
// change global interpreter state, so state never leaks from one group into another); n processes
// run at a time. A job that does not answer within its deadline is class "timeout" and the rest of
// the group continues in a new process; a process that dies on a job records class "crash".
func runGroups(self, dir string, groups [][]job, n int, deadline time.Duration, memKB int) [][]result {
	results := make([][]result, len(groups))
	var next int
	var mu sync.Mutex
	var wg sync.WaitGroup
	for w := 0; w < n; w++ {
		wg.Add(1)
		go func(w int) {
			defer wg.Done()
			wdir := fmt.Sprintf("%s/w%d", dir, w)
			_ = os.MkdirAll(wdir, 0o755)
			for {
				mu.Lock()
				g := next
				next++
				mu.Unlock()
				if g >= len(groups) {
					return
				}
				results[g] = runGroup(self, wdir, groups[g], deadline, memKB)
			}
		}(w)
	}
	wg.Wait()
	return results
}

func runGroup(self, wdir string, jobs []job, deadline time.Duration, memKB int) []result {
	out := make([]result, len(jobs))
	var p *proc
	defer func() {
		if p != nil {
			p.kill()
		}
	}()
	timeouts := 0
	for i, j := range jobs {
		if timeouts >= 6 { // a function that hangs on everything: do not spend the run on it
			out[i] = result{ID: j.ID, Class: "skipped", Msg: "skipped after repeated timeouts in this group"}
			continue
		}
		if p == nil {
			var err error
			if p, err = startProc(self, wdir, memKB); err != nil {
				out[i] = result{ID: j.ID, Class: "harness", Msg: err.Error()}
				p = nil
				continue
			}
		}
		b, _ := json.Marshal(j)
		p.in.Write(b)
		p.in.WriteByte('\n')
		_ = p.in.Flush()
		d := deadline
		if j.Deadline > 0 {
			d = time.Duration(j.Deadline) * time.Second
		}
		select {
		case r, ok := <-p.res:
			if !ok {
				out[i] = result{ID: j.ID, Class: "crash", Msg: "worker process died (memory limit or fatal error)", Fault: "process death"}
				p.kill()
				p = nil
			} else {
				out[i] = r
			}
		case <-time.After(d):
			timeouts++
			out[i] = result{ID: j.ID, Class: "timeout", Msg: "no answer within " + d.String(), Fault: "hang"}
			p.kill()
			p = nil
		}
	}
	return out
}
