module verifharness

go 1.25

require github.com/ohler55/slip v0.0.0

require (
	github.com/ohler55/ojg v1.27.0 // indirect
	golang.org/x/sys v0.35.0 // indirect
	golang.org/x/term v0.34.0 // indirect
	golang.org/x/text v0.28.0 // indirect
)

replace github.com/ohler55/slip => /repo
