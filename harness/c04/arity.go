package c04

import (
	"encoding/json"
	"fmt"
	"os"
	"path/filepath"
	"sort"
	"strings"
	"time"

	"github.com/ohler55/slip"
	"verifharness/arity"
	"verifharness/common"
)

type knownArity struct {
	Arity *struct {
		Key      string `json:"key"`
		Doc      [2]int `json:"doc"`
		Enforced [2]int `json:"enforced"`
		Fixed    bool   `json:"fixed"` // repaired in slip: no longer exempt from the table theorem
	} `json:"arity"`
}

func docArity(args []string) (mn, mx int, hasKey bool) {
	i := 0
	for ; i < len(args) && !strings.HasPrefix(args[i], "&"); i++ {
		mn++
	}
	opt := 0
	if i < len(args) && args[i] == "&optional" {
		for j := i + 1; j < len(args) && !strings.HasPrefix(args[j], "&"); j++ {
			opt++
		}
	}
	open := false
	for _, a := range args {
		switch a {
		case "&rest", "&body", "&key", "&allow-other-keys":
			open = true
		}
		if a == "&key" {
			hasKey = true
		}
	}
	if open {
		return mn, -1, hasKey
	}
	return mn, mn + opt, hasKey
}

func rowOK(r arity.Row) bool {
	if !r.HasCheck {
		return true
	}
	mn, mx, hasKey := docArity(r.Args)
	if mn != r.Min {
		return false
	}
	if hasKey {
		return r.Max < 0 || mn <= r.Max
	}
	return mx == r.Max || (mx < 0 && r.Max < 0)
}

// never probed: they leave the process, sleep, block on input, change the file system or talk to the
// outside. Output functions are probed (an arity error is raised before anything is written).
var danger = []string{"exit", "quit", "bye", "sleep", "read", "load", "run", "shell", "system", "watch", "repl", "edit", "debug",
	"break", "step", "app", "snapshot", "require", "open", "delete", "rename", "probe", "ensure", "directory", "wait", "listen",
	"accept", "connect", "send", "recv", "http", "socket", "file", "with-", "signal", "kill", "abort", "halt", "trace",
	"channel", "mutex", "lock", "time", "gc", "room", "dribble", "ed", "inspect", "y-or-n", "yes-or-no", "prompt", "input"}

func dangerous(name string) bool {
	if strings.HasPrefix(name, "with-") {
		return true
	}
	for _, part := range strings.FieldsFunc(name, func(r rune) bool { return r == '-' || r == '*' || r == '/' }) {
		for _, d := range danger {
			if part == d || part == d+"s" {
				return true
			}
		}
	}
	return false
}

// RunArity regenerates the table, writes gen Tables.v, compares with the known list and probes the
// running binary at the enforced bounds (translator cross-check).
func RunArity(ctx *common.Ctx) {
	rows, err := arity.Extract(common.RepoDir())
	if err != nil {
		panic("c04 translator: cannot parse the repository: " + err.Error())
	}
	known := map[string]bool{}
	fixed := map[string]bool{}
	for _, raw := range ctx.Known {
		var k knownArity
		if json.Unmarshal(raw, &k) == nil && k.Arity != nil {
			if k.Arity.Fixed {
				fixed[k.Arity.Key] = true
			} else {
				known[k.Arity.Key] = true
			}
		}
	}
	var sb strings.Builder
	sb.WriteString("(* regenerated from /repo on every run by harness/arity *)\nFrom C04 Require Import Arity.\nOpen Scope string_scope.\n")
	sb.WriteString("Definition table : list row := [\n")
	seen := map[string]bool{}
	var mism []any
	nrows := 0
	for i, r := range rows {
		key := r.Pkg + ":" + r.Name
		if seen[key] {
			continue
		}
		seen[key] = true
		var as []string
		for _, a := range r.Args {
			as = append(as, `"`+strings.ReplaceAll(a, `"`, `""`)+`"`)
		}
		if nrows > 0 {
			sb.WriteString(";\n")
		}
		nrows++
		fmt.Fprintf(&sb, "  {| r_pkg := \"%s\"; r_name := \"%s\"; r_kind := \"%s\"; r_args := [%s]; r_has_check := %s; r_min := (%d)%%Z; r_max := (%d)%%Z |}",
			r.Pkg, strings.ReplaceAll(r.Name, `"`, `""`), r.Kind, strings.Join(as, "; "), common.GBool(r.HasCheck), r.Min, r.Max)
		_ = i
		if !rowOK(r) {
			mn, mx, _ := docArity(r.Args)
			m := map[string]any{"key": key, "lambda_list": r.Args, "doc": [2]int{mn, mx}, "enforced": [2]int{r.Min, r.Max}, "file": r.Pkg + "/" + r.File}
			if known[key] {
				ctx.KnownResult("C04-arity:"+key, true, fmt.Sprintf("doc %v enforced %v", [2]int{mn, mx}, [2]int{r.Min, r.Max}))
			} else {
				// a count on which documentation and code disagree, tried on the running binary
				cnt := r.Min
				if mn != r.Min {
					if r.Min < mn {
						cnt = r.Min
					} else {
						cnt = mn
					}
				} else if mx >= 0 && (r.Max < 0 || r.Max > mx) {
					cnt = mx + 1
				} else if r.Max >= 0 {
					cnt = r.Max + 1
				}
				m["count_where_they_differ"] = cnt
				mism = append(mism, m)
				if fixed[key] {
					// a repaired row is back: also reported as the regression of its recorded finding
					ctx.KnownResult("C04-arity:"+key, true, fmt.Sprintf("doc %v enforced %v", [2]int{mn, mx}, [2]int{r.Min, r.Max}))
				}
				ctx.Violate("documented lambda list and enforced argument count differ for a built-in", m, fmt.Sprintf("enforced (min,max) = (%d,%d)", r.Min, r.Max), fmt.Sprintf("documented (min,max) = (%d,%d)", mn, mx))
			}
		}
	}
	for key := range known {
		if !seen[key] {
			ctx.KnownResult("C04-arity:"+key, false, "function no longer found")
		}
	}
	sb.WriteString("\n].\n")
	var ks []string
	for k := range known {
		ks = append(ks, `"`+k+`"`)
	}
	sort.Strings(ks)
	sb.WriteString("Definition known : list string := [" + strings.Join(ks, "; ") + "].\n")
	if err := os.WriteFile(filepath.Join(ctx.OutDir, "Tables.v"), []byte(sb.String()), 0o644); err != nil {
		panic(err)
	}
	// translator cross-check on the running binary: one below the enforced minimum and one above the
	// enforced maximum must be rejected as an arity error
	scope := slip.NewScope()
	probed, agree := 0, 0
	var disagree []string
	for _, r := range rows {
		if !r.HasCheck || dangerous(r.Name) || r.Pkg != "pkg/cl" {
			continue
		}
		try := func(cnt int) {
			if cnt < 0 || cnt > 20 {
				return
			}
			src := "(" + r.Name + strings.Repeat(" nil", cnt) + ")"
			o := common.EvalTimeout(scope, src, 2*time.Second)
			probed++
			if strings.HasPrefix(o.Msg, "Too few arguments") || strings.HasPrefix(o.Msg, "Too many arguments") || strings.Contains(o.Msg, " arguments.") {
				agree++
			} else {
				if len(disagree) < 20 {
					disagree = append(disagree, fmt.Sprintf("%s => %s %s", src, o.Err, o.Msg))
				}
				key := r.Pkg + ":" + r.Name
				if _, listed := ctx.Known["C04-arity-unchecked:"+key]; listed {
					ctx.KnownResult("C04-arity-unchecked:"+key, true, src+" not rejected as an arity error")
				} else {
					mn, mx, _ := docArity(r.Args)
					ctx.Violate("the argument count check found in the source is not what the running built-in enforces",
						map[string]any{"key": key, "lambda_list": r.Args, "doc": [2]int{mn, mx}, "check_in_source": [2]int{r.Min, r.Max}, "call": src},
						fmt.Sprintf("%s: %s %s", src, o.Err, o.Msg), "an arity error")
				}
			}
		}
		try(r.Min - 1)
		if r.Max >= 0 {
			try(r.Max + 1)
		}
	}
	// built-ins for which the translator finds no constant check: the running binary must still
	// reject a count outside the documented lambda list as an arity error
	unchecked := map[string]bool{}
	for id := range ctx.Known {
		if strings.HasPrefix(id, "C04-arity-unchecked:") {
			unchecked[strings.TrimPrefix(id, "C04-arity-unchecked:")] = true
		}
	}
	uprobed := 0
	for _, r := range rows {
		key := r.Pkg + ":" + r.Name
		if r.HasCheck || dangerous(r.Name) || r.Pkg != "pkg/cl" {
			continue
		}
		mn, mx, _ := docArity(r.Args)
		rejected := func(cnt int) bool {
			src := "(" + r.Name + strings.Repeat(" nil", cnt) + ")"
			o := common.EvalTimeout(scope, src, 2*time.Second)
			uprobed++
			return strings.HasPrefix(o.Msg, "Too few arguments") || strings.HasPrefix(o.Msg, "Too many arguments")
		}
		bad := -1
		if mx >= 0 && mx < 12 && !rejected(mx+1) {
			bad = mx + 1
		} else if mn > 0 && !rejected(mn-1) {
			bad = mn - 1
		}
		if bad < 0 {
			continue
		}
		if unchecked[key] {
			ctx.KnownResult("C04-arity-unchecked:"+key, true, fmt.Sprintf("%d arguments not rejected as an arity error", bad))
		} else {
			ctx.Violate("a built-in accepts an argument count its documented lambda list does not allow",
				map[string]any{"key": key, "lambda_list": r.Args, "doc": [2]int{mn, mx}, "call": "(" + r.Name + strings.Repeat(" nil", bad) + ")"},
				fmt.Sprintf("%d arguments are not rejected as an arity error", bad), fmt.Sprintf("documented (min,max) = (%d,%d)", mn, mx))
		}
	}
	if ctx.Meta.Extra == nil {
		ctx.Meta.Extra = map[string]any{}
	}
	ctx.Meta.Extra["unchecked_rows_probed"] = uprobed
	ctx.Meta.Extra["arity_rows"] = nrows
	ctx.Meta.Extra["arity_rows_with_constant_check"] = func() int {
		n := 0
		for _, r := range rows {
			if r.HasCheck {
				n++
			}
		}
		return n
	}()
	ctx.Meta.Extra["table_suspects"] = mism
	ctx.Meta.Extra["translator_cross_check"] = map[string]any{"boundary_probes": probed, "rejected_as_arity_error": agree, "not_rejected": disagree}
	ctx.Hist(fmt.Sprintf("arity-rows:%d", nrows))
}
