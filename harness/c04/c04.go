// Package c04: (i) lambda-list binding: generated lambda lists x argument vectors, the body reports
// every parameter; (ii) documented vs enforced arity of the built-ins (table regenerated from the
// source by the translator, probed on the running binary).
package c04

import (
	"fmt"
	"strings"
	"time"

	"github.com/ohler55/slip"
	"verifharness/common"
)

var pnames = []string{"zqa", "zqb", "zqc", "zqd", "zqe", "zqf", "zqg", "zqh", "zqi", "zqj", "zqk", "zql", "zqm", "zqn"}

// allowKw is the model's name (Model.allow_kw) of the keyword :allow-other-keys.
const allowKw = 999

type docArg struct {
	marker string // "" for a variable
	id     int
	def    *int
	form   string // the default as written in the lambda list (a literal or a form with the value *def)
	ref    int    // -1, or the index of the required parameter the default form refers to: its value is
	refAdd int    // that parameter's argument + refAdd, so the literal the model sees is set per call
	traced bool   // the default form reports its own evaluation: it pushes the parameter's index on zqtrace first
}

// lispDefault is the default form as it stands in the lambda list.
func (d docArg) lispDefault() string {
	if d.traced {
		return fmt.Sprintf("(progn (setq zqtrace (cons %d zqtrace)) %s)", d.id, d.form)
	}
	return d.form
}

// kwName is the Lisp spelling of the keyword the model calls AKw id.
func kwName(id int) string {
	if id == allowKw {
		return ":allow-other-keys"
	}
	return ":" + pnames[id]
}

func Run(ctx *common.Ctx) {
	scope := slip.NewScope()
	// two parameter names are also global variables: a parameter of that name must get its argument or its
	// default, never the global value (C04-2)
	for _, g := range []string{"(defvar zqc 777)", "(defvar zqf 778)", "(defvar zqglobal 700)", "(defvar zqtrace nil)"} {
		if o := common.EvalIn(scope, g); o.Err != "" {
			ctx.Violate("defvar failed", g, o.Err+": "+o.Msg, nil)
		}
	}
	checkMissingValueCondition(ctx, scope)
	nlists, perList := 120, 14
	if ctx.Thorough() {
		nlists, perList = 1500, 30
	}
	var terms []string
	var descs []any
	distinct := map[string]bool{}
	fn := 0
	// round 5: the cases whose default forms read earlier parameters go to shards of their own (type xcase)
	var xterms []string
	var xdescs []any
	sink, dsink := &terms, &descs
	// emit calls the function on the arguments, reads the trace of default forms evaluated, classifies the outcome and
	// records the case
	emit := func(name, def string, ds []docArg, gds, args, gargs []string) (string, common.Outcome) {
		call := fmt.Sprintf("(%s %s)", name, strings.Join(args, " "))
		common.EvalIn(scope, "(setq zqtrace nil)")
		out := common.EvalTimeout(scope, call, 3*time.Second)
		var gtrace []string
		if tl, ok := common.EvalIn(scope, "zqtrace").Value.(slip.List); ok {
			for i := len(tl) - 1; i >= 0; i-- { // pushed: the last evaluated is first
				if n, ok := tl[i].(slip.Fixnum); ok {
					gtrace = append(gtrace, fmt.Sprint(int64(n)))
				}
			}
		}
		var gtraced []string
		for _, d := range ds {
			if d.traced {
				gtraced = append(gtraced, fmt.Sprint(d.id))
			}
		}
		var gout, shown string
		switch {
		case out.Err == "":
			lst, _ := out.Value.(slip.List)
			var bs []string
			bi := 0
			for _, d := range ds {
				if d.marker != "" {
					continue
				}
				var val slip.Object
				if bi < len(lst) {
					val = lst[bi]
				}
				bi++
				bs = append(bs, fmt.Sprintf("(%d%%N, %s)", d.id, gValue(val)))
			}
			gout, shown = "OBound "+common.GList(bs), out.Printed
		case strings.HasPrefix(out.Msg, "Too many arguments"):
			gout, shown = "OErr KTooMany", "!too-many"
		case strings.HasPrefix(out.Msg, "Too few arguments"):
			gout, shown = "OErr KTooFew", "!too-few"
		case out.Err == "error" && strings.HasPrefix(out.Msg, "Missing value for key"):
			gout, shown = "OErr KBadKey", "!missing-key-value"
		case out.Err == "program-error" && strings.Contains(out.Msg, "is not a keyword parameter of"):
			gout, shown = "OErr KBadKey", "!unknown-key"
		case out.Err == "type-error" && strings.HasPrefix(out.Msg, "keyword to function"):
			gout, shown = "OErr KBadKey", "!type-error"
		default:
			gout, shown = "OErr KFault", "!"+out.Err+": "+out.Msg
		}
		term := fmt.Sprintf("(%s, %s, %s, %s, %s)", common.GList(gds), common.GList(gargs), gout, common.GList(gtraced), common.GList(gtrace))
		if len(gtraced) > 0 {
			ctx.Hist(fmt.Sprintf("traced-defaults:%d-evaluated:%d", len(gtraced), len(gtrace)))
		}
		ctx.Meta.Evaluations++
		ctx.Hist("outcome:" + strings.SplitN(gout, " ", 3)[0] + strings.TrimPrefix(strings.SplitN(gout+" ", " ", 3)[1], "["))
		if !distinct[term] {
			distinct[term] = true
			*sink = append(*sink, term)
			d := map[string]any{"defun": def, "call": call, "result": shown, "default_forms_evaluated": gtrace}
			*dsink = append(*dsink, d)
			if len(*sink)%211 == 1 {
				ctx.Sample(d)
			}
		}
		return call, out
	}
	for li := 0; li < nlists; li++ {
		// shape: 0-3 required x 0-2 optional x rest x 0-3 keys x 0-1 aux
		var ds []docArg
		next := 0
		nreq, nopt := ctx.Rng.Intn(4), 0
		refs := false // some default form refers to a required parameter
		v := func(withDef bool) docArg {
			d := docArg{id: next, ref: -1}
			next++
			if withDef && ctx.Rng.Chance(60) {
				x := 50 + ctx.Rng.Intn(40)
				d.def = &x
				d.form = fmt.Sprint(x)
				d.traced = ctx.Rng.Chance(70)
				if d.traced {
					ctx.Hist("default:reports-its-evaluation")
				}
				// a third of the defaults are forms that must be evaluated (C04-1), some referring to a global
				switch ctx.Rng.Intn(6) {
				case 0:
					k := 1 + ctx.Rng.Intn(9)
					d.form = fmt.Sprintf("(+ %d %d)", x-k, k)
					ctx.Hist("default:form")
				case 1:
					k := ctx.Rng.Intn(20)
					x = 700 + k
					d.form = fmt.Sprintf("(+ zqglobal %d)", k) // a global variable, seen through the scope being built
					ctx.Hist("default:form")
				case 2:
					if nreq > 0 {
						// a parameter bound earlier, seen in the scope being built: the value differs from call to call
						d.ref, d.refAdd = ctx.Rng.Intn(nreq), ctx.Rng.Intn(5)
						d.form = fmt.Sprintf("(+ %s %d)", pnames[d.ref], d.refAdd)
						if d.refAdd == 0 {
							d.form = pnames[d.ref]
						}
						refs = true
						ctx.Hist("default:form-referring-to-a-required-parameter")
					} else {
						ctx.Hist("default:literal")
					}
				default:
					ctx.Hist("default:literal")
				}
			}
			return d
		}
		for i := nreq; i > 0; i-- {
			ds = append(ds, v(false))
		}
		if n := ctx.Rng.Intn(3); n > 0 {
			nopt = n
			ds = append(ds, docArg{marker: "&optional"})
			for i := 0; i < n; i++ {
				ds = append(ds, v(true))
			}
		}
		hasRest := ctx.Rng.Chance(35)
		if hasRest {
			ds = append(ds, docArg{marker: "&rest"}, v(false))
		}
		var keyIDs []int
		hasKey, hasAllow := false, false
		if ctx.Rng.Chance(50) {
			hasKey = true
			ds = append(ds, docArg{marker: "&key"})
			for i := ctx.Rng.Intn(4); i > 0; i-- {
				keyIDs = append(keyIDs, next)
				ds = append(ds, v(true))
			}
			if ctx.Rng.Chance(25) {
				ds = append(ds, docArg{marker: "&allow-other-keys"})
				hasAllow = true
				ctx.Hist("&allow-other-keys")
			}
		}
		var auxIDs []int
		if ctx.Rng.Chance(25) {
			auxIDs = append(auxIDs, next)
			ds = append(ds, docArg{marker: "&aux"}, v(true))
		}
		// keywords standing among the positional arguments name a key parameter; for a lambda list with
		// &rest and &aux but no &key they name the &aux parameter (the binder leaves rest mode at ANY
		// keyword naming a later parameter)
		kwPool, kwChance := keyIDs, 6
		if len(keyIDs) == 0 && hasRest && len(auxIDs) > 0 {
			kwPool, kwChance = auxIDs, 25
		}
		var ll, body []string
		bodySpelling := hasRest && ctx.Rng.Chance(35)
		if bodySpelling {
			ctx.Hist("rest-spelled-&body")
		}
		for _, d := range ds {
			switch {
			case d.marker != "":
				if d.marker == "&rest" && bodySpelling {
					ll = append(ll, "&body") // the same marker under its other name
				} else {
					ll = append(ll, d.marker)
				}
			case d.def != nil:
				ll = append(ll, fmt.Sprintf("(%s %s)", pnames[d.id], d.lispDefault()))
				body = append(body, fmt.Sprintf("(if (boundp '%s) %s :unbound)", pnames[d.id], pnames[d.id]))
			default:
				ll = append(ll, pnames[d.id])
				body = append(body, fmt.Sprintf("(if (boundp '%s) %s :unbound)", pnames[d.id], pnames[d.id]))
			}
		}
		// the lambda list as the model sees it in a call whose leading arguments are posInts: a default form that
		// refers to a required parameter is the literal it evaluates to in THAT call
		gdsFor := func(posInts []int) []string {
			var gds []string
			for _, d := range ds {
				switch {
				case d.marker != "":
					gds = append(gds, fmt.Sprintf("{| d_name := %s; d_def := None |}", map[string]string{"&optional": "POptional", "&rest": "PRest", "&key": "PKey", "&aux": "PAux", "&allow-other-keys": "PAllow"}[d.marker]))
				case d.def != nil:
					val := *d.def
					if d.ref >= 0 {
						val = 0 // too few arguments: the call is rejected, the default is never used
						if d.ref < len(posInts) {
							val = posInts[d.ref] + d.refAdd
						}
					}
					gds = append(gds, fmt.Sprintf("{| d_name := PVar %d; d_def := Some (%d)%%Z |}", d.id, val))
				default:
					gds = append(gds, fmt.Sprintf("{| d_name := PVar %d; d_def := None |}", d.id))
				}
			}
			return gds
		}
		fn++
		name := fmt.Sprintf("vfn%d", fn)
		def := fmt.Sprintf("(defun %s (%s) (list %s))", name, strings.Join(ll, " "), strings.Join(body, " "))
		if o := common.EvalIn(scope, def); o.Err != "" {
			ctx.Violate("defun with a well-formed lambda list failed", def, o.Err+": "+o.Msg, nil)
			continue
		}
		// a second name for the same definition, first defined with a different lambda list (required
		// parameters only, or &optional/&rest only) and a caller compiled against that earlier definition
		redef := ctx.Rng.Chance(45)
		for k := 0; k < perList; k++ {
			// argument vector: positional integers, then (if keys exist) keyword material
			var args, gargs []string
			// the positional arguments: usually at least the required ones (a call with too few is rejected
			// since C04-8 and tells nothing else), up to one more than the positional parameters, more with &rest
			npos := nreq + ctx.Rng.Intn(nopt+2)
			if hasRest && ctx.Rng.Chance(50) {
				npos += ctx.Rng.Intn(4)
			}
			if nreq > 0 && ctx.Rng.Chance(10) {
				npos = ctx.Rng.Intn(nreq)
			}
			for i := 0; i < npos; i++ {
				if refs && i < nreq {
					// a default form refers to this argument: an integer
					z := 1 + ctx.Rng.Intn(30)
					args = append(args, fmt.Sprint(z))
					gargs = append(gargs, fmt.Sprintf("AInt %d", z))
				} else if ctx.Rng.Chance(kwChance) && len(kwPool) > 0 {
					id := common.Pick(ctx.Rng, kwPool)
					args = append(args, ":"+pnames[id])
					gargs = append(gargs, fmt.Sprintf("AKw %d", id))
				} else if ctx.Rng.Chance(8) {
					args = append(args, "nil")
					gargs = append(gargs, "ANil")
				} else {
					z := 1 + ctx.Rng.Intn(30)
					args = append(args, fmt.Sprint(z))
					gargs = append(gargs, fmt.Sprintf("AInt %d", z))
				}
			}
			if hasKey || ctx.Rng.Chance(10) {
				// a permissive call: other keys are allowed by the lambda list, or by a leading :allow-other-keys 1
				// (a fifth of the calls of a lambda list with &key, half of them when its key section is empty);
				// such a call carries more keywords that name no &key parameter - unknown ones and the names of
				// the other parameters, which must keep their values
				permissive := hasAllow
				if hasKey && !hasAllow && (ctx.Rng.Chance(20) || (len(keyIDs) == 0 && ctx.Rng.Chance(40))) {
					permissive = true
					args = append(args, ":allow-other-keys", "1") // any non-nil value is true
					gargs = append(gargs, fmt.Sprintf("AKw %d", allowKw), "AInt 1")
					ctx.Hist("arg::allow-other-keys")
				}
				lure := false
				if hasKey && !permissive && ctx.Rng.Chance(6) {
					// of several :allow-other-keys the FIRST counts: this call is not permissive
					lure = true
					args = append(args, ":allow-other-keys", "nil", ":allow-other-keys", "1")
					gargs = append(gargs, fmt.Sprintf("AKw %d", allowKw), "ANil", fmt.Sprintf("AKw %d", allowKw), "AInt 1")
					ctx.Hist("arg::allow-other-keys nil, then true")
				}
				declared, allowArg, otherParam := 76, 84, 90
				if permissive || lure {
					declared, allowArg, otherParam = 45, 52, 80
					ctx.Hist("permissive-call")
				}
				npairs := ctx.Rng.Intn(4)
				if (permissive || lure) && npairs == 0 {
					npairs = 1
				}
				for i := npairs; i > 0; i-- {
					id := next + 1 // unknown key
					switch r := ctx.Rng.Intn(100); {
					case len(keyIDs) > 0 && r < declared:
						id = common.Pick(ctx.Rng, keyIDs)
					case r < allowArg:
						id = allowKw // :allow-other-keys, with a true or a nil value below
						ctx.Hist("arg::allow-other-keys")
					case r < otherParam && next > 0:
						id = ctx.Rng.Intn(next) // the name of any parameter: required, optional, rest, aux
						ctx.Hist("arg:keyword-naming-some-parameter")
					}
					if id != allowKw && id >= len(pnames) {
						id = len(pnames) - 1
					}
					args = append(args, kwName(id))
					gargs = append(gargs, fmt.Sprintf("AKw %d", id))
					if !ctx.Rng.Chance(7) { // sometimes the value is missing
						if ctx.Rng.Chance(15) {
							args = append(args, "nil")
							gargs = append(gargs, "ANil")
						} else {
							z := 100 + ctx.Rng.Intn(50)
							args = append(args, fmt.Sprint(z))
							gargs = append(gargs, fmt.Sprintf("AInt %d", z))
						}
					}
				}
			}
			// the integers the required parameters get (for the default forms that refer to them)
			var posInts []int
			skip := false
			for i := 0; i < nreq && i < len(gargs); i++ {
				var z int
				if _, err := fmt.Sscanf(gargs[i], "AInt %d", &z); err != nil {
					skip = refs // a keyword or nil where a default form expects a number: not expressible in the model
					break
				}
				posInts = append(posInts, z)
			}
			if skip {
				ctx.Hist("skipped:default-form-would-see-a-non-integer")
				continue
			}
			gds := gdsFor(posInts)
			call, out := emit(name, def, ds, gds, args, gargs)
			if redef && k < 4 {
				// history: (defun f <other list>) (defun caller () (f args)) (defun f <this list>) (caller)
				other := common.Pick(ctx.Rng, []string{"(qa)", "(qa qb)", "(qa qb qc)", "()", "(&optional qa qb)", "(&rest qr)", "(qa &key qk)"})
				// fresh names per history: a name redefined more than once runs into another, recorded defect (C08)
				rname := fmt.Sprintf("vrf%d-%d", fn, k)
				cname := fmt.Sprintf("vcl%d-%d", fn, k)
				prog := fmt.Sprintf("(defun %s %s 0) (defun %s () (%s %s)) (defun %s (%s) (list %s)) (%s)",
					rname, other, cname, rname, strings.Join(args, " "), rname, strings.Join(ll, " "), strings.Join(body, " "), cname)
				o2 := common.EvalTimeout(scope, prog, 3*time.Second)
				ctx.Meta.Evaluations++
				ctx.Hist("redefinition-history")
				if o2.Err != out.Err || (o2.Err == "" && o2.Printed != out.Printed) || (o2.Err != "" && arityKind(o2.Msg) != arityKind(out.Msg)) {
					ctx.Violate("a call compiled before the function was redefined with another lambda list binds differently from the same call made afresh",
						prog, common.ShowOutcome(o2), "the outcome of "+call+": "+common.ShowOutcome(out))
				}
			}
		}
	}
	// ---- systematic block (round 3): which default forms are evaluated ----
	// Five lambda lists whose every default form reports its evaluation; for each ALL argument vectors made of
	// 0 .. positional parameters + 1 integers followed by ALL sequences of 0, 1 or 2 keyword/value pairs over a
	// two-keyword alphabet (the declared keys; for the &allow-other-keys list one declared and one unknown key).
	type eparam struct {
		marker string
		def    int // 0: no default form
	}
	for ei, el := range [][]eparam{
		{{marker: "&optional"}, {def: 11}, {def: 12}},
		{{}, {marker: "&optional"}, {def: 11}, {marker: "&key"}, {def: 21}, {def: 22}},
		{{marker: "&key"}, {def: 21}, {def: 22}, {marker: "&aux"}, {def: 31}},
		{{}, {marker: "&optional"}, {def: 11}, {def: 12}, {marker: "&rest"}, {}, {marker: "&aux"}, {def: 31}},
		{{}, {marker: "&optional"}, {def: 11}, {marker: "&key"}, {def: 21}, {marker: "&allow-other-keys"}},
	} {
		var ds []docArg
		var ll, body, gds []string
		var keys []int
		npos, id, inKey, hasKey, hasRest := 0, 0, false, false, false
		positional := true
		for _, ep := range el {
			if ep.marker != "" {
				ds = append(ds, docArg{marker: ep.marker})
				ll = append(ll, ep.marker)
				gds = append(gds, fmt.Sprintf("{| d_name := %s; d_def := None |}", map[string]string{"&optional": "POptional", "&rest": "PRest", "&key": "PKey", "&aux": "PAux", "&allow-other-keys": "PAllow"}[ep.marker]))
				positional = positional && ep.marker == "&optional"
				inKey = ep.marker == "&key"
				hasKey = hasKey || inKey
				hasRest = hasRest || ep.marker == "&rest"
				continue
			}
			d := docArg{id: id, ref: -1}
			id++
			if positional {
				npos++
			}
			if inKey {
				keys = append(keys, d.id)
			}
			body = append(body, fmt.Sprintf("(if (boundp '%s) %s :unbound)", pnames[d.id], pnames[d.id]))
			if ep.def != 0 {
				x := ep.def
				d.def, d.form, d.traced = &x, fmt.Sprint(x), true
				ll = append(ll, fmt.Sprintf("(%s %s)", pnames[d.id], d.lispDefault()))
				gds = append(gds, fmt.Sprintf("{| d_name := PVar %d; d_def := Some (%d)%%Z |}", d.id, x))
			} else {
				ll = append(ll, pnames[d.id])
				gds = append(gds, fmt.Sprintf("{| d_name := PVar %d; d_def := None |}", d.id))
			}
			ds = append(ds, d)
		}
		name := fmt.Sprintf("vfe%d", ei)
		def := fmt.Sprintf("(defun %s (%s) (list %s))", name, strings.Join(ll, " "), strings.Join(body, " "))
		if o := common.EvalIn(scope, def); o.Err != "" {
			ctx.Violate("defun with a well-formed lambda list failed", def, o.Err+": "+o.Msg, nil)
			continue
		}
		alphabet := keys
		if len(keys) == 1 {
			alphabet = []int{keys[0], id + 1} // a declared and an unknown key
		}
		var keySeqs [][]int
		if hasKey {
			keySeqs = append(keySeqs, nil)
			for _, a := range alphabet {
				keySeqs = append(keySeqs, []int{a})
				for _, b := range alphabet {
					keySeqs = append(keySeqs, []int{a, b})
				}
			}
		} else {
			keySeqs = [][]int{nil}
		}
		maxPos := npos + 1
		if hasRest {
			maxPos = npos + 2
		}
		for p := 0; p <= maxPos; p++ {
			for _, ks := range keySeqs {
				var args, gargs []string
				for i := 0; i < p; i++ {
					args = append(args, fmt.Sprint(i+1))
					gargs = append(gargs, fmt.Sprintf("AInt %d", i+1))
				}
				for i, k := range ks {
					args = append(args, kwName(k), fmt.Sprint(100+i))
					gargs = append(gargs, fmt.Sprintf("AKw %d", k), fmt.Sprintf("AInt %d", 100+i))
				}
				emit(name, def, ds, gds, args, gargs)
				ctx.Hist("enumerated:default-forms-block")
			}
		}
	}

	// ---- round 5: default forms that read an EARLIER parameter (a required one, a supplied one, or one that got
	// its value from a default form of its own) ----
	// The form is (if (integerp y) (+ y k) nil), the model's FRef y k; every form reports its evaluation.
	sink, dsink = &xterms, &xdescs
	type xparam struct {
		marker string
		form   int // 0: no default form, 1: literal lit, 2: reference to parameter ref plus add
		lit    int
		ref    int
		add    int
	}
	xmarkers := map[string]string{"&optional": "POptional", "&rest": "PRest", "&key": "PKey", "&aux": "PAux", "&allow-other-keys": "PAllow"}
	// xdefine defines the function and returns what emit needs; ids are assigned to the variables in order
	xdefine := func(name string, xl []xparam) (def string, ds []docArg, gds []string, ok bool) {
		var ll, body []string
		id := 0
		for _, xp := range xl {
			if xp.marker != "" {
				ds = append(ds, docArg{marker: xp.marker})
				ll = append(ll, xp.marker)
				gds = append(gds, fmt.Sprintf("{| x_name := %s; x_def := None |}", xmarkers[xp.marker]))
				continue
			}
			d := docArg{id: id, ref: -1}
			id++
			body = append(body, fmt.Sprintf("(if (boundp '%s) %s :unbound)", pnames[d.id], pnames[d.id]))
			switch xp.form {
			case 1:
				x := xp.lit
				d.def, d.form, d.traced = &x, fmt.Sprint(x), true
				gds = append(gds, fmt.Sprintf("{| x_name := PVar %d; x_def := Some (FLit (%d)%%Z) |}", d.id, x))
			case 2:
				x := 0
				d.def, d.traced = &x, true
				d.form = fmt.Sprintf("(if (integerp %s) (+ %s %d) nil)", pnames[xp.ref], pnames[xp.ref], xp.add)
				gds = append(gds, fmt.Sprintf("{| x_name := PVar %d; x_def := Some (FRef %d (%d)%%Z) |}", d.id, xp.ref, xp.add))
			default:
				gds = append(gds, fmt.Sprintf("{| x_name := PVar %d; x_def := None |}", d.id))
			}
			if d.def != nil {
				ll = append(ll, fmt.Sprintf("(%s %s)", pnames[d.id], d.lispDefault()))
			} else {
				ll = append(ll, pnames[d.id])
			}
			ds = append(ds, d)
		}
		def = fmt.Sprintf("(defun %s (%s) (list %s))", name, strings.Join(ll, " "), strings.Join(body, " "))
		if o := common.EvalIn(scope, def); o.Err != "" {
			ctx.Violate("defun with a well-formed lambda list failed", def, o.Err+": "+o.Msg, nil)
			return def, ds, gds, false
		}
		return def, ds, gds, true
	}
	L, R := func(v int) xparam { return xparam{form: 1, lit: v} }, func(ref, add int) xparam { return xparam{form: 2, ref: ref, add: add} }
	M := func(m string) xparam { return xparam{marker: m} }
	// enumerated on every run: five lambda lists with chains of forms x all short positional vectors (plus one with
	// nil first) x all sequences of at most two pairs over the declared keys
	for ei, el := range []struct {
		xl     []xparam
		maxPos int
		keys   []int
	}{
		{[]xparam{M("&optional"), L(1), R(0, 10), R(1, 100)}, 4, nil},
		{[]xparam{{}, M("&key"), R(0, 2), R(1, 1)}, 2, []int{1, 2}},
		{[]xparam{M("&optional"), L(2), M("&key"), R(0, 0), M("&aux"), R(1, 5)}, 1, []int{1}},
		{[]xparam{M("&optional"), {}, R(0, 3)}, 3, nil},
		{[]xparam{{}, M("&optional"), R(0, 1), M("&rest"), {}, M("&aux"), R(1, 7), R(2, 1)}, 4, nil},
	} {
		name := fmt.Sprintf("vfx%d", ei)
		def, ds, gds, ok := xdefine(name, el.xl)
		if !ok {
			continue
		}
		keySeqs := [][]int{nil}
		for _, a := range el.keys {
			keySeqs = append(keySeqs, []int{a})
			for _, b := range el.keys {
				keySeqs = append(keySeqs, []int{a, b})
			}
		}
		for p := 0; p <= el.maxPos+1; p++ {
			for _, ks := range keySeqs {
				var args, gargs []string
				np := p
				if p == el.maxPos+1 {
					np = 1 // the extra vector: nil as the first argument
				}
				for i := 0; i < np; i++ {
					if p == el.maxPos+1 {
						args, gargs = append(args, "nil"), append(gargs, "ANil")
					} else {
						args, gargs = append(args, fmt.Sprint(i+1)), append(gargs, fmt.Sprintf("AInt %d", i+1))
					}
				}
				for i, k := range ks {
					args = append(args, kwName(k), fmt.Sprint(100+i))
					gargs = append(gargs, fmt.Sprintf("AKw %d", k), fmt.Sprintf("AInt %d", 100+i))
				}
				emit(name, def, ds, gds, args, gargs)
				ctx.Hist("enumerated:forms-reading-earlier-parameters")
			}
		}
	}
	// random lambda lists around that block
	nx, perX := 40, 8
	if ctx.Thorough() {
		nx, perX = 500, 16
	}
	for xi := 0; xi < nx; xi++ {
		var xl []xparam
		nvars := 0
		xv := func(withDef bool) xparam {
			xp := xparam{}
			if withDef {
				switch r := ctx.Rng.Intn(100); {
				case r < 55 && nvars > 0:
					xp = R(ctx.Rng.Intn(nvars), ctx.Rng.Intn(9))
					ctx.Hist("form:reads-an-earlier-parameter")
				case r < 75:
					xp = L(50 + ctx.Rng.Intn(40))
					ctx.Hist("form:literal")
				default:
					ctx.Hist("form:none")
				}
			}
			nvars++
			return xp
		}
		nreq, nopt := ctx.Rng.Intn(3), ctx.Rng.Intn(4)
		for i := 0; i < nreq; i++ {
			xl = append(xl, xv(false))
		}
		if nopt > 0 {
			xl = append(xl, M("&optional"))
			for i := 0; i < nopt; i++ {
				xl = append(xl, xv(true))
			}
		}
		hasRest := ctx.Rng.Chance(30)
		if hasRest {
			xl = append(xl, M("&rest"), xv(false))
		}
		var keyIDs []int
		hasKey := ctx.Rng.Chance(50)
		if hasKey {
			xl = append(xl, M("&key"))
			for i := 1 + ctx.Rng.Intn(3); i > 0; i-- {
				keyIDs = append(keyIDs, nvars)
				xl = append(xl, xv(true))
			}
		}
		if ctx.Rng.Chance(40) {
			xl = append(xl, M("&aux"))
			for i := 1 + ctx.Rng.Intn(2); i > 0; i-- {
				xl = append(xl, xv(true))
			}
		}
		name := fmt.Sprintf("vfy%d", xi)
		def, ds, gds, ok := xdefine(name, xl)
		if !ok {
			continue
		}
		for k := 0; k < perX; k++ {
			var args, gargs []string
			npos := nreq + ctx.Rng.Intn(nopt+2)
			if k == 0 {
				npos = nreq // every optional parameter defaulted
			}
			if hasRest && ctx.Rng.Chance(40) {
				npos += 1 + ctx.Rng.Intn(2)
			}
			if nreq > 0 && ctx.Rng.Chance(8) {
				npos = ctx.Rng.Intn(nreq)
			}
			for i := 0; i < npos; i++ {
				if ctx.Rng.Chance(8) {
					args, gargs = append(args, "nil"), append(gargs, "ANil")
				} else {
					z := 1 + ctx.Rng.Intn(30)
					args, gargs = append(args, fmt.Sprint(z)), append(gargs, fmt.Sprintf("AInt %d", z))
				}
			}
			if hasKey && k > 0 {
				for i := ctx.Rng.Intn(3); i > 0; i-- {
					id := common.Pick(ctx.Rng, keyIDs)
					if ctx.Rng.Chance(12) {
						id = len(pnames) - 1 // an unknown key
					}
					args, gargs = append(args, kwName(id)), append(gargs, fmt.Sprintf("AKw %d", id))
					if ctx.Rng.Chance(10) {
						args, gargs = append(args, "nil"), append(gargs, "ANil")
					} else {
						z := 100 + ctx.Rng.Intn(50)
						args, gargs = append(args, fmt.Sprint(z)), append(gargs, fmt.Sprintf("AInt %d", z))
					}
				}
			}
			emit(name, def, ds, gds, args, gargs)
			ctx.Hist("random:forms-reading-earlier-parameters")
		}
	}
	sink, dsink = &terms, &descs
	ctx.Meta.DistinctNontrivial = len(distinct)
	ctx.Meta.Rule = "lambda lists: 0-3 required x 0-2 &optional (60% with a default: half a literal, the others a form to evaluate such as (+ 70 4), (+ zqglobal 4) or (+ zqa 2) with zqa a required parameter - the model then gets the literal that form evaluates to in the call at hand) x &rest (35%, a third of them spelled &body) x &key with 0-3 keys (50%, a quarter of them with &allow-other-keys) x &aux (25%); the parameter names zqc and zqf are also global variables; per list 14 (thorough 30) argument vectors: required + 0..optional+1 positional integers (10% fewer than required; with &rest half of them 0-3 more; 6% a keyword naming a key parameter instead; 25% a keyword naming the &aux parameter when the list has &rest and &aux but no &key) followed by 0-3 keyword/value pairs (76% a declared key, 8% :allow-other-keys with a true or nil value, 6% the name of some other parameter, 10% an unknown key; 7% missing value, duplicates possible); calls of a lambda list with &allow-other-keys, and a fifth of the others with &key (half when the key section is empty) after a leading :allow-other-keys 1, are permissive: at least one pair, 45% declared, 7% :allow-other-keys, 28% the name of another parameter, 20% unknown; 6% of the other calls start with :allow-other-keys nil :allow-other-keys 1 (the first counts: not permissive) and go on like a permissive one; the body reports every parameter or :unbound; for 45% of the lambda lists the first four calls are repeated through a caller compiled while the function still had another lambda list (redefinition history); every default form is wrapped with 70% probability so that it reports its own evaluation (it pushes the parameter's index on a global list that is read after the call); distinct = distinct (lambda list, argument vector) pairs. ENUMERATED on every run (about 90 cases): five fixed lambda lists whose every default form reports its evaluation - (&optional o1 o2), (r &optional o1 &key k1 k2), (&key k1 k2 &aux x), (r &optional o1 o2 &rest rr &aux x), (r &optional o1 &key k1 &allow-other-keys) - each with ALL argument vectors of 0 .. positional parameters + 1 (+2 with &rest) integers followed by ALL sequences of 0, 1 or 2 keyword/value pairs over a two-keyword alphabet (the two declared keys; one declared and one unknown key for the &allow-other-keys list). ROUND 5, default forms that read an EARLIER parameter (the form (if (integerp y) (+ y k) nil), the model's FRef y k, every form reporting its evaluation; shards forms_*): ENUMERATED on every run (about 60 cases) - (&optional (a 1) (b a+10) (c b+100)), (x &key (k x+2) (l k+1)), (&optional (o 2) &key (k o) &aux (u k+5)), (&optional n (m n+3)), (r &optional (o r+1) &rest rr &aux (u o+7) (w rr+1)) - each with all positional vectors of 0 .. n+1 integers, one vector with nil first, and all sequences of at most two pairs over the declared keys; plus 40 (thorough 500) random lambda lists (0-2 required, 0-3 &optional, &rest 30%, &key 50% with 1-3 keys, &aux 40% with 1-2; each &optional/&key/&aux parameter 55% a form reading a random parameter on its left - required, optional, rest, key or aux -, 20% a literal, 25% none) x 8 (16) argument vectors (the first with no optional argument at all, so that forms read defaulted parameters; 8% nil arguments, 0-2 key pairs, 12% unknown key)"
	header := "From C04 Require Import Model Spec Corr.\nOpen Scope N_scope.\n"
	footer := "Definition res := Eval vm_compute in check_all cases.\nPrint res.\nDefinition gcount := Eval vm_compute in guard_count cases.\nPrint gcount.\nDefinition supplied := Eval vm_compute in supplied_count cases.\nPrint supplied.\n"
	ctx.WriteShards("cases", header, "case", footer, terms, descs, 16)
	xfooter := "Definition res := Eval vm_compute in check_xall cases.\nPrint res.\nDefinition xgcount := Eval vm_compute in xguard_count cases.\nPrint xgcount.\nDefinition chained := Eval vm_compute in chained_count cases.\nPrint chained.\n"
	ctx.WriteShards("forms", header, "xcase", xfooter, xterms, xdescs, 4)
	ctx.ReplayKnownLisp()
	RunArity(ctx)
}

func arityKind(msg string) string {
	switch {
	case strings.HasPrefix(msg, "Too many arguments"):
		return "too-many"
	case strings.HasPrefix(msg, "Too few arguments"):
		return "too-few"
	}
	return "other"
}

func gValue(v slip.Object) string {
	switch t := v.(type) {
	case nil:
		return "VNil"
	case slip.Fixnum:
		return fmt.Sprintf("VInt (%d)%%Z", int64(t))
	case slip.Symbol:
		if t == ":unbound" {
			return "VUnbound"
		}
		if string(t) == ":allow-other-keys" {
			return fmt.Sprintf("VKw %d", allowKw)
		}
		for i, n := range pnames {
			if string(t) == ":"+n {
				return fmt.Sprintf("VKw %d", i)
			}
		}
		return "VUnbound"
	case slip.List:
		var xs []string
		for _, e := range t {
			switch te := e.(type) {
			case nil:
				xs = append(xs, "ANil")
			case slip.Fixnum:
				xs = append(xs, fmt.Sprintf("AInt (%d)%%Z", int64(te)))
			case slip.Symbol:
				id := 99
				if string(te) == ":allow-other-keys" {
					id = allowKw
				}
				for i, n := range pnames {
					if string(te) == ":"+n {
						id = i
					}
				}
				xs = append(xs, fmt.Sprintf("AKw %d", id))
			default:
				xs = append(xs, "AKw 99")
			}
		}
		return "VList " + common.GList(xs)
	}
	return "VUnbound"
}

// checkMissingValueCondition: a keyword argument without a value must surface as a slip condition also when
// the lambda is called through the Go API (Lambda.Call), not as a Go panic carrying a string (C04-3).
func checkMissingValueCondition(ctx *common.Ctx, scope *slip.Scope) {
	o := common.EvalIn(scope, "(lambda (&key zqb) zqb)")
	lam, _ := o.Value.(*slip.Lambda)
	if lam == nil {
		ctx.Violate("(lambda (&key zqb) zqb) does not evaluate to a lambda", "(lambda (&key zqb) zqb)", common.ShowOutcome(o), "a lambda")
		return
	}
	var r any
	func() {
		defer func() { r = recover() }()
		lam.Call(scope, slip.List{slip.Symbol(":zqb")}, 0)
	}()
	ctx.Meta.Evaluations++
	_, raw := r.(string)
	ctx.KnownResult("C04-missing-key-value-panics", raw, fmt.Sprintf("panic(%T)", r))
	switch r.(type) {
	case *slip.Panic, slip.Object:
		ctx.Hist("missing-key-value:condition")
	case string:
		// reported through the finding above (a regression when it is recorded as fixed)
	case nil:
		ctx.Violate("a keyword argument without a value is accepted", "Lambda.Call of (lambda (&key zqb) zqb) with (:zqb)", "no error", "an error condition")
	default:
		ctx.Violate("a keyword argument without a value raises a raw Go panic, not a condition", "Lambda.Call of (lambda (&key zqb) zqb) with (:zqb)",
			fmt.Sprintf("panic(%T): %v", r, r), "a slip condition (slip.Object)")
	}
}
