// Package c04: (i) lambda-list binding: generated lambda lists x argument vectors, the body reports
// every parameter; (ii) documented vs enforced arity of the built-ins (table regenerated from the
// source by the translator, probed on the running binary).
package c04

import (
	"fmt"
	"strings"
	"time"

	"github.com/ohler55/slip"
	"verifharness/common"
)

var pnames = []string{"zqa", "zqb", "zqc", "zqd", "zqe", "zqf", "zqg", "zqh", "zqi", "zqj", "zqk", "zql", "zqm", "zqn"}

type docArg struct {
	marker string // "" for a variable
	id     int
	def    *int
}

func Run(ctx *common.Ctx) {
	scope := slip.NewScope()
	nlists, perList := 120, 14
	if ctx.Thorough() {
		nlists, perList = 1500, 30
	}
	var terms []string
	var descs []any
	distinct := map[string]bool{}
	fn := 0
	for li := 0; li < nlists; li++ {
		// shape: 0-3 required x 0-2 optional x rest x 0-3 keys x 0-1 aux
		var ds []docArg
		next := 0
		v := func(withDef bool) docArg {
			d := docArg{id: next}
			next++
			if withDef && ctx.Rng.Chance(60) {
				x := 50 + ctx.Rng.Intn(40)
				d.def = &x
			}
			return d
		}
		for i := ctx.Rng.Intn(4); i > 0; i-- {
			ds = append(ds, v(false))
		}
		if n := ctx.Rng.Intn(3); n > 0 {
			ds = append(ds, docArg{marker: "&optional"})
			for i := 0; i < n; i++ {
				ds = append(ds, v(true))
			}
		}
		hasRest := ctx.Rng.Chance(35)
		if hasRest {
			ds = append(ds, docArg{marker: "&rest"}, v(false))
		}
		var keyIDs []int
		if ctx.Rng.Chance(50) {
			ds = append(ds, docArg{marker: "&key"})
			for i := ctx.Rng.Intn(4); i > 0; i-- {
				keyIDs = append(keyIDs, next)
				ds = append(ds, v(true))
			}
			if ctx.Rng.Chance(10) {
				ds = append(ds, docArg{marker: "&allow-other-keys"})
			}
		}
		var auxIDs []int
		if ctx.Rng.Chance(25) {
			auxIDs = append(auxIDs, next)
			ds = append(ds, docArg{marker: "&aux"}, v(true))
		}
		// keywords standing among the positional arguments name a key parameter; for a lambda list with
		// &rest and &aux but no &key they name the &aux parameter (the binder leaves rest mode at ANY
		// keyword naming a later parameter)
		kwPool, kwChance := keyIDs, 6
		if len(keyIDs) == 0 && hasRest && len(auxIDs) > 0 {
			kwPool, kwChance = auxIDs, 25
		}
		var ll, body, gds []string
		bodySpelling := hasRest && ctx.Rng.Chance(35)
		if bodySpelling {
			ctx.Hist("rest-spelled-&body")
		}
		for _, d := range ds {
			switch {
			case d.marker != "":
				if d.marker == "&rest" && bodySpelling {
					ll = append(ll, "&body") // the same marker under its other name
				} else {
					ll = append(ll, d.marker)
				}
				gds = append(gds, fmt.Sprintf("{| d_name := %s; d_def := None |}", map[string]string{"&optional": "POptional", "&rest": "PRest", "&key": "PKey", "&aux": "PAux", "&allow-other-keys": "PAllow"}[d.marker]))
			case d.def != nil:
				ll = append(ll, fmt.Sprintf("(%s %d)", pnames[d.id], *d.def))
				gds = append(gds, fmt.Sprintf("{| d_name := PVar %d; d_def := Some (%d)%%Z |}", d.id, *d.def))
				body = append(body, fmt.Sprintf("(if (boundp '%s) %s :unbound)", pnames[d.id], pnames[d.id]))
			default:
				ll = append(ll, pnames[d.id])
				gds = append(gds, fmt.Sprintf("{| d_name := PVar %d; d_def := None |}", d.id))
				body = append(body, fmt.Sprintf("(if (boundp '%s) %s :unbound)", pnames[d.id], pnames[d.id]))
			}
		}
		fn++
		name := fmt.Sprintf("vfn%d", fn)
		def := fmt.Sprintf("(defun %s (%s) (list %s))", name, strings.Join(ll, " "), strings.Join(body, " "))
		if o := common.EvalIn(scope, def); o.Err != "" {
			ctx.Violate("defun with a well-formed lambda list failed", def, o.Err+": "+o.Msg, nil)
			continue
		}
		// a second name for the same definition, first defined with a different lambda list (required
		// parameters only, or &optional/&rest only) and a caller compiled against that earlier definition
		redef := ctx.Rng.Chance(45)
		for k := 0; k < perList; k++ {
			// argument vector: positional integers, then (if keys exist) keyword material
			var args, gargs []string
			npos := ctx.Rng.Intn(7)
			for i := 0; i < npos; i++ {
				if ctx.Rng.Chance(kwChance) && len(kwPool) > 0 {
					id := common.Pick(ctx.Rng, kwPool)
					args = append(args, ":"+pnames[id])
					gargs = append(gargs, fmt.Sprintf("AKw %d", id))
				} else if ctx.Rng.Chance(8) {
					args = append(args, "nil")
					gargs = append(gargs, "ANil")
				} else {
					z := 1 + ctx.Rng.Intn(30)
					args = append(args, fmt.Sprint(z))
					gargs = append(gargs, fmt.Sprintf("AInt %d", z))
				}
			}
			if len(keyIDs) > 0 || ctx.Rng.Chance(10) {
				for i := ctx.Rng.Intn(4); i > 0; i-- {
					id := next + 1 // unknown key
					if len(keyIDs) > 0 && ctx.Rng.Chance(88) {
						id = common.Pick(ctx.Rng, keyIDs)
					}
					if id >= len(pnames) {
						id = len(pnames) - 1
					}
					args = append(args, ":"+pnames[id])
					gargs = append(gargs, fmt.Sprintf("AKw %d", id))
					if !ctx.Rng.Chance(7) { // sometimes the value is missing
						if ctx.Rng.Chance(15) {
							args = append(args, "nil")
							gargs = append(gargs, "ANil")
						} else {
							z := 100 + ctx.Rng.Intn(50)
							args = append(args, fmt.Sprint(z))
							gargs = append(gargs, fmt.Sprintf("AInt %d", z))
						}
					}
				}
			}
			call := fmt.Sprintf("(%s %s)", name, strings.Join(args, " "))
			out := common.EvalTimeout(scope, call, 3*time.Second)
			if redef && k < 4 {
				// history: (defun f <other list>) (defun caller () (f args)) (defun f <this list>) (caller)
				other := common.Pick(ctx.Rng, []string{"(qa)", "(qa qb)", "(qa qb qc)", "()", "(&optional qa qb)", "(&rest qr)", "(qa &key qk)"})
				// fresh names per history: a name redefined more than once runs into another, recorded defect (C08)
				rname := fmt.Sprintf("vrf%d-%d", fn, k)
				cname := fmt.Sprintf("vcl%d-%d", fn, k)
				prog := fmt.Sprintf("(defun %s %s 0) (defun %s () (%s %s)) (defun %s (%s) (list %s)) (%s)",
					rname, other, cname, rname, strings.Join(args, " "), rname, strings.Join(ll, " "), strings.Join(body, " "), cname)
				o2 := common.EvalTimeout(scope, prog, 3*time.Second)
				ctx.Meta.Evaluations++
				ctx.Hist("redefinition-history")
				if o2.Err != out.Err || (o2.Err == "" && o2.Printed != out.Printed) || (o2.Err != "" && arityKind(o2.Msg) != arityKind(out.Msg)) {
					ctx.Violate("a call compiled before the function was redefined with another lambda list binds differently from the same call made afresh",
						prog, common.ShowOutcome(o2), "the outcome of "+call+": "+common.ShowOutcome(out))
				}
			}
			var gout, shown string
			switch {
			case out.Err == "":
				lst, _ := out.Value.(slip.List)
				var bs []string
				bi := 0
				for _, d := range ds {
					if d.marker != "" {
						continue
					}
					var val slip.Object
					if bi < len(lst) {
						val = lst[bi]
					}
					bi++
					bs = append(bs, fmt.Sprintf("(%d%%N, %s)", d.id, gValue(val)))
				}
				gout, shown = "OBound "+common.GList(bs), out.Printed
			case strings.HasPrefix(out.Msg, "Too many arguments"):
				gout, shown = "OErr KTooMany", "!too-many"
			case strings.HasPrefix(out.Msg, "Too few arguments"):
				gout, shown = "OErr KTooFew", "!too-few"
			case strings.Contains(out.Msg, "Missing value for key"):
				gout, shown = "OErr KFault", "!go-panic: "+out.Msg
			case out.Err == "type-error":
				gout, shown = "OErr KBadKey", "!type-error"
			default:
				gout, shown = "OErr KFault", "!"+out.Err+": "+out.Msg
			}
			term := fmt.Sprintf("(%s, %s, %s)", common.GList(gds), common.GList(gargs), gout)
			ctx.Meta.Evaluations++
			ctx.Hist("outcome:" + strings.SplitN(gout, " ", 3)[0] + strings.TrimPrefix(strings.SplitN(gout+" ", " ", 3)[1], "["))
			if !distinct[term] {
				distinct[term] = true
				terms = append(terms, term)
				d := map[string]any{"defun": def, "call": call, "result": shown}
				descs = append(descs, d)
				if len(terms)%211 == 1 {
					ctx.Sample(d)
				}
			}
		}
	}
	ctx.Meta.DistinctNontrivial = len(distinct)
	ctx.Meta.Rule = "lambda lists: 0-3 required x 0-2 &optional (60% with a literal default) x &rest (35%, a third of them spelled &body) x &key with 0-3 keys (50%, 10% &allow-other-keys) x &aux (25%); per list 14 (thorough 30) argument vectors: 0-6 positional integers (6% a keyword naming a key parameter instead; 25% a keyword naming the &aux parameter when the list has &rest and &aux but no &key) followed by 0-3 keyword/value pairs (12% unknown key, 7% missing value, duplicates possible); the body reports every parameter or :unbound; for 45% of the lambda lists the first four calls are repeated through a caller compiled while the function still had another lambda list (redefinition history); distinct = distinct (lambda list, argument vector) pairs"
	header := "From C04 Require Import Model Spec Corr.\nOpen Scope N_scope.\n"
	footer := "Definition res := Eval vm_compute in check_all cases.\nPrint res.\nDefinition gcount := Eval vm_compute in guard_count cases.\nPrint gcount.\n"
	ctx.WriteShards("cases", header, "case", footer, terms, descs, 16)
	ctx.ReplayKnownLisp()
	RunArity(ctx)
}

func arityKind(msg string) string {
	switch {
	case strings.HasPrefix(msg, "Too many arguments"):
		return "too-many"
	case strings.HasPrefix(msg, "Too few arguments"):
		return "too-few"
	}
	return "other"
}

func gValue(v slip.Object) string {
	switch t := v.(type) {
	case nil:
		return "VNil"
	case slip.Fixnum:
		return fmt.Sprintf("VInt (%d)%%Z", int64(t))
	case slip.Symbol:
		if t == ":unbound" {
			return "VUnbound"
		}
		for i, n := range pnames {
			if string(t) == ":"+n {
				return fmt.Sprintf("VKw %d", i)
			}
		}
		return "VUnbound"
	case slip.List:
		var xs []string
		for _, e := range t {
			switch te := e.(type) {
			case nil:
				xs = append(xs, "ANil")
			case slip.Fixnum:
				xs = append(xs, fmt.Sprintf("AInt (%d)%%Z", int64(te)))
			case slip.Symbol:
				id := 99
				for i, n := range pnames {
					if string(te) == ":"+n {
						id = i
					}
				}
				xs = append(xs, fmt.Sprintf("AKw %d", id))
			default:
				xs = append(xs, "AKw 99")
			}
		}
		return "VList " + common.GList(xs)
	}
	return "VUnbound"
}
