package main

import "verifharness/c10"

func init() { runners["C10"] = c10.Run }
