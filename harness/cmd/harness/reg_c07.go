package main

import "verifharness/c07"

func init() { runners["C07"] = c07.Run }
