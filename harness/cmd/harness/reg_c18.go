package main

import "verifharness/c18"

func init() { runners["C18"] = c18.Run }
