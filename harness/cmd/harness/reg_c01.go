package main

import "verifharness/c01"

func init() { runners["C01"] = c01.Run; runners["C01W"] = c01.Worker }
