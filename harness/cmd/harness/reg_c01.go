package main

import "verifharness/c01"

func init() { runners["C01"] = c01.Run }
