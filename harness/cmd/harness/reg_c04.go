package main

import "verifharness/c04"

func init() { runners["C04"] = c04.Run }
