package main

import "verifharness/c12"

func init() { runners["C12"] = c12.Run }
