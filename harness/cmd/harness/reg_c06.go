package main

import "verifharness/c06"

func init() { runners["C06"] = c06.Run }
