package main

import "verifharness/c14"

func init() { runners["C14"] = c14.Run }
