package main

import "verifharness/c13"

func init() { runners["C13"] = c13.Run }
