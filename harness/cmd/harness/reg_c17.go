package main

import "verifharness/c17"

func init() {
	runners["C17"] = c17.Run
	runners["C17W"] = c17.Worker
}
