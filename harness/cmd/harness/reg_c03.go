package main

import "verifharness/c03"

func init() { runners["C03"] = c03.Run }
