package main

import "verifharness/c15"

func init() { runners["C15"] = c15.Run }
