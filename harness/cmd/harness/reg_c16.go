package main

import "verifharness/c16"

func init() { runners["C16"] = c16.Run }
