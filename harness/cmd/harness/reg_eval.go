package main

import (
	"fmt"
	"os"
	"time"

	"github.com/ohler55/slip"
	"verifharness/common"
)

// harness eval --out DIR   : evaluates the Lisp programs named by $VERIF_EVAL (one per file, ':'-separated)
// each in a fresh scope, and prints the outcome the way known-finding witnesses record it. A probing aid.
func init() {
	runners["eval"] = func(ctx *common.Ctx) {
		for _, f := range os.Args[len(os.Args)-1:] {
			_ = f
		}
		for _, p := range splitList(os.Getenv("VERIF_EVAL")) {
			src, err := os.ReadFile(p)
			if err != nil {
				fmt.Println(p, "ERR", err)
				continue
			}
			o := common.EvalTimeout(slip.NewScope(), string(src), 5*time.Second)
			fmt.Printf("%s => %s   [%s] [%s]\n", p, common.ShowOutcome(o), o.Err, o.Msg)
		}
	}
}

func splitList(s string) (out []string) {
	cur := ""
	for _, c := range s {
		if c == ':' {
			if cur != "" {
				out = append(out, cur)
			}
			cur = ""
		} else {
			cur += string(c)
		}
	}
	if cur != "" {
		out = append(out, cur)
	}
	return
}
