package main

import "verifharness/c20"

func init() {
	runners["C20"] = c20.Run
	runners["C20W"] = c20.Worker
	runners["C20S"] = c20.SettingsWorker
	runners["C20T"] = c20.StashWorker
}
