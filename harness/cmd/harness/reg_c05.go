package main

import "verifharness/c05"

func init() { runners["C05"] = c05.Run }
