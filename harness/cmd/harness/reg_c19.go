package main

import "verifharness/c19"

func init() {
	runners["C19"] = c19.Run
	runners["C19W"] = c19.Worker
	runners["C19P"] = c19.Probe
}
