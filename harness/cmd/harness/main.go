// harness <property> --seed N --tier quick|thorough --out DIR [--known FILE]
package main

import (
	"encoding/json"
	"flag"
	"fmt"
	"os"

	"verifharness/common"
)

var runners = map[string]func(*common.Ctx){}

func main() {
	if len(os.Args) < 2 {
		fmt.Fprintln(os.Stderr, "usage: harness <property> [flags]")
		os.Exit(2)
	}
	prop := os.Args[1]
	fs := flag.NewFlagSet("harness", flag.ExitOnError)
	seed := fs.Uint64("seed", 1, "seed")
	tier := fs.String("tier", "quick", "quick|thorough")
	out := fs.String("out", "", "output directory")
	known := fs.String("known", "", "known findings file")
	_ = fs.Parse(os.Args[2:])
	run, ok := runners[prop]
	if !ok {
		fmt.Fprintln(os.Stderr, "unknown property", prop)
		os.Exit(2)
	}
	if err := os.MkdirAll(*out, 0o755); err != nil {
		panic(err)
	}
	ctx := &common.Ctx{Prop: prop, Seed: *seed, Tier: *tier, OutDir: *out, Rng: common.NewRng(*seed),
		Known: map[string]json.RawMessage{}}
	if *known != "" {
		if data, err := os.ReadFile(*known); err == nil {
			var kf struct {
				Findings []struct {
					ID      string          `json:"id"`
					Status  string          `json:"status"`
					Witness json.RawMessage `json:"witness"`
				} `json:"findings"`
			}
			if err = json.Unmarshal(data, &kf); err != nil {
				panic(err)
			}
			for _, f := range kf.Findings {
				ctx.Known[f.ID] = f.Witness
			}
		}
	}
	run(ctx)
	ctx.Finish()
}
