package main

import "verifharness/c09"

func init() { runners["C09"] = c09.Run; runners["C09W"] = c09.Worker }
