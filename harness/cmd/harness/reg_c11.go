package main

import "verifharness/c11"

func init() { runners["C11"] = c11.Run }
