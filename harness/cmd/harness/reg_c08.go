package main

import "verifharness/c08"

func init() { runners["C08"] = c08.Run }
