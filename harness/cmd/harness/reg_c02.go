package main

import "verifharness/c02"

func init() { runners["C02"] = c02.Run }
