package c18

import (
	"fmt"
	"io"
	"strings"
	"time"

	"github.com/ohler55/slip"
	"github.com/ohler55/slip/pkg/flavors"
	"verifharness/common"
)

// chunkReader hands out the text in pieces of random length (1..9 bytes, sometimes one large piece), so that
// tokens, escapes and multi-byte characters are cut at every possible place between two reads.
type chunkReader struct {
	data []byte
	r    *common.Rng
	big  bool
}

func (c *chunkReader) Read(p []byte) (int, error) {
	if len(c.data) == 0 {
		return 0, io.EOF
	}
	n := 1 + c.r.Intn(9)
	if c.big {
		n = 4096
	}
	if n > len(c.data) {
		n = len(c.data)
	}
	if n > len(p) {
		n = len(p)
	}
	copy(p, c.data[:n])
	c.data = c.data[n:]
	return n, nil
}

// multiStream: 1..4 documents of different kinds in one input, delivered by json-parse to a function that keeps
// the bags or to a channel; the bags are looked at only after json-parse has returned: contents in order, and
// that no two of them are the same object or share their top-level container.
func (h *harness) multiStream(n int) {
	ctx := h.ctx
	for i := 0; i < n; i++ {
		nd := 2 + ctx.Rng.Intn(3)
		if ctx.Rng.Chance(10) {
			nd = ctx.Rng.Intn(2) // no document at all, or one
		}
		asJSON := ctx.Rng.Chance(35)
		var docs []any
		var terms []string
		var text strings.Builder
		for k := 0; k < nd; k++ {
			o := genOpts{maxDepth: 3, bigNums: true, floats: true}
			doc := genDoc(ctx.Rng, o, ctx.Rng.Intn(4), ctx.Hist)
			t, ok := jvTerm(doc)
			if !ok {
				panic("generated document outside the modelled universe")
			}
			docs = append(docs, doc)
			terms = append(terms, t)
			piece, _ := spell(ctx.Rng, doc, asJSON)
			if k > 0 {
				// ojg loses a document that follows a number or bare token without a separator (known finding
				// C18-multi-doc-scalar-bracket): documents are separated unless the previous one ended with a bracket
				prev := strings.TrimRight(text.String(), " \t\r\n,")
				tight := strings.HasSuffix(prev, "]") || strings.HasSuffix(prev, "}")
				if !tight || ctx.Rng.Chance(60) {
					text.WriteString(common.Pick(ctx.Rng, []string{" ", "\n", "\n\n", "\t", "\r\n"}))
				}
			}
			text.WriteString(piece)
			if ctx.Rng.Chance(8) {
				// push the next document across ojg's 4096-byte read buffer
				text.WriteString(strings.Repeat(" ", 4000+ctx.Rng.Intn(200)))
			}
		}
		txt := text.String()
		edge := false
		for _, d := range docs {
			edge = edge || hasEdgeLiteral(d)
		}
		scope := slip.NewScope()
		scope.Let(slip.Symbol("acc"), nil)
		var input slip.Object
		inKind := ""
		switch x := ctx.Rng.Intn(10); {
		case x < 4 || edge:
			input, inKind = slip.String(txt), "string"
		case x < 5:
			input, inKind = slip.Octets(txt), "octets"
		case x < 8:
			input, inKind = slip.NewInputStream(&chunkReader{data: []byte(txt), r: ctx.Rng}), "stream in small chunks"
		default:
			input, inKind = slip.NewInputStream(&chunkReader{data: []byte(txt), r: ctx.Rng, big: true}), "stream"
		}
		scope.Let(slip.Symbol("in"), input)
		strict := ""
		if asJSON && !edge && ctx.Rng.Chance(50) {
			strict = " t"
		}
		var src, recv string
		_, isStream := input.(*slip.InputStream)
		switch x := ctx.Rng.Intn(10); {
		case x < 3 && isStream && strict == "":
			recv, src = "each-bag", "(progn (each-bag in (lambda (b) (setq acc (cons b acc)))) (reverse acc))"
		case x < 5:
			recv, src = "lambda", "(progn (json-parse (lambda (b) (setq acc (cons b acc))) in"+strict+") (reverse acc))"
		case x < 7:
			recv = "named function"
			src = "(progn (defun c18-keep (b) (setq acc (cons b acc))) (json-parse 'c18-keep in" + strict + ") (reverse acc))"
		default:
			recv = "channel"
			src = fmt.Sprintf("(let ((ch (make-channel 8))) (json-parse ch in%s) (dotimes (k %d) (setq acc (cons (channel-pop ch) acc))) (reverse acc))", strict, nd)
		}
		ctx.Hist("multi:" + recv)
		ctx.Hist("multi:input=" + inKind)
		ctx.Hist(fmt.Sprintf("multi:docs=%d", nd))
		out := common.EvalTimeout(scope, src, 10*time.Second)
		shown := make([]string, len(docs))
		for k, d := range docs {
			shown[k] = show(d)
		}
		desc := map[string]any{"stream": "multi-document", "docs": shown, "text": txt, "lisp": src, "input": inKind}
		delivered := "None"
		distinct := true
		if out.Err != "" {
			desc["delivered"] = "error: " + out.Err + ": " + out.Msg
			if out.Err == "timeout" {
				ctx.Violate("json-parse hung", desc, "timeout", "the documents")
				continue
			}
		} else {
			l, _ := out.Value.(slip.List)
			var ts, sh []string
			seen := map[*flavors.Instance]bool{}
			ok := true
			for _, e := range l {
				inst, isBag := e.(*flavors.Instance)
				if !isBag {
					ok = false
					break
				}
				if seen[inst] {
					distinct = false
				}
				seen[inst] = true
				t, fine := jvTerm(inst.Any)
				ok = ok && fine
				ts = append(ts, t)
				sh = append(sh, show(inst.Any))
			}
			if !ok {
				ctx.Violate("json-parse delivered something that is not a bag of JSON data", desc, slip.ObjectString(out.Value), "bags")
				continue
			}
			// a change made to one delivered bag must not show in another
			if len(l) >= 2 {
				first, last := l[0].(*flavors.Instance), l[len(l)-1].(*flavors.Instance)
				before := show(first.Any)
				scope.Let(slip.Symbol("lastbag"), last)
				_ = common.EvalIn(scope, "(bag-set lastbag 424242)")
				if show(first.Any) != before {
					distinct = false
				}
			}
			delivered = "(Some " + common.GList(ts) + ")"
			desc["delivered"] = sh
		}
		desc["distinct"] = distinct
		h.add(fmt.Sprintf("CMulti %s %s %s %s", common.GList(terms), gBytes(txt), delivered, common.GBool(distinct)), desc, "M|"+txt)
	}
}
